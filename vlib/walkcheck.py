"""Run many walker histories in parallel worker processes and fold their findings into a Ctx."""
import os, shutil, functools
from harness import Part, pmap, SAN_ENV
from p11client import Exec, Died, Hang, mkconf
from walker import Walk, DEFAULT_WEIGHTS

def make_new_exec(paths, ck):
    def new_exec(cfg, d, backend='file', extra='', reuse_dir=False):
        p = paths[cfg]
        conf = os.path.join(d, 'softhsm2.conf')
        if not (reuse_dir and os.path.exists(conf)): conf = mkconf(d, backend, extra)
        n = len([f for f in os.listdir(d) if f.startswith('stderr')])
        return Exec(p['exe'], p['lib'], conf, ck, env=dict(SAN_ENV), stderr=f'{d}/stderr{n}.log', trace=f'{d}/trace{n}.jsonl')
    return new_exec

def one_walk(job):
    """job: dict(paths, hdr, seed, steps, weights, backend, cfg, monitors, props, scratch, hook)"""
    from ck import CK
    ck = CK(job['hdr']); part = Part(); d = os.path.join(job['scratch'], 'w%d' % job['seed']); shutil.rmtree(d, ignore_errors=True); os.makedirs(d)
    w = None
    try:
        w = Walk(job['paths'], ck, job['seed'], d, backend=job['backend'], cfg=job['cfg'], weights=job['weights'], new_exec=make_new_exec(job['paths'], ck), ntok=job.get('ntok', 2), max_sessions=job.get('max_sessions', 5))
        if job['backend'] == 'db': w.weights.pop('copy', None)   # C_CopyObject on the db back-end keeps only CKA_CLASS (open known finding of C05/C08/C20): the copy would not be the object the model thinks it is
        hook = job.get('hook')
        if hook: hook(w, job, part)
        else: w.run(job['steps'], monitors=job['monitors'], stop_on=set(job['props']) | {'MODEL'})
    except Died as e:
        part.observe('side:C17 library terminated the host', {'kind': e.kind(), 'fn': e.fn, 'where': e.where(), 'seed': job['seed']}); part.inconc(f'executor died ({e.kind()} in {e.fn}) seed={job["seed"]}')
    except Hang as e:
        part.inconc(f'executor hang seed={job["seed"]}')
    except AssertionError as e:
        part.inconc(f'setup failed seed={job["seed"]}: {e!r}')
    if w is not None:
        for f in w.findings:
            if f.prop in job['props']: part.violation(f.key, f.what, {'seed': job['seed'], 'backend': job['backend'], 'info': f.info, 'trace': None})
            elif f.prop == 'MODEL': part.inconc(f'model inconsistency: {f!r}')
            else: part.observe(f'side:{f.prop} {f.key}', {'what': f.what, 'seed': job['seed']})
        for prop, key in w.cover:
            if prop in job['props']: part.distinct.add((prop,) + (key if isinstance(key, tuple) else (key,)))
        w.stats['steps'] = max(w.stats['steps'], len(w.history))      # hook-driven walks call the ops directly
        part.evaluations += w.stats['probes'] + w.stats['steps']
        for k, v in w.stats.items(): part.count('walk_' + k, v)
        part.count('walks', 1)
        if len(part.samples) < 1: part.samples.append({'seed': job['seed'], 'backend': job['backend'], 'history_head': [repr(h) for h in w.history[:25]]})
        # UBSan diagnostics are observations here (C17 owns them)
        for cat, loc in w.x.ubsan_reports()[:20]: part.observe('side:ubsan ' + loc, cat)
        w.close()
    shutil.rmtree(d, ignore_errors=True)
    return part

def run_walks(ctx, props, n_walks, steps, weights=None, backends=('file',), cfg='asan', monitors=('state', 'handles'), hook=None, **kw):
    ctx.need(cfg)
    jobs = []
    for i in range(n_walks):
        jobs.append(dict(paths=ctx.paths, hdr=ctx.paths[cfg]['hdr'], seed=ctx.seed * 100003 + i, steps=steps, weights=weights or DEFAULT_WEIGHTS,
                         backend=backends[i % len(backends)], cfg=cfg, monitors=monitors, props=list(props), scratch=ctx.scratch, hook=hook, **kw))
    for part in pmap(one_walk, jobs, ctx.nproc): ctx.merge(part)
