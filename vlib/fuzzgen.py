"""Hostile-but-pointer-valid PKCS#11 request generator (C17 API fuzz).

Every generated request is `base` (a well-formed request for the current state) plus 0..3 `edits`; an edit is
(tag, field, value): it replaces ONE top-level field of the request by a hostile value and carries a coarse,
stable tag (`handle:key=stale`, `mechparam:gcm:tagbits=huge`, `tmpl=wrong-size`, ...).  The tag is what the
canonical death key is made of; single edits can be re-applied to the base for ablation.

The precondition of C17 is respected by construction: lengths only ever lie DOWNWARDS (the executor enforces it
too), NULL only where PKCS#11 permits it (output buffers as size queries, pTemplate with count 0, pPin/pData with
length 0, pParameter with length 0), no embedded garbage pointers (raw parameter blobs never have the size of a
parameter struct unless they are all-zero)."""
import copy

U64 = (1 << 64) - 1
ALL_FNS = ['C_Initialize', 'C_Finalize', 'C_GetInfo', 'C_GetFunctionList', 'C_GetSlotList', 'C_GetSlotInfo', 'C_GetTokenInfo', 'C_GetMechanismList',
           'C_GetMechanismInfo', 'C_InitToken', 'C_InitPIN', 'C_SetPIN', 'C_OpenSession', 'C_CloseSession', 'C_CloseAllSessions', 'C_GetSessionInfo',
           'C_GetOperationState', 'C_SetOperationState', 'C_Login', 'C_Logout', 'C_CreateObject', 'C_CopyObject', 'C_DestroyObject', 'C_GetObjectSize',
           'C_GetAttributeValue', 'C_SetAttributeValue', 'C_FindObjectsInit', 'C_FindObjects', 'C_FindObjectsFinal', 'C_EncryptInit', 'C_Encrypt',
           'C_EncryptUpdate', 'C_EncryptFinal', 'C_DecryptInit', 'C_Decrypt', 'C_DecryptUpdate', 'C_DecryptFinal', 'C_DigestInit', 'C_Digest',
           'C_DigestUpdate', 'C_DigestKey', 'C_DigestFinal', 'C_SignInit', 'C_Sign', 'C_SignUpdate', 'C_SignFinal', 'C_SignRecoverInit', 'C_SignRecover',
           'C_VerifyInit', 'C_Verify', 'C_VerifyUpdate', 'C_VerifyFinal', 'C_VerifyRecoverInit', 'C_VerifyRecover', 'C_DigestEncryptUpdate',
           'C_DecryptDigestUpdate', 'C_SignEncryptUpdate', 'C_DecryptVerifyUpdate', 'C_GenerateKey', 'C_GenerateKeyPair', 'C_WrapKey', 'C_UnwrapKey',
           'C_DeriveKey', 'C_SeedRandom', 'C_GenerateRandom', 'C_GetFunctionStatus', 'C_CancelFunction', 'C_WaitForSlotEvent']
assert len(ALL_FNS) == 68 and len(set(ALL_FNS)) == 68

# sizes of the parameter structs on LP64 (a raw blob of exactly this size would smuggle garbage pointers)
STRUCT_SIZES = {24, 32, 40, 48, 8 + 16, 16}   # PSS 24, CTR 24, ECDH1 40, OAEP 40, GCM 48, KDSTR 16, DES_CBC_DATA 24, AES_CBC_DATA 32

def kclass(kind):
    """coarse class of a keys_c17 kind name"""
    if kind is None: return 'unknown'
    if kind.startswith('aes'): return 'aes'
    if kind in ('des3', 'des2', 'des'): return kind
    if kind.startswith('generic'): return 'generic'
    if kind == 'x509': return 'cert'
    if kind == 'data': return 'data'
    if kind.endswith('-params'): return 'params'
    if ':' in kind:
        b, h = kind.split(':'); fam = 'rsa' if b.startswith('rsa') else 'ec' if b.startswith('ec_') else 'ed' if b.startswith('ed') else 'dsa' if b.startswith('dsa') else 'dh'
        return fam + '-' + h
    return 'unknown'

HASHES = ['CKM_MD5', 'CKM_SHA_1', 'CKM_SHA224', 'CKM_SHA256', 'CKM_SHA384', 'CKM_SHA512']
# name -> (parameter kind, operations, key classes).  E encrypt/decrypt, S sign/verify, R recover, D digest, W wrap, G keygen, P pairgen, V derive
MECHS = {}
def _m(names, pk, ops, keys):
    for n in names.split(): MECHS[n] = (pk, ops, keys)
_m('CKM_AES_ECB', 'none', 'E', ['aes']); _m('CKM_AES_CBC CKM_AES_CBC_PAD', 'iv16', 'EW', ['aes']); _m('CKM_AES_CTR', 'ctr', 'E', ['aes']); _m('CKM_AES_GCM', 'gcm', 'E', ['aes'])
_m('CKM_DES3_ECB', 'none', 'E', ['des3', 'des2']); _m('CKM_DES3_CBC CKM_DES3_CBC_PAD', 'iv8', 'EW', ['des3', 'des2'])
_m('CKM_DES_ECB', 'none', 'E', ['des']); _m('CKM_DES_CBC CKM_DES_CBC_PAD', 'iv8', 'E', ['des'])
_m('CKM_RSA_PKCS', 'none', 'ESRW', ['rsa']); _m('CKM_RSA_X_509', 'none', 'ESR', ['rsa']); _m('CKM_RSA_PKCS_OAEP', 'oaep', 'EW', ['rsa'])
_m('CKM_MD5_RSA_PKCS CKM_SHA1_RSA_PKCS CKM_SHA224_RSA_PKCS CKM_SHA256_RSA_PKCS CKM_SHA384_RSA_PKCS CKM_SHA512_RSA_PKCS', 'none', 'S', ['rsa'])
_m('CKM_RSA_PKCS_PSS CKM_SHA1_RSA_PKCS_PSS CKM_SHA224_RSA_PKCS_PSS CKM_SHA256_RSA_PKCS_PSS CKM_SHA384_RSA_PKCS_PSS CKM_SHA512_RSA_PKCS_PSS', 'pss', 'S', ['rsa'])
_m('CKM_MD5_HMAC CKM_SHA_1_HMAC CKM_SHA224_HMAC CKM_SHA256_HMAC CKM_SHA384_HMAC CKM_SHA512_HMAC', 'none', 'S', ['generic'])
_m('CKM_AES_CMAC', 'none', 'S', ['aes']); _m('CKM_DES3_CMAC', 'none', 'S', ['des3', 'des2'])
_m('CKM_DSA CKM_DSA_SHA1 CKM_DSA_SHA224 CKM_DSA_SHA256 CKM_DSA_SHA384 CKM_DSA_SHA512', 'none', 'S', ['dsa'])
_m('CKM_ECDSA', 'none', 'S', ['ec']); _m('CKM_EDDSA', 'none', 'S', ['ed'])
_m(' '.join(HASHES), 'none', 'D', [])
_m('CKM_AES_KEY_WRAP CKM_AES_KEY_WRAP_PAD', 'none', 'W', ['aes'])
_m('CKM_AES_KEY_GEN CKM_DES_KEY_GEN CKM_DES2_KEY_GEN CKM_DES3_KEY_GEN CKM_GENERIC_SECRET_KEY_GEN CKM_DSA_PARAMETER_GEN CKM_DH_PKCS_PARAMETER_GEN', 'none', 'G', [])
_m('CKM_RSA_PKCS_KEY_PAIR_GEN CKM_EC_KEY_PAIR_GEN CKM_EC_EDWARDS_KEY_PAIR_GEN CKM_DSA_KEY_PAIR_GEN CKM_DH_PKCS_KEY_PAIR_GEN', 'none', 'P', [])
_m('CKM_ECDH1_DERIVE', 'ecdh1', 'V', ['ec-priv', 'ed-priv']); _m('CKM_DH_PKCS_DERIVE', 'dhpub', 'V', ['dh-priv'])
_m('CKM_AES_ECB_ENCRYPT_DATA', 'kdstr', 'V', ['aes']); _m('CKM_DES3_ECB_ENCRYPT_DATA', 'kdstr', 'V', ['des3', 'des2']); _m('CKM_DES_ECB_ENCRYPT_DATA', 'kdstr', 'V', ['des'])
_m('CKM_AES_CBC_ENCRYPT_DATA', 'cbcdata16', 'V', ['aes']); _m('CKM_DES3_CBC_ENCRYPT_DATA', 'cbcdata8', 'V', ['des3', 'des2']); _m('CKM_DES_CBC_ENCRYPT_DATA', 'cbcdata8', 'V', ['des'])
_m('CKM_CONCATENATE_BASE_AND_KEY', 'hkey', 'V', ['generic', 'aes']); _m('CKM_CONCATENATE_BASE_AND_DATA CKM_CONCATENATE_DATA_AND_BASE', 'kdstr', 'V', ['generic', 'aes'])
UNKNOWN_MECHS = [0xFFFFFFFF, 0x80000001, U64, 0x7FFFFFFF, 0x00001104 + 0x900, 0, 0x1082 ^ 0x8000, 0x00000220, 0x00000350, 0x00001200, 0x00000370, 0x00000380]

SIZES = [0, 1, 7, 8, 15, 16, 17, 20, 24, 31, 32, 33, 48, 63, 64, 65, 100, 117, 127, 128, 129, 245, 255, 256, 257, 512, 1000, 4096]
HUGE = [65536, 65537, 262144, 1 << 20]
HUGE_U = [1 << 31, (1 << 31) - 1, 1 << 32, (1 << 32) - 1, 1 << 63, U64, U64 - 1, U64 - 7, U64 - 15]

def op_mechs(op): return [n for n, (pk, ops, ks) in MECHS.items() if op in ops]

class Obj:
    __slots__ = ('h', 'kind', 'ti', 'token', 'private')
    def __init__(s, h, kind, ti, token=False, private=False): s.h = h; s.kind = kind; s.ti = ti; s.token = token; s.private = private
    def __repr__(s): return f'<{s.kind}#{s.h} t{s.ti}>'

class FState:
    """what the generator believes about the executor's state (only used to aim; never an oracle)"""
    def __init__(s):
        s.init = True; s.slots = []; s.sessions = {}; s.closed = []; s.objs = []; s.stale = []; s.op = {}; s.pins = {}; s.find = set()
    def live_sessions(s, ti=None): return [h for h, d in s.sessions.items() if ti is None or d['ti'] == ti]
    def pick_objs(s, classes=None, ti=None):
        return [o for o in s.objs if (classes is None or kclass(o.kind) in classes or kclass(o.kind).split('-')[0] in classes) and (ti is None or o.ti == ti)]

# ------------------------------------------------------------------------------------------------ hostile values
class Hostile:
    """producers of hostile values; each returns (class label, value)"""
    def __init__(s, rnd, ck, st, keys): s.rnd = rnd; s.ck = ck; s.st = st; s.K = keys
    def blob(s, n):
        if n <= 4096: return s.rnd.randbytes(n).hex()
        return (s.rnd.randbytes(64) * (n // 64 + 1))[:n].hex()
    # ---- handles
    def session_handle(s, good):
        r = s.rnd; st = s.st; c = r.randrange(7)
        if c == 0: return 'zero', 0
        if c == 1: return 'max', U64
        if c == 2 and st.closed: return 'stale', r.choice(st.closed)
        if c == 3 and st.objs: return 'object-as-session', r.choice(st.objs).h
        if c == 4:
            other = [h for h, d in st.sessions.items() if h != good and d['ti'] != st.sessions.get(good, {'ti': 0})['ti']]
            if other: return 'other-token', r.choice(other)
        if c == 5: return 'random', r.choice([1 << 31, 1 << 32, 0xdeadbeef, max(st.sessions or [1]) + r.randrange(1, 50), r.getrandbits(64)])
        return 'stale', (r.choice(st.closed) if st.closed else 99999)
    def object_handle(s, good, field='o'):
        r = s.rnd; st = s.st; c = r.randrange(8)
        if c == 0: return 'zero', 0
        if c == 1: return 'max', U64
        if c == 2 and st.stale: return 'stale', r.choice(st.stale)
        if c == 3 and st.sessions: return 'session-as-object', r.choice(list(st.sessions))
        if c == 4:
            o = [o for o in st.objs if o.ti != 0]
            if o: return 'other-token', r.choice(o).h
        if c == 5: return 'random', r.choice([1 << 31, 1 << 32, 0xdeadbeef, r.getrandbits(64), max([o.h for o in st.objs] or [1]) + r.randrange(1, 50)])
        if st.objs:   # a live object of ANOTHER kind (mismatched key type / class)
            o = r.choice(st.objs); return 'kind:' + kclass(o.kind), o.h
        return 'zero', 0
    def slot(s, good):
        r = s.rnd; c = r.randrange(5)
        if c == 0: return 'max', U64
        if c == 1: return 'free-slot', (s.st.slots[-1] if s.st.slots else 2)
        if c == 2: return 'random', r.choice([1 << 31, (1 << 31) - 1, 1 << 32, 12345, r.getrandbits(64), r.getrandbits(31)])
        if c == 3: return 'small', r.randrange(0, 8)
        return 'unknown', 777
    # ---- input data / output buffers / scalars
    def inbuf(s, good=None):
        r = s.rnd; c = r.randrange(9)
        if c == 0: return '0', ''
        if c == 1: return 'null0', {'null': True, 'len': 0}
        if c == 2: return '1', s.blob(1)
        if c == 3: return 'huge', s.blob(r.choice(HUGE))
        if c == 4 and isinstance(good, str) and len(good) >= 4: return 'lowered', {'hex': good, 'len': r.randrange(0, len(good) // 2)}
        if c == 5 and isinstance(good, str) and len(good) >= 2: return 'plus1', good + '00'
        if c == 6 and isinstance(good, str) and len(good) >= 4: return 'minus1', good[:-2]
        if c == 7 and isinstance(good, str) and len(good) >= 2:
            b = bytearray.fromhex(good); i = r.randrange(len(b)); b[i] ^= 1 << r.randrange(8); return 'bitflip', b.hex()
        return 'size', s.blob(r.choice(SIZES))
    def outbuf(s):
        r = s.rnd; c = r.randrange(6)
        if c == 0: return 'null', None
        if c == 1: return '0', 0
        if c == 2: return '1', 1
        if c == 3: return 'huge', r.choice(HUGE)
        return 'size', r.choice(SIZES)
    def ulong(s):
        r = s.rnd; c = r.randrange(4)
        if c == 0: return 'zero', 0
        if c == 1: return 'huge', r.choice(HUGE_U)
        if c == 2: return 'small', r.randrange(0, 16)
        return 'random', r.getrandbits(r.choice([8, 16, 31, 32, 64]))
    def pin(s, good):
        r = s.rnd; c = r.randrange(8)
        if c == 0: return '0', ''
        if c == 1: return 'null0', {'null': True, 'len': 0}
        if c == 2: return 'short', s.blob(r.randrange(1, 4))
        if c == 3: return 'long', s.blob(r.choice([255, 256, 257, 1024, 10000, 65536]))
        if c == 4 and good: return 'lowered', {'hex': good, 'len': r.randrange(0, len(good) // 2)}
        if c == 5 and good: return 'nul-inside', good[:4] + '00' + good[4:]
        if c == 6: return 'non-ascii', bytes(r.randrange(128, 256) for _ in range(r.randrange(4, 20))).hex()
        return 'wrong', b'not-the-pin'.hex()
    # ---- mechanisms
    def wf_param(s, pk, modlen=128):
        r = s.rnd; ck = s.ck
        if pk == 'none': return None
        if pk == 'iv16': return {'hex': s.blob(16)}
        if pk == 'iv8': return {'hex': s.blob(8)}
        if pk == 'ctr': return {'ctr': {'bits': r.choice([32, 64, 128]), 'cb': s.blob(16)}}
        if pk == 'gcm': return {'gcm': {'iv': s.blob(12), 'aad': s.blob(r.choice([0, 5, 16])), 'tagbits': r.choice([96, 104, 112, 120, 128])}}
        if pk == 'pss':
            h = r.choice(['SHA_1', 'SHA224', 'SHA256', 'SHA384', 'SHA512']); mg = {'SHA_1': 'CKG_MGF1_SHA1'}.get(h, 'CKG_MGF1_' + h)
            return {'pss': {'hash': ck['CKM_' + h], 'mgf': ck[mg], 'slen': r.choice([0, 20, 32])}, '_hash': h}
        if pk == 'oaep': return {'oaep': {'hash': ck.CKM_SHA_1, 'mgf': ck.CKG_MGF1_SHA1, 'source': 1}}
        if pk == 'ecdh1':
            peer = r.choice(['ec_p256b', 'ec_p384b', 'ec_p521b', 'ed25519b']); return {'ecdh1': {'kdf': 1, 'public': s.K.RAW[peer]['CKA_EC_POINT']}}
        if pk == 'dhpub': return {'hex': s.K.RAW['dh1024b']['CKA_VALUE']}
        if pk == 'kdstr': return {'kdstr': s.blob(r.choice([16, 32, 48]))}
        if pk == 'cbcdata16': return {'cbcdata': {'iv': s.blob(16), 'data': s.blob(r.choice([16, 32]))}}
        if pk == 'cbcdata8': return {'cbcdata': {'iv': s.blob(8), 'data': s.blob(r.choice([8, 24, 32]))}}
        if pk == 'hkey':
            o = s.st.pick_objs({'generic', 'aes'}); return {'hkey': (r.choice(o).h if o else 0)}
        raise KeyError(pk)
    def hostile_param(s, pk):
        """-> (class label, parameter dict or None)"""
        r = s.rnd; ck = s.ck; c = r.randrange(10)
        # generic shapes first: raw blob of an odd size, all-zero struct, lowered length, missing parameter
        if c == 0:
            n = r.choice([x for x in [1, 4, 7, 8, 12, 15, 17, 23, 25, 31, 33, 39, 41, 47, 49, 56, 64, 100, 4096, 65536] if x not in STRUCT_SIZES and not (pk == 'iv16' and x == 16) and not (pk == 'iv8' and x == 8)])
            return 'raw=%s' % ('huge' if n > 4096 else 'odd-size'), {'hex': s.blob(n)}
        if c == 1 and pk not in ('none', 'iv16', 'iv8', 'dhpub'):
            n = {'pss': 24, 'ctr': 24, 'ecdh1': 40, 'oaep': 40, 'gcm': 48, 'kdstr': 16, 'cbcdata8': 24, 'cbcdata16': 32, 'hkey': 8}[pk]; return 'raw=zero-struct', {'hex': '00' * n}
        if c == 2 and pk != 'none':
            p = s.wf_param(pk); p = {k: v for k, v in p.items() if not k.startswith('_')}
            full = {'iv16': 16, 'iv8': 8, 'pss': 24, 'ctr': 24, 'ecdh1': 40, 'oaep': 40, 'gcm': 48, 'kdstr': 16, 'cbcdata8': 24, 'cbcdata16': 32, 'hkey': 8, 'dhpub': 128}[pk]
            p['plen'] = r.choice([0, 1, full // 2, full - 1]); return 'plen=lowered', p
        if c == 3 and pk != 'none': return 'absent', None
        if pk == 'none': return 'unexpected', {'hex': s.blob(r.choice([1, 8, 12, 17, 100, 4096]))}
        if pk in ('iv16', 'iv8'):
            n = r.choice([0, 1, 7, 9, 15, 17, 32, 4096] + ([8] if pk == 'iv16' else [16])); return 'ivlen=%s' % ('0' if n == 0 else 'wrong'), {'hex': s.blob(n)}
        if pk == 'ctr':
            f = r.randrange(2)
            if f == 0: b = r.choice([0, 1, 127, 129, 256, 1 << 31, U64]); return 'bits=%s' % ('0' if b == 0 else 'huge' if b > 128 else 'odd'), {'ctr': {'bits': b, 'cb': s.blob(16)}}
            return 'cb=short', {'ctr': {'bits': 128, 'cb': s.blob(r.choice([0, 1, 15]))}}
        if pk == 'gcm':
            g = {'iv': s.blob(12), 'aad': s.blob(8), 'tagbits': 128}; f = r.randrange(5)
            if f == 0: n = r.choice([0, 1, 8, 16, 64, 4096, 65536]); g['iv'] = s.blob(n); lab = 'ivlen=%s' % ('0' if n == 0 else 'huge' if n > 64 else 'odd')
            elif f == 1: g.pop('iv'); lab = 'iv=null'
            elif f == 2: g['ivbits'] = r.choice([0, 1, 95, 97, 1 << 31, U64]); lab = 'ivbits=mismatch'
            elif f == 3: n = r.choice([0, 1, 4096, 65536, 1 << 20]); (g.pop('aad') if n == 0 else g.__setitem__('aad', s.blob(n))); lab = 'aad=%s' % ('null' if n == 0 else 'huge' if n > 4096 else 'size')
            else: b = r.choice([0, 1, 7, 8, 32, 64, 95, 127, 129, 136, 256, 1 << 31, U64]); g['tagbits'] = b; lab = 'tagbits=%s' % ('0' if b == 0 else 'huge' if b > 128 else 'odd')
            if f != 0 and r.random() < 0.2: g['ivlen'] = r.randrange(0, 12); lab += '+ivlen-lowered'
            return lab, {'gcm': g}
        if pk == 'pss':
            p = {'hash': ck.CKM_SHA256, 'mgf': ck.CKG_MGF1_SHA256, 'slen': 32}; f = r.randrange(4)
            if f == 0: p['hash'] = r.choice([0, U64, ck.CKM_MD5, ck.CKM_AES_CBC, ck.CKM_SHA512, 0xFFFFFFFF]); lab = 'hash=bad'
            elif f == 1: p['mgf'] = r.choice([0, U64, 99, ck.CKG_MGF1_SHA1, 0xFFFFFFFF]); lab = 'mgf=bad'
            elif f == 2: p['slen'] = r.choice([1 << 31, U64, U64 - 31, 1 << 32, 1 << 63, 4096, 65536]); lab = 'slen=huge'
            else: p['slen'] = r.choice([1, 62, 63, 94, 95, 96, 97, 126, 127, 128, 190, 222, 223, 224, 256]); lab = 'slen=near-modlen'
            return lab, {'pss': p}
        if pk == 'oaep':
            p = {'hash': ck.CKM_SHA_1, 'mgf': ck.CKG_MGF1_SHA1, 'source': 1}; f = r.randrange(4)
            if f == 0: p['hash'] = r.choice([0, U64, ck.CKM_SHA256, ck.CKM_MD5]); lab = 'hash=other'
            elif f == 1: p['mgf'] = r.choice([0, U64, ck.CKG_MGF1_SHA256]); lab = 'mgf=other'
            elif f == 2: p['source'] = r.choice([0, 2, U64]); lab = 'source=bad'
            else: p['data'] = s.blob(r.choice([1, 16, 4096, 65536])); lab = 'sourcedata=present'
            return lab, {'oaep': p}
        if pk == 'ecdh1':
            K = s.K.RAW; p = {'kdf': 1, 'public': K['ec_p256b']['CKA_EC_POINT']}; f = r.randrange(8)
            if f == 0: p['kdf'] = r.choice([0, 2, 5, U64]); lab = 'kdf=bad'
            elif f == 1: p['shared'] = s.blob(r.choice([1, 32, 65536])); lab = 'shared=present'
            elif f == 2: p.pop('public'); lab = 'public=null'
            elif f == 3: p['public'] = ''; lab = 'public=empty'
            elif f == 4: p['public'] = s.blob(r.choice([1, 2, 3, 32, 33, 64, 65, 66, 67, 133])); lab = 'public=garbage'
            elif f == 5: p['public'] = s.blob(r.choice(HUGE)); lab = 'public=huge'
            elif f == 6:
                pt = K[r.choice(['ec_p256b', 'ec_p384b', 'ec_p521b', 'ed25519b'])]['CKA_EC_POINT']; v = r.randrange(4)
                if v == 0: pt = pt[4:] if pt.startswith('04') and len(pt) > 8 else pt      # strip the DER octet-string header: raw point
                elif v == 1: pt = pt[:r.randrange(2, len(pt) // 2) * 2]                      # truncated
                elif v == 2: pt = pt[:2] + 'ff' + pt[4:]                                     # DER length lies
                else: pt = pt[:-2] + '%02x' % (int(pt[-2:], 16) ^ 1)                         # not on the curve
                p['public'] = pt; lab = 'public=malformed-point'
            else: p['public'] = '04' + '81' * 1; lab = 'public=bad-der'
            return lab, {'ecdh1': p}
        if pk == 'dhpub':
            f = r.randrange(5); K = s.K.RAW
            v = ['', '00', '01', K['dh1024']['CKA_PRIME'], s.blob(r.choice([1, 127, 129, 4096, 65536]))][f]
            return 'public=%s' % ['empty', 'zero', 'one', 'equals-p', 'size'][f], ({'hex': v} if v else {'hex': ''})
        if pk == 'kdstr':
            n = r.choice([0, 1, 7, 15, 17, 4096, 65536, 1 << 20]); return 'data=%s' % ('empty' if n == 0 else 'huge' if n > 4096 else 'unaligned'), ({'kdstr': s.blob(n)} if n else {'kdstr': None})
        if pk in ('cbcdata16', 'cbcdata8'):
            f = r.randrange(3); iv = 16 if pk == 'cbcdata16' else 8
            if f == 0: return 'struct=other-cipher', {'cbcdata': {'iv': s.blob(24 - iv), 'data': s.blob(16)}}
            if f == 1: return 'data=empty', {'cbcdata': {'iv': s.blob(iv)}}
            n = r.choice([1, 7, 15, 17, 4096, 65536]); return 'data=%s' % ('huge' if n > 4096 else 'unaligned'), {'cbcdata': {'iv': s.blob(iv), 'data': s.blob(n)}}
        if pk == 'hkey':
            lab, h = s.object_handle(0); return 'hkey=' + lab.split(':')[0], {'hkey': h}
        return 'absent', None
