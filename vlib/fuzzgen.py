"""Hostile-but-pointer-valid PKCS#11 request generator (C17 API fuzz).

Every generated request is `base` (a well-formed request for the current state) plus 0..3 `edits`; an edit is
(tag, field, value): it replaces ONE top-level field of the request by a hostile value and carries a coarse,
stable tag (`handle:key=stale`, `mechparam:gcm:tagbits=huge`, `tmpl=wrong-size`, ...).  The tag is what the
canonical death key is made of; single edits can be re-applied to the base for ablation.

The precondition of C17 is respected by construction: lengths only ever lie DOWNWARDS (the executor enforces it
too), NULL only where PKCS#11 permits it (output buffers as size queries, pTemplate with count 0, pPin/pData with
length 0, pParameter with length 0), no embedded garbage pointers (raw parameter blobs never have the size of a
parameter struct unless they are all-zero)."""
import copy

U64 = (1 << 64) - 1
ALL_FNS = ['C_Initialize', 'C_Finalize', 'C_GetInfo', 'C_GetFunctionList', 'C_GetSlotList', 'C_GetSlotInfo', 'C_GetTokenInfo', 'C_GetMechanismList',
           'C_GetMechanismInfo', 'C_InitToken', 'C_InitPIN', 'C_SetPIN', 'C_OpenSession', 'C_CloseSession', 'C_CloseAllSessions', 'C_GetSessionInfo',
           'C_GetOperationState', 'C_SetOperationState', 'C_Login', 'C_Logout', 'C_CreateObject', 'C_CopyObject', 'C_DestroyObject', 'C_GetObjectSize',
           'C_GetAttributeValue', 'C_SetAttributeValue', 'C_FindObjectsInit', 'C_FindObjects', 'C_FindObjectsFinal', 'C_EncryptInit', 'C_Encrypt',
           'C_EncryptUpdate', 'C_EncryptFinal', 'C_DecryptInit', 'C_Decrypt', 'C_DecryptUpdate', 'C_DecryptFinal', 'C_DigestInit', 'C_Digest',
           'C_DigestUpdate', 'C_DigestKey', 'C_DigestFinal', 'C_SignInit', 'C_Sign', 'C_SignUpdate', 'C_SignFinal', 'C_SignRecoverInit', 'C_SignRecover',
           'C_VerifyInit', 'C_Verify', 'C_VerifyUpdate', 'C_VerifyFinal', 'C_VerifyRecoverInit', 'C_VerifyRecover', 'C_DigestEncryptUpdate',
           'C_DecryptDigestUpdate', 'C_SignEncryptUpdate', 'C_DecryptVerifyUpdate', 'C_GenerateKey', 'C_GenerateKeyPair', 'C_WrapKey', 'C_UnwrapKey',
           'C_DeriveKey', 'C_SeedRandom', 'C_GenerateRandom', 'C_GetFunctionStatus', 'C_CancelFunction', 'C_WaitForSlotEvent']
assert len(ALL_FNS) == 68 and len(set(ALL_FNS)) == 68

# sizes of the parameter structs on LP64 (a raw blob of exactly this size would smuggle garbage pointers)
STRUCT_SIZES = {24, 32, 40, 48, 8 + 16, 16}   # PSS 24, CTR 24, ECDH1 40, OAEP 40, GCM 48, KDSTR 16, DES_CBC_DATA 24, AES_CBC_DATA 32

def kclass(kind):
    """coarse class of a keys_c17 kind name"""
    if kind is None: return 'unknown'
    if kind.startswith('aes'): return 'aes'
    if kind in ('des3', 'des2', 'des'): return kind
    if kind.startswith('generic'): return 'generic'
    if kind == 'x509': return 'cert'
    if kind == 'data': return 'data'
    if kind.endswith('-params'): return 'params'
    if ':' in kind:
        b, h = kind.split(':'); fam = 'rsa' if b.startswith('rsa') else 'ec' if b.startswith('ec_') else 'ed' if b.startswith('ed') else 'dsa' if b.startswith('dsa') else 'dh'
        return fam + '-' + h
    return 'unknown'

HASHES = ['CKM_MD5', 'CKM_SHA_1', 'CKM_SHA224', 'CKM_SHA256', 'CKM_SHA384', 'CKM_SHA512']
# name -> (parameter kind, operations, key classes).  E encrypt/decrypt, S sign/verify, R recover, D digest, W wrap, G keygen, P pairgen, V derive
MECHS = {}
def _m(names, pk, ops, keys):
    for n in names.split(): MECHS[n] = (pk, ops, keys)
_m('CKM_AES_ECB', 'none', 'E', ['aes']); _m('CKM_AES_CBC CKM_AES_CBC_PAD', 'iv16', 'EW', ['aes']); _m('CKM_AES_CTR', 'ctr', 'E', ['aes']); _m('CKM_AES_GCM', 'gcm', 'E', ['aes'])
_m('CKM_DES3_ECB', 'none', 'E', ['des3', 'des2']); _m('CKM_DES3_CBC CKM_DES3_CBC_PAD', 'iv8', 'EW', ['des3', 'des2'])
_m('CKM_DES_ECB', 'none', 'E', ['des']); _m('CKM_DES_CBC CKM_DES_CBC_PAD', 'iv8', 'E', ['des'])
_m('CKM_RSA_PKCS', 'none', 'ESRW', ['rsa']); _m('CKM_RSA_X_509', 'none', 'ESR', ['rsa']); _m('CKM_RSA_PKCS_OAEP', 'oaep', 'EW', ['rsa'])
_m('CKM_MD5_RSA_PKCS CKM_SHA1_RSA_PKCS CKM_SHA224_RSA_PKCS CKM_SHA256_RSA_PKCS CKM_SHA384_RSA_PKCS CKM_SHA512_RSA_PKCS', 'none', 'S', ['rsa'])
_m('CKM_RSA_PKCS_PSS CKM_SHA1_RSA_PKCS_PSS CKM_SHA224_RSA_PKCS_PSS CKM_SHA256_RSA_PKCS_PSS CKM_SHA384_RSA_PKCS_PSS CKM_SHA512_RSA_PKCS_PSS', 'pss', 'S', ['rsa'])
_m('CKM_MD5_HMAC CKM_SHA_1_HMAC CKM_SHA224_HMAC CKM_SHA256_HMAC CKM_SHA384_HMAC CKM_SHA512_HMAC', 'none', 'S', ['generic'])
_m('CKM_AES_CMAC', 'none', 'S', ['aes']); _m('CKM_DES3_CMAC', 'none', 'S', ['des3', 'des2'])
_m('CKM_DSA CKM_DSA_SHA1 CKM_DSA_SHA224 CKM_DSA_SHA256 CKM_DSA_SHA384 CKM_DSA_SHA512', 'none', 'S', ['dsa'])
_m('CKM_ECDSA', 'none', 'S', ['ec']); _m('CKM_EDDSA', 'none', 'S', ['ed'])
_m(' '.join(HASHES), 'none', 'D', [])
_m('CKM_AES_KEY_WRAP CKM_AES_KEY_WRAP_PAD', 'none', 'W', ['aes'])
_m('CKM_AES_KEY_GEN CKM_DES_KEY_GEN CKM_DES2_KEY_GEN CKM_DES3_KEY_GEN CKM_GENERIC_SECRET_KEY_GEN CKM_DSA_PARAMETER_GEN CKM_DH_PKCS_PARAMETER_GEN', 'none', 'G', [])
_m('CKM_RSA_PKCS_KEY_PAIR_GEN CKM_EC_KEY_PAIR_GEN CKM_EC_EDWARDS_KEY_PAIR_GEN CKM_DSA_KEY_PAIR_GEN CKM_DH_PKCS_KEY_PAIR_GEN', 'none', 'P', [])
_m('CKM_ECDH1_DERIVE', 'ecdh1', 'V', ['ec-priv', 'ed-priv']); _m('CKM_DH_PKCS_DERIVE', 'dhpub', 'V', ['dh-priv'])
_m('CKM_AES_ECB_ENCRYPT_DATA', 'kdstr', 'V', ['aes']); _m('CKM_DES3_ECB_ENCRYPT_DATA', 'kdstr', 'V', ['des3', 'des2']); _m('CKM_DES_ECB_ENCRYPT_DATA', 'kdstr', 'V', ['des'])
_m('CKM_AES_CBC_ENCRYPT_DATA', 'cbcdata16', 'V', ['aes']); _m('CKM_DES3_CBC_ENCRYPT_DATA', 'cbcdata8', 'V', ['des3', 'des2']); _m('CKM_DES_CBC_ENCRYPT_DATA', 'cbcdata8', 'V', ['des'])
_m('CKM_CONCATENATE_BASE_AND_KEY', 'hkey', 'V', ['generic', 'aes']); _m('CKM_CONCATENATE_BASE_AND_DATA CKM_CONCATENATE_DATA_AND_BASE', 'kdstr', 'V', ['generic', 'aes'])
UNKNOWN_MECHS = [0xFFFFFFFF, 0x80000001, U64, 0x7FFFFFFF, 0x00001104 + 0x900, 0, 0x1082 ^ 0x8000, 0x00000220, 0x00000350, 0x00001200, 0x00000370, 0x00000380]

SIZES = [0, 1, 7, 8, 15, 16, 17, 20, 24, 31, 32, 33, 48, 63, 64, 65, 100, 117, 127, 128, 129, 245, 255, 256, 257, 512, 1000, 4096]
HUGE = [65536, 65537, 262144, 1 << 20]
HUGE_U = [1 << 31, (1 << 31) - 1, 1 << 32, (1 << 32) - 1, 1 << 63, U64, U64 - 1, U64 - 7, U64 - 15]

def op_mechs(op): return [n for n, (pk, ops, ks) in MECHS.items() if op in ops]

class Obj:
    __slots__ = ('h', 'kind', 'ti', 'token', 'private')
    def __init__(s, h, kind, ti, token=False, private=False): s.h = h; s.kind = kind; s.ti = ti; s.token = token; s.private = private
    def __repr__(s): return f'<{s.kind}#{s.h} t{s.ti}>'

class FState:
    """what the generator believes about the executor's state (only used to aim; never an oracle)"""
    def __init__(s):
        s.init = True; s.slots = []; s.sessions = {}; s.closed = []; s.objs = []; s.stale = []; s.op = {}; s.pins = {}; s.find = set()
    def live_sessions(s, ti=None): return [h for h, d in s.sessions.items() if ti is None or d['ti'] == ti]
    def pick_objs(s, classes=None, ti=None):
        return [o for o in s.objs if (classes is None or kclass(o.kind) in classes or kclass(o.kind).split('-')[0] in classes) and (ti is None or o.ti == ti)]

# ------------------------------------------------------------------------------------------------ hostile values
class Hostile:
    """producers of hostile values; each returns (class label, value)"""
    def __init__(s, rnd, ck, st, keys): s.rnd = rnd; s.ck = ck; s.st = st; s.K = keys
    def blob(s, n):
        if n <= 4096: return s.rnd.randbytes(n).hex()
        return (s.rnd.randbytes(64) * (n // 64 + 1))[:n].hex()
    # ---- handles
    def session_handle(s, good):
        r = s.rnd; st = s.st; c = r.randrange(7)
        if c == 0: return 'zero', 0
        if c == 1: return 'max', U64
        if c == 2 and st.closed: return 'stale', r.choice(st.closed)
        if c == 3 and st.objs: return 'object-as-session', r.choice(st.objs).h
        if c == 4:
            other = [h for h, d in st.sessions.items() if h != good and d['ti'] != st.sessions.get(good, {'ti': 0})['ti']]
            if other: return 'other-token', r.choice(other)
        if c == 5: return 'random', r.choice([1 << 31, 1 << 32, 0xdeadbeef, max(st.sessions or [1]) + r.randrange(1, 50), r.getrandbits(64)])
        return 'stale', (r.choice(st.closed) if st.closed else 99999)
    def object_handle(s, good, field='o'):
        r = s.rnd; st = s.st; c = r.randrange(8)
        if c == 0: return 'zero', 0
        if c == 1: return 'max', U64
        if c == 2 and st.stale: return 'stale', r.choice(st.stale)
        if c == 3 and st.sessions: return 'session-as-object', r.choice(list(st.sessions))
        if c == 4:
            o = [o for o in st.objs if o.ti != 0]
            if o: return 'other-token', r.choice(o).h
        if c == 5: return 'random', r.choice([1 << 31, 1 << 32, 0xdeadbeef, r.getrandbits(64), max([o.h for o in st.objs] or [1]) + r.randrange(1, 50)])
        if st.objs:   # a live object of ANOTHER kind (mismatched key type / class)
            o = r.choice(st.objs); return 'kind:' + kclass(o.kind), o.h
        return 'zero', 0
    def slot(s, good):
        r = s.rnd; c = r.randrange(5)
        if c == 0: return 'max', U64
        if c == 1: return 'free-slot', (s.st.slots[-1] if s.st.slots else 2)
        if c == 2: return 'random', r.choice([1 << 31, (1 << 31) - 1, 1 << 32, 12345, r.getrandbits(64), r.getrandbits(31)])
        if c == 3: return 'small', r.randrange(0, 8)
        return 'unknown', 777
    # ---- input data / output buffers / scalars
    def inbuf(s, good=None):
        lab, v = s._inbuf(good)      # the label follows the EFFECTIVE length: whatever produced it, an empty input is class '0'
        n = (v.get('len', 0) if isinstance(v, dict) else len(v) // 2)
        return (lab if (n > 0 or lab in ('0', 'null0')) else '0'), v
    def _inbuf(s, good=None):
        r = s.rnd; c = r.randrange(9)
        if c == 0: return '0', ''
        if c == 1: return 'null0', {'null': True, 'len': 0}
        if c == 2: return '1', s.blob(1)
        if c == 3: return 'huge', s.blob(r.choice(HUGE))
        if c == 4 and isinstance(good, str) and len(good) >= 4: return 'lowered', {'hex': good, 'len': r.randrange(0, len(good) // 2)}
        if c == 5 and isinstance(good, str) and len(good) >= 2: return 'plus1', good + '00'
        if c == 6 and isinstance(good, str) and len(good) >= 4: return 'minus1', good[:-2]
        if c == 7 and isinstance(good, str) and len(good) >= 2:
            b = bytearray.fromhex(good); i = r.randrange(len(b)); b[i] ^= 1 << r.randrange(8); return 'bitflip', b.hex()
        n = r.choice(SIZES); return ('0' if n == 0 else 'size'), s.blob(n)
    def outbuf(s):
        r = s.rnd; c = r.randrange(6)
        if c == 0: return 'null', None
        if c == 1: return '0', 0
        if c == 2: return '1', 1
        if c == 3: return 'huge', r.choice(HUGE)
        return 'size', r.choice(SIZES)
    def ulong(s):
        r = s.rnd; c = r.randrange(4)
        if c == 0: return 'zero', 0
        if c == 1: return 'huge', r.choice(HUGE_U)
        if c == 2: return 'small', r.randrange(0, 16)
        return 'random', r.getrandbits(r.choice([8, 16, 31, 32, 64]))
    def pin(s, good):
        lab, v = s._pin(good); n = (v.get('len', 0) if isinstance(v, dict) else len(v) // 2)
        return (lab if (n > 0 or lab in ('0', 'null0')) else '0'), v
    def _pin(s, good):
        r = s.rnd; c = r.randrange(8)
        if c == 0: return '0', ''
        if c == 1: return 'null0', {'null': True, 'len': 0}
        if c == 2: return 'short', s.blob(r.randrange(1, 4))
        if c == 3: return 'long', s.blob(r.choice([255, 256, 257, 1024, 10000, 65536]))
        if c == 4 and good: return 'lowered', {'hex': good, 'len': r.randrange(0, len(good) // 2)}
        if c == 5 and good: return 'nul-inside', good[:4] + '00' + good[4:]
        if c == 6: return 'non-ascii', bytes(r.randrange(128, 256) for _ in range(r.randrange(4, 20))).hex()
        return 'wrong', b'not-the-pin'.hex()
    # ---- mechanisms
    def wf_param(s, pk, modlen=128):
        r = s.rnd; ck = s.ck
        if pk == 'none': return None
        if pk == 'iv16': return {'hex': s.blob(16)}
        if pk == 'iv8': return {'hex': s.blob(8)}
        if pk == 'ctr': return {'ctr': {'bits': r.choice([32, 64, 128]), 'cb': s.blob(16)}}
        if pk == 'gcm': return {'gcm': {'iv': s.blob(12), 'aad': s.blob(r.choice([0, 5, 16])), 'tagbits': r.choice([96, 104, 112, 120, 128])}}
        if pk == 'pss':
            h = r.choice(['SHA_1', 'SHA224', 'SHA256', 'SHA384', 'SHA512']); mg = {'SHA_1': 'CKG_MGF1_SHA1'}.get(h, 'CKG_MGF1_' + h)
            return {'pss': {'hash': ck['CKM_' + h], 'mgf': ck[mg], 'slen': r.choice([0, 20, 32])}, '_hash': h}
        if pk == 'oaep': return {'oaep': {'hash': ck.CKM_SHA_1, 'mgf': ck.CKG_MGF1_SHA1, 'source': 1}}
        if pk == 'ecdh1':
            peer = r.choice(['ec_p256b', 'ec_p384b', 'ec_p521b', 'ed25519b']); return {'ecdh1': {'kdf': 1, 'public': s.K.RAW[peer]['CKA_EC_POINT']}}
        if pk == 'dhpub': return {'hex': s.K.RAW['dh1024b']['CKA_VALUE']}
        if pk == 'kdstr': return {'kdstr': s.blob(r.choice([16, 32, 48]))}
        if pk == 'cbcdata16': return {'cbcdata': {'iv': s.blob(16), 'data': s.blob(r.choice([16, 32]))}}
        if pk == 'cbcdata8': return {'cbcdata': {'iv': s.blob(8), 'data': s.blob(r.choice([8, 24, 32]))}}
        if pk == 'hkey':
            o = s.st.pick_objs({'generic', 'aes'}); return {'hkey': (r.choice(o).h if o else 0)}
        raise KeyError(pk)
    def hostile_param(s, pk):
        """-> (class label, parameter dict or None)"""
        r = s.rnd; ck = s.ck; c = r.randrange(10)
        # generic shapes first: raw blob of an odd size, all-zero struct, lowered length, missing parameter
        if c == 0:
            n = r.choice([x for x in [1, 4, 7, 8, 12, 15, 17, 23, 25, 31, 33, 39, 41, 47, 49, 56, 64, 100, 4096, 65536] if x not in STRUCT_SIZES and not (pk == 'iv16' and x == 16) and not (pk == 'iv8' and x == 8)])
            return 'raw=%s' % ('huge' if n > 4096 else 'odd-size'), {'hex': s.blob(n)}
        if c == 1 and pk not in ('none', 'iv16', 'iv8', 'dhpub'):
            n = {'pss': 24, 'ctr': 24, 'ecdh1': 40, 'oaep': 40, 'gcm': 48, 'kdstr': 16, 'cbcdata8': 24, 'cbcdata16': 32, 'hkey': 8}[pk]; return 'raw=zero-struct', {'hex': '00' * n}
        if c == 2 and pk != 'none':
            p = s.wf_param(pk); p = {k: v for k, v in p.items() if not k.startswith('_')}
            full = {'iv16': 16, 'iv8': 8, 'pss': 24, 'ctr': 24, 'ecdh1': 40, 'oaep': 40, 'gcm': 48, 'kdstr': 16, 'cbcdata8': 24, 'cbcdata16': 32, 'hkey': 8, 'dhpub': 128}[pk]
            p['plen'] = r.choice([0, 1, full // 2, full - 1]); return 'plen=lowered', p
        if c == 3 and pk != 'none': return 'absent', None
        if pk == 'none': return 'unexpected', {'hex': s.blob(r.choice([1, 8, 12, 17, 100, 4096]))}
        if pk in ('iv16', 'iv8'):
            n = r.choice([0, 1, 7, 9, 15, 17, 32, 4096] + ([8] if pk == 'iv16' else [16])); return 'ivlen=%s' % ('0' if n == 0 else 'wrong'), {'hex': s.blob(n)}
        if pk == 'ctr':
            f = r.randrange(2)
            if f == 0: b = r.choice([0, 1, 127, 129, 256, 1 << 31, U64]); return 'bits=%s' % ('0' if b == 0 else 'huge' if b > 128 else 'odd'), {'ctr': {'bits': b, 'cb': s.blob(16)}}
            return 'cb=short', {'ctr': {'bits': 128, 'cb': s.blob(r.choice([0, 1, 15]))}}
        if pk == 'gcm':
            g = {'iv': s.blob(12), 'aad': s.blob(8), 'tagbits': 128}; f = r.randrange(5)
            if f == 0: n = r.choice([0, 1, 8, 16, 64, 4096, 65536]); g['iv'] = s.blob(n); lab = 'ivlen=%s' % ('0' if n == 0 else 'huge' if n > 64 else 'odd')
            elif f == 1: g.pop('iv'); lab = 'iv=null'
            elif f == 2: g['ivbits'] = r.choice([0, 1, 95, 97, 1 << 31, U64]); lab = 'ivbits=mismatch'
            elif f == 3: n = r.choice([0, 1, 4096, 65536, 1 << 20]); (g.pop('aad') if n == 0 else g.__setitem__('aad', s.blob(n))); lab = 'aad=%s' % ('null' if n == 0 else 'huge' if n > 4096 else 'size')
            else: b = r.choice([0, 1, 7, 8, 32, 64, 95, 127, 129, 136, 256, 1 << 31, U64]); g['tagbits'] = b; lab = 'tagbits=%s' % ('0' if b == 0 else 'huge' if b > 128 else 'odd')
            if f != 0 and r.random() < 0.2: g['ivlen'] = r.randrange(0, 12); lab += '+ivlen-lowered'
            return lab, {'gcm': g}
        if pk == 'pss':
            p = {'hash': ck.CKM_SHA256, 'mgf': ck.CKG_MGF1_SHA256, 'slen': 32}; f = r.randrange(4)
            if f == 0: p['hash'] = r.choice([0, U64, ck.CKM_MD5, ck.CKM_AES_CBC, ck.CKM_SHA512, 0xFFFFFFFF]); lab = 'hash=bad'
            elif f == 1: p['mgf'] = r.choice([0, U64, 99, ck.CKG_MGF1_SHA1, 0xFFFFFFFF]); lab = 'mgf=bad'
            elif f == 2: p['slen'] = r.choice([1 << 31, U64, U64 - 31, 1 << 32, 1 << 63, 4096, 65536]); lab = 'slen=huge'
            else: p['slen'] = r.choice([1, 62, 63, 94, 95, 96, 97, 126, 127, 128, 190, 222, 223, 224, 256]); lab = 'slen=near-modlen'
            return lab, {'pss': p}
        if pk == 'oaep':
            p = {'hash': ck.CKM_SHA_1, 'mgf': ck.CKG_MGF1_SHA1, 'source': 1}; f = r.randrange(4)
            if f == 0: p['hash'] = r.choice([0, U64, ck.CKM_SHA256, ck.CKM_MD5]); lab = 'hash=other'
            elif f == 1: p['mgf'] = r.choice([0, U64, ck.CKG_MGF1_SHA256]); lab = 'mgf=other'
            elif f == 2: p['source'] = r.choice([0, 2, U64]); lab = 'source=bad'
            else: p['data'] = s.blob(r.choice([1, 16, 4096, 65536])); lab = 'sourcedata=present'
            return lab, {'oaep': p}
        if pk == 'ecdh1':
            K = s.K.RAW; p = {'kdf': 1, 'public': K['ec_p256b']['CKA_EC_POINT']}; f = r.randrange(8)
            if f == 0: p['kdf'] = r.choice([0, 2, 5, U64]); lab = 'kdf=bad'
            elif f == 1: p['shared'] = s.blob(r.choice([1, 32, 65536])); lab = 'shared=present'
            elif f == 2: p.pop('public'); lab = 'public=null'
            elif f == 3: p['public'] = ''; lab = 'public=empty'
            elif f == 4: p['public'] = s.blob(r.choice([1, 2, 3, 32, 33, 64, 65, 66, 67, 133])); lab = 'public=garbage'
            elif f == 5: p['public'] = s.blob(r.choice(HUGE)); lab = 'public=huge'
            elif f == 6:
                pt = K[r.choice(['ec_p256b', 'ec_p384b', 'ec_p521b', 'ed25519b'])]['CKA_EC_POINT']; v = r.randrange(4)
                if v == 0: pt = pt[4:] if pt.startswith('04') and len(pt) > 8 else pt      # strip the DER octet-string header: raw point
                elif v == 1: pt = pt[:r.randrange(2, len(pt) // 2) * 2]                      # truncated
                elif v == 2: pt = pt[:2] + 'ff' + pt[4:]                                     # DER length lies
                else: pt = pt[:-2] + '%02x' % (int(pt[-2:], 16) ^ 1)                         # not on the curve
                p['public'] = pt; lab = 'public=malformed-point'
            else: p['public'] = '04' + '81' * 1; lab = 'public=bad-der'
            return lab, {'ecdh1': p}
        if pk == 'dhpub':
            f = r.randrange(5); K = s.K.RAW
            v = ['', '00', '01', K['dh1024']['CKA_PRIME'], s.blob(r.choice([1, 127, 129, 4096, 65536]))][f]
            return 'public=%s' % ['empty', 'zero', 'one', 'equals-p', 'size'][f], ({'hex': v} if v else {'hex': ''})
        if pk == 'kdstr':
            n = r.choice([0, 1, 7, 15, 17, 4096, 65536, 1 << 20]); return 'data=%s' % ('empty' if n == 0 else 'huge' if n > 4096 else 'unaligned'), ({'kdstr': s.blob(n)} if n else {'kdstr': None})
        if pk in ('cbcdata16', 'cbcdata8'):
            f = r.randrange(3); iv = 16 if pk == 'cbcdata16' else 8
            if f == 0: return 'struct=other-cipher', {'cbcdata': {'iv': s.blob(24 - iv), 'data': s.blob(16)}}
            if f == 1: return 'data=empty', {'cbcdata': {'iv': s.blob(iv)}}
            n = r.choice([1, 7, 15, 17, 4096, 65536]); return 'data=%s' % ('huge' if n > 4096 else 'unaligned'), {'cbcdata': {'iv': s.blob(iv), 'data': s.blob(n)}}
        if pk == 'hkey':
            lab, h = s.object_handle(0); return 'hkey=' + lab.split(':')[0], {'hkey': h}
        return 'absent', None

PARAM_STRUCT = {'pss': 24, 'ctr': 24, 'ecdh1': 40, 'oaep': 40, 'gcm': 48, 'kdstr': 16, 'cbcdata8': 24, 'cbcdata16': 32, 'hkey': 8}
POINTER_KINDS = {'gcm', 'oaep', 'ecdh1', 'kdstr', 'cbcdata8', 'cbcdata16'}
def param_kind_size(p):
    """(kind, byte size as the library will see it) of a parameter dict built by wf_param/hostile_param"""
    if p is None: return 'none', 0
    if 'hex' in p: k, n = 'hex', len(p['hex']) // 2
    elif 'cbcdata' in p: k = 'cbcdata8' if len(p['cbcdata']['iv']) == 16 else 'cbcdata16'; n = PARAM_STRUCT[k]
    else: k = next(x for x in p if x in PARAM_STRUCT); n = PARAM_STRUCT[k]
    if 'plen' in p and p['plen'] <= n: n = p['plen']
    return k, n
def safe_param_for(mech_name, p):
    """A parameter may be handed to a mechanism only if the library cannot mistake it for a pointer-bearing struct of
    another type (that would be the HARNESS passing an invalid pointer, which the property excludes)."""
    exp = MECHS.get(mech_name, ('none',))[0]
    if exp not in POINTER_KINDS or p is None: return True
    k, n = param_kind_size(p)
    if k == exp: return True
    if k == 'hex' and set(p['hex']) <= {'0'}: return True          # all-zero: NULL pointers, zero lengths
    return n != PARAM_STRUCT[exp]

# attribute groups used by the template mutators
BOOL_ATTRS = ['CKA_TOKEN', 'CKA_PRIVATE', 'CKA_MODIFIABLE', 'CKA_COPYABLE', 'CKA_DESTROYABLE', 'CKA_ENCRYPT', 'CKA_DECRYPT', 'CKA_SIGN', 'CKA_VERIFY', 'CKA_WRAP', 'CKA_UNWRAP',
              'CKA_DERIVE', 'CKA_SENSITIVE', 'CKA_EXTRACTABLE', 'CKA_TRUSTED', 'CKA_LOCAL', 'CKA_ALWAYS_SENSITIVE', 'CKA_NEVER_EXTRACTABLE', 'CKA_WRAP_WITH_TRUSTED',
              'CKA_ALWAYS_AUTHENTICATE', 'CKA_SIGN_RECOVER', 'CKA_VERIFY_RECOVER']
ULONG_ATTRS = ['CKA_CLASS', 'CKA_KEY_TYPE', 'CKA_CERTIFICATE_TYPE', 'CKA_VALUE_LEN', 'CKA_MODULUS_BITS', 'CKA_PRIME_BITS', 'CKA_VALUE_BITS', 'CKA_KEY_GEN_MECHANISM',
               'CKA_CERTIFICATE_CATEGORY', 'CKA_JAVA_MIDP_SECURITY_DOMAIN', 'CKA_NAME_HASH_ALGORITHM']
BYTES_ATTRS = ['CKA_LABEL', 'CKA_ID', 'CKA_VALUE', 'CKA_APPLICATION', 'CKA_OBJECT_ID', 'CKA_SUBJECT', 'CKA_ISSUER', 'CKA_SERIAL_NUMBER', 'CKA_MODULUS', 'CKA_PUBLIC_EXPONENT',
               'CKA_PRIVATE_EXPONENT', 'CKA_PRIME_1', 'CKA_PRIME_2', 'CKA_EXPONENT_1', 'CKA_EXPONENT_2', 'CKA_COEFFICIENT', 'CKA_PRIME', 'CKA_SUBPRIME', 'CKA_BASE',
               'CKA_EC_PARAMS', 'CKA_EC_POINT', 'CKA_START_DATE', 'CKA_END_DATE', 'CKA_CHECK_VALUE', 'CKA_URL', 'CKA_HASH_OF_SUBJECT_PUBLIC_KEY', 'CKA_HASH_OF_ISSUER_PUBLIC_KEY',
               'CKA_AC_ISSUER', 'CKA_OWNER', 'CKA_ATTR_TYPES', 'CKA_PUBLIC_KEY_INFO', 'CKA_GOSTR3410_PARAMS', 'CKA_GOSTR3411_PARAMS', 'CKA_GOST28147_PARAMS']
ARRAY_ATTRS = ['CKA_WRAP_TEMPLATE', 'CKA_UNWRAP_TEMPLATE', 'CKA_DERIVE_TEMPLATE']
MECHLIST_ATTRS = ['CKA_ALLOWED_MECHANISMS']
UNKNOWN_ATTRS = [0xFFFFFFFF, U64, 0x80000000, 0x80005348, 0x8000534B, 0x8000534C, 0x8000534D, 0x8000534E, 0x8000534F, 0x40000212, 0x7FFFFFFF, 0x600, 0x601, 0x999]
ALL_ATTR_NAMES = BOOL_ATTRS + ULONG_ATTRS + BYTES_ATTRS + ARRAY_ATTRS + MECHLIST_ATTRS

class Gen(Hostile):
    """request generator: next() -> (request dict, [tags], base request, [(tag, field, value)])"""
    def __init__(s, rnd, ck, st, keys, weights=None):
        super().__init__(rnd, ck, st, keys); s.weights = weights or DEFAULT_FN_WEIGHTS; s.fns = list(s.weights); s.w = [s.weights[f] for f in s.fns]
        s.count = 0; s.last_sig = ''; s.last_ct = ''; s.use_queue = []
    # ---------------------------------------------------------------- template helpers
    def A(s, t, v):
        t = s.ck[t] if isinstance(t, str) else t
        if isinstance(v, str): v = s.ck[v]
        if v is None: return {'t': t, 'hex': ''}
        if isinstance(v, bool): return {'t': t, 'bool': v}
        if isinstance(v, int): return {'t': t, 'ulong': v}
        if isinstance(v, (bytes, bytearray)): return {'t': t, 'hex': bytes(v).hex()}
        if isinstance(v, list) and v and isinstance(v[0], int): return {'t': t, 'mechs': v}
        if isinstance(v, list): return {'t': t, 'tmpl': [s.A(a, b) for a, b in v]}
        if isinstance(v, dict): d = dict(v); d['t'] = t; return d
        raise TypeError(v)
    def T(s, pairs): return [s.A(t, v) for t, v in pairs]
    def obj_template(s, kind=None, token=None):
        r = s.rnd; kind = kind or r.choice(s.K.kinds())
        t = s.K.template(kind, label='fz-%d' % s.count, token=(r.random() < 0.15 if token is None else token), private=r.random() < 0.3, sensitive=r.random() < 0.3, extractable=r.random() < 0.8)
        return kind, s.T(t)
    def bigint_types(s):
        return {s.ck[a] for a in ('CKA_MODULUS', 'CKA_PUBLIC_EXPONENT', 'CKA_PRIVATE_EXPONENT', 'CKA_PRIME_1', 'CKA_PRIME_2', 'CKA_EXPONENT_1', 'CKA_EXPONENT_2', 'CKA_COEFFICIENT', 'CKA_PRIME', 'CKA_SUBPRIME', 'CKA_BASE', 'CKA_VALUE')}
    def nested(s, depth=0):
        r = s.rnd; n = r.choice([0, 1, 2, 5])
        items = []
        for _ in range(n):
            c = r.randrange(5)
            if c == 0: items.append((r.choice(BOOL_ATTRS), r.random() < 0.5))
            elif c == 1: items.append((r.choice(ULONG_ATTRS), r.choice([0, 1, 3, 4, 16, 0x1f, U64])))
            elif c == 2: items.append((r.choice(BYTES_ATTRS), r.randbytes(r.choice([0, 1, 8, 100]))))
            elif c == 3: items.append(('CKA_ALLOWED_MECHANISMS', [s.ck.CKM_AES_CBC, s.ck.CKM_RSA_PKCS][:r.randrange(1, 3)]))
            elif depth < 2: items.append((r.choice(ARRAY_ATTRS), s.nested(depth + 1)))
        return items
    def hostile_template(s, base, get=False):
        """-> (class label, template spec).  `base` is a list of entries (input template) or of get-slots."""
        r = s.rnd; ck = s.ck; t = copy.deepcopy(base) if isinstance(base, list) else []; c = r.choice(list(range(14)) + [3, 7, 9, 10, 10, 10]) if not get else r.randrange(8)
        def pickidx(pred=lambda e: True):
            ix = [i for i, e in enumerate(t) if pred(e)]; return r.choice(ix) if ix else None
        if get:
            if c == 0: return 'get=empty', []
            if c == 1: return 'get=null-count0', {'null': True, 'count': 0, 'attrs': []}
            if c == 2: return 'get=many', [{'t': ck[r.choice(ALL_ATTR_NAMES)], 'buf': r.choice([None, 0, 8, 64, 4096])} for _ in range(r.choice([33, 64, 200]))]
            if c == 3: return 'get=unknown-type', [{'t': r.choice(UNKNOWN_ATTRS), 'buf': r.choice([None, 0, 8, 64])} for _ in range(r.randrange(1, 4))]
            if c == 4: return 'get=small-buffers', [{'t': ck[r.choice(ALL_ATTR_NAMES)], 'buf': r.choice([0, 1, 2, 3, 7])} for _ in range(r.randrange(1, 12))]
            if c == 5: return 'get=array-query', [{'t': ck[r.choice(ARRAY_ATTRS)], 'buf': None, 'len': r.choice([0, 24, U64])}] + [{'t': ck[a], 'buf': 64} for a in r.sample(BYTES_ATTRS, 2)]
            if c == 6: return 'get=array-slots', [{'t': ck[r.choice(ARRAY_ATTRS)], 'tmpl': [{'t': 0, 'buf': r.choice([0, 1, 8, 64])} for _ in range(r.choice([0, 1, 2, 8]))]}]
            return 'get=duplicates', [{'t': ck[a], 'buf': r.choice([None, 8, 4096])} for a in [r.choice(ALL_ATTR_NAMES)] * r.randrange(2, 5)]
        if c == 0: return 'empty', []
        if c == 1: return 'null-count0', {'null': True, 'count': 0, 'attrs': []}
        if c == 2 and t: return 'count-lowered', {'attrs': t, 'count': r.randrange(0, len(t))}
        if c == 3 and t:
            i = pickidx(); e = t[i]
            if 'bool' in e: t[i] = r.choice([{'t': e['t'], 'bool': True, 'len': 0}, {'t': e['t'], 'hex': s.blob(r.choice([2, 4, 8]))}, {'t': e['t'], 'bool': r.choice([2, 0x7f, 0xff])}])
            elif 'ulong' in e: t[i] = r.choice([{'t': e['t'], 'ulong': e['ulong'], 'len': r.choice([0, 1, 4, 7])}, {'t': e['t'], 'hex': s.blob(r.choice([9, 16, 100]))}])
            elif 'hex' in e: n = r.choice([0, 1, 3, 4, 8, 600] if e['t'] in s.bigint_types() else [0, 1, 3, 4, 8, 4096, 65536]); t[i] = {'t': e['t'], 'hex': s.blob(n)}
            elif 'mechs' in e: t[i] = {'t': e['t'], 'hex': s.blob(r.choice([1, 7, 9, 12]))}
            else: t[i] = {'t': e['t'], 'hex': s.blob(8)}
            return 'wrong-size', t
        if c == 4 and t:
            i = pickidx(); e = copy.deepcopy(t[i])
            if r.random() < 0.5 and 'bool' in e: e['bool'] = not e['bool']
            t.insert(r.randrange(len(t) + 1), e); return 'duplicate', t
        if c == 5:
            a = r.choice(ARRAY_ATTRS); e = s.A(a, s.nested()) if r.random() < 0.8 else {'t': ck[a], 'tmpl': []}
            if r.random() < 0.3 and e.get('tmpl'): e['len'] = r.choice([0, 1, 23, 25, 24 * len(e['tmpl']) - 1])
            t.append(e); return 'nested', t
        if c == 6:
            n = r.choice([33, 40, 100, 300])
            while len(t) < n:
                k = r.randrange(3)
                t.append(s.A(r.choice(BOOL_ATTRS), r.random() < 0.5) if k == 0 else s.A(r.choice(BYTES_ATTRS), r.randbytes(r.choice([0, 4, 16]))) if k == 1 else s.A(r.choice(ULONG_ATTRS), r.randrange(0, 8)))
            r.shuffle(t); return 'many', t
        if c == 7 and t:
            i = pickidx(); t[i] = {'t': t[i]['t'], 'hex': '', 'null': True}; return 'null-value', t
        if c == 8:
            t.insert(r.randrange(len(t) + 1), {'t': r.choice(UNKNOWN_ATTRS), 'hex': s.blob(r.choice([0, 1, 8, 16]))}); return 'unknown-type', t
        if c == 9 and t:
            i = pickidx(lambda e: 'ulong' in e)
            if i is not None: t[i] = {'t': t[i]['t'], 'ulong': r.choice([0, 1, 2, 3, 4, 5, 6, 7, 8, 0x1f, 0x20, 0x30, 0x40, 0xFFFFFFFF, (1 << 31) + 1, 1 << 32, U64, 127, 129, 511, 513, 1023])}; return 'ulong-value', t
        if c == 10 and t:
            i = pickidx(lambda e: 'hex' in e and e['t'] not in (ck.CKA_LABEL, ck.CKA_ID))
            if i is not None:
                good = t[i]['hex']; k = r.randrange(7)
                v = ['', '00', good[:len(good) // 4 * 2], good + 'ff', '00' * (len(good) // 2), 'ff' * (len(good) // 2), s.blob(max(1, len(good) // 2))][k]
                t[i] = {'t': t[i]['t'], 'hex': v}; return 'bytes-value', t
        if c == 11:
            t.append(s.A('CKA_ALLOWED_MECHANISMS', r.choice([[], [U64], [s.ck.CKM_AES_CBC] * 3, list(range(300))]))) if r.random() < 0.6 else t.append({'t': ck.CKA_ALLOWED_MECHANISMS, 'hex': s.blob(r.choice([1, 4, 9, 17]))}); return 'mechanism-list', t
        if c == 12:
            a = r.choice(['CKA_START_DATE', 'CKA_END_DATE']); t.append({'t': ck[a], 'hex': r.choice(['', s.blob(1), s.blob(7), b'20991332'.hex(), s.blob(8), s.blob(9), s.blob(100)])}); return 'date', t
        if t:
            r.shuffle(t); del t[r.randrange(len(t))]; return 'dropped-attribute', t
        return 'empty', []

DEFAULT_FN_WEIGHTS = {f: 2 for f in ALL_FNS}
DEFAULT_FN_WEIGHTS.update({'C_Initialize': 1, 'C_Finalize': 0.4, 'C_InitToken': 0.5, 'C_CloseAllSessions': 0.5, 'C_Logout': 0.6, 'C_CloseSession': 1, 'C_GetInfo': 0.5, 'C_GetFunctionList': 0.3,
    'C_GetFunctionStatus': 0.4, 'C_CancelFunction': 0.4, 'C_WaitForSlotEvent': 0.4, 'C_GetSlotInfo': 0.6, 'C_OpenSession': 1.5, 'C_Login': 1.5,
    'C_CreateObject': 5, 'C_CopyObject': 3, 'C_SetAttributeValue': 4, 'C_GetAttributeValue': 5, 'C_FindObjectsInit': 3, 'C_FindObjects': 3,
    'C_EncryptInit': 6, 'C_DecryptInit': 6, 'C_SignInit': 7, 'C_VerifyInit': 7, 'C_DigestInit': 3, 'C_Encrypt': 5, 'C_Decrypt': 5, 'C_Sign': 5, 'C_Verify': 5,
    'C_EncryptUpdate': 4, 'C_DecryptUpdate': 4, 'C_EncryptFinal': 3, 'C_DecryptFinal': 3, 'C_SignUpdate': 3, 'C_SignFinal': 3, 'C_VerifyUpdate': 3, 'C_VerifyFinal': 3,
    'C_Digest': 3, 'C_DigestUpdate': 2, 'C_DigestFinal': 2, 'C_DigestKey': 2, 'C_GenerateKey': 2.5, 'C_GenerateKeyPair': 2.5, 'C_WrapKey': 5, 'C_UnwrapKey': 6, 'C_DeriveKey': 7,
    'C_SetOperationState': 1.5, 'C_GetOperationState': 1.5, 'C_SeedRandom': 1.5, 'C_GenerateRandom': 1.5})
# which data-phase calls continue which Init
FOLLOW = {'E': ['C_Encrypt', 'C_EncryptUpdate', 'C_EncryptFinal', 'C_DigestEncryptUpdate', 'C_SignEncryptUpdate'], 'De': ['C_Decrypt', 'C_DecryptUpdate', 'C_DecryptFinal', 'C_DecryptDigestUpdate', 'C_DecryptVerifyUpdate'],
          'S': ['C_Sign', 'C_SignUpdate', 'C_SignFinal'], 'Ve': ['C_Verify', 'C_VerifyUpdate', 'C_VerifyFinal'], 'D': ['C_Digest', 'C_DigestUpdate', 'C_DigestFinal', 'C_DigestKey'],
          'F': ['C_FindObjects', 'C_FindObjectsFinal'], 'SR': ['C_SignRecover'], 'VR': ['C_VerifyRecover']}
DATA_PHASE = {f for l in FOLLOW.values() for f in l}
INIT_OP = {'C_EncryptInit': 'E', 'C_DecryptInit': 'De', 'C_SignInit': 'S', 'C_VerifyInit': 'Ve', 'C_DigestInit': 'D', 'C_FindObjectsInit': 'F', 'C_SignRecoverInit': 'SR', 'C_VerifyRecoverInit': 'VR'}
SESSION_FNS = {f for f in ALL_FNS} - {'C_Initialize', 'C_Finalize', 'C_GetInfo', 'C_GetFunctionList', 'C_GetSlotList', 'C_GetSlotInfo', 'C_GetTokenInfo', 'C_GetMechanismList', 'C_GetMechanismInfo',
                                     'C_InitToken', 'C_OpenSession', 'C_CloseAllSessions', 'C_WaitForSlotEvent'}

def _gen_methods():
    """the Gen methods that build base requests; kept in a function body only to keep the class readable"""
Gen_base = Gen
class Gen(Gen_base):
    def sess(s, ti=0):
        l = s.st.live_sessions(ti) or s.st.live_sessions()
        return s.rnd.choice(l) if l else 1
    def key_for(s, mech, side):
        """a live object whose class fits `mech`; side: 'pub' | 'priv' for asymmetric mechanisms"""
        pk, ops, ks = MECHS.get(mech, ('none', '', []))
        want = set()
        for k in ks: want.add(k if ('-' in k or k in ('aes', 'des3', 'des2', 'des', 'generic')) else k + '-' + side)
        c = [o for o in s.st.objs if kclass(o.kind) in want]
        c0 = [o for o in c if o.ti == 0] or c
        return s.rnd.choice(c0) if c0 else (s.rnd.choice(s.st.objs) if s.st.objs else None)
    def mech(s, name, key=None):
        pk = MECHS[name][0]; p = s.wf_param(pk)
        if p: p = {k: v for k, v in p.items() if not k.startswith('_')}
        return {'m': s.ck[name], 'p': p}
    def data_for(s, sess_h):
        """input data whose size tends to fit the operation active on that session"""
        r = s.rnd; op = s.st.op.get(sess_h)
        if op:
            kind, mech = op
            if mech in ('CKM_RSA_PKCS', 'CKM_RSA_PKCS_OAEP'): n = r.choice([1, 20, 32, 53, 86, 117, 128, 245, 256]) if kind not in ('De', 'VR') else r.choice([128, 256])
            elif mech == 'CKM_RSA_X_509': n = r.choice([127, 128, 129, 255, 256])
            elif mech in ('CKM_ECDSA', 'CKM_DSA', 'CKM_RSA_PKCS_PSS'): n = r.choice([20, 28, 32, 48, 64])
            elif 'ECB' in mech or mech.endswith('_CBC'): n = r.choice([8, 16, 32, 48, 64, 1024])
            else: n = r.choice(SIZES)
            if kind == 'De' and s.last_ct and r.random() < 0.5: return s.last_ct
            return s.blob(n)
        return s.blob(r.choice(SIZES))
    # ---------------------------------------------------------------- base requests (well-formed for the believed state)
    def base(s, fn):
        r = s.rnd; st = s.st; ck = s.ck; K = s.K; q = {'fn': fn}
        S = s.sess()
        if fn in SESSION_FNS: q['s'] = S
        if fn == 'C_Initialize': q['locking'] = r.choice(['none', 'os', 'cb', 'null'])
        elif fn == 'C_GetSlotList': q.update(count=r.choice([8, 16]), present=r.random() < 0.7)
        elif fn in ('C_GetSlotInfo', 'C_GetTokenInfo', 'C_CloseAllSessions'): q['slot'] = r.choice(st.slots[:2] or [0])
        elif fn == 'C_GetMechanismList': q.update(slot=st.slots[0] if st.slots else 0, count=128)
        elif fn == 'C_GetMechanismInfo': q.update(slot=st.slots[0] if st.slots else 0, m=ck[r.choice(list(MECHS))])
        elif fn == 'C_InitToken': ti = r.choice([1, 1, 2]) if len(st.slots) > 2 else 0; q.update(slot=st.slots[ti] if st.slots else 0, pin=st.pins.get(('so', ti), b'so-pin-new').hex(), label=b'fuzzed'.hex())
        elif fn == 'C_InitPIN': q['pin'] = b'new-user-pin'.hex()
        elif fn == 'C_SetPIN': q.update(old=st.pins.get(('user', 0), b'x').hex(), new=st.pins.get(('user', 0), b'x').hex())
        elif fn == 'C_OpenSession': q.update(slot=r.choice(st.slots[:2] or [0]), flags=r.choice([4, 6, 6]))
        elif fn == 'C_GetOperationState': q['buf'] = r.choice([None, 4096])
        elif fn == 'C_SetOperationState': q.update(data=s.blob(r.choice([16, 64, 200])), k1=0, k2=0)
        elif fn == 'C_Login': ti = st.sessions.get(S, {'ti': 0})['ti']; u = r.choice([1, 1, 1, 0]); q.update(user=u, pin=st.pins.get(('user' if u else 'so', ti), b'x').hex())
        elif fn == 'C_CreateObject': kind, t = s.obj_template(); q['tmpl'] = t; q['_kind'] = kind
        elif fn == 'C_CopyObject':
            o = r.choice(st.objs) if st.objs else None; q.update(o=o.h if o else 0, tmpl=s.T([('CKA_LABEL', b'copy-%d' % s.count)] + ([('CKA_TOKEN', r.random() < 0.2)] if r.random() < 0.5 else []))); q['_kind'] = o.kind if o else None
        elif fn in ('C_DestroyObject', 'C_GetObjectSize'): o = r.choice(st.objs) if st.objs else None; q['o'] = o.h if o else 0
        elif fn == 'C_GetAttributeValue':
            o = r.choice(st.objs) if st.objs else None; names = r.sample(ALL_ATTR_NAMES[:len(BOOL_ATTRS) + len(ULONG_ATTRS) + len(BYTES_ATTRS)], r.randrange(1, 8))
            q.update(o=o.h if o else 0, tmpl=[{'t': ck[a], 'buf': r.choice([None, 8, 256, 4096])} for a in names])
        elif fn == 'C_SetAttributeValue':
            o = r.choice(st.objs) if st.objs else None; c = r.randrange(4)
            t = [('CKA_LABEL', b'set-%d' % s.count)] if c == 0 else [('CKA_ID', r.randbytes(r.choice([0, 4, 16])))] if c == 1 else [(r.choice(BOOL_ATTRS), r.random() < 0.5)] if c == 2 else [('CKA_LABEL', b'x'), (r.choice(BOOL_ATTRS), True), ('CKA_ID', b'id')]
            q.update(o=o.h if o else 0, tmpl=s.T(t))
        elif fn == 'C_FindObjectsInit':
            c = r.randrange(5); q['tmpl'] = s.T([] if c == 0 else [('CKA_CLASS', r.choice(['CKO_SECRET_KEY', 'CKO_PRIVATE_KEY', 'CKO_PUBLIC_KEY', 'CKO_DATA', 'CKO_CERTIFICATE']))] if c == 1 else [('CKA_TOKEN', r.random() < 0.5)] if c == 2 else [('CKA_LABEL', b'aes128')] if c == 3 else [('CKA_KEY_TYPE', 'CKK_RSA'), ('CKA_SIGN', True)])
        elif fn == 'C_FindObjects': q['max'] = r.choice([1, 4, 64])
        elif fn in ('C_EncryptInit', 'C_DecryptInit'):
            m = r.choice(op_mechs('E')); k = s.key_for(m, 'pub' if fn == 'C_EncryptInit' else 'priv'); q.update(mech=s.mech(m), key=k.h if k else 0, _mech=m)
        elif fn in ('C_SignInit', 'C_VerifyInit'):
            m = r.choice(op_mechs('S')); k = s.key_for(m, 'priv' if fn == 'C_SignInit' else 'pub'); q.update(mech=s.mech(m), key=k.h if k else 0, _mech=m)
        elif fn in ('C_SignRecoverInit', 'C_VerifyRecoverInit'):
            m = r.choice(op_mechs('R')); k = s.key_for(m, 'priv' if fn == 'C_SignRecoverInit' else 'pub'); q.update(mech=s.mech(m), key=k.h if k else 0, _mech=m)
        elif fn == 'C_DigestInit': m = r.choice(HASHES); q.update(mech=s.mech(m), _mech=m)
        elif fn in ('C_Encrypt', 'C_EncryptUpdate', 'C_Decrypt', 'C_DecryptUpdate', 'C_Digest', 'C_Sign', 'C_SignRecover', 'C_VerifyRecover', 'C_DigestEncryptUpdate', 'C_DecryptDigestUpdate', 'C_SignEncryptUpdate', 'C_DecryptVerifyUpdate'):
            q.update(data=s.data_for(S), buf=r.choice([None, 4096, 4096, 4096, 70000]))
        elif fn in ('C_EncryptFinal', 'C_DecryptFinal', 'C_DigestFinal', 'C_SignFinal'): q['buf'] = r.choice([None, 4096, 4096])
        elif fn in ('C_DigestUpdate', 'C_SignUpdate', 'C_VerifyUpdate', 'C_SeedRandom'): q['data'] = s.data_for(S)
        elif fn == 'C_DigestKey': k = s.key_for('CKM_AES_ECB', 'pub'); q['key'] = k.h if k else 0
        elif fn == 'C_Verify': q.update(data=s.data_for(S), sig=s.last_sig if (s.last_sig and r.random() < 0.6) else s.blob(r.choice([20, 40, 56, 64, 96, 128, 132, 256])))
        elif fn == 'C_VerifyFinal': q['sig'] = s.last_sig if (s.last_sig and r.random() < 0.6) else s.blob(r.choice([20, 32, 64, 128, 256]))
        elif fn == 'C_GenerateKey':
            m = r.choice(op_mechs('G'))
            t = [('CKA_TOKEN', False), ('CKA_LABEL', b'gen-%d' % s.count)]
            if m in ('CKM_AES_KEY_GEN', 'CKM_GENERIC_SECRET_KEY_GEN'): t += [('CKA_VALUE_LEN', r.choice([16, 24, 32])), ('CKA_ENCRYPT', True), ('CKA_SIGN', True)]
            elif m.endswith('PARAMETER_GEN'): t += [('CKA_PRIME_BITS', 512)]
            q.update(mech=s.mech(m), tmpl=s.T(t), _mech=m, _kind={'CKM_AES_KEY_GEN': 'aes128', 'CKM_GENERIC_SECRET_KEY_GEN': 'generic32', 'CKM_DES3_KEY_GEN': 'des3', 'CKM_DES2_KEY_GEN': 'des2', 'CKM_DES_KEY_GEN': 'des'}.get(m, 'dsa-params'))
        elif fn == 'C_GenerateKeyPair':
            m = r.choice(op_mechs('P')); pub = [('CKA_TOKEN', False), ('CKA_VERIFY', True), ('CKA_LABEL', b'gp-%d' % s.count)]; priv = [('CKA_TOKEN', False), ('CKA_SIGN', True), ('CKA_SENSITIVE', r.random() < 0.5), ('CKA_LABEL', b'gq-%d' % s.count)]
            R = K.RAW
            if m == 'CKM_RSA_PKCS_KEY_PAIR_GEN': pub += [('CKA_MODULUS_BITS', r.choice([512, 1024])), ('CKA_PUBLIC_EXPONENT', bytes([1, 0, 1]))]; kind = 'rsa1024'
            elif m == 'CKM_EC_KEY_PAIR_GEN': pub += [('CKA_EC_PARAMS', bytes.fromhex(R[r.choice(['ec_p256', 'ec_p384', 'ec_p521'])]['CKA_EC_PARAMS']))]; kind = 'ec_p256'
            elif m == 'CKM_EC_EDWARDS_KEY_PAIR_GEN': pub += [('CKA_EC_PARAMS', bytes.fromhex(R['ed25519']['CKA_EC_PARAMS']))]; kind = 'ed25519'
            elif m == 'CKM_DSA_KEY_PAIR_GEN': pub += [(a, bytes.fromhex(R['dsa1024'][a])) for a in ('CKA_PRIME', 'CKA_SUBPRIME', 'CKA_BASE')]; kind = 'dsa1024'
            else: pub += [(a, bytes.fromhex(R['dh1024'][a])) for a in ('CKA_PRIME', 'CKA_BASE')]; kind = 'dh1024'
            q.update(mech=s.mech(m), pub=s.T(pub), priv=s.T(priv), _mech=m, _kind=kind)
        elif fn == 'C_WrapKey':
            m = r.choice(op_mechs('W')); wk = s.key_for(m, 'pub'); tgt = [o for o in st.objs if kclass(o.kind) in ('aes', 'generic', 'des3', 'rsa-priv', 'ec-priv', 'dsa-priv', 'dh-priv', 'ed-priv')]
            k = r.choice(tgt) if tgt else None; q.update(mech=s.mech(m), wkey=wk.h if wk else 0, key=k.h if k else 0, buf=r.choice([None, 4096, 4096]), _mech=m)
        elif fn == 'C_UnwrapKey':
            m = r.choice(op_mechs('W')); uk = s.key_for(m, 'priv'); c = r.randrange(3)
            t = [('CKA_CLASS', 'CKO_SECRET_KEY'), ('CKA_KEY_TYPE', r.choice(['CKK_AES', 'CKK_GENERIC_SECRET', 'CKK_DES3'])), ('CKA_TOKEN', False), ('CKA_EXTRACTABLE', True)] if c else \
                [('CKA_CLASS', 'CKO_PRIVATE_KEY'), ('CKA_KEY_TYPE', r.choice(['CKK_RSA', 'CKK_EC', 'CKK_DSA', 'CKK_DH', 'CKK_EC_EDWARDS'])), ('CKA_TOKEN', False), ('CKA_SENSITIVE', False), ('CKA_EXTRACTABLE', True)]
            w = s.last_wrapped if (getattr(s, 'last_wrapped', '') and r.random() < 0.6) else s.blob(r.choice([8, 16, 24, 32, 40, 128, 256, 640]))
            q.update(mech=s.mech(m), ukey=uk.h if uk else 0, wrapped=w, tmpl=s.T(t), _mech=m, _kind='aes128' if c else 'rsa1024:priv')
        elif fn == 'C_DeriveKey':
            m = r.choice(op_mechs('V')); k = s.key_for(m, 'priv')
            t = [('CKA_CLASS', 'CKO_SECRET_KEY'), ('CKA_KEY_TYPE', r.choice(['CKK_GENERIC_SECRET', 'CKK_AES', 'CKK_DES3', 'CKK_DES2', 'CKK_DES'])), ('CKA_TOKEN', False), ('CKA_SENSITIVE', False), ('CKA_EXTRACTABLE', True)]
            if r.random() < 0.7: t.append(('CKA_VALUE_LEN', r.choice([16, 24, 32])))
            mm = s.mech(m)
            if m == 'CKM_ECDH1_DERIVE' and k is not None and k.kind and ':' in k.kind:   # peer point on the same curve as the base key
                peer = k.kind.split(':')[0].rstrip('b') + 'b'
                if peer in K.RAW: mm['p'] = {'ecdh1': {'kdf': 1, 'public': K.RAW[peer]['CKA_EC_POINT']}}
            q.update(mech=mm, key=k.h if k else 0, tmpl=s.T(t), _mech=m, _kind='generic32')
        elif fn == 'C_GenerateRandom': q['buf'] = r.choice([1, 16, 32, 256])
        elif fn == 'C_WaitForSlotEvent': q['flags'] = 1
        return q

Gen_base2 = Gen
class Gen(Gen_base2):
    # ---------------------------------------------------------------- edits
    def candidate_edits(s, fn, q):
        """every field of the request that can be made hostile -> list of thunks returning (tag, field, value)"""
        r = s.rnd; ck = s.ck; out = []
        def add(f, w=1.0): out.append((w, f))
        if 's' in q: add(lambda: (lambda l, v: ('handle:s=' + l, 's', v))(*s.session_handle(q['s'])), 0.08 if len(q) > 2 else 1.0)
        for f in ('o', 'key', 'wkey', 'ukey'):
            if f in q:
                def th(f=f):
                    l, v = s.object_handle(q[f], f); return (('keytype=' + l[5:]) if l.startswith('kind:') and f != 'o' else ('handle:%s=%s' % (f, l.replace('kind:', 'kind-')))), f, v
                add(th)
        if 'slot' in q: add(lambda: (lambda l, v: ('handle:slot=' + l, 'slot', v))(*s.slot(q['slot'])))
        for f in ('data', 'sig', 'wrapped'):
            if f in q: add(lambda f=f: (lambda l, v: ('len:%s=%s' % (f, l), f, v))(*s.inbuf(q[f])))
        for f in ('pin', 'old', 'new'):
            if f in q: add(lambda f=f: (lambda l, v: ('pin:%s=%s' % (f, l), f, v))(*s.pin(q[f])))
        if 'buf' in q and fn != 'C_GenerateRandom': add(lambda: (lambda l, v: ('buf=' + l, 'buf', v))(*s.outbuf()))
        if fn == 'C_GenerateRandom': add(lambda: (lambda n: ('buf=' + ('0' if n == 0 else 'huge' if n > 4096 else 'size'), 'buf', n))(r.choice([0, 1, 4096, 65536, 1 << 20])))
        if 'buf' in q and fn != 'C_GenerateRandom' and q['buf']: add(lambda: ('buf=announce-lowered', 'announce', r.randrange(0, q['buf'])))
        for f in ('tmpl', 'pub', 'priv'):
            if f in q: add(lambda f=f: (lambda l, v: ('tmpl=' + l, f, v))(*s.hostile_template(q[f], get=(fn == 'C_GetAttributeValue'))))
        if 'mech' in q:
            name = q.get('_mech'); pk = MECHS[name][0]
            def th_param():
                l, p = s.hostile_param(pk); return 'mechparam:%s:%s' % (pk, l), 'mech', {'m': ck[name], 'p': p}
            def th_swap():
                c = r.randrange(3)
                if c == 0: return 'mech=unknown', 'mech', {'m': r.choice(UNKNOWN_MECHS), 'p': q['mech']['p'] if r.random() < 0.5 else None}
                other = r.choice(list(MECHS)); p = q['mech']['p']
                if c == 1:   # the other mechanism with THIS mechanism's parameter (only where the library cannot mistake it for a pointer-bearing struct)
                    if not safe_param_for(other, p): p = None
                    return 'mech=other+param-kept', 'mech', {'m': ck[other], 'p': p}
                return 'mech=other', 'mech', s.mech(other)   # a well-formed mechanism that does not fit the operation or the key
            add(th_param, 3.0); add(th_swap, 1.0)
        if fn == 'C_Login': add(lambda: (lambda l, v: ('arg:user=' + l, 'user', v))(*s.ulong()))
        if fn == 'C_OpenSession': add(lambda: (lambda l, v: ('arg:flags=' + l, 'flags', v))(*s.ulong()))
        if fn == 'C_WaitForSlotEvent': add(lambda: (lambda l, v: ('arg:flags=' + l, 'flags', v | 1))(*s.ulong()))
        if fn == 'C_GetMechanismInfo': add(lambda: ('arg:m=unknown', 'm', r.choice(UNKNOWN_MECHS)))
        if fn in ('C_GetSlotList', 'C_GetMechanismList'):
            add(lambda: ('buf=null', 'null', True)); add(lambda: (lambda n: ('arg:count=' + ('0' if n == 0 else 'small' if n < 8 else 'large'), 'count', n))(r.choice([0, 1, 2, 3, 4096])))
        if fn == 'C_FindObjects': add(lambda: (lambda n: ('arg:max=' + ('0' if n == 0 else 'large'), 'max', n))(r.choice([0, 0, 4096, 65536])))
        if fn == 'C_SetOperationState':
            add(lambda: (lambda l, v: ('handle:k1=' + l.split(':')[0], 'k1', v))(*s.object_handle(0))); add(lambda: (lambda l, v: ('handle:k2=' + l.split(':')[0], 'k2', v))(*s.object_handle(0)))
            add(lambda: ('opstate=replayed', 'data', getattr(s, 'last_state', '') or s.blob(32)))
        if fn == 'C_InitToken': add(lambda: ('label=short', 'label', ''))
        return out
    def pick_fn(s):
        r = s.rnd; st = s.st
        if not st.init: return 'C_Initialize' if r.random() < 0.5 else r.choices(s.fns, s.w)[0]
        if st.op and r.random() < 0.45:   # continue an operation that is believed active
            sh = r.choice(list(st.op)); kind, _ = st.op[sh]; s._force_s = sh; return r.choice(FOLLOW[kind])
        if not st.live_sessions() and r.random() < 0.6: return 'C_OpenSession'
        fn = r.choices(s.fns, s.w)[0]
        if fn in DATA_PHASE and r.random() < 0.7: fn = r.choices(s.fns, s.w)[0]   # data-phase calls without an active operation are shallow: damp them
        return fn
    def use_request(s, h, kind):
        """a well-formed first use of a freshly made object (create-then-use chaining: hostile templates only bite when the key is used)"""
        r = s.rnd; kc = kclass(kind); S = s.sess(); R = s.K.RAW
        dt = s.T([('CKA_CLASS', 'CKO_SECRET_KEY'), ('CKA_KEY_TYPE', 'CKK_GENERIC_SECRET'), ('CKA_TOKEN', False), ('CKA_SENSITIVE', False), ('CKA_EXTRACTABLE', True)])
        def init(fn, m): return {'fn': fn, 's': S, 'mech': s.mech(m), 'key': h, '_mech': m}
        if kc == 'aes': return r.choice([init('C_EncryptInit', r.choice(['CKM_AES_CBC_PAD', 'CKM_AES_ECB', 'CKM_AES_GCM', 'CKM_AES_CTR'])), init('C_SignInit', 'CKM_AES_CMAC'), init('C_DecryptInit', 'CKM_AES_CBC_PAD')])
        if kc in ('des3', 'des2', 'des'): return r.choice([init('C_EncryptInit', 'CKM_DES3_CBC_PAD'), init('C_SignInit', 'CKM_DES3_CMAC')])
        if kc == 'generic': return r.choice([init('C_SignInit', 'CKM_SHA256_HMAC'), init('C_VerifyInit', 'CKM_SHA_1_HMAC'), {'fn': 'C_DigestKey', 's': S, 'key': h}])
        if kc == 'rsa-pub': return r.choice([init('C_EncryptInit', r.choice(['CKM_RSA_PKCS', 'CKM_RSA_PKCS_OAEP', 'CKM_RSA_X_509'])), init('C_VerifyInit', r.choice(['CKM_SHA256_RSA_PKCS', 'CKM_RSA_PKCS', 'CKM_SHA1_RSA_PKCS_PSS']))])
        if kc == 'rsa-priv': return r.choice([init('C_SignInit', r.choice(['CKM_SHA256_RSA_PKCS', 'CKM_RSA_PKCS', 'CKM_RSA_PKCS_PSS', 'CKM_RSA_X_509'])), init('C_DecryptInit', r.choice(['CKM_RSA_PKCS', 'CKM_RSA_PKCS_OAEP']))])
        if kc in ('ec-pub', 'ed-pub', 'dsa-pub'): return init('C_VerifyInit', {'ec-pub': 'CKM_ECDSA', 'ed-pub': 'CKM_EDDSA', 'dsa-pub': r.choice(['CKM_DSA', 'CKM_DSA_SHA256'])}[kc])
        if kc in ('ec-priv', 'ed-priv') and r.random() < 0.5:
            peer = (kind.split(':')[0].rstrip('b') + 'b') if kind and ':' in kind else 'ec_p256b'
            return {'fn': 'C_DeriveKey', 's': S, 'mech': {'m': s.ck.CKM_ECDH1_DERIVE, 'p': {'ecdh1': {'kdf': 1, 'public': R.get(peer, R['ec_p256b'])['CKA_EC_POINT']}}}, 'key': h, 'tmpl': dt, '_mech': 'CKM_ECDH1_DERIVE', '_kind': 'generic32'}
        if kc in ('ec-priv', 'ed-priv', 'dsa-priv'): return init('C_SignInit', {'ec-priv': 'CKM_ECDSA', 'ed-priv': 'CKM_EDDSA', 'dsa-priv': r.choice(['CKM_DSA', 'CKM_DSA_SHA1'])}[kc])
        if kc == 'dh-priv' and r.random() < 0.6: return {'fn': 'C_DeriveKey', 's': S, 'mech': {'m': s.ck.CKM_DH_PKCS_DERIVE, 'p': {'hex': R['dh1024b']['CKA_VALUE']}}, 'key': h, 'tmpl': dt, '_mech': 'CKM_DH_PKCS_DERIVE', '_kind': 'generic32'}
        wk = s.st.pick_objs({'aes'}, 0)
        if kc.endswith('-priv') and wk: return {'fn': 'C_WrapKey', 's': S, 'mech': {'m': s.ck.CKM_AES_KEY_WRAP_PAD, 'p': None}, 'wkey': r.choice(wk).h, 'key': h, 'buf': 8192, '_mech': 'CKM_AES_KEY_WRAP_PAD'}
        return {'fn': 'C_GetAttributeValue', 's': S, 'o': h, 'tmpl': [{'t': s.ck[a], 'buf': 4096} for a in ('CKA_VALUE', 'CKA_CHECK_VALUE', 'CKA_LABEL')]}
    def next(s):
        r = s.rnd; s.count += 1; s._force_s = None
        if s.use_queue and s.st.init and r.random() < 0.75:
            h, kind = s.use_queue.pop(0); q = s.use_request(h, kind); fn = q['fn']
            if r.random() < 0.8: return dict(q), [], q, []
        else: fn = s.pick_fn(); q = s.base(fn)
        if s._force_s is not None and 's' in q:
            q['s'] = s._force_s
            if 'data' in q: q['data'] = s.data_for(s._force_s)
        cands = s.candidate_edits(fn, q)
        n = 0 if not cands else r.choices([0, 1, 2, 3], [0.27, 0.48, 0.19, 0.06])[0]
        edits = []; seen = set()
        pool = list(cands)
        for _ in range(min(n, len(pool))):
            i = r.choices(range(len(pool)), [w for w, _ in pool])[0]; th = pool.pop(i)[1]
            tag, field, val = th()
            if field in seen: continue
            seen.add(field); edits.append((tag, field, val))
        req = s.apply(q, edits)
        return req, sorted(t for t, _, _ in edits), q, edits
    @staticmethod
    def apply(base, edits):
        req = dict(base)
        for tag, field, val in edits: req[field] = val
        if edits: req['_tags'] = sorted(t for t, _, _ in edits)
        return req
    # ---------------------------------------------------------------- state tracking from replies
    def observe(s, req, res):
        st = s.st; fn = req['fn']; rv = res.get('rv', -1); ok = rv == 0
        S = req.get('s')
        if fn == 'C_Finalize' and ok: st.init = False; st.closed += list(st.sessions); st.sessions = {}; st.op = {}; st.stale += [o.h for o in st.objs if not o.token]; st.objs = [o for o in st.objs if o.token]
        elif fn == 'C_Initialize' and ok: st.init = True
        elif fn == 'C_OpenSession' and ok and req.get('slot') in st.slots: st.sessions[res['h']] = {'ti': st.slots.index(req['slot']), 'rw': bool(req.get('flags', 6) & 2)}
        elif fn == 'C_CloseSession' and ok and S in st.sessions: st.sessions.pop(S); st.closed.append(S); st.op.pop(S, None)
        elif fn == 'C_CloseAllSessions' and ok and req.get('slot') in st.slots:
            ti = st.slots.index(req['slot'])
            for h in [h for h, d in st.sessions.items() if d['ti'] == ti]: st.sessions.pop(h); st.closed.append(h); st.op.pop(h, None)
        elif fn == 'C_InitToken' and ok and req.get('slot') in st.slots:
            ti = st.slots.index(req['slot']); st.stale += [o.h for o in st.objs if o.ti == ti]; st.objs = [o for o in st.objs if o.ti != ti]
        elif fn in ('C_CreateObject', 'C_CopyObject', 'C_GenerateKey', 'C_UnwrapKey', 'C_DeriveKey') and ok and res.get('h'):
            st.objs.append(Obj(res['h'], req.get('_kind'), st.sessions.get(S, {'ti': 0})['ti']))
            if (req.get('_tags') or s.rnd.random() < 0.3) and req.get('_kind'): s.use_queue.append((res['h'], req['_kind']))
        elif fn == 'C_GenerateKeyPair' and ok:
            ti = st.sessions.get(S, {'ti': 0})['ti']; k = req.get('_kind') or 'rsa1024'
            st.objs.append(Obj(res['hpub'], k + ':pub', ti)); st.objs.append(Obj(res['hpriv'], k + ':priv', ti))
            if req.get('_tags'): s.use_queue += [(res['hpriv'], k + ':priv'), (res['hpub'], k + ':pub')]
        elif fn == 'C_DestroyObject' and ok:
            st.stale.append(req['o']); st.objs = [o for o in st.objs if o.h != req['o']]
        elif fn in INIT_OP:
            if ok and S in st.sessions: st.op[S] = (INIT_OP[fn], req.get('_mech') or 'find')
        elif fn in ('C_Encrypt', 'C_Decrypt', 'C_Sign', 'C_Verify', 'C_Digest', 'C_EncryptFinal', 'C_DecryptFinal', 'C_SignFinal', 'C_VerifyFinal', 'C_DigestFinal', 'C_FindObjectsFinal', 'C_SignRecover', 'C_VerifyRecover'):
            if res.get('rvname') != 'CKR_BUFFER_TOO_SMALL' and not (ok and req.get('buf', 1) is None): st.op.pop(S, None)
        out = res.get('out') or {}
        if ok and out.get('data'):
            if fn in ('C_Sign', 'C_SignFinal'): s.last_sig = out['data']
            elif fn in ('C_Encrypt', 'C_EncryptUpdate'): s.last_ct = out['data']
            elif fn == 'C_WrapKey': s.last_wrapped = out['data']
            elif fn == 'C_GetOperationState': s.last_state = out['data']
        if len(st.stale) > 64: st.stale = st.stale[-64:]
        if len(st.closed) > 32: st.closed = st.closed[-32:]

# ================================================================================================ file fuzz
import struct
def walk_objfile(b):
    """Own field walker for the file back-end's object format (8-byte BE generation, then records
    (type u64, kind u64, value); kinds 1 bool(1) / 2 ulong(8) / 3 bytes(len u64 + data) / 4 attribute map
    (byte length u64, then (type, kind, value) with kind 1/2/3/5... inner kinds are akBoolean.. of OSAttribute) /
    5 mechanism set (count u64 + count*u64)).  Returns (fields, records): fields = [(offset, size, role, record index)],
    records = [(start, end, type, kind)].  Stops silently where the file stops making sense."""
    F = []; R = []; n = len(b)
    def u64(o): return struct.unpack_from('>Q', b, o)[0]
    if n < 8: return F, R
    F.append((0, 8, 'generation', -1)); o = 8
    def value(o, kind, ri, end, depth):
        if kind == 1:
            if o + 1 > end: return None
            F.append((o, 1, 'bool', ri)); return o + 1
        if kind == 2:
            if o + 8 > end: return None
            F.append((o, 8, 'ulong', ri)); return o + 8
        if kind == 3:
            if o + 8 > end: return None
            l = u64(o); F.append((o, 8, 'blen', ri))
            if o + 8 + l > end: return None
            F.append((o + 8, l, 'bytes', ri)); return o + 8 + l
        if kind == 5:
            if o + 8 > end: return None
            c = u64(o); F.append((o, 8, 'mcount', ri))
            if o + 8 + 8 * c > end: return None
            for i in range(c): F.append((o + 8 + 8 * i, 8, 'mech', ri))
            return o + 8 + 8 * c
        if kind == 4 and depth == 0:
            if o + 8 > end: return None
            l = u64(o); F.append((o, 8, 'maplen', ri)); p = o + 8; e = p + l
            if e > end: return None
            while p < e:
                if p + 16 > e: return None
                F.append((p, 8, 'mtype', ri)); F.append((p + 8, 8, 'mkind', ri)); p2 = value(p + 16, u64(p + 8), ri, e, 1)
                if p2 is None: return None
                p = p2
            return e
        return None
    while o + 16 <= n:
        t = u64(o); k = u64(o + 8); ri = len(R); mark = len(F)
        F.append((o, 8, 'type', ri)); F.append((o + 8, 8, 'kind', ri))
        e = value(o + 16, k, ri, n, 0)
        if e is None: del F[mark:]; break
        R.append((o, e, t, k)); o = e
    return F, R

LEN_VALUES = [0, 1, 1 << 31, (1 << 31) - 1, 1 << 32, 1 << 62, 1 << 63, U64, U64 - 7]
def mutate_objfile(rnd, b, other=None):
    """one structure-aware mutation of an object / token file -> (class label, new bytes)"""
    F, R = walk_objfile(b); r = rnd; n = len(b); b = bytearray(b)
    def put(o, v): b[o:o + 8] = struct.pack('>Q', v & U64)
    lens = [f for f in F if f[2] in ('blen', 'maplen', 'mcount')]; kinds = [f for f in F if f[2] in ('kind', 'mkind')]; types = [f for f in F if f[2] in ('type', 'mtype')]
    c = r.randrange(20)
    if c == 0: 
        for _ in range(r.choice([1, 1, 2, 8, 32])): i = r.randrange(max(1, n)); b[i:i + 1] = bytes([(b[i] if i < n else 0) ^ (1 << r.randrange(8))])
        return 'bitflip', bytes(b)
    if c in (1, 2) and lens:
        f = r.choice(lens); rest = n - (f[0] + 8); v = r.choice(LEN_VALUES + [rest, rest + 1, max(0, rest - 1), n, n + 1, n - 1])
        if f[2] == 'mcount': v = r.choice(LEN_VALUES + [rest // 8, rest // 8 + 1, rest])
        put(f[0], v); return 'length-field:' + f[2], bytes(b)
    if c == 3 and F:
        f = r.choice(F); cut = r.choice([f[0], f[0] + f[1], f[0] + 1, max(0, f[0] + f[1] - 1)]); return 'truncate-at-field', bytes(b[:cut])
    if c == 4 and kinds:
        f = r.choice(kinds); put(f[0], r.choice([0, 1, 2, 3, 4, 5, 6, 255, 1 << 32, U64])); return 'kind-swap', bytes(b)
    if c == 5 and len(types) >= 2:
        f, g = r.sample(types, 2); v = r.choice([b[g[0]:g[0] + 8], struct.pack('>Q', r.choice([0, 0x100, 0x11, 0x120, 0x161, 0x40000211, 0x40000600, 0x8000534B, U64]))]); b[f[0]:f[0] + 8] = v; return 'type-swap', bytes(b)
    if c == 6 and R:
        s0, e0, _, _ = r.choice(R); i = r.choice(R)[0]; return 'duplicate-record', bytes(b[:i] + b[s0:e0] + b[i:])
    if c == 7 and len(R) >= 2:
        (a0, a1, _, _), (c0, c1, _, _) = sorted(r.sample(R, 2)); return 'reorder-records', bytes(b[:a0] + b[c0:c1] + b[a1:c0] + b[a0:a1] + b[c1:])
    if c == 8 and R:
        s0, e0, _, _ = r.choice(R); return 'delete-record', bytes(b[:s0] + b[e0:])
    if c == 9: return 'append-garbage', bytes(b) + r.randbytes(r.choice([1, 7, 8, 16, 24, 100, 4096]))
    if c == 10: return 'empty-file', b''
    if c == 11: return 'truncate-random', bytes(b[:r.randrange(0, max(1, n))])
    if c == 12:
        k = r.randrange(3); return 'blob:' + ['zeros', 'ff', 'random'][k], [bytes(r.choice([8, 24, 25, 4096, 1 << 20])), b'\xff' * r.choice([8, 24, 4096]), r.randbytes(r.choice([8, 16, 24, 100, 4096]))][k]
    if c in (13, 14):
        vs = [f for f in F if f[2] == 'bytes']
        if vs:    # well-formed file, hostile content: resize a byte string and fix its length field (and the map length is left alone)
            f = r.choice(vs); m = r.choice([0, 1, 2, f[1] // 2, f[1] + 1, f[1] + 16, 4096, 1 << 16]); new = r.randbytes(m) if r.random() < 0.5 else bytes(b[f[0]:f[0] + f[1]] + bytes(m))[:m]
            b[f[0]:f[0] + f[1]] = new; put(f[0] - 8, m); return 'value-resize', bytes(b)
    if c == 15:
        vs = [f for f in F if f[2] == 'ulong']
        if vs: f = r.choice(vs); put(f[0], r.choice([0, 1, 2, 3, 4, 5, 6, 0x10, 0x13, 0x1f, 0x21, 0x40, 0x8000, 1 << 31, 1 << 32, U64])); return 'ulong-value', bytes(b)
    if c == 16:
        vs = [f for f in F if f[2] == 'bool']
        if vs: f = r.choice(vs); b[f[0]] = r.choice([0, 1, 2, 0x80, 0xff]); return 'bool-value', bytes(b)
    if c == 17:
        vs = [f for f in F if f[2] == 'bytes' and f[1] > 0]
        if vs: f = r.choice(vs); k = r.randrange(3); b[f[0]:f[0] + f[1]] = [bytes(f[1]), b'\xff' * f[1], r.randbytes(f[1])][k]; return 'value-content', bytes(b)
    if c == 18 and other is not None: return 'foreign-file', other
    if c == 19: put(0, r.choice([0, 1, U64, 1 << 63])); return 'generation-field', bytes(b)
    i = r.randrange(max(1, n)); b[i:i + 1] = bytes([r.choice([0, 0xff, 0x80])]); return 'byte-set', bytes(b)

CKA_OS_TOKENSERIAL = 0x8000534A
def set_token_serial(b, serial):
    """rewrite the serial (plaintext byte string, vendor attribute 0x8000534A) of a token.object; None if not found"""
    F, R = walk_objfile(b)
    for (s0, e0, t, k) in R:
        if t == CKA_OS_TOKENSERIAL and k == 3: return bytes(b[:s0 + 16]) + struct.pack('>Q', len(serial)) + serial + bytes(b[e0:])
    return None

MECH_NAMES = ['CKM_SHA256', 'CKM_AES_CBC', 'CKM_RSA_PKCS', 'CKM_SHA_1', 'CKM_AES_GCM', 'CKM_ECDSA', 'CKM_AES_KEY_GEN', 'CKM_SHA512_HMAC', 'CKM_RSA_PKCS_KEY_PAIR_GEN', 'CKM_AES_KEY_WRAP']
def mech_list_with_duplicates(rnd, positive, repeats, unknown, names=None):
    """a slots.mechanisms value that names mechanisms more than once (positive list, or negative '-' list), optionally mixed with unknown names"""
    names = names or rnd.sample(MECH_NAMES, rnd.choice([1, 2, 3])); l = (names * repeats)[:max(2, repeats * len(names))]
    if unknown: l.insert(len(l) // 2, 'CKM_NO_SUCH_MECHANISM'); l.append('CKM_NOPE'); l.insert(1, l[0])
    return ('' if positive else '-') + ','.join(l)
CONF_KEYS = ['directories.tokendir', 'objectstore.backend', 'objectstore.umask', 'log.level', 'slots.removable', 'slots.mechanisms', 'library.reset_on_fork']
def mutate_conf(rnd, text, d):
    """one hostile edit of softhsm2.conf -> (class label, bytes).  `d` is the scratch dir (for path tricks)."""
    r = rnd; lines = text.splitlines(); c = r.randrange(28)
    def rep(key, val): return ('\n'.join([l for l in lines if not l.startswith(key)] + ['%s = %s' % (key, val)]) + '\n').encode('latin-1')
    if c >= 25:
        # text that ends up in a log message: conversion specifications in names and values of known and unknown settings (the text is data, never a format)
        fmt = r.choice(['%s' * r.choice([1, 12, 150]), '%n', '%Y-%m-%d %n', '%x%x%x%x%n', '%99999999d', '%*d%s', '%1$s%2$n', '%%%s%%n%'])
        where = r.randrange(4)
        if where == 0: return 'format-string', (text + 'log.format = %s\n' % fmt).encode()
        if where == 1: return 'format-string', (text + 'foo.%s = %s\n' % (fmt, fmt)).encode()
        if where == 2: return 'format-string', rep(r.choice(CONF_KEYS), fmt)
        return 'format-string', (text + '%s\n%s = 1\nslots.mechanisms = %s,CKM_%s\n' % (fmt, fmt, fmt, fmt)).encode()
    def rep(key, val): return ('\n'.join([l for l in lines if not l.startswith(key)] + ['%s = %s' % (key, val)]) + '\n').encode('latin-1')
    if c >= 22: return 'mechanisms-duplicates', rep('slots.mechanisms', mech_list_with_duplicates(r, positive=r.random() < 0.6, repeats=r.choice([2, 3, 5, 13, 40]), unknown=r.random() < 0.4))
    if c == 0: return 'long-line', rep(r.choice(CONF_KEYS), 'A' * r.choice([1000, 1010, 1022, 1023, 1024, 1025, 2047, 2048, 5000, 70000]))
    if c == 1: return 'long-key', (text + 'K' * r.choice([1023, 1024, 1025, 3000]) + ' = x\n').encode()
    if c == 2: return 'non-ascii', rep(r.choice(CONF_KEYS), bytes(r.randrange(128, 256) for _ in range(r.choice([1, 10, 300]))).decode('latin-1'))
    if c == 3: return 'missing-equals', (text + r.choice(['directories.tokendir\n', 'objectstore.backend file\n', '=\n', '= =\n', '===\n', ' = \n', 'log.level=\n', '=x\n'])).encode()
    if c == 4: return 'unknown-key', (text + r.choice(['foo.bar = 1\n', 'directories.tokendirx = /\n', 'slots = 1\n', 'objectstore.backend.x = db\n'])).encode()
    if c == 5: return 'tokendir-is-file', rep('directories.tokendir', d + '/softhsm2.conf')
    if c == 6: return 'tokendir-missing', rep('directories.tokendir', r.choice([d + '/nonexistent', '', '/', '/proc/self/fd', '/dev/null', 'relative/path', d + '/tokens/' + 'x' * 300]))
    if c == 7: return 'backend-unknown', rep('objectstore.backend', r.choice(['', 'DB', 'sqlite', 'file ', 'x' * 2000, 'db\x00file']))
    if c == 8: return 'loglevel-garbage', rep('log.level', r.choice(['', 'debug', 'DEBUG', 'TRACE', '7', 'x' * 1500]))
    if c == 9: return 'bool-garbage', rep(r.choice(['slots.removable', 'library.reset_on_fork']), r.choice(['', 'yes', '1', 'TRUE', 'tru', 'x' * 1100]))
    if c == 10: return 'umask-garbage', rep('objectstore.umask', r.choice(['', '-1', '9999999999999999999999', '0777', '08', 'abc', '0x1ff']))
    if c == 11: return 'mechanisms-garbage', rep('slots.mechanisms', r.choice(['', ',', ',,,,', '-', 'ALL', '-ALL', 'CKM_NOPE', 'CKM_AES_CBC,' * 60, '-CKM_AES_CBC,CKM_NOPE', 'CKM_RSA_PKCS', '-' + ',CKM_SHA256' * 200, ' , ,']))
    if c == 12: return 'empty-file', b''
    if c == 13: return 'no-trailing-newline', text.rstrip('\n').encode()
    if c == 14: return 'nul-bytes', text.replace('=', '=\x00', 1).encode() + b'\x00\x00\n\x00'
    if c == 15: return 'whitespace-only', r.choice([b' \n', b'\t\t\n\n   ', b'\n' * 3000, b' ' * 5000])
    if c == 16: return 'crlf', text.replace('\n', '\r\n').encode()
    if c == 17: return 'duplicate-keys', (text + text + text).encode()
    if c == 18: return 'comment-tricks', (text + '#' * 2000 + '\n' + 'log.level = INFO # x = y\n#\n' + '# ' + 'é' * 600 + '\n').encode()
    if c == 19: return 'binary-garbage', r.randbytes(r.choice([1, 100, 1024, 5000]))
    if c == 20: return 'long-line-no-newline', ('directories.tokendir = ' + d + '/tokens' + ' ' * r.choice([1000, 1024, 2048])).encode()
    return 'many-lines', ((text + 'log.level = INFO\n') * 2000).encode()
