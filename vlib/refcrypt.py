"""Independent crypto reference (prototype): block primitives from nettle via ctypes, every mode written from its standard."""
import ctypes as C, hashlib, hmac as _hmac, struct
_n = C.CDLL('libnettle.so.8')
def _sym(*names):
    for n in names:
        try: return getattr(_n, n)
        except AttributeError: pass
    raise AttributeError(names)
class _Blk:
    def __init__(s, key):
        s.ctxe = C.create_string_buffer(1024); s.ctxd = C.create_string_buffer(1024); s.key = key
class AES(_Blk):
    bs = 16
    def __init__(s, key):
        super().__init__(key); b = {16: '128', 24: '192', 32: '256'}[len(key)]
        _sym('nettle_aes%s_set_encrypt_key' % b)(s.ctxe, key); _sym('nettle_aes%s_set_decrypt_key' % b)(s.ctxd, key)
        s._e = _sym('nettle_aes%s_encrypt' % b); s._d = _sym('nettle_aes%s_decrypt' % b)
    def enc(s, blk): o = C.create_string_buffer(16); s._e(s.ctxe, C.c_size_t(16), o, blk); return o.raw
    def dec(s, blk): o = C.create_string_buffer(16); s._d(s.ctxd, C.c_size_t(16), o, blk); return o.raw
class DES3(_Blk):
    bs = 8
    def __init__(s, key):
        if len(key) == 16: key = key + key[:8]
        if len(key) == 8: key = key * 3
        super().__init__(key); _sym('nettle_des3_set_key')(s.ctxe, key); s._e = _sym('nettle_des3_encrypt'); s._d = _sym('nettle_des3_decrypt')
    def enc(s, blk): o = C.create_string_buffer(8); s._e(s.ctxe, C.c_size_t(8), o, blk); return o.raw
    def dec(s, blk): o = C.create_string_buffer(8); s._d(s.ctxe, C.c_size_t(8), o, blk); return o.raw
def xor(a, b): return bytes(x ^ y for x, y in zip(a, b))
def ecb(c, data, enc=True): return b''.join((c.enc if enc else c.dec)(data[i:i + c.bs]) for i in range(0, len(data), c.bs))
def cbc(c, iv, data, enc=True):
    out = b''; prev = iv
    for i in range(0, len(data), c.bs):
        blk = data[i:i + c.bs]
        if enc: prev = c.enc(xor(blk, prev)); out += prev
        else: out += xor(c.dec(blk), prev); prev = blk
    return out
def pkcs7_pad(d, bs): n = bs - len(d) % bs; return d + bytes([n]) * n
def pkcs7_unpad(d, bs):
    if not d or len(d) % bs: return None
    n = d[-1]
    if n == 0 or n > bs or d[-n:] != bytes([n]) * n: return None
    return d[:-n]
def ctr(c, cb, data, counter_bits=128):
    out = b''; ctrv = int.from_bytes(cb, 'big'); mask = (1 << counter_bits) - 1
    for i in range(0, len(data), 16):
        out += xor(data[i:i + 16], c.enc(ctrv.to_bytes(16, 'big'))); ctrv = (ctrv & ~mask) | ((ctrv + 1) & mask)
    return out
def _gmul(x, y):  # GF(2^128), NIST SP 800-38D bit order
    z = 0; v = y
    for i in range(127, -1, -1):
        if (x >> i) & 1: z ^= v
        v = (v >> 1) ^ (0xE1 << 120) if v & 1 else v >> 1
    return z
def _ghash(h, a, c):
    def blocks(d): return [int.from_bytes(d[i:i + 16].ljust(16, b'\0'), 'big') for i in range(0, len(d), 16)]
    y = 0
    for b in blocks(a) + blocks(c) + [(len(a) * 8 << 64) | (len(c) * 8)]: y = _gmul(y ^ b, h)
    return y
def gcm(c, iv, aad, data, taglen=16, enc=True, tag=None):
    h = int.from_bytes(c.enc(b'\0' * 16), 'big')
    j0 = iv + b'\0\0\0\1' if len(iv) == 12 else _ghash(h, b'', iv).to_bytes(16, 'big')
    inc = lambda b: b[:12] + ((int.from_bytes(b[12:], 'big') + 1) & 0xffffffff).to_bytes(4, 'big')
    out = b''; cb = inc(j0)
    for i in range(0, len(data), 16): out += xor(data[i:i + 16], c.enc(cb)); cb = inc(cb)
    ct = out if enc else data
    t = xor(_ghash(h, aad, ct).to_bytes(16, 'big'), c.enc(j0))[:taglen]
    if enc: return out + t
    return out if _hmac.compare_digest(t, tag) else None
def cmac(c, data, outlen=None):
    bs = c.bs; R = 0x87 if bs == 16 else 0x1B; L = int.from_bytes(c.enc(b'\0' * bs), 'big'); m = (1 << (bs * 8)) - 1
    def dbl(x): return ((x << 1) & m) ^ (R if x >> (bs * 8 - 1) else 0)
    k1 = dbl(L); k2 = dbl(k1); n = max(1, -(-len(data) // bs)); last = data[(n - 1) * bs:]
    if len(last) == bs: last = xor(last, k1.to_bytes(bs, 'big'))
    else: last = xor(last + b'\x80' + b'\0' * (bs - len(last) - 1), k2.to_bytes(bs, 'big'))
    x = b'\0' * bs
    for i in range(n - 1): x = c.enc(xor(x, data[i * bs:(i + 1) * bs]))
    return c.enc(xor(x, last))[:outlen or bs]
def kw_wrap(c, pt, iv=b'\xA6' * 8):  # RFC 3394
    n = len(pt) // 8; a = iv; r = [pt[i * 8:(i + 1) * 8] for i in range(n)]
    for j in range(6):
        for i in range(n):
            b = c.enc(a + r[i]); a = xor(b[:8], (n * j + i + 1).to_bytes(8, 'big')); r[i] = b[8:]
    return a + b''.join(r)
def kw_unwrap(c, ct, want_iv=b'\xA6' * 8, raw=False):
    n = len(ct) // 8 - 1; a = ct[:8]; r = [ct[(i + 1) * 8:(i + 2) * 8] for i in range(n)]
    for j in range(5, -1, -1):
        for i in range(n - 1, -1, -1):
            b = c.dec(xor(a, (n * j + i + 1).to_bytes(8, 'big')) + r[i]); a = b[:8]; r[i] = b[8:]
    if raw: return a, b''.join(r)
    return b''.join(r) if a == want_iv else None
def kwp_wrap(c, pt):  # RFC 5649
    aiv = b'\xA6\x59\x59\xA6' + len(pt).to_bytes(4, 'big'); p = pt + b'\0' * (-len(pt) % 8)
    return c.enc(aiv + p) if len(p) == 8 else kw_wrap(c, p, aiv)
def kwp_unwrap(c, ct):
    if len(ct) == 16: b = c.dec(ct); a, p = b[:8], b[8:]
    else: a, p = kw_unwrap(c, ct, raw=True)
    if a[:4] != b'\xA6\x59\x59\xA6': return None
    n = int.from_bytes(a[4:], 'big')
    if not (len(p) - 8 < n <= len(p)) or any(p[n:]): return None
    return p[:n]
def kcv(c): return c.enc(b'\0' * c.bs)[:3]
# ---- RSA (big integers)
def i2osp(x, n): return x.to_bytes(n, 'big')
def mgf1(seed, n, h): return b''.join(hashlib.new(h, seed + struct.pack('>I', i)).digest() for i in range(-(-n // hashlib.new(h).digest_size)))[:n]
DIGESTINFO = {'md5': '3020300c06082a864886f70d020505000410', 'sha1': '3021300906052b0e03021a05000414', 'sha224': '302d300d06096086480165030402040500041c', 'sha256': '3031300d060960864801650304020105000420', 'sha384': '3041300d060960864801650304020205000430', 'sha512': '3051300d060960864801650304020305000440'}
def pkcs1_sig_em(k, msg_or_digestinfo, h=None):
    t = bytes.fromhex(DIGESTINFO[h]) + hashlib.new(h, msg_or_digestinfo).digest() if h else msg_or_digestinfo
    return b'\0\1' + b'\xff' * (k - 3 - len(t)) + b'\0' + t
def pss_verify(n, e, sig, mhash, h, slen):
    k = (n.bit_length() + 7) // 8; embits = n.bit_length() - 1; emlen = (embits + 7) // 8
    if len(sig) != k: return False
    m = pow(int.from_bytes(sig, 'big'), e, n)
    if m >= n: return False
    em = m.to_bytes(k, 'big')[k - emlen:]; hl = hashlib.new(h).digest_size
    if emlen < hl + slen + 2 or em[-1] != 0xbc: return False
    mdb, H = em[:emlen - hl - 1], em[emlen - hl - 1:-1]
    db = bytearray(xor(mdb, mgf1(H, emlen - hl - 1, h))); db[0] &= 0xff >> (8 * emlen - embits)
    if mdb[0] >> (8 - (8 * emlen - embits)) if 8 * emlen - embits else 0: return False
    if bytes(db[:emlen - hl - slen - 2]) != b'\0' * (emlen - hl - slen - 2) or db[emlen - hl - slen - 2] != 1: return False
    return hashlib.new(h, b'\0' * 8 + mhash + bytes(db[-slen:] if slen else b'')).digest() == H
def oaep_decode(em, h='sha1', label=b''):
    hl = hashlib.new(h).digest_size; k = len(em)
    if k < 2 * hl + 2 or em[0] != 0: return None
    ms, mdb = em[1:1 + hl], em[1 + hl:]; seed = xor(ms, mgf1(mdb, hl, h)); db = xor(mdb, mgf1(seed, k - hl - 1, h))
    if db[:hl] != hashlib.new(h, label).digest(): return None
    i = hl
    while i < len(db) and db[i] == 0: i += 1
    if i >= len(db) or db[i] != 1: return None
    return db[i + 1:]
