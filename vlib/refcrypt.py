"""Independent crypto reference for the C10/C13 oracles.

Block primitives (AES, 3DES) come from libnettle through ctypes; every mode, MAC, key wrap, padding and all
public-key schemes are written here from their standards (FIPS 197/SP 800-38A/B/D, RFC 2104, RFC 3394, RFC 5649,
RFC 8017, FIPS 186-4, SEC 1, RFC 7748, RFC 8032, RFC 5208/5915/8410) on Python big integers and hashlib.
Neither OpenSSL nor Botan (what SoftHSM links) is used anywhere.  `python3 refcrypt.py --selftest` checks the
standard vectors (and, where available, a second opinion from nettle/hogweed and libsodium)."""
import ctypes as C, ctypes.util, hashlib, hmac as _hmac, os, struct, sys

_n = C.CDLL('libnettle.so.8')
def _sym(*names):
    for n in names:
        try: return getattr(_n, n)
        except AttributeError: pass
    raise AttributeError(names)

# ------------------------------------------------------------------ block ciphers (nettle)
class _Blk:
    def __init__(s, key):
        s.ctxe = C.create_string_buffer(1024); s.ctxd = C.create_string_buffer(1024); s.key = bytes(key)
class AES(_Blk):
    bs = 16
    def __init__(s, key):
        super().__init__(key); b = {16: '128', 24: '192', 32: '256'}[len(key)]
        _sym('nettle_aes%s_set_encrypt_key' % b)(s.ctxe, s.key); _sym('nettle_aes%s_set_decrypt_key' % b)(s.ctxd, s.key)
        s._e = _sym('nettle_aes%s_encrypt' % b); s._d = _sym('nettle_aes%s_decrypt' % b)
    def enc(s, blk): o = C.create_string_buffer(16); s._e(s.ctxe, C.c_size_t(16), o, bytes(blk)); return o.raw
    def dec(s, blk): o = C.create_string_buffer(16); s._d(s.ctxd, C.c_size_t(16), o, bytes(blk)); return o.raw
    def encn(s, data): o = C.create_string_buffer(len(data) or 1); s._e(s.ctxe, C.c_size_t(len(data)), o, bytes(data)); return o.raw[:len(data)]
class DES3(_Blk):
    bs = 8
    def __init__(s, key):
        key = bytes(key)
        if len(key) == 16: key = key + key[:8]          # two-key triple DES: K3 = K1
        if len(key) == 8: key = key * 3
        if len(key) != 24: raise ValueError('DES3 key length')
        super().__init__(key); _sym('nettle_des3_set_key')(s.ctxe, key); s._e = _sym('nettle_des3_encrypt'); s._d = _sym('nettle_des3_decrypt')
    def enc(s, blk): o = C.create_string_buffer(8); s._e(s.ctxe, C.c_size_t(8), o, bytes(blk)); return o.raw
    def dec(s, blk): o = C.create_string_buffer(8); s._d(s.ctxe, C.c_size_t(8), o, bytes(blk)); return o.raw
    def encn(s, data): o = C.create_string_buffer(len(data) or 1); s._e(s.ctxe, C.c_size_t(len(data)), o, bytes(data)); return o.raw[:len(data)]
def cipher(kind, key): return AES(key) if kind == 'aes' else DES3(key)

def xor(a, b): return (int.from_bytes(a, 'big') ^ int.from_bytes(b, 'big')).to_bytes(len(a), 'big') if len(a) == len(b) else bytes(x ^ y for x, y in zip(a, b))

# ------------------------------------------------------------------ modes (SP 800-38A), padding (RFC 5652)
def ecb(c, data, enc=True):
    if len(data) % c.bs: raise ValueError('ECB needs whole blocks')
    return b''.join((c.enc if enc else c.dec)(data[i:i + c.bs]) for i in range(0, len(data), c.bs))
def cbc(c, iv, data, enc=True):
    if len(data) % c.bs or len(iv) != c.bs: raise ValueError('CBC needs whole blocks and a block-size IV')
    out = []; prev = iv
    for i in range(0, len(data), c.bs):
        blk = data[i:i + c.bs]
        if enc: prev = c.enc(xor(blk, prev)); out.append(prev)
        else: out.append(xor(c.dec(blk), prev)); prev = blk
    return b''.join(out)
def pkcs7_pad(d, bs): n = bs - len(d) % bs; return d + bytes([n]) * n
def pkcs7_unpad(d, bs):
    if not d or len(d) % bs: return None
    n = d[-1]
    if n == 0 or n > bs or d[-n:] != bytes([n]) * n: return None
    return d[:-n]
def cbc_pad_encrypt(c, iv, data): return cbc(c, iv, pkcs7_pad(data, c.bs))
def cbc_pad_decrypt(c, iv, ct):
    if not ct or len(ct) % c.bs: return None
    return pkcs7_unpad(cbc(c, iv, ct, False), c.bs)
def ctr(c, cb, data, counter_bits=128):
    """CTR with the standard incrementing function on the low `counter_bits` bits of the counter block (wraps)."""
    out = []; ctrv = int.from_bytes(cb, 'big'); mask = (1 << counter_bits) - 1; bs = c.bs
    for i in range(0, len(data), bs):
        blk = data[i:i + bs]; out.append(xor(blk, c.enc(ctrv.to_bytes(bs, 'big'))[:len(blk)])); ctrv = (ctrv & ~mask) | ((ctrv + 1) & mask)
    return b''.join(out)
def ctr_blocks_before_wrap(cb, counter_bits): return (1 << counter_bits) - (int.from_bytes(cb, 'big') & ((1 << counter_bits) - 1))

# ------------------------------------------------------------------ GCM (SP 800-38D)
def _gmul(x, y):
    z = 0; v = y
    for i in range(127, -1, -1):
        if (x >> i) & 1: z ^= v
        v = (v >> 1) ^ (0xE1 << 120) if v & 1 else v >> 1
    return z
class _GH:
    """GHASH with per-key 8-bit tables (16 x 256 entries) built from the bitwise definition."""
    def __init__(s, h):
        s.h = h; s.t = None
    def _tables(s):
        # t[pos][byte] = (byte placed at byte position pos of a block) * H
        p = [0] * 128; v = s.h
        for i in range(128): p[i] = v; v = (v >> 1) ^ (0xE1 << 120) if v & 1 else v >> 1      # p[i] = x^i * H  (bit i counted from the MSB)
        t = []
        for pos in range(16):
            row = [0] * 256
            for b in range(1, 256):
                low = b & -b; k = 7 - (low.bit_length() - 1)    # bit index inside the byte, MSB first
                row[b] = row[b ^ low] ^ p[pos * 8 + k]
            t.append(row)
        s.t = t
    def mul(s, x):
        if s.t is None: s._tables()
        z = 0; t = s.t
        for pos in range(16): z ^= t[pos][(x >> (120 - 8 * pos)) & 0xff]
        return z
    def ghash(s, a, c):
        small = len(a) + len(c) < 4096 and s.t is None
        mul = (lambda x: _gmul(x, s.h)) if small else s.mul
        y = 0
        for d in (a, c):
            for i in range(0, len(d), 16): y = mul(y ^ int.from_bytes(d[i:i + 16].ljust(16, b'\0'), 'big'))
        return mul(y ^ ((len(a) * 8 << 64) | (len(c) * 8)))
def gcm(c, iv, aad, data, taglen=16, enc=True, tag=None):
    """enc: returns ciphertext || tag[:taglen].  dec: data = ciphertext, tag given; returns plaintext or None."""
    if len(iv) == 0: raise ValueError('GCM IV must not be empty')
    g = _GH(int.from_bytes(c.enc(b'\0' * 16), 'big'))
    j0 = iv + b'\0\0\0\1' if len(iv) == 12 else g.ghash(b'', iv).to_bytes(16, 'big')
    out = ctr(c, j0[:12] + ((int.from_bytes(j0[12:], 'big') + 1) & 0xffffffff).to_bytes(4, 'big'), data, 32)
    ct = out if enc else data
    t = xor(g.ghash(aad, ct).to_bytes(16, 'big'), c.enc(j0))[:taglen]
    if enc: return out + t
    return out if (tag is not None and len(tag) == taglen and _hmac.compare_digest(t, tag)) else None
def gcm_decrypt(c, iv, aad, blob, taglen=16):
    if len(blob) < taglen: return None
    return gcm(c, iv, aad, blob[:len(blob) - taglen], taglen, False, blob[len(blob) - taglen:])

# ------------------------------------------------------------------ CMAC (SP 800-38B), HMAC (RFC 2104), digests
def cmac(c, data, outlen=None):
    bs = c.bs; R = 0x87 if bs == 16 else 0x1B; L = int.from_bytes(c.enc(b'\0' * bs), 'big'); m = (1 << (bs * 8)) - 1
    def dbl(x): return ((x << 1) & m) ^ (R if x >> (bs * 8 - 1) else 0)
    k1 = dbl(L); k2 = dbl(k1); n = max(1, -(-len(data) // bs)); last = data[(n - 1) * bs:]
    if len(last) == bs: last = xor(last, k1.to_bytes(bs, 'big'))
    else: last = xor(last + b'\x80' + b'\0' * (bs - len(last) - 1), k2.to_bytes(bs, 'big'))
    x = b'\0' * bs
    for i in range(n - 1): x = c.enc(xor(x, data[i * bs:(i + 1) * bs]))
    return c.enc(xor(x, last))[:outlen or bs]
def digest(h, data): return hashlib.new(h, data).digest()
def hmac(h, key, data):
    B = hashlib.new(h).block_size
    if len(key) > B: key = digest(h, key)
    key = key.ljust(B, b'\0')
    return digest(h, bytes(x ^ 0x5c for x in key) + digest(h, bytes(x ^ 0x36 for x in key) + data))
HASHLEN = {'md5': 16, 'sha1': 20, 'sha224': 28, 'sha256': 32, 'sha384': 48, 'sha512': 64}

# ------------------------------------------------------------------ AES key wrap (RFC 3394) and with padding (RFC 5649)
def kw_wrap(c, pt, iv=b'\xA6' * 8):
    if len(pt) % 8 or len(pt) < 16: raise ValueError('RFC 3394 needs n >= 2 blocks of 8 bytes')
    n = len(pt) // 8; a = iv; r = [pt[i * 8:(i + 1) * 8] for i in range(n)]
    for j in range(6):
        for i in range(n):
            b = c.enc(a + r[i]); a = xor(b[:8], (n * j + i + 1).to_bytes(8, 'big')); r[i] = b[8:]
    return a + b''.join(r)
def kw_unwrap(c, ct, want_iv=b'\xA6' * 8, raw=False):
    if len(ct) % 8 or len(ct) < 24: return (None, None) if raw else None
    n = len(ct) // 8 - 1; a = ct[:8]; r = [ct[(i + 1) * 8:(i + 2) * 8] for i in range(n)]
    for j in range(5, -1, -1):
        for i in range(n - 1, -1, -1):
            b = c.dec(xor(a, (n * j + i + 1).to_bytes(8, 'big')) + r[i]); a = b[:8]; r[i] = b[8:]
    if raw: return a, b''.join(r)
    return b''.join(r) if a == want_iv else None
def kwp_wrap(c, pt):
    if not pt: raise ValueError('RFC 5649 needs at least one byte')
    aiv = b'\xA6\x59\x59\xA6' + len(pt).to_bytes(4, 'big'); p = pt + b'\0' * (-len(pt) % 8)
    return c.enc(aiv + p) if len(p) == 8 else kw_wrap(c, p, aiv)
def kwp_unwrap(c, ct):
    if len(ct) % 8 or len(ct) < 16: return None
    if len(ct) == 16: b = c.dec(ct); a, p = b[:8], b[8:]
    else: a, p = kw_unwrap(c, ct, raw=True)
    if a[:4] != b'\xA6\x59\x59\xA6': return None
    n = int.from_bytes(a[4:], 'big')
    if not (len(p) - 8 < n <= len(p)) or any(p[n:]): return None
    return p[:n]

# ------------------------------------------------------------------ key check values, DES parity
def kcv(kind, key):
    """PKCS#11 CKA_CHECK_VALUE: first 3 bytes of the ECB encryption of one zero block (AES, DES, DES2, DES3);
    first 3 bytes of SHA-1 of the value for generic secrets."""
    if kind == 'generic': return hashlib.sha1(key).digest()[:3]
    c = cipher('aes' if kind == 'aes' else 'des3', key); return c.enc(b'\0' * c.bs)[:3]
def des_odd_parity(key): return bytes((b & 0xFE) | ((bin(b >> 1).count('1') + 1) & 1) for b in key)

# ------------------------------------------------------------------ numbers
def i2osp(x, n): return x.to_bytes(n, 'big')
def os2ip(b): return int.from_bytes(b, 'big')
def blen(x): return (x.bit_length() + 7) // 8
def inv(a, m): return pow(a, -1, m)
_SMALL = [p for p in range(2, 2000) if all(p % q for q in range(2, int(p ** .5) + 1))]
def is_prime(n, rounds=24, rnd=None):
    if n < 2: return False
    for p in _SMALL:
        if n % p == 0: return n == p
    d = n - 1; s = 0
    while d % 2 == 0: d //= 2; s += 1
    import random; r = rnd or random.Random(n & 0xffffffff)
    for _ in range(rounds):
        a = r.randrange(2, n - 1); x = pow(a, d, n)
        if x in (1, n - 1): continue
        for _ in range(s - 1):
            x = x * x % n
            if x == n - 1: break
        else: return False
    return True
def _rand_int(rnd, lo, hi):
    """uniform in [lo, hi]; rnd is a random.Random or None (os.urandom)"""
    if rnd is not None: return rnd.randrange(lo, hi + 1)
    span = hi - lo + 1; k = blen(span) + 8
    return lo + os2ip(os.urandom(k)) % span
def _rand_bytes(rnd, n): return bytes(rnd.getrandbits(8) for _ in range(n)) if rnd is not None else os.urandom(n)

# ------------------------------------------------------------------ minimal DER
class DERError(ValueError): pass
def der_len(n):
    if n < 0x80: return bytes([n])
    b = n.to_bytes(blen(n), 'big'); return bytes([0x80 | len(b)]) + b
def der(tag, content): return bytes([tag]) + der_len(len(content)) + content
def der_int(x):
    if x < 0: raise ValueError
    b = x.to_bytes(max(1, blen(x)), 'big')
    return der(2, (b'\0' + b) if b[0] & 0x80 else b)
def der_seq(*items): return der(0x30, b''.join(items))
def der_octets(b): return der(4, bytes(b))
def der_bits(b): return der(3, b'\0' + bytes(b))
def der_null(): return b'\x05\x00'
def der_oid(dotted):
    a = [int(x) for x in dotted.split('.')]; out = bytes([a[0] * 40 + a[1]])
    for v in a[2:]:
        e = [v & 0x7f]; v >>= 7
        while v: e.append(0x80 | (v & 0x7f)); v >>= 7
        out += bytes(reversed(e))
    return der(6, out)
def der_printable(s): return der(0x13, s.encode())
def der_read(b, off=0, strict=True):
    """-> (tag, content, next offset); definite lengths only; minimal length encoding when strict"""
    if off + 2 > len(b): raise DERError('truncated header')
    tag = b[off]; l = b[off + 1]; off += 2
    if tag & 0x1f == 0x1f: raise DERError('high tag numbers not supported')
    if l & 0x80:
        k = l & 0x7f
        if k == 0 or k > 4 or off + k > len(b): raise DERError('bad length')
        l = os2ip(b[off:off + k]); off += k
        if strict and (l < 0x80 or b[off - k] == 0): raise DERError('non-minimal length')
    if off + l > len(b): raise DERError('content overruns the buffer')
    return tag, b[off:off + l], off + l
def der_items(content, strict=True):
    out = []; off = 0
    while off < len(content): t, c, off = der_read(content, off, strict); out.append((t, c))
    return out
def der_expect(item, tag):
    if item[0] != tag: raise DERError('expected tag 0x%02x, got 0x%02x' % (tag, item[0]))
    return item[1]
def der_get_int(item):
    c = der_expect(item, 2)
    if not c or c[0] & 0x80: raise DERError('negative or empty INTEGER')
    return os2ip(c)
def der_top(b, tag=0x30, strict=True):
    t, c, end = der_read(b, 0, strict)
    if t != tag: raise DERError('outer tag 0x%02x' % t)
    if end != len(b): raise DERError('trailing bytes')
    return c

# ------------------------------------------------------------------ RSA (RFC 8017)
def mgf1(seed, n, h):
    hl = hashlib.new(h).digest_size
    return b''.join(hashlib.new(h, seed + struct.pack('>I', i)).digest() for i in range(-(-n // hl)))[:n]
DIGESTINFO = {'md5': '3020300c06082a864886f70d020505000410', 'sha1': '3021300906052b0e03021a05000414', 'sha224': '302d300d06096086480165030402040500041c',
              'sha256': '3031300d060960864801650304020105000420', 'sha384': '3041300d060960864801650304020205000430', 'sha512': '3051300d060960864801650304020305000440'}
class RSAKey:
    def __init__(s, n, e, d=None, p=None, q=None):
        s.n = n; s.e = e; s.d = d; s.p = p; s.q = q; s.k = blen(n); s.bits = n.bit_length()
        if p and q and d:
            if p < q: s.p, s.q = q, p                                     # PKCS#1: coefficient = q^-1 mod p
            s.dp = d % (s.p - 1); s.dq = d % (s.q - 1); s.qinv = inv(s.q, s.p)
    @staticmethod
    def generate(bits, rnd, e=65537):
        def prime(nb):
            while True:
                c = rnd.getrandbits(nb) | (3 << (nb - 2)) | 1
                if c % e != 1 and is_prime(c, 16, rnd): return c
        while True:
            p = prime((bits + 1) // 2); q = prime(bits // 2); n = p * q
            if p == q or n.bit_length() != bits: continue
            lam = (p - 1) * (q - 1)
            try: d = inv(e, lam)
            except ValueError: continue
            return RSAKey(n, e, d, p, q)
    def public(s, m):
        if not 0 <= m < s.n: raise ValueError('message representative out of range')
        return pow(m, s.e, s.n)
    def private(s, c):
        if not 0 <= c < s.n: raise ValueError('ciphertext representative out of range')
        if s.p:
            m1 = pow(c, s.dp, s.p); m2 = pow(c, s.dq, s.q); h = (s.qinv * (m1 - m2)) % s.p; return m2 + s.q * h
        return pow(c, s.d, s.n)
    # raw (CKM_RSA_X_509): the input is left-padded with zeros to k bytes
    def raw_private(s, data): return i2osp(s.private(os2ip(data)), s.k)
    def raw_public(s, data): return i2osp(s.public(os2ip(data)), s.k)
    # PKCS#1 v1.5 signatures
    def em_pkcs1_sig(s, t):
        if len(t) > s.k - 11: raise ValueError('data too long for PKCS#1 v1.5')
        return b'\0\1' + b'\xff' * (s.k - 3 - len(t)) + b'\0' + t
    def sign_pkcs1(s, data, h=None):
        """h None: CKM_RSA_PKCS (data is used as the DigestInfo as is); else hash-then-sign"""
        t = (bytes.fromhex(DIGESTINFO[h]) + digest(h, data)) if h else data
        return i2osp(s.private(os2ip(s.em_pkcs1_sig(t))), s.k)
    def verify_pkcs1(s, data, sig, h=None):
        if len(sig) != s.k or os2ip(sig) >= s.n: return False
        t = (bytes.fromhex(DIGESTINFO[h]) + digest(h, data)) if h else data
        try: return i2osp(s.public(os2ip(sig)), s.k) == s.em_pkcs1_sig(t)
        except ValueError: return False
    # PKCS#1 v1.5 encryption
    def encrypt_pkcs1(s, msg, rnd=None):
        if len(msg) > s.k - 11: raise ValueError('message too long')
        ps = b''
        while len(ps) < s.k - 3 - len(msg): ps += bytes(b for b in _rand_bytes(rnd, s.k) if b)
        return i2osp(s.public(os2ip(b'\0\2' + ps[:s.k - 3 - len(msg)] + b'\0' + msg)), s.k)
    def decrypt_pkcs1(s, ct):
        if len(ct) != s.k or os2ip(ct) >= s.n: return None
        em = i2osp(s.private(os2ip(ct)), s.k)
        if em[:2] != b'\0\2': return None
        i = em.find(b'\0', 2)
        if i < 10: return None                                            # no separator, or PS shorter than 8
        return em[i + 1:]
    # OAEP
    def encrypt_oaep(s, msg, h='sha1', label=b'', mgf=None, rnd=None):
        mgf = mgf or h; hl = hashlib.new(h).digest_size
        if len(msg) > s.k - 2 * hl - 2: raise ValueError('message too long')
        db = digest(h, label) + b'\0' * (s.k - len(msg) - 2 * hl - 2) + b'\1' + msg; seed = _rand_bytes(rnd, hl)
        mdb = xor(db, mgf1(seed, s.k - hl - 1, mgf)); ms = xor(seed, mgf1(mdb, hl, mgf))
        return i2osp(s.public(os2ip(b'\0' + ms + mdb)), s.k)
    def decrypt_oaep(s, ct, h='sha1', label=b'', mgf=None):
        mgf = mgf or h; hl = hashlib.new(h).digest_size
        if len(ct) != s.k or s.k < 2 * hl + 2 or os2ip(ct) >= s.n: return None
        em = i2osp(s.private(os2ip(ct)), s.k)
        if em[0] != 0: return None
        ms, mdb = em[1:1 + hl], em[1 + hl:]; seed = xor(ms, mgf1(mdb, hl, mgf)); db = xor(mdb, mgf1(seed, s.k - hl - 1, mgf))
        if db[:hl] != digest(h, label): return None
        i = hl
        while i < len(db) and db[i] == 0: i += 1
        if i >= len(db) or db[i] != 1: return None
        return db[i + 1:]
    # PSS
    def pss_max_salt(s, h): return (s.bits - 1 + 7) // 8 - hashlib.new(h).digest_size - 2
    def em_pss(s, mhash, h, slen, salt=None, mgf=None, rnd=None):
        mgf = mgf or h; embits = s.bits - 1; emlen = (embits + 7) // 8; hl = hashlib.new(h).digest_size
        if len(mhash) != hl: raise ValueError('hash length')
        if emlen < hl + slen + 2: raise ValueError('encoding error: salt too long')
        salt = _rand_bytes(rnd, slen) if salt is None else salt
        H = digest(h, b'\0' * 8 + mhash + salt); db = b'\0' * (emlen - slen - hl - 2) + b'\1' + salt
        mdb = bytearray(xor(db, mgf1(H, emlen - hl - 1, mgf))); mdb[0] &= 0xff >> (8 * emlen - embits)
        return bytes(mdb) + H + b'\xbc'
    def sign_pss(s, data, h, slen, prehashed=False, salt=None, mgf=None, rnd=None):
        mh = data if prehashed else digest(h, data)
        return i2osp(s.private(os2ip(s.em_pss(mh, h, slen, salt, mgf, rnd))), s.k)
    def verify_pss(s, data, sig, h, slen, prehashed=False, mgf=None):
        """strict RFC 8017 9.1.2 with the stated salt length"""
        mgf = mgf or h; mh = data if prehashed else digest(h, data); hl = hashlib.new(h).digest_size
        if len(sig) != s.k or len(mh) != hl: return False
        m = os2ip(sig)
        if m >= s.n: return False
        embits = s.bits - 1; emlen = (embits + 7) // 8; m = s.public(m)
        if m.bit_length() > embits: return False
        em = i2osp(m, emlen)
        if emlen < hl + slen + 2 or em[-1] != 0xbc: return False
        mdb, H = em[:emlen - hl - 1], em[emlen - hl - 1:-1]; zb = 8 * emlen - embits
        if zb and mdb[0] >> (8 - zb): return False
        db = bytearray(xor(mdb, mgf1(H, emlen - hl - 1, mgf))); db[0] &= 0xff >> zb
        ps = emlen - hl - slen - 2
        if any(db[:ps]) or db[ps] != 1: return False
        return digest(h, b'\0' * 8 + mh + bytes(db[ps + 1:])) == H
    # PKCS#1 / PKCS#8
    def pkcs1_private(s):
        return der_seq(der_int(0), der_int(s.n), der_int(s.e), der_int(s.d), der_int(s.p), der_int(s.q), der_int(s.dp), der_int(s.dq), der_int(s.qinv))
    def pkcs8(s): return der_seq(der_int(0), der_seq(der_oid('1.2.840.113549.1.1.1'), der_null()), der_octets(s.pkcs1_private()))

# ------------------------------------------------------------------ DSA (FIPS 186-4), DH (PKCS #3)
def bits2int(b, qbits):
    """leftmost min(len, qbits) bits of b as an integer (FIPS 186-4 4.6 / SEC 1 4.1.3)"""
    z = os2ip(b); extra = len(b) * 8 - qbits
    return z >> extra if extra > 0 else z
class DSAKey:
    def __init__(s, p, q, g, y=None, x=None):
        s.p = p; s.q = q; s.g = g; s.x = x; s.y = y if y is not None else pow(g, x, p); s.ql = blen(q)
    @staticmethod
    def generate_params(L, N, rnd):
        while True:
            q = rnd.getrandbits(N) | (1 << (N - 1)) | 1
            if is_prime(q, 16, rnd): break
        while True:
            x = rnd.getrandbits(L) | (1 << (L - 1)); p = x - (x % (2 * q)) + 1
            if p.bit_length() == L and is_prime(p, 16, rnd): break
        h = 2
        while True:
            g = pow(h, (p - 1) // q, p)
            if g > 1: break
            h += 1
        return p, q, g
    def sign(s, hashed, k=None, rnd=None):
        """-> r || s, each len(q) bytes (the PKCS#11 format)"""
        z = bits2int(hashed, s.q.bit_length())
        while True:
            kk = k or _rand_int(rnd, 1, s.q - 1); r = pow(s.g, kk, s.p) % s.q; ss = inv(kk, s.q) * (z + s.x * r) % s.q
            if r and ss: return i2osp(r, s.ql) + i2osp(ss, s.ql)
            if k: raise ValueError('bad k')
    def verify(s, hashed, sig):
        if len(sig) != 2 * s.ql: return False
        r, ss = os2ip(sig[:s.ql]), os2ip(sig[s.ql:])
        if not (0 < r < s.q and 0 < ss < s.q): return False
        w = inv(ss, s.q); z = bits2int(hashed, s.q.bit_length())
        return (pow(s.g, z * w % s.q, s.p) * pow(s.y, r * w % s.q, s.p) % s.p) % s.q == r
    def pkcs8(s): return der_seq(der_int(0), der_seq(der_oid('1.2.840.10040.4.1'), der_seq(der_int(s.p), der_int(s.q), der_int(s.g))), der_octets(der_int(s.x)))
class DHKey:
    def __init__(s, p, g, x=None, y=None):
        s.p = p; s.g = g; s.x = x; s.y = y if y is not None else pow(g, x, p); s.k = blen(p)
    def derive(s, peer_y):
        """PKCS #3 shared secret as a string of len(p) bytes (leading zeros kept, as CKM_DH_PKCS_DERIVE specifies)"""
        if not 1 < peer_y < s.p - 1: raise ValueError('peer value out of range')
        return i2osp(pow(peer_y, s.x, s.p), s.k)
    def pkcs8(s, x942=False):
        """PKCS#3 dhKeyAgreement AlgorithmIdentifier (what OpenSSL writes) or the X9.42 dhpublicnumber OID with (p, g) (what Botan writes)"""
        return der_seq(der_int(0), der_seq(der_oid('1.2.840.10046.2.1' if x942 else '1.2.840.113549.1.3.1'), der_seq(der_int(s.p), der_int(s.g))), der_octets(der_int(s.x)))
def modp_prime(bits, c):
    """RFC 2409 / RFC 3526 Oakley primes: p = 2^n - 2^(n-64) - 1 + 2^64 * (floor(2^(n-130) * pi) + c)"""
    prec = bits + 64; one = 1 << prec
    def atan_inv(x):                                                        # arctan(1/x) * 2^prec
        t = one // x; tot = t; x2 = x * x; k = 3; sg = -1
        while t: t //= x2; tot += sg * (t // k); k += 2; sg = -sg
        return tot
    pi = 4 * (4 * atan_inv(5) - atan_inv(239))                              # Machin
    fl = (pi << (bits - 130)) >> prec
    return (1 << bits) - (1 << (bits - 64)) - 1 + (1 << 64) * (fl + c)

# ------------------------------------------------------------------ short Weierstrass curves (SEC 1 / FIPS 186-4), a = -3
class Curve:
    def __init__(s, name, oid, p, b, gx, gy, n):
        s.name = name; s.oid = oid; s.p = p; s.a = p - 3; s.b = b; s.g = (gx, gy); s.n = n; s.flen = blen(p); s.nlen = blen(n); s.params = der_oid(oid)
    def on_curve(s, P):
        if P is None: return True
        x, y = P; return 0 <= x < s.p and 0 <= y < s.p and (y * y - (x * x * x + s.a * x + s.b)) % s.p == 0
    # Jacobian arithmetic (X, Y, Z), infinity = Z == 0
    def _dbl(s, P):
        X, Y, Z = P; p = s.p
        if not Z or not Y: return (1, 1, 0)
        YY = Y * Y % p; S = 4 * X * YY % p; ZZ = Z * Z % p; M = 3 * (X - ZZ) * (X + ZZ) % p        # a = -3
        X3 = (M * M - 2 * S) % p; Y3 = (M * (S - X3) - 8 * YY * YY) % p; Z3 = 2 * Y * Z % p
        return (X3, Y3, Z3)
    def _add(s, P, Q):
        if not P[2]: return Q
        if not Q[2]: return P
        p = s.p; X1, Y1, Z1 = P; X2, Y2, Z2 = Q
        Z1Z1 = Z1 * Z1 % p; Z2Z2 = Z2 * Z2 % p; U1 = X1 * Z2Z2 % p; U2 = X2 * Z1Z1 % p
        S1 = Y1 * Z2 * Z2Z2 % p; S2 = Y2 * Z1 * Z1Z1 % p
        if U1 == U2: return s._dbl(P) if S1 == S2 else (1, 1, 0)
        H = (U2 - U1) % p; R = (S2 - S1) % p; HH = H * H % p; HHH = H * HH % p; V = U1 * HH % p
        X3 = (R * R - HHH - 2 * V) % p; Y3 = (R * (V - X3) - S1 * HHH) % p; Z3 = H * Z1 * Z2 % p
        return (X3, Y3, Z3)
    def _aff(s, P):
        if not P[2]: return None
        zi = inv(P[2], s.p); z2 = zi * zi % s.p; return (P[0] * z2 % s.p, P[1] * z2 * zi % s.p)
    def mul(s, k, P):
        if P is None: return None
        if k < 0: raise ValueError
        R = (1, 1, 0); Q = (P[0], P[1], 1)
        for bit in bin(k)[2:]:
            R = s._dbl(R)
            if bit == '1': R = s._add(R, Q)
        return s._aff(R)
    def add(s, P, Q):
        if P is None: return Q
        if Q is None: return P
        return s._aff(s._add((P[0], P[1], 1), (Q[0], Q[1], 1)))
    def mul2(s, u1, u2, Q):
        """u1*G + u2*Q (Shamir)"""
        G = (s.g[0], s.g[1], 1); Qj = (Q[0], Q[1], 1); GQ = s._add(G, Qj); R = (1, 1, 0)
        for i in range(max(u1.bit_length(), u2.bit_length()) - 1, -1, -1):
            R = s._dbl(R); a = (u1 >> i) & 1; b = (u2 >> i) & 1
            if a and b: R = s._add(R, GQ)
            elif a: R = s._add(R, G)
            elif b: R = s._add(R, Qj)
        return s._aff(R)
    def encode_point(s, P): return b'\4' + i2osp(P[0], s.flen) + i2osp(P[1], s.flen)
    def decode_point(s, b):
        if len(b) == 2 * s.flen + 1 and b[0] == 4:
            P = (os2ip(b[1:1 + s.flen]), os2ip(b[1 + s.flen:]))
        elif len(b) == s.flen + 1 and b[0] in (2, 3):
            x = os2ip(b[1:]); y2 = (x * x * x + s.a * x + s.b) % s.p; y = pow(y2, (s.p + 1) // 4, s.p)          # all three primes are 3 mod 4
            if y * y % s.p != y2: raise ValueError('not on the curve')
            P = (x, y if (y & 1) == (b[0] & 1) else s.p - y)
        else: raise ValueError('bad point encoding')
        if not s.on_curve(P): raise ValueError('not on the curve')
        return P
P256 = Curve('P-256', '1.2.840.10045.3.1.7', 2**256 - 2**224 + 2**192 + 2**96 - 1,
             0x5ac635d8aa3a93e7b3ebbd55769886bc651d06b0cc53b0f63bce3c3e27d2604b,
             0x6b17d1f2e12c4247f8bce6e563a440f277037d812deb33a0f4a13945d898c296, 0x4fe342e2fe1a7f9b8ee7eb4a7c0f9e162bce33576b315ececbb6406837bf51f5,
             0xffffffff00000000ffffffffffffffffbce6faada7179e84f3b9cac2fc632551)
P384 = Curve('P-384', '1.3.132.0.34', 2**384 - 2**128 - 2**96 + 2**32 - 1,
             0xb3312fa7e23ee7e4988e056be3f82d19181d9c6efe8141120314088f5013875ac656398d8a2ed19d2a85c8edd3ec2aef,
             0xaa87ca22be8b05378eb1c71ef320ad746e1d3b628ba79b9859f741e082542a385502f25dbf55296c3a545e3872760ab7,
             0x3617de4a96262c6f5d9e98bf9292dc29f8f41dbd289a147ce9da3113b5f0b8c00a60b1ce1d7e819d7a431d7c90ea0e5f,
             0xffffffffffffffffffffffffffffffffffffffffffffffffc7634d81f4372ddf581a0db248b0a77aecec196accc52973)
P521 = Curve('P-521', '1.3.132.0.35', 2**521 - 1,
             0x051953eb9618e1c9a1f929a21a0b68540eea2da725b99b315f3b8b489918ef109e156193951ec7e937b1652c0bd3bb1bf073573df883d2c34f1ef451fd46b503f00,
             0xc6858e06b70404e9cd9e3ecb662395b4429c648139053fb521f828af606b4d3dbaa14b5e77efe75928fe1dc127a2ffa8de3348b3c1856a429bf97e7e31c2e5bd66,
             0x11839296a789a3bc0045c8a5fb42c7d1bd998f54449579b446817afbd17273e662c97ee72995ef42640c550b9013fad0761353c7086a272c24088be94769fd16650,
             int('1' + 'f' * 64 + 'fa51868783bf2f966b7fcc0148f709a5d03bb5c9b8899c47aebb6fb71e91386409', 16))
CURVES = {'P-256': P256, 'P-384': P384, 'P-521': P521}
class ECKey:
    def __init__(s, curve, d=None, Q=None):
        s.c = curve; s.d = d; s.Q = Q if Q is not None else curve.mul(d, curve.g)
    def sign(s, hashed, k=None, rnd=None):
        """ECDSA over an already hashed message -> r || s, each len(n) bytes (PKCS#11 format)"""
        c = s.c; z = bits2int(hashed, c.n.bit_length())
        while True:
            kk = k or _rand_int(rnd, 1, c.n - 1); r = c.mul(kk, c.g)[0] % c.n; ss = inv(kk, c.n) * (z + r * s.d) % c.n
            if r and ss: return i2osp(r, c.nlen) + i2osp(ss, c.nlen)
            if k: raise ValueError('bad k')
    def verify(s, hashed, sig):
        c = s.c
        if len(sig) != 2 * c.nlen: return False
        r, ss = os2ip(sig[:c.nlen]), os2ip(sig[c.nlen:])
        if not (0 < r < c.n and 0 < ss < c.n): return False
        w = inv(ss, c.n); z = bits2int(hashed, c.n.bit_length()); R = c.mul2(z * w % c.n, r * w % c.n, s.Q)
        return R is not None and R[0] % c.n == r
    def ecdh(s, peerQ):
        """SEC 1 3.3.1 (no cofactor, h = 1): x coordinate of d * Q as a field-size string"""
        if peerQ is None or not s.c.on_curve(peerQ): raise ValueError('invalid peer point')
        P = s.c.mul(s.d, peerQ)
        if P is None: raise ValueError('infinity')
        return i2osp(P[0], s.c.flen)
    def point(s): return s.c.encode_point(s.Q)
    def sec1(s, with_params=False, with_public=True):
        items = [der_int(1), der_octets(i2osp(s.d, s.c.nlen))]
        if with_params: items.append(der(0xA0, s.c.params))
        if with_public: items.append(der(0xA1, der_bits(s.point())))
        return der_seq(*items)
    def pkcs8(s, **kw): return der_seq(der_int(0), der_seq(der_oid('1.2.840.10045.2.1'), s.c.params), der_octets(s.sec1(**kw)))
def rfc6979_k(q, x, h1, h):
    """deterministic nonce (only used by the self-test to reproduce the RFC 6979 vectors)"""
    ql = blen(q); qb = q.bit_length(); hl = hashlib.new(h).digest_size
    def b2o(b): z = bits2int(b, qb) % q; return i2osp(z, ql)
    V = b'\1' * hl; K = b'\0' * hl; xo = i2osp(x, ql)
    K = _hmac.new(K, V + b'\0' + xo + b2o(h1), h).digest(); V = _hmac.new(K, V, h).digest()
    K = _hmac.new(K, V + b'\1' + xo + b2o(h1), h).digest(); V = _hmac.new(K, V, h).digest()
    while True:
        T = b''
        while len(T) < ql: V = _hmac.new(K, V, h).digest(); T += V
        k = bits2int(T, qb)
        if 0 < k < q: return k
        K = _hmac.new(K, V + b'\0', h).digest(); V = _hmac.new(K, V, h).digest()

# ------------------------------------------------------------------ Edwards curves (RFC 8032) and Montgomery ladders (RFC 7748)
class _Ed:
    """twisted Edwards a*x^2 + y^2 = 1 + d*x^2*y^2 in affine coordinates via projective (X:Y:Z) add from the addition law"""
    def on_curve(s, P): x, y = P; return (s.a * x * x + y * y - 1 - s.d * x * x * y * y) % s.p == 0
    def add(s, P, Q):
        p = s.p; X1, Y1, Z1 = P; X2, Y2, Z2 = Q
        A = Z1 * Z2 % p; B = A * A % p; Cc = X1 * X2 % p; D = Y1 * Y2 % p; E = s.d * Cc * D % p; F = (B - E) % p; G = (B + E) % p
        X3 = A * F * ((X1 + Y1) * (X2 + Y2) - Cc - D) % p; Y3 = A * G * (D - s.a * Cc) % p; Z3 = F * G % p
        return (X3, Y3, Z3)
    def mul(s, k, P):
        R = (0, 1, 1); Q = (P[0], P[1], 1)
        for bit in bin(k)[2:]:
            R = s.add(R, R)
            if bit == '1': R = s.add(R, Q)
        zi = inv(R[2], s.p); return (R[0] * zi % s.p, R[1] * zi % s.p)
    def addaff(s, P, Q):
        R = s.add((P[0], P[1], 1), (Q[0], Q[1], 1)); zi = inv(R[2], s.p); return (R[0] * zi % s.p, R[1] * zi % s.p)
    def encode(s, P): return i2osp(P[1] | ((P[0] & 1) << (8 * s.blen - 1)), s.blen)[::-1]
    def decode(s, b):
        if len(b) != s.blen: return None
        v = int.from_bytes(b, 'little'); sign = v >> (8 * s.blen - 1); y = v & ((1 << (8 * s.blen - 1)) - 1)
        if y >= s.p: return None
        x = s.recover_x(y, sign)
        return None if x is None else (x, y)
class _Ed25519(_Ed):
    name = 'Ed25519'; oid = '1.3.101.112'; pname = 'edwards25519'
    p = 2**255 - 19; a = p - 1; d = (-121665 * pow(121666, -1, p)) % p; L = 2**252 + 27742317777372353535851937790883648493; blen = 32
    def __init__(s): y = 4 * inv(5, s.p) % s.p; s.B = (s.recover_x(y, 0), y)
    def recover_x(s, y, sign):
        p = s.p; x2 = (y * y - 1) * inv(s.d * y * y + 1, p) % p
        if x2 == 0: return None if sign else 0
        x = pow(x2, (p + 3) // 8, p)
        if (x * x - x2) % p: x = x * pow(2, (p - 1) // 4, p) % p
        if (x * x - x2) % p: return None
        return p - x if (x & 1) != sign else x
    def H(s, data): return hashlib.sha512(data).digest()
    def secret_expand(s, sk):
        h = s.H(sk); a = int.from_bytes(h[:32], 'little'); a &= (1 << 254) - 8; a |= 1 << 254; return a, h[32:]
    def dom(s, ctx=b''): return b''
class _Ed448(_Ed):
    name = 'Ed448'; oid = '1.3.101.113'; pname = 'edwards448'
    p = 2**448 - 2**224 - 1; a = 1; d = p - 39081; L = 2**446 - 13818066809895115352007386748515426880336692474882178609894547503885; blen = 57
    def __init__(s):
        s.B = (224580040295924300187604334099896036246789641632564134246125461686950415467406032909029192869357953282578032075146446173674602635247710,
               298819210078481492676017930443930673437544040154080242095928241372331506189835876003536878655418784733982303233503462500531545062832660)
    def recover_x(s, y, sign):
        p = s.p; x2 = (y * y - 1) * inv(s.d * y * y - 1, p) % p
        if x2 == 0: return None if sign else 0
        x = pow(x2, (p + 1) // 4, p)
        if (x * x - x2) % p: return None
        return p - x if (x & 1) != sign else x
    def H(s, data): return hashlib.shake_256(data).digest(114)
    def secret_expand(s, sk):
        h = s.H(sk); a = int.from_bytes(h[:57], 'little'); a &= ((1 << 448) - 1) & ~3; a |= 1 << 447; return a, h[57:]
    def dom(s, ctx=b''): return b'SigEd448' + bytes([0, len(ctx)]) + ctx
ED25519 = _Ed25519(); ED448 = _Ed448(); EDCURVES = {'Ed25519': ED25519, 'Ed448': ED448}
class EdKey:
    def __init__(s, curve, sk=None, pk=None):
        s.c = curve; s.sk = sk
        if sk is not None: s.a, s.prefix = curve.secret_expand(sk); s.pk = curve.encode(curve.mul(s.a, curve.B))
        else: s.pk = pk
    def sign(s, msg):
        c = s.c; r = int.from_bytes(c.H(c.dom() + s.prefix + msg), 'little') % c.L; Rs = c.encode(c.mul(r, c.B))
        h = int.from_bytes(c.H(c.dom() + Rs + s.pk + msg), 'little') % c.L
        return Rs + ((r + h * s.a) % c.L).to_bytes(c.blen, 'little')
    def verify(s, msg, sig):
        c = s.c
        if len(sig) != 2 * c.blen: return False
        A = c.decode(s.pk); R = c.decode(sig[:c.blen]); S = int.from_bytes(sig[c.blen:], 'little')
        if A is None or R is None or S >= c.L: return False
        h = int.from_bytes(c.H(c.dom() + sig[:c.blen] + s.pk + msg), 'little') % c.L
        return c.mul(S, c.B) == c.addaff(R, c.mul(h, A))               # cofactorless equation [S]B = R + [h]A (RFC 8032 allows either)
    def pkcs8(s): return der_seq(der_int(0), der_seq(der_oid(s.c.oid)), der_octets(der_octets(s.sk)))
def _ladder(k, u, p, bits, a24):
    x1 = u; x2, z2, x3, z3 = 1, 0, u, 1; swap = 0
    for t in range(bits - 1, -1, -1):
        kt = (k >> t) & 1; swap ^= kt
        if swap: x2, x3, z2, z3 = x3, x2, z3, z2
        swap = kt
        A = (x2 + z2) % p; AA = A * A % p; B = (x2 - z2) % p; BB = B * B % p; E = (AA - BB) % p; Cc = (x3 + z3) % p; D = (x3 - z3) % p
        DA = D * A % p; CB = Cc * B % p; x3 = (DA + CB) ** 2 % p; z3 = x1 * (DA - CB) ** 2 % p; x2 = AA * BB % p; z2 = E * (AA + a24 * E) % p
    if swap: x2, x3, z2, z3 = x3, x2, z3, z2
    return x2 * pow(z2, p - 2, p) % p
def x25519(k, u):
    kk = bytearray(k); kk[0] &= 248; kk[31] &= 127; kk[31] |= 64; uu = int.from_bytes(u, 'little') & ((1 << 255) - 1)
    return _ladder(int.from_bytes(kk, 'little'), uu % (2**255 - 19), 2**255 - 19, 255, 121665).to_bytes(32, 'little')
def x448(k, u):
    kk = bytearray(k); kk[0] &= 252; kk[55] |= 128
    return _ladder(int.from_bytes(kk, 'little'), int.from_bytes(u, 'little') % (2**448 - 2**224 - 1), 2**448 - 2**224 - 1, 448, 39081).to_bytes(56, 'little')
XBASE = {'X25519': (9).to_bytes(32, 'little'), 'X448': (5).to_bytes(56, 'little')}
XFUNC = {'X25519': x25519, 'X448': x448}; XOID = {'X25519': '1.3.101.110', 'X448': '1.3.101.111'}; XNAME = {'X25519': 'curve25519', 'X448': 'curve448'}
class XKey:
    def __init__(s, kind, sk): s.kind = kind; s.sk = sk; s.pk = XFUNC[kind](sk, XBASE[kind])
    def derive(s, peer):
        out = XFUNC[s.kind](s.sk, peer)
        if not any(out): raise ValueError('all-zero shared secret')
        return out
    def pkcs8(s): return der_seq(der_int(0), der_seq(der_oid(XOID[s.kind])), der_octets(der_octets(s.sk)))

# ------------------------------------------------------------------ PKCS#8 (RFC 5208) parse
_OID_RSA = der_oid('1.2.840.113549.1.1.1'); _OID_EC = der_oid('1.2.840.10045.2.1'); _OID_DSA = der_oid('1.2.840.10040.4.1'); _OID_DH = der_oid('1.2.840.113549.1.3.1'); _OID_DHX = der_oid('1.2.840.10046.2.1')
def pkcs8_parse(blob, strict=True):
    """-> dict(type=..., fields...) or raises DERError.  RSA, EC (named curve), DSA, DH, Ed25519/Ed448, X25519/X448."""
    top = der_items(der_top(blob, 0x30, strict), strict)
    if len(top) < 3: raise DERError('PrivateKeyInfo needs version, algorithm, key')
    if der_get_int(top[0]) not in (0, 1): raise DERError('version')
    alg = der_items(der_expect(top[1], 0x30), strict)
    if not alg or alg[0][0] != 6: raise DERError('algorithm OID')
    oid = der(6, alg[0][1]); key = der_expect(top[2], 4)
    if oid == _OID_RSA:
        f = der_items(der_top(key, 0x30, strict), strict)
        if len(f) < 9: raise DERError('RSAPrivateKey fields')
        v = [der_get_int(x) for x in f[:9]]
        if v[0] != 0: raise DERError('RSAPrivateKey version')
        return dict(type='rsa', n=v[1], e=v[2], d=v[3], p=v[4], q=v[5], dp=v[6], dq=v[7], qinv=v[8])
    if oid == _OID_EC:
        if len(alg) < 2 or alg[1][0] != 6: raise DERError('EC parameters must be a named curve')
        params = der(6, alg[1][1]); cv = [c for c in CURVES.values() if c.params == params]
        f = der_items(der_top(key, 0x30, strict), strict)
        if len(f) < 2 or der_get_int(f[0]) != 1: raise DERError('ECPrivateKey version')
        d = os2ip(der_expect(f[1], 4)); out = dict(type='ec', params=params, curve=cv[0] if cv else None, d=d, dlen=len(f[1][1]), point=None)
        for t, c in f[2:]:
            if t == 0xA1:
                b = der_top(c, 3, strict)
                if not b or b[0] != 0: raise DERError('BIT STRING unused bits')
                out['point'] = b[1:]
        return out
    if oid == _OID_DSA:
        if len(alg) < 2: raise DERError('DSA parameters')
        pr = [der_get_int(x) for x in der_items(der_expect(alg[1], 0x30), strict)]
        if len(pr) != 3: raise DERError('DSA parameters')
        return dict(type='dsa', p=pr[0], q=pr[1], g=pr[2], x=der_get_int((2, der_top(key, 2, strict))))
    if oid in (_OID_DH, _OID_DHX):
        if len(alg) < 2: raise DERError('DH parameters')
        pr = [der_get_int(x) for x in der_items(der_expect(alg[1], 0x30), strict)]
        if len(pr) < 2: raise DERError('DH parameters')
        return dict(type='dh', p=pr[0], g=pr[1], x=der_get_int((2, der_top(key, 2, strict))))
    for name, c in list(EDCURVES.items()) + [(k, None) for k in XOID]:
        if oid == der_oid(c.oid if c else XOID[name]):
            sk = der_top(key, 4, strict)
            if len(sk) != (c.blen if c else len(XBASE[name])): raise DERError('raw key length')
            return dict(type='ed' if c else 'x', curve=name, sk=sk)
    raise DERError('unknown algorithm')

# ------------------------------------------------------------------ self-test
def _second_opinions(report):
    """Optional cross-checks against other independent libraries (nettle/hogweed modes and curves, libsodium).  Returns number run."""
    import random; rnd = random.Random(7); n = 0
    def rb(k): return bytes(rnd.getrandbits(8) for _ in range(k))
    # nettle: GCM, CMAC, CTR, CBC
    try:
        for klen in (16, 24, 32):
            key = rb(klen); a = AES(key); b = {16: '128', 24: '192', 32: '256'}[klen]
            for mlen in (0, 1, 15, 16, 17, 31, 32, 33, 100):
                msg = rb(mlen); iv = rb(12); aad = rb(mlen % 7 * 5)
                ctx = C.create_string_buffer(8192); _sym('nettle_gcm_aes%s_set_key' % b)(ctx, key); _sym('nettle_gcm_aes%s_set_iv' % b)(ctx, C.c_size_t(12), iv)
                _sym('nettle_gcm_aes%s_update' % b)(ctx, C.c_size_t(len(aad)), aad); o = C.create_string_buffer(mlen or 1); _sym('nettle_gcm_aes%s_encrypt' % b)(ctx, C.c_size_t(mlen), o, msg)
                t = C.create_string_buffer(16); _sym('nettle_gcm_aes%s_digest' % b)(ctx, C.c_size_t(16), t)
                assert gcm(a, iv, aad, msg) == o.raw[:mlen] + t.raw, 'GCM vs nettle'; n += 1
                if hasattr(_n, 'nettle_cmac_aes%s_set_key' % b):
                    ctx = C.create_string_buffer(4096); _sym('nettle_cmac_aes%s_set_key' % b)(ctx, key); _sym('nettle_cmac_aes%s_update' % b)(ctx, C.c_size_t(mlen), msg)
                    t = C.create_string_buffer(16); _sym('nettle_cmac_aes%s_digest' % b)(ctx, C.c_size_t(16), t)
                    assert cmac(a, msg) == t.raw, 'CMAC-AES vs nettle'; n += 1
            # CTR and CBC through nettle's generic mode helpers
            cb = rb(12) + b'\xff\xff\xff\xfe'; msg = rb(70); o = C.create_string_buffer(70); cbuf = C.create_string_buffer(cb, 16)
            _n.nettle_ctr_crypt(a.ctxe, a._e, C.c_size_t(16), cbuf, C.c_size_t(70), o, msg); assert ctr(a, cb, msg, 128) == o.raw, 'CTR vs nettle'; n += 1
            iv = rb(16); msg = rb(64); o = C.create_string_buffer(64); ivb = C.create_string_buffer(iv, 16)
            _n.nettle_cbc_encrypt(a.ctxe, a._e, C.c_size_t(16), ivb, C.c_size_t(64), o, msg); assert cbc(a, iv, msg) == o.raw, 'CBC vs nettle'; n += 1
        try:
            key = rb(24); d = DES3(key)
            for mlen in (0, 7, 8, 9, 24, 30):
                msg = rb(mlen); ctx = C.create_string_buffer(4096); _n.nettle_cmac_des3_set_key(ctx, key); _n.nettle_cmac_des3_update(ctx, C.c_size_t(mlen), msg)
                t = C.create_string_buffer(8); _n.nettle_cmac_des3_digest(ctx, C.c_size_t(8), t); assert cmac(d, msg) == t.raw, 'CMAC-DES3 vs nettle'; n += 1
        except AttributeError: report.append('nettle has no cmac_des3')
    except AttributeError as e: report.append('nettle mode cross-check skipped: %r' % (e,))
    # hogweed: Ed25519, Ed448, X25519, X448
    try:
        hw = C.CDLL('libhogweed.so.6')
        for _ in range(4):
            sk = rb(32); msg = rb(rnd.randrange(0, 80)); pub = C.create_string_buffer(32); hw.nettle_ed25519_sha512_public_key(pub, sk); k = EdKey(ED25519, sk)
            assert k.pk == pub.raw, 'Ed25519 public key vs hogweed'; sg = C.create_string_buffer(64); hw.nettle_ed25519_sha512_sign(pub, sk, C.c_size_t(len(msg)), msg, sg)
            assert k.sign(msg) == sg.raw and hw.nettle_ed25519_sha512_verify(pub, C.c_size_t(len(msg)), msg, k.sign(msg)) == 1, 'Ed25519 vs hogweed'; n += 1
            sk = rb(57); pub = C.create_string_buffer(57); hw.nettle_ed448_shake256_public_key(pub, sk); k = EdKey(ED448, sk)
            assert k.pk == pub.raw, 'Ed448 public key vs hogweed'; sg = C.create_string_buffer(114); hw.nettle_ed448_shake256_sign(pub, sk, C.c_size_t(len(msg)), msg, sg)
            assert k.sign(msg) == sg.raw and k.verify(msg, sg.raw), 'Ed448 vs hogweed'; n += 1
            a, u = rb(32), rb(32); o = C.create_string_buffer(32); hw.nettle_curve25519_mul(o, a, u); assert x25519(a, u) == o.raw, 'X25519 vs hogweed'; n += 1
            a, u = rb(56), rb(56); o = C.create_string_buffer(56); hw.nettle_curve448_mul(o, a, u); assert x448(a, u) == o.raw, 'X448 vs hogweed'; n += 1
    except (OSError, AttributeError) as e: report.append('hogweed cross-check skipped: %r' % (e,))
    try:
        so = C.CDLL(ctypes.util.find_library('sodium') or 'libsodium.so.23'); so.sodium_init()
        for _ in range(3):
            seed = rb(32); pk = C.create_string_buffer(32); sk = C.create_string_buffer(64); so.crypto_sign_ed25519_seed_keypair(pk, sk, seed); k = EdKey(ED25519, seed)
            msg = rb(33); sg = C.create_string_buffer(64); so.crypto_sign_ed25519_detached(sg, None, msg, C.c_ulonglong(len(msg)), sk)
            assert k.pk == pk.raw and k.sign(msg) == sg.raw, 'Ed25519 vs libsodium'; n += 1
            key = rb(32); msg = rb(50); o = C.create_string_buffer(32); so.crypto_auth_hmacsha256(o, msg, C.c_ulonglong(50), key); assert hmac('sha256', key, msg) == o.raw, 'HMAC vs libsodium'; n += 1
    except (OSError, AttributeError) as e: report.append('libsodium cross-check skipped: %r' % (e,))
    return n

def selftest(verbose=False):
    import random; rnd = random.Random(1); H = bytes.fromhex; n = 0
    def ok(cond, what):
        nonlocal n; n += 1
        if not cond: raise AssertionError('refcrypt self-test failed: ' + what)
    # FIPS 197 appendix C
    pt = H('00112233445566778899aabbccddeeff')
    for klen, ct in ((16, '69c4e0d86a7b0430d8cdb78070b4c55a'), (24, 'dda97ca4864cdfe06eaf70a0ec0d7191'), (32, '8ea2b7ca516745bfeafc49904b496089')):
        a = AES(bytes(range(klen))); ok(a.enc(pt) == H(ct) and a.dec(H(ct)) == pt, 'FIPS-197 AES-%d' % (klen * 8))
    # SP 800-38A F.1.1 / F.2.1 / F.5.1 (AES-128)
    k = AES(H('2b7e151628aed2a6abf7158809cf4f3c')); p2 = H('6bc1bee22e409f96e93d7e117393172aae2d8a571e03ac9c9eb76fac45af8e51')
    ok(ecb(k, p2) == H('3ad77bb40d7a3660a89ecaf32466ef97f5d3d58503b9699de785895a96fdbaaf') and ecb(k, ecb(k, p2), False) == p2, 'SP800-38A ECB')
    iv = bytes(range(16)); ok(cbc(k, iv, p2) == H('7649abac8119b246cee98e9b12e9197d5086cb9b507219ee95db113a917678b2') and cbc(k, iv, cbc(k, iv, p2), False) == p2, 'SP800-38A CBC')
    ok(ctr(k, H('f0f1f2f3f4f5f6f7f8f9fafbfcfdfeff'), p2) == H('874d6191b620e3261bef6864990db6ce9806f66b7970fdff8617187bb9fffdff'), 'SP800-38A CTR')
    ok(ctr(k, b'\xff' * 16, p2, 8) == xor(p2, k.enc(b'\xff' * 16) + k.enc(b'\xff' * 15 + b'\0')), 'CTR n-bit wrap')
    # SP 800-38B D.1 (AES-128) and the TDEA example keys
    m64 = p2 + H('30c81c46a35ce411e5fbc1191a0a52eff69f2445df4f9b17ad2b417be66c3710')
    for ln, t in ((0, 'bb1d6929e95937287fa37d129b756746'), (16, '070a16b46b4d4144f79bdd9dd04a287c'), (40, 'dfa66747de9ae63030ca32611497c827'), (64, '51f0bebf7e3b9d92fc49741779363cfe')):
        ok(cmac(k, m64[:ln]) == H(t), 'SP800-38B CMAC-AES len %d' % ln)
    d3 = DES3(H('8aa83bf8cbda10620bc1bf19fbb6cd58bc313d4a371ca8b5'))
    ok(cmac(d3, b'') == H('b7a688e122ffaf95') and cmac(d3, m64[:8]) == H('8e8f293136283797'), 'SP800-38B CMAC-TDEA')
    # SP 800-38D (McGrew-Viega test cases 1-4, 16)
    z = AES(bytes(16)); ok(gcm(z, bytes(12), b'', b'') == H('58e2fccefa7e3061367f1d57a4e7455a'), 'GCM TC1')
    ok(gcm(z, bytes(12), b'', bytes(16)) == H('0388dace60b6a392f328c2b971b2fe78ab6e47d42cec13bdf53a67b21257bddf'), 'GCM TC2')
    gk = AES(H('feffe9928665731c6d6a8f9467308308')); giv = H('cafebabefacedbaddecaf888')
    gp = H('d9313225f88406e5a55909c5aff5269a86a7a9531534f7da2e4c303d8a318a721c3c0c95956809532fcf0e2449a6b525b16aedf5aa0de657ba637b391aafd255')
    gc = H('42831ec2217774244b7221b784d0d49ce3aa212f2c02a4e035c17e2329aca12e21d514b25466931c7d8f6a5aac84aa051ba30b396a0aac973d58e091473f5985')
    ok(gcm(gk, giv, b'', gp) == gc + H('4d5c2af327cd64a62cf35abd2ba6fab4'), 'GCM TC3')
    ga = H('feedfacedeadbeeffeedfacedeadbeefabaddad2')
    ok(gcm(gk, giv, ga, gp[:60]) == gc[:60] + H('5bc94fbc3221a5db94fae95ae7121a47'), 'GCM TC4')
    ok(gcm_decrypt(gk, giv, ga, gc[:60] + H('5bc94fbc3221a5db94fae95ae7121a47')) == gp[:60] and gcm_decrypt(gk, giv, ga, gc[:60] + H('5bc94fbc3221a5db94fae95ae7121a46')) is None, 'GCM decrypt / tag check')
    ok(gcm(gk, H('cafebabefacedbad'), ga, gp[:60])[-16:] == H('3612d2e79e3b0785561be14aaca2fccb'), 'GCM TC5 (8-byte IV)')
    big = bytes(rnd.getrandbits(8) for _ in range(5000)); g = _GH(0x66e94bd4ef8a2c3b884cfa59ca342b2e); ok(all(g.mul(x) == _gmul(x, g.h) for x in (1, 1 << 127, os2ip(big[:16]), os2ip(big[16:32]))), 'GHASH table multiplication')
    # RFC 4231 (HMAC-SHA-2) test cases 1, 2, 6 and RFC 2202
    ok(hmac('sha256', b'\x0b' * 20, b'Hi There') == H('b0344c61d8db38535ca8afceaf0bf12b881dc200c9833da726e9376c2e32cff7'), 'RFC 4231 TC1')
    ok(hmac('sha256', b'Jefe', b'what do ya want for nothing?') == H('5bdcc146bf60754e6a042426089575c75a003f089d2739839dec58b964ec3843'), 'RFC 4231 TC2')
    ok(hmac('sha256', b'\xaa' * 131, b'Test Using Larger Than Block-Size Key - Hash Key First') == H('60e431591ee0b67f0d8a26aacbf5b77f8e0bc6213728c5140546040f0ee37f54'), 'RFC 4231 TC6')
    ok(hmac('sha1', b'Jefe', b'what do ya want for nothing?') == H('effcdf6ae5eb2fa2d27416d5f184df9c259a7c79') and hmac('md5', b'Jefe', b'what do ya want for nothing?') == H('750c783e6ab0b503eaa86e310a5db738'), 'RFC 2202')
    for h in HASHLEN:
        key = big[:77]; ok(hmac(h, key, big[:300]) == _hmac.new(key, big[:300], h).digest() and hmac(h, big[:200], b'') == _hmac.new(big[:200], b'', h).digest(), 'HMAC-%s vs hmac module' % h)
    ok(digest('sha256', b'abc') == H('ba7816bf8f01cfea414140de5dae2223b00361a396177a9cb410ff61f20015ad') and digest('sha1', b'abc') == H('a9993e364706816aba3e25717850c26c9cd0d89d') and digest('md5', b'abc') == H('900150983cd24fb0d6963f7d28e17f72'), 'digests of "abc"')
    # RFC 3394 4.1, 4.3, 4.6
    kd = H('00112233445566778899aabbccddeeff')
    ok(kw_wrap(AES(bytes(range(16))), kd) == H('1fa68b0a8112b447aef34bd8fb5a7b829d3e862371d2cfe5'), 'RFC 3394 4.1')
    ok(kw_wrap(AES(bytes(range(32))), kd) == H('64e8c3f9ce0f5ba263e9777905818a2a93c8191e7d6e8ae7'), 'RFC 3394 4.3')
    w = kw_wrap(AES(bytes(range(32))), kd + bytes(range(16))); ok(w == H('28c9f404c4b810f4cbccb35cfb87f8263f5786e2d80ed326cbc7f0e71a99f43bfb988b9b7a02dd21'), 'RFC 3394 4.6')
    ok(kw_unwrap(AES(bytes(range(32))), w) == kd + bytes(range(16)) and kw_unwrap(AES(bytes(range(32))), w[:-1] + bytes([w[-1] ^ 1])) is None, 'RFC 3394 unwrap / integrity')
    # RFC 5649 section 6
    k5 = AES(H('5840df6e29b02af1ab493b705bf16ea1ae8338f4dcc176a8'))
    ok(kwp_wrap(k5, H('c37b7e6492584340bed12207808941155068f738')) == H('138bdeaa9b8fa7fc61f97742e72248ee5ae6ae5360d1ae6a5f54f373fa543b6a'), 'RFC 5649 20-byte key')
    ok(kwp_wrap(k5, H('466f7250617369')) == H('afbeb0f07dfbf5419200f2ccb50bb24f'), 'RFC 5649 7-byte key')
    ok(kwp_unwrap(k5, H('afbeb0f07dfbf5419200f2ccb50bb24f')) == H('466f7250617369') and kwp_unwrap(k5, H('138bdeaa9b8fa7fc61f97742e72248ee5ae6ae5360d1ae6a5f54f373fa543b6a')) == H('c37b7e6492584340bed12207808941155068f738'), 'RFC 5649 unwrap')
    ok(kwp_unwrap(k5, H('afbeb0f07dfbf5419200f2ccb50bb24e')) is None, 'RFC 5649 integrity')
    ok(kcv('aes', bytes(16)) == H('66e94b') and kcv('des3', H('0123456789abcdef') * 3) == H('d5d44f'), 'KCV (AES zero key; DES 0123456789abcdef)')
    ok(des_odd_parity(H('00010203fefffc80')) == H('01010202fefefd80'), 'DES parity')
    # RFC 8032 7.1 (tests 1-3) and 7.4 (blank, 1 octet)
    for sk, pk, msg, sig in (('9d61b19deffd5a60ba844af492ec2cc44449c5697b326919703bac031cae7f60', 'd75a980182b10ab7d54bfed3c964073a0ee172f3daa62325af021a68f707511a', '',
                              'e5564300c360ac729086e2cc806e828a84877f1eb8e5d974d873e065224901555fb8821590a33bacc61e39701cf9b46bd25bf5f0595bbe24655141438e7a100b'),
                             ('4ccd089b28ff96da9db6c346ec114e0f5b8a319f35aba624da8cf6ed4fb8a6fb', '3d4017c3e843895a92b70aa74d1b7ebc9c982ccf2ec4968cc0cd55f12af4660c', '72',
                              '92a009a9f0d4cab8720e820b5f642540a2b27b5416503f8fb3762223ebdb69da085ac1e43e15996e458f3613d0f11d8c387b2eaeb4302aeeb00d291612bb0c00'),
                             ('c5aa8df43f9f837bedb7442f31dcb7b166d38535076f094b85ce3a2e0b4458f7', 'fc51cd8e6218a1a38da47ed00230f0580816ed13ba3303ac5deb911548908025', 'af82',
                              '6291d657deec24024827e69c3abe01a30ce548a284743a445e3680d7db5ac3ac18ff9b538d16f290ae67f760984dc6594a7c15e9716ed28dc027beceea1ec40a')):
        e = EdKey(ED25519, H(sk)); ok(e.pk == H(pk) and e.sign(H(msg)) == H(sig) and e.verify(H(msg), H(sig)) and not e.verify(H(msg) + b'x', H(sig)), 'RFC 8032 Ed25519')
    for sk, pk, msg, sig in (('6c82a562cb808d10d632be89c8513ebf6c929f34ddfa8c9f63c9960ef6e348a3528c8a3fcc2f044e39a3fc5b94492f8f032e7549a20098f95b',
                              '5fd7449b59b461fd2ce787ec616ad46a1da1342485a70e1f8a0ea75d80e96778edf124769b46c7061bd6783df1e50f6cd1fa1abeafe8256180', '',
                              '533a37f6bbe457251f023c0d88f976ae2dfb504a843e34d2074fd823d41a591f2b233f034f628281f2fd7a22ddd47d7828c59bd0a21bfd3980ff0d2028d4b18a9df63e006c5d1c2d345b925d8dc00b4104852db99ac5c7cdda8530a113a0f4dbb61149f05a7363268c71d95808ff2e652600'),
                             ('c4eab05d357007c632f3dbb48489924d552b08fe0c353a0d4a1f00acda2c463afbea67c5e8d2877c5e3bc397a659949ef8021e954e0a12274e',
                              '43ba28f430cdff456ae531545f7ecd0ac834a55d9358c0372bfa0c6c6798c0866aea01eb00742802b8438ea4cb82169c235160627b4c3a9480', '03',
                              '26b8f91727bd62897af15e41eb43c377efb9c610d48f2335cb0bd0087810f4352541b143c4b981b7e18f62de8ccdf633fc1bf037ab7cd779805e0dbcc0aae1cbcee1afb2e027df36bc04dcecbf154336c19f0af7e0a6472905e799f1953d2a0ff3348ab21aa4adafd1d234441cf807c03a00')):
        e = EdKey(ED448, H(sk)); ok(e.pk == H(pk) and e.sign(H(msg)) == H(sig) and e.verify(H(msg), H(sig)) and not e.verify(H(msg) + b'x', H(sig)), 'RFC 8032 Ed448')
    # RFC 7748 5.2 and 6
    ok(x25519(H('a546e36bf0527c9d3b16154b82465edd62144c0ac1fc5a18506a2244ba449ac4'), H('e6db6867583030db3594c1a424b15f7c726624ec26b3353b10a903a6d0ab1c4c')) == H('c3da55379de9c6908e94ea4df28d084f32eccf03491c71f754b4075577a28552'), 'RFC 7748 X25519')
    ok(x448(H('3d262fddf9ec8e88495266fea19a34d28882acef045104d0d1aae121700a779c984c24f8cdd78fbff44943eba368f54b29259a4f1c600ad3'), H('06fce640fa3487bfda5f6cf2d5263f8aad88334cbd07437f020f08f9814dc031ddbdc38c19c6da2583fa5429db94ada18aa7a7fb4ef8a086'))
       == H('ce3e4ff95a60dc6697da1db1d85e6afbdf79b50a2412d7546d5f239fe14fbaadeb445fc66a01b0779d98223961111e21766282f73dd96b6f'), 'RFC 7748 X448')
    a = XKey('X25519', H('77076d0a7318a57d3c16c17251b26645df4c2f87ebc0992ab177fba51db92c2a')); b = XKey('X25519', H('5dab087e624a8a4b79e17f8b83800ee66f3bb1292618b6fd1c2f8b27ff88e0eb'))
    ok(a.pk == H('8520f0098930a754748b7ddcb43ef75a0dbf3a0d26381af4eba4a98eaa9b4e6a') and a.derive(b.pk) == b.derive(a.pk) == H('4a5d9d5ba4ce2de1728e3bf480350f25e07e21c947d19e3376f09b3c1e161742'), 'RFC 7748 DH')
    # curves: generator on curve, prime order, n*G = O; RFC 6979 A.2.5 (P-256, SHA-256, "sample")
    for c in CURVES.values(): ok(c.on_curve(c.g) and is_prime(c.n) and is_prime(c.p) and c.mul(c.n, c.g) is None and c.mul(c.n + 1, c.g) == c.g, 'curve %s' % c.name)
    for c in EDCURVES.values(): ok(c.on_curve(c.B) and is_prime(c.L) and c.mul(c.L, c.B) == (0, 1), 'curve %s' % c.name)
    x = 0xC9AFA9D845BA75166B5C215767B1D6934E50C3DB36E89B127B8A622B120F6721; e = ECKey(P256, x); h1 = digest('sha256', b'sample'); kk = rfc6979_k(P256.n, x, h1, 'sha256')
    ok(e.Q == (0x60FED4BA255A9D31C961EB74C6356D68C049B8923B61FA6CE669622E60F29FB6, 0x7903FE1008B8BC99A41AE9E95628BC64F2F1B20C2D7E9F5177A3C294D4462299), 'RFC 6979 A.2.5 public key')
    sg = e.sign(h1, k=kk); ok(kk == 0xA6E3C57DD01ABE90086538398355DD4C3B17AA873382B0F24D6129493D8AAD60 and sg == H('EFD48B2AACB6A8FD1140DD9CD45E81D69D2C877B56AAF991C34D0EA84EAF3716F7CB1C942D657C41D436C7A1B6E29F65F3E900DBB9AFF4064DC4AB2F843ACDA8'), 'RFC 6979 A.2.5 ECDSA')
    ok(e.verify(h1, sg) and not e.verify(digest('sha256', b'sampl3'), sg) and not e.verify(h1, sg[:-1] + bytes([sg[-1] ^ 1])), 'ECDSA verify')
    for c in CURVES.values():
        a = ECKey(c, rnd.randrange(1, c.n)); b = ECKey(c, rnd.randrange(1, c.n)); hh = big[:70]; sg = a.sign(hh, rnd=rnd)
        ok(a.ecdh(b.Q) == b.ecdh(a.Q) and a.verify(hh, sg) and not b.verify(hh, sg) and c.decode_point(b'\x02' + a.point()[1:1 + c.flen] if not a.Q[1] & 1 else b'\x03' + a.point()[1:1 + c.flen]) == a.Q, 'ECDH/ECDSA %s' % c.name)
        p8 = pkcs8_parse(a.pkcs8()); ok(p8['d'] == a.d and p8['curve'] is c and p8['point'] == a.point(), 'PKCS#8 EC round trip')
    # RSA: consistency of the scheme implementations on a fresh key (the token cross-check is the real second opinion)
    r = RSAKey.generate(1024, rnd); r2 = RSAKey.generate(1025, rnd); m = big[:50]
    for key in (r, r2):
        for h in HASHLEN:
            s1 = key.sign_pkcs1(m, h); ok(key.verify_pkcs1(m, s1, h) and not key.verify_pkcs1(m + b'!', s1, h) and key.public(os2ip(s1)) == os2ip(key.em_pkcs1_sig(H(DIGESTINFO[h]) + digest(h, m))), 'RSA PKCS#1 v1.5 %s' % h)
            for sl in sorted({0, 1, min(HASHLEN[h], key.pss_max_salt(h)), key.pss_max_salt(h)}):
                s2 = key.sign_pss(m, h, sl, rnd=rnd); ok(key.verify_pss(m, s2, h, sl) and not key.verify_pss(m + b'!', s2, h, sl) and (sl == key.pss_max_salt(h) or not key.verify_pss(m, s2, h, sl + 1)), 'RSA PSS %s salt %d' % (h, sl))
        ok(key.decrypt_pkcs1(key.encrypt_pkcs1(m, rnd)) == m and key.decrypt_oaep(key.encrypt_oaep(m, rnd=rnd)) == m and key.decrypt_oaep(key.encrypt_oaep(m, 'sha256', b'L', rnd=rnd), 'sha256', b'L') == m, 'RSA encryption round trips')
        ok(key.raw_public(key.raw_private(m)) == m.rjust(key.k, b'\0') and key.private(5) == pow(5, key.d, key.n), 'RSA raw / CRT')
        p8 = pkcs8_parse(key.pkcs8()); ok((p8['n'], p8['e'], p8['d'], p8['p'], p8['q'], p8['dp'], p8['dq'], p8['qinv']) == (key.n, key.e, key.d, key.p, key.q, key.dp, key.dq, key.qinv), 'PKCS#8 RSA round trip')
    ok(mgf1(b'foo', 3, 'sha1') == H('1ac907') and mgf1(b'bar', 50, 'sha256')[:8] == H('382576a7841021cc'), 'MGF1 known answers')
    # DSA / DH
    P = DSAKey.generate_params(512, 160, rnd); dk = DSAKey(*P, x=rnd.randrange(1, P[1])); sg = dk.sign(big[:20], rnd=rnd)
    ok(is_prime(P[0]) and is_prime(P[1]) and (P[0] - 1) % P[1] == 0 and pow(P[2], P[1], P[0]) == 1 and dk.verify(big[:20], sg) and not dk.verify(big[1:21], sg) and dk.verify(big[:64], dk.sign(big[:64], rnd=rnd)), 'DSA')
    ok(pkcs8_parse(dk.pkcs8())['x'] == dk.x, 'PKCS#8 DSA round trip')
    p = modp_prime(1024, 129093); ok(is_prime(p) and is_prime((p - 1) // 2) and hex(p)[2:].startswith('ffffffffffffffffc90fdaa22168c234c4c6628b80dc1cd1') and hex(p).endswith('49286651ece65381ffffffffffffffff'), 'Oakley group 2 from pi')
    a = DHKey(p, 2, rnd.randrange(2, p - 2)); b = DHKey(p, 2, rnd.randrange(2, p - 2)); ok(a.derive(b.y) == b.derive(a.y) and len(a.derive(b.y)) == 128 and pkcs8_parse(a.pkcs8())['x'] == a.x, 'DH')
    for bad in (b'', b'\x30', b'\x30\x82\x01', r.pkcs8()[:-3], b'\x31' + r.pkcs8()[1:], r.pkcs8() + b'\0'):
        try: pkcs8_parse(bad); ok(False, 'malformed PKCS#8 accepted')
        except DERError: ok(True, '')
    rep = []; n2 = _second_opinions(rep)
    if verbose:
        print('refcrypt self-test: %d checks against standard vectors/invariants, %d second-opinion comparisons (nettle/hogweed/libsodium)' % (n, n2))
        for l in rep: print('  note:', l)
    return n + n2

if __name__ == '__main__':
    if '--selftest' in sys.argv:
        try: selftest(verbose=True)
        except AssertionError as e: print(e); sys.exit(1)
        sys.exit(0)
    print(__doc__)
