"""Independent decoder of the pinned SoftHSMv2 FILE back-end format.  Written from the on-disk format,
never calls the library.

object file  := generation(u64 BE) record*
record       := type(u64 BE) kind(u64 BE) value
kind 1 bool  := 1 byte            (the pinned writer emits 0xFF = true, 0x00 = false)
kind 2 ulong := u64 BE
kind 3 bytes := len(u64 BE) data
kind 4 map   := total(u64 BE) ( type(u64) kind(u64) value )*      kinds 1,2,3,5 only; total = bytes that follow
kind 5 mechs := count(u64 BE) mech(u64 BE)*

Python values: bool / int / bytes / dict {type: value} (attribute map) / sorted list of int (mechanism set).

Classification of arbitrary bytes (C16 needs it):
  'empty'         0 bytes
  'valid'         generation + complete records, nothing left over
  'valid-prefix'  a proper prefix of a well-formed file: data ends inside the generation or inside a record
                  (the complete records before the cut are returned)
  'invalid'       structurally wrong: unknown kind, attribute map whose entries overrun/underrun its length
"""
import os, struct

BOOL, ULONG, BYTES, ATTRMAP, MECHSET = 1, 2, 3, 4, 5
KIND_NAMES = {BOOL: 'bool', ULONG: 'ulong', BYTES: 'bytes', ATTRMAP: 'attrmap', MECHSET: 'mechset'}
# vendor attributes of token.object (OSAttributes.h: CKA_VENDOR_DEFINED + 'SH' + n)
CKA_VENDOR_SOFTHSM = 0x80000000 + 0x5348
CKA_OS_TOKENLABEL, CKA_OS_TOKENSERIAL, CKA_OS_TOKENFLAGS, CKA_OS_SOPIN, CKA_OS_USERPIN = [CKA_VENDOR_SOFTHSM + i for i in range(1, 6)]

class Bad(Exception): pass          # structural error
class Trunc(Exception): pass        # ran out of data (the bytes are a prefix)

def _u64(b, o, end=None):
    end = len(b) if end is None else end
    if o + 8 > end: raise Trunc('truncated u64 at %d' % o)
    return struct.unpack_from('>Q', b, o)[0], o + 8
def _bool(b, o, warn, end=None):
    end = len(b) if end is None else end
    if o + 1 > end: raise Trunc('truncated bool at %d' % o)
    v = b[o]
    if v not in (0x00, 0xFF): warn.append('non-canonical boolean byte 0x%02x at %d' % (v, o))
    elif v == 0xFF: pass
    return (v != 0), o + 1
def _bytes(b, o, end=None):
    end = len(b) if end is None else end
    n, o = _u64(b, o, end)
    if n > end - o: raise Trunc('truncated byte string at %d (len %d, have %d)' % (o, n, end - o))
    return bytes(b[o:o + n]), o + n
def _mechset(b, o, warn, end=None):
    end = len(b) if end is None else end
    n, o = _u64(b, o, end)
    if n > (end - o) // 8: raise Trunc('truncated mechanism set at %d (count %d)' % (o, n))
    s = list(struct.unpack_from('>%dQ' % n, b, o)) if n else []
    if sorted(set(s)) != s: warn.append('mechanism set not strictly ascending at %d' % o)
    return sorted(set(s)), o + 8 * n
def _attrmap(b, o, warn):
    total, o = _u64(b, o)
    if total > len(b) - o: raise Trunc('truncated attribute map at %d (len %d)' % (o, total))
    end = o + total; m = {}
    try:
        while o < end:
            t, o = _u64(b, o, end); k, o = _u64(b, o, end)
            if k == BOOL: v, o = _bool(b, o, warn, end)
            elif k == ULONG: v, o = _u64(b, o, end)
            elif k == BYTES: v, o = _bytes(b, o, end)
            elif k == MECHSET: v, o = _mechset(b, o, warn, end)
            else: raise Bad('bad kind %d inside attribute map' % k)
            if t in m: warn.append('duplicate type 0x%x inside attribute map' % t)
            m[t] = v
    except Trunc as e:
        raise Bad('attribute map entries overrun its length: %s' % e)    # the map itself is complete, so this is not a cut
    return m, end

class Parsed:
    """result of parse(): status, generation, attrs {type: value}, kinds {type: kind}, consumed (offset after the last
    complete record), records (complete records), error (text or None), warnings (non-canonical but readable encodings)"""
    def __init__(s): s.status = 'empty'; s.generation = None; s.attrs = {}; s.kinds = {}; s.consumed = 0; s.records = 0; s.error = None; s.warnings = []; s.size = 0
    def __repr__(s): return '<objfile %s gen=%s attrs=%d consumed=%d/%d%s>' % (s.status, s.generation, len(s.attrs), s.consumed, s.size, (' ' + s.error) if s.error else '')

def parse(b):
    p = Parsed(); p.size = len(b)
    if len(b) == 0: return p
    try:
        p.generation, o = _u64(b, 0); p.consumed = o
        while o < len(b):
            t, o = _u64(b, o); k, o = _u64(b, o)
            if k == BOOL: v, o = _bool(b, o, p.warnings)
            elif k == ULONG: v, o = _u64(b, o)
            elif k == BYTES: v, o = _bytes(b, o)
            elif k == MECHSET: v, o = _mechset(b, o, p.warnings)
            elif k == ATTRMAP: v, o = _attrmap(b, o, p.warnings)
            else: raise Bad('bad kind %d for type 0x%x at %d' % (k, t, o - 8))
            if t in p.attrs: p.warnings.append('duplicate type 0x%x' % t)
            p.attrs[t] = v; p.kinds[t] = k; p.consumed = o; p.records += 1
        p.status = 'valid'
    except Trunc as e: p.status = 'valid-prefix'; p.error = str(e)
    except Bad as e: p.status = 'invalid'; p.error = str(e)
    return p

def classify(b): return parse(b).status

def decode(b):
    """compatibility form: -> (status, generation, {type: value}, bytes_consumed); for 'invalid' the dict holds {'error': text}"""
    p = parse(b)
    if p.status == 'invalid': return 'invalid', None, {'error': p.error}, 0
    return p.status, p.generation, p.attrs, p.consumed

# ---------------------------------------------------------------- encoder (for tests of the decoder and for fuzz seeds)
def _enc_value(v, nested=False):
    if isinstance(v, bool): return BOOL, (b'\xff' if v else b'\x00')
    if isinstance(v, int): return ULONG, struct.pack('>Q', v)
    if isinstance(v, (bytes, bytearray)): return BYTES, struct.pack('>Q', len(v)) + bytes(v)
    if isinstance(v, list): return MECHSET, struct.pack('>Q', len(v)) + b''.join(struct.pack('>Q', x) for x in sorted(v))
    if isinstance(v, dict) and not nested:
        body = b''
        for t in sorted(v):
            k, e = _enc_value(v[t], True); body += struct.pack('>QQ', t, k) + e
        return ATTRMAP, struct.pack('>Q', len(body)) + body
    raise TypeError(v)
def encode(generation, attrs):
    out = struct.pack('>Q', generation)
    for t in sorted(attrs):
        k, e = _enc_value(attrs[t]); out += struct.pack('>QQ', t, k) + e
    return out

# ---------------------------------------------------------------- token.object and token directories
class TokenInfo:
    """label (32 bytes, blank padded as stored), serial (16 bytes), flags (int), so_blob / user_blob (bytes or None)"""
    def __init__(s, attrs):
        s.label = attrs.get(CKA_OS_TOKENLABEL); s.serial = attrs.get(CKA_OS_TOKENSERIAL); s.flags = attrs.get(CKA_OS_TOKENFLAGS)
        s.so_blob = attrs.get(CKA_OS_SOPIN) or None; s.user_blob = attrs.get(CKA_OS_USERPIN) or None
        s.extra = {t: v for t, v in attrs.items() if not (CKA_OS_TOKENLABEL <= t <= CKA_OS_USERPIN)}
    def well_formed(s):
        return isinstance(s.label, bytes) and isinstance(s.serial, bytes) and isinstance(s.flags, int) and not isinstance(s.flags, bool)
    def __repr__(s): return '<token label=%r serial=%r flags=0x%x so=%s user=%s>' % (s.label, s.serial, s.flags or 0, s.so_blob and len(s.so_blob), s.user_blob and len(s.user_blob))

def decode_token_object(b):
    """-> (Parsed, TokenInfo or None)"""
    p = parse(b)
    if p.status != 'valid': return p, None
    return p, TokenInfo(p.attrs)

def _read(path):
    with open(path, 'rb') as f: return f.read()

class TokenDir:
    """One <tokendir>/<uuid>/ of the file back-end: .info (TokenInfo or None), .token (Parsed of token.object),
    .objects {file name: Parsed}, .others [names of files that are neither *.object nor *.lock nor 'generation']"""
    def __init__(s, path):
        s.path = path; s.objects = {}; s.others = []; s.locks = []; s.token = None; s.info = None; s.generation_file = None
        for n in sorted(os.listdir(path)):
            f = os.path.join(path, n)
            if n == 'token.object': s.token, s.info = decode_token_object(_read(f))
            elif n.endswith('.object'): s.objects[n] = parse(_read(f))
            elif n.endswith('.lock'): s.locks.append(n)
            elif n == 'generation': s.generation_file = _read(f)
            else: s.others.append(n)

def read_store(tokendir):
    """-> [TokenDir] for every sub-directory of directories.tokendir that holds a token.object"""
    out = []
    for n in sorted(os.listdir(tokendir)):
        d = os.path.join(tokendir, n)
        if os.path.isdir(d) and os.path.exists(os.path.join(d, 'token.object')): out.append(TokenDir(d))
    return out

def _selftest():
    a = {0: 3, 1: True, 2: False, 3: b'label', 0x11: b'', 0x40000600: [1, 0x1082, 0x1087], 0x40000211: {0x100: 0x1f, 0x162: False, 3: b'inner', 0x40000600: [5]}}
    e = encode(7, a); p = parse(e); assert p.status == 'valid' and p.generation == 7 and p.attrs == a and not p.warnings, p
    assert classify(b'') == 'empty' and classify(e[:8]) == 'valid' and parse(e[:8]).attrs == {}
    for cut in range(1, len(e)):
        q = parse(e[:cut]); assert q.status in ('valid', 'valid-prefix'), (cut, q)
        if q.status == 'valid': assert encode(7, q.attrs) == e[:cut]
    assert classify(e + struct.pack('>QQ', 9, 6)) == 'invalid' and classify(e + b'\x00') == 'valid-prefix'
    bad = encode(1, {}) + struct.pack('>QQQ', 0x40000211, ATTRMAP, 18) + struct.pack('>QQ', 1, BOOL) + b'\xff'   # map announces 18 bytes, 17 present
    assert classify(bad) == 'valid-prefix' and classify(bad + b'\0') == 'invalid'   # cut inside the map / stray byte inside a complete map
    assert parse(struct.pack('>QQQ', 1, 1, BOOL) + b'\x01').warnings
_selftest()
