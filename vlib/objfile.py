"""Independent decoder of the pinned SoftHSMv2 file back-end format (prototype)."""
import struct, hashlib
BOOL, ULONG, BYTES, ATTRMAP, MECHSET = 1, 2, 3, 4, 5
class Bad(Exception): pass
def _u64(b, o):
    if o + 8 > len(b): raise Bad('truncated ulong at %d' % o)
    return struct.unpack_from('>Q', b, o)[0], o + 8
def _bytes(b, o):
    n, o = _u64(b, o)
    if o + n > len(b): raise Bad('truncated bytes at %d (len %d)' % (o, n))
    return b[o:o + n], o + n
def _mechset(b, o):
    n, o = _u64(b, o); s = []
    for _ in range(n): v, o = _u64(b, o); s.append(v)
    return sorted(s), o
def _attrmap(b, o):
    total, o = _u64(b, o); end = o + total; m = {}
    if end > len(b): raise Bad('truncated attribute map')
    while o < end:
        t, o = _u64(b, o); k, o = _u64(b, o)
        if k == 1: m[t] = bool(b[o]); o += 1
        elif k == 2: m[t], o = _u64(b, o)
        elif k == 3: m[t], o = _bytes(b, o)
        elif k == 5: m[t], o = _mechset(b, o)
        else: raise Bad('bad kind %d in attribute map' % k)
    return m, o
def decode(b):
    """-> ('empty'|'valid'|'invalid', generation, {attrtype: value}, bytes_consumed)"""
    if len(b) == 0: return 'empty', None, {}, 0
    try:
        gen, o = _u64(b, 0); attrs = {}
        while o < len(b):
            t, o = _u64(b, o); k, o = _u64(b, o)
            if k == BOOL:
                if o >= len(b): raise Bad('truncated bool')
                attrs[t] = bool(b[o]); o += 1
            elif k == ULONG: attrs[t], o = _u64(b, o)
            elif k == BYTES: attrs[t], o = _bytes(b, o)
            elif k == MECHSET: attrs[t], o = _mechset(b, o)
            elif k == ATTRMAP: attrs[t], o = _attrmap(b, o)
            else: raise Bad('bad kind %d' % k)
        return 'valid', gen, attrs, o
    except Bad as e:
        return 'invalid', None, {'error': str(e)}, 0
# vendor attributes of token.object
CKA_OS_TOKENLABEL, CKA_OS_TOKENSERIAL, CKA_OS_TOKENFLAGS, CKA_OS_SOPIN, CKA_OS_USERPIN = [0x80000000 | 0x5348 << 16 | i if False else None for i in range(5)]
