"""Fixed key material (keymat.json, generated once; the values are data, not an oracle) and the
C_CreateObject templates that import it.  `key_templates(ck)` -> {kind: attribute dict}."""
import json, os
K = json.load(open(os.path.join(os.path.dirname(os.path.abspath(__file__)), 'keymat.json')))
def B(h): return bytes.fromhex(h)
OID = {'p256': bytes.fromhex('06082a8648ce3d030107'), 'p384': bytes.fromhex('06052b81040022'), 'p521': bytes.fromhex('06052b81040023'), 'ed25519': bytes.fromhex('06032b6570')}
def octet(b):
    if len(b) < 128: return b'\x04' + bytes([len(b)]) + b
    if len(b) < 256: return b'\x04\x81' + bytes([len(b)]) + b
    return b'\x04\x82' + len(b).to_bytes(2, 'big') + b
AES16 = bytes(range(0x10, 0x20)); AES32 = bytes(range(0x40, 0x60)); GEN32 = bytes(range(0x80, 0xa0)); DES3 = bytes.fromhex('0123456789abcdeffedcba987654321089abcdef01234567'); DES2 = DES3[:16]

def key_templates(ck, rsa='rsa1024', curve='p256'):
    r = K[rsa]; e = K['ec_' + curve]; d = K['dsa']; h = K['dh']; ed = K['ed25519']
    sec = {'CKA_SENSITIVE': False, 'CKA_EXTRACTABLE': True}
    T = {}
    T['aes'] = dict(CKA_CLASS=ck.CKO_SECRET_KEY, CKA_KEY_TYPE=ck.CKK_AES, CKA_VALUE=AES16, CKA_ENCRYPT=True, CKA_DECRYPT=True, CKA_SIGN=True, CKA_VERIFY=True, CKA_WRAP=True, CKA_UNWRAP=True, CKA_DERIVE=True, **sec)
    T['aes256'] = dict(T['aes'], CKA_VALUE=AES32)
    T['generic'] = dict(CKA_CLASS=ck.CKO_SECRET_KEY, CKA_KEY_TYPE=ck.CKK_GENERIC_SECRET, CKA_VALUE=GEN32, CKA_SIGN=True, CKA_VERIFY=True, CKA_DERIVE=True, **sec)
    T['des3'] = dict(CKA_CLASS=ck.CKO_SECRET_KEY, CKA_KEY_TYPE=ck.CKK_DES3, CKA_VALUE=DES3, CKA_ENCRYPT=True, CKA_DECRYPT=True, CKA_SIGN=True, CKA_VERIFY=True, CKA_WRAP=True, CKA_UNWRAP=True, CKA_DERIVE=True, **sec)
    T['des2'] = dict(T['des3'], CKA_KEY_TYPE=ck.CKK_DES2, CKA_VALUE=DES2)
    T['rsa_pub'] = dict(CKA_CLASS=ck.CKO_PUBLIC_KEY, CKA_KEY_TYPE=ck.CKK_RSA, CKA_MODULUS=B(r['n']), CKA_PUBLIC_EXPONENT=B(r['e']), CKA_ENCRYPT=True, CKA_VERIFY=True, CKA_WRAP=True)
    T['rsa_priv'] = dict(CKA_CLASS=ck.CKO_PRIVATE_KEY, CKA_KEY_TYPE=ck.CKK_RSA, CKA_MODULUS=B(r['n']), CKA_PUBLIC_EXPONENT=B(r['e']), CKA_PRIVATE_EXPONENT=B(r['d']), CKA_PRIME_1=B(r['p']), CKA_PRIME_2=B(r['q']),
                         CKA_EXPONENT_1=B(r['dp']), CKA_EXPONENT_2=B(r['dq']), CKA_COEFFICIENT=B(r['qi']), CKA_DECRYPT=True, CKA_SIGN=True, CKA_UNWRAP=True, **sec)
    T['ec_pub'] = dict(CKA_CLASS=ck.CKO_PUBLIC_KEY, CKA_KEY_TYPE=ck.CKK_EC, CKA_EC_PARAMS=OID[curve], CKA_EC_POINT=octet(B(e['q'])), CKA_VERIFY=True)
    T['ec_priv'] = dict(CKA_CLASS=ck.CKO_PRIVATE_KEY, CKA_KEY_TYPE=ck.CKK_EC, CKA_EC_PARAMS=OID[curve], CKA_VALUE=B(e['d']), CKA_SIGN=True, CKA_DERIVE=True, **sec)
    T['ed_pub'] = dict(CKA_CLASS=ck.CKO_PUBLIC_KEY, CKA_KEY_TYPE=ck.CKK_EC_EDWARDS, CKA_EC_PARAMS=OID['ed25519'], CKA_EC_POINT=octet(B(ed['q'])), CKA_VERIFY=True)
    T['ed_priv'] = dict(CKA_CLASS=ck.CKO_PRIVATE_KEY, CKA_KEY_TYPE=ck.CKK_EC_EDWARDS, CKA_EC_PARAMS=OID['ed25519'], CKA_VALUE=B(ed['d']), CKA_SIGN=True, **sec)
    T['dsa_pub'] = dict(CKA_CLASS=ck.CKO_PUBLIC_KEY, CKA_KEY_TYPE=ck.CKK_DSA, CKA_PRIME=B(d['p']), CKA_SUBPRIME=B(d['q']), CKA_BASE=B(d['g']), CKA_VALUE=B(d['y']), CKA_VERIFY=True)
    T['dsa_priv'] = dict(CKA_CLASS=ck.CKO_PRIVATE_KEY, CKA_KEY_TYPE=ck.CKK_DSA, CKA_PRIME=B(d['p']), CKA_SUBPRIME=B(d['q']), CKA_BASE=B(d['g']), CKA_VALUE=B(d['x']), CKA_SIGN=True, **sec)
    T['dh_pub'] = dict(CKA_CLASS=ck.CKO_PUBLIC_KEY, CKA_KEY_TYPE=ck.CKK_DH, CKA_PRIME=B(h['p']), CKA_BASE=B(h['g']), CKA_VALUE=B(h['y']))
    T['dh_priv'] = dict(CKA_CLASS=ck.CKO_PRIVATE_KEY, CKA_KEY_TYPE=ck.CKK_DH, CKA_PRIME=B(h['p']), CKA_BASE=B(h['g']), CKA_VALUE=B(h['x']), CKA_DERIVE=True, **sec)
    T['data'] = dict(CKA_CLASS=ck.CKO_DATA, CKA_APPLICATION=b'app', CKA_VALUE=b'data-value-0123456789')
    T['cert'] = dict(CKA_CLASS=ck.CKO_CERTIFICATE, CKA_CERTIFICATE_TYPE=ck.CKC_X_509, CKA_SUBJECT=b'\x30\x00', CKA_VALUE=b'\x30\x03\x02\x01\x05', CKA_ID=b'\x01')
    T['dsa_params'] = dict(CKA_CLASS=ck.CKO_DOMAIN_PARAMETERS, CKA_KEY_TYPE=ck.CKK_DSA, CKA_PRIME=B(d['p']), CKA_SUBPRIME=B(d['q']), CKA_BASE=B(d['g']))
    T['dh_params'] = dict(CKA_CLASS=ck.CKO_DOMAIN_PARAMETERS, CKA_KEY_TYPE=ck.CKK_DH, CKA_PRIME=B(h['p']), CKA_BASE=B(h['g']))
    return T
