"""Fixed key material for checks that import keys with C_CreateObject (C12, C09): one RSA-1024, EC P-256, DSA-1024/224
and Ed25519 key pair (generated once with the openssl CLI; throw-away test keys), fixed AES / DES3 / generic secrets,
and the templates to import them.  Nothing here is derived from SoftHSM."""
RSA = {
    'n': bytes.fromhex(
        'e095d02774f0cf948cffa039fcfbbcb8aac34c50789860fc86312e9e9c35bb81b6b93db770dd2d1c5cc9dc49d900f2f5' 
        '6051bc6fe3d033edb9bb4128640629132f7760727672344014dd265334d7ead020babae8e18c30c029318c7e10542b96' 
        '3c406296bd39009adcae120ed0c34c59978bd159d465b640f138360cdee0b477'),
    'e': bytes.fromhex(
        '010001'),
    'd': bytes.fromhex(
        '8e2000c4978ab5b2eaaff2b3ffd7478d0df3dddda713b77cd767547b679bd177bb2ceb53a58732bf1a315cc9171d34a3' 
        'f83a81a7c561c31b1448de6933337ad5cbc4a4f9227062c32c91f4164b176c923c4db79eeb1a7015e4daaa2ddc28d72a' 
        '72a7511dd2c9c2e559183d463da54cd8d12bb051f9562b6af319f1e07ea5a711'),
    'p': bytes.fromhex(
        'f5fe4d9eccd491054877f710ed3be8c2e1b36c9d75b3b0536471c110cfae5045ff16ccc8ccf521fb0eb24a2d14fc93ce' 
        'ee58168f86e1098f8d1ea46a38c4ef1b'),
    'q': bytes.fromhex(
        'e9b892739f169fd66664a97c6e1d8f3520b594f4360cc04587b306003e4c48f131fab007dcbcdda139700b64e1ca232d' 
        '813ce7ba7a80bb5a1baa6eb2302679d5'),
    'dp': bytes.fromhex(
        '4602a65cb7b717bf052cff6815dca31633de38df678c4876b3739c9b0840782033c56d6b08ca0b6dc475019f6b05a79b' 
        '914208c9b87d7b971b76c91c6223ca59'),
    'dq': bytes.fromhex(
        'ce6bdf9d12930ed47356d0823f5708166a2f35c182c33c45ac9626e4ac210003569b0c41c569616d75a749c8edca73cb' 
        '4aeb99d68f3f87390c5a38ae53ec8789'),
    'qi': bytes.fromhex(
        '0d7d74a3243273a9625f93158307c64641607fbc0716dbecb91bca3a985affcdd3ce3a4930b7e84cc006e0a00ff14df3' 
        '271c48046230e867c13c7394f4613981'),
}
EC = {
    'd': bytes.fromhex(
        'dad8fedb5427e8dd1c60196928ee2c1a51ddd42b48df00b48e2fe32c36025bee'),
    'q': bytes.fromhex(
        '04375970f74efae829e7aa622a540b72d4c543c317bc9d8d6dd634005e86e7de3906b14a44856b795367ba951bfd4fb3' 
        '9323595baeb28afeb61401f634c93a0541'),
}
DSA = {
    'x': bytes.fromhex(
        '82250318839e0a115d9cfac7e7bb0b2e79dbb5f095385f848afcf9b1'),
    'y': bytes.fromhex(
        '53bcd3af5fa6a119c4775c9c0a6770a28c287b4c2796b3573dc4e5d45129a303a904ab611e7362274a5fcdd6d5cea7a2' 
        '16e6dd393668cf95bcde822c2193016d6cda0e88b938a1ef2527513a6673938d46c56a0414adb74536347e492b4de688' 
        '16dcfc1f40b63f9516cf4dd1ac544a0871a6d1a3e0ee3cdee99a62c8d39e7c6e'),
    'p': bytes.fromhex(
        '96761c45edb132b4cff301b4cd0dad61a645a9bab3e6204b0df8b7e38e5ddf6d5b59e2b56b7b6a740e82f976467eceb8' 
        '3bd0939bc8a3983cbf5bff5c8cf3e79af58e1c9ba96113ecdcb6f5466987d02f79c8bf3c1ec9d28c768cb2cf7c9c20fc' 
        '821c7d7af2ee272ee6177f4664e756f5821397a7d961411ab1205949a36382b3'),
    'q': bytes.fromhex(
        'ad993f77a303397b592a6f61ae979154a315adfb2f53d89c15fe7d2f'),
    'g': bytes.fromhex(
        '74861597732be7c8c732bd1d91958d583421ef621c06d67b1ed21adb95f515d311993e0f3d4976a801117c6d269a0dd3' 
        '48a14f2a19a0f1654a469a4a87b441b5db75a28705c10b841e9cb80e333c2994c3c81fe772530feb9cace0908ae71f43' 
        '972cfd3ae2b174e104d642a5e6fbdabff9441c0f9da75ddc358874db0758a86c'),
}
ED = {
    'd': bytes.fromhex(
        '60266dc40f6718ff4d2257f4a7fa50157960f5673849e6e8d128afd1c06e0538'),
    'q': bytes.fromhex(
        '979b2af17e18e360490951dc61746ded7fad43bfa81d41d817887577de8f19de'),
}

# RFC 2409 second Oakley group (1024-bit MODP), generator 2: domain parameters for CKM_DH_PKCS_KEY_PAIR_GEN
DH_P = bytes.fromhex('FFFFFFFFFFFFFFFFC90FDAA22168C234C4C6628B80DC1CD129024E088A67CC74020BBEA63B139B22514A08798E3404DD'
                     'EF9519B3CD3A431B302B0A6DF25F14374FE1356D6D51C245E485B576625E7EC6F44C42E9A637ED6B0BFF5CB6F406B7ED'
                     'EE386BFB5A899FA5AE9F24117C4B1FE649286651ECE65381FFFFFFFFFFFFFFFF')
DH_G = b'\x02'
P256_OID = bytes.fromhex('06082a8648ce3d030107')        # DER OID prime256v1
ED25519_OID = bytes.fromhex('06032b6570')               # DER OID 1.3.101.112
AES128 = bytes(range(0x10, 0x20)); AES192 = bytes(range(0x20, 0x38)); AES256 = bytes(range(0x40, 0x60))
DES3 = bytes.fromhex('0123456789abcdef23456789abcdef01456789abcdef0123'); DES2 = DES3[:16]
GENERIC64 = bytes((i * 7 + 3) & 0xff for i in range(64))

def der_octet(b):
    assert len(b) < 128
    return bytes([4, len(b)]) + b

def secret(ck, keytype, value, **kw):
    t = {'CKA_CLASS': ck.CKO_SECRET_KEY, 'CKA_KEY_TYPE': ck[keytype], 'CKA_VALUE': value, 'CKA_SENSITIVE': False, 'CKA_EXTRACTABLE': True,
         'CKA_ENCRYPT': True, 'CKA_DECRYPT': True, 'CKA_SIGN': True, 'CKA_VERIFY': True, 'CKA_WRAP': True, 'CKA_UNWRAP': True, 'CKA_DERIVE': True}
    t.update(kw); return t

def rsa_priv(ck, **kw):
    t = {'CKA_CLASS': ck.CKO_PRIVATE_KEY, 'CKA_KEY_TYPE': ck.CKK_RSA, 'CKA_MODULUS': RSA['n'], 'CKA_PUBLIC_EXPONENT': RSA['e'], 'CKA_PRIVATE_EXPONENT': RSA['d'],
         'CKA_PRIME_1': RSA['p'], 'CKA_PRIME_2': RSA['q'], 'CKA_EXPONENT_1': RSA['dp'], 'CKA_EXPONENT_2': RSA['dq'], 'CKA_COEFFICIENT': RSA['qi'],
         'CKA_SENSITIVE': False, 'CKA_EXTRACTABLE': True, 'CKA_SIGN': True, 'CKA_DECRYPT': True, 'CKA_UNWRAP': True}
    t.update(kw); return t
def rsa_pub(ck, **kw):
    t = {'CKA_CLASS': ck.CKO_PUBLIC_KEY, 'CKA_KEY_TYPE': ck.CKK_RSA, 'CKA_MODULUS': RSA['n'], 'CKA_PUBLIC_EXPONENT': RSA['e'], 'CKA_VERIFY': True, 'CKA_ENCRYPT': True, 'CKA_WRAP': True}
    t.update(kw); return t
def ec_priv(ck, **kw):
    t = {'CKA_CLASS': ck.CKO_PRIVATE_KEY, 'CKA_KEY_TYPE': ck.CKK_EC, 'CKA_EC_PARAMS': P256_OID, 'CKA_VALUE': EC['d'], 'CKA_SENSITIVE': False, 'CKA_EXTRACTABLE': True, 'CKA_SIGN': True, 'CKA_DERIVE': True}
    t.update(kw); return t
def ec_pub(ck, **kw):
    t = {'CKA_CLASS': ck.CKO_PUBLIC_KEY, 'CKA_KEY_TYPE': ck.CKK_EC, 'CKA_EC_PARAMS': P256_OID, 'CKA_EC_POINT': der_octet(EC['q']), 'CKA_VERIFY': True}
    t.update(kw); return t
def ed_priv(ck, **kw):
    t = {'CKA_CLASS': ck.CKO_PRIVATE_KEY, 'CKA_KEY_TYPE': ck.CKK_EC_EDWARDS, 'CKA_EC_PARAMS': ED25519_OID, 'CKA_VALUE': ED['d'], 'CKA_SENSITIVE': False, 'CKA_EXTRACTABLE': True, 'CKA_SIGN': True}
    t.update(kw); return t
def ed_pub(ck, **kw):
    t = {'CKA_CLASS': ck.CKO_PUBLIC_KEY, 'CKA_KEY_TYPE': ck.CKK_EC_EDWARDS, 'CKA_EC_PARAMS': ED25519_OID, 'CKA_EC_POINT': der_octet(ED['q']), 'CKA_VERIFY': True}
    t.update(kw); return t
def dsa_priv(ck, **kw):
    t = {'CKA_CLASS': ck.CKO_PRIVATE_KEY, 'CKA_KEY_TYPE': ck.CKK_DSA, 'CKA_PRIME': DSA['p'], 'CKA_SUBPRIME': DSA['q'], 'CKA_BASE': DSA['g'], 'CKA_VALUE': DSA['x'], 'CKA_SENSITIVE': False, 'CKA_EXTRACTABLE': True, 'CKA_SIGN': True}
    t.update(kw); return t
def dsa_pub(ck, **kw):
    t = {'CKA_CLASS': ck.CKO_PUBLIC_KEY, 'CKA_KEY_TYPE': ck.CKK_DSA, 'CKA_PRIME': DSA['p'], 'CKA_SUBPRIME': DSA['q'], 'CKA_BASE': DSA['g'], 'CKA_VALUE': DSA['y'], 'CKA_VERIFY': True}
    t.update(kw); return t
