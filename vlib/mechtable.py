"""Coarse reference table  mechanism -> (key-type families, symmetric?)  written from the PKCS#11 v2.40 mechanism
tables ("Mechanisms vs. Functions" and the per-mechanism key-type statements), plus valid mechanism parameters and
inputs for positive controls.  Deliberately FAMILY level (DESIGN 3/C07): a key "does not fit" a mechanism only if it
belongs to another algorithm family (RSA / DSA / DH / EC / ED / AES / DES / HMAC-or-generic) or has the wrong object
class (symmetric mechanism: secret key; asymmetric mechanism: public key for encrypt/verify/wrap, private key for
decrypt/sign/unwrap/derive).  Nothing finer (DES vs DES3, SHA-1-HMAC key under SHA-256-HMAC, key sizes) is demanded."""
import re
import keys_fixed2 as K

OPS = ('encrypt', 'decrypt', 'sign', 'verify', 'wrap', 'unwrap', 'derive')
OP_FN = {'encrypt': 'C_EncryptInit', 'decrypt': 'C_DecryptInit', 'sign': 'C_SignInit', 'verify': 'C_VerifyInit', 'wrap': 'C_WrapKey', 'unwrap': 'C_UnwrapKey', 'derive': 'C_DeriveKey'}
OP_FLAG = {'encrypt': 'CKA_ENCRYPT', 'decrypt': 'CKA_DECRYPT', 'sign': 'CKA_SIGN', 'verify': 'CKA_VERIFY', 'wrap': 'CKA_WRAP', 'unwrap': 'CKA_UNWRAP', 'derive': 'CKA_DERIVE'}
ASYM_CLASS = {'encrypt': 'public', 'verify': 'public', 'wrap': 'public', 'decrypt': 'private', 'sign': 'private', 'unwrap': 'private', 'derive': 'private'}

# mechanism -> (families that fit, 'sym' | 'asym' | 'none')      'none': no key fits (digest / key generation)
_T = {}
def _add(fams, kind, *names):
    for n in names: _T[n] = (frozenset(fams), kind)
_add({'RSA'}, 'asym', 'CKM_RSA_PKCS', 'CKM_RSA_X_509', 'CKM_RSA_PKCS_OAEP', 'CKM_RSA_PKCS_PSS', 'CKM_MD5_RSA_PKCS', 'CKM_SHA1_RSA_PKCS', 'CKM_SHA224_RSA_PKCS',
     'CKM_SHA256_RSA_PKCS', 'CKM_SHA384_RSA_PKCS', 'CKM_SHA512_RSA_PKCS', 'CKM_SHA1_RSA_PKCS_PSS', 'CKM_SHA224_RSA_PKCS_PSS', 'CKM_SHA256_RSA_PKCS_PSS',
     'CKM_SHA384_RSA_PKCS_PSS', 'CKM_SHA512_RSA_PKCS_PSS', 'CKM_RSA_9796', 'CKM_RSA_X9_31', 'CKM_SHA1_RSA_X9_31')
_add({'DSA'}, 'asym', 'CKM_DSA', 'CKM_DSA_SHA1', 'CKM_DSA_SHA224', 'CKM_DSA_SHA256', 'CKM_DSA_SHA384', 'CKM_DSA_SHA512')
_add({'EC'}, 'asym', 'CKM_ECDSA', 'CKM_ECDSA_SHA1', 'CKM_ECDSA_SHA224', 'CKM_ECDSA_SHA256', 'CKM_ECDSA_SHA384', 'CKM_ECDSA_SHA512')
_add({'ED'}, 'asym', 'CKM_EDDSA')
_add({'DH'}, 'asym', 'CKM_DH_PKCS_DERIVE')
# v2.40: EC keys; this code base (and PKCS#11 v3.0 in spirit) also derives with 25519 keys -> both families are accepted as fitting
_add({'EC', 'ED'}, 'asym', 'CKM_ECDH1_DERIVE', 'CKM_ECDH1_COFACTOR_DERIVE')
_add({'HMAC'}, 'sym', 'CKM_MD5_HMAC', 'CKM_SHA_1_HMAC', 'CKM_SHA224_HMAC', 'CKM_SHA256_HMAC', 'CKM_SHA384_HMAC', 'CKM_SHA512_HMAC',
     'CKM_MD5_HMAC_GENERAL', 'CKM_SHA_1_HMAC_GENERAL', 'CKM_SHA256_HMAC_GENERAL')
_add({'AES'}, 'sym', 'CKM_AES_ECB', 'CKM_AES_CBC', 'CKM_AES_CBC_PAD', 'CKM_AES_CTR', 'CKM_AES_GCM', 'CKM_AES_CMAC', 'CKM_AES_KEY_WRAP', 'CKM_AES_KEY_WRAP_PAD',
     'CKM_AES_ECB_ENCRYPT_DATA', 'CKM_AES_CBC_ENCRYPT_DATA', 'CKM_AES_MAC', 'CKM_AES_OFB', 'CKM_AES_CFB128', 'CKM_AES_CCM', 'CKM_AES_CMAC_GENERAL')
_add({'DES'}, 'sym', 'CKM_DES_ECB', 'CKM_DES_CBC', 'CKM_DES_CBC_PAD', 'CKM_DES_ECB_ENCRYPT_DATA', 'CKM_DES_CBC_ENCRYPT_DATA', 'CKM_DES3_ECB', 'CKM_DES3_CBC',
     'CKM_DES3_CBC_PAD', 'CKM_DES3_ECB_ENCRYPT_DATA', 'CKM_DES3_CBC_ENCRYPT_DATA', 'CKM_DES3_CMAC', 'CKM_DES3_MAC', 'CKM_DES_MAC')
# v2.40 2.31: the base key of the concatenation mechanisms is any secret key
_add({'AES', 'DES', 'HMAC'}, 'sym', 'CKM_CONCATENATE_BASE_AND_KEY', 'CKM_CONCATENATE_BASE_AND_DATA', 'CKM_CONCATENATE_DATA_AND_BASE', 'CKM_XOR_BASE_AND_DATA')
_add(set(), 'none', 'CKM_MD5', 'CKM_SHA_1', 'CKM_SHA224', 'CKM_SHA256', 'CKM_SHA384', 'CKM_SHA512', 'CKM_RSA_PKCS_KEY_PAIR_GEN', 'CKM_DSA_KEY_PAIR_GEN',
     'CKM_DSA_PARAMETER_GEN', 'CKM_DH_PKCS_KEY_PAIR_GEN', 'CKM_DH_PKCS_PARAMETER_GEN', 'CKM_EC_KEY_PAIR_GEN', 'CKM_EC_EDWARDS_KEY_PAIR_GEN', 'CKM_AES_KEY_GEN',
     'CKM_DES_KEY_GEN', 'CKM_DES2_KEY_GEN', 'CKM_DES3_KEY_GEN', 'CKM_GENERIC_SECRET_KEY_GEN')
TABLE = dict(_T)
# mechanisms no build of this library advertises: decoys for the "absent from the advertised list" clause
DECOYS = ('CKM_ECDSA_SHA1', 'CKM_ECDSA_SHA256', 'CKM_AES_MAC', 'CKM_AES_OFB', 'CKM_DES3_MAC', 'CKM_RSA_9796', 'CKM_SHA1_RSA_X9_31', 'CKM_SHA256_HMAC_GENERAL',
          'CKM_ECDH1_COFACTOR_DERIVE', 'CKM_XOR_BASE_AND_DATA', 'CKM_GOSTR3410', 'CKM_GOSTR3411_HMAC', 'CKM_GOSTR3411')
DIGESTS = ('CKM_MD5', 'CKM_SHA_1', 'CKM_SHA224', 'CKM_SHA256', 'CKM_SHA384', 'CKM_SHA512')

# PKCS#11 v2.40 "Mechanisms vs. Functions" (only the 7 keyed kinds; recover variants left out): used ONLY to decide which
# refused positive controls are worth an observation -- never for a verdict.
FUNCS = {}
def _f(ops, *names):
    for n in names: FUNCS[n] = frozenset(ops)
_f(('encrypt', 'decrypt', 'sign', 'verify', 'wrap', 'unwrap'), 'CKM_RSA_PKCS', 'CKM_RSA_X_509')
_f(('encrypt', 'decrypt', 'wrap', 'unwrap'), 'CKM_RSA_PKCS_OAEP', 'CKM_AES_ECB', 'CKM_AES_CBC', 'CKM_AES_CBC_PAD', 'CKM_AES_CTR', 'CKM_AES_GCM', 'CKM_DES_ECB', 'CKM_DES_CBC',
   'CKM_DES_CBC_PAD', 'CKM_DES3_ECB', 'CKM_DES3_CBC', 'CKM_DES3_CBC_PAD')
_f(('sign', 'verify'), *[n for n, (f, k) in _T.items() if (n.endswith(('_RSA_PKCS', '_PSS', '_HMAC', '_CMAC')) or n.startswith(('CKM_DSA', 'CKM_ECDSA', 'CKM_EDDSA'))) and k != 'none'])
_f(('wrap', 'unwrap'), 'CKM_AES_KEY_WRAP', 'CKM_AES_KEY_WRAP_PAD')
_f(('derive',), 'CKM_DH_PKCS_DERIVE', 'CKM_ECDH1_DERIVE', 'CKM_AES_ECB_ENCRYPT_DATA', 'CKM_AES_CBC_ENCRYPT_DATA', 'CKM_DES_ECB_ENCRYPT_DATA', 'CKM_DES_CBC_ENCRYPT_DATA',
   'CKM_DES3_ECB_ENCRYPT_DATA', 'CKM_DES3_CBC_ENCRYPT_DATA', 'CKM_CONCATENATE_BASE_AND_KEY', 'CKM_CONCATENATE_BASE_AND_DATA', 'CKM_CONCATENATE_DATA_AND_BASE')

def fits(op, kind, mech):
    """True / False / None (mechanism not in the reference table: no demand).  Returns (verdict, reason)."""
    e = TABLE.get(mech)
    if e is None: return None, 'mechanism-not-in-table'
    fams, mk = e
    if mk == 'none': return False, 'type-mismatch'
    need = 'secret' if mk == 'sym' else ASYM_CLASS[op]
    if K.FAMILY[kind] not in fams: return False, 'type-mismatch'
    if K.kclass(kind) != need: return False, 'class-mismatch'
    return True, ''

def exact_kinds(op, mech):
    """key kinds that should make a positive control work (the exact PKCS#11 key type, not only the family)"""
    e = TABLE.get(mech)
    if e is None or e[1] == 'none': return []
    fams, mk = e; out = []
    for k in K.ALL_KINDS:
        ok, _ = fits(op, k, mech)
        if not ok: continue
        if k == 'DES': continue                                  # single DES is unusable here (OpenSSL 3 without legacy provider)
        if mech.startswith('CKM_DES_') and k in ('DES2', 'DES3'): continue
        if mech.startswith('CKM_AES') and not k.startswith('AES'): continue
        if mech == 'CKM_EDDSA' and not k.startswith('ED'): continue
        if mech == 'CKM_ECDH1_DERIVE' and k.startswith('ED'): continue   # Ed25519 keys sign, X25519 keys derive
        if mech.endswith('_HMAC'):
            want = {'CKM_MD5_HMAC': 'HMD5', 'CKM_SHA_1_HMAC': 'HSHA1', 'CKM_SHA224_HMAC': 'HSHA224', 'CKM_SHA256_HMAC': 'HSHA256', 'CKM_SHA384_HMAC': 'HSHA384', 'CKM_SHA512_HMAC': 'HSHA512'}.get(mech)
            if k not in ('GEN64', want): continue
        out.append(k)
    return out

IV16 = bytes(range(0x10, 0x20)); IV8 = bytes(range(0x30, 0x38)); IV12 = bytes(range(0x50, 0x5c))
MGF = {'CKM_SHA_1': 1, 'CKM_SHA256': 2, 'CKM_SHA384': 3, 'CKM_SHA512': 4, 'CKM_SHA224': 5}
HLEN = {'CKM_SHA_1': 20, 'CKM_SHA224': 28, 'CKM_SHA256': 32, 'CKM_SHA384': 48, 'CKM_SHA512': 64}
DATA32 = bytes((7 * i + 3) & 0xFF for i in range(32))

def params(x, ck, mech, kind=None, other=None):
    """a VALID mechanism parameter for `mech` (request form); `other`: handle of a second secret key (BASE_AND_KEY)"""
    M = x.M
    if mech in ('CKM_AES_CBC', 'CKM_AES_CBC_PAD'): return M(mech, hex=IV16.hex())
    if mech in ('CKM_DES_CBC', 'CKM_DES_CBC_PAD', 'CKM_DES3_CBC', 'CKM_DES3_CBC_PAD'): return M(mech, hex=IV8.hex())
    if mech == 'CKM_AES_CTR': return M(mech, ctr={'bits': 128, 'cb': IV16.hex()})
    if mech == 'CKM_AES_GCM': return M(mech, gcm={'iv': IV12.hex(), 'aad': b'hdr'.hex(), 'tagbits': 128})
    if mech == 'CKM_RSA_PKCS_OAEP': return M(mech, oaep={'hash': ck.CKM_SHA_1, 'mgf': 1, 'source': 1})
    if mech.endswith('_PSS'):
        h = {'CKM_RSA_PKCS_PSS': 'CKM_SHA_1', 'CKM_SHA1_RSA_PKCS_PSS': 'CKM_SHA_1', 'CKM_SHA224_RSA_PKCS_PSS': 'CKM_SHA224', 'CKM_SHA256_RSA_PKCS_PSS': 'CKM_SHA256',
             'CKM_SHA384_RSA_PKCS_PSS': 'CKM_SHA384', 'CKM_SHA512_RSA_PKCS_PSS': 'CKM_SHA512'}[mech]
        return M(mech, pss={'hash': ck[h], 'mgf': MGF[h], 'slen': 20})
    if mech == 'CKM_DH_PKCS_DERIVE': return M(mech, hex=K.DH['y2'].hex())
    if mech in ('CKM_ECDH1_DERIVE', 'CKM_ECDH1_COFACTOR_DERIVE'):
        pub = K.X25519['pub2'] if (kind or '').startswith(('X25519', 'ED')) else K.EC['point2']
        return M(mech, ecdh1={'kdf': 1, 'public': pub.hex()})
    if mech in ('CKM_AES_ECB_ENCRYPT_DATA', 'CKM_DES_ECB_ENCRYPT_DATA', 'CKM_DES3_ECB_ENCRYPT_DATA', 'CKM_CONCATENATE_BASE_AND_DATA', 'CKM_CONCATENATE_DATA_AND_BASE', 'CKM_XOR_BASE_AND_DATA'):
        return M(mech, kdstr=DATA32.hex())
    if mech == 'CKM_AES_CBC_ENCRYPT_DATA': return M(mech, cbcdata={'iv': IV16.hex(), 'data': DATA32.hex()})
    if mech in ('CKM_DES_CBC_ENCRYPT_DATA', 'CKM_DES3_CBC_ENCRYPT_DATA'): return M(mech, cbcdata={'iv': IV8.hex(), 'data': DATA32.hex()})
    if mech == 'CKM_CONCATENATE_BASE_AND_KEY': return M(mech, hkey=other or 0)
    return M(mech)

def plaintext(mech):
    """input for the one-shot encrypt positive control"""
    if mech == 'CKM_RSA_X_509': return b'\x00' + bytes((i * 5 + 1) & 0xFF for i in range(127))
    if mech in ('CKM_AES_ECB', 'CKM_AES_CBC', 'CKM_DES_ECB', 'CKM_DES_CBC', 'CKM_DES3_ECB', 'CKM_DES3_CBC'): return DATA32
    return DATA32[:20]
def message(mech):
    """input for the one-shot sign positive control"""
    if mech == 'CKM_RSA_X_509': return b'\x00' + bytes((i * 3 + 2) & 0xFF for i in range(127))
    if mech in ('CKM_DSA', 'CKM_RSA_PKCS_PSS', 'CKM_RSA_PKCS'): return DATA32[:20]
    if mech == 'CKM_ECDSA': return DATA32
    return b'the quick brown fox ' * 3

def derive_template(x, ck, mech, extra=()):
    t = [('CKA_CLASS', ck.CKO_SECRET_KEY), ('CKA_KEY_TYPE', ck.CKK_GENERIC_SECRET), ('CKA_TOKEN', False), ('CKA_PRIVATE', False), ('CKA_SENSITIVE', False), ('CKA_EXTRACTABLE', True)]
    if not mech.startswith('CKM_CONCATENATE'): t.append(('CKA_VALUE_LEN', 16))
    return x.T(t + list(extra))
def unwrap_template(x, ck, extra=()):
    return x.T([('CKA_CLASS', ck.CKO_SECRET_KEY), ('CKA_KEY_TYPE', ck.CKK_AES), ('CKA_TOKEN', False), ('CKA_PRIVATE', False), ('CKA_SENSITIVE', False), ('CKA_EXTRACTABLE', True)] + list(extra))

# ---- key generation templates (configuration clause + C08/C02 origins)
def genkey_request(x, ck, mech, extra=()):
    """(fn, kwargs) for a valid generation with `mech`, or None when `mech` is not a generation mechanism"""
    base = [('CKA_TOKEN', False), ('CKA_PRIVATE', False)]
    sec = base + [('CKA_SENSITIVE', False), ('CKA_EXTRACTABLE', True)]
    if mech in ('CKM_AES_KEY_GEN', 'CKM_GENERIC_SECRET_KEY_GEN'): return 'C_GenerateKey', dict(mech=x.M(mech), tmpl=x.T(sec + [('CKA_VALUE_LEN', 16)] + list(extra)))
    if mech in ('CKM_DES_KEY_GEN', 'CKM_DES2_KEY_GEN', 'CKM_DES3_KEY_GEN'): return 'C_GenerateKey', dict(mech=x.M(mech), tmpl=x.T(sec + list(extra)))
    if mech in ('CKM_DSA_PARAMETER_GEN', 'CKM_DH_PKCS_PARAMETER_GEN'): return 'C_GenerateKey', dict(mech=x.M(mech), tmpl=x.T(base + [('CKA_PRIME_BITS', 512)] + list(extra)))
    pub = {'CKM_RSA_PKCS_KEY_PAIR_GEN': [('CKA_MODULUS_BITS', 1024), ('CKA_PUBLIC_EXPONENT', b'\x01\x00\x01')],
           'CKM_DSA_KEY_PAIR_GEN': [('CKA_PRIME', K.DSA['p']), ('CKA_SUBPRIME', K.DSA['q']), ('CKA_BASE', K.DSA['g'])],
           'CKM_DH_PKCS_KEY_PAIR_GEN': [('CKA_PRIME', K.DH['p']), ('CKA_BASE', K.DH['g'])],
           'CKM_EC_KEY_PAIR_GEN': [('CKA_EC_PARAMS', K.EC['params'])],
           'CKM_EC_EDWARDS_KEY_PAIR_GEN': [('CKA_EC_PARAMS', K.ED['params'])]}.get(mech)
    if pub is None: return None
    return 'C_GenerateKeyPair', dict(mech=x.M(mech), pub=x.T(base + pub), priv=x.T(sec + list(extra)))
GEN_MECHS = ('CKM_AES_KEY_GEN', 'CKM_GENERIC_SECRET_KEY_GEN', 'CKM_DES_KEY_GEN', 'CKM_DES2_KEY_GEN', 'CKM_DES3_KEY_GEN', 'CKM_DSA_PARAMETER_GEN', 'CKM_DH_PKCS_PARAMETER_GEN',
             'CKM_RSA_PKCS_KEY_PAIR_GEN', 'CKM_DSA_KEY_PAIR_GEN', 'CKM_DH_PKCS_KEY_PAIR_GEN', 'CKM_EC_KEY_PAIR_GEN', 'CKM_EC_EDWARDS_KEY_PAIR_GEN')

def universe(ck, advertised, src=None):
    """names of every mechanism worth probing: the advertised list, every `case CKM_x:` of SoftHSM.cpp, and decoys"""
    names = {ck.MECH[m] for m in advertised if m in ck.MECH}
    if src:
        try:
            for n in re.findall(r'case (CKM_[A-Z0-9_]+)\s*:', open(src, errors='replace').read()):
                if n in ck.K: names.add(n)
        except OSError: pass
    names |= {n for n in DECOYS if n in ck.K}
    return sorted(names)

def conf_line(kind, names):
    """slots.mechanisms line: kind 'ALL' | 'pos' | 'neg'"""
    if kind == 'ALL': return 'slots.mechanisms = ALL\n'
    return 'slots.mechanisms = ' + ('-' if kind == 'neg' else '') + ','.join(names) + '\n'
def expected_list(all_names, kind, names):
    if kind == 'ALL': return set(all_names)
    return set(all_names) - set(names) if kind == 'neg' else set(all_names) & set(names)
