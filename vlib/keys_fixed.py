"""Fixed, driver-known key material for the C10/C13 oracles.

Generated ONCE by pure-Python big-integer code (refcrypt.RSAKey.generate / DSAKey.generate_params with
random.Random(20260926) and Miller-Rabin) - no OpenSSL, no Botan.  The Oakley MODP primes are not stored: they
are recomputed from pi (RFC 2409 / RFC 3526 formula) by refcrypt.modp_prime.  `python3 keys_fixed.py --check`
re-validates every stored number (primality, consistency)."""
RSA = {
    1024: dict(n=0xab51dea691b2d80bc4aba208dd2335fbecc37eb57ac5c2c8e69b2b9e89a2dc415c97b2d77369f5d190bd5287c2328d2015008d8fe66186b986ed6d5ef61d0017c683528614365140235340186dc257d25f51e8d191e12da03f853054f3c43d02de7215f8f0b43acf4e53dfdfd5fe4cedc9be106fb9f85e175e3f517ae35136a1,
        e=65537, d=0x97299bcd594d76779bc6dd27f9073280e0fdf5f56728cb9fbc6a39e89f050656ddbe345d0a46fa5138e6f3c539c2a4e723e0e3078f7d8a04755b555faec513e873a7e416186bab843fbbd0ee4814bb3d240c36f16d2c7134610c29259ed3c15269bd2ed1835ffb5b2220aaf93c467afacc0e4c50b2f99c6bf59a9c32eca4ed81,
        p=0xe3f4a6add4e8942b0dd13a08f3d4d11409fe55b7c6d2415891cfd9778ca393329512d690cd11077d8bd8a898a50944002c16eb7f1d750dc5d7d51995055c1d99,
        q=0xc06580288d5aa169db615041fe5ad7b95e89a2376460978acab8943e26f92343e63e28424bb46b261116ddf2f284db2a0efb2d68ad41385eb0e98cfd0452b649),
    1025: dict(n=0x1f899484bf774cb9522e5ff4984d1890ada79a3e452e0dc5a631a8cd526107935625c7930e427e4760f62215222f59ea5694db7875aea1aa4e6c93d664f8c5797ed4d40beb6a235fa9c85e34e4419a4f7901f9be32a5319569136ae9ebf98b41c944fd2d4b3af1be65e7444cccdbee70bb2d4ede52c0a35f691cc5a745a1ffdff,
        e=65537, d=0x1689e7b79b727245bb82e316d645baf9a2f1b61d2ca9c633ec1b6f6d15a3bc9b42a50b65807a6aef2e4f997a0b0d563050a25fdb4e1778f852c5ec3dfbb982bfb8a3934f91994642bd8fa4a8bff1b563aacc70d270469441ee7d46bccd075badae99808d477fc9decf357b3dcd3b0513e5855a58662a80d812e07c9afc041af41,
        p=0x1fc505a8896b9caae737667cf857a67d412863cf4afffd3e12952e9d5b8fc10e8581c50fbff58f6dc7a88a7652f90b5153c683aaf9c55b41868b21d523dc14ce1,
        q=0xfe210415ead68d8b6fcd985fe7384b76deedf1671944a5c24c67f46b08fdf15b01c027c8cb6aff3ec7f2cfe936af77613a48ec025f9c0511166e7ebf2e48c6df),
    1536: dict(n=0xee25c42adc5c0926aaf0a04aa3c1adb5af06bf0fad4a922b929572ae73ff7d28ceb7f084a3085a36922bbc34c77a44bbf58aa483d5fcb9e2a22dbc072f39360984b44f972f56c539105c3b275e67b98b2664a022f0b9844aac099196efc1977e6e3a34f3f710025d07105bf18f5a184d33d65f175c6caa53953e40cda72e346107db5e1b22c24cbd40eee19929219d7ea36b543049ba0499e8ece3bad949f61e47f4db07bcdcea4595bcb042d1106dfb0f17857e3e6b0a4f3453e2b9c949ef85,
        e=65537, d=0x25d2f7c23af79f387603fbe17efadf053144680a2c62e0ae6cfcb19745b33984c6b86e4a12bedbdd39001b4762bb67b956b96b81c8f5f7ec28080d8a3294eaa13e638914a11f2df9ef4046e0ecdc9a9aa0417131bb7c2ba7d4853c8b758f10e964556db07ee609aadd6d4415d54412a5b90fb52c830d435b45052b908d0a8c91e21b937c66b0fed1f2a459d1a51c3f54cc68d80beda6ea57e3fa6f69c7192558405dfd4146de3a20a80e3e2c5fc67fc176386f8c3b7956402e4361d3b0de0301,
        p=0xfa75afa205c72f7f5329628d68becc5766854b347d95fbf4005cc820cb337865b31ea4ed64b8a36b72598c4a9180aa1b021d1b146282a7ee8886073d8d0714f62460a36badf164eb477973e48c02a07c4606588427bd979c5a7b1f79c2aa3ec1,
        q=0xf36a5bb56f8fe3008cde4159e2ed0cb58b77bbdbc824ce7aebc2c9c4d2da414bb6639ab507b6400ee64f2df4dff02204ba539914ae103b9ea74c7006335fb7ae6e0b43105c5abc4c8100b400dcd3c5ace016f6046ae5f8d8c32e8525f065e5c5),
    2048: dict(n=0xd848dde0e3f11ddb951186c5307c18565d5d0c922aaea7a4c284bb3485b38a15c3f007ecb43031f44aee8714e69d112366b3ae565c095ad145a8c3b50ea0ab235c531ffc0eddd65f3ee496f85fbba1da0775e5ee09341e72b5c8ba3184741fbc9c1f42432bde2bd68b1217d35048ee333a5e78b843366bf1b781520d44458dbebde5f5f046809bb401249101a708c26118dabf2688fef56e55ce3647632710e09a922f1e421a64b597dee6f6837f3c2a2cd1b8fa5bcf077b4697637faed3e68bfd78cd659fdacb97d0b39fae904a99e6440e7680f75419b0776f75b1304ddf51940140f63fbac248ff489edf22477074ab9f778edd699d127dc723083359fda7,
        e=65537, d=0x6caf69380ab36ea29a6d3d4138151411ca46e8fb46918fd2dea0de860d2de494fd6a5041256716a341484dff35c7f605c9253fd54bd8b397781ecf81db80e79f1454fd3ca7a7d882f252e27e9b74e9676bda5619e0ec1ce4ddeea98a1a9a541c6e83d2c37876e3a6a32a0b68f7ee3e2ce606f538fb258ce6e1a50dbb76f450be7d8ac0dd1de18dbac19481069d4d3a0349a64c06fb0d3381b7c2793812b3905b570e2a4769e41cb22f87c1f831069ffcd76c66f6109eb33d5ebb3465d7ad87cb28d6e4a14e637bda7d1db51b37a3148c96b8c582254201db1c5619a9b24bc7ac3748d7a0e1f9c26933d70f2e28dee5efc3d78fbd0053b4f714f7ac882e9f0a81,
        p=0xf2a3255df0392f2d4786ece0af94a44bed71c589e114e1f0a974c9eb4aff69668b4484aef2ecb2171276d90f4f52b3b34966307055604957671d55c852a5433219efc3bdd75239b9ccdccc67ccf0cdd5f73fae93a20d0a2f7751b357efd351bd4f0884c406bacef88b71168c7da1885ea028ef86749d9d214cb6c6334ce28267,
        q=0xe4322f329e2d66d96c64aa5cb1ce374f9ebd23c3c3585a38a8c7a452dc37a4bfc49eed0452c00acc41ff103e49ecdc839c32dad5029c23e68e93310db6b73062b4e70b88f63a168d084ab1787dc2e832b1edb599204b0e208a137f93bb2d6f0da09e7ab72e66549129ec4b84962a759a4b6d6c9ca1995ca2211d69037c1c22c1),
    3072: dict(n=0xc2704da7ff60644ddc35a6c59c01164894cdcb4d424b83f0a796a399d34fe77bbd691defbfee64d8c95d6944dcfd7ebf2eb7b603dbf1fbf03b8bae5b74eb1246ef9c9dd79a9eda932f79d64994c353f7d4020ace5996ec6a6d764abbe99f29822a9905410561a1816ece7dee0f1a37d6ac90bdf6f98d0155a1ecb262d3b0620173ca42e66ec9eaa73c7344c7f5b9b08611efb5e6987777569a6425d7df20c4d157a7335613856d0d3e28098a7811a90e09ad4949042643a499eb9fd1e65e65d2d212a81a988648bf1afd38741fbf522f66b44546ab8f1c298826e95ee68e072eebd95761cfc64c3e66f901a6a46eec40728e773167286acaf5457ef5561861b66d64e7ad1cb4c5a005048ee9712a054ee5c35c3dde87150da0170cccd65ded389f22e4c7796d9f600a63fdafa4fb109a386a03cc5a1d19be204b22d708bc7a275724a1c1696d560f0d38e4e4112c3c0e6ecdbe4a6e96f3bba6c43a7c50412186b1316c047da5f73694184b9716c4dd514427ca6b08cebf5cf80bc214daebb8b1,
        e=65537, d=0xadedc7897fe7b9d1ec2a1204b2884666a6b57026ac26e0df650a5b4e3eb83b59751592b1e3fe5c378fe8ff419a6d27f3dcd678fafac47b9969aa894d464901107346a5eb3764e220c75735589cba1d629343406755bcabbe882c48adcf4d90d3df47026c27642e149a0a1c9bd6e69d0c6b510e9cde9e43935645654d020fc59b86f866dfba3ae4acb466682076aea43949d223e5227dbb42bcd8d90141970e7834f05bfba37ab7122187af012e669dd2f0d511b93efcfb85422a83cc3f4631cdd1e3a50d00903f658e350d1fbf5e479c6099e60b021bf966308892fde32a1ab33dc0f001f894b45930ff3bd2bf0e4cf4896c2690b2850cabcad4157a34ebf9f881ac5485cf5da97b4f9b51b6178fcd3cde427f891a087ad7d6c52ff3d82b6afde9acd5c5468824a1d1f1e3cc7a77d7a8e3277db80628250e1cd59062be75ff587616a576d9b016cad0b1b4cc8ec53f288e5c4f262ef42c610145ff3fa08a00494b668912523f97e07fc50e9e29fd4248281046fd010820d46fc74253875935,
        p=0xfc8f9f8bb79282627265f7cdfbb3249fa3f27213214c277c423f5c7ee5637d0d815867bb93a24f12594f3f3e04d971feba13fd1653e3dfe2b39fcffc37e5187e700684e6b898684e3e9c797e5a12afdcb09f35a25855bb69245222f94d7b2c8a5323991f193caafa6d41597aeb71881c97463220bf0a8ad559e8bc1405e102af3aece1c631b6ad810af8fec9a23e95eb1306c7e8ad0ac44d777fff683f0776d3a671dbe74e408a76c9336d0b89720c9817f1e901c08e94a7ee5aa0d048edf3c7,
        q=0xc51613cde043fc10dc7509805b64763fa7b0bf7a1279c0af536505057f508ec0e3d90cfb4c404c9f5059e9bc7d106501105ee0f778e6ebf39cc1c4fd43c34a74ef3be9d28802200150ed8716c9a68b5464a7a76531b6d938ceed20e9db79605c51f5842c2a319ac807cf1f7644fa15342660e1767d0730c4b6db7f1c196305a8c901f860644276d48b354138525811894ee66a12f3bcf96628f29f1b31e1c49b3c4941553d923c8a07a7e1772ebda94b275a49517de33ba166ea7bb37ae0ffc7),
    4096: dict(n=0xdbe3add697b7e3d5f6b3b30657555d177d1d6d4e1b2c02364dc1fd649a67bac6218fd32df6de16e550e14b15545dbe2b64acd26f40a389592560db0fb041bc1d8953c5356d2337e4e5e7c81a37ee8e22cfec42f230a1ec8ab21c8cc4352caed871e156e6e6d02f6a10297d85a4afea5377945ace24c4e7842abba3d1959eeb61e126b4280b5aaab8370d528a5570b0e28ad429686b512ce8fe066436867a20019ea2e73964946e2cf8211e16d27b661b309d43cad262554e774f7e63f6e598dd813fa3d6b4f24396827b95cf3c6017efbb3857d041f0b1b270bd20df1a652af95d934a4b2269451773dae0ef7b932d565c48ce526ce075dee3f644ab98ca27d5ff4fda16364e0be2459ef3e053dcf127847f4e98c93df8b11b8c6a60212d71273a3a89523e8576dc4c0169f2acc73328a6e60eb5fe50c1f2f47cd51dd91b1fd2981291d6302e8034879e7aac7080671d7b162c2ce420662ed4f070492ef7c389b912af505f48d60eb685523ea0aba1dffbc5b96a8635b19eb87952c3fbcc70d649281ddfef58e65934b39ab0ee4fcd6e3b437a7bdcea0d591c0956fdd712f810d57648e1dfa76aeb118552f74b35c53fdcc44b36270887f51e535358980ca5d9c170a3fa329607ba67ecb2dfcf8819eb9a3d2df079cb7e0157ce7cdbf3698235b34187a3e9f929bc8b8f081a16e665855412ac4e96a336644da120e5c4ecc9b3,
        e=65537, d=0xd7a522072223a5bd60843b3e2cc7fad3de4fcdb29bd33d182489eb078ea5cbf62353f9b74a33e4206081923108dc267447f77528c62b9bb76180eb5527765016676750306527f4d8f6dfa8ce8dabd6992d7076f72dda9f30261cf9b032b5ef8335abd89dfa1e916163184d919341327d48f8a555259a35b2d875cce2ede93cce711093fdf1a4a968a014e0ade9bceabc418a7051876dc4ad7af2a9b50f8d1576812d21b6977d39cfc0483a4a07821d50ed0c4e3fcab3c5157ecce717023b88ff3292470b79c95d9f6db7e5e3a74256373554bc49f1612be3e3cc97403592a1e28c72b69998d5c47c8b924ca6907a762c0bb51b229ac446d4a09c141c756b4c442fc02530e6736960ebcd94901b4034dab78cdbbd2b0348d26936c07df48e27c9532229d28f8d245ce03dd7b3e3e7553db2d912831c95033307099c395b618ed9d1eaa27d94c8f9f79cd123955250c3fd951bd58fac1d72a6983ae9b1d2176a2f69b5a69efc1ca7f07af5ca5ddb99c2bfa981bd56387e57ec40515e712a014d7e944208096b0e927201625d6480d333f94ae0d97b267200c64e36af5370bd4a05f2b44199b084f0e0570297aef96bc34d3ffa07e9379e08c4015b6d9a7db279ecc50a6daae598ef8e8ef80e59e4f063243d2a2207c3c5f65477d6e877843f111b4af313ab6adbde5075ec37363aab279f70241cdc869aa0ed64e22ed9756a931,
        p=0xffccbc911e39e537d88cdabd802bd2353bef714247adbdc1f8d89828c09ea176f4640e7656433c61a0f663114a07622d686dbc0984d63c22e43cfefb309da789b65963611a11d38cbd5af5f68c0f5c583e29fe42b8cdb9b15c6f608ff72eb347906d3c4ed055e10418df32772dfa556775abdddccdf8b7381f57219efb1127d449d7d8b0d9bd3c7f876876c6093ee96883bbc42e2acad1beef037b7bc1f7bda0cbf62256e62e92620e622eb584f26fac87cbe9301879f9bf7f683466f24639cc13dc5e8b914f0135d4f0d828b142a6e7d2b5150a305a853531a0f7be6e09e17e8dd482dc2c53df517cd8fa275bc178ae75e3da5c76dffc03f2b0a029e44b7839,
        q=0xdc0fbef1118fa8a7eb83eac01c782587debdccdb197decb73caadc444b49ae0280eec5d972be4b22e50ec1585263d1994295df36326363d02670c4787896074fb29c1a7a382e5516d7cd9e2d2b79af226ffeefdc45046b57c371914c42024e9f4065a7b10ebe4cffc53322b233d345de816124aed5eaf5015d0be446efd5625f5a81ee159496a389efbee0979b9e8a9fd18e11531cf182a08d855357a37970d9754a27a26b1b492ff3830f2806035cfef517b4cb7ddce08a15d6dbf0e6ca786b7dd13fcd827b22a803707d47d583ef759934ff667c9ff6b771c76cb69c8b73bebee4638d2df89ca4b72918d60ba0eed622ce1758240103eb73ec4828e6ab194b),
}
DSA = {
    (1024, 160): dict(p=0xfd12f9fe09547a5280d3f5f4d754037adef6ff333730f2edecc06d1fec97a1cdb9744ee0be344d51692e3407f5a240be8a9d154cfb6d3aa0cf4144d033788c0c192faa4847ec51ab2c8432f9a668c1a1f0c7b3e82e097354055c72a241d024036fd87a645d3deb7997eaadd7823be0502816bc8c5c8a145cd5765e1787f0ba79,
        q=0xfb5e25afedad9995aea90553f2ca2c24be3b0849,
        g=0xf50b13bae9527928da4cd110c31906c9e603f0ba74225503dee79b7110c7b13add29412fe811ba2c4c882a14a4fea219203f353357ab311a924cff28d2c43a95df04eda9660873d799cd25107549fa042ae8940b1f921020bb298a1e9d170e912ab6c4d929fa576ce8d59c7d12260e09bc1d4f2d170120590afd2e61d81b9be1,
        x=0x91e87f8342c30a19789b8317e201aa8aad363e5f),
    (2048, 224): dict(p=0x87594d4eb57c9a0bd61042e20d15445c9cfe0b13ba82b87412bd79acc58f0a973a577720c0c449c67b67bf0f62795835cd80c46db660518e2a5be5ffdbc186f73de68cf6fbac8bf91f25a4f5e8940be25340c743666f7962e588c599bc1dd9f53621799687a32d8f76e0f46997278abd70d204a6e51f8cff1da2b26165003b956cdf56f16d87b660b44f43ab71acdaf33f6e1aa3dec63e788c8f605b05c306ba58b6d52a1624c25e3dc293cdf729e6a77f8fc0221b47df1572c3009e36500bf5d6f2a63c671821fa5036cd384daa98f9c71715e3977fe42b4244f5f276689de3c7d6dd733ec0f3153beabf27dfddb2b8b70ee45bb1f875d77e0bf6f564c70a05,
        q=0x98bf7d05d8d1f3cc1b2ecdfaa5c78a0fa376a94cfb005f25197d147f,
        g=0x24802edaee8e0964999889fd1a92b249e93a477b5864c0f7bb09852f81e36dc145f7321071012d9968a5a341dba82e897f4fcb887a9ccd6b17e43ef27eebd6fcebe1d55d4b41bae51a41d9b31547045c5da2033f119f5b2e3953998dd59664636c9789f6ab2935df8fa1c2b2bcdbe62765aab23afa94eb535508b6982484ef4254830d4e8f2b7a02dabe7b02c3a7232696a14eff44d5815fe7ad3b966f6680e591bc57e2b1c19c953f0c110c8ae90bf4a0ac320d6fa10d3e8fa90096c4c4b4ca54b3b4681a8bff2bea49bf3d0fb566b1fb95e0c89a27e4e26efddad1bf82de3ad5e0f2f7c80677945efa7a4f34e98c5beaa9c00ac0f2c9d19248dfa28bfed499,
        x=0x781fdec1db618462655d08f48cb0411bdefa74e07c464c1bf2048041),
    (2048, 256): dict(p=0x9add771bdacca31db4d33bde8005d1ebbab5b70e619d8522f4e14be7488dda36e359a26bbf52bca14cd7777e121c04fdb60e0e9441f80dead190048355a5acbec2edb56210380a9d5a0ddfca740164b63689c6220c170604f86d85ade568fb99e75714ffa0692f0a46ed4c199f8dba73c417da626eaae68130bf60b1b37753b86e4bd0d55c05ac3d2b53858d29c48bca324ab45dcb5cf16956a34a2de3345a7215c01e5cae32aa2f2aad6f734b37ce69a516dc3c6693415614fc0f50b41261ba31f93447d1a3f496c7ed3f60e7a39814ea0908ca40484085164b9272d0b5ea89aec81d4c583d700d22b006197cb6b13db17e9eb1d881f4818bade737901b436b,
        q=0x905f13c7141109d61fdeeef2d84ef7a0948be85686f3caee1a206e88c761b1b5,
        g=0x3bfd5b094fc4a9d0ec35b428b2f6ff8871e2ee603006345f0fa8a60d259f818f720f5b1166a39ebd93ac9cdfbff696f284e000ddb1f60316397f9cb71699218dfef2b7faf9cc354246eada8234c63d321772576d7ce768ab39f9de95e69d205b496076c11052eeb662ff94f938d1ee6866baffbd4de12050e56acbb2af86e36f04832b284788d50e2c62bdf13219defb493e13194b774c860feece0102dde447b69c5153c310534d5d13ee4dbf9574b7a65aaf62ccb20d308de7d9c825117a168b802ac73fa2fa79c0dd68ee40b889aafdc7f9ce86a2b8e1ae0df61ce1f46fb51420cd38ec1d0f1640a15ac07673f94d742049704d75dba318539ad2e027d110,
        x=0x139699635f89d5c22ce0eed51683442f16a927cdb0ab9c6fd03e3874b1f2e176),
    (3072, 256): dict(p=0xac8b261f4b3921794120d3a9a526470e0bbb9771033599f60f8cdd9022d3ed46c8a699223c0ccffc0ca771aaee4b292249b4ab32b88afc21854a75c6242675d9879224f0a89ecc502a034d891022c669b9840e82c754641ff34bfa3ad63dee6de70c80f0c1e7c7380d95493ab49853972c412885d927ef866b1dcc56ca6fedf294c9326dd4f5adabfce588a127a362dbf30a714c3721ca67fb763ca97d167ec2b388a461ba4b172c5fbe61ceda7facbf0b78d27b28472fd820013077d2b32894c10161a6970dd4646dfd91f8bae05a80bd321512c5230b4a8a535f59f923e45e3d517dec4f917c9cb89561009f1391207b309c4e3c7a316c11a83000d1e32b553b2cde95009dc004a2faed8b03fda769209e5b20ebd17ec17179b0fb3477cf95b6a046587da805c7ccdcce64a4e4c0af024f72a3327d489367ca85f9c5116c6ce1b4af630b17f83c97de72e5fee25546614879f1dd4600e4388c98400ff422cf091f5705cf7a5c61d70a65503fe49423d76a645347c2f8da0caf038d4b012c95,
        q=0xc4d6e99a1e5040eb0fef2e491b7b25de63288148e4be44fc095b5769dfc96717,
        g=0x9c9afca500bd658899b4f1be9fd628d4bfc1a29fb2549a811c6d6a0709836e3904f9dbec5cbf5782f5de78b82059ed8ed496e5889f564aee0643399a1f655441b9fe7f087b06e04972e250f94618548948831dec9e54961d7f4cb4aff556edd7d7801c1fb2e6029694b40b0af7fe1681da13e7143dc38b162fab6a0d6a32cbbde92a89a2a86cdc9a431d039f51f80e72c4ce8b6253262858a4b2c9a4377118f7a975f351d1eee73c6ffd7df14389b53a5737957a0cfa113d649f2ce63cd418e7f42155d7d2116a24bb44e0a91186da5f8b0f801787326a1014e4dbca4d42d8bd62e592b643b25e3356a16ca5b27bcfab99233de0d181ec3bee6c5547bd141280cd0a44863aa02ee43da71114a52f8fa9bda5b171ec8fbb9a8f4fc13709d1b8516da6fbf8847bbfc39b9831fbd5491460e840648380132e5c3daaf830704ef3ff5b9331f9853277da0ceb42837e547e9eb3106340ab31db9680bdc5eaebcf3867d0631539311547f956152fb0dd4e3eb377158472219c6edff4ef964d33f9483f,
        x=0x1d5941a30d285e96a4c984c779f50976deda4ba26b654908529b9bae3c8eacbe),
}
EC = {
    'P-256': (0x3ad8682d96fa55ab8f5c4df988ed5d255fd5a025b8f90ab4ad8fdd357b457029,
        0x5ef96c86bdb746d1db4c21a15e5340fd189972d3c19e59fafdb326966c2a830),
    'P-384': (0xe8a25083e9a4ce331ec21ff0d554cec6df222f076af5bcc3df7ea9633c92a7b7681eb604d38c21803ed320967e1007bc,
        0x1439766bbf6da8d57097d237b23efc4604694500a435463af255febcb1a2c3abb50066c385ed1a1a6bbe2441c066c934),
    'P-521': (0xc6cf7c0bd4f04bf5c82b768fbb6951cf3f2493bfe938af46455ed697e408c676e7ead173c895075cceccdd0f30b3cc482a1aa584d52c2dde8483e221bc054784da,
        0x10eaac05379aa931c4dd41490943039ad29d6680fc91183aa2aa039a758d6befe65f0745c76bc26709615445d2e34917a35b2e147669e81a114f2687f334639466),
}
ED = {
    'Ed25519': ('9d3f301ac2fa1556a9ec27d3adcd2b4fa4e4a48dd46819d05697bed0b9c21e29', 'e440b2c05d1f4e8007c9c95da6b270a3fe6f706b3a3266ee71380fcbfc2210d3'),
    'Ed448': ('676070d60745f87b7bbe666bb91b5cae45c63831b8d8102c71edc040af4bc7c69b9926c52d2d83a97fd7939dab686fdf6a01e9537d6bd1fa53', '8bc6e3b286b24f482bb058f95c713350857fd0f794b578a4123aa0b800b9a04c51fd33fcb7f6bbbc7ccacf94c956925ed095cc1877c0a4f2c1'),
}
X = {
    'X25519': ('95763d1e9e25dd5d2604f452a9245c7fff8e20610cc67b28911cb2caee314278', 'cb12085e8c56b7bf73e86ae63937eaf71a3fe95857152b2f55d8ef9a62881f40'),
    'X448': ('2b1992cbc52f8e7c7dbf771cc520d9bd4fefb026dd2016ba8fb93b012d50108b2e86082ef7dbe24d12da4bbf19545fe0f5245ac9dff019ad', '5503490c7976d3e72191190495373835f272dcef509ef00a4b89a5c82608e0a83e4bff93429c2bcaa1d410a03ee0229f661c24c76aa70946'),
}
DHX = {1024: (0xa957caa5cfba76318d1f1fafb6d5957294260ab8c953d36d1d4c5334f83dc47a9c53d42abec154ee141be53a52322fbbe5a381551176530d70f17ae2ff23f766ed0870831feafc20bddb23f9027a6842a3899463c413e6edc7ba1efc8c9e49319bc19562e3ca2d7b189a43dd5aaa4365265c01d93a145d752a912222e8,
        0x9dc61c082a6c0bd4f4a5bab2bceab809f077593506a7e98210d4cab86a4a5f570338688562908b1ad4f5a86514e236aac2e89b5b2c4655a6a7c42e4e024a507583fe084e6ba88e063a883f09ed1405683cd709270721bb0e3df430ab507ebc589ba06342a10687613a9e6b3682df991c5a43550228a0c1419ed14af130),
    2048: (0x9ce22ece572239734dfdcfed47ac262fc8b4083f687c5b45bb129011145de7334795c36ef7d1846e1ebcfbc4917bfefd31110cc40a3d56eee3de94512ac7362d9564c4caf00b3f5b5ec1e64f89fb05cc65701a4f05efa0af1c3e3b980dbeedd63cb5a849eea8ef18392139a5fc217a69eec26894d8f4ccaf06d180b85ece36241cc0a08db9bee2f3726cead4ad9cdaf902049c26c4acfc1e363904cf03b92c0497f8213ab41743b918a25fc84c13eac3b25ebbbc7ed9562d67037b1adb94e40260d1e511962bf32ee5f975a535363f89ae516fad6e2d8188615cc3b6bc06dab11000c1693f0cd42c00ccae7171619900da356cdc608518a15c16,
        0xaee407fe09c72e6fd3f9202e73d34ef256f75822d091300bc5c314d62089fe5ecded76beb4b93979bbeafc21e8bf41736b679c3981461aee8cd3800cde5c0e2d2ab5e26121074c3fd42d922cfd865fb5e6020ab56ccbd27fbfb8990d9dd9598af2c7c2674e75d1eb15b5d8cfe6b20b4a123ae42988b8f3716d4ae9934c6a17158593f6d745275af28091f99207b914c1408eedce3f4141400428f76d791ba89f1513b8c28d459c460913a78eb0a07848e33f2d76ab10940cd100b2d45ada2d3578ece007266c66e1c927e2e1ecf4308962824c5be9a177fb7ab0d43b3b92a893ff42c9f11a581c17138e71a6f1d1e81c02122d05972380d4d5f5)}

# Peers whose shared secret with the FIRST fixed key of each group/curve starts with one / two zero bytes (the boundary at which
# an implementation that strips or mis-aligns leading zeros goes wrong; 1 in 256 / 65536 random exchanges).  Found ONCE by the
# deterministic search of `python3 keys_fixed.py --search-leading-zero` (smallest k >= 2 with exactly that many leading zero bytes):
#   DH:   peer public value = g^k mod p          ECDH: peer point = k*G
#   X25519/X448: peer secret = SHAKE256(b'c13-leading-zero-<i>'); 'lead' = first byte of the (little-endian) output string is 0,
#                'trail' = last byte is 0 (the most significant byte of u)
LEADZ = {'dh': {'modp1024': {1: 96, 2: 32292}, 'modp2048': {1: 53, 2: 79111}, 'dsa1024': {1: 299, 2: 5953}},
         'ec': {'P-256': {1: 27, 2: 88197}, 'P-384': {1: 393, 2: 1590}, 'P-521': {1: 4, 2: 1071}},
         'x': {'X25519': {'lead': 44, 'trail': 77}, 'X448': {'lead': 387, 'trail': 254}}}

# Peers whose RAW public value looks like a DER OCTET STRING header (04 LL with LL = length - 2, or 04 81 LL with LL = length - 3): the token tells raw from
# DER-wrapped CKM_ECDH1_DERIVE public data by such a look, guarded by a list of known raw lengths; 1 peer in 256 (EC) / 65536 (X25519, X448) is of this kind.
#   EC: peer = k * G, smallest k found; X: peer secret = SHAKE256(b'c10-der-lookalike-<i>').  P-521 has no such point (first octet of X is 00 or 01).
DERLIKE = {'ec': {'P-256': {'der-short': 111, 'der-long': 55000}, 'P-384': {'der-short': 94, 'der-long': 65553}},
           'x': {'X25519': {'der-short': 26894}, 'X448': {'der-short': 56606}}}
import functools
@functools.lru_cache(None)
def leadz_peers():
    """-> {'dh': {group: {1: DHKey, 2: DHKey}}, 'ec': {curve: {1: ECKey, 2: ECKey}}, 'x': {curve: {'lead': XKey, 'trail': XKey}}} (peer keys)"""
    import hashlib, refcrypt as R; K = load(); out = {'dh': {}, 'ec': {}, 'x': {}}
    for g, d in LEADZ['dh'].items(): own = K['dh'][g][0]; out['dh'][g] = {n: R.DHKey(own.p, own.g, k) for n, k in d.items()}
    for c, d in LEADZ['ec'].items(): out['ec'][c] = {n: R.ECKey(R.CURVES[c], k) for n, k in d.items()}
    for c, d in LEADZ['x'].items(): own = K['x'][c][0]; out['x'][c] = {n: R.XKey(c, hashlib.shake_256(b'c13-leading-zero-%d' % i).digest(len(own.sk))) for n, i in d.items()}
    for c, d in DERLIKE['ec'].items():
        for n, k in d.items():
            pk = R.ECKey(R.CURVES[c], k); raw = pk.point(); assert raw[0] == 4 and (raw[1] == len(raw) - 2 if n == 'der-short' else (raw[1] == 0x81 and raw[2] == len(raw) - 3)); out['ec'][c][n] = pk
    for c, d in DERLIKE['x'].items():
        own = K['x'][c][0]
        for n, i in d.items(): pk = R.XKey(c, hashlib.shake_256(b'c10-der-lookalike-%d' % i).digest(len(own.sk))); assert pk.pk[0] == 4 and pk.pk[1] == len(pk.pk) - 2; out['x'][c][n] = pk
    return out
def search_leading_zero():
    """the search that produced LEADZ (Z_k = Z_(k-1) * y_own resp. P_k = P_(k-1) + Q_own: one multiplication / point addition per candidate)"""
    import hashlib, refcrypt as R; K = load(); out = {'dh': {}, 'ec': {}, 'x': {}}
    def cls(b): return 2 if b[:2] == b'\0\0' and b[2] else 1 if b[0] == 0 and b[1] else 0
    for g, (own, _) in K['dh'].items():
        Z = own.y; f = {}
        for k in range(2, 1 << 20):
            Z = Z * own.y % own.p; n = cls(Z.to_bytes(own.k, 'big'))
            if n and n not in f: f[n] = k
            if len(f) == 2: break
        out['dh'][g] = f
    for c, (own, _) in K['ec'].items():
        cv = own.c; P = own.Q; f = {}
        for k in range(2, 1 << 20):
            P = cv.mul(2, own.Q) if k == 2 else cv.add(P, own.Q); n = cls(P[0].to_bytes(cv.flen, 'big'))
            if n and n not in f: f[n] = k
            if len(f) == 2: break
        out['ec'][c] = f
    for c, (own, _) in K['x'].items():
        f = {}
        for i in range(1, 1 << 16):
            z = own.derive(R.XKey(c, hashlib.shake_256(b'c13-leading-zero-%d' % i).digest(len(own.sk))).pk)
            if z[0] == 0 and z[1] and 'lead' not in f: f['lead'] = i
            if z[-1] == 0 and z[-2] and 'trail' not in f: f['trail'] = i
            if len(f) == 2: break
        out['x'][c] = f
    return out
@functools.lru_cache(None)
def load():
    """-> dict of refcrypt key objects: rsa[bits], dsa[(L,N)], dh[name] = (own, peer), ec[curve] = (own, peer), ed[...], x[...]"""
    import refcrypt as R
    out = {'rsa': {b: R.RSAKey(v['n'], v['e'], v['d'], v['p'], v['q']) for b, v in RSA.items()},
           'dsa': {ln: R.DSAKey(v['p'], v['q'], v['g'], x=v['x']) for ln, v in DSA.items()},
           'ec': {c: (R.ECKey(R.CURVES[c], a), R.ECKey(R.CURVES[c], b)) for c, (a, b) in EC.items()},
           'ed': {c: (R.EdKey(R.EDCURVES[c], bytes.fromhex(a)), R.EdKey(R.EDCURVES[c], bytes.fromhex(b))) for c, (a, b) in ED.items()},
           'x': {c: (R.XKey(c, bytes.fromhex(a)), R.XKey(c, bytes.fromhex(b))) for c, (a, b) in X.items()}}
    p1 = R.modp_prime(1024, 129093); p2 = R.modp_prime(2048, 124476); d = DSA[(1024, 160)]
    out['dh'] = {'modp1024': (R.DHKey(p1, 2, DHX[1024][0]), R.DHKey(p1, 2, DHX[1024][1])),
                 'modp2048': (R.DHKey(p2, 2, DHX[2048][0]), R.DHKey(p2, 2, DHX[2048][1])),
                 # a group that is not a named safe-prime group: the DSA-style p with a generator of prime order q
                 'dsa1024': (R.DHKey(d['p'], d['g'], DHX[1024][0] % d['q']), R.DHKey(d['p'], d['g'], DHX[1024][1] % d['q']))}
    return out

# ---------------------------------------------------------------------------------------------------------
# Token-side helper shared by checks/c10.py and checks/c13.py: boots one executor with one initialised token,
# a key session (owns every imported object, never closed) and a work session (replaced after a failure so that
# a stuck operation of one case cannot leak into the next), and imports the driver-known keys with C_CreateObject.
def ib(v): return v.to_bytes(max(1, (v.bit_length() + 7) // 8), 'big')
class Tok:
    SO = b'so-pin-c10'; USER = b'user-pin-c10'
    def __init__(s, x, ck):
        s.x = x; s.ck = ck; s.cache = {}
        r = x.call('C_Initialize'); assert r['rv'] == 0, r
        free = x.call('C_GetSlotList', count=16)['slots'][-1]
        r = x.call('C_InitToken', slot=free, pin=s.SO.hex(), label=b'crypto'.hex()); assert r['rv'] == 0, r
        s.slot = free
        h = x.call('C_OpenSession', slot=s.slot)['h']
        assert x.call('C_Login', s=h, user=0, pin=s.SO.hex())['rv'] == 0; assert x.call('C_InitPIN', s=h, pin=s.USER.hex())['rv'] == 0
        x.call('C_Logout', s=h); assert x.call('C_Login', s=h, user=1, pin=s.USER.hex())['rv'] == 0
        s.ks = h; s.ws = x.call('C_OpenSession', slot=s.slot)['h']
        r = x.call('C_GetMechanismList', slot=s.slot, count=512); assert r['rv'] == 0, r
        s.mechs = {ck.MECH.get(m, hex(m)) for m in r['mechs']}
    def fresh_ws(s):
        s.x.call('C_CloseSession', s=s.ws); s.ws = s.x.call('C_OpenSession', slot=s.slot)['h']; return s.ws
    def create(s, attrs, token=False, private=True):
        t = dict(attrs); t.setdefault('CKA_TOKEN', token); t.setdefault('CKA_PRIVATE', private)
        r = s.x.call('C_CreateObject', s=s.ks, tmpl=s.x.T(t))
        if r['rv'] != 0: raise KeyImportError('%s for %s' % (r['rvname'], sorted(k for k in t)))
        return r['h']
    def destroy(s, h): s.x.call('C_DestroyObject', s=s.ks, o=h)
    # ---- secret keys
    KT = {'aes': 'CKK_AES', 'des2': 'CKK_DES2', 'des3': 'CKK_DES3', 'generic': 'CKK_GENERIC_SECRET'}
    def secret(s, kind, value, **flags):
        a = {'CKA_CLASS': s.ck.CKO_SECRET_KEY, 'CKA_KEY_TYPE': s.ck[s.KT[kind]], 'CKA_VALUE': bytes(value), 'CKA_SENSITIVE': False, 'CKA_EXTRACTABLE': True}
        for f in ('ENCRYPT', 'DECRYPT', 'SIGN', 'VERIFY', 'WRAP', 'UNWRAP', 'DERIVE'): a['CKA_' + f] = True
        a.update(flags); return s.create(a)
    # ---- asymmetric keys (cached per refcrypt key object)
    def _c(s, key, mk):
        if key not in s.cache: s.cache[key] = mk()
        return s.cache[key]
    def rsa_priv(s, k, lead0=False, **flags):
        """lead0: every big-integer component carries a leading 00 octet (DER INTEGER contents copied verbatim) - must behave exactly like the canonical import"""
        z = (lambda v: b'\0' + ib(v)) if lead0 else ib
        a = {'CKA_CLASS': s.ck.CKO_PRIVATE_KEY, 'CKA_KEY_TYPE': s.ck.CKK_RSA, 'CKA_SIGN': True, 'CKA_DECRYPT': True, 'CKA_UNWRAP': True, 'CKA_SENSITIVE': False, 'CKA_EXTRACTABLE': True,
             'CKA_MODULUS': z(k.n), 'CKA_PUBLIC_EXPONENT': z(k.e), 'CKA_PRIVATE_EXPONENT': z(k.d), 'CKA_PRIME_1': z(k.p), 'CKA_PRIME_2': z(k.q),
             'CKA_EXPONENT_1': z(k.dp), 'CKA_EXPONENT_2': z(k.dq), 'CKA_COEFFICIENT': z(k.qinv)}
        a.update(flags); return s._c(('rsa-priv', k.n, lead0, tuple(sorted(flags.items(), key=str))), lambda: s.create(a))
    def rsa_pub(s, k, lead0=False, **flags):
        z = (lambda v: b'\0' + ib(v)) if lead0 else ib
        a = {'CKA_CLASS': s.ck.CKO_PUBLIC_KEY, 'CKA_KEY_TYPE': s.ck.CKK_RSA, 'CKA_VERIFY': True, 'CKA_ENCRYPT': True, 'CKA_WRAP': True, 'CKA_MODULUS': z(k.n), 'CKA_PUBLIC_EXPONENT': z(k.e)}
        a.update(flags); return s._c(('rsa-pub', k.n, lead0, tuple(sorted(flags.items(), key=str))), lambda: s.create(a, private=False))
    def dsa_priv(s, k):
        return s._c(('dsa-priv', k.p, k.x), lambda: s.create({'CKA_CLASS': s.ck.CKO_PRIVATE_KEY, 'CKA_KEY_TYPE': s.ck.CKK_DSA, 'CKA_SIGN': True, 'CKA_SENSITIVE': False, 'CKA_EXTRACTABLE': True,
                                                               'CKA_PRIME': ib(k.p), 'CKA_SUBPRIME': ib(k.q), 'CKA_BASE': ib(k.g), 'CKA_VALUE': ib(k.x)}))
    def dsa_pub(s, k):
        return s._c(('dsa-pub', k.p, k.y), lambda: s.create({'CKA_CLASS': s.ck.CKO_PUBLIC_KEY, 'CKA_KEY_TYPE': s.ck.CKK_DSA, 'CKA_VERIFY': True,
                                                              'CKA_PRIME': ib(k.p), 'CKA_SUBPRIME': ib(k.q), 'CKA_BASE': ib(k.g), 'CKA_VALUE': ib(k.y)}, private=False))
    def dh_priv(s, k):
        return s._c(('dh-priv', k.p, k.x), lambda: s.create({'CKA_CLASS': s.ck.CKO_PRIVATE_KEY, 'CKA_KEY_TYPE': s.ck.CKK_DH, 'CKA_DERIVE': True, 'CKA_SENSITIVE': False, 'CKA_EXTRACTABLE': True,
                                                              'CKA_PRIME': ib(k.p), 'CKA_BASE': ib(k.g), 'CKA_VALUE': ib(k.x)}))
    def ec_priv(s, k):
        import refcrypt as R
        return s._c(('ec-priv', k.c.name, k.d), lambda: s.create({'CKA_CLASS': s.ck.CKO_PRIVATE_KEY, 'CKA_KEY_TYPE': s.ck.CKK_EC, 'CKA_SIGN': True, 'CKA_DERIVE': True, 'CKA_SENSITIVE': False, 'CKA_EXTRACTABLE': True,
                                                                   'CKA_EC_PARAMS': k.c.params, 'CKA_VALUE': ib(k.d)}))
    def ec_pub(s, k):
        import refcrypt as R
        return s._c(('ec-pub', k.c.name, k.Q), lambda: s.create({'CKA_CLASS': s.ck.CKO_PUBLIC_KEY, 'CKA_KEY_TYPE': s.ck.CKK_EC, 'CKA_VERIFY': True,
                                                                  'CKA_EC_PARAMS': k.c.params, 'CKA_EC_POINT': R.der_octets(k.point())}, private=False))
    def ed_priv(s, k, oid=False):
        import refcrypt as R; params = R.der_oid(k.c.oid) if oid else R.der_printable(k.c.pname)
        return s._c(('ed-priv', k.c.name, k.sk, oid), lambda: s.create({'CKA_CLASS': s.ck.CKO_PRIVATE_KEY, 'CKA_KEY_TYPE': s.ck.CKK_EC_EDWARDS, 'CKA_SIGN': True, 'CKA_SENSITIVE': False, 'CKA_EXTRACTABLE': True,
                                                                         'CKA_EC_PARAMS': params, 'CKA_VALUE': k.sk}))
    def ed_pub(s, k, oid=False):
        import refcrypt as R; params = R.der_oid(k.c.oid) if oid else R.der_printable(k.c.pname)
        return s._c(('ed-pub', k.c.name, k.pk, oid), lambda: s.create({'CKA_CLASS': s.ck.CKO_PUBLIC_KEY, 'CKA_KEY_TYPE': s.ck.CKK_EC_EDWARDS, 'CKA_VERIFY': True,
                                                                        'CKA_EC_PARAMS': params, 'CKA_EC_POINT': R.der_octets(k.pk)}, private=False))
    def x_priv(s, k, oid=False):
        import refcrypt as R; params = R.der_oid(R.XOID[k.kind]) if oid else R.der_printable(R.XNAME[k.kind])
        return s._c(('x-priv', k.kind, k.sk, oid), lambda: s.create({'CKA_CLASS': s.ck.CKO_PRIVATE_KEY, 'CKA_KEY_TYPE': s.ck.CKK_EC_EDWARDS, 'CKA_DERIVE': True, 'CKA_SENSITIVE': False, 'CKA_EXTRACTABLE': True,
                                                                       'CKA_EC_PARAMS': params, 'CKA_VALUE': k.sk}))
    def value(s, h, attr='CKA_VALUE'):
        rv, a = s.x.getattrs(s.ks, h, [attr], cap=8192); return a.get(attr) if rv == 'CKR_OK' else None
    def handles(s):
        rv, hs = s.x.findall(s.ks, ()); return set(hs)
class KeyImportError(Exception): pass

def boot_tok(paths, ck, cfg, d, backend='file'):
    """one executor + one token in directory d (created); returns Tok"""
    import os, shutil
    from p11client import Exec, mkconf
    from harness import SAN_ENV
    shutil.rmtree(d, ignore_errors=True); os.makedirs(d); conf = mkconf(d, backend); p = paths[cfg]
    x = Exec(p['exe'], p['lib'], conf, ck, env=dict(SAN_ENV), stderr=f'{d}/stderr.log', trace=None)
    return Tok(x, ck)

if __name__ == '__main__':
    import sys, os; sys.path.insert(0, os.path.dirname(os.path.abspath(__file__)))
    import refcrypt as R
    for b, v in RSA.items():
        assert R.is_prime(v['p']) and R.is_prime(v['q']) and v['p'] * v['q'] == v['n'] and v['n'].bit_length() == b and v['e'] * v['d'] % ((v['p'] - 1) * (v['q'] - 1)) == 1, b
    for (L, N), v in DSA.items():
        assert R.is_prime(v['p']) and R.is_prime(v['q']) and v['p'].bit_length() == L and v['q'].bit_length() == N and (v['p'] - 1) % v['q'] == 0 and pow(v['g'], v['q'], v['p']) == 1 and 1 < v['g'] and 0 < v['x'] < v['q'], (L, N)
    k = load()
    for name, (a, b) in k['dh'].items(): assert R.is_prime(a.p) and a.derive(b.y) == b.derive(a.y), name
    for name, (a, b) in k['ec'].items(): assert a.ecdh(b.Q) == b.ecdh(a.Q), name
    if '--search-leading-zero' in sys.argv: print(search_leading_zero()); sys.exit(0)
    L = leadz_peers()
    for g, d in L['dh'].items():
        own = k['dh'][g][0]
        for n, peer in d.items(): z = own.derive(peer.y); assert z[:n] == bytes(n) and z[n] != 0 and peer.derive(own.y) == z, ('dh', g, n)
    for c, d in L['ec'].items():
        own = k['ec'][c][0]
        for n, peer in d.items(): z = own.ecdh(peer.Q); assert z[:n] == bytes(n) and z[n] != 0 and peer.ecdh(own.Q) == z, ('ec', c, n)
    for c, d in L['x'].items():
        own = k['x'][c][0]; z = own.derive(d['lead'].pk); assert z[0] == 0 and z[1] != 0, ('x', c, 'lead'); z = own.derive(d['trail'].pk); assert z[-1] == 0 and z[-2] != 0, ('x', c, 'trail')
    print('keys_fixed: all stored numbers consistent (incl. %d leading-zero shared-secret peers)' % sum(len(d) for t in L.values() for d in t.values()))
