"""Shared plumbing of every check: builds, scratch dirs, executors, verdicts, known findings,
evidence.  A check is `def run(ctx)`; it calls ctx.case()/ctx.violation()/ctx.observe() and returns."""
import concurrent.futures, hashlib, json, multiprocessing, os, random, shutil, subprocess, sys, time, traceback
HERE = os.path.dirname(os.path.abspath(__file__)); VERIF = os.path.dirname(HERE)
sys.path.insert(0, HERE)
from ck import CK
from p11client import Exec, Died, Hang, mkconf

LEVELS = {'exploration', 'fault_enumeration', 'model_checking', 'proof', 'translation_validation', 'other'}
SCRATCH_ROOT = '/dev/shm' if os.path.isdir('/dev/shm') and os.access('/dev/shm', os.W_OK) else os.environ.get('TMPDIR', '/var/tmp')

class Inconclusive(Exception): pass

def build(cfgs):
    """Build (or reuse) the given configs from /repo's current working tree; returns {cfg: paths}."""
    r = subprocess.run([sys.executable, f'{VERIF}/tools/build.py'] + list(cfgs), stdout=subprocess.PIPE, stderr=subprocess.PIPE, text=True)
    if r.returncode != 0: raise Inconclusive('build failed: ' + (r.stderr or r.stdout)[-3000:])
    out = {}
    for l in r.stdout.splitlines():
        if l.startswith('{'): d = json.loads(l); out[d['config']] = d
    return out

SAN_ENV = {
    'ASAN_OPTIONS': 'detect_leaks=0:abort_on_error=1:handle_abort=1:allocator_may_return_null=1:max_allocation_size_mb=4096:detect_stack_use_after_return=0',
    'UBSAN_OPTIONS': 'print_stacktrace=1:halt_on_error=0',
    'TSAN_OPTIONS': 'halt_on_error=0:report_signal_unsafe=0:history_size=4',
}

class KnownFindings:
    def __init__(s, path=f'{VERIF}/known_findings.json'):
        try: s.entries = json.load(open(path))['findings']
        except FileNotFoundError: s.entries = []
    def match(s, prop, key):
        for e in s.entries:
            if e.get('property') == prop and e.get('status', 'open') == 'open' and e.get('key') == key: return e
        return None

def stable_hash(x): return hashlib.sha256(json.dumps(x, sort_keys=True, default=str).encode()).hexdigest()[:16]

class Ctx:
    def __init__(s, prop, tier, seed, level='exploration'):
        s.prop = prop; s.tier = tier; s.seed = seed; s.level = level; s.t0 = time.time()
        s.rnd = random.Random(seed); s.kf = KnownFindings()
        s.evaluations = 0; s.distinct = set(); s.samples = []; s.rule = ''; s.extra = {}; s.assumptions = []
        s.viol = {}      # key -> (what, replay path)   (unlisted violations)
        s.known = {}     # key -> what                  (listed known findings, seen in this run)
        s.obs = {}       # name -> count / list
        s.inconclusive = []; s.paths = {}; s._ck = None
        s.scratch = os.path.join(SCRATCH_ROOT, f'verif-{prop}-{os.getpid()}'); shutil.rmtree(s.scratch, ignore_errors=True); os.makedirs(s.scratch)
        s.nproc = int(os.environ.get('VERIF_JOBS', '0')) or min(16, os.cpu_count() or 4)
    @property
    def quick(s): return s.tier == 'quick'
    def q(s, quick, thorough): return quick if s.tier == 'quick' else thorough
    # ---- builds / executors
    def need(s, *cfgs):
        missing = [c for c in cfgs if c not in s.paths]
        if missing: s.paths.update(build(missing))
        return s.paths
    @property
    def ck(s):
        if s._ck is None:
            hdr = next(iter(s.paths.values()))['hdr'] if s.paths else '/repo/src/lib/pkcs11/pkcs11.h'
            s._ck = CK(hdr)
        return s._ck
    def dir(s, name):
        d = os.path.join(s.scratch, name); shutil.rmtree(d, ignore_errors=True); os.makedirs(d); return d
    def new_exec(s, cfg, d, backend='file', extra='', env=None, trace=True, reuse_dir=False):
        s.need(cfg); p = s.paths[cfg]
        if not reuse_dir or not os.path.exists(os.path.join(d, 'softhsm2.conf')): conf = mkconf(d, backend, extra)
        else: conf = os.path.join(d, 'softhsm2.conf')
        e = dict(SAN_ENV); e.update(env or {})
        n = len([f for f in os.listdir(d) if f.startswith('stderr')])
        return Exec(p['exe'], p['lib'], conf, s.ck, env=e, stderr=f'{d}/stderr{n}.log', trace=(f'{d}/trace{n}.jsonl' if trace else None))
    # ---- accounting
    def case(s, key=None, nontrivial=True, sample=None, n=1):
        s.evaluations += n
        if key is not None and nontrivial: s.distinct.add(key if isinstance(key, (str, int, tuple)) else stable_hash(key))
        if sample is not None and len(s.samples) < 12: s.samples.append(sample)
    def observe(s, name, item=None, cap=20):
        o = s.obs.setdefault(name, {'count': 0, 'examples': []}); o['count'] += 1
        if item is not None and len(o['examples']) < cap and item not in o['examples']: o['examples'].append(item)
    def merge(s, part):
        """Merge the picklable result of a worker (see Part)."""
        s.evaluations += part.evaluations; s.distinct |= part.distinct
        for x in part.samples:
            if len(s.samples) < 12: s.samples.append(x)
        for k, (what, wit) in part.viol.items(): s.violation(k, what, wit)
        for name, o in part.obs.items():
            t = s.obs.setdefault(name, {'count': 0, 'examples': []}); t['count'] += o['count']
            for e in o['examples']:
                if len(t['examples']) < 20 and e not in t['examples']: t['examples'].append(e)
        s.inconclusive += part.inconclusive
        for k, v in part.counters.items(): s.extra[k] = s.extra.get(k, 0) + v
    def violation(s, key, what, witness=None):
        """key: canonical '<entry point>|<input class>|<outcome>' (the property id is prefixed here)."""
        full = f'{s.prop}|{key}'
        e = s.kf.match(s.prop, full)
        if e is not None:
            s.known.setdefault(full, e.get('what', what)); return False
        if full in s.viol: return True
        rdir = os.environ.get('VERIF_REPLAY_DIR', f'{VERIF}/replays'); os.makedirs(f'{rdir}/{s.prop}', exist_ok=True)
        path = f'{rdir}/{s.prop}/{stable_hash(full)}.json'
        json.dump({'property': s.prop, 'key': full, 'what': what, 'seed': s.seed, 'tier': s.tier, 'witness': witness}, open(path, 'w'), indent=1, default=str)
        s.viol[full] = (what, path); return True
    def inconc(s, why):
        w = str(why); s.inconclusive.append(w if len(w) <= 600 else w[:150] + ' ... ' + w[-450:])
    # ---- finish
    def finish(s, min_evaluations=1, min_distinct=2, max_inconclusive_frac=0.05):
        wall = round(time.time() - s.t0, 2)
        cov = {'evaluations': s.evaluations, 'distinct_nontrivial': len(s.distinct), 'rule': s.rule, 'samples': s.samples[:12]}
        cov.update(s.extra)
        ds = sorted(map(str, s.distinct)); step = max(1, len(ds) // 40); cov['distinct_examples'] = ds[::step][:40]
        cov['observations'] = s.obs
        cov['known_findings_seen'] = sorted(s.known)
        cov['inconclusive_cases'] = len(s.inconclusive)
        if s.inconclusive: cov['inconclusive_examples'] = s.inconclusive[:5]
        ev = {'property_id': s.prop, 'tier': s.tier, 'seed': s.seed, 'level': s.level, 'coverage': cov,
              'assumptions': s.assumptions, 'wall_s': wall, 'violations': len(s.viol)}
        edir = os.environ.get('VERIF_EVIDENCE_DIR', f'{VERIF}/evidence'); os.makedirs(edir, exist_ok=True)   # overridden only by tools/seedtest.py (runs against mutated scratch copies)
        tmp = f'{edir}/{s.prop}.json.tmp'
        json.dump(ev, open(tmp, 'w'), indent=1, default=str); os.replace(tmp, f'{edir}/{s.prop}.json')
        shutil.rmtree(s.scratch, ignore_errors=True)
        for k, what in sorted(s.known.items()): print(f'KNOWN-FINDING: property={s.prop} {k} :: {what}')
        for k, (what, path) in sorted(s.viol.items()):
            print(f'VIOLATION property={s.prop} replay={path}'); print(f'  key={k}\n  what={what}')
        print(f'[{s.prop}] tier={s.tier} seed={s.seed} evaluations={s.evaluations} distinct_nontrivial={len(s.distinct)} '
              f'violations={len(s.viol)} known={len(s.known)} inconclusive={len(s.inconclusive)} wall={wall}s')
        if s.viol: return 1
        if s.evaluations < min_evaluations or len(s.distinct) < min_distinct:
            print(f'[{s.prop}] INCONCLUSIVE: observed too little (floor: {min_evaluations} evaluations, {min_distinct} distinct)'); return 2
        if len(s.inconclusive) > max(3, max_inconclusive_frac * max(1, s.evaluations)):
            print(f'[{s.prop}] INCONCLUSIVE: {len(s.inconclusive)} inconclusive cases, e.g. {s.inconclusive[:2]}'); return 2
        return 0

class Part:
    """Picklable accumulator used by worker processes; merged into the Ctx by the parent."""
    def __init__(s): s.evaluations = 0; s.distinct = set(); s.samples = []; s.viol = {}; s.obs = {}; s.inconclusive = []; s.counters = {}
    def case(s, key=None, nontrivial=True, sample=None, n=1):
        s.evaluations += n
        if key is not None and nontrivial: s.distinct.add(key if isinstance(key, (str, int, tuple)) else stable_hash(key))
        if sample is not None and len(s.samples) < 3: s.samples.append(sample)
    def violation(s, key, what, witness=None):
        if key not in s.viol: s.viol[key] = (what, witness)
    def observe(s, name, item=None, cap=10):
        o = s.obs.setdefault(name, {'count': 0, 'examples': []}); o['count'] += 1
        if item is not None and len(o['examples']) < cap and item not in o['examples']: o['examples'].append(item)
    def inconc(s, why):
        w = str(why); s.inconclusive.append(w if len(w) <= 600 else w[:150] + ' ... ' + w[-450:])
    def count(s, k, n=1): s.counters[k] = s.counters.get(k, 0) + n

def pmap(fn, items, nproc):
    """Run fn(item) -> Part in forked worker processes; yields Parts as they complete.  A worker
    exception becomes an inconclusive Part (never a verdict)."""
    items = list(items)
    if nproc <= 1 or len(items) <= 1:
        for it in items: yield _guard(fn, it)
        return
    ctx = multiprocessing.get_context('fork')
    with concurrent.futures.ProcessPoolExecutor(max_workers=min(nproc, len(items)), mp_context=ctx) as ex:
        futs = [ex.submit(_guard, fn, it) for it in items]
        for f in concurrent.futures.as_completed(futs):
            try: yield f.result()
            except Exception as e:
                p = Part(); p.inconc('worker lost: %r' % (e,)); yield p

def _guard(fn, it):
    try: return fn(it)
    except Exception as e:
        p = Part(); p.inconc('worker exception: ' + ''.join(traceback.format_exception(type(e), e, e.__traceback__))[-1500:]); return p

def main(prop, run, level='exploration', **floors):
    import argparse
    ap = argparse.ArgumentParser(); ap.add_argument('--tier', default=os.environ.get('VERIF_TIER', 'quick')); ap.add_argument('--replay'); ap.add_argument('--seed', type=int, default=int(os.environ.get('VERIF_SEED', '1')))
    a = ap.parse_args()
    want_key = None
    if a.replay:
        # generic replay: show the witness, then re-run the check with the recorded tier and seed (evidence of this run goes to a scratch
        # directory); exit 1 if the recorded key is reproduced.  Deterministic workloads reproduce exactly; thread schedules are re-sampled.
        try: rec = json.load(open(a.replay))
        except Exception as e: print(f'[{prop}] cannot read replay file: {e}'); sys.exit(2)
        print(f"[{prop}] replay of {rec.get('key')}\n  what: {rec.get('what')}\n  recorded with tier={rec.get('tier')} seed={rec.get('seed')}")
        print('  witness: ' + json.dumps(rec.get('witness'), default=str)[:3000])
        a.tier = rec.get('tier') or a.tier; a.seed = rec.get('seed') if isinstance(rec.get('seed'), int) else a.seed; want_key = rec.get('key')
        os.environ.setdefault('VERIF_EVIDENCE_DIR', os.path.join(SCRATCH_ROOT, f'verif-replay-evidence-{os.getpid()}'))
    ctx = Ctx(prop, a.tier, a.seed, level); ctx.replay = a.replay
    try: run(ctx)
    except Inconclusive as e:
        print(f'[{prop}] INCONCLUSIVE (harness): {e}'); shutil.rmtree(ctx.scratch, ignore_errors=True); sys.exit(2)
    except Exception:
        traceback.print_exc(); print(f'[{prop}] INCONCLUSIVE (harness exception)'); shutil.rmtree(ctx.scratch, ignore_errors=True); sys.exit(2)
    if want_key is not None:
        seen = want_key in ctx.viol or want_key in ctx.known
        rc = ctx.finish(**floors); shutil.rmtree(os.environ.get('VERIF_EVIDENCE_DIR', '/nonexistent'), ignore_errors=True)
        print(f'[{prop}] replay: recorded key ' + ('REPRODUCED' if seen else 'not reproduced in this re-run')); sys.exit(1 if seen else (rc if rc == 2 else 0))
    sys.exit(ctx.finish(**floors))
