"""Shared helpers of C05 / C06 / tools/mkfixtures.py: snapshots of a token through the API (every attribute of every
object), snapshots of the same token directory through the independent decoders (objfile / dbfile / tokenkey), and
their comparison.  API values are kept in the API's own byte representation (CK_BBOOL 1 byte, CK_ULONG 8 bytes
little-endian, mechanism arrays of CK_ULONG, nested templates {type: bytes}), so a comparison is byte-exact."""
import hashlib, os, stat, struct
import objfile, dbfile, tokenkey

TEMPLATE_ATTRS = ('CKA_WRAP_TEMPLATE', 'CKA_UNWRAP_TEMPLATE', 'CKA_DERIVE_TEMPLATE')
SKIP_ATTRS = {'CKA_VENDOR_DEFINED'}
# DBObject.cpp decides the table to READ from by a fixed per-type table that lacks these two attribute types, so the db
# back-end writes them (rows accumulate) but can never read them back: after a restart the API answers with the default.
DB_UNREADABLE = ('CKA_DESTROYABLE', 'CKA_PUBLIC_KEY_INFO')
UNAVAILABLE = 'unavailable'      # marker value: the API refuses to reveal the attribute (sensitive / unextractable)

def attr_universe(ck):
    """every attribute type of pkcs11.h, by one canonical name per number: [(name, number)]"""
    return sorted(((n, v) for v, n in ck.ATTR.items() if n not in SKIP_ATTRS), key=lambda p: p[1])

class ApiError(Exception): pass

def read_object(x, s, o, ck, universe=None):
    """-> {name: bytes | {'tmpl': {type number: bytes}} | UNAVAILABLE} for every attribute the object has.
    Raises ApiError when the object cannot be read consistently (which a caller reports as a finding)."""
    universe = universe or attr_universe(ck)
    plain = [(n, v) for n, v in universe if n not in TEMPLATE_ATTRS]
    r = x.call('C_GetAttributeValue', s=s, o=o, tmpl=[{'t': v, 'buf': None} for n, v in plain])
    if 'tmpl' not in r: raise ApiError('length query failed: %s' % r.get('rvname'))
    if r['rvname'] in ('CKR_OBJECT_HANDLE_INVALID', 'CKR_SESSION_HANDLE_INVALID', 'CKR_GENERAL_ERROR', 'CKR_USER_NOT_LOGGED_IN', 'CKR_CRYPTOKI_NOT_INITIALIZED'):
        raise ApiError('length query: %s' % r['rvname'])
    have = [(n, v, e['len']) for (n, v), e in zip(plain, r['tmpl']) if e['len'] != -1]
    missing = [(n, v) for (n, v), e in zip(plain, r['tmpl']) if e['len'] == -1]
    out = {}
    if have:
        r2 = x.call('C_GetAttributeValue', s=s, o=o, tmpl=[{'t': v, 'buf': l} for n, v, l in have])
        if r2['rv'] != 0: raise ApiError('value read failed: %s' % r2['rvname'])
        for (n, v, l), e in zip(have, r2['tmpl']):
            if e['len'] != l: raise ApiError('%s: length changed between query (%d) and read (%s)' % (n, l, e['len']))
            out[n] = bytes.fromhex(e['data'])
    # which of the missing ones exist but may not be revealed?
    for n, v in missing:
        if n in ('CKA_VALUE', 'CKA_PRIVATE_EXPONENT', 'CKA_PRIME_1', 'CKA_PRIME_2', 'CKA_EXPONENT_1', 'CKA_EXPONENT_2', 'CKA_COEFFICIENT'):
            r3 = x.call('C_GetAttributeValue', s=s, o=o, tmpl=[{'t': v, 'buf': None}])
            if r3['rvname'] == 'CKR_ATTRIBUTE_SENSITIVE': out[n] = UNAVAILABLE
            elif r3['rvname'] != 'CKR_ATTRIBUTE_TYPE_INVALID': raise ApiError('%s: %s' % (n, r3['rvname']))
    for n in TEMPLATE_ATTRS:
        r4 = x.call('X_GetTemplateAttr', s=s, o=o, t=ck[n])
        if r4['rvname'] == 'CKR_ATTRIBUTE_TYPE_INVALID': continue
        if r4['rv'] != 0: raise ApiError('%s: %s' % (n, r4['rvname']))
        out[n] = {'tmpl': {e['t']: bytes.fromhex(e['data']) for e in r4['attrs']}}
        if len(out[n]['tmpl']) != r4.get('n', 0): raise ApiError('%s: %d entries announced, %d distinct returned' % (n, r4.get('n', 0), len(out[n]['tmpl'])))
    return out

def read_token(x, s, ck, universe=None):
    """every object visible to session s: -> [attrs dict]   (raises ApiError)"""
    rv, hs = x.findall(s)
    if rv != 'CKR_OK': raise ApiError('C_FindObjectsInit: ' + rv)
    return [read_object(x, s, h, ck, universe) for h in hs]

# ---------------------------------------------------------------- JSON form (expect.json)
BIG = 1024
def to_json(attrs, ck):
    out = {}
    for n, v in sorted(attrs.items()):
        if v == UNAVAILABLE: out[n] = {'unavailable': True}
        elif isinstance(v, dict): out[n] = {'tmpl': {ck.ATTR.get(t, '0x%x' % t): b.hex() for t, b in sorted(v['tmpl'].items())}}
        elif len(v) > BIG: out[n] = {'len': len(v), 'sha256': hashlib.sha256(v).hexdigest()}
        else: out[n] = v.hex()
    return out
def json_matches(exp, v, ck):
    """does API value v equal the recorded JSON form?"""
    if isinstance(exp, str): return isinstance(v, bytes) and v.hex() == exp
    if 'unavailable' in exp: return v == UNAVAILABLE
    if 'tmpl' in exp: return isinstance(v, dict) and {ck.ATTR.get(t, '0x%x' % t): b.hex() for t, b in v['tmpl'].items()} == exp['tmpl']
    return isinstance(v, bytes) and len(v) == exp['len'] and hashlib.sha256(v).hexdigest() == exp['sha256']

# ---------------------------------------------------------------- the directory through the independent decoders
def api_form(v):
    """decoder value (bool / int / bytes / list / dict) -> the API's byte representation"""
    if isinstance(v, bool): return b'\x01' if v else b'\x00'
    if isinstance(v, int): return struct.pack('<Q', v)
    if isinstance(v, (bytes, bytearray)): return bytes(v)
    if isinstance(v, list): return b''.join(struct.pack('<Q', m) for m in v)
    if isinstance(v, dict): return {'tmpl': {t: api_form(e) for t, e in v.items()}}
    raise TypeError(v)

class DiskObject:
    """.raw {type number: decoder value}, .where (file name / db object id), .private (stored CKA_PRIVATE), .blobs {type: stored bytes}"""
    def __init__(s, raw, where): s.raw = raw; s.where = where; s.private = raw.get(0x2) is True; s.blobs = {t: v for t, v in raw.items() if isinstance(v, (bytes, bytearray))}
    def api_view(s, master, ck):
        """-> ({name: API-form value}, [problems]); byte strings of private objects are decrypted with the master key"""
        out = {}; probs = []
        for t, v in s.raw.items():
            n = ck.ATTR.get(t, '0x%x' % t)
            if isinstance(v, (bytes, bytearray)) and s.private and len(v):
                if master is None: out[n] = None; continue
                p = tokenkey.decrypt_attr(master, bytes(v))
                if p is None: probs.append('%s of private object %s does not decrypt under the master key (%d bytes stored)' % (n, s.where, len(v)))
                out[n] = p
            else: out[n] = api_form(v)
        return out, probs

class DiskToken:
    """one token of a store, decoded without the library: .info (objfile.TokenInfo), .objects [DiskObject], .problems [text], .dir"""
    def __init__(s): s.info = None; s.objects = []; s.problems = []; s.dir = None; s.backend = None; s.dups = {}      # dups (db only): {(object id, type): number of rows}
    def master_key(s, pin, so=False):
        b = s.info and (s.info.so_blob if so else s.info.user_blob)
        return tokenkey.unwrap_master_key(b, pin) if b else None
    def stored_ivs(s):
        """every IV stored in this token: PIN blobs (bytes 8..24) and encrypted attributes of private objects (first 16 bytes)"""
        ivs = []
        for b in (s.info.so_blob, s.info.user_blob) if s.info else ():
            if b and len(b) >= 24: ivs.append(('pin-blob', bytes(b[8:24])))
        for o in s.objects:
            if not o.private: continue
            for t, v in o.blobs.items():
                if len(v) >= 32: ivs.append((t, bytes(v[:16])))
        return ivs

def read_disk(tokendir, backend, scratch=None):
    """-> [DiskToken] for directories.tokendir"""
    out = []
    if backend == 'file':
        for td in objfile.read_store(tokendir):
            t = DiskToken(); t.dir = td.path; t.backend = 'file'; t.info = td.info
            if td.token is None or td.token.status != 'valid': t.problems.append('token.object is %s' % (td.token and td.token.status))
            elif td.token.warnings: t.problems += ['token.object: ' + w for w in td.token.warnings]
            for name, p in sorted(td.objects.items()):
                if p.status != 'valid': t.problems.append('%s is %s (%s)' % (name, p.status, p.error)); continue
                t.problems += ['%s: %s' % (name, w) for w in p.warnings]
                t.objects.append(DiskObject(p.attrs, name))
            out.append(t)
    else:
        for d, db in dbfile.read_store(tokendir, scratch):
            t = DiskToken(); t.dir = d; t.backend = 'db'; t.info = db.info; t.problems += db.problems; t.dups = dict(db.dups)
            for oid, attrs in sorted(db.objects.items()): t.objects.append(DiskObject(attrs, 'object %d' % oid))
            out.append(t)
    return out

def all_files(root):
    """every path below root (directories too) with lstat: [(path, stat_result)]"""
    out = []
    for dp, dn, fn in os.walk(root):
        for n in dn + fn:
            p = os.path.join(dp, n)
            try: out.append((p, os.lstat(p)))
            except FileNotFoundError: pass
    return out

def identity(attrs):
    """a key that identifies an object across API and disk views: class + label + id (drivers make labels unique)"""
    return (attrs.get('CKA_CLASS'), attrs.get('CKA_LABEL'), attrs.get('CKA_ID') if 'CKA_ID' in attrs else attrs.get('CKA_OBJECT_ID'))

def diff_attrs(want, got, ignore=()):
    """-> [(name, want, got)] over the union of names"""
    d = []
    for n in sorted(set(want) | set(got)):
        if n in ignore: continue
        if want.get(n, '<absent>') != got.get(n, '<absent>'): d.append((n, want.get(n, '<absent>'), got.get(n, '<absent>')))
    return d

def short(v, n=24):
    if isinstance(v, (bytes, bytearray)): return v.hex()[:2 * n] + ('..(%d B)' % len(v) if len(v) > n else '')
    if isinstance(v, dict) and 'tmpl' in v: return {('0x%x' % t): short(b, 8) for t, b in v['tmpl'].items()}
    return v

# ---------------------------------------------------------------- object generator shared by C05 / C06
import random
P256 = bytes.fromhex('06082a8648ce3d030107'); P384 = bytes.fromhex('06052b81040022'); ED25519 = bytes.fromhex('06032b6570')
OAKLEY2 = bytes.fromhex('FFFFFFFFFFFFFFFFC90FDAA22168C234C4C6628B80DC1CD129024E088A67CC74020BBEA63B139B22514A08798E3404DDEF9519B3CD3A431B302B0A6DF25F14374FE1356D6D51C245E485B576625E7EC6F44C42E9A637ED6B0BFF5CB6F406B7EDEE386BFB5A899FA5AE9F24117C4B1FE649286651ECE65381FFFFFFFFFFFFFFFF')
DATE_ATTRS = ('CKA_START_DATE', 'CKA_END_DATE')
KEY_BOOLS_SECRET = ['CKA_ENCRYPT', 'CKA_DECRYPT', 'CKA_SIGN', 'CKA_VERIFY', 'CKA_WRAP', 'CKA_UNWRAP', 'CKA_DERIVE']
KEY_BOOLS_PUB = ['CKA_ENCRYPT', 'CKA_VERIFY', 'CKA_VERIFY_RECOVER', 'CKA_WRAP', 'CKA_DERIVE']
KEY_BOOLS_PRIV = ['CKA_DECRYPT', 'CKA_SIGN', 'CKA_SIGN_RECOVER', 'CKA_UNWRAP', 'CKA_DERIVE']
STORAGE_BOOLS = ['CKA_MODIFIABLE', 'CKA_COPYABLE', 'CKA_DESTROYABLE']
# class name -> fixed head, free byte-string attributes (name, fixed lengths or None), required ones, booleans, ulongs (name, choices), extras
def class_table(ck):
    K = lambda n: ck['CKK_' + n]
    sec = lambda kt, lens: dict(head=[('CKA_CLASS', ck.CKO_SECRET_KEY), ('CKA_KEY_TYPE', K(kt)), ('CKA_SENSITIVE', False), ('CKA_EXTRACTABLE', True)], req=[('CKA_VALUE', lens)], opt=[('CKA_ID', None)],
                                bools=KEY_BOOLS_SECRET, ulongs=[], dates=True, mechs=True, tmpls=['CKA_WRAP_TEMPLATE', 'CKA_UNWRAP_TEMPLATE'], default_private=True)
    pub = lambda kt, req: dict(head=[('CKA_CLASS', ck.CKO_PUBLIC_KEY), ('CKA_KEY_TYPE', K(kt))], req=req, opt=[('CKA_ID', None), ('CKA_SUBJECT', None)], bools=KEY_BOOLS_PUB, ulongs=[], dates=True, mechs=True,
                               tmpls=['CKA_WRAP_TEMPLATE'], default_private=False)
    prv = lambda kt, req: dict(head=[('CKA_CLASS', ck.CKO_PRIVATE_KEY), ('CKA_KEY_TYPE', K(kt)), ('CKA_SENSITIVE', False), ('CKA_EXTRACTABLE', True)], req=req, opt=[('CKA_ID', None), ('CKA_SUBJECT', None)],
                               bools=KEY_BOOLS_PRIV, ulongs=[], dates=True, mechs=True, tmpls=['CKA_UNWRAP_TEMPLATE'], default_private=True)
    rsa_priv = [('CKA_MODULUS', None), ('CKA_PUBLIC_EXPONENT', None), ('CKA_PRIVATE_EXPONENT', None), ('CKA_PRIME_1', None), ('CKA_PRIME_2', None), ('CKA_EXPONENT_1', None), ('CKA_EXPONENT_2', None), ('CKA_COEFFICIENT', None)]
    return {
        'data': dict(head=[('CKA_CLASS', ck.CKO_DATA)], req=[], opt=[('CKA_APPLICATION', None), ('CKA_OBJECT_ID', None), ('CKA_VALUE', None)], bools=[], ulongs=[], dates=False, mechs=False, tmpls=[], default_private=True),
        'cert-x509': dict(head=[('CKA_CLASS', ck.CKO_CERTIFICATE), ('CKA_CERTIFICATE_TYPE', ck.CKC_X_509)], req=[('CKA_SUBJECT', None), ('CKA_VALUE', None)],
                          opt=[('CKA_ID', None), ('CKA_ISSUER', None), ('CKA_SERIAL_NUMBER', None), ('CKA_HASH_OF_SUBJECT_PUBLIC_KEY', None), ('CKA_HASH_OF_ISSUER_PUBLIC_KEY', None)], bools=[],
                          ulongs=[('CKA_CERTIFICATE_CATEGORY', (0, 1, 2, 3)), ('CKA_JAVA_MIDP_SECURITY_DOMAIN', (0, 1, 2, 3)), ('CKA_NAME_HASH_ALGORITHM', (ck.CKM_SHA_1, ck.CKM_SHA256))], dates=True, mechs=False, tmpls=[], default_private=False),
        'cert-pgp': dict(head=[('CKA_CLASS', ck.CKO_CERTIFICATE), ('CKA_CERTIFICATE_TYPE', ck.CKC_OPENPGP)], req=[('CKA_SUBJECT', None), ('CKA_VALUE', None)], opt=[('CKA_ID', None), ('CKA_ISSUER', None), ('CKA_SERIAL_NUMBER', None)],
                         bools=[], ulongs=[('CKA_CERTIFICATE_CATEGORY', (0, 1, 2, 3))], dates=True, mechs=False, tmpls=[], default_private=False),
        'sk-aes': sec('AES', (16, 24, 32)), 'sk-des3': sec('DES3', (24,)), 'sk-des2': sec('DES2', (16,)), 'sk-generic': sec('GENERIC_SECRET', None), 'sk-hmac': sec('SHA256_HMAC', None),
        'pub-rsa': pub('RSA', [('CKA_MODULUS', None), ('CKA_PUBLIC_EXPONENT', None)]), 'pub-dsa': pub('DSA', [('CKA_PRIME', None), ('CKA_SUBPRIME', None), ('CKA_BASE', None), ('CKA_VALUE', None)]),
        'pub-ec': pub('EC', [('CKA_EC_PARAMS', None), ('CKA_EC_POINT', None)]), 'pub-dh': pub('DH', [('CKA_PRIME', None), ('CKA_BASE', None), ('CKA_VALUE', None)]), 'pub-ed': pub('EC_EDWARDS', [('CKA_EC_PARAMS', None), ('CKA_EC_POINT', None)]),
        'priv-rsa': prv('RSA', rsa_priv), 'priv-dsa': prv('DSA', [('CKA_PRIME', None), ('CKA_SUBPRIME', None), ('CKA_BASE', None), ('CKA_VALUE', None)]), 'priv-ec': prv('EC', [('CKA_EC_PARAMS', None), ('CKA_VALUE', None)]),
        'priv-dh': prv('DH', [('CKA_PRIME', None), ('CKA_BASE', None), ('CKA_VALUE', None)]), 'priv-ed': prv('EC_EDWARDS', [('CKA_EC_PARAMS', None), ('CKA_VALUE', None)]),
        'dom-dsa': dict(head=[('CKA_CLASS', ck.CKO_DOMAIN_PARAMETERS), ('CKA_KEY_TYPE', K('DSA'))], req=[('CKA_PRIME', None), ('CKA_SUBPRIME', None), ('CKA_BASE', None)], opt=[], bools=[], ulongs=[], dates=False, mechs=False, tmpls=[], default_private=True),
        'dom-dh': dict(head=[('CKA_CLASS', ck.CKO_DOMAIN_PARAMETERS), ('CKA_KEY_TYPE', K('DH'))], req=[('CKA_PRIME', None), ('CKA_BASE', None)], opt=[], bools=[], ulongs=[], dates=False, mechs=False, tmpls=[], default_private=True),
    }

def rand_date(rnd):
    """a valid CK_DATE drawn from a large space (~3.3 million values)"""
    return b'%04d%02d%02d' % (rnd.randrange(1000, 9999), rnd.randrange(1, 13), rnd.randrange(1, 29))

def size_class(n): return '0' if n == 0 else '1' if n == 1 else '<=64' if n <= 64 else '<=4K' if n <= 4096 else '<=64K' if n <= 65536 else '>64K'

class ObjGen:
    """random object templates.  sizes: callable(rnd) -> length for free-length byte strings; fresh(n) -> n fresh random bytes"""
    def __init__(s, ck, rnd, sizes, minlen=0, recorder=None):
        s.ck = ck; s.rnd = rnd; s.sizes = sizes; s.minlen = minlen; s.table = class_table(ck); s.recorder = recorder
        s.mech_pool = [ck.CKM_AES_CBC, ck.CKM_AES_ECB, ck.CKM_AES_GCM, ck.CKM_AES_KEY_WRAP, ck.CKM_RSA_PKCS, ck.CKM_SHA256_RSA_PKCS, ck.CKM_ECDSA, ck.CKM_SHA256_HMAC, ck.CKM_DES3_CBC, ck.CKM_AES_CMAC, 0x80000001]
    def fresh(s, n): return bytes(s.rnd.getrandbits(8) for _ in range(n)) if n < 64 else s.rnd.getrandbits(8 * n).to_bytes(n, 'big')
    def bstr(s, lens=None):
        n = s.rnd.choice(lens) if lens else max(s.minlen, s.sizes(s.rnd)); return s.fresh(n)
    def nested(s):
        ck = s.ck; pool = [('CKA_CLASS', ck.CKO_SECRET_KEY), ('CKA_KEY_TYPE', ck.CKK_AES), ('CKA_TOKEN', s.rnd.random() < .5), ('CKA_EXTRACTABLE', s.rnd.random() < .5), ('CKA_SENSITIVE', s.rnd.random() < .5),
                           ('CKA_VALUE_LEN', s.rnd.choice((16, 32))), ('CKA_LABEL', s.fresh(s.rnd.choice((0, 1, 20, 300)))), ('CKA_ID', s.fresh(s.rnd.choice((0, 5)))), ('CKA_ENCRYPT', True), ('CKA_MODULUS_BITS', 2048)]
        return s.rnd.sample(pool, s.rnd.randrange(0, 6))
    def template(s, cls, token, private, tag, rich=True):
        """-> [(name, python value)]; the label carries the tag (tag|suffix)"""
        c = s.table[cls]; rnd = s.rnd; t = list(c['head']) + [('CKA_TOKEN', token), ('CKA_PRIVATE', private), ('CKA_LABEL', tag + b'|' + s.fresh(rnd.choice((0, 3, 16, 40)) if s.minlen == 0 else 16))]
        for a, lens in c['req']: t.append((a, s.bstr(lens)))
        for a, lens in c['opt']:
            if rnd.random() < (.7 if rich else .3): t.append((a, s.bstr(lens)))
        for a in c['bools'] + STORAGE_BOOLS:
            if rnd.random() < (.35 if rich else .1): t.append((a, rnd.random() < .5))
        for a, ch in c['ulongs']:
            if rnd.random() < .5: t.append((a, rnd.choice(ch)))
        if c['dates']:
            for a in DATE_ATTRS:
                if rnd.random() < .5: t.append((a, rand_date(rnd) if rnd.random() < .85 else b''))
        if c['mechs'] and rnd.random() < .5: t.append(('CKA_ALLOWED_MECHANISMS', rnd.sample(s.mech_pool, rnd.randrange(1, 6))))
        for a in c['tmpls']:
            if rnd.random() < .4: t.append((a, s.nested()))
        head = t[:len(c['head'])]; rest = t[len(c['head']):]; rnd.shuffle(rest)
        return (head + rest)[:32]
    def settable(s, cls):
        """candidate (attribute, value) changes for C_SetAttributeValue; refusals are expected for some"""
        c = s.table[cls]; rnd = s.rnd; cand = []
        for a, lens in c['opt'] + [('CKA_ISSUER', None), ('CKA_SERIAL_NUMBER', None)] * (cls.startswith('cert')) + ([('CKA_VALUE', None)] if cls == 'data' else []): cand.append((a, s.bstr(lens)))
        for a in c['bools']: cand.append((a, rnd.random() < .5))
        if c['dates']: cand += [(a, rand_date(rnd)) for a in DATE_ATTRS]
        if c['mechs']: cand.append(('CKA_ALLOWED_MECHANISMS', rnd.sample(s.mech_pool, rnd.randrange(1, 6))))
        for a in c['tmpls']: cand.append((a, s.nested()))
        return cand

def template_api_form(ck, tmpl):
    """what a template promises: {name: API-form value}"""
    out = {}
    for a, v in tmpl:
        if isinstance(v, bool): out[a] = b'\x01' if v else b'\x00'
        elif isinstance(v, int): out[a] = struct.pack('<Q', v)
        elif isinstance(v, (bytes, bytearray)): out[a] = bytes(v)
        elif isinstance(v, list) and a not in TEMPLATE_ATTRS and (not v or isinstance(v[0], int)): out[a] = b''.join(struct.pack('<Q', m) for m in sorted(set(v)))
        elif isinstance(v, list): out[a] = {'tmpl': {ck[n]: template_api_form(ck, [(n, e)])[n] for n, e in v}}
        else: raise TypeError(v)
    return out

def attr_kind(name, v):
    if isinstance(v, dict): return 'template'
    if name in DATE_ATTRS: return 'date'
    if name == 'CKA_ALLOWED_MECHANISMS': return 'mechset'
    return None

# ---------------------------------------------------------------- one executor on one token directory, with restarts
SO = b'so\x00pin\xff-c05'; USER = b'\xffuser\x00pin-c05'
class Lib:
    """one executor on one token directory, with restarts"""
    def __init__(s, job, d, backend, cfg='asan', extra=''):
        from ck import CK
        from walkcheck import make_new_exec
        s.ck = CK(job['hdr']); s.new_exec = make_new_exec(job['paths'], s.ck); s.cfg = cfg; s.d = d; s.backend = backend; s.extra = extra; s.x = None; s.universe = attr_universe(s.ck)
    def start(s):
        for attempt in range(40):
            # another check may be re-linking the shared executor at this very moment (build.py): a short retry, not a verdict
            try: s.x = s.new_exec(s.cfg, s.d, s.backend, s.extra, reuse_dir=True); break
            except (PermissionError, FileNotFoundError, OSError):
                if attempt == 39: raise
                import time; time.sleep(0.5)
        s.x.timeout = 300
        r = s.x.call('C_Initialize', locking='os'); assert r['rv'] == 0, r
    def stop(s):
        if s.x is not None:
            try: s.x.call('C_Finalize'); s.x.close()
            except Exception: s.x.kill()
            s.x = None
    def restart(s, kind):
        if kind == 'reinit':
            r = s.x.call('C_Finalize'); assert r['rv'] == 0, r
            r = s.x.call('C_Initialize', locking='os'); assert r['rv'] == 0, r
        else: s.stop(); s.start()
    def init_token(s, label, so=SO, user=USER):
        slot = s.x.call('C_GetSlotList', count=32)['slots'][-1]
        r = s.x.call('C_InitToken', slot=slot, pin=so.hex(), label=label.hex()); assert r['rv'] == 0, r
        h = s.x.call('C_OpenSession', slot=slot)['h']
        assert s.x.call('C_Login', s=h, user=0, pin=so.hex())['rv'] == 0; assert s.x.call('C_InitPIN', s=h, pin=user.hex())['rv'] == 0
        s.x.call('C_Logout', s=h); s.x.call('C_CloseSession', s=h); s.x.call('C_GetSlotList', null=True)
    def tokens(s):
        """[(slot, token info)] of initialised tokens"""
        out = []
        for slot in s.x.call('C_GetSlotList', count=32)['slots']:
            ti = s.x.call('C_GetTokenInfo', slot=slot)
            if ti['rv'] == 0 and ti['flags'] & s.ck.CKF_TOKEN_INITIALIZED: out.append((slot, ti))
        return out
    def slot_of(s, label):
        for slot, ti in s.tokens():
            if bytes.fromhex(ti['label']).rstrip(b' ') == label: return slot
        return None
    def login(s, label, pin=USER, user=1):
        slot = s.slot_of(label)
        if slot is None: return None
        h = s.x.call('C_OpenSession', slot=slot)['h']; r = s.x.call('C_Login', s=h, user=user, pin=pin.hex())
        return h if r['rv'] == 0 else None
    def read(s, h, o): return read_object(s.x, h, o, s.ck, s.universe)

