"""Shared helpers of C05 / C06 / tools/mkfixtures.py: snapshots of a token through the API (every attribute of every
object), snapshots of the same token directory through the independent decoders (objfile / dbfile / tokenkey), and
their comparison.  API values are kept in the API's own byte representation (CK_BBOOL 1 byte, CK_ULONG 8 bytes
little-endian, mechanism arrays of CK_ULONG, nested templates {type: bytes}), so a comparison is byte-exact."""
import hashlib, os, stat, struct
import objfile, dbfile, tokenkey

TEMPLATE_ATTRS = ('CKA_WRAP_TEMPLATE', 'CKA_UNWRAP_TEMPLATE', 'CKA_DERIVE_TEMPLATE')
SKIP_ATTRS = {'CKA_VENDOR_DEFINED'}
# DBObject.cpp decides the table to READ from by a fixed per-type table that lacks these two attribute types, so the db
# back-end writes them (rows accumulate) but can never read them back: after a restart the API answers with the default.
DB_UNREADABLE = ('CKA_DESTROYABLE', 'CKA_PUBLIC_KEY_INFO')
UNAVAILABLE = 'unavailable'      # marker value: the API refuses to reveal the attribute (sensitive / unextractable)

def attr_universe(ck):
    """every attribute type of pkcs11.h, by one canonical name per number: [(name, number)]"""
    return sorted(((n, v) for v, n in ck.ATTR.items() if n not in SKIP_ATTRS), key=lambda p: p[1])

class ApiError(Exception): pass

def read_object(x, s, o, ck, universe=None):
    """-> {name: bytes | {'tmpl': {type number: bytes}} | UNAVAILABLE} for every attribute the object has.
    Raises ApiError when the object cannot be read consistently (which a caller reports as a finding)."""
    universe = universe or attr_universe(ck)
    plain = [(n, v) for n, v in universe if n not in TEMPLATE_ATTRS]
    r = x.call('C_GetAttributeValue', s=s, o=o, tmpl=[{'t': v, 'buf': None} for n, v in plain])
    if 'tmpl' not in r: raise ApiError('length query failed: %s' % r.get('rvname'))
    if r['rvname'] in ('CKR_OBJECT_HANDLE_INVALID', 'CKR_SESSION_HANDLE_INVALID', 'CKR_GENERAL_ERROR', 'CKR_USER_NOT_LOGGED_IN', 'CKR_CRYPTOKI_NOT_INITIALIZED'):
        raise ApiError('length query: %s' % r['rvname'])
    have = [(n, v, e['len']) for (n, v), e in zip(plain, r['tmpl']) if e['len'] != -1]
    missing = [(n, v) for (n, v), e in zip(plain, r['tmpl']) if e['len'] == -1]
    out = {}
    if have:
        r2 = x.call('C_GetAttributeValue', s=s, o=o, tmpl=[{'t': v, 'buf': l} for n, v, l in have])
        if r2['rv'] != 0: raise ApiError('value read failed: %s' % r2['rvname'])
        for (n, v, l), e in zip(have, r2['tmpl']):
            if e['len'] != l: raise ApiError('%s: length changed between query (%d) and read (%s)' % (n, l, e['len']))
            out[n] = bytes.fromhex(e['data'])
    # which of the missing ones exist but may not be revealed?
    for n, v in missing:
        if n in ('CKA_VALUE', 'CKA_PRIVATE_EXPONENT', 'CKA_PRIME_1', 'CKA_PRIME_2', 'CKA_EXPONENT_1', 'CKA_EXPONENT_2', 'CKA_COEFFICIENT'):
            r3 = x.call('C_GetAttributeValue', s=s, o=o, tmpl=[{'t': v, 'buf': None}])
            if r3['rvname'] == 'CKR_ATTRIBUTE_SENSITIVE': out[n] = UNAVAILABLE
            elif r3['rvname'] != 'CKR_ATTRIBUTE_TYPE_INVALID': raise ApiError('%s: %s' % (n, r3['rvname']))
    for n in TEMPLATE_ATTRS:
        r4 = x.call('X_GetTemplateAttr', s=s, o=o, t=ck[n])
        if r4['rvname'] == 'CKR_ATTRIBUTE_TYPE_INVALID': continue
        if r4['rv'] != 0: raise ApiError('%s: %s' % (n, r4['rvname']))
        out[n] = {'tmpl': {e['t']: bytes.fromhex(e['data']) for e in r4['attrs']}}
        if len(out[n]['tmpl']) != r4.get('n', 0): raise ApiError('%s: %d entries announced, %d distinct returned' % (n, r4.get('n', 0), len(out[n]['tmpl'])))
    return out

def read_token(x, s, ck, universe=None):
    """every object visible to session s: -> [attrs dict]   (raises ApiError)"""
    rv, hs = x.findall(s)
    if rv != 'CKR_OK': raise ApiError('C_FindObjectsInit: ' + rv)
    return [read_object(x, s, h, ck, universe) for h in hs]

# ---------------------------------------------------------------- JSON form (expect.json)
BIG = 1024
def to_json(attrs, ck):
    out = {}
    for n, v in sorted(attrs.items()):
        if v == UNAVAILABLE: out[n] = {'unavailable': True}
        elif isinstance(v, dict): out[n] = {'tmpl': {ck.ATTR.get(t, '0x%x' % t): b.hex() for t, b in sorted(v['tmpl'].items())}}
        elif len(v) > BIG: out[n] = {'len': len(v), 'sha256': hashlib.sha256(v).hexdigest()}
        else: out[n] = v.hex()
    return out
def json_matches(exp, v, ck):
    """does API value v equal the recorded JSON form?"""
    if isinstance(exp, str): return isinstance(v, bytes) and v.hex() == exp
    if 'unavailable' in exp: return v == UNAVAILABLE
    if 'tmpl' in exp: return isinstance(v, dict) and {ck.ATTR.get(t, '0x%x' % t): b.hex() for t, b in v['tmpl'].items()} == exp['tmpl']
    return isinstance(v, bytes) and len(v) == exp['len'] and hashlib.sha256(v).hexdigest() == exp['sha256']

# ---------------------------------------------------------------- the directory through the independent decoders
def api_form(v):
    """decoder value (bool / int / bytes / list / dict) -> the API's byte representation"""
    if isinstance(v, bool): return b'\x01' if v else b'\x00'
    if isinstance(v, int): return struct.pack('<Q', v)
    if isinstance(v, (bytes, bytearray)): return bytes(v)
    if isinstance(v, list): return b''.join(struct.pack('<Q', m) for m in v)
    if isinstance(v, dict): return {'tmpl': {t: api_form(e) for t, e in v.items()}}
    raise TypeError(v)

class DiskObject:
    """.raw {type number: decoder value}, .where (file name / db object id), .private (stored CKA_PRIVATE), .blobs {type: stored bytes}"""
    def __init__(s, raw, where): s.raw = raw; s.where = where; s.private = raw.get(0x2) is True; s.blobs = {t: v for t, v in raw.items() if isinstance(v, (bytes, bytearray))}
    def api_view(s, master, ck):
        """-> ({name: API-form value}, [problems]); byte strings of private objects are decrypted with the master key"""
        out = {}; probs = []
        for t, v in s.raw.items():
            n = ck.ATTR.get(t, '0x%x' % t)
            if isinstance(v, (bytes, bytearray)) and s.private and len(v):
                if master is None: out[n] = None; continue
                p = tokenkey.decrypt_attr(master, bytes(v))
                if p is None: probs.append('%s of private object %s does not decrypt under the master key (%d bytes stored)' % (n, s.where, len(v)))
                out[n] = p
            else: out[n] = api_form(v)
        return out, probs

class DiskToken:
    """one token of a store, decoded without the library: .info (objfile.TokenInfo), .objects [DiskObject], .problems [text], .dir"""
    def __init__(s): s.info = None; s.objects = []; s.problems = []; s.dir = None; s.backend = None
    def master_key(s, pin, so=False):
        b = s.info and (s.info.so_blob if so else s.info.user_blob)
        return tokenkey.unwrap_master_key(b, pin) if b else None
    def stored_ivs(s):
        """every IV stored in this token: PIN blobs (bytes 8..24) and encrypted attributes of private objects (first 16 bytes)"""
        ivs = []
        for b in (s.info.so_blob, s.info.user_blob) if s.info else ():
            if b and len(b) >= 24: ivs.append(('pin-blob', bytes(b[8:24])))
        for o in s.objects:
            if not o.private: continue
            for t, v in o.blobs.items():
                if len(v) >= 32: ivs.append((t, bytes(v[:16])))
        return ivs

def read_disk(tokendir, backend, scratch=None):
    """-> [DiskToken] for directories.tokendir"""
    out = []
    if backend == 'file':
        for td in objfile.read_store(tokendir):
            t = DiskToken(); t.dir = td.path; t.backend = 'file'; t.info = td.info
            if td.token is None or td.token.status != 'valid': t.problems.append('token.object is %s' % (td.token and td.token.status))
            elif td.token.warnings: t.problems += ['token.object: ' + w for w in td.token.warnings]
            for name, p in sorted(td.objects.items()):
                if p.status != 'valid': t.problems.append('%s is %s (%s)' % (name, p.status, p.error)); continue
                t.problems += ['%s: %s' % (name, w) for w in p.warnings]
                t.objects.append(DiskObject(p.attrs, name))
            out.append(t)
    else:
        for d, db in dbfile.read_store(tokendir, scratch):
            t = DiskToken(); t.dir = d; t.backend = 'db'; t.info = db.info; t.problems += db.problems
            for oid, attrs in sorted(db.objects.items()): t.objects.append(DiskObject(attrs, 'object %d' % oid))
            out.append(t)
    return out

def all_files(root):
    """every path below root (directories too) with lstat: [(path, stat_result)]"""
    out = []
    for dp, dn, fn in os.walk(root):
        for n in dn + fn:
            p = os.path.join(dp, n)
            try: out.append((p, os.lstat(p)))
            except FileNotFoundError: pass
    return out

def identity(attrs):
    """a key that identifies an object across API and disk views: class + label + id (drivers make labels unique)"""
    return (attrs.get('CKA_CLASS'), attrs.get('CKA_LABEL'), attrs.get('CKA_ID') if 'CKA_ID' in attrs else attrs.get('CKA_OBJECT_ID'))

def diff_attrs(want, got, ignore=()):
    """-> [(name, want, got)] over the union of names"""
    d = []
    for n in sorted(set(want) | set(got)):
        if n in ignore: continue
        if want.get(n, '<absent>') != got.get(n, '<absent>'): d.append((n, want.get(n, '<absent>'), got.get(n, '<absent>')))
    return d

def short(v, n=24):
    if isinstance(v, (bytes, bytearray)): return v.hex()[:2 * n] + ('..(%d B)' % len(v) if len(v) > n else '')
    if isinstance(v, dict) and 'tmpl' in v: return {('0x%x' % t): short(b, 8) for t, b in v['tmpl'].items()}
    return v
