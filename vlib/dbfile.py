"""Independent reader of the pinned SoftHSMv2 SQLite token database (<tokendir>/<uuid>/sqlite3.db), using Python's
sqlite3 only.  Written from the schema:

  object(id)                                        row 1 is the token object (label, serial, flags, PIN blobs)
  attribute_boolean(value 0/1, type, object_id)     attribute_integer(value, type, object_id)
  attribute_binary(value blob, type, object_id)     byte strings; mechanism sets are stored here as an array of
                                                    native-endian 8-byte CK_MECHANISM_TYPE
  attribute_array(value blob, type, object_id)      nested templates: ( type u64 LE | kind u32 LE | value )*, kinds
                                                    1 bool(1 byte) 2 ulong(u64 LE) 3 bytes(len u64 LE + data) 5 mechs(byte len u64 LE + u64 LE*)
  attribute_text / attribute_datetime / attribute_real exist but are never written by the library.

The library decides the table from a fixed per-type table on READ, but from the value's kind on WRITE; the reader
here reports every row of every table so that a caller can see both.  Values: bool / int / bytes / dict / sorted list."""
import os, shutil, sqlite3, struct, tempfile
from objfile import CKA_OS_TOKENLABEL, CKA_OS_TOKENSERIAL, CKA_OS_TOKENFLAGS, CKA_OS_SOPIN, CKA_OS_USERPIN, TokenInfo, BOOL, ULONG, BYTES, MECHSET

DBFILE = 'sqlite3.db'
CKA_ALLOWED_MECHANISMS = 0x40000000 | 0x600
MECHSET_TYPES = {CKA_ALLOWED_MECHANISMS}
TABLES = ('attribute_boolean', 'attribute_integer', 'attribute_binary', 'attribute_array', 'attribute_text', 'attribute_datetime', 'attribute_real')

class Bad(Exception): pass

def decode_mechset(b):
    if len(b) % 8: raise Bad('mechanism set of %d bytes' % len(b))
    return sorted(set(struct.unpack('<%dQ' % (len(b) // 8), b)))
def decode_attrmap(b):
    m = {}; o = 0
    def need(n):
        if o + n > len(b): raise Bad('attribute map overrun at %d' % o)
    while o < len(b):
        need(12); t, k = struct.unpack_from('<QI', b, o); o += 12
        if k == BOOL: need(1); v = b[o]; o += 1; v = bool(v) if v in (0, 1) else Bad
        elif k == ULONG: need(8); v = struct.unpack_from('<Q', b, o)[0]; o += 8
        elif k == BYTES: need(8); n = struct.unpack_from('<Q', b, o)[0]; o += 8; need(n); v = bytes(b[o:o + n]); o += n
        elif k == MECHSET: need(8); n = struct.unpack_from('<Q', b, o)[0]; o += 8; need(n); v = decode_mechset(b[o:o + n]); o += n
        else: raise Bad('bad kind %d inside attribute map' % k)
        if v is Bad: raise Bad('non-canonical boolean inside attribute map')
        m[t] = v
    return m

def open_ro(path, scratch=None):
    """-> (connection, cleanup callable).  Opens read-only; when that fails (locked, hot journal that needs a
    rollback) the database and its side files are copied to a scratch directory and the copy is opened."""
    try:
        c = sqlite3.connect('file:%s?mode=ro' % path, uri=True, timeout=2.0); c.execute('select count(*) from sqlite_master').fetchall()
        return c, (lambda: None)
    except sqlite3.Error:
        pass
    d = tempfile.mkdtemp(prefix='dbfile-', dir=scratch or ('/dev/shm' if os.path.isdir('/dev/shm') else None))
    for suf in ('', '-journal', '-wal', '-shm'):
        if os.path.exists(path + suf): shutil.copy(path + suf, os.path.join(d, DBFILE + suf))
    c = sqlite3.connect(os.path.join(d, DBFILE), timeout=2.0)
    return c, (lambda: shutil.rmtree(d, ignore_errors=True))

class DbToken:
    """.objects {object id: {type: value}} (without the token object), .info TokenInfo, .rows [(table, row id, object id, type,
    raw value)], .problems [text] (anything a strict reader of the pinned format objects to), .dups {(object id, type): n}"""
    def __init__(s, path, scratch=None):
        s.path = path; s.objects = {}; s.kinds = {}; s.info = None; s.rows = []; s.problems = []; s.dups = {}; s.token_attrs = {}
        conn, cleanup = open_ro(path, scratch)
        try:
            conn.text_factory = bytes
            ids = [r[0] for r in conn.execute('select id from object order by id')]
            have = {r[0].decode() if isinstance(r[0], bytes) else r[0] for r in conn.execute("select name from sqlite_master where type='table'")}
            for t in ('object',) + TABLES[:4]:
                if t not in have: s.problems.append('missing table ' + t)
            per = {i: {} for i in ids}; kinds = {i: {} for i in ids}
            for tab in TABLES:
                if tab not in have: continue
                for rid, oid, typ, val in conn.execute('select id, object_id, type, value from %s order by id' % tab):
                    s.rows.append((tab, rid, oid, typ, val))
                    if oid not in per: s.problems.append('%s row %d refers to missing object %r' % (tab, rid, oid)); continue
                    if typ is None: s.problems.append('%s row %d has no type' % (tab, rid)); continue
                    typ &= (1 << 64) - 1
                    try:
                        if tab == 'attribute_boolean':
                            if val not in (0, 1): raise Bad('boolean stored as %r' % (val,))
                            v = bool(val); k = 'bool'
                        elif tab == 'attribute_integer':
                            if not isinstance(val, int): raise Bad('integer stored as %r' % type(val))
                            v = val & ((1 << 64) - 1); k = 'ulong'
                        elif tab == 'attribute_binary':
                            val = b'' if val is None else val
                            if not isinstance(val, bytes): raise Bad('binary stored as %r' % type(val))
                            if typ in MECHSET_TYPES: v = decode_mechset(val); k = 'mechset'
                            else: v = bytes(val); k = 'bytes'
                        elif tab == 'attribute_array':
                            val = b'' if val is None else val
                            if not isinstance(val, bytes): raise Bad('array stored as %r' % type(val))
                            v = decode_attrmap(val); k = 'attrmap'
                        else:
                            s.problems.append('unexpected row in %s (type 0x%x)' % (tab, typ)); continue
                    except Bad as e:
                        s.problems.append('%s row %d type 0x%x: %s' % (tab, rid, typ, e)); continue
                    if typ in per[oid]: s.dups[(oid, typ)] = s.dups.get((oid, typ), 1) + 1
                    per[oid][typ] = v; kinds[oid][typ] = k        # the last row wins (rows are read in id order)
            if ids:
                tok = ids[0]                                    # "select id from object limit -1 offset 1" skips the first row
                if tok != 1: s.problems.append('token object has id %d' % tok)
                s.token_attrs = per.pop(tok); kinds.pop(tok); s.info = TokenInfo(s.token_attrs)
            else: s.problems.append('no token object')
            s.objects = per; s.kinds = kinds
        finally:
            conn.close(); cleanup()

def read_store(tokendir, scratch=None):
    """-> [(directory, DbToken)] for every sub-directory of directories.tokendir that holds a sqlite3.db"""
    out = []
    for n in sorted(os.listdir(tokendir)):
        p = os.path.join(tokendir, n, DBFILE)
        if os.path.isfile(p): out.append((os.path.join(tokendir, n), DbToken(p, scratch)))
    return out
