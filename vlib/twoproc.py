"""Two processes, one token: the *holder* has used a token key (read its flags, performed the operations), then ANOTHER process restricts the key
(clears a usage flag, sets CKA_SENSITIVE, clears CKA_EXTRACTABLE, sets CKA_WRAP_WITH_TRUSTED) with CKR_OK; the holder's very next call on that
key is the operation that is no longer allowed.  Whatever a back-end caches per process, the restriction must bind the holder as well, and a fresh
process must still read the restricted value afterwards.  One scenario serves three properties (aspect = 'usage' C07, 'oneway' C08, 'reveal' C02); the
caller names the aspect and gets violations under its own property.  Positive controls: every operation / read succeeded in the holder before the change
and the other process's C_SetAttributeValue returned CKR_OK and reads back the new value there; otherwise the cell is not counted."""
import os
SO = b'so-pin-2p'; USER = b'user-pin-2p'; IV16 = bytes(range(16)); DATA32 = bytes((i * 7 + 3) & 0xFF for i in range(32))

def _setup(ctx, backend, tag, cfg):
    d = ctx.dir(f'2p-{tag}-{backend}'); ck = ctx.ck
    A = ctx.new_exec(cfg, d, backend); assert A.call('C_Initialize', locking='os')['rv'] == 0
    slot = A.call('C_GetSlotList', count=8)['slots'][-1]; assert A.call('C_InitToken', slot=slot, pin=SO.hex(), label=b'twoproc'.hex())['rv'] == 0
    sa = A.call('C_OpenSession', slot=slot)['h']; assert A.call('C_Login', s=sa, user=0, pin=SO.hex())['rv'] == 0 and A.call('C_InitPIN', s=sa, pin=USER.hex())['rv'] == 0 and A.call('C_Logout', s=sa)['rv'] == 0
    assert A.call('C_Login', s=sa, user=1, pin=USER.hex())['rv'] == 0
    return d, A, sa
def _attach(ctx, d, backend, cfg):
    ck = ctx.ck; B = ctx.new_exec(cfg, d, backend, reuse_dir=True); assert B.call('C_Initialize', locking='os')['rv'] == 0
    sl = [s for s in B.call('C_GetSlotList', count=8)['slots'] if B.call('C_GetTokenInfo', slot=s)['flags'] & ck.CKF_TOKEN_INITIALIZED][0]
    sb = B.call('C_OpenSession', slot=sl)['h']; assert B.call('C_Login', s=sb, user=1, pin=USER.hex())['rv'] == 0
    return B, sb
def _key(A, sa, ck, label, value, ktype='CKK_AES', **flags):
    a = {'CKA_CLASS': ck.CKO_SECRET_KEY, 'CKA_KEY_TYPE': ck[ktype], 'CKA_TOKEN': True, 'CKA_WRAP_WITH_TRUSTED': False, 'CKA_PRIVATE': True, 'CKA_LABEL': label, 'CKA_VALUE': value, 'CKA_SENSITIVE': False, 'CKA_EXTRACTABLE': True,
         'CKA_ENCRYPT': True, 'CKA_DECRYPT': True, 'CKA_SIGN': True, 'CKA_VERIFY': True, 'CKA_WRAP': True, 'CKA_UNWRAP': True, 'CKA_DERIVE': True}
    a.update(flags); r = A.call('C_CreateObject', s=sa, tmpl=A.T(a)); assert r['rv'] == 0, r['rvname']; return r['h']
def _bool(x, s, h, name):
    rvn, v = x.getattrs(s, h, [name]); b = v.get(name); return None if not b else b[0] != 0
def _other_sets(B, sb, label, attr, val):
    hs = B.findall(sb, {'CKA_LABEL': label})[1]
    if len(hs) != 1: return 'not-found'
    r = B.call('C_SetAttributeValue', s=sb, o=hs[0], tmpl=B.T({attr: val}))
    if r['rv'] != 0: return r['rvname']
    return 'CKR_OK' if _bool(B, sb, hs[0], attr) == val else 'not-applied'

def _sess_tmpl(x, ck, ktype='CKK_AES', extra=()):
    return x.T([('CKA_CLASS', ck.CKO_SECRET_KEY), ('CKA_KEY_TYPE', ck[ktype]), ('CKA_TOKEN', False), ('CKA_PRIVATE', True), ('CKA_SENSITIVE', False), ('CKA_EXTRACTABLE', True)] + list(extra))
def _ops(A, sa, ck, target, art):
    """flag -> function(key) -> (entry point, rvname, produced) run in the holder"""
    def fresh():            # an operation that is left active would turn the next Init into CKR_OPERATION_ACTIVE: use a session of its own per attempt
        return A.call('C_OpenSession', slot=art['slot'])['h']
    def enc(k):
        s = fresh(); r = A.call('C_EncryptInit', s=s, mech=A.M('CKM_AES_ECB'), key=k); ok = None
        if r['rv'] == 0: q = A.call('C_Encrypt', s=s, data=DATA32.hex(), buf=64); ok = q['rv'] == 0 and q['out']['len'] == 32; art.setdefault('ct', q['out'].get('data'))
        A.call('C_CloseSession', s=s); return 'C_EncryptInit', r['rvname'], ok
    def dec(k):
        s = fresh(); r = A.call('C_DecryptInit', s=s, mech=A.M('CKM_AES_ECB'), key=k); ok = None
        if r['rv'] == 0: q = A.call('C_Decrypt', s=s, data='11' * 32, buf=64); ok = q['rv'] == 0 and q['out']['len'] == 32
        A.call('C_CloseSession', s=s); return 'C_DecryptInit', r['rvname'], ok
    def sign(k):
        s = fresh(); r = A.call('C_SignInit', s=s, mech=A.M('CKM_AES_CMAC'), key=k); ok = None
        if r['rv'] == 0: q = A.call('C_Sign', s=s, data=DATA32.hex(), buf=64); ok = q['rv'] == 0 and q['out']['len'] > 0; art['sig'] = q['out'].get('data')
        A.call('C_CloseSession', s=s); return 'C_SignInit', r['rvname'], ok
    def verify(k):
        s = fresh(); sig = None
        if A.call('C_SignInit', s=s, mech=A.M('CKM_AES_CMAC'), key=k)['rv'] == 0: sig = A.call('C_Sign', s=s, data=DATA32.hex(), buf=64)['out'].get('data')
        A.call('C_CloseSession', s=s); s = fresh()
        r = A.call('C_VerifyInit', s=s, mech=A.M('CKM_AES_CMAC'), key=k); ok = None
        if r['rv'] == 0: q = A.call('C_Verify', s=s, data=DATA32.hex(), sig=sig or '00' * 16); ok = q['rv'] == 0
        A.call('C_CloseSession', s=s); return 'C_VerifyInit', r['rvname'], ok
    def wrap(k):
        r = A.call('C_WrapKey', s=sa, mech=A.M('CKM_AES_KEY_WRAP'), wkey=k, key=target, buf=256); ok = r['rv'] == 0 and r['out']['len'] > 0
        if ok: art['blob'] = r['out'].get('data')
        return 'C_WrapKey', r['rvname'], ok if r['rv'] == 0 else None
    def unwrap(k):
        w = A.call('C_WrapKey', s=sa, mech=A.M('CKM_AES_KEY_WRAP'), wkey=k, key=target, buf=256)          # the key under test also has CKA_WRAP: a blob it can open
        r = A.call('C_UnwrapKey', s=sa, mech=A.M('CKM_AES_KEY_WRAP'), ukey=k, wrapped=(w['out'].get('data') if w['rv'] == 0 else None) or '00' * 24, tmpl=_sess_tmpl(A, ck))
        if r['rv'] == 0: A.call('C_DestroyObject', s=sa, o=r['h'])
        return 'C_UnwrapKey', r['rvname'], True if r['rv'] == 0 else None
    def derive(k):
        r = A.call('C_DeriveKey', s=sa, mech=A.M('CKM_AES_ECB_ENCRYPT_DATA', kdstr=DATA32.hex()), key=k, tmpl=_sess_tmpl(A, ck, 'CKK_GENERIC_SECRET', [('CKA_VALUE_LEN', 16)]))
        if r['rv'] == 0: A.call('C_DestroyObject', s=sa, o=r['h'])
        return 'C_DeriveKey', r['rvname'], True if r['rv'] == 0 else None
    return {'CKA_ENCRYPT': enc, 'CKA_DECRYPT': dec, 'CKA_SIGN': sign, 'CKA_VERIFY': verify, 'CKA_WRAP': wrap, 'CKA_UNWRAP': unwrap, 'CKA_DERIVE': derive}

def stale_view(ctx, backend, aspect, cfg='asan'):
    """aspect: 'usage' | 'oneway' | 'reveal'.  Reports through ctx.case / ctx.violation / ctx.inconc; returns the number of cells counted."""
    ck = ctx.ck; A = B = C = None; n = 0
    try:
        d, A, sa = _setup(ctx, backend, aspect, cfg); slot = A.call('C_GetSessionInfo', s=sa)['slot']
        val = lambda i: bytes((i * 37 + j * 11 + 5) & 0xFF for j in range(32))
        target = _key(A, sa, ck, b'2p-target', val(99))                       # the key that gets wrapped in the usage aspect
        wrapper = _key(A, sa, ck, b'2p-wrapper', val(98))                     # an (untrusted) wrapping key for the reveal / one-way aspects
        art = {'slot': slot}; ops = _ops(A, sa, ck, target, art)
        if aspect == 'usage':
            order = ['CKA_ENCRYPT', 'CKA_DECRYPT', 'CKA_SIGN', 'CKA_VERIFY', 'CKA_WRAP', 'CKA_UNWRAP', 'CKA_DERIVE']
            keys = {f: _key(A, sa, ck, b'2p-' + f.encode(), val(i)) for i, f in enumerate(order)}
            warm = {}
            for f in order:                                                      # the holder uses every key and reads every flag (fills whatever cache there is)
                warm[f] = ops[f](keys[f]); A.getattrs(sa, keys[f], order + ['CKA_SENSITIVE', 'CKA_EXTRACTABLE', 'CKA_LABEL'])
            B, sb = _attach(ctx, d, backend, cfg)
            for f in order:
                fn, rvn, ok = warm[f]
                if rvn != 'CKR_OK' or not ok: ctx.observe('two-process positive control failed', {'flag': f, 'rv': rvn, 'backend': backend}); continue
                how = _other_sets(B, sb, b'2p-' + f.encode(), f, False)
                if how != 'CKR_OK': ctx.observe('two-process: other process could not clear the flag', {'flag': f, 'how': how, 'backend': backend}); continue
                fn, rvn, ok = ops[f](keys[f]); n += 1                           # the holder's NEXT call on this key is the operation itself
                ctx.case(('two-process', backend, 'usage', f), sample={'two_process': 'usage', 'flag': f, 'backend': backend, 'holder_rv_after_clear': rvn} if f == 'CKA_UNWRAP' else None)
                if rvn == 'CKR_OK':
                    ctx.violation(f'{fn}|two-processes,{backend},{f}-cleared-by-another-process|accepted', f'{fn} still works in a process that used the key before another process cleared {f} (C_SetAttributeValue returned CKR_OK there)',
                                  {'backend': backend, 'flag': f, 'holder_reads_flag_as': _bool(A, sa, keys[f], f)})
        elif aspect in ('oneway', 'reveal'):
            cells = [('CKA_SENSITIVE', True), ('CKA_EXTRACTABLE', False), ('CKA_WRAP_WITH_TRUSTED', True)]; applied = set()
            keys = {a: _key(A, sa, ck, b'2p-' + a.encode(), val(i)) for i, (a, v) in enumerate(cells)}; vals = {a: val(i) for i, (a, v) in enumerate(cells)}
            for a, v in cells:                                                   # warm: the holder reads flags and value, wraps and copies the key
                A.getattrs(sa, keys[a], ['CKA_SENSITIVE', 'CKA_EXTRACTABLE', 'CKA_WRAP_WITH_TRUSTED', 'CKA_VALUE', 'CKA_LABEL'])
                w = A.call('C_WrapKey', s=sa, mech=A.M('CKM_AES_KEY_WRAP'), wkey=wrapper, key=keys[a], buf=256); assert w['rv'] == 0, 'warm wrap ' + w['rvname']
                c = A.call('C_CopyObject', s=sa, o=keys[a], tmpl=A.T({'CKA_TOKEN': False}))
                if c['rv'] == 0: A.call('C_DestroyObject', s=sa, o=c['h'])
            B, sb = _attach(ctx, d, backend, cfg)
            for a, v in cells:
                how = _other_sets(B, sb, b'2p-' + a.encode(), a, v)
                if how != 'CKR_OK': ctx.observe('two-process: other process could not restrict the key', {'attr': a, 'how': how, 'backend': backend}); continue
                k = keys[a]; n += 1; wit = {'backend': backend, 'attr': a, 'restricted_to': v}; applied.add(a)
                if aspect == 'reveal' and a == 'CKA_WRAP_WITH_TRUSTED':
                    w = A.call('C_WrapKey', s=sa, mech=A.M('CKM_AES_KEY_WRAP'), wkey=wrapper, key=k, buf=256)      # the holder's next call: wrap under an untrusted key
                    if w['rv'] == 0: ctx.violation(f'C_WrapKey|two-processes,{backend},CKA_WRAP_WITH_TRUSTED=1-set-by-another-process|wrapped-under-untrusted-key', 'a key restricted to trusted wrapping keys by another process is still wrapped under an untrusted key by a process that used it before', dict(wit, rv=w['rvname']))
                elif aspect == 'reveal':
                    r = A.call('C_GetAttributeValue', s=sa, o=k, tmpl=[{'t': ck.CKA_VALUE, 'buf': 64}])           # the holder's next call: read the value
                    if vals[a].hex() in repr(r).lower() or r['rv'] == 0:
                        ctx.violation(f'C_GetAttributeValue|two-processes,{backend},{a}={int(v)}-set-by-another-process|value-returned', f'CKA_VALUE is still returned to a process that read the key before another process set {a}={v}', dict(wit, rv=r['rvname']))
                    if a == 'CKA_EXTRACTABLE':
                        w = A.call('C_WrapKey', s=sa, mech=A.M('CKM_AES_KEY_WRAP'), wkey=wrapper, key=k, buf=256)
                        if w['rv'] == 0: ctx.violation(f'C_WrapKey|two-processes,{backend},CKA_EXTRACTABLE=0-set-by-another-process|wrapped', 'a key made unextractable by another process is still wrapped by a process that used it before', dict(wit, rv=w['rvname']))
                else:
                    r = A.call('C_SetAttributeValue', s=sa, o=k, tmpl=A.T({a: not v}))                             # the holder's next call: undo the one-way change
                    if r['rv'] == 0: ctx.violation(f'C_SetAttributeValue|two-processes,{backend},{a}={int(v)}-set-by-another-process|one-way-change-undone', f'{a} was set to {v} by another process (CKR_OK) and a process that had read the key before could set it back', dict(wit, rv=r['rvname']))
                ctx.case(('two-process', backend, aspect, a), sample={'two_process': aspect, 'attr': a, 'backend': backend} if a == 'CKA_EXTRACTABLE' else None)
            # a fresh process must read what the restricting process wrote, whatever the holder did in between
            for x in (A, B): x.call('C_Finalize'); x.close()
            A = B = None; C, sc = _attach(ctx, d, backend, cfg)
            for a, v in cells:
                if a not in applied: continue
                hs = C.findall(sc, {'CKA_LABEL': b'2p-' + a.encode()})[1]; got = _bool(C, sc, hs[0], a) if len(hs) == 1 else None
                if got is not None and got != v and aspect == 'oneway':
                    ctx.violation(f'C_GetAttributeValue|two-processes,{backend},{a}={int(v)}-set-by-another-process|fresh-process-reads-old-value', f'{a} set to {v} with CKR_OK reads {got} in a fresh process after the holder process acted', {'backend': backend, 'attr': a})
        for x in (A, B, C):
            if x is not None: x.call('C_Finalize'); x.close()
        A = B = C = None
    except AssertionError as e: ctx.inconc(f'two-process scenario ({aspect}, {backend}) setup failed: {e!r}')
    finally:
        for x in (A, B, C):
            if x is not None: x.kill()
    return n

def stale_view_under_faults(ctx, backend, aspect, cfg='asan'):
    """The holder process has read a token object; ANOTHER process changes it with CKR_OK (aspect 'reveal': sets CKA_SENSITIVE on a key the holder has read; 'modify': rewrites CKA_ID;
    'destroy': destroys it).  The holder's NEXT call runs with its k-th file-system operation failing (EMFILE / EACCES: a process at its descriptor limit), for every k.  That call may fail --
    but it must not answer CKR_OK with what was true BEFORE the other process's change (the old value of a now sensitive key; the old CKA_ID; the destroyed object), and once the fault is gone
    the following call must observe the committed state (one failed reload must not make the object permanently invalid, nor permanently stale).  -> number of cells"""
    ck = ctx.ck; n = 0; VAL0 = bytes(range(0x60, 0x80)); errnos = ctx.q((24,), (24, 13, 5))
    def one(k, errno):
        d, A, sa = _setup(ctx, backend, f'fault-{aspect}', cfg); B = None
        try:
            h = _key(A, sa, ck, b'VICTIM', VAL0, ktype='CKK_GENERIC_SECRET', CKA_ID=b'id-before')
            rvn, v0 = A.getattrs(sa, h, ['CKA_VALUE', 'CKA_ID']); assert v0.get('CKA_VALUE') == VAL0, (rvn, v0)
            B, sb = _attach(ctx, d, backend, cfg); hb = B.findall(sb, {'CKA_LABEL': b'VICTIM'})[1]; assert len(hb) == 1
            if aspect == 'reveal': r = B.call('C_SetAttributeValue', s=sb, o=hb[0], tmpl=B.T({'CKA_SENSITIVE': True}))
            elif aspect == 'modify': r = B.call('C_SetAttributeValue', s=sb, o=hb[0], tmpl=B.T({'CKA_ID': b'id-after'}))
            else: r = B.call('C_DestroyObject', s=sb, o=hb[0])
            assert r['rv'] == 0, r['rvname']
            root = os.path.join(d, 'tokens')
            if k == 0: A.call('fs', mode='count', root=root, reads=True)
            else: A.call('fs', mode='fail', root=root, k=k, errno=errno, reads=True)      # read-only opens are operations too: the reload is one
            q = A.call('C_GetAttributeValue', s=sa, o=h, tmpl=[{'t': ck.CKA_VALUE, 'buf': 64}, {'t': ck.CKA_ID, 'buf': 64}]); st = A.call('fs', mode='status'); A.call('fs', mode='off')
            val = (q.get('tmpl') or [{}, {}])[0].get('data'); idv = (q.get('tmpl') or [{}, {}])[1].get('data')
            w = dict(backend=backend, aspect=aspect, k=k, errno=errno, rv=q['rvname'])
            stale = (aspect == 'reveal' and val == VAL0.hex()) or (aspect == 'modify' and q['rv'] == 0 and idv == b'id-before'.hex()) or (aspect == 'destroy' and q['rv'] == 0)
            if k and stale: ctx.violation(f'C_GetAttributeValue|{backend},other-process-{aspect},reload-fails|answers-from-the-stale-copy', 'after another process changed a token object, the next call in this process -- whose reload of the object failed on a file-system error -- answered from the stale copy', w)
            # the following call, without any fault
            q2 = A.call('C_GetAttributeValue', s=sa, o=h, tmpl=[{'t': ck.CKA_VALUE, 'buf': 64}, {'t': ck.CKA_ID, 'buf': 64}]); v2 = (q2.get('tmpl') or [{}, {}])[0].get('data'); i2 = (q2.get('tmpl') or [{}, {}])[1].get('data')
            good = {'reveal': q2['rvname'] == 'CKR_ATTRIBUTE_SENSITIVE' and v2 != VAL0.hex(), 'modify': q2['rv'] == 0 and i2 == b'id-after'.hex() and v2 == VAL0.hex(), 'destroy': q2['rv'] != 0}[aspect]
            if not good: ctx.violation(f'C_GetAttributeValue|{backend},other-process-{aspect},after-one-failed-reload|committed-state-not-observed', 'one reload of a token object failed on a file-system error; the FOLLOWING call (no fault any more) still does not observe what the other process committed', dict(w, following=q2['rvname'], id=i2))
            ctx.case(('two-process-fault', aspect, backend, k, errno), nontrivial=bool(k == 0 or st.get('injected')))
            return st.get('nops', 0)
        finally:
            for x in (A, B):
                if x is not None:
                    try: x.close()
                    except Exception: x.kill()
    from p11client import Died, Hang
    try:
        N = one(0, 0); n += 1
        for k in range(1, min(N, 40) + 1):
            for e in errnos:
                try: one(k, e); n += 1
                except Died as ex: ctx.observe('side:C17 library terminated the host when a reload failed', {'kind': ex.kind(), 'fn': ex.fn, 'aspect': aspect, 'k': k}); ctx.inconc(f'executor died in the two-process fault scenario ({aspect}, {backend}, k={k})')
    except AssertionError as e: ctx.inconc(f'two-process fault scenario could not run ({aspect}, {backend}): {e!r}')
    except Hang: ctx.inconc(f'hang in the two-process fault scenario ({aspect}, {backend})')
    return n
