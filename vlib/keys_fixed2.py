"""Fixed, VALID key material for checks that need positive controls without paying for key generation
(C02/C07/C08).  Generated once by a seeded pure-Python big-integer program (Miller-Rabin primes, P-256 / Ed25519 /
X25519 arithmetic per FIPS 186-4, RFC 8032, RFC 7748 with the RFC test vectors as self-check); nothing here is secret.
All values are big-endian byte strings as PKCS#11 wants them (Ed25519/X25519 values are the RFC little-endian encodings)."""
RSA = {
    'n': bytes.fromhex('ab51dea691b2d80bc4aba208dd2335fbecc37eb57ac5c2c8e69b2b9e89a2dc415c97b2d77369f5d190bd5287c2328d2015008d8fe66186b986ed6d5ef61d0017c683528614365140235340186dc257d25f51e8d191e12da03f853054f3c43d02de7215f8f0b43acf4e53dfdfd5fe4cedc9be106fb9f85e175e3f517ae35136a1'),
    'e': bytes.fromhex('010001'),
    'd': bytes.fromhex('97299bcd594d76779bc6dd27f9073280e0fdf5f56728cb9fbc6a39e89f050656ddbe345d0a46fa5138e6f3c539c2a4e723e0e3078f7d8a04755b555faec513e873a7e416186bab843fbbd0ee4814bb3d240c36f16d2c7134610c29259ed3c15269bd2ed1835ffb5b2220aaf93c467afacc0e4c50b2f99c6bf59a9c32eca4ed81'),
    'p': bytes.fromhex('e3f4a6add4e8942b0dd13a08f3d4d11409fe55b7c6d2415891cfd9778ca393329512d690cd11077d8bd8a898a50944002c16eb7f1d750dc5d7d51995055c1d99'),
    'q': bytes.fromhex('c06580288d5aa169db615041fe5ad7b95e89a2376460978acab8943e26f92343e63e28424bb46b261116ddf2f284db2a0efb2d68ad41385eb0e98cfd0452b649'),
    'dp': bytes.fromhex('cbd5763db6460a47bd613b8dc9caa0f25445528cb48249e052f212b92dcf0ece8a32801e96e0055ca3f2263fe84332c51ca79a08de644ede7c32975f839d6cf1'),
    'dq': bytes.fromhex('284e9b74e378534cbc1b3d1736548dd1560efb9f2336614940833efb6e6acf8a90180193320d104d9f52ed18d2da26983f1f3c3a2be1f80f4e7cff7e9a834191'),
    'qinv': bytes.fromhex('557bb0f083ef72efab2f0d831351a9aedd2b0b7fd98bc4c3104cdca477644d56b32eee1d2c917cb7d0edb3edd06aa97d4cf38f28feecd8b7c7504fcda745ec75'),
}
DSA = {
    'p': bytes.fromhex('ecf6f9a4f2bc2c3753fca57ff6e40b824bf06ad35dc2d6bfb14837c9bb0debe92d9971b1eba26eb7185635568a4edab05e159f6016b4416d4fa040ea152b25f479ddef3066729b0231762fca8aa8e10021c8a5e567cfc5b012a493f663eb9d127f870f15e247f716ac6be45eb0a1d20e2d761922772b3d9ff2d4258af7ed7aab'),
    'q': bytes.fromhex('d76a626a37835b4a81f9e6e66d005e80cbf4a69b'),
    'g': bytes.fromhex('663739c0373715d13efe95c2b4618aff5cab3c65c136df49dc0970e955bf69d917d1e8d7747f00b2386a189c4c582eba22e3701351260ecb2e4cc35093e2718a5d0b4475035acebe71842b640ed0a4ce6657185ea12483062b5629ce002e250faaec22f96c03c234243b8b612e839677c4bc7c6efe6a97147d206730ee62d40c'),
    'x': bytes.fromhex('6bb5c6ab5860856ca337c19cbb6b733122b50dd7'),
    'y': bytes.fromhex('bf7c08446c6f9f5b1896c5f19ea64e82ddbfa00097e5a779804b9ba2bbb2c94039ef959f5f5f17870a8e2a8137eade0d7d0ff11e7a733042bc1be85d1fb633dec6910a9fa023eab0a88be3e54793e9bb08179f2d5bf267bf8b2765c4e9b59f70861f4e816ee30f14b5bd9b1ebd5b6ceb9b52e06ee8bddb9439ba89b3c0227320'),
}
DH = {
    'p': bytes.fromhex('b8ca3c766bfbb2715515be6ff7d5929fd6486d5430cfa291a2da46f1d5c32d6656092d0a8d7f83e719c231fa2d5cd5bc6588cd03557255487e8c57185b7fea482cd3ce9aff2c999b37fa175493f815c57fcaa37100cf4e6eac3b0f8ef98d441bae848a3fc5a0a53e83a9ef1638eca34608bfd290d9f61c72da0f39708460364b'),
    'g': bytes.fromhex('02'),
    'x': bytes.fromhex('e846316affa1bf57f8cb6b530625e4307803ae48a516d47cbbb4f154caaf4090'),
    'y': bytes.fromhex('43e4ea248cd511ef8531f753ded23dd6bf024bcbd09e0ab7695f410f20967f36c5026e7c61e42ae17de368547ee91e1a851553ec122e520ddccc6c3cba008845a28f24f0475f4785b61f7c69ecbde157e627ef38bc26fa8291ac7cc50bf1d342e98bbdedc661938d7563ba59f00dc8c6bb196ec6960806953d129f75d500abc8'),
    'x2': bytes.fromhex('8304dc670b88702866aa300c6b560a4179c97d7368eff0e476f95f6515a80b89'),
    'y2': bytes.fromhex('4c6a1d26ecfc203f81e117dfcf7b57ab3ba5b38e02cd33965fa1f067f6aa91f64c6e09031df55efe8b95156dcdae53ebff32e0b14fa64099c2996bcfc3df9eae3c7b4532401e1716369677094571d6e9f48c997a5af8cfbb24a690c0e4f785dd8f631600be779d275e81a3fc19a02ca65a3935f69af046530ec59bfc1abeba0d'),
    'shared': bytes.fromhex('1c3d0039297f8845aa7de5b6954106ef7dd11c467d08a7c10ae03e79d7f8506738259ccdf259b586484b818f2c4843a6e797ec5a7244718bd09b24aaae082206f08608a471904578a52673a4f5504f0651b420789a6c671a514a8bd7fba6f21f1d4a591a511deb1c5653ace2246d70ad9014627fae1cca9d23751ebce63b3b03'),
}
EC = {
    'params': bytes.fromhex('06082a8648ce3d030107'),
    'd': bytes.fromhex('684115125ec0e0df65e905991f0098f544aa5980010083bd3ceba0c33520a214'),
    'point': bytes.fromhex('04627fdbab9f3d87be1b35062ff9d99f373b82d6540020b319e12cbdca1604d4715601483f40fa19b187d7d381470d7ce24f97f0b67aff70cbf74600c3017600f5'),
    'd2': bytes.fromhex('e15815fecebbf9a8c436ed16df4f091c5504705c931238af8257c82f8a1e7a32'),
    'point2': bytes.fromhex('04ed2f949457f0aed92581a9424b13bbc2ef497f56861865d3f08f327bf5edbd4eef0ee27f8dfe62a8932837e62c791a0bf05f3f23aa88339587710415135896b5'),
    'shared': bytes.fromhex('49c7666e05fd98d190c9b313e321fa8005b1fa3439f68f4e85c7f921e4bbc565'),
}
ED = {
    'params': bytes.fromhex('130c656477617264733235353139'),
    'seed': bytes.fromhex('c18186d831d1b7336ab871b4f76c89a828e48a942fb11d37f743658afecf4bf8'),
    'pub': bytes.fromhex('9e66c5696181a69c3a3722082cec6eb9e3ab9162d43f4a1dae9ad2f2d1b90b3d'),
}
X25519 = {
    'params': bytes.fromhex('130a63757276653235353139'),
    'k': bytes.fromhex('7bea6f9258a3bc1032f62b3f7fd4da8a510bd4fe667e2c4e3c89d615c86224dd'),
    'pub': bytes.fromhex('837ca3488e6fdad73841355624752eb5aa73145c3fd434079fd20d9db280b027'),
    'k2': bytes.fromhex('ae1f559ffcac12d0bb6e0212f3e56486bd1ccbca4789f38bcb672ed5e17b59c3'),
    'pub2': bytes.fromhex('424fcf9a2657101656aaae892c13022835f28d83a4b3047810bd1c3503228c2d'),
    'shared': bytes.fromhex('39dbf179b6121d4e3e102d0da99d154bd71c05d2a296b4966988306269a7457f'),
}

# ---- symmetric material: kinds of equal length share their bytes on purpose (an AES-24 key has the bytes of the
# DES3 key, ...), so that artefacts (ciphertexts, wrapped blobs) made with the right key type would also "work" if
# the library confused the key type -- the confusion then shows up as CKR_OK instead of hiding behind a padding error.
def _odd(b): return bytes((x & 0xFE) | (1 ^ (bin(x >> 1).count('1') & 1)) for x in b)
import hashlib as _h
_S = _odd(b''.join(_h.sha256(b'keys_fixed2/%d' % i).digest() for i in range(2)))
SYM = {8: _S[:8], 16: _S[:16], 24: _S[:24], 32: _S[:32], 64: _S[:64]}
SYM_B = {n: _odd(_h.sha512(b'second/%d' % n).digest()[:n] if n <= 64 else b'') for n in (8, 16, 24, 32, 64)}  # a second, different value per length

# kind -> (object class, key type name, length or None)
SECRET_KINDS = {
    'AES16': ('CKK_AES', 16), 'AES24': ('CKK_AES', 24), 'AES32': ('CKK_AES', 32),
    'DES': ('CKK_DES', 8), 'DES2': ('CKK_DES2', 16), 'DES3': ('CKK_DES3', 24),
    'GEN16': ('CKK_GENERIC_SECRET', 16), 'GEN24': ('CKK_GENERIC_SECRET', 24), 'GEN64': ('CKK_GENERIC_SECRET', 64),
    'HMD5': ('CKK_MD5_HMAC', 64), 'HSHA1': ('CKK_SHA_1_HMAC', 64), 'HSHA224': ('CKK_SHA224_HMAC', 64),
    'HSHA256': ('CKK_SHA256_HMAC', 64), 'HSHA384': ('CKK_SHA384_HMAC', 64), 'HSHA512': ('CKK_SHA512_HMAC', 64),
}
ASYM = ('RSA', 'DSA', 'DH', 'EC', 'ED', 'X25519')
ASYM_KINDS = [a + s for a in ASYM for s in ('pub', 'priv')]
ALL_KINDS = list(SECRET_KINDS) + ASYM_KINDS
FAMILY = {'AES16': 'AES', 'AES24': 'AES', 'AES32': 'AES', 'DES': 'DES', 'DES2': 'DES', 'DES3': 'DES', 'GEN16': 'HMAC', 'GEN24': 'HMAC', 'GEN64': 'HMAC',
          'HMD5': 'HMAC', 'HSHA1': 'HMAC', 'HSHA224': 'HMAC', 'HSHA256': 'HMAC', 'HSHA384': 'HMAC', 'HSHA512': 'HMAC'}
for _a in ASYM: FAMILY[_a + 'pub'] = FAMILY[_a + 'priv'] = ('ED' if _a == 'X25519' else _a)
def kclass(kind): return 'secret' if kind in SECRET_KINDS else ('public' if kind.endswith('pub') else 'private')
def ktype(kind):
    if kind in SECRET_KINDS: return SECRET_KINDS[kind][0]
    return {'RSA': 'CKK_RSA', 'DSA': 'CKK_DSA', 'DH': 'CKK_DH', 'EC': 'CKK_EC', 'ED': 'CKK_EC_EDWARDS', 'X25519': 'CKK_EC_EDWARDS'}[kind[:-3] if kind.endswith('pub') else kind[:-4]]
USAGE = {'secret': ('CKA_ENCRYPT', 'CKA_DECRYPT', 'CKA_SIGN', 'CKA_VERIFY', 'CKA_WRAP', 'CKA_UNWRAP', 'CKA_DERIVE'),
         'public': ('CKA_ENCRYPT', 'CKA_VERIFY', 'CKA_WRAP', 'CKA_DERIVE'),          # CKA_VERIFY_RECOVER exists too; no entry point uses it
         'private': ('CKA_DECRYPT', 'CKA_SIGN', 'CKA_UNWRAP', 'CKA_DERIVE')}
def _oct(b): return b'\x04' + bytes([len(b)]) + b          # DER OCTET STRING, short form (len < 128)

def material(kind):
    """the key-material attributes of `kind` as [(name, bytes)] -- public attributes first, secret ones last"""
    if kind in SECRET_KINDS: return [('CKA_VALUE', SYM[SECRET_KINDS[kind][1]])]
    a, pub = (kind[:-3], True) if kind.endswith('pub') else (kind[:-4], False)
    if a == 'RSA':
        r = RSA
        return [('CKA_MODULUS', r['n']), ('CKA_PUBLIC_EXPONENT', r['e'])] + ([] if pub else [('CKA_PRIVATE_EXPONENT', r['d']), ('CKA_PRIME_1', r['p']), ('CKA_PRIME_2', r['q']),
                ('CKA_EXPONENT_1', r['dp']), ('CKA_EXPONENT_2', r['dq']), ('CKA_COEFFICIENT', r['qinv'])])
    if a == 'DSA': return [('CKA_PRIME', DSA['p']), ('CKA_SUBPRIME', DSA['q']), ('CKA_BASE', DSA['g']), ('CKA_VALUE', DSA['y'] if pub else DSA['x'])]
    if a == 'DH': return [('CKA_PRIME', DH['p']), ('CKA_BASE', DH['g']), ('CKA_VALUE', DH['y'] if pub else DH['x'])]
    if a == 'EC': return [('CKA_EC_PARAMS', EC['params'])] + ([('CKA_EC_POINT', _oct(EC['point']))] if pub else [('CKA_VALUE', EC['d'])])
    if a == 'ED': return [('CKA_EC_PARAMS', ED['params'])] + ([('CKA_EC_POINT', _oct(ED['pub']))] if pub else [('CKA_VALUE', ED['seed'])])
    if a == 'X25519': return [('CKA_EC_PARAMS', X25519['params'])] + ([('CKA_EC_POINT', _oct(X25519['pub']))] if pub else [('CKA_VALUE', X25519['k'])])
    raise KeyError(kind)
SECRET_ATTRS = ('CKA_VALUE', 'CKA_PRIVATE_EXPONENT', 'CKA_PRIME_1', 'CKA_PRIME_2', 'CKA_EXPONENT_1', 'CKA_EXPONENT_2', 'CKA_COEFFICIENT')
def secret_attrs(kind):
    """[(name, value)] of the attributes of a secret/private key kind that C02 protects"""
    if kclass(kind) == 'public': return []
    return [(n, v) for n, v in material(kind) if n in SECRET_ATTRS]

def template(kind, token=False, private=False, usage=None, extra=None, label=None):
    """C_CreateObject template (list of (name, python value)) for `kind`.
    usage: None = every usage flag of the class true, else dict/iterable of the flags that are true (others false).
    Secret/private keys get CKA_SENSITIVE false and CKA_EXTRACTABLE true unless `extra` says otherwise (Appendix B defaults)."""
    c = kclass(kind); t = [('CKA_CLASS', {'secret': 'CKO_SECRET_KEY', 'public': 'CKO_PUBLIC_KEY', 'private': 'CKO_PRIVATE_KEY'}[c]), ('CKA_KEY_TYPE', ktype(kind)),
                           ('CKA_TOKEN', bool(token)), ('CKA_PRIVATE', bool(private))]
    if label is not None: t.append(('CKA_LABEL', label))
    ex = dict(extra or {})
    if c != 'public':
        t.append(('CKA_SENSITIVE', ex.pop('CKA_SENSITIVE', False))); t.append(('CKA_EXTRACTABLE', ex.pop('CKA_EXTRACTABLE', True)))
    for f in USAGE[c]: t.append((f, True if usage is None else (f in usage)))
    t += material(kind)
    t += list(ex.items())
    return t

def resolve(ck, tmpl):
    """turn symbolic values ('CKO_..', 'CKK_..', 'CKM_..') into numbers"""
    out = []
    for n, v in tmpl:
        if isinstance(v, str) and v.startswith(('CKO_', 'CKK_', 'CKM_', 'CKC_')): v = ck[v]
        out.append((n, v))
    return out

# ---- fixture: one initialised token with SO and user PIN, returns (slot, rw session handle)
SO_PIN = b'so-pin-1234'; USER_PIN = b'user-pin-77'
def setup_token(x, label=b'verif', login=True):
    r = x.call('C_Initialize', locking='os'); assert r['rv'] == 0, r
    slot = x.call('C_GetSlotList', count=16)['slots'][-1]
    r = x.call('C_InitToken', slot=slot, pin=SO_PIN.hex(), label=label.hex()); assert r['rv'] == 0, r
    h = x.call('C_OpenSession', slot=slot)['h']
    assert x.call('C_Login', s=h, user=0, pin=SO_PIN.hex())['rv'] == 0
    assert x.call('C_InitPIN', s=h, pin=USER_PIN.hex())['rv'] == 0
    assert x.call('C_Logout', s=h)['rv'] == 0
    if login: assert x.call('C_Login', s=h, user=1, pin=USER_PIN.hex())['rv'] == 0
    return slot, h
def create(x, s, ck, kind, **kw):
    """C_CreateObject of a fixed key; returns the reply (r['h'] is the handle when r['rv']==0)"""
    return x.call('C_CreateObject', s=s, tmpl=x.T(resolve(ck, template(kind, **kw))))
