"""Fixed key material for C17 / C20: every executor of every configuration imports the SAME keys, so
deterministic outputs can be compared byte for byte and randomised ones cross-fed.  The asymmetric keys were
generated once by the library itself (asan build, C_GenerateKeyPair, extractable) and frozen here; the
certificate comes from the openssl CLI.  All values are hex strings keyed by attribute name ('priv:CKA_VALUE'
is the private value where the public object also has a CKA_VALUE)."""
RAW = {
 "rsa1024": {
  "CKA_MODULUS": "de19fdb95f5cacda2b693aedc93e21d5f326a7ad981da5aff0d0bdb27cb01a04aa401bf2e2d5748b2376a60b07c4dc1bc15a1138c999ae7d17b9182d078fcff37e441234ae2d1592fecd1c1f61b7ca8dea31c75ceecb779e24f1a47f5d174a9268635b6aef29676a61c99c28c37bc914572c939b28537c1727d7307dd5a5f21f",
  "CKA_PUBLIC_EXPONENT": "010001",
  "CKA_PRIVATE_EXPONENT": "ced5959bd45b11fdfaff7c898527ff8aa76e102971c7ea4cf70eee1a12544d669ac62941004d98c31abb9bd619de12bd264b224ea8301e771068a743080fbdaf606c287645b5ca5276c2edf470ebe285e50fdb6de3d81a7931a802402650525c161927710e515eca3d88cc9382eb91ed19644b135256828c16f9e9d4638a4441",
  "CKA_PRIME_1": "f2e88c336f5449af5ed77d6c532d5b268772fa1cbd580c567f04ebd39d13e309337b46a12d018c142556bf24ff233780c58d3ee61fe7c5ddeb24d8015a49e2e3",
  "CKA_PRIME_2": "ea125e077e9ebe7fca6b3f80d3f348a39654a0c3c51b3d9228b8b9fa9acc2b0c9c56978c1771fe96d8dff211e56fab24b809d1c5c9cc1922e1de559b8848cc95",
  "CKA_EXPONENT_1": "b80360ca4a293114d0253097923f46d0de4544a1e6f23f8e7af4d06de38dc02d2539db1c984a96c26032e1e475ff48b99d6e4ddae90a9c836bf1e24ccc0832ff",
  "CKA_EXPONENT_2": "1b9e8133d72ffa00702d0978350a2ed706a503b735e9c9f11616fdf2e113183d4bb137fe92c1a3adbef765c3d0d3c558f6d249cb51cd6065ea4ae6c50c66b2a5",
  "CKA_COEFFICIENT": "b034c1da9253c7cb567d8f46ae906c45871fd80fb4e112a3aec21ca49f35f206a6e3e95003df1b01b47db8a62b4333c8bd0f06319c1559e4487a8ea11e3a4309"
 },
 "rsa2048": {
  "CKA_MODULUS": "b072c390e32a010dc607f77052bb9c4bfd5d57f5edb7200e0baedfd472edd060554c45d098fb51b55339175006272322014461046676e151ddcd91b0c769c34feb5cf4484a4d1ac2294df442ad6a28c28478b00e8d002417c6a85b5858d6d662ad8559da40eea47bc0eb8ad61d86238ce8a690d5374c3d5c386277ef3f3d4aab308ef834ebff370a2226eb35d5c033b4975f0717f82698d2b93c1d38ed168e8df171f8053bbe956392cd208815b1f1d44605a6c386d8c6592d91e94f38c00609fe4641a4b363774ccb1e28c3f8299d22d2c5312437e659e1bcb4c71966041ea0d21381bd9f6d254c97accb1a42db963e1889e5c4c44d6b744d5f738dff256711",
  "CKA_PUBLIC_EXPONENT": "010001",
  "CKA_PRIVATE_EXPONENT": "a44c388dd0f86bc2c782e38453851e2423e7a6dff8596c1fa8014daa24da0c0da75f3e22de5025e51179379bec1ec53804b6072071c880461aa22fe6cbc84f753b5372a35d8c2e3e5cf79959fcdfbcd463457daa0ee0f2bab0e0532e108afb5526fde48cb5a980bf3b041863075abfff952283fa0563983f26c189abdcd6d58ec28787fc24b2b8c83358d3a69d188ee219795425ee6e1b4ce366dc214d6ce184458243c21b6d02415722e9c126b446332d8c902a98eefd0f452e70265509657a3f4341e7265c44b6134f82e42d656d65d851198673c1e83bab652d8385f812d1bb7711c61e83ff576fe92a0d2b27356565abd7bdb5f393651dc73f484bfe81",
  "CKA_PRIME_1": "f28253db88f90cc491db5e484ca44fc5a22b21d5ac314e2b999d5bf40a3f1e162a60ed6310f8a9c1572f4639a0dcc10d73b1cac413bbe436d8c1fc7eba8f6126520b6e4bf99d2c9b0a06f74fde282d3f080ae635b7edcd2b33fa956d937e76d37b3a0298e1023ece23b3be18d9dfe6bfba325457e015047cbf04e3ffa7f5f8c1",
  "CKA_PRIME_2": "ba43a320257a9051311cf0675b7855419db2290dee7105ac5d49ea727d06c3a04a0f41ec45b141c1ceba714fdd2ef1c927b4ed156d5e08668457f50ce1543dc6a81428ae566bc41b4d59af27eafb03e967f6a07aba326cc6061b258d893e898e743633d86d063a47c09f66fd067f8255d919f633833992394342ad8fa2bc3251",
  "CKA_EXPONENT_1": "0828c4638587439bb58098fa7bc1a78171c45bbe11ae13003a89e5d71f252281026a0272abd681f7a4544ddb9082fce7d3f5ae69cc742ce87f807f5b503194c6324a7a2a8a3a748ebed69f298bc2f44ac39d82435a6de0d24c4c690ca7c2c082bb09a79eb72b592b9c5de6ce753e2848591e6a620e8306849ff4ad2b23de8dc1",
  "CKA_EXPONENT_2": "b39f465059d438181424b430f824b312f3e03b7713da2a7e6df839feee52f7943bd73adb7ed9d16ff4cc1739cd32d83803f2962f73a89ab1422f1041bb8a618891cddeed40a9ec13e823f4a5aa1527508ed16730f31e6d87099c643a797fb5678aea3a551bce45a5ac3c0c35356f0161885b60f18c3a98a860148d0b5703e601",
  "CKA_COEFFICIENT": "6e869912c0a57d45e5d01809797763c157b8de6e52c2e51dad05a9c31c5d3f6c2f93c18776d41688eac54d3b7bfd7067a4ed2ea818095d6525be48552e8cdb38a69c321b528d229b4716dfebbe6147ab897e9ec008c0935e210da1254c1640c54547fc786ef3632d6da2d747fead08f9a69815aea57fe5d849ba6be116f32922"
 },
 "ec_p256": {
  "CKA_EC_PARAMS": "06082a8648ce3d030107",
  "CKA_EC_POINT": "044104a354f13218e2e0f397c2cdd01dd3dd73926f7085e7c460f64f05cc75488a91bd453ff9752bd375ee3e084ce137e86a775d2b0e1c3bd501e003d508c9688640b4",
  "CKA_VALUE": "7d0a4a6ccbabaadb2d33c52df9e8723bf887d87188ce0ce6acd4ecbb09ad4ba7"
 },
 "ec_p256b": {
  "CKA_EC_PARAMS": "06082a8648ce3d030107",
  "CKA_EC_POINT": "0441043b28c64513f1492c1bdf95d7c8562faf4491edb03f694f97a74d987e07331de65bcf68687bf600c055f88b25c144e9534cbe75a3c82da30f334cdbdd7a99cce1",
  "CKA_VALUE": "2e405b4ac58f53c3b616d02494b64fb489d272a90c033c5a2f1e5348f87dad58"
 },
 "ec_p384": {
  "CKA_EC_PARAMS": "06052b81040022",
  "CKA_EC_POINT": "046104a41728b0ead729e9bf76f3c547474fe17951eb50116f8553b730e2c02de10834e81cea2ccd6e33701fc3a7fc89394700050965691458ec93e4885eb6e570a32899c28bea8067df66a059cac265f3350be0964cfbf4e3191fcf41691851e6a8bb",
  "CKA_VALUE": "bce0ecbc9d3cf2b9e4d93450e9a138a6fa88412250e4e2e39e1e696c2d12abe5a5bffda3005a0cca20a4bd6b496b8e46"
 },
 "ec_p384b": {
  "CKA_EC_PARAMS": "06052b81040022",
  "CKA_EC_POINT": "0461040d68f69b37f356e45848e9a62ae631c821fd2a41144dfcefd3ed6105e5ef9b1035a514a99b659b7faa34be1f5b82bf8d4b6031dc526f92a3b3de653f1462f251256538acd7e0731489d2b3e02d7c116c30f51c5393605ec6254a9ee330991719",
  "CKA_VALUE": "cd42ca33a438b11db780be743bd7c5eafe2869cd1db9c92e0a1be49702fde3767ed28b47c72004697261c6d88b2e354b"
 },
 "ec_p521": {
  "CKA_EC_PARAMS": "06052b81040023",
  "CKA_EC_POINT": "04818504014fe1de6304b1df488ed1ad7f42a41bf079b9db269b529f4f00cd0d9bbda732c4e6ee5cf25c7a81a5081e9f37f3ff368e7d9f089b2a3a1a2a57adda750ff6f1a9da01b5cacbc1f9e0fa72e8114d735e0b2e84a9a7b1f7baa6d7020d4d294eb11539bfac4ce4278ef7e1bd7f59e9a555d7658a4b07c747174cec8a757f71fc10d87a6e7d",
  "CKA_VALUE": "015853e74bdc156527db2cc569ee5587c650a9c01e4e3a5c02806ec7ef04d0657fa2671637053231809e2e4b5caeb80e5795684d93ae7b01e8f3e1b9ecf0b54138e1"
 },
 "ec_p521b": {
  "CKA_EC_PARAMS": "06052b81040023",
  "CKA_EC_POINT": "0481850400e9a62acb5c7ee7237a2fa383d163ab0ff73c2db448778b34fe71367fb62d396be4d4758bcbe2bbedb2eee0f958a17eb060c65bcab58b941ab5a8f9ab06490d719c0126af1ebdcbcf209bf1f1da3786ed8cae0aa4d365338d18c5a7f5e1752b7e303cc133abd2ae511a15a1ed0bf9b7f759fa3b00b40eee26fc592e1fbc6178b63aa0e7",
  "CKA_VALUE": "01b9f23f178db720cefa9843b6e0baed37ccb55d545d66fc47bf997bd4ce6579a4327463fe100dfa36964a0cb53a8778a1caa33300fd7cc01a3551cd153dc6d2d755"
 },
 "ed25519": {
  "CKA_EC_PARAMS": "06032b6570",
  "CKA_EC_POINT": "0420d517ba7bf57acdc7bd10b3f4844fd47e6c9939166ddf6edabd7abd87e5fc75b9",
  "CKA_VALUE": "6584dc65db7b66cad13b346c0f0206f7c19797aeb3b6b2a13cc52ac08357cf3a"
 },
 "ed25519b": {
  "CKA_EC_PARAMS": "06032b6570",
  "CKA_EC_POINT": "042015b9c2409d413b59c18343f2905efa4a8b437709c37f4d0773cf992ea8ae5a44",
  "CKA_VALUE": "1eb6810e981e59970bee935fdb26c4aba88d2077b85cdcf27a55c02974e04488"
 },
 "dsa1024": {
  "CKA_PRIME": "c5fe10c319da6fed788ca764b16d9eb9333abb7fdcaa0bc085a9d22bba6d5ef9fa8b4b296a2ceee14cad0c8ffa6a0fef45b2afc4543d1bdc2dc4cfb782a56115b9aea79400261fc8bd809f5ea40a86af3e976adbacb1ccaaefbb4b569181aa2b49845a5486ea1b07fc3377569040a811e86b4e3d0f611f475fde51471376dee7",
  "CKA_SUBPRIME": "e5915fa7a7492fcbb35d8b52558247b257e93b3b",
  "CKA_BASE": "bd9993adc1f47340095b531b4c8591af6ea222c1e74f441c04e7b82361cddab3e7f72af505c91153f84b4b09b578893e65383433ee3abd52bf71c004f93e02390da7b0097af6a643711041c7a244d2def8e7b03700e13431e619aaefe38c926dd8a48b113b73a4445fd30d16da6ce590cac4abfa27dfcfcf69322280ba5fc20b",
  "CKA_VALUE": "52653e1f9432eb976e00d8235fd7a8d4396a4f96ca605654b4f465ea54524719e9b1be6aec6932259b483fdafe5cb6e98b06c38666943edaa08ceed90d0174bd9aea7280be9771814803611fe97c774507008341e5e8bf0b45567141e411563d34cde956dbed40566f45a9ad506f2eeaeb879274bb1adeaaeeead1215f9cdb5a",
  "priv:CKA_VALUE": "3dbdaaa83f0e5dfdf1a0d2cff2b50ba46ac3f0d0"
 },
 "dh1024": {
  "CKA_PRIME": "b39a0e8df88323db3f39396811ae2dbd14eb5a79328b8b8634442c257bf666594052603776ed7eec57ab77e7315e9639b8a0a99fea866f5085b0975439b7e28e7affccf9bcd821c3bfe75884948b31a4b95fabc76d444a01f5ed3aaa54849d9a0df19d14e1c8dcd9a447998e162a43340d09ed1fd39d8d8eacb0d4070fb7d427",
  "CKA_BASE": "02",
  "CKA_VALUE": "6bfaa090b363fe8b563db27f2b12b7af64fcf6cf8ffde4d897ad7d0943403ea68caacfdebc9bbcdd979720d8e2cae66070f4e98eef7f20cf5d1b13967e5d0d43827538c4a61d445f36fe6aba9bbcc078b78f6f818f32b06f39bed8921c63068d2a6ddec648e523aac114195b40cd35ac45feaa6228a79846bcba22478371d1e7",
  "priv:CKA_VALUE": "21a3bf41501cfd76010355f12fa7fe651f95c098ad2871c1e9860671654cf5ae05e22caba51e32a5758a5b6b8b9f80cac1a0469a21cbb4fa43fa6c8233b430921181fbae10bd9b766f75aa661a55ea0ec406db3657b1cda5be828e6943e912e3a2cd4a89be820332cee540b0ced41fa0d16b710eb71e3cdeb53e9191ddcb21b0"
 },
 "dh1024b": {
  "CKA_PRIME": "b39a0e8df88323db3f39396811ae2dbd14eb5a79328b8b8634442c257bf666594052603776ed7eec57ab77e7315e9639b8a0a99fea866f5085b0975439b7e28e7affccf9bcd821c3bfe75884948b31a4b95fabc76d444a01f5ed3aaa54849d9a0df19d14e1c8dcd9a447998e162a43340d09ed1fd39d8d8eacb0d4070fb7d427",
  "CKA_BASE": "02",
  "CKA_VALUE": "87d84ad0b8d238f4ac1619da88586bdfdca50dd9e3ad0bbdb37f19790d91f373fe859b610f769fd604add2a8a5a123dd57f37b11d8a085b37b7d961d032aa5dfde9aa34dcd6f6661d33b0c9b06f134e5c85f703736e8354375983c8716249870625e302a10e160876a2f6d0c4c2ee3642caf56657b169b9f4d4a5bd6f6324950",
  "priv:CKA_VALUE": "390a807582aea291cd58be667031762863ea6210d9cc050fbdcd944ed4a53246d78f66e7b93f93d5fc3b69fd5432d6b5a195ba0d378da5d79b8c4b97b8f61624946c08774ebef5e8cf0125d14477395c8f9666c9ec0c214728a7026f1dc93fd4362a0d1fad0c5892353902a8601eced6efdf70d6ccb327b934d5f8312dc65be3"
 },
 "x509": {
  "CKA_VALUE": "308202243082018da003020102021463514f573fd0705e6b87fb3cd21bb4b7f2357213300d06092a864886f70d01010b050030243112301006035504030c0976657269662d633137310e300c060355040a0c057665726966301e170d3236303932363131343832315a170d3336303932333131343832315a30243112301006035504030c0976657269662d633137310e300c060355040a0c05766572696630819f300d06092a864886f70d010101050003818d00308189028181009974d7b2d0d215e4a09c5098221613cd32550fce7e37d4da63b68d57d3a79eedc075fc85f4b2d3b23b6e8881e2b2b1c4445672da40b30a9099aa8dddf1d36a207855ef06a675ea31e786c7beff9ce0922be014aa07902e282175a897e541c946df9ea5bd39607d6c74e3891f7f27c73125076658294e19bbeaac0bae9ed1c2130203010001a3533051301d0603551d0e041604147b9ab260da9ea3fe679b2096008963dc9f8f0008301f0603551d230418301680147b9ab260da9ea3fe679b2096008963dc9f8f0008300f0603551d130101ff040530030101ff300d06092a864886f70d01010b05000381810017e171698e0752e6208746f081c583818fbfe699d5218aedfcfa889e91c076eb1dda3d2597d011309868991694c03c6b229dc2b4ed5bc18aacea547ef78969f586595f90dd963504306775cd9d8a324f30c65e99d5c1ed85e3ac4fd8113a5bdaaa6618a11208410f6dd084e2ab8ac316fb467839fe786a6d684d1d12e4d1af04",
  "CKA_SUBJECT": "30243112301006035504030c0976657269662d633137310e300c060355040a0c057665726966",
  "CKA_ISSUER": "30243112301006035504030c0976657269662d633137310e300c060355040a0c057665726966",
  "CKA_SERIAL_NUMBER": "021463514f573fd0705e6b87fb3cd21bb4b7f2357213"
 }
}

def _b(kind, name): return bytes.fromhex(RAW[kind][name])
SECRET = {
    'aes128': ('CKK_AES', bytes(range(0x10, 0x20))),
    'aes192': ('CKK_AES', bytes(range(0x20, 0x38))),
    'aes256': ('CKK_AES', bytes(range(0x40, 0x60))),
    'des3':   ('CKK_DES3', bytes.fromhex('0123456789abcdef23456789abcdef01456789abcdef0123')),
    'des2':   ('CKK_DES2', bytes.fromhex('0123456789abcdef23456789abcdef01')),
    'des':    ('CKK_DES', bytes.fromhex('0123456789abcdef')),
    'generic32': ('CKK_GENERIC_SECRET', bytes(range(0x61, 0x81))),
    'generic64': ('CKK_GENERIC_SECRET', bytes(range(0x81, 0xc1))),
    'generic1': ('CKK_GENERIC_SECRET', b'\x5a'),
}
USAGE_SECRET = ['CKA_ENCRYPT', 'CKA_DECRYPT', 'CKA_SIGN', 'CKA_VERIFY', 'CKA_WRAP', 'CKA_UNWRAP', 'CKA_DERIVE']
USAGE_PUB = ['CKA_ENCRYPT', 'CKA_VERIFY', 'CKA_WRAP', 'CKA_VERIFY_RECOVER']
USAGE_PRIV = ['CKA_DECRYPT', 'CKA_SIGN', 'CKA_UNWRAP', 'CKA_DERIVE', 'CKA_SIGN_RECOVER']

def kinds():
    """all object kinds that template() can build"""
    out = list(SECRET)
    for k in RAW:
        if k == 'x509': continue
        out += [k + ':pub', k + ':priv']
    return out + ['x509', 'data', 'dsa-params', 'dh-params']

def template(kind, label=None, token=False, private=False, sensitive=False, extractable=True, usage=True, extra=()):
    """[(attribute name, python value)] for C_CreateObject; pass through Exec.T()"""
    lab = (label if label is not None else kind).encode() if not isinstance(label, bytes) else label
    common = [('CKA_TOKEN', token), ('CKA_PRIVATE', private), ('CKA_LABEL', lab)]
    if kind in SECRET:
        kt, val = SECRET[kind]
        t = [('CKA_CLASS', 'CKO_SECRET_KEY'), ('CKA_KEY_TYPE', kt)] + common + [('CKA_VALUE', val), ('CKA_SENSITIVE', sensitive), ('CKA_EXTRACTABLE', extractable), ('CKA_ID', lab[:8])]
        t += [(u, bool(usage)) for u in USAGE_SECRET]
        return t + list(extra)
    if kind == 'data':
        return [('CKA_CLASS', 'CKO_DATA')] + common + [('CKA_APPLICATION', b'verif-app'), ('CKA_OBJECT_ID', bytes.fromhex('06032a0304')), ('CKA_VALUE', b'data object value \x00\x01\x02')] + list(extra)
    if kind == 'x509':
        return [('CKA_CLASS', 'CKO_CERTIFICATE'), ('CKA_CERTIFICATE_TYPE', 'CKC_X_509')] + common + [('CKA_SUBJECT', _b('x509', 'CKA_SUBJECT')), ('CKA_ISSUER', _b('x509', 'CKA_ISSUER')),
                ('CKA_SERIAL_NUMBER', _b('x509', 'CKA_SERIAL_NUMBER')), ('CKA_ID', b'cert-id'), ('CKA_VALUE', _b('x509', 'CKA_VALUE'))] + list(extra)
    if kind == 'dsa-params':
        return [('CKA_CLASS', 'CKO_DOMAIN_PARAMETERS'), ('CKA_KEY_TYPE', 'CKK_DSA')] + common + [(a, _b('dsa1024', a)) for a in ('CKA_PRIME', 'CKA_SUBPRIME', 'CKA_BASE')] + list(extra)
    if kind == 'dh-params':
        return [('CKA_CLASS', 'CKO_DOMAIN_PARAMETERS'), ('CKA_KEY_TYPE', 'CKK_DH')] + common + [(a, _b('dh1024', a)) for a in ('CKA_PRIME', 'CKA_BASE')] + list(extra)
    base, half = kind.split(':')
    fam = 'rsa' if base.startswith('rsa') else 'ec' if base.startswith('ec_') else 'ed' if base.startswith('ed') else 'dsa' if base.startswith('dsa') else 'dh'
    kt = {'rsa': 'CKK_RSA', 'ec': 'CKK_EC', 'ed': 'CKK_EC_EDWARDS', 'dsa': 'CKK_DSA', 'dh': 'CKK_DH'}[fam]
    r = RAW[base]
    if half == 'pub':
        t = [('CKA_CLASS', 'CKO_PUBLIC_KEY'), ('CKA_KEY_TYPE', kt)] + common + [('CKA_ID', base.encode())]
        if fam == 'rsa': t += [('CKA_MODULUS', _b(base, 'CKA_MODULUS')), ('CKA_PUBLIC_EXPONENT', _b(base, 'CKA_PUBLIC_EXPONENT'))]
        elif fam in ('ec', 'ed'): t += [('CKA_EC_PARAMS', _b(base, 'CKA_EC_PARAMS')), ('CKA_EC_POINT', _b(base, 'CKA_EC_POINT'))]
        elif fam == 'dsa': t += [(a, _b(base, a)) for a in ('CKA_PRIME', 'CKA_SUBPRIME', 'CKA_BASE', 'CKA_VALUE')]
        else: t += [(a, _b(base, a)) for a in ('CKA_PRIME', 'CKA_BASE', 'CKA_VALUE')]
        t += [(u, bool(usage)) for u in USAGE_PUB]
        return t + list(extra)
    t = [('CKA_CLASS', 'CKO_PRIVATE_KEY'), ('CKA_KEY_TYPE', kt)] + common + [('CKA_ID', base.encode()), ('CKA_SENSITIVE', sensitive), ('CKA_EXTRACTABLE', extractable)]
    if fam == 'rsa': t += [(a, _b(base, a)) for a in ('CKA_MODULUS', 'CKA_PUBLIC_EXPONENT', 'CKA_PRIVATE_EXPONENT', 'CKA_PRIME_1', 'CKA_PRIME_2', 'CKA_EXPONENT_1', 'CKA_EXPONENT_2', 'CKA_COEFFICIENT')]
    elif fam in ('ec', 'ed'): t += [('CKA_EC_PARAMS', _b(base, 'CKA_EC_PARAMS')), ('CKA_VALUE', _b(base, 'CKA_VALUE'))]
    elif fam == 'dsa': t += [(a, _b(base, a)) for a in ('CKA_PRIME', 'CKA_SUBPRIME', 'CKA_BASE')] + [('CKA_VALUE', _b(base, 'priv:CKA_VALUE'))]
    else: t += [(a, _b(base, a)) for a in ('CKA_PRIME', 'CKA_BASE')] + [('CKA_VALUE', _b(base, 'priv:CKA_VALUE'))]
    t += [(u, bool(usage)) for u in USAGE_PRIV]
    return t + list(extra)

def resolve(ck, tmpl):
    """replace symbolic CKO_/CKK_/CKC_ names by numbers"""
    return [(a, ck[v] if isinstance(v, str) else v) for a, v in tmpl]
