"""Client for the p11x executor (co-process, JSON lines)."""
import json, subprocess, os, re, select, signal

class Died(Exception):
    """The executor process ended inside a request: the library (or a sanitizer) terminated the host."""
    def __init__(s, note, rc, stderr_tail, fn):
        super().__init__(f'executor died in {fn}: {note} rc={rc}'); s.note = note; s.rc = rc; s.stderr_tail = stderr_tail; s.fn = fn
    def kind(s):
        t = s.stderr_tail or ''
        m = re.search(r'ERROR: AddressSanitizer: ([\w-]+)', t)
        if m: return 'asan:' + m.group(1)
        if s.note and s.note.get('died'): return s.note['died'].split(':')[0] + ((':%s' % s.note.get('code')) if s.note['died'] == 'exit' else '')
        return 'rc=%s' % s.rc
    def where(s):
        """first library frame of the sanitizer report / assert location, for known-finding keys"""
        t = s.stderr_tail or ''
        for m in re.finditer(r'#\d+ 0x[0-9a-f]+ in ([^\s(]+)', t):
            f = m.group(1)
            if not f.startswith(('__asan', '__interceptor', '__sanitizer', 'operator', 'std::', '__GI_', '_IO_', 'malloc', 'free', 'mem', 'str')): return f
        if s.note and str(s.note.get('died', '')).startswith('assert:'): return s.note['died'].split('/')[-1]
        return '?'
class Hang(Exception): pass

class Exec:
    def __init__(self, exe, lib, conf, ck, env=None, trace=None, stderr=None):
        e = dict(os.environ); e['SOFTHSM2_CONF'] = conf
        if env: e.update(env)
        args = [exe, '--lib', lib] + (['--trace', trace] if trace else [])
        self.stderr_path = stderr
        self.errf = open(stderr, 'wb') if stderr else subprocess.DEVNULL
        self.p = subprocess.Popen(args, stdin=subprocess.PIPE, stdout=subprocess.PIPE, stderr=self.errf, env=e, bufsize=0)
        self.ck = ck; self.n = 0; self.timeout = 120; self.buf = b''; self.trace_path = trace; self.keep_log = False; self.log = []
        self.calls = 0
    def stderr_tail(self, n=6000):
        if not self.stderr_path: return ''
        try:
            with open(self.stderr_path, 'rb') as f:
                f.seek(0, 2); sz = f.tell(); f.seek(max(0, sz - n)); return f.read().decode('latin-1')
        except OSError: return ''
    def raw(self, req):
        self.n += 1; req = dict(req); req.setdefault('id', self.n); self.calls += 1
        try: self.p.stdin.write((json.dumps(req) + '\n').encode())
        except (BrokenPipeError, OSError): rc = self.p.wait(); raise Died(None, rc, self.stderr_tail(), req.get('fn'))
        line = self._readline(req.get('timeout', self.timeout))
        if not line: rc = self.p.wait(); raise Died(None, rc, self.stderr_tail(), req.get('fn'))
        r = json.loads(line)
        if 'died' in r: rc = self.p.wait(); raise Died(r, rc, self.stderr_tail(), req.get('fn'))
        if self.keep_log: self.log.append((req, r))
        return r
    def send(self, req):
        """write a request without waiting for the reply (pair with recv); lets several executors work concurrently"""
        self.n += 1; req = dict(req); req.setdefault('id', self.n); self.calls += 1; self._pending_fn = req.get('fn')
        try: self.p.stdin.write((json.dumps(req) + '\n').encode())
        except (BrokenPipeError, OSError): rc = self.p.wait(); raise Died(None, rc, self.stderr_tail(), req.get('fn'))
    def recv(self, timeout=None):
        line = self._readline(timeout or self.timeout)
        if not line: rc = self.p.wait(); raise Died(None, rc, self.stderr_tail(), getattr(self, '_pending_fn', None))
        r = json.loads(line)
        if 'died' in r: rc = self.p.wait(); raise Died(r, rc, self.stderr_tail(), getattr(self, '_pending_fn', None))
        if 'rv' in r: r['rvname'] = self.ck.rv(r.get('rv', -1))
        return r
    def _readline(self, timeout):
        # wall-clock watchdog: a firing is a hang of the executor (inconclusive unless reproduced)
        fd = self.p.stdout.fileno()
        while b'\n' not in self.buf:
            r, _, _ = select.select([fd], [], [], timeout)
            if not r:
                try: self.p.send_signal(signal.SIGKILL)
                except Exception: pass
                self.p.wait(); raise Hang('no reply within %ss' % timeout)
            chunk = os.read(fd, 1 << 20)
            if not chunk: return b''
            self.buf += chunk
        line, self.buf = self.buf.split(b'\n', 1); return line + b'\n'
    def call(self, fn, **kw):
        r = self.raw(dict(fn=fn, **kw)); r['rvname'] = self.ck.rv(r.get('rv', -1)); return r
    def close(self):
        try: self.p.stdin.write(b'{"fn":"quit"}\n'); self.p.stdin.close()
        except Exception: pass
        try: rc = self.p.wait(timeout=60)
        except Exception: self.p.kill(); rc = self.p.wait()
        try:
            if self.errf is not subprocess.DEVNULL: self.errf.close()
            self.p.stdout.close()
        except Exception: pass
        return rc
    def kill(self):
        try: self.p.kill(); self.p.wait()
        except Exception: pass
        try:
            if self.errf is not subprocess.DEVNULL: self.errf.close()
            self.p.stdout.close(); self.p.stdin.close()
        except Exception: pass
    def ubsan_reports(self):
        """[(category text, location)] parsed from this executor's stderr"""
        out = []
        if not self.stderr_path: return out
        try: t = open(self.stderr_path, errors='replace').read()
        except OSError: return out
        for m in re.finditer(r'^(\S+?):(\d+):\d+: runtime error: (.*)$', t, re.M): out.append((m.group(3), m.group(1).split('/src/')[-1] + ':' + m.group(2)))
        return out
    # ---- attribute helpers
    def A(self, t, v):
        t = self.ck[t]
        if v is None: return {'t': t, 'hex': ''}
        if isinstance(v, bool): return {'t': t, 'bool': v}
        if isinstance(v, int): return {'t': t, 'ulong': v}
        if isinstance(v, (bytes, bytearray)): return {'t': t, 'hex': bytes(v).hex()}
        if isinstance(v, dict): d = dict(v); d['t'] = t; return d
        if isinstance(v, list) and (not v or isinstance(v[0], int)): return {'t': t, 'mechs': v}
        if isinstance(v, list): return {'t': t, 'tmpl': [self.A(a, b) for a, b in v]}
        raise TypeError(v)
    def T(self, pairs):
        if isinstance(pairs, dict): pairs = pairs.items()
        return [self.A(t, v) for t, v in pairs]
    def M(self, m, **p): return {'m': self.ck[m], 'p': p or None}
    # ---- convenience
    def getattrs(self, s, o, types, cap=4096):
        """read attributes one call; returns (rvname, {type: bytes or None})"""
        r = self.call('C_GetAttributeValue', s=s, o=o, tmpl=[{'t': self.ck[t], 'buf': cap} for t in types])
        out = {}
        # per-attribute lengths are only meaningful for these return codes; otherwise the library may not have touched them
        trust = r['rvname'] in ('CKR_OK', 'CKR_ATTRIBUTE_SENSITIVE', 'CKR_ATTRIBUTE_TYPE_INVALID', 'CKR_BUFFER_TOO_SMALL')
        for t, e in zip(types, r.get('tmpl', [])):
            out[t] = bytes.fromhex(e['data']) if (trust and e.get('len', -1) != -1 and e.get('len', -1) <= cap and 'data' in e) else None
        if not trust:
            for t in types: out.setdefault(t, None)
        return r['rvname'], out
    def findall(self, s, tmpl=(), batch=64):
        r = self.call('C_FindObjectsInit', s=s, tmpl=self.T(tmpl))
        if r['rv'] != 0: return r['rvname'], []
        got = []
        while True:
            r = self.call('C_FindObjects', s=s, max=batch)
            if r['rv'] != 0 or r['n'] == 0: break
            got += r['objs']
        self.call('C_FindObjectsFinal', s=s); return 'CKR_OK', got

def mkconf(d, backend='file', extra=''):
    os.makedirs(os.path.join(d, 'tokens'), exist_ok=True)
    conf = os.path.join(d, 'softhsm2.conf')
    open(conf, 'w').write(f'directories.tokendir = {d}/tokens\nobjectstore.backend = {backend}\nlog.level = ERROR\nslots.removable = false\n{extra}')
    return conf
