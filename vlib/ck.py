"""PKCS#11 constants parsed from the repo's pkcs11.h (names <-> numbers)."""
import re
def load(hdr):
    txt = open(hdr, errors='replace').read(); K = {}; pending = {}
    for m in re.finditer(r'^#define\s+(CK[A-Z]?_[A-Za-z0-9_]+)\s+(.+?)\s*(?:/\*.*)?$', txt, re.M):
        pending[m.group(1)] = m.group(2)
    def ev(expr):
        e = re.sub(r'\(unsigned long\)\s*', '', expr); e = re.sub(r'(0x[0-9a-fA-F]+|\d+)[uU]?[lL]*', r'\1', e)
        e = re.sub(r'~0\b', str((1 << 64) - 1), e)
        if not re.fullmatch(r'[\w\s()|+<>x-]+', e): raise ValueError(expr)
        v = eval(e, {'__builtins__': {}}, K)
        if not isinstance(v, int): raise ValueError(expr)
        return v & ((1 << 64) - 1)
    for _ in range(6):
        for n, e in list(pending.items()):
            try: K[n] = ev(e); del pending[n]
            except Exception: pass
    K.setdefault('CK_UNAVAILABLE_INFORMATION', (1 << 64) - 1)
    return K
class CK:
    def __init__(self, hdr):
        self.K = load(hdr)
        self.RV = {v: k for k, v in self.K.items() if k.startswith('CKR_')}
        self.ATTR = {v: k for k, v in self.K.items() if k.startswith('CKA_')}
        self.MECH = {v: k for k, v in self.K.items() if k.startswith('CKM_')}
    def __getattr__(self, n):
        try: return self.K[n]
        except KeyError: raise AttributeError(n)
    def __getitem__(self, n): return self.K[n] if isinstance(n, str) else n
    def rv(self, n): return self.RV.get(n, 'CKR_?0x%x' % n if isinstance(n, int) and n >= 0 else 'HARNESS_ERROR')
