"""Parse ThreadSanitizer logs into de-duplicated race records keyed by racy location."""
import re, glob, collections
FRAME = re.compile(r'^\s+#(\d+)\s+(.*?)\s+(\S+:\d+(?::\d+)?|<null>)?\s*\((\S+?)\+0x[0-9a-f]+\)\s*$')
def frames(block):
    out = []
    for l in block.splitlines():
        m = re.match(r'^\s+#\d+\s+(.*)$', l)
        if not m: continue
        body = re.sub(r'\s+\(\S+\+0x[0-9a-f]+\)\s*$', '', m.group(1))
        mm = re.match(r'^(.*?)\s+(/\S+|\.\./\S+|<null>)(?::\d+)*$', body)
        fn, src = (mm.group(1), mm.group(2)) if mm else (body, '')
        out.append((fn.strip(), re.sub(r':\d+.*$', '', src)))
    return out
def first_lib_frame(fr, markers=('src/lib/', '/softhsm')):
    for fn, src in fr:
        if any(k in src for k in markers): return re.sub(r'\(.*$', '', fn)
    return re.sub(r'\(.*$', '', fr[0][0]) if fr else '?'
def parse(paths):
    recs = []
    for p in paths:
        txt = open(p, errors='replace').read()
        for rep in txt.split('=================='):
            if 'WARNING: ThreadSanitizer' not in rep: continue
            kind = re.search(r'WARNING: ThreadSanitizer: ([^(\n]+)', rep).group(1).strip()
            secs = re.split(r'\n\s*\n', rep)
            acc = []; loc = None
            for sec in secs:
                m = re.match(r'\s*(Write|Read|Previous write|Previous read|Atomic write|Atomic read|Previous atomic \w+) of size (\d+) at (0x[0-9a-f]+)', sec.strip())
                if m: acc.append((m.group(1), int(m.group(2)), int(m.group(3), 16), frames(sec)))
                m = re.match(r'\s*Location is heap block of size (\d+) at (0x[0-9a-f]+) allocated by', sec.strip())
                if m: loc = ('heap', int(m.group(1)), int(m.group(2), 16), frames(sec))
                m = re.match(r'\s*Location is global \'([^\']+)\'', sec.strip())
                if m: loc = ('global', m.group(1))
            if not acc: recs.append({'kind': kind, 'key': (kind, 'unparsed'), 'text': rep[:400]}); continue
            addr = acc[0][2]; size = acc[0][1]
            if loc and loc[0] == 'heap': key = ('heap', first_lib_frame(loc[3]), loc[1], addr - loc[2], size)
            elif loc and loc[1] != '<null>': key = loc
            elif loc: key = ('static', acc[0][3][0][0] if acc[0][3] else '?') + tuple(sorted(set(first_lib_frame(a[3]) for a in acc)))      # unnamed static storage (e.g. a libc-internal buffer): interceptor + library callers
            else: key = ('noloc', tuple(sorted(first_lib_frame(a[3]) for a in acc)))
            recs.append({'kind': kind, 'key': key, 'pair': tuple(sorted(first_lib_frame(a[3]) for a in acc[:2])), 'in_lib': any('src/lib/' in s for a in acc for _, s in a[3][:3]), 'text': rep[:3500]})
    return recs
def summarize(recs):
    c = collections.OrderedDict()
    for r in recs:
        e = c.setdefault(r['key'], {'n': 0, 'pairs': set(), 'kind': r['kind'], 'in_lib': False, 'text': r.get('text', '')}); e['n'] += 1; e['pairs'].add(r.get('pair')); e['in_lib'] = e['in_lib'] or r.get('in_lib', False)
    return c
def keystr(k): return '/'.join(str(x) for x in k) if isinstance(k, tuple) else str(k)
def in_library(k, v): return bool(v.get('in_lib'))
if __name__ == '__main__':
    import sys
    for k, v in summarize(parse(sys.argv[1:])).items(): print(v['n'], v['kind'], k, sorted(v['pairs'])[:3])
