"""Walker: model-guided histories run in lock-step with the library, with monitors after every step.
Monitors: state (C03), pins (C04), handles (C11), access (C01), find (C19), isolation (C14).
Every finding is tagged with the property it belongs to; a check reports only its own tags."""
import os, random, shutil
from model import *
from p11client import Died, Hang

INVALID_S = 'CKR_SESSION_HANDLE_INVALID'; INVALID_O = 'CKR_OBJECT_HANDLE_INVALID'
SO_PINS = [b'so-pin-A1', b'so-pin-B2', b'so-pin-C3']; USER_PINS = [b'user-pin-A', b'user-pin-B', b'user-pin-C']

# attributes the model tracks (read back after creation so defaults are known), per class
TRACK = {
    'CKO_DATA': ['CKA_CLASS', 'CKA_TOKEN', 'CKA_PRIVATE', 'CKA_MODIFIABLE', 'CKA_LABEL', 'CKA_APPLICATION', 'CKA_OBJECT_ID', 'CKA_VALUE'],
    'CKO_SECRET_KEY': ['CKA_CLASS', 'CKA_TOKEN', 'CKA_PRIVATE', 'CKA_MODIFIABLE', 'CKA_LABEL', 'CKA_KEY_TYPE', 'CKA_ID', 'CKA_ENCRYPT', 'CKA_DECRYPT', 'CKA_SIGN', 'CKA_DERIVE', 'CKA_SENSITIVE', 'CKA_EXTRACTABLE', 'CKA_VALUE_LEN', 'CKA_KEY_GEN_MECHANISM'],
    'CKO_CERTIFICATE': ['CKA_CLASS', 'CKA_TOKEN', 'CKA_PRIVATE', 'CKA_MODIFIABLE', 'CKA_LABEL', 'CKA_CERTIFICATE_TYPE', 'CKA_ID', 'CKA_SUBJECT', 'CKA_TRUSTED'],
}
BOOLS = {'CKA_TOKEN', 'CKA_PRIVATE', 'CKA_MODIFIABLE', 'CKA_ENCRYPT', 'CKA_DECRYPT', 'CKA_SIGN', 'CKA_VERIFY', 'CKA_WRAP', 'CKA_UNWRAP', 'CKA_DERIVE', 'CKA_SENSITIVE', 'CKA_EXTRACTABLE', 'CKA_TRUSTED', 'CKA_COPYABLE', 'CKA_DESTROYABLE', 'CKA_LOCAL', 'CKA_ALWAYS_SENSITIVE', 'CKA_NEVER_EXTRACTABLE'}
ULONGS = {'CKA_CLASS', 'CKA_KEY_TYPE', 'CKA_VALUE_LEN', 'CKA_CERTIFICATE_TYPE', 'CKA_KEY_GEN_MECHANISM', 'CKA_MODULUS_BITS'}

def decode_attr(name, raw):
    if raw is None: return None
    if name in BOOLS: return raw != b'\x00' if len(raw) == 1 else raw
    if name in ULONGS: return int.from_bytes(raw, 'little') if len(raw) == 8 else raw
    return raw

class Finding:
    def __init__(s, prop, key, what, info): s.prop = prop; s.key = key; s.what = what; s.info = info
    def __repr__(s): return f'<{s.prop} {s.key}: {s.what} {s.info}>'

class Walk:
    def __init__(s, ctx_paths, ck, seed, d, backend='file', ntok=2, cfg='asan', weights=None, new_exec=None, max_sessions=5, extra_conf=''):
        s.ck = ck; s.rnd = random.Random(seed); s.seed = seed; s.d = d; s.findings = []; s.m = Model(); s.backend = backend
        s.stats = {'calls': 0, 'probes': 0, 'neg': 0, 'pos': 0, 'finds': 0, 'steps': 0}
        s.cover = set()      # (property, case key) pairs that were actually exercised non-trivially
        s.history = []       # symbolic history (for witnesses)
        s.max_sessions = max_sessions; s.weights = dict(weights or DEFAULT_WEIGHTS)
        s.x = new_exec(cfg, d, backend, extra_conf); s.new_exec = new_exec; s.cfg = cfg; s.extra_conf = extra_conf
        r = s.c('C_Initialize', locking='os'); assert r['rv'] == 0, r
        for i in range(ntok):
            free = s.c('C_GetSlotList', count=16)['slots'][-1]
            r = s.c('C_InitToken', slot=free, pin=SO_PINS[i].hex(), label=(b'tok%d' % i).hex()); assert r['rv'] == 0, r
            h = s.c('C_OpenSession', slot=free)['h']
            assert s.c('C_Login', s=h, user=0, pin=SO_PINS[i].hex())['rv'] == 0
            assert s.c('C_InitPIN', s=h, pin=USER_PINS[i].hex())['rv'] == 0
            s.c('C_CloseSession', s=h)
            ti = s.c('C_GetTokenInfo', slot=free)
            s.m.toks.append(Tok(i, free, b'tok%d' % i, SO_PINS[i], USER_PINS[i], bytes.fromhex(ti['serial'])))
            s.m.handle_nums[h] = 'setup-session'
            s.c('C_GetSlotList', null=True)   # a NULL list query is what makes the library add the new free slot
    def c(self, fn, **kw): self.stats['calls'] += 1; return self.x.call(fn, **kw)
    def F(s, prop, key, what, **info):
        s.findings.append(Finding(prop, key, what, dict(info, step=s.stats['steps'], history_tail=s.history[-12:])))
    def cov(s, prop, key): s.cover.add((prop, key))
    def H(s, *sym): s.history.append(sym)
    def last_event(s): return s.history[-1][0] if s.history else 'setup'
    # ------------------------------------------------------------ monitors
    def mon_state(s, dead_sample=4):
        live = [x for x in s.m.sess.values() if x.alive]; dead = [x for x in s.m.sess.values() if not x.alive]
        if len(dead) > dead_sample: dead = s.rnd.sample(dead, dead_sample)
        for se in live + dead:
            r = s.c('C_GetSessionInfo', s=se.h); s.stats['probes'] += 1
            if se.alive:
                want = s.m.state(se)
                if r['rv'] != 0: s.F('C11', 'live-session|rejected', 'a live session handle was rejected', h=se.h, got=r['rvname'])
                elif r['state'] != want or r['slot'] != s.m.toks[se.ti].slot or bool(r['flags'] & 2) != se.rw:
                    s.F('C03', f'session-info|want={STATE_NAMES[want]}|got={STATE_NAMES.get(r["state"], r["state"])}', 'C_GetSessionInfo disagrees with the prescribed state', h=se.h, got=(r['state'], r['slot'], r['flags']), want=(want, s.m.toks[se.ti].slot, se.rw))
                s.cov('C03', ('state', want)); s.cov('C11', (s.last_event(), 'session', 'alive'))
            else:
                if r['rvname'] != INVALID_S: s.F('C11', 'dead-session|accepted', 'a closed session handle is still accepted', h=se.h, got=r['rvname'])
                s.cov('C11', (s.last_event(), 'session', 'dead'))
    def probe_session(s, ti):
        ls = s.m.live_sessions(ti)
        return ls[0] if ls else None
    def mon_handles(s, dead_sample=10):
        items = [(o, h, al) for o in s.m.objs.values() for h, al in o.handles.items()]
        live = [x for x in items if x[2] and x[0].alive]; dead = [x for x in items if not (x[2] and x[0].alive)]
        if len(dead) > dead_sample: dead = s.rnd.sample(dead, dead_sample)
        for o, h, al in live + dead:
            ps = s.probe_session(o.ti)
            if not ps:
                if al and o.alive: s.F('MODEL', 'live-handle-without-session', 'model inconsistency', uid=o.uid)
                continue
            r = s.c('C_GetAttributeValue', s=ps.h, o=h, tmpl=[{'t': s.ck.CKA_LABEL, 'buf': 64}]); s.stats['probes'] += 1
            e = r['tmpl'][0] if r.get('tmpl') else {}
            if al and o.alive:
                if r['rvname'] == INVALID_O: s.F('C11', f'live-handle|rejected|{okind(o)}', 'a handle that should be alive is rejected as invalid', h=h, uid=o.uid)
                elif r['rv'] == 0 and bytes.fromhex(e.get('data', '')) != o.attrs['CKA_LABEL']: s.F('C11', 'live-handle|denotes-other-object', 'a handle reads back another object', h=h, uid=o.uid, got=e.get('data'))
                if r['rv'] == 0 and not s.m.can_read(ps, o.private): s.F('C01', f'C_GetAttributeValue|{okind(o)}|{STATE_NAMES[s.m.state(ps)]}|read', 'private object read without user login', h=h, uid=o.uid)
                s.cov('C11', (s.last_event(), 'object', okind(o), 'alive'))
            else:
                if r['rvname'] != INVALID_O:
                    s.F('C11', f'dead-handle|accepted|{okind(o)}|{r["rvname"]}', 'a handle that should be dead is still accepted', h=h, uid=o.uid, got=r['rvname'], obj_alive=o.alive)
                    if o.private and not s.m.can_read(ps, True) and (r['rv'] == 0 or e.get('changed', 0)): s.F('C01', f'C_GetAttributeValue|{okind(o)}|{STATE_NAMES[s.m.state(ps)]}|stale-handle-read', 'private object read through a handle obtained while logged in', h=h, uid=o.uid)
                s.cov('C11', (s.last_event(), 'object', okind(o), 'dead'))
    # ------------------------------------------------------------ choices
    def pick_sess(s, alive=True, ti=None):
        l = [x for x in s.m.sess.values() if x.alive == alive and (ti is None or x.ti == ti)]
        return s.rnd.choice(l) if l else None
    def pick_obj_handle(s, want_alive=None, ti=None):
        c = [(o, h) for o in s.m.objs.values() for h, al in o.handles.items() if (want_alive is None or (al and o.alive) == want_alive) and (ti is None or o.ti == ti)]
        return s.rnd.choice(c) if c else (None, None)
    def wrong_pin(s, real, other):
        real = real or b'zzzz'
        k = s.rnd.randrange(8)
        if k == 0: return b'wrong-pin'
        if k == 1: return real + b'x'
        if k == 2: return real[:-1]
        if k == 3: return other or b'otherpin'
        if k == 4: return real + b'\x00'
        if k == 5: i = s.rnd.randrange(len(real)); return real[:i] + bytes([real[i] ^ (1 << s.rnd.randrange(8))]) + real[i + 1:]
        if k == 6: return b''
        return real.upper() if real.upper() != real else real.lower()
    # ------------------------------------------------------------ session / login ops
    def op_open(s, ti=None, rw=None):
        if ti is None: ti = s.rnd.randrange(len(s.m.toks))
        if rw is None: rw = s.rnd.random() < 0.6
        t = s.m.toks[ti]; s.H('open', ti, rw)
        extra = s.rnd.choice([0x1, 0x8, 0x100, 0x80000000, 0x109]) if s.rnd.random() < 0.12 else 0      # undefined flag bits: whether they are tolerated is the token's choice, but RO/RW is decided by CKF_RW_SESSION alone
        r = s.c('C_OpenSession', slot=t.slot, flags=4 | (2 if rw else 0) | extra); ok = s.m.open_allowed(ti, rw)
        if extra and r['rv'] != 0 and ok: s.cov('C03', ('open-extra-flags-refused',)); return
        if r['rv'] == 0 and not ok: s.F('C03', 'C_OpenSession|RO-while-SO|accepted', 'read-only session opened while the SO is logged in', got=r['rvname'])
        if r['rv'] != 0 and ok: s.F('CTRL', 'C_OpenSession|refused', 'an allowed C_OpenSession failed', got=r['rvname'], rw=rw, login=t.login)
        s.cov('C03', ('open', rw, t.login, ok))
        if r['rv'] == 0:
            v = s.m.new_handle(r['h'], 'session')
            if v: s.F('C11', 'handle-reused|session', v)
            s.m.sess[r['h']] = Sess(r['h'], ti, rw)
    def op_close(s, se=None):
        se = se or s.pick_sess()
        if not se: return
        s.H('close', se.h); r = s.c('C_CloseSession', s=se.h)
        if r['rv'] != 0: s.F('C03', f'C_CloseSession|live-session|refused:{r["rvname"]}', 'closing a live session failed', got=r['rvname'])
        else: s.m.on_close(se)
        s.cov('C03', ('close', len(s.m.live_sessions(se.ti)) == 0))
    def op_closeall(s, ti=None):
        if ti is None: ti = s.rnd.randrange(len(s.m.toks))
        s.H('closeall', ti); r = s.c('C_CloseAllSessions', slot=s.m.toks[ti].slot)
        if r['rv'] != 0: s.F('C03', f'C_CloseAllSessions|refused:{r["rvname"]}', 'close-all failed', got=r['rvname'])
        else: s.m.on_all_closed(ti)
        s.cov('C03', ('closeall', s.m.toks[ti].login))
    def op_login(s, se=None, ut=None, right=None):
        se = se or s.pick_sess()
        if not se: return
        t = s.m.toks[se.ti]
        if ut is None: ut = s.rnd.choice([0, 1, 1, 1, 2])
        real = t.so if ut == 0 else t.usr
        if right is None: right = s.rnd.random() < 0.65
        if right and real is not None: pin = real
        else: pin = s.wrong_pin(real, t.usr if ut == 0 else t.so)
        ok = s.m.login_allowed(se, ut, pin); s.H('login', se.h, ut, pin)
        r = s.c('C_Login', s=se.h, user=ut, pin=pin.hex())
        cls = 'ctx' if ut == 2 else ('right' if pin == real else 'wrong') + '-pin,' + ('logged-in' if t.login else 'public') + (',ro-exists' if ut == 0 and any(not x.rw for x in s.m.live_sessions(se.ti)) else '')
        if r['rv'] == 0 and not ok:
            prop = 'C04' if (t.login is None and pin != real and ut != 2) else 'C03'
            s.F(prop, f'C_Login|user={ut}|{cls}|accepted', 'a login that must be refused succeeded', got=r['rvname'], pin=pin, real=real)
        if r['rv'] != 0 and ok:
            s.F('C04', f'C_Login|user={ut}|{cls}|refused', 'the current PIN was refused', got=r['rvname'], pin=pin)
        s.cov('C03', ('login', ut, cls)); s.cov('C04', ('login', ut, cls))
        if r['rv'] == 0 and ut != 2: t.login = 'S' if ut == 0 else 'U'
    def op_logout(s, se=None):
        se = se or s.pick_sess()
        if not se: return
        t = s.m.toks[se.ti]; s.H('logout', se.h); r = s.c('C_Logout', s=se.h)
        if r['rv'] != 0 and t.login is not None: s.F('C03', f'C_Logout|logged-in|refused:{r["rvname"]}', 'logout failed while logged in', got=r['rvname'])
        if r['rv'] == 0: s.m.on_logout(se.ti)
        s.cov('C03', ('logout', t.login))
    def op_inittoken(s, ti=None, right=None, null_label=None):
        if ti is None: ti = s.rnd.randrange(len(s.m.toks))
        t = s.m.toks[ti]
        if right is None: right = s.rnd.random() < 0.7
        pin = t.so if right else s.wrong_pin(t.so, t.usr)
        label = b'tok%d-r%d' % (ti, s.rnd.randrange(1000)); ok = s.m.inittoken_allowed(ti, pin); has_sess = bool(s.m.live_sessions(ti))
        if null_label is None: null_label = s.rnd.random() < 0.15          # pLabel = NULL: must not initialise anything (the model cannot know a label); whatever the code, a refusal changes nothing
        s.H('inittoken', ti, pin, None if null_label else label)
        if null_label:
            r = s.c('C_InitToken', slot=t.slot, pin=pin.hex(), label_null=True)
            if r['rv'] == 0: s.F('MODEL', 'C_InitToken|null-label|accepted', 'C_InitToken with a NULL label succeeded; the model cannot follow'); return
            s.cov('C03', ('inittoken-null-label', has_sess, pin == t.so)); s.probe_public(ti, 'C_InitToken(NULL label)'); return
        r = s.c('C_InitToken', slot=t.slot, pin=pin.hex(), label=label.hex())
        if r['rv'] == 0 and not ok:
            s.F('C03' if has_sess else 'C14', f'C_InitToken|{"session-open" if has_sess else "wrong-so-pin"}|accepted', 'C_InitToken succeeded although it must be refused', got=r['rvname'])
        if r['rv'] != 0 and ok: s.F('C14', 'C_InitToken|right-pin,no-session|refused', 're-initialisation with the right SO PIN failed', got=r['rvname'])
        s.cov('C03', ('inittoken', has_sess, pin == t.so)); s.cov('C14', ('inittoken', has_sess, pin == t.so))
        if r['rv'] == 0: s.m.on_inittoken(ti, label)
        else: s.probe_public(ti, 'C_InitToken')
    def probe_public(s, ti, after):
        """a token without any session shows its login state to nobody: after a FAILED call on such a token, open a read-only session, look, close
        (refused while the SO is logged in; its state tells whether somebody is logged in)"""
        t = s.m.toks[ti]
        if s.m.live_sessions(ti) or t.login is not None: return
        r = s.c('C_OpenSession', slot=t.slot, flags=4)
        if r['rv'] != 0: s.F('C03', f'{after}|failed-call|login-state-changed(RO-open:{r["rvname"]})', 'after a failed call on a token without sessions a read-only session can no longer be opened: the failed call changed the login state', got=r['rvname']); return
        v = s.m.new_handle(r['h'], 'probe-session')
        if v: s.F('C11', 'handle-reused|session', v)
        i = s.c('C_GetSessionInfo', s=r['h'])
        if i['rv'] != 0 or i.get('state') != PUB_RO: s.F('C03', f'{after}|failed-call|login-state-changed(state={i.get("state")})', 'after a failed call on a token without sessions a fresh read-only session is not in the public state', got=i.get('state'))
        s.c('C_CloseSession', s=r['h']); s.cov('C03', ('probe-after-failed-call', after))
    def op_initpin(s, se=None, pin=None):
        se = se or s.pick_sess()
        if not se: return
        t = s.m.toks[se.ti]; pin = pin if pin is not None else s.rnd.choice([b'user-pin-%d' % s.rnd.randrange(100), b'abc', b'p' * 255, b'p' * 256, b'1234', b'pi\x00n\xff\x80'])
        ok = s.m.initpin_allowed(se, pin); s.H('initpin', se.h, pin)
        r = s.c('C_InitPIN', s=se.h, pin=pin.hex())
        st = STATE_NAMES[s.m.state(se)]; lc = 'len-ok' if MIN_PIN <= len(pin) <= MAX_PIN else 'len-bad'
        if r['rv'] == 0 and not ok: s.F('C04', f'C_InitPIN|{st}|{lc}|accepted', 'C_InitPIN succeeded outside an SO session or with a bad length', got=r['rvname'])
        if r['rv'] != 0 and ok: s.F('CTRL', f'C_InitPIN|{st}|refused', 'allowed C_InitPIN failed', got=r['rvname'])
        s.cov('C04', ('initpin', st, lc))
        if r['rv'] == 0: t.usr = pin
    def op_setpin(s, se=None, right=None, new=None):
        se = se or s.pick_sess()
        if not se: return
        t = s.m.toks[se.ti]; cur = t.so if t.login == 'S' else t.usr
        if right is None: right = s.rnd.random() < 0.6
        old = cur if (right and cur is not None) else s.wrong_pin(cur, t.so if t.login != 'S' else t.usr)
        new = new if new is not None else s.rnd.choice([b'new-pin-%d' % s.rnd.randrange(100), b'abc', b'n' * 255, b'n' * 256, b'', b'np\x00\xfe'])
        ok = s.m.setpin_allowed(se, old, new); s.H('setpin', se.h, old, new)
        r = s.c('C_SetPIN', s=se.h, old=old.hex(), new=new.hex())
        st = STATE_NAMES[s.m.state(se)]; cls = ('right' if old == cur else 'wrong') + '-old,' + ('len-ok' if MIN_PIN <= len(new) <= MAX_PIN else 'len-bad')
        if r['rv'] == 0 and not ok: s.F('C04', f'C_SetPIN|{st}|{cls}|accepted', 'C_SetPIN succeeded although it must be refused', got=r['rvname'], old=old, cur=cur)
        if r['rv'] != 0 and ok: s.F('CTRL', f'C_SetPIN|{st}|{cls}|refused', 'allowed C_SetPIN failed', got=r['rvname'])
        s.cov('C04', ('setpin', st, cls))
        if r['rv'] == 0:
            if t.login == 'S': t.so = new
            else: t.usr = new
    # ------------------------------------------------------------ object ops
    def tmpl_for(s, cls, on_token, private, uid):
        ck = s.ck; a = {'CKA_CLASS': ck[cls], 'CKA_TOKEN': on_token, 'CKA_PRIVATE': private, 'CKA_LABEL': uid}
        if s.rnd.random() < 0.1: a['CKA_DESTROYABLE'] = False
        if cls == 'CKO_DATA':
            a['CKA_APPLICATION'] = s.rnd.choice([b'', b'app1', b'app2']); a['CKA_VALUE'] = s.rnd.choice([b'', b'v1', s.rnd.randbytes(20)])
        elif cls == 'CKO_SECRET_KEY':
            a['CKA_KEY_TYPE'] = s.rnd.choice([ck.CKK_AES, ck.CKK_GENERIC_SECRET]); a['CKA_ID'] = s.rnd.choice([b'', b'\x01', b'id-2']); a['CKA_ENCRYPT'] = s.rnd.random() < 0.5
            a['CKA_VALUE'] = s.rnd.randbytes(s.rnd.choice([16, 32])); a['CKA_SENSITIVE'] = False; a['CKA_EXTRACTABLE'] = True
        else:
            a['CKA_CERTIFICATE_TYPE'] = ck.CKC_X_509; a['CKA_SUBJECT'] = s.rnd.choice([b'\x30\x00', b'\x30\x03\x02\x01\x05']); a['CKA_VALUE'] = s.rnd.randbytes(24); a['CKA_ID'] = s.rnd.choice([b'', b'\x01', b'id-2'])
        return a
    def read_model_attrs(s, se, h, cls, a):
        """complete the model's attribute dict with the defaults the library chose (readable, non-secret ones)"""
        names = [n for n in TRACK[cls] if n not in a]
        if not names: return
        rvn, vals = s.x.getattrs(se.h, h, names)
        for n in names:
            v = decode_attr(n, vals.get(n))
            if v is not None: a[n] = v
    def op_create(s, se=None, cls=None, on_token=None, private=None):
        se = se or s.pick_sess()
        if not se: return
        if on_token is None: on_token = s.rnd.random() < 0.5
        if private is None: private = s.rnd.random() < 0.5
        cls = cls or s.rnd.choice(['CKO_DATA', 'CKO_SECRET_KEY', 'CKO_DATA', 'CKO_SECRET_KEY', 'CKO_CERTIFICATE'])
        s.m.uidc += 1; uid = b'U%05d' % s.m.uidc; a = s.tmpl_for(cls, on_token, private, uid)
        st = STATE_NAMES[s.m.state(se)]; kind = ('token' if on_token else 'session') + ',' + ('private' if private else 'public')
        s.H('create', se.h, cls, kind)
        r = s.c('C_CreateObject', s=se.h, tmpl=s.x.T(a)); allowed = s.m.can_write(se, on_token, private)
        if not allowed:
            s.stats['neg'] += 1; s.cov('C01', ('create', st, kind, cls))
            if r['rv'] == 0: s.F('C01', f'C_CreateObject|{kind}|{st}|created', 'a forbidden object creation succeeded', cls=cls)
        else:
            s.stats['pos'] += 1
            if r['rv'] != 0: s.F('CTRL', f'C_CreateObject|{kind}|{st}|refused', 'an allowed creation failed', got=r['rvname'], cls=cls)
        if r['rv'] == 0:
            v = s.m.new_handle(r['h'], 'object:' + uid.decode())
            if v: s.F('C11', 'handle-reused|object', v)
            if s.m.can_read(se, private): s.read_model_attrs(se, r['h'], cls, a)
            o = Obj(uid, se.ti, on_token, private, a, se.h); o.handles[r['h']] = True; o.cls = cls; s.m.objs[uid] = o
    def op_copy(s, se=None, force=None):
        se = se or s.pick_sess();
        if not se: return
        o, h = s.pick_obj_handle(True, ti=se.ti)
        if force is not None:      # directed: (predicate on the source object, new CKA_TOKEN or None, new CKA_PRIVATE or None)
            c = [(oo, hh) for oo in s.m.objs.values() if oo.alive and oo.ti == se.ti and force[0](oo) for hh, al in oo.handles.items() if al]
            o, h = c[s.rnd.randrange(len(c))] if c else (None, None)
        if not o: return
        s.m.uidc += 1; uid = b'U%05d' % s.m.uidc; ch = {'CKA_LABEL': uid}
        new_token = o.on_token; new_priv = o.private
        if force is not None:
            if force[1] is not None: new_token = force[1]; ch['CKA_TOKEN'] = new_token
            if force[2] is not None: new_priv = force[2]; ch['CKA_PRIVATE'] = new_priv
        else:
            if s.rnd.random() < 0.5: new_token = s.rnd.random() < 0.5; ch['CKA_TOKEN'] = new_token
            if s.rnd.random() < 0.4: new_priv = s.rnd.random() < 0.6; ch['CKA_PRIVATE'] = new_priv
        st = STATE_NAMES[s.m.state(se)]; s.H('copy', se.h, o.uid, ch)
        r = s.c('C_CopyObject', s=se.h, o=h, tmpl=s.x.T(ch))
        src_ok = s.m.can_read(se, o.private); dst_ok = s.m.can_write(se, new_token, new_priv)
        if r['rv'] == 0 and not (src_ok and dst_ok):
            s.F('C01', f'C_CopyObject|src={okind(o)}|dst={"token" if new_token else "session"},{"private" if new_priv else "public"}|{st}|copied', 'a forbidden copy succeeded')
        if r['rv'] == 0 and o.private and not new_priv: s.F('C08', 'C_CopyObject|private-to-public|copied', 'copy turned a private object public')
        if not (src_ok and dst_ok): s.stats['neg'] += 1; s.cov('C01', ('copy', st, okind(o), new_token, new_priv))
        if r['rv'] == 0:
            v = s.m.new_handle(r['h'], 'object:' + uid.decode())
            if v: s.F('C11', 'handle-reused|object', v)
            a = dict(o.attrs); a.update(ch); n = Obj(uid, se.ti, new_token, new_priv, a, se.h); n.cls = o.cls; n.handles[r['h']] = True; s.m.objs[uid] = n
    def op_destroy(s, se=None):
        se = se or s.pick_sess(); o, h = s.pick_obj_handle(True if s.rnd.random() < 0.8 else None, ti=se.ti if se else None)
        if not se or not o: return
        st = STATE_NAMES[s.m.state(se)]; s.H('destroy', se.h, o.uid, h)
        r = s.c('C_DestroyObject', s=se.h, o=h); live = o.alive and o.handles[h]
        allowed = live and s.m.can_write(se, o.on_token, o.private)
        if allowed and o.attrs.get('CKA_DESTROYABLE') is False:
            # the object cannot be destroyed (CKA_DESTROYABLE false): the refusal leaves the object AND its handles alive, which the handle monitor verifies after this call
            s.stats['neg'] += 1; s.cov('C08', ('destroy-nondestroyable', st, okind(o)))
            if r['rv'] == 0:
                s.F('C08', f'C_DestroyObject|{okind(o)},CKA_DESTROYABLE=false|{st}|destroyed', 'an object with CKA_DESTROYABLE false was destroyed', uid=o.uid); o.alive = False
                for k in o.handles: o.handles[k] = False
            return
        if live and not allowed:
            s.stats['neg'] += 1; s.cov('C01', ('destroy', st, okind(o)))
            if r['rv'] == 0: s.F('C01', f'C_DestroyObject|{okind(o)}|{st}|destroyed', 'a forbidden destruction succeeded', uid=o.uid)
        if not live and r['rv'] == 0: s.F('C11', f'C_DestroyObject|dead-handle|{okind(o)}|accepted', 'destroy through a dead handle succeeded', uid=o.uid)
        if live and allowed and r['rv'] != 0: s.F('CTRL', f'C_DestroyObject|{okind(o)}|{st}|refused', 'an allowed destruction failed', got=r['rvname'])
        if r['rv'] == 0:
            o.alive = False
            for k in o.handles: o.handles[k] = False
    def op_setattr(s, se=None):
        se = se or s.pick_sess();
        if not se: return
        o, h = s.pick_obj_handle(True, ti=se.ti)
        if not o: return
        if o.cls == 'CKO_DATA': at = 'CKA_LABEL'; new = o.uid + s.rnd.choice([b'', b'-a', b'-b', b'-cc'])   # the only settable attribute of a data object; the first 6 bytes stay the unique tag
        else: at = 'CKA_ID'; new = s.rnd.choice([b'', b'\x01', b'id-9'])
        st = STATE_NAMES[s.m.state(se)]; s.H('setattr', se.h, o.uid, at, new)
        r = s.c('C_SetAttributeValue', s=se.h, o=h, tmpl=s.x.T([(at, new)])); allowed = s.m.can_write(se, o.on_token, o.private)
        if not allowed:
            s.stats['neg'] += 1; s.cov('C01', ('set', st, okind(o)))
            if r['rv'] == 0: s.F('C01', f'C_SetAttributeValue|{okind(o)}|{st}|modified', 'a forbidden modification succeeded', uid=o.uid)
        elif r['rv'] != 0: s.F('CTRL', f'C_SetAttributeValue|{okind(o)}|{st}|refused', 'an allowed modification failed', got=r['rvname'])
        if r['rv'] == 0: o.attrs[at] = new
    def op_getattr(s, se=None):
        """read a tracked attribute through a random session of the object's token (C01 read rule, C05-style faithfulness)"""
        se = se or s.pick_sess()
        if not se: return
        o, h = s.pick_obj_handle(True, ti=se.ti)
        if not o: return
        names = [n for n in o.attrs if n not in ('CKA_VALUE',)] ; at = s.rnd.choice(names)
        r = s.c('C_GetAttributeValue', s=se.h, o=h, tmpl=[{'t': s.ck[at], 'buf': 256}]); e = r['tmpl'][0]; st = STATE_NAMES[s.m.state(se)]
        if not s.m.can_read(se, o.private):
            s.stats['neg'] += 1; s.cov('C01', ('get', st, okind(o)))
            if r['rv'] == 0 or e.get('changed', 0): s.F('C01', f'C_GetAttributeValue|{okind(o)}|{st}|read', 'private object attribute returned without user login', uid=o.uid, attr=at)
        elif r['rv'] == 0:
            got = decode_attr(at, bytes.fromhex(e['data']))
            if got != o.attrs[at]: s.F('C05', f'C_GetAttributeValue|{at}|value-differs', 'attribute value differs from what was written', uid=o.uid, got=got, want=o.attrs[at])
    def gen_template(s, se):
        pool = ['CKA_APPLICATION', 'CKA_ID', 'CKA_TOKEN', 'CKA_PRIVATE', 'CKA_CLASS', 'CKA_ENCRYPT', 'CKA_LABEL', 'CKA_KEY_TYPE', 'CKA_MODIFIABLE', 'CKA_VALUE_LEN', 'CKA_SUBJECT', 'CKA_OBJECT_ID', 'CKA_VALUE', 'CKA_VALUE', 'CKA_DECRYPT', 'CKA_SENSITIVE', 'CKA_CERTIFICATE_TYPE', 'CKA_KEY_GEN_MECHANISM']
        k = s.rnd.choice([0, 0, 1, 1, 1, 2, 2, 3]); templ = []; objs = [o for o in s.m.objs.values() if o.alive]
        for _ in range(k):
            t = s.rnd.choice(pool)
            if objs and s.rnd.random() < 0.6:
                o = s.rnd.choice(objs)
                if t in o.attrs: templ.append((t, o.attrs[t])); continue
            if s.rnd.random() < 0.12:      # wrong-sized raw value: can equal nothing (never 1 byte for a boolean / 8 for an integer)
                v = s.rnd.choice([b'', b'\x01\x00', b'\x00\x00\x00', b'\x01\x00\x00\x00']) if (t in BOOLS or t in ULONGS) else s.rnd.randbytes(s.rnd.choice([1, 3, 70]))
            elif t in BOOLS: v = s.rnd.random() < .5
            elif t in ULONGS: v = s.rnd.choice([s.ck.CKO_DATA, s.ck.CKO_SECRET_KEY, s.ck.CKK_AES, 16, 32, 0x7fffffff, 0xffffffff, 0x7fffffffffffffff, 0xffffffffffffffff])
            else: v = s.rnd.choice([b'', b'app1', b'app2', b'\x01', b'id-2', b'zz', b'U00001'])
            templ.append((t, v))
        return templ
    def op_find(s, se=None, templ=None):
        se = se or s.pick_sess()
        if not se: return
        if templ is None: templ = s.gen_template(se)
        st = STATE_NAMES[s.m.state(se)]; s.H('find', se.h, templ)
        r = s.c('C_FindObjectsInit', s=se.h, tmpl=s.x.T(templ))
        if r['rv'] != 0: s.F('C19', f'C_FindObjectsInit|{st}|failed|{r["rvname"]}', 'a well-formed search could not be started', templ=repr(templ)); return
        got = []; batches = []
        for _ in range(3000):
            mx = s.rnd.choice([1, 1, 2, 3, 5, 40, 0, 7, 100, 1000]); r = s.c('C_FindObjects', s=se.h, max=mx); batches.append((mx, r.get('n')))
            if r['rv'] != 0: s.F('C19', f'C_FindObjects|failed|{r["rvname"]}', 'C_FindObjects failed during an active search'); break
            if r['n'] > mx: s.F('C19', 'C_FindObjects|count-exceeds-max', 'more handles reported than asked for', mx=mx, n=r['n'])
            got += r['objs']
            if mx > 0 and r['n'] == 0: break
        s.c('C_FindObjectsFinal', s=se.h); s.stats['finds'] += 1
        exp = [o for o in s.m.visible(se) if Model.matches(o, templ)]
        if len(set(got)) != len(got): s.F('C19', 'result|handle-returned-twice', 'the same handle was returned twice in one search', got=got)
        got_uids = []
        for h in got:
            owner = [o for o in s.m.objs.values() if h in o.handles]
            if owner:
                got_uids.append(owner[0].uid)
                if not owner[0].handles[h]: s.F('C11', 'find|dead-handle-returned', 'a dead handle number was returned by a search', h=h)
            else:
                rvn, vals = s.x.getattrs(se.h, h, ['CKA_LABEL']); uid = (vals.get('CKA_LABEL') or b'')[:6]
                if uid in s.m.objs:
                    v = s.m.new_handle(h, 'object:' + uid.decode())
                    if v: s.F('C11', 'handle-reused|object', v)
                    s.m.objs[uid].handles[h] = True; got_uids.append(uid)
                else: s.F('C19', 'result|unknown-object', 'a search returned an object the history never created', h=h, label=uid); got_uids.append(uid)
        want = sorted(o.uid for o in exp); have = sorted(x or b'?' for x in got_uids)
        if have != want:
            extra = [u for u in have if u not in want]; missing = [u for u in want if u not in have]
            dup = len(have) != len(set(have))
            for u in extra:
                o = s.m.objs.get(u)
                if o is not None and o.private and not s.m.user_in(se.ti): s.F('C01', f'C_FindObjects|{okind(o)}|{st}|handle-returned', 'a private object was found without user login', uid=u)
            cls = 'twice' if dup else ('extra+missing' if extra and missing else 'extra' if extra else 'missing')
            why = ''
            if extra:
                o = s.m.objs.get(extra[0])
                why = 'unknown' if o is None else 'destroyed' if not o.alive else 'other-token' if o.ti != se.ti else 'private-in-public' if (o.private and not s.m.user_in(se.ti)) else 'non-matching'
            s.F('C19', f'result|{cls}|{why}|{st}', 'search result differs from the visible matching set', templ=repr(templ), got=have, want=want, batches=batches)
        s.cov('C19', (st, len(templ), 'empty' if not exp else 'all' if len(exp) == len(s.m.visible(se)) else 'some', tuple(sorted(set(b[0] for b in batches)))[:3]))
        return len(exp), len(s.m.visible(se))
    def op_restart(s, new_process=False):
        s.H('restart', new_process)
        if new_process:
            s.c('C_Finalize'); s.x.close(); s.x = s.new_exec(s.cfg, s.d, s.backend, s.extra_conf, reuse_dir=True); r = s.c('C_Initialize', locking='os')
        else:
            r = s.c('C_Finalize');
            if r['rv'] != 0: s.F('CTRL', 'C_Finalize|failed', 'finalize failed', got=r['rvname'])
            r = s.c('C_Initialize', locking='os')
        if r['rv'] != 0: s.F('C14', 'C_Initialize|after-restart|failed', 'the library could not be re-initialised on its own token directory', got=r['rvname']); return
        s.m.on_restart(); s.remap_slots()
    def remap_slots(s):
        slots = s.c('C_GetSlotList', count=32)['slots']; seen = {}
        for sl in slots:
            ti = s.c('C_GetTokenInfo', slot=sl)
            if ti['rv'] == 0 and (ti['flags'] & s.ck.CKF_TOKEN_INITIALIZED): seen[bytes.fromhex(ti['serial'])] = (sl, bytes.fromhex(ti['label']).rstrip(b' '), ti['flags'])
        for t in s.m.toks:
            if t.serial not in seen: s.F('C14', 'restart|token-missing', 'a token is not found again after a restart', label=t.label); continue
            sl, label, flags = seen[t.serial]; t.slot = sl
            want = int(t.serial.decode()[-8:], 16) & 0x7fffffff
            if sl != want: s.F('C14', 'restart|slot-not-from-serial', 'slot id is not the 31-bit function of the serial', slot=sl, want=want)
            if label != t.label: s.F('C14', 'restart|label-changed', 'token label changed over a restart', got=label, want=t.label)
            if bool(flags & s.ck.CKF_USER_PIN_INITIALIZED) != (t.usr is not None): s.F('C14', 'restart|user-pin-flag', 'CKF_USER_PIN_INITIALIZED disagrees with the history', flags=flags)
            s.cov('C14', ('restart-token', t.usr is not None))
        if len(seen) != len(s.m.toks): s.F('C14', 'restart|token-count', 'number of initialised tokens changed over a restart', got=len(seen), want=len(s.m.toks))
    # ------------------------------------------------------------ driver
    def step(s, op=None):
        names = [n for n, w in s.weights.items() for _ in range(w)]
        op = op or s.rnd.choice(names)
        if op == 'open' and len(s.m.live_sessions()) >= s.max_sessions: op = 'close'
        s.stats['steps'] += 1
        getattr(s, 'op_' + op)(); return op
    def run(s, steps, monitors=('state', 'handles'), stop_on=None):
        for i in range(steps):
            op = s.step()
            if 'state' in monitors: s.mon_state()
            if 'handles' in monitors: s.mon_handles()
            if s.findings and (stop_on is None or any(f.prop in stop_on for f in s.findings)): return i, op
        return None
    def close(s):
        try: s.x.close()
        except Exception: s.x.kill()

def okind(o): return ('token' if o.on_token else 'session') + ',' + ('private' if o.private else 'public')

DEFAULT_WEIGHTS = {'open': 5, 'close': 2, 'closeall': 1, 'login': 4, 'logout': 2, 'create': 6, 'destroy': 2, 'setattr': 2, 'find': 4, 'copy': 2, 'getattr': 2}
