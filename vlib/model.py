"""P11Model: sequential reference model of the PKCS#11 session/login/object/handle rules.
It encodes only what the properties state (C01, C03, C04, C11, C14, C19); where PKCS#11 leaves a
choice (which error code) the model leaves it open."""

PUB_RO, USER_RO, PUB_RW, USER_RW, SO_RW = 0, 1, 2, 3, 4
STATE_NAMES = {0: 'RO_PUBLIC', 1: 'RO_USER', 2: 'RW_PUBLIC', 3: 'RW_USER', 4: 'RW_SO'}
MIN_PIN, MAX_PIN = 4, 255

class Tok:
    def __init__(s, idx, slot, label, so_pin, user_pin=None, serial=None):
        s.idx = idx; s.slot = slot; s.label = label; s.so = so_pin; s.usr = user_pin; s.login = None; s.serial = serial
class Sess:
    def __init__(s, h, ti, rw): s.h = h; s.ti = ti; s.rw = rw; s.alive = True
class Obj:
    def __init__(s, uid, ti, on_token, private, attrs, owner):
        s.uid = uid; s.ti = ti; s.on_token = on_token; s.private = private; s.attrs = attrs; s.owner = owner
        s.alive = True; s.handles = {}   # handle -> alive

class Model:
    def __init__(s):
        s.toks = []; s.sess = {}; s.objs = {}; s.handle_nums = {}; s.uidc = 0; s.epoch = 0
    # ---- derived state
    def state(s, se):
        t = s.toks[se.ti]
        if t.login == 'S': return SO_RW
        if t.login == 'U': return USER_RW if se.rw else USER_RO
        return PUB_RW if se.rw else PUB_RO
    def live_sessions(s, ti=None): return [x for x in s.sess.values() if x.alive and (ti is None or x.ti == ti)]
    def user_in(s, ti): return s.toks[ti].login == 'U'
    # ---- access rules (C01)
    def can_read(s, se, private): return (not private) or s.user_in(se.ti)
    def can_write(s, se, on_token, private):
        if private and not s.user_in(se.ti): return False
        if on_token and not se.rw: return False
        return True
    # ---- session / login rules (C03, C04)
    def open_allowed(s, ti, rw): return not (s.toks[ti].login == 'S' and not rw)
    def login_allowed(s, se, ut, pin):
        """ut: 0 SO, 1 USER, 2 CONTEXT_SPECIFIC"""
        t = s.toks[se.ti]
        if ut == 2: return False                       # no re-authentication is ever pending in these histories
        if t.login is not None: return False
        real = t.so if ut == 0 else t.usr
        if real is None or pin != real: return False
        if ut == 0 and any(not x.rw for x in s.live_sessions(se.ti)): return False
        return True
    def initpin_allowed(s, se, pin): return s.state(se) == SO_RW and MIN_PIN <= len(pin) <= MAX_PIN
    def setpin_allowed(s, se, old, new):
        if not se.rw or not (MIN_PIN <= len(new) <= MAX_PIN): return False
        t = s.toks[se.ti]
        if t.login == 'S': return old == t.so
        return t.usr is not None and old == t.usr
    def inittoken_allowed(s, ti, pin): return not s.live_sessions(ti) and pin == s.toks[ti].so and MIN_PIN <= len(pin) <= MAX_PIN
    # ---- handle bookkeeping (C11)
    def new_handle(s, h, what):
        """returns a violation description if the number was issued before in this initialisation"""
        if h in s.handle_nums and s.handle_nums[h] != what: prev = s.handle_nums[h]; return f'handle {h} issued for {prev} and again for {what}'
        s.handle_nums[h] = what; return None
    def kill_obj_handles(s, pred):
        for o in s.objs.values():
            if pred(o):
                for h in o.handles: o.handles[h] = False
    def on_logout(s, ti):
        s.toks[ti].login = None
        s.kill_obj_handles(lambda o: o.ti == ti and o.private)
        for o in s.objs.values():
            if o.ti == ti and o.private and not o.on_token: o.alive = False
    def on_close(s, se):
        se.alive = False
        for o in s.objs.values():
            if not o.on_token and o.owner == se.h and o.ti == se.ti:
                o.alive = False
                for h in o.handles: o.handles[h] = False
        if not s.live_sessions(se.ti): s.on_all_closed(se.ti)
    def on_all_closed(s, ti):
        for x in s.sess.values():
            if x.ti == ti: x.alive = False
        s.toks[ti].login = None
        s.kill_obj_handles(lambda o: o.ti == ti)
        for o in s.objs.values():
            if o.ti == ti and not o.on_token: o.alive = False
    def on_inittoken(s, ti, label):
        t = s.toks[ti]; t.label = label; t.usr = None; t.login = None
        for o in s.objs.values():
            if o.ti == ti:
                o.alive = False
                for h in o.handles: o.handles[h] = False
    def on_restart(s):
        """C_Finalize + C_Initialize: every session and handle is gone, session objects are destroyed,
        handle numbering starts again (outside C11, which speaks of one initialisation)."""
        for x in s.sess.values(): x.alive = False
        for t in s.toks: t.login = None
        for o in s.objs.values():
            for h in o.handles: o.handles[h] = False
            if not o.on_token: o.alive = False
        s.epoch += 1; s.handle_nums = {}; s.sess = {}
        for o in s.objs.values(): o.handles = {}
    # ---- search (C19)
    def visible(s, se):
        return [o for o in s.objs.values() if o.alive and o.ti == se.ti and (not o.private or s.user_in(se.ti))]
    @staticmethod
    def matches(o, templ):
        """templ: [(name, value)] with value bool / int / bytes; typed equality on every entry"""
        for t, v in templ:
            if t not in o.attrs: return False
            av = o.attrs[t]
            if type(av) is not type(v) or av != v: return False
        return True
    def abstract(s):
        """abstract state used by the C03 edge enumeration: per token (login, user PIN set), multiset of sessions"""
        return (tuple((t.login, t.usr is not None) for t in s.toks), tuple(sorted((x.ti, x.rw) for x in s.live_sessions())))
