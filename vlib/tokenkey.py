"""Independent implementation of SoftHSMv2's at-rest key hierarchy, written from the on-disk format.

PIN blob        = salt(8) | IV(16) | AES-256-CBC/PKCS#7( PBE(PIN, salt), "RJR" | master key(32) )          (72 bytes)
PBE(PIN, salt)  = RFC 4880 iterated+salted S2K as the pinned code does it: K = SHA-256(salt | PIN), then
                  (PBE_ITERATION_BASE_COUNT + salt[7]) - 1 times K = SHA-256(K);  PBE_ITERATION_BASE_COUNT = 1500
attribute blob  = IV(16) | AES-256-CBC/PKCS#7( master key, value );  an empty stored value means an empty value

AES comes from libnettle through ctypes (not from OpenSSL/Botan, which the library under test uses); CBC and the
padding are done here; SHA-256 from hashlib.  The binding is checked against the FIPS-197 vector at import."""
import ctypes as C, glob, hashlib

PBE_ITERATION_BASE_COUNT = 1500
MAGIC = b'RJR'

def _load():
    for n in ['libnettle.so.8'] + sorted(glob.glob('/usr/lib/x86_64-linux-gnu/libnettle.so*')) + sorted(glob.glob('/usr/lib*/libnettle.so*')) + ['libnettle.so']:
        try: return C.CDLL(n)
        except OSError: pass
    raise ImportError('libnettle not found')
_n = _load()
for _f in ('nettle_aes256_set_encrypt_key', 'nettle_aes256_set_decrypt_key', 'nettle_aes256_encrypt', 'nettle_aes256_decrypt'): getattr(_n, _f).restype = None

def _xor(a, b): return (int.from_bytes(a, 'big') ^ int.from_bytes(b, 'big')).to_bytes(len(a), 'big')
def _ecb(key, data, enc):
    assert len(key) == 32 and len(data) % 16 == 0
    ctx = C.create_string_buffer(512); out = C.create_string_buffer(len(data) or 1)
    if enc: _n.nettle_aes256_set_encrypt_key(ctx, key); _n.nettle_aes256_encrypt(ctx, C.c_size_t(len(data)), out, data)
    else: _n.nettle_aes256_set_decrypt_key(ctx, key); _n.nettle_aes256_decrypt(ctx, C.c_size_t(len(data)), out, data)
    return out.raw[:len(data)]
def cbc_decrypt(key, iv, ct):
    if not ct: return b''
    return _xor(_ecb(key, ct, False), iv + ct[:-16])
def cbc_encrypt(key, iv, pt):
    out = b''; prev = iv
    for i in range(0, len(pt), 16): prev = _ecb(key, _xor(pt[i:i + 16], prev), True); out += prev
    return out
def pad(d): n = 16 - len(d) % 16; return d + bytes([n]) * n
def unpad(d):
    if not d or len(d) % 16: return None
    n = d[-1]
    if n == 0 or n > 16 or d[-n:] != bytes([n]) * n: return None
    return d[:-n]

def pbe_key(pin, salt, base=PBE_ITERATION_BASE_COUNT):
    """RFC 4880 S2K as implemented by the pinned RFC4880::PBEDeriveKey (the count depends on the last salt byte)"""
    if len(salt) < 8 or len(pin) == 0: return None
    k = hashlib.sha256(salt + pin).digest()
    for _ in range(base + salt[-1] - 1): k = hashlib.sha256(k).digest()
    return k

def split_pin_blob(blob):
    """-> (salt, iv, ciphertext) or None when the layout is impossible"""
    if blob is None or len(blob) < 8 + 16 + 16 or (len(blob) - 24) % 16: return None
    return blob[:8], blob[8:24], blob[24:]

def unwrap_master_key(blob, pin, base=PBE_ITERATION_BASE_COUNT):
    """the 32-byte master key, or None (wrong PIN / not a PIN blob)"""
    parts = split_pin_blob(blob)
    if parts is None or not pin: return None
    salt, iv, ct = parts; k = pbe_key(pin, salt, base)
    pt = unpad(cbc_decrypt(k, iv, ct))
    if pt is None or pt[:3] != MAGIC: return None
    key = pt[3:]
    return key if len(key) == 32 else None

def wrap_master_key(key, pin, salt, iv, base=PBE_ITERATION_BASE_COUNT):
    """the inverse (used by the self-test and to fabricate tokens for negative tests)"""
    return salt + iv + cbc_encrypt(pbe_key(pin, salt, base), iv, pad(MAGIC + key))

def attr_iv(blob): return blob[:16] if blob and len(blob) >= 16 else None

def decrypt_attr(master, blob):
    """plaintext of an encrypted byte-string attribute, or None when the blob is malformed / the key is wrong"""
    if blob == b'': return b''
    if master is None or len(blob) < 32 or len(blob) % 16: return None
    return unpad(cbc_decrypt(master, blob[:16], blob[16:]))

def encrypt_attr(master, iv, value): return iv + cbc_encrypt(master, iv, pad(value))

def _selftest():
    # FIPS-197 C.3 (AES-256)
    k = bytes(range(32)); p = bytes.fromhex('00112233445566778899aabbccddeeff'); c = bytes.fromhex('8ea2b7ca516745bfeafc49904b496089')
    assert _ecb(k, p, True) == c and _ecb(k, c, False) == p
    # SP 800-38A F.2.5 CBC-AES256 (first two blocks)
    k = bytes.fromhex('603deb1015ca71be2b73aef0857d77811f352c073b6108d72d9810a30914dff4'); iv = bytes(range(16))
    pt = bytes.fromhex('6bc1bee22e409f96e93d7e117393172aae2d8a571e03ac9c9eb76fac45af8e51'); ct = bytes.fromhex('f58c4c04d6e5f1ba779eabfb5f7bfbd69cfc4e967edb808d679f777bc6702c7d')
    assert cbc_encrypt(k, iv, pt) == ct and cbc_decrypt(k, iv, ct) == pt
    mk = hashlib.sha256(b'mk').digest(); pin = b'\x00pin\xff'
    b = wrap_master_key(mk, pin, b'saltsal\x07', iv); assert len(b) == 72 and unwrap_master_key(b, pin) == mk and unwrap_master_key(b, pin + b'x') is None and unwrap_master_key(b, pin, base=1501) is None
    for n in (0, 1, 15, 16, 17, 4096): v = bytes(n % 251 for n in range(n)); assert decrypt_attr(mk, encrypt_attr(mk, iv, v)) == v
    assert decrypt_attr(mk, b'') == b'' and decrypt_attr(mk, b'x' * 31) is None
_selftest()
