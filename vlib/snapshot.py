"""Snapshots of the object population for C09: (a) through the API (every session: empty-template search plus
every readable attribute of every object), (b) of the token directory (object files / db rows).  Generation
counters, lock files and the token object (flags, PINs) are not objects and are left out."""
import glob, os, shutil, sqlite3, struct, tempfile

# every attribute type the pinned library knows for storage objects (unknown-for-class / sensitive ones read back as None)
ATTRS = ['CKA_CLASS', 'CKA_TOKEN', 'CKA_PRIVATE', 'CKA_LABEL', 'CKA_APPLICATION', 'CKA_VALUE', 'CKA_OBJECT_ID', 'CKA_CERTIFICATE_TYPE',
         'CKA_ISSUER', 'CKA_SERIAL_NUMBER', 'CKA_TRUSTED', 'CKA_CERTIFICATE_CATEGORY', 'CKA_JAVA_MIDP_SECURITY_DOMAIN', 'CKA_URL',
         'CKA_HASH_OF_SUBJECT_PUBLIC_KEY', 'CKA_HASH_OF_ISSUER_PUBLIC_KEY', 'CKA_NAME_HASH_ALGORITHM', 'CKA_CHECK_VALUE', 'CKA_KEY_TYPE',
         'CKA_SUBJECT', 'CKA_ID', 'CKA_SENSITIVE', 'CKA_ENCRYPT', 'CKA_DECRYPT', 'CKA_WRAP', 'CKA_UNWRAP', 'CKA_SIGN', 'CKA_SIGN_RECOVER',
         'CKA_VERIFY', 'CKA_VERIFY_RECOVER', 'CKA_DERIVE', 'CKA_START_DATE', 'CKA_END_DATE', 'CKA_MODULUS', 'CKA_MODULUS_BITS',
         'CKA_PUBLIC_EXPONENT', 'CKA_PRIVATE_EXPONENT', 'CKA_PRIME_1', 'CKA_PRIME_2', 'CKA_EXPONENT_1', 'CKA_EXPONENT_2', 'CKA_COEFFICIENT',
         'CKA_PUBLIC_KEY_INFO', 'CKA_PRIME', 'CKA_SUBPRIME', 'CKA_BASE', 'CKA_PRIME_BITS', 'CKA_VALUE_BITS', 'CKA_VALUE_LEN',
         'CKA_EXTRACTABLE', 'CKA_LOCAL', 'CKA_NEVER_EXTRACTABLE', 'CKA_ALWAYS_SENSITIVE', 'CKA_KEY_GEN_MECHANISM', 'CKA_MODIFIABLE',
         'CKA_COPYABLE', 'CKA_DESTROYABLE', 'CKA_EC_PARAMS', 'CKA_EC_POINT', 'CKA_ALWAYS_AUTHENTICATE', 'CKA_WRAP_WITH_TRUSTED',
         'CKA_ALLOWED_MECHANISMS']
# nested templates: only their size is read (a NULL-pointer query)
SIZE_ONLY = ['CKA_WRAP_TEMPLATE', 'CKA_UNWRAP_TEMPLATE']
ALL = ATTRS + SIZE_ONLY
CAP = 384
READ_OK = ('CKR_OK', 'CKR_ATTRIBUTE_SENSITIVE', 'CKR_ATTRIBUTE_TYPE_INVALID', 'CKR_BUFFER_TOO_SMALL')

def read_object(x, s, h):
    """-> (rvname, tuple of per-attribute values: hex string, None = unavailable, 'len:n' for size-only / oversize)"""
    ck = x.ck
    tmpl = [{'t': ck[a], 'buf': CAP} for a in ATTRS] + [{'t': ck[a], 'buf': None} for a in SIZE_ONLY]
    r = x.call('C_GetAttributeValue', s=s, o=h, tmpl=tmpl)
    vals = []
    if r['rvname'] not in READ_OK: return r['rvname'], (None,) * len(ALL)    # nothing was filled in (buffers still hold the canary)
    for a, e in zip(ALL, r.get('tmpl', [])):
        if e.get('len', -1) == -1: vals.append(None)
        elif 'data' in e and e['len'] <= CAP and a in ATTRS: vals.append(e['data'])
        else: vals.append('len:%d' % e['len'])
    if not vals: vals = [None] * len(ALL)
    return r['rvname'], tuple(vals)

def find_all(x, s):
    r = x.call('C_FindObjectsInit', s=s, tmpl=[])
    if r['rv'] != 0: return None
    got = []
    while True:
        r = x.call('C_FindObjects', s=s, max=128)
        if r['rv'] != 0 or r['n'] == 0: break
        got += r['objs']
    x.call('C_FindObjectsFinal', s=s)
    return tuple(sorted(got))

def api_snapshot(x, sessions):
    """{'sets': {session: handles or None}, 'objs': {(session, handle): (rvname, values)}}"""
    snap = {'sets': {}, 'objs': {}}
    for s in sessions:
        hs = find_all(x, s); snap['sets'][s] = hs
        for h in hs or ():
            snap['objs'][(s, h)] = read_object(x, s, h)
    return snap

def api_diff(a, b):
    """differences between two API snapshots of the same process (handles are comparable):
    list of (kind, session, handle, detail) with kind in added / removed / changed / search-failed"""
    out = []
    for s in a['sets']:
        ha, hb = a['sets'][s], b['sets'].get(s)
        if ha is None or hb is None:
            if ha != hb: out.append(('search-failed', s, 0, None))
            continue
        for h in sorted(set(hb) - set(ha)): out.append(('added', s, h, named(b['objs'][(s, h)][1])))
        for h in sorted(set(ha) - set(hb)): out.append(('removed', s, h, named(a['objs'][(s, h)][1])))
        for h in sorted(set(ha) & set(hb)):
            va, vb = a['objs'][(s, h)], b['objs'][(s, h)]
            if va != vb:
                ch = {n: (p, q) for n, p, q in zip(ALL, va[1], vb[1]) if p != q}
                if va[0] != vb[0]: ch['(rv)'] = (va[0], vb[0])
                out.append(('changed', s, h, ch))
    return out

def named(vals): return {n: v for n, v in zip(ALL, vals) if v is not None}

def canon(snap, s):
    """handle-free form of what session s sees (for comparisons across processes): sorted list of value tuples"""
    hs = snap['sets'].get(s)
    if hs is None: return None
    return sorted((snap['objs'][(s, h)] for h in hs), key=repr)

def canon_diff(a, b):
    """a, b: canon() lists -> (missing from b, extra in b) as lists of named dicts"""
    if a is None or b is None: return ([], []) if a == b else ([{'search': 'failed'}], [])
    ra = [repr(v) for v in a]; rb = [repr(v) for v in b]; miss = []; extra = []
    pool = list(rb)
    for v, r in zip(a, ra):
        if r in pool: pool.remove(r)
        else: miss.append(dict(named(v[1]), **{'(rv)': v[0]}))
    pool = list(ra)
    for v, r in zip(b, rb):
        if r in pool: pool.remove(r)
        else: extra.append(dict(named(v[1]), **{'(rv)': v[0]}))
    return miss, extra

# ------------------------------------------------------------------ directory snapshot
TOKEN_VENDOR = 0x80000000 + 0x5348   # CKA_VENDOR_SOFTHSM: the token object's attributes are base+1..5

def dir_snapshot(tokens_root, backend='file'):
    """file: {relative path of *.object (not token.object): bytes without the 8-byte generation counter}
    db:   {'<tokendir>/object:<id>': sorted tuple of (table, type, value)} for every row of `object` except the token object"""
    out = {}
    if backend == 'file':
        for f in glob.glob(os.path.join(tokens_root, '*', '*.object')):
            if os.path.basename(f) == 'token.object': continue
            try: b = open(f, 'rb').read()
            except OSError: b = None
            out[os.path.relpath(f, tokens_root)] = None if b is None else b[8:]
        return out
    for f in glob.glob(os.path.join(tokens_root, '*', 'sqlite3.db')):
        tmp = tempfile.mkdtemp(prefix='dbsnap', dir=os.path.dirname(tokens_root.rstrip('/')))   # next to tokens/, never /tmp
        try:
            for g in glob.glob(f + '*'): shutil.copy(g, tmp)
            c = sqlite3.connect(os.path.join(tmp, 'sqlite3.db'))
            ids = [r[0] for r in c.execute('select id from object')]
            rows = {i: [] for i in ids}
            tabs = [r[0] for r in c.execute("select name from sqlite_master where type='table' and name like 'attribute_%'")]
            for t in sorted(tabs):
                for oid, typ, val in c.execute(f'select object_id, type, value from {t}'):
                    rows.setdefault(oid, []).append((t, typ, bytes(val) if isinstance(val, (bytes, memoryview)) else val))
            c.close()
        finally: shutil.rmtree(tmp, ignore_errors=True)
        tdir = os.path.basename(os.path.dirname(f))
        for oid, rs in rows.items():
            if any(TOKEN_VENDOR < typ <= TOKEN_VENDOR + 5 for _, typ, _ in rs): continue
            out[f'{tdir}/object:{oid}'] = tuple(sorted(set(rs), key=repr))      # as a set: the db back-end accumulates duplicate rows (same type, same value)
    return out

def _decode_objfile(b):
    """minimal decoder of the pinned object-file body (generation already stripped): {type: (kind, value)} or None"""
    o = 0; attrs = {}
    def u64():
        nonlocal o
        if o + 8 > len(b): raise ValueError
        v = struct.unpack_from('>Q', b, o)[0]; o += 8; return v
    def value(kind):
        nonlocal o
        if kind == 1:
            if o >= len(b): raise ValueError
            o += 1; return b[o - 1]
        if kind == 2: return u64()
        if kind == 3:
            n = u64()
            if o + n > len(b): raise ValueError
            o += n; return b[o - n:o]
        if kind == 5: return tuple(sorted(u64() for _ in range(u64())))
        if kind == 4:
            n = u64(); end = o + n; m = {}
            if end > len(b): raise ValueError
            while o < end: t = u64(); k = u64(); m[t] = (k, value(k))
            return tuple(sorted(m.items()))
        raise ValueError
    try:
        while o < len(b): t = u64(); k = u64(); attrs[t] = (k, value(k))
    except (ValueError, RecursionError): return None
    return attrs

def dir_diff(a, b, backend='file'):
    """-> list of (kind, name, detail), kind in file-added / file-removed / file-changed.  Bytes that differ but decode
    to the same attributes are not a difference (the statement speaks of attribute values)."""
    out = []
    for n in sorted(set(b) - set(a)): out.append(('file-added', n, describe(b[n], backend)))
    for n in sorted(set(a) - set(b)): out.append(('file-removed', n, describe(a[n], backend)))
    for n in sorted(set(a) & set(b)):
        if a[n] == b[n]: continue
        if backend == 'file':
            da = _decode_objfile(a[n] or b''); db = _decode_objfile(b[n] or b'')
            if da is not None and da == db: continue
            if da is None or db is None: out.append(('file-changed', n, 'undecodable' if db is None else 'was-undecodable'))
            else: out.append(('file-changed', n, sorted('0x%x' % t for t in set(da) | set(db) if da.get(t) != db.get(t))))
        else:
            out.append(('file-changed', n, sorted('0x%x' % r[1] for r in set(a[n]) ^ set(b[n]))))
    return out

def describe(v, backend):
    if backend == 'file':
        if v is None: return 'unreadable'
        d = _decode_objfile(v)
        return 'undecodable(%d bytes)' % len(v) if d is None else '%d attributes, %d bytes' % (len(d), len(v))
    return '%d rows' % len(v)
