"""Coverage-guided lane of check C17: libFuzzer harnesses (exec/fuzz_*.cpp) over the parsers that read attacker-controlled
bytes before any key is involved - object files, token.object, softhsm2.conf, DER / ByteString helpers.

The harnesses are compiled with clang++ -fsanitize=fuzzer,address,undefined together with the repository's OWN sources, taken
from the content mirror tools/build.py keeps of the CURRENT working tree of $VERIF_REPO ($VERIF_CACHE/src; config.h from
$VERIF_CACHE/build-plain).  Objects and executables live in $VERIF_CACHE/fuzz/ under content-derived names: a changed
mirrored source, header, harness or flag gives a new name, i.e. a rebuild.  Runs are bounded by the NUMBER of executions.

    run_fuzz_lane(ctx, runs_per_target)        called by checks/c17.py (thorough tier only)
    python3 vlib/fuzzlane.py build | run <runs> [seed] | replay <replays/C17/xxxx.json>      by hand
"""
import concurrent.futures, fcntl, hashlib, json, os, re, shutil, subprocess, sys, time

HERE = os.path.dirname(os.path.abspath(__file__)); VERIF = os.path.dirname(HERE)
CLANGXX = os.environ.get('VERIF_CLANGXX', 'clang++')
BUILD_JOBS = int(os.environ.get('VERIF_FUZZ_BUILD_JOBS', '4'))          # the machine is shared: never more than 4 compilers
MAX_PROCS = max(1, min(8, int(os.environ.get('VERIF_FUZZ_PROCS', '8'))))   # fuzzing processes alive at the same time: 8 at most
# UBSan: only null-pointer accesses / bounds terminate the run (they are failures the property names); every other category may print
# and goes on.  bounds is compiled as non-recoverable; within the null category `&vector[0]` of an empty vector ("reference binding to
# null pointer", all over the unchanged library, an observation for checks/c17.py too) has to stay recoverable, so the split is made at
# run time by the __ubsan_on_report hook of exec/fuzz_common.h with the same classification as c17.ubsan_class.
FLAGS = ['-std=gnu++11', '-O1', '-g', '-fno-omit-frame-pointer', '-fsanitize=fuzzer,address,undefined',
         '-fno-sanitize-recover=bounds', '-Wno-deprecated-declarations']
INCLUDE_DIRS = ['common', 'crypto', 'data_mgr', 'object_store', 'pkcs11']      # below <mirror>/src/lib; plus src/lib itself
OBJECT_STORE = ['object_store/OSToken.cpp', 'object_store/ObjectFile.cpp', 'object_store/File.cpp', 'object_store/Generation.cpp',
                'object_store/Directory.cpp', 'object_store/OSAttribute.cpp', 'data_mgr/ByteString.cpp', 'data_mgr/SecureMemoryRegistry.cpp',
                'common/MutexFactory.cpp', 'common/osmutex.cpp', 'common/log.cpp', 'crypto/DerUtil.cpp']
TARGETS = {   # target -> harness source, repository sources linked in, seed corpus kind
    'objectfile':  dict(harness='fuzz_objectfile.cpp', srcs=OBJECT_STORE, seeds='object'),
    'tokenobject': dict(harness='fuzz_tokenobject.cpp', srcs=OBJECT_STORE, seeds='object'),
    'config':      dict(harness='fuzz_config.cpp', srcs=['common/Configuration.cpp', 'common/SimpleConfigLoader.cpp', 'common/log.cpp'], seeds='conf'),
    'der':         dict(harness='fuzz_der.cpp', srcs=['crypto/DerUtil.cpp', 'data_mgr/ByteString.cpp', 'data_mgr/SecureMemoryRegistry.cpp',
                                                      'common/MutexFactory.cpp', 'common/osmutex.cpp', 'common/log.cpp'], seeds='der'),
}
CONF_SEEDS = [
    b'directories.tokendir = /var/lib/softhsm/tokens/\nobjectstore.backend = file\nlog.level = INFO\nslots.removable = false\n',
    b'# SoftHSM v2 configuration file\n\ndirectories.tokendir = /dev/shm/t/tokens\nobjectstore.backend = db\nobjectstore.umask = 0077\n'
    b'log.level = DEBUG\nslots.removable = true\nslots.mechanisms = ALL\nlibrary.reset_on_fork = false\n',
    b'slots.mechanisms = -CKM_RSA_X_509,CKM_RSA_PKCS\nlog.level=ERROR\r\nobjectstore.umask=7\n',
    b'slots.mechanisms = CKM_AES_CBC,CKM_AES_CBC,CKM_SHA256\nslots.removable = TRUE\nlibrary.reset_on_fork = True\n',
    b'   directories.tokendir   =   a b c   # comment\n=\n= value\nname =\nno.such.key = %s%n%x\nlog.level = WARNING = x\n',
    b'objectstore.umask = 99999999999999999999\nslots.removable = maybe\nlog.level = %s%s%s\n\x00\xff\xfe binary = \x01\n' + b'x' * 1100 + b' = ' + b'y' * 1100 + b'\n',
]
DER_SEEDS = [
    b'\x04\x03abc', b'\x04\x00', b'\x04\x81\x80' + bytes(range(128)), b'\x04\x82\x01\x00' + bytes(256), b'\x04\x41\x04' + bytes(range(64)),
    b'\x04\x88\x00\x00\x00\x00\x00\x00\x00\x02ab', b'\x04\xff' + b'\xff' * 130, b'0123456789abcdefABCDEF', b'abc', b'zz-not-hex',
    (8).to_bytes(8, 'big') + b'12345678' + (3).to_bytes(8, 'big') + b'abc' + (0).to_bytes(8, 'big'), (2 ** 63).to_bytes(8, 'big') + b'tail', b'',
]
SAN_ENV = {'ASAN_OPTIONS': 'detect_leaks=0:allocator_may_return_null=1:detect_stack_use_after_return=0:symbolize=1',
           'UBSAN_OPTIONS': 'print_stacktrace=1:symbolize=1'}
CRASH_PREFIXES = ('crash-', 'timeout-', 'oom-')
SHARDS = {'objectfile': 3, 'tokenobject': 2, 'config': 1, 'der': 2}      # processes per target; 8 in total
MAX_RESTARTS = 3          # after a crash the target is restarted on the remaining runs, at most this often

def sh(cmd, **kw): return subprocess.run(cmd, stdout=subprocess.PIPE, stderr=subprocess.STDOUT, text=True, **kw)
def _sha(*parts):
    h = hashlib.sha256()
    for p in parts: h.update(p if isinstance(p, bytes) else str(p).encode()); h.update(b'\0')
    return h.hexdigest()
def _read(p):
    with open(p, 'rb') as f: return f.read()

# ------------------------------------------------------------------------------------------------ build
def _compiler_id():
    r = sh([CLANGXX, '--version']); return r.stdout.splitlines()[0] if r.returncode == 0 and r.stdout else None

def build_harnesses(plain, jobs=BUILD_JOBS, out=None):
    """plain = paths of the 'plain' config from tools/build.py (its 'src' is the content mirror, 'builddir' holds config.h).
    Returns ({target: exe}, {target: why it could not be built}, seconds spent compiling)."""
    t0 = time.time(); out = out or f"{os.path.dirname(plain['builddir'])}/fuzz"; lib = f"{plain['src']}/src/lib"
    os.makedirs(f'{out}/obj', exist_ok=True); exes = {}; errors = {}
    cid = _compiler_id()
    if cid is None: return {}, {t: f'{CLANGXX} is not usable' for t in TARGETS}, 0.0
    if not os.path.exists(f"{plain['builddir']}/config.h"): return {}, {t: 'config.h has not been generated in ' + plain['builddir'] for t in TARGETS}, 0.0
    inc = [plain['builddir'], lib] + [f'{lib}/{d}' for d in INCLUDE_DIRS] + [f'{VERIF}/exec']
    with open(f'{out}/.lock', 'w') as lk:
        fcntl.flock(lk, fcntl.LOCK_EX)
        hdrs = [f"{plain['builddir']}/config.h"]
        for d in [lib] + [f'{lib}/{x}' for x in INCLUDE_DIRS]: hdrs += sorted(f'{d}/{n}' for n in os.listdir(d) if n.endswith('.h'))
        base = _sha(cid, ' '.join(FLAGS), *[_sha(os.path.basename(h), _read(h)) for h in hdrs])
        hbase = _sha(base, _read(f'{VERIF}/exec/fuzz_common.h'))      # the harnesses also depend on their shared header
        units = {}     # object file -> source
        def obj_of(src): return f"{out}/obj/{os.path.basename(src)[:-4]}-{_sha(hbase if src.startswith(VERIF + '/exec/') else base, _read(src))[:20]}.o"
        plan = {}
        for t, d in TARGETS.items():
            try:
                srcs = [f'{VERIF}/exec/{d["harness"]}'] + [f'{lib}/{s}' for s in d['srcs']]; objs = [obj_of(s) for s in srcs]
            except OSError as e: errors[t] = 'source missing in the mirror: %s' % e; continue
            for s, o in zip(srcs, objs): units[o] = s
            plan[t] = (objs, f"{out}/fuzz_{t}-{_sha(base, *objs)[:20]}")
        todo = [(o, s) for o, s in sorted(units.items()) if not os.path.exists(o)]
        def cc(job):
            o, s = job; tmp = f'{o}.tmp{os.getpid()}'
            r = sh([CLANGXX] + FLAGS + sum((['-I', i] for i in inc), []) + ['-c', s, '-o', tmp])
            if r.returncode != 0: return o, r.stdout[-3000:]
            os.replace(tmp, o); return o, None
        failed = {}
        if todo:
            with concurrent.futures.ThreadPoolExecutor(max_workers=max(1, jobs)) as ex:
                for o, err in ex.map(cc, todo):
                    if err: failed[o] = err
        for t, (objs, exe) in plan.items():
            bad = [o for o in objs if o in failed]
            if bad: errors[t] = 'compile failed: %s\n%s' % (units[bad[0]], failed[bad[0]]); continue
            if not os.path.exists(exe):
                tmp = f'{exe}.tmp{os.getpid()}'
                r = sh([CLANGXX] + FLAGS + objs + ['-o', tmp, '-lpthread'])
                if r.returncode != 0: errors[t] = 'link failed:\n' + r.stdout[-3000:]; continue
                os.replace(tmp, exe)
            exes[t] = exe
        # drop what older versions of the sources left behind (only when everything current could be built)
        if not errors:
            keep = set(units) | set(exes.values())
            for d in (out, f'{out}/obj'):
                for n in os.listdir(d):
                    p = f'{d}/{n}'
                    if os.path.isfile(p) and p not in keep and n != '.lock' and time.time() - os.stat(p).st_mtime > 3600: os.unlink(p)
    return exes, errors, round(time.time() - t0, 1)

# ------------------------------------------------------------------------------------------------ seeds
def make_seeds(root):
    """<root>/object: every *.object below fixtures/ (golden token directories, all back-ends); conf / der: hand-written"""
    dirs = {k: f'{root}/seeds-{k}' for k in ('object', 'conf', 'der')}
    for d in dirs.values(): os.makedirs(d, exist_ok=True)
    for dp, _, fns in sorted(os.walk(f'{VERIF}/fixtures')):
        for fn in sorted(fns):
            if fn.endswith('.object'):
                b = _read(os.path.join(dp, fn)); open(f"{dirs['object']}/{hashlib.sha1(b).hexdigest()}", 'wb').write(b)
    for kind, items in (('conf', CONF_SEEDS), ('der', DER_SEEDS)):
        for b in items: open(f'{dirs[kind]}/{hashlib.sha1(b).hexdigest()}', 'wb').write(b)
    return dirs

# ------------------------------------------------------------------------------------------------ reports
SKIP_FRAMES = ('__asan', '__interceptor', '__sanitizer', '__ubsan', '__sancov', 'operator', 'std::', '__GI_', '_IO_', 'malloc', 'free', 'mem', 'str', '__pthread_kill', 'pthread_kill',
               'raise', 'abort', '__assert', '__cxa', '__gnu_cxx', '_Unwind', 'gsignal', '__libc', 'fuzzer::', 'LLVMFuzzer', 'main', '_start', 'void std::', 'asan_', 'vsnprintf', 'printf_common')
def ubsan_class(msg):
    m = msg.lower()
    if 'null pointer' in m: return 'null-pointer'
    if 'out of bounds' in m: return 'bounds'
    return 'other'
def signature(report):
    """`<error kind>@<top frame inside the library>` - no addresses, no line numbers, no process ids"""
    t = report; kind = None
    m = re.search(r'FUZZ-UBSAN-FATAL: ([\w-]+)', t)
    if m: kind = 'ubsan:' + m.group(1); t = t[m.start():]
    m = re.search(r'ERROR: AddressSanitizer: ([\w-]+)', t) if kind is None else None
    if m:
        kind = 'asan:' + m.group(1); t = t[m.start():]
        if t.startswith('ERROR: AddressSanitizer: allocator is out of memory'): kind = 'asan:out-of-memory'                      # operator new that cannot be served: bad_alloc -> exit(5) without ASan
        elif t.startswith('ERROR: AddressSanitizer: requested allocation size'): kind = 'asan:allocation-size-too-big'
    if kind is None:
        m = re.search(r'ERROR: libFuzzer: ([^\n(]+)', t)
        if m:
            what = m.group(1).strip(); kind = {'timeout': 'hang', 'out-of-memory': 'out-of-memory', 'fuzz target exited': 'exit', 'deadly signal': 'abort'}.get(what, what.replace(' ', '-'))
            e = re.search(r"terminate called after throwing an instance of '([^']+)'", report)
            a = re.search(r'([\w.]+):(\d+): [^\n]*Assertion `', report)
            if what == 'deadly signal' and e: kind = 'uncaught:' + e.group(1)
            elif what == 'deadly signal' and a: return 'assert@%s:%s' % (a.group(1), a.group(2))
            t = t[m.start():]
    if kind is None:
        ms = list(re.finditer(r'runtime error: ([^\n]*)', t))
        if ms: kind = 'ubsan:' + ubsan_class(ms[-1].group(1)); t = t[ms[-1].start():]
    if kind is None: kind = 'died'
    where = '?'; fallback = None
    for m in re.finditer(r'^\s*#\d+ 0x[0-9a-f]+ in (.*)$', t, re.M):
        line = m.group(1); f = line.split(' /')[0].split('(')[0].strip()
        if '/src/lib/' in line and not f.startswith(SKIP_FRAMES): where = f; break
        if fallback is None and '/exec/fuzz_' in line and not f.startswith(SKIP_FRAMES): fallback = 'harness:' + f
    if where == '?' and fallback: where = fallback
    return f'{kind}@{where}'
def report_head(t, n=3000):
    i = t.find('FUZZ-UBSAN-FATAL')
    if i >= 0: j = t.rfind('\n', 0, max(0, i - 1)); return t[max(0, j + 1):i + n]
    for pat in ('ERROR: AddressSanitizer', 'ERROR: libFuzzer', 'runtime error:'):
        i = t.rfind(pat) if pat == 'runtime error:' else t.find(pat)
        if i >= 0: j = t.rfind('\n', 0, i); return t[max(0, j + 1):i + n]
    return t[-n:]

STATUS = re.compile(r'^#(\d+)\s+\w+\s+cov: (\d+) ft: (\d+) corp: (\d+)/', re.M)
def parse_log(t):
    d = {'executed': None, 'cov': None, 'ft': None, 'corpus': None}
    m = re.search(r'stat::number_of_executed_units:\s*(\d+)', t)
    last = None
    for last in STATUS.finditer(t): pass
    if last: d.update(cov=int(last.group(2)), ft=int(last.group(3)), corpus=int(last.group(4)))
    if m: d['executed'] = int(m.group(1))
    elif last: d['executed'] = int(last.group(1))
    return d

# ------------------------------------------------------------------------------------------------ run
def _env(work):
    e = dict(os.environ); e.update(SAN_ENV); e['FUZZ_SCRATCH'] = work
    for k in ('SOFTHSM2_CONF', 'LD_PRELOAD'): e.pop(k, None)
    sym = shutil.which('llvm-symbolizer') or shutil.which('llvm-symbolizer-14')
    if sym: e['ASAN_SYMBOLIZER_PATH'] = sym; e['UBSAN_SYMBOLIZER_PATH'] = sym
    return e
LIMITS = ['-max_len=4096', '-timeout=20', '-rss_limit_mb=2048', '-detect_leaks=0']

def _start(exe, tdir, attempt, runs, seed, seeds):
    work = f'{tdir}/work{attempt}'; art = f'{tdir}/artifacts{attempt}'; corpus = f'{tdir}/corpus'; log = f'{tdir}/log{attempt}.txt'
    for d in (work, art, corpus): os.makedirs(d, exist_ok=True)
    cmd = [exe, f'-runs={runs}', f'-seed={seed}'] + LIMITS + [f'-artifact_prefix={art}/', '-print_final_stats=1', corpus, seeds]
    p = subprocess.Popen(cmd, stdout=subprocess.DEVNULL, stderr=open(log, 'wb'), stdin=subprocess.DEVNULL, cwd=tdir, env=_env(work))
    return dict(proc=p, log=log, art=art, work=work, runs=runs, seed=seed, cmd=cmd, t0=time.time())

def reproduce(exe, artifact, tdir):
    """the harness on this single input: the sanitizer report of the crash (None if it does not fail again)"""
    work = f'{tdir}/repro-work'; shutil.rmtree(work, ignore_errors=True); os.makedirs(work)
    try: r = subprocess.run([exe] + LIMITS + [f'-artifact_prefix={work}/', artifact], stdout=subprocess.DEVNULL, stderr=subprocess.PIPE, stdin=subprocess.DEVNULL, cwd=tdir, env=_env(work), timeout=120)
    except subprocess.TimeoutExpired: return None
    return r.stderr.decode('latin-1') if r.returncode != 0 else None

def run_fuzz_lane(ctx, runs_per_target, plain=None, out=None):
    """Builds (or reuses) the harnesses, runs every target for `runs_per_target` executions and reports through ctx.
    (plain / out: only for experiments - sources and config.h from somewhere else than the cache of tools/build.py)"""
    try: plain = plain or ctx.need('plain')['plain']          # mirrors the current working tree of $VERIF_REPO (under the cache lock) and provides config.h
    except Exception as e: ctx.inconc('libfuzzer lane: the source mirror / config.h could not be prepared: %s' % (str(e)[-400:],)); return
    exes, errors, build_s = build_harnesses(plain, out=out)
    for t, why in sorted(errors.items()): ctx.inconc(f'libfuzzer lane: harness {t} could not be built: {why[-500:]}')
    root = ctx.dir('libfuzzer'); seeds = make_seeds(root); stats = {}; state = {}
    # the slower targets are split into independent shards (own libFuzzer seed, own corpus directory, same seed corpus) that share the
    # target's run count; MAX_PROCS processes in total.  Nothing is exchanged between shards: each one is reproducible from its seed.
    for i, t in enumerate(sorted(exes)):
        n = max(1, min(SHARDS.get(t, 1), runs_per_target // 20000 or 1))
        stats[t] = {'executed': 0, 'cov': None, 'ft': None, 'corpus': None, 'crashes': 0, 'shards': n, 'wall_s': 0.0}
        for k in range(n):
            tdir = f'{root}/{t}.{k}'; os.makedirs(tdir)
            state[(t, k)] = dict(tdir=tdir, attempt=0, left=runs_per_target // n + (1 if k < runs_per_target % n else 0), wall=0.0,
                                 base_seed=((ctx.seed * 7919 + i * 104729 + k * 1299709) % 0x7ffffff0) + 1)
    pending = sorted(state); running = {}
    def launch(key):
        s = state[key]; running[key] = _start(exes[key[0]], s['tdir'], s['attempt'], s['left'], s['base_seed'] + s['attempt'], seeds[TARGETS[key[0]]['seeds']])
    while pending or running:
        while pending and len(running) < MAX_PROCS: launch(pending.pop(0))
        time.sleep(0.2)
        for key in list(running):
            r = running[key]; rc = r['proc'].poll(); t = key[0]
            # not a bound on the work (that is the run count): a watchdog for a wedged process (libFuzzer's own -timeout covers single inputs)
            if rc is None and time.time() - r['t0'] > max(3600, r['runs'] / 20):
                r['proc'].kill(); r['proc'].wait(); rc = -9
            if rc is None: continue
            del running[key]; s = state[key]; st = stats[t]; s['wall'] += time.time() - r['t0']
            log = _read(r['log']).decode('latin-1'); d = parse_log(log)
            done = d['executed'] or 0; st['executed'] += done
            for k in ('cov', 'ft', 'corpus'):
                if d[k] is not None: st[k] = max(st[k] or 0, d[k])
            arts = sorted(n for n in os.listdir(r['art']) if n.startswith(CRASH_PREFIXES))
            for n in sorted(os.listdir(r['art'])):
                if n.startswith('slow-unit-'): ctx.observe('libfuzzer: slow unit (> 10 s, below the 20 s limit)', t)
            for n in arts:
                path = f"{r['art']}/{n}"; blob = _read(path); rep = reproduce(exes[t], path, s['tdir']); again = rep is not None
                if not again and n.startswith(('timeout-', 'oom-')):
                    # a stall / memory peak that the same input does not show on its own (loaded machine): not a verdict
                    ctx.observe('libfuzzer: %s artifact not reproduced' % n.split('-')[0], t); ctx.inconc(f'libfuzzer lane: {t}: a {n.split("-")[0]} was reported but the input alone does not reproduce it'); continue
                text = rep if again else log; sig = signature(text); st['crashes'] += 1
                ctx.violation(f'libfuzzer:{t}|file-content|{sig}',
                              f'libFuzzer harness {t}: the input (content of {FILE_OF[t]}) ends in {sig}' + ('' if again else ' (seen during the run; the input alone did not fail again)'),
                              {'mode': 'libfuzzer', 'target': t, 'artifact': n, 'artifact_len': len(blob), 'artifact_hex': blob[:400].hex(), 'artifact_full_hex': blob.hex() if len(blob) <= 8192 else None,
                               'reproduced': again, 'libfuzzer_seed': r['seed'], 'report_head': report_head(text)})
            s['left'] -= done
            if rc == 78 or 'FUZZ-HARNESS-TROUBLE' in log:
                ctx.inconc(f'libfuzzer lane: harness {t} gave up (environment): ' + log[-300:]); continue
            if rc != 0 and not arts:
                ctx.inconc(f'libfuzzer lane: {t} ended with status {rc} without an artifact after {done} executions: ' + log[-400:]); continue
            if arts and s['left'] > 0 and s['attempt'] < MAX_RESTARTS and done > 0:
                s['attempt'] += 1; pending.append(key)          # go on with the remaining runs (the corpus directory is kept)
    for t in sorted(exes):
        st = stats[t]; st['wall_s'] = round(max(s['wall'] for key, s in state.items() if key[0] == t), 1)
        if st['executed'] <= 0: ctx.inconc(f'libfuzzer lane: harness {t} executed nothing')
        else: ctx.case((t, 'libfuzzer'), n=st['executed'])
        st['exec_per_s'] = round(st['executed'] / st['wall_s']) if st['wall_s'] else None
    for t in errors: stats[t] = {'executed': 0, 'cov': None, 'ft': None, 'corpus': None, 'crashes': 0, 'not_built': True}
    ctx.extra['libfuzzer'] = stats; ctx.extra['libfuzzer_build_s'] = build_s
    shutil.rmtree(root, ignore_errors=True)
    return stats

FILE_OF = {'objectfile': '<token directory>/<uuid>.object', 'tokenobject': '<token directory>/token.object', 'config': 'softhsm2.conf', 'der': 'a stored byte string (DER / ByteString helpers)'}

# ------------------------------------------------------------------------------------------------ by hand
def _cli():
    sys.path.insert(0, HERE); from harness import Ctx
    a = sys.argv[1:]
    if not a or a[0] not in ('build', 'run', 'replay'): raise SystemExit(__doc__)
    ctx = Ctx('C17', 'thorough', int(a[2]) if a[0] == 'run' and len(a) > 2 else 1)
    try:
        # FUZZLANE_SRC=<tree with src/lib> FUZZLANE_OUT=<dir>: build from a scratch copy of the repository (config.h still from the cache)
        plain = ctx.need('plain')['plain']; out = os.environ.get('FUZZLANE_OUT')
        if os.environ.get('FUZZLANE_SRC'): plain = dict(plain, src=os.environ['FUZZLANE_SRC']); out = out or f'{ctx.scratch}/fuzz-build'
        if a[0] == 'build':
            exes, errors, s = build_harnesses(plain, out=out); print(json.dumps({'built': exes, 'errors': errors, 'build_s': s}, indent=1)); return 1 if errors else 0
        if a[0] == 'replay':
            w = json.load(open(a[1]))['witness']; exes, errors, _ = build_harnesses(plain, out=out); t = w['target']
            if t not in exes: print('cannot build', t, errors.get(t)); return 2
            d = ctx.dir('replay'); p = f'{d}/artifact'; open(p, 'wb').write(bytes.fromhex(w.get('artifact_full_hex') or w['artifact_hex']))
            rep = reproduce(exes[t], p, d)
            if rep is None: print('not reproduced'); return 0
            print(report_head(rep, 6000)); print('REPLAY reproduced:', f'libfuzzer:{t}|file-content|{signature(rep)}'); return 1
        os.environ['VERIF_REPLAY_DIR'] = os.environ.get('VERIF_REPLAY_DIR', ctx.dir('replays'))      # a run by hand leaves nothing in the repository
        t0 = time.time(); stats = run_fuzz_lane(ctx, int(a[1]), plain=plain, out=out)
        print(json.dumps({'stats': stats, 'build_s': ctx.extra.get('libfuzzer_build_s'), 'wall_s': round(time.time() - t0, 1), 'evaluations': ctx.evaluations,
                          'violations': {k: v[0] for k, v in ctx.viol.items()}, 'known': sorted(ctx.known), 'inconclusive': ctx.inconclusive}, indent=1))
        for k, (what, path) in ctx.viol.items(): print(json.load(open(path))['witness']['report_head'])
        return 1 if ctx.viol else 2 if ctx.inconclusive else 0
    finally: shutil.rmtree(ctx.scratch, ignore_errors=True)

if __name__ == '__main__': sys.exit(_cli())
