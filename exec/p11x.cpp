// p11x -- PKCS#11 host executor (prototype).  JSON-lines co-process + threads mode.
// Build: g++ -std=gnu++17 -O1 -g -rdynamic [-fsanitize=...] -I<repo>/src/lib/pkcs11 p11x.cpp interpose.cpp -ldl -lpthread
#include <dlfcn.h>
#include <pthread.h>
#include <sched.h>
#include <signal.h>
#include <stdio.h>
#include <stdlib.h>
#include <string.h>
#include <unistd.h>
#include <time.h>
#include <sys/stat.h>
#include <atomic>
#include <chrono>
#include <iostream>
#include <map>
#include <memory>
#include <string>
#include <thread>
#include <vector>
#include <nlohmann/json.hpp>
#include "cryptoki.h"
#include "interpose.h"

using json = nlohmann::json;
typedef std::vector<unsigned char> bytes;

static CK_FUNCTION_LIST_PTR P = nullptr;
static std::atomic<uint64_t> g_clock{0};

// ---------------------------------------------------------------- helpers
static bytes unhex(const std::string& s) {
	bytes b; b.reserve(s.size() / 2);
	auto v = [](char c) -> int { if (c >= '0' && c <= '9') return c - '0'; if (c >= 'a' && c <= 'f') return c - 'a' + 10; if (c >= 'A' && c <= 'F') return c - 'A' + 10; return 0; };
	for (size_t i = 0; i + 1 < s.size(); i += 2) b.push_back((unsigned char)(v(s[i]) * 16 + v(s[i + 1])));
	return b;
}
static std::string hex(const unsigned char* p, size_t n) {
	static const char* d = "0123456789abcdef"; std::string s; s.resize(n * 2);
	for (size_t i = 0; i < n; i++) { s[2 * i] = d[p[i] >> 4]; s[2 * i + 1] = d[p[i] & 15]; }
	return s;
}
static inline unsigned char canary(size_t i) { return (unsigned char)(0xA5 ^ (i * 37 + (i >> 8))); }

// An exact-size heap block (so ASan red zones sit right at both ends), canary filled.
struct OutBuf {
	unsigned char* p = nullptr; size_t cap = 0; bool isnull = true;
	void make(const json& spec) {               // spec: null -> NULL pointer ; n -> n bytes
		if (spec.is_null()) { isnull = true; p = nullptr; cap = 0; return; }
		isnull = false; cap = spec.get<size_t>();
		p = (unsigned char*)malloc(cap ? cap : 1);
		for (size_t i = 0; i < cap; i++) p[i] = canary(i);
	}
	// report: bytes up to reported len (bounded by cap), canary state beyond
	json report(CK_ULONG reported, bool wantData) const {
		json r; r["len"] = (uint64_t)reported; r["cap"] = (uint64_t)cap; r["null"] = isnull;
		if (isnull) return r;
		size_t n = reported <= cap ? (size_t)reported : 0;
		if (wantData) r["data"] = hex(p, n);
		bool tail_ok = true; size_t changed = 0;
		for (size_t i = 0; i < cap; i++) if (p[i] != canary(i)) { changed++; if (i >= n) tail_ok = false; }
		r["tail_ok"] = tail_ok;           // nothing written beyond reported length
		r["changed"] = (uint64_t)changed; // number of bytes that differ from the canary anywhere
		return r;
	}
	~OutBuf() { if (p) free(p); }
};

// Input data: hex string, or {"null":true,"len":n}
struct InBuf {
	bytes b; unsigned char* p = nullptr; CK_ULONG len = 0; unsigned char* heap = nullptr;
	void make(const json& spec) {
		if (spec.is_null()) { p = nullptr; len = 0; return; }
		if (spec.is_object()) { p = nullptr; len = spec.value("len", (uint64_t)0); if (spec.contains("hex")) { b = unhex(spec["hex"].get<std::string>()); alloc(); if (spec.contains("len")) len = std::min<uint64_t>(spec["len"].get<uint64_t>(), b.size()); } return; }
		b = unhex(spec.get<std::string>()); alloc();
	}
	void alloc() { heap = (unsigned char*)malloc(b.size() ? b.size() : 1); if (!b.empty()) memcpy(heap, b.data(), b.size()); p = heap; len = b.size(); }
	~InBuf() { if (heap) free(heap); }
};

// Attribute template built from JSON; owns all memory (exact-size heap blocks).
struct Tmpl {
	std::vector<CK_ATTRIBUTE> a; std::vector<void*> owned; std::vector<std::unique_ptr<Tmpl>> nested; bool isnull = false;
	CK_ATTRIBUTE_PTR ptr() { return isnull ? nullptr : (a.empty() ? (CK_ATTRIBUTE_PTR)dummy() : a.data()); }
	CK_ULONG count_override = (CK_ULONG)-1;
	CK_ULONG count() { return count_override != (CK_ULONG)-1 ? count_override : (CK_ULONG)a.size(); }
	void* dummy() { static CK_ATTRIBUTE d; return &d; }
	void* blk(size_t n) { void* q = malloc(n ? n : 1); owned.push_back(q); return q; }
	void build(const json& spec) {
		if (spec.is_null()) { isnull = true; return; }
		if (spec.is_object()) { if (spec.contains("count")) count_override = spec["count"].get<uint64_t>(); if (spec.value("null", false)) { isnull = true; return; } build_list(spec["attrs"]); return; }
		build_list(spec);
	}
	void build_list(const json& list) {
		for (auto& e : list) {
			CK_ATTRIBUTE at; at.type = e.at("t").get<uint64_t>(); at.pValue = nullptr; at.ulValueLen = 0;
			if (e.contains("bool")) { CK_BBOOL* q = (CK_BBOOL*)blk(1); *q = e["bool"].is_boolean() ? (e["bool"].get<bool>() ? CK_TRUE : CK_FALSE) : (CK_BBOOL)e["bool"].get<int>(); at.pValue = q; at.ulValueLen = 1; }
			else if (e.contains("ulong")) { CK_ULONG* q = (CK_ULONG*)blk(sizeof(CK_ULONG)); *q = e["ulong"].get<uint64_t>(); at.pValue = q; at.ulValueLen = sizeof(CK_ULONG); }
			else if (e.contains("hex")) { bytes b = unhex(e["hex"].get<std::string>()); void* q = blk(b.size()); if (!b.empty()) memcpy(q, b.data(), b.size()); at.pValue = q; at.ulValueLen = b.size(); }
			else if (e.contains("mechs")) { auto& m = e["mechs"]; CK_MECHANISM_TYPE* q = (CK_MECHANISM_TYPE*)blk(m.size() * sizeof(CK_MECHANISM_TYPE)); size_t i = 0; for (auto& x : m) q[i++] = x.get<uint64_t>(); at.pValue = q; at.ulValueLen = m.size() * sizeof(CK_MECHANISM_TYPE); }
			else if (e.contains("tmpl")) { nested.emplace_back(new Tmpl()); Tmpl* n = nested.back().get(); n->build(e["tmpl"]); CK_ATTRIBUTE* q = (CK_ATTRIBUTE*)blk(n->a.size() * sizeof(CK_ATTRIBUTE)); if (!n->a.empty()) memcpy(q, n->a.data(), n->a.size() * sizeof(CK_ATTRIBUTE)); at.pValue = q; at.ulValueLen = n->a.size() * sizeof(CK_ATTRIBUTE); }
			else if (e.contains("buf")) { // output slot for C_GetAttributeValue
				if (e["buf"].is_null()) { at.pValue = nullptr; at.ulValueLen = e.value("len", (uint64_t)0); }
				else { size_t n = e["buf"].get<size_t>(); unsigned char* q = (unsigned char*)blk(n); for (size_t i = 0; i < n; i++) q[i] = canary(i); at.pValue = q; at.ulValueLen = n; }
			}
			// "len": lie about the length, but never beyond the real block (the precondition of C17)
			if (e.contains("len") && !e.contains("buf")) { uint64_t l = e["len"].get<uint64_t>(); if (at.pValue == nullptr) at.ulValueLen = (e.value("null", false) ? l : 0); else if (l <= at.ulValueLen) at.ulValueLen = l; }
			if (e.value("null", false)) { at.pValue = nullptr; }
			a.push_back(at);
		}
	}
	json report_outputs(const json& spec) { // for C_GetAttributeValue
		json out = json::array(); const json& list = spec.is_object() ? spec["attrs"] : spec;
		for (size_t i = 0; i < a.size(); i++) {
			json r; CK_ULONG l = a[i].ulValueLen; r["t"] = (uint64_t)a[i].type;
			if (l == (CK_ULONG)-1) r["len"] = -1; else r["len"] = (uint64_t)l;
			const json& e = list[i];
			if (e.contains("buf") && !e["buf"].is_null()) {
				size_t cap = e["buf"].get<size_t>(); unsigned char* q = (unsigned char*)a[i].pValue; size_t n = (l != (CK_ULONG)-1 && l <= cap) ? l : 0;
				r["data"] = hex(q, n); size_t changed = 0; bool tail_ok = true;
				for (size_t k = 0; k < cap; k++) if (q[k] != canary(k)) { changed++; if (k >= n) tail_ok = false; }
				r["changed"] = (uint64_t)changed; r["tail_ok"] = tail_ok;
			}
			out.push_back(r);
		}
		return out;
	}
	~Tmpl() { for (void* q : owned) free(q); }
};

// Mechanism built from JSON; owns parameter memory.
struct Mech {
	CK_MECHANISM m; std::vector<void*> owned; bool isnull = false;
	void* blk(size_t n) { void* q = malloc(n ? n : 1); owned.push_back(q); return q; }
	unsigned char* bytesblk(const json& j, CK_ULONG* len) { if (j.is_null()) { *len = 0; return nullptr; } bytes b = unhex(j.get<std::string>()); unsigned char* q = (unsigned char*)blk(b.size()); if (!b.empty()) memcpy(q, b.data(), b.size()); *len = b.size(); return q; }
	CK_MECHANISM_PTR ptr() { return isnull ? nullptr : &m; }
	void build(const json& spec) {
		memset(&m, 0, sizeof m);
		if (spec.is_null()) { isnull = true; return; }
		m.mechanism = spec.at("m").get<uint64_t>();
		if (!spec.contains("p") || spec["p"].is_null()) return;
		const json& p = spec["p"];
		if (p.contains("hex")) { CK_ULONG l; m.pParameter = bytesblk(p["hex"], &l); m.ulParameterLen = l; }
		else if (p.contains("ctr")) { CK_AES_CTR_PARAMS* q = (CK_AES_CTR_PARAMS*)blk(sizeof *q); memset(q, 0, sizeof *q); q->ulCounterBits = p["ctr"].at("bits").get<uint64_t>(); bytes cb = unhex(p["ctr"].at("cb").get<std::string>()); memcpy(q->cb, cb.data(), std::min<size_t>(16, cb.size())); m.pParameter = q; m.ulParameterLen = sizeof *q; }
		else if (p.contains("gcm")) { const json& g = p["gcm"]; CK_GCM_PARAMS* q = (CK_GCM_PARAMS*)blk(sizeof *q); memset(q, 0, sizeof *q); CK_ULONG l; q->pIv = bytesblk(g.value("iv", json()), &l); q->ulIvLen = g.contains("ivlen") ? g["ivlen"].get<uint64_t>() : l; if (q->ulIvLen > l) q->ulIvLen = l; q->ulIvBits = g.value("ivbits", (uint64_t)(q->ulIvLen * 8)); q->pAAD = bytesblk(g.value("aad", json()), &l); q->ulAADLen = l; q->ulTagBits = g.value("tagbits", (uint64_t)128); m.pParameter = q; m.ulParameterLen = sizeof *q; }
		else if (p.contains("pss")) { const json& g = p["pss"]; CK_RSA_PKCS_PSS_PARAMS* q = (CK_RSA_PKCS_PSS_PARAMS*)blk(sizeof *q); q->hashAlg = g.at("hash").get<uint64_t>(); q->mgf = g.at("mgf").get<uint64_t>(); q->sLen = g.at("slen").get<uint64_t>(); m.pParameter = q; m.ulParameterLen = sizeof *q; }
		else if (p.contains("oaep")) { const json& g = p["oaep"]; CK_RSA_PKCS_OAEP_PARAMS* q = (CK_RSA_PKCS_OAEP_PARAMS*)blk(sizeof *q); memset(q, 0, sizeof *q); q->hashAlg = g.at("hash").get<uint64_t>(); q->mgf = g.at("mgf").get<uint64_t>(); q->source = g.value("source", (uint64_t)1); CK_ULONG l; q->pSourceData = bytesblk(g.value("data", json()), &l); q->ulSourceDataLen = l; m.pParameter = q; m.ulParameterLen = sizeof *q; }
		else if (p.contains("ecdh1")) { const json& g = p["ecdh1"]; CK_ECDH1_DERIVE_PARAMS* q = (CK_ECDH1_DERIVE_PARAMS*)blk(sizeof *q); memset(q, 0, sizeof *q); q->kdf = g.value("kdf", (uint64_t)1); CK_ULONG l; q->pSharedData = bytesblk(g.value("shared", json()), &l); q->ulSharedDataLen = l; q->pPublicData = bytesblk(g.value("public", json()), &l); q->ulPublicDataLen = l; m.pParameter = q; m.ulParameterLen = sizeof *q; }
		else if (p.contains("kdstr")) { CK_KEY_DERIVATION_STRING_DATA* q = (CK_KEY_DERIVATION_STRING_DATA*)blk(sizeof *q); CK_ULONG l; q->pData = bytesblk(p["kdstr"], &l); q->ulLen = l; m.pParameter = q; m.ulParameterLen = sizeof *q; }
		else if (p.contains("cbcdata")) { const json& g = p["cbcdata"]; bytes iv = unhex(g.at("iv").get<std::string>()); CK_ULONG l;
			if (iv.size() == 8) { CK_DES_CBC_ENCRYPT_DATA_PARAMS* q = (CK_DES_CBC_ENCRYPT_DATA_PARAMS*)blk(sizeof *q); memcpy(q->iv, iv.data(), 8); q->pData = bytesblk(g.value("data", json()), &l); q->length = l; m.pParameter = q; m.ulParameterLen = sizeof *q; }
			else { CK_AES_CBC_ENCRYPT_DATA_PARAMS* q = (CK_AES_CBC_ENCRYPT_DATA_PARAMS*)blk(sizeof *q); memset(q->iv, 0, 16); memcpy(q->iv, iv.data(), std::min<size_t>(16, iv.size())); q->pData = bytesblk(g.value("data", json()), &l); q->length = l; m.pParameter = q; m.ulParameterLen = sizeof *q; } }
		else if (p.contains("hkey")) { CK_OBJECT_HANDLE* q = (CK_OBJECT_HANDLE*)blk(sizeof *q); *q = p["hkey"].get<uint64_t>(); m.pParameter = q; m.ulParameterLen = sizeof *q; }
		if (p.contains("plen")) { uint64_t l = p["plen"].get<uint64_t>(); if (l <= m.ulParameterLen) m.ulParameterLen = l; } // may only lie downwards
	}
	~Mech() { for (void* q : owned) free(q); }
};

// ---------------------------------------------------------------- mutex callbacks with seeded yields
struct YieldCfg { bool on = false; uint64_t seed = 1; double p = 0.0; unsigned maxus = 200; };
static YieldCfg g_yield;
static std::atomic<uint64_t> g_lockhash{1469598103934665603ULL};
static std::atomic<uint64_t> g_locks{0};
static thread_local uint64_t t_rng = 0; static thread_local int t_id = 0;
static inline uint64_t rnd() { if (!t_rng) t_rng = g_yield.seed * 0x9E3779B97F4A7C15ULL + (uint64_t)(t_id + 1) * 0xBF58476D1CE4E5B9ULL; t_rng ^= t_rng << 13; t_rng ^= t_rng >> 7; t_rng ^= t_rng << 17; return t_rng; }
static void maybe_yield() { if (!g_yield.on) return; uint64_t r = rnd(); if ((double)(r & 0xFFFF) / 65536.0 >= g_yield.p) return; if ((r >> 16) & 1) sched_yield(); else usleep(((r >> 20) % (g_yield.maxus + 1))); }
struct XMutex { pthread_mutex_t m; uint64_t id; };
static std::atomic<uint64_t> g_mutex_ids{0};
static CK_RV cbCreate(CK_VOID_PTR_PTR pp) { XMutex* x = new XMutex(); pthread_mutex_init(&x->m, nullptr); x->id = ++g_mutex_ids; *pp = x; return CKR_OK; }
static CK_RV cbDestroy(CK_VOID_PTR p) { XMutex* x = (XMutex*)p; if (!x) return CKR_ARGUMENTS_BAD; pthread_mutex_destroy(&x->m); delete x; return CKR_OK; }
static CK_RV cbLock(CK_VOID_PTR p) { XMutex* x = (XMutex*)p; if (!x) return CKR_ARGUMENTS_BAD; maybe_yield(); pthread_mutex_lock(&x->m); uint64_t h = g_lockhash.load(std::memory_order_relaxed); h = (h ^ (x->id * 1315423911ULL + (uint64_t)t_id)) * 1099511628211ULL; g_lockhash.store(h, std::memory_order_relaxed); g_locks++; return CKR_OK; }
static CK_RV cbUnlock(CK_VOID_PTR p) { XMutex* x = (XMutex*)p; if (!x) return CKR_ARGUMENTS_BAD; pthread_mutex_unlock(&x->m); maybe_yield(); return CKR_OK; }

// ---------------------------------------------------------------- the dispatcher
#define S(j, k) ((CK_ULONG)(j).at(k).get<uint64_t>())
static json call(const json& q) {
	const std::string fn = q.at("fn").get<std::string>();
	json r; CK_RV rv = CKR_FUNCTION_FAILED; bool wantData = q.value("data_out", true);
	auto out1 = [&](const char* name, OutBuf& b, CK_ULONG len) { r[name] = b.report(len, wantData); };
	if (fn == "C_Initialize") {
		std::string lk = q.value("locking", std::string("none"));
		if (lk == "null") rv = P->C_Initialize(nullptr);
		else { CK_C_INITIALIZE_ARGS a; memset(&a, 0, sizeof a);
			if (lk == "os") a.flags = CKF_OS_LOCKING_OK;
			else if (lk == "cb") { a.CreateMutex = cbCreate; a.DestroyMutex = cbDestroy; a.LockMutex = cbLock; a.UnlockMutex = cbUnlock; if (q.value("os_flag", false)) a.flags = CKF_OS_LOCKING_OK; }
			if (q.contains("yield")) { g_yield.on = true; g_yield.seed = q["yield"].value("seed", (uint64_t)1); g_yield.p = q["yield"].value("p", 0.2); g_yield.maxus = q["yield"].value("maxus", 200u); } else g_yield.on = false;
			rv = P->C_Initialize(&a); }
	}
	else if (fn == "C_Finalize") rv = P->C_Finalize(nullptr);
	else if (fn == "C_GetInfo") { CK_INFO i; memset(&i, 0, sizeof i); rv = P->C_GetInfo(&i); r["lib"] = hex(i.libraryDescription, 32); }
	else if (fn == "C_GetSlotList") { CK_ULONG n = q.value("count", (uint64_t)0); std::vector<CK_SLOT_ID> v(n ? n : 1); bool isnull = q.value("null", false); rv = P->C_GetSlotList(q.value("present", true) ? CK_TRUE : CK_FALSE, isnull ? nullptr : v.data(), &n); r["n"] = (uint64_t)n; json l = json::array(); if (!isnull && rv == CKR_OK) for (CK_ULONG i = 0; i < n && i < v.size(); i++) l.push_back((uint64_t)v[i]); r["slots"] = l; }
	else if (fn == "C_GetSlotInfo") { CK_SLOT_INFO i; memset(&i, 0, sizeof i); rv = P->C_GetSlotInfo(S(q, "slot"), &i); r["flags"] = (uint64_t)i.flags; }
	else if (fn == "C_GetTokenInfo") { CK_TOKEN_INFO i; memset(&i, 0, sizeof i); rv = P->C_GetTokenInfo(S(q, "slot"), &i); r["label"] = hex(i.label, 32); r["serial"] = hex(i.serialNumber, 16); r["flags"] = (uint64_t)i.flags; r["minpin"] = (uint64_t)i.ulMinPinLen; r["maxpin"] = (uint64_t)i.ulMaxPinLen; }
	else if (fn == "C_GetMechanismList") { CK_ULONG n = q.value("count", (uint64_t)0); std::vector<CK_MECHANISM_TYPE> v(n ? n : 1); bool isnull = q.value("null", false); rv = P->C_GetMechanismList(S(q, "slot"), isnull ? nullptr : v.data(), &n); r["n"] = (uint64_t)n; json l = json::array(); if (!isnull && rv == CKR_OK) for (CK_ULONG i = 0; i < n && i < v.size(); i++) l.push_back((uint64_t)v[i]); r["mechs"] = l; }
	else if (fn == "C_GetMechanismInfo") { CK_MECHANISM_INFO i; memset(&i, 0, sizeof i); rv = P->C_GetMechanismInfo(S(q, "slot"), S(q, "m"), &i); r["min"] = (uint64_t)i.ulMinKeySize; r["max"] = (uint64_t)i.ulMaxKeySize; r["flags"] = (uint64_t)i.flags; }
	else if (fn == "C_InitToken") { InBuf pin; pin.make(q.value("pin", json())); bytes lab = unhex(q.value("label", std::string())); lab.resize(32, ' '); rv = P->C_InitToken(S(q, "slot"), pin.p, pin.len, q.value("label_null", false) ? nullptr : lab.data()); }
	else if (fn == "C_InitPIN") { InBuf pin; pin.make(q.value("pin", json())); rv = P->C_InitPIN(S(q, "s"), pin.p, pin.len); }
	else if (fn == "C_SetPIN") { InBuf o, n; o.make(q.value("old", json())); n.make(q.value("new", json())); rv = P->C_SetPIN(S(q, "s"), o.p, o.len, n.p, n.len); }
	else if (fn == "C_OpenSession") { CK_SESSION_HANDLE h = 0; rv = P->C_OpenSession(S(q, "slot"), q.value("flags", (uint64_t)(CKF_SERIAL_SESSION | CKF_RW_SESSION)), nullptr, nullptr, q.value("null", false) ? nullptr : &h); r["h"] = (uint64_t)h; }
	else if (fn == "C_CloseSession") rv = P->C_CloseSession(S(q, "s"));
	else if (fn == "C_CloseAllSessions") rv = P->C_CloseAllSessions(S(q, "slot"));
	else if (fn == "C_GetSessionInfo") { CK_SESSION_INFO i; memset(&i, 0xEE, sizeof i); rv = P->C_GetSessionInfo(S(q, "s"), &i); if (rv == CKR_OK) { r["slot"] = (uint64_t)i.slotID; r["state"] = (uint64_t)i.state; r["flags"] = (uint64_t)i.flags; } }
	else if (fn == "C_GetOperationState") { OutBuf b; b.make(q.value("buf", json())); CK_ULONG n = b.cap; rv = P->C_GetOperationState(S(q, "s"), b.p, &n); out1("out", b, n); }
	else if (fn == "C_SetOperationState") { InBuf d; d.make(q.value("data", json())); rv = P->C_SetOperationState(S(q, "s"), d.p, d.len, q.value("k1", (uint64_t)0), q.value("k2", (uint64_t)0)); }
	else if (fn == "C_Login") { InBuf pin; pin.make(q.value("pin", json())); rv = P->C_Login(S(q, "s"), S(q, "user"), pin.p, pin.len); }
	else if (fn == "C_Logout") rv = P->C_Logout(S(q, "s"));
	else if (fn == "C_CreateObject") { Tmpl t; t.build(q.value("tmpl", json::array())); CK_OBJECT_HANDLE h = q.value("preset", (uint64_t)0); rv = P->C_CreateObject(S(q, "s"), t.ptr(), t.count(), q.value("null", false) ? nullptr : &h); r["h"] = (uint64_t)h; }
	else if (fn == "C_CopyObject") { Tmpl t; t.build(q.value("tmpl", json::array())); CK_OBJECT_HANDLE h = q.value("preset", (uint64_t)0); rv = P->C_CopyObject(S(q, "s"), S(q, "o"), t.ptr(), t.count(), q.value("null", false) ? nullptr : &h); r["h"] = (uint64_t)h; }
	else if (fn == "C_DestroyObject") rv = P->C_DestroyObject(S(q, "s"), S(q, "o"));
	else if (fn == "C_GetObjectSize") { CK_ULONG n = 0; rv = P->C_GetObjectSize(S(q, "s"), S(q, "o"), q.value("null", false) ? nullptr : &n); r["size"] = (uint64_t)n; }
	else if (fn == "C_GetAttributeValue") { Tmpl t; t.build(q.value("tmpl", json::array())); rv = P->C_GetAttributeValue(S(q, "s"), S(q, "o"), t.ptr(), t.count()); if (!t.isnull) r["tmpl"] = t.report_outputs(q["tmpl"]); }
	else if (fn == "X_Sleep") { usleep((useconds_t)q.value("us", (uint64_t)1000)); rv = 0; }   // harness pacing between calls of a script (not a library call)
	else if (fn == "X_GetTemplateAttr") { // extension: read an array attribute (CKA_WRAP_TEMPLATE, ...) with the three-step protocol (size, types+sizes, values)
		CK_SESSION_HANDLE s = S(q, "s"); CK_OBJECT_HANDLE o = S(q, "o"); CK_ATTRIBUTE a; a.type = S(q, "t"); a.pValue = nullptr; a.ulValueLen = 0; json l = json::array();
		rv = P->C_GetAttributeValue(s, o, &a, 1);
		if (rv == CKR_OK && a.ulValueLen != (CK_ULONG)-1) {
			size_t n = a.ulValueLen / sizeof(CK_ATTRIBUTE); r["n"] = (uint64_t)n; r["bytes"] = (uint64_t)a.ulValueLen;
			if (n) {
				std::vector<CK_ATTRIBUTE> v(n); memset(v.data(), 0, n * sizeof(CK_ATTRIBUTE)); std::vector<bytes> bufs(n);
				a.pValue = v.data(); a.ulValueLen = n * sizeof(CK_ATTRIBUTE); rv = P->C_GetAttributeValue(s, o, &a, 1);
				if (rv == CKR_OK) {
					for (size_t i = 0; i < n; i++) { size_t len = v[i].ulValueLen == (CK_ULONG)-1 ? 0 : v[i].ulValueLen; bufs[i].assign(len ? len : 1, 0); v[i].pValue = bufs[i].data(); }
					a.ulValueLen = n * sizeof(CK_ATTRIBUTE); rv = P->C_GetAttributeValue(s, o, &a, 1);
					for (size_t i = 0; i < n; i++) { json e; e["t"] = (uint64_t)v[i].type; bool un = v[i].ulValueLen == (CK_ULONG)-1; if (un) e["len"] = -1; else e["len"] = (uint64_t)v[i].ulValueLen; e["data"] = (rv == CKR_OK && !un && v[i].ulValueLen <= bufs[i].size()) ? hex(bufs[i].data(), v[i].ulValueLen) : std::string(); l.push_back(e); }
				}
			}
		}
		r["attrs"] = l;
	}
	else if (fn == "C_SetAttributeValue") { Tmpl t; t.build(q.value("tmpl", json::array())); rv = P->C_SetAttributeValue(S(q, "s"), S(q, "o"), t.ptr(), t.count()); }
	else if (fn == "C_FindObjectsInit") { Tmpl t; t.build(q.value("tmpl", json::array())); rv = P->C_FindObjectsInit(S(q, "s"), t.a.empty() && !q.value("force_ptr", false) ? nullptr : t.ptr(), t.count()); }
	else if (fn == "C_FindObjects") { CK_ULONG mx = q.value("max", (uint64_t)16), n = 0; CK_OBJECT_HANDLE* v = (CK_OBJECT_HANDLE*)malloc((mx ? mx : 1) * sizeof(CK_OBJECT_HANDLE)); rv = P->C_FindObjects(S(q, "s"), q.value("null", false) ? nullptr : v, mx, &n); json l = json::array(); if (rv == CKR_OK) for (CK_ULONG i = 0; i < n && i < mx; i++) l.push_back((uint64_t)v[i]); r["n"] = (uint64_t)n; r["objs"] = l; free(v); }
	else if (fn == "C_FindObjectsFinal") rv = P->C_FindObjectsFinal(S(q, "s"));
	else if (fn == "C_EncryptInit" || fn == "C_DecryptInit" || fn == "C_SignInit" || fn == "C_VerifyInit" || fn == "C_SignRecoverInit" || fn == "C_VerifyRecoverInit") {
		Mech m; m.build(q.value("mech", json())); CK_SESSION_HANDLE s = S(q, "s"); CK_OBJECT_HANDLE k = S(q, "key");
		if (fn == "C_EncryptInit") rv = P->C_EncryptInit(s, m.ptr(), k); else if (fn == "C_DecryptInit") rv = P->C_DecryptInit(s, m.ptr(), k); else if (fn == "C_SignInit") rv = P->C_SignInit(s, m.ptr(), k); else if (fn == "C_VerifyInit") rv = P->C_VerifyInit(s, m.ptr(), k); else if (fn == "C_SignRecoverInit") rv = P->C_SignRecoverInit(s, m.ptr(), k); else rv = P->C_VerifyRecoverInit(s, m.ptr(), k);
	}
	else if (fn == "C_DigestInit") { Mech m; m.build(q.value("mech", json())); rv = P->C_DigestInit(S(q, "s"), m.ptr()); }
	else if (fn == "C_Encrypt" || fn == "C_EncryptUpdate" || fn == "C_Decrypt" || fn == "C_DecryptUpdate" || fn == "C_Digest" || fn == "C_Sign" || fn == "C_SignRecover" || fn == "C_VerifyRecover" || fn == "C_DigestEncryptUpdate" || fn == "C_DecryptDigestUpdate" || fn == "C_SignEncryptUpdate" || fn == "C_DecryptVerifyUpdate") {
		InBuf d; d.make(q.value("data", json())); OutBuf b; b.make(q.value("buf", json())); CK_ULONG n = q.contains("announce") ? q["announce"].get<uint64_t>() : b.cap; if (n > b.cap && !b.isnull) n = b.cap; CK_ULONG_PTR pn = q.value("len_null", false) ? nullptr : &n; CK_SESSION_HANDLE s = S(q, "s");
		if (fn == "C_Encrypt") rv = P->C_Encrypt(s, d.p, d.len, b.p, pn); else if (fn == "C_EncryptUpdate") rv = P->C_EncryptUpdate(s, d.p, d.len, b.p, pn); else if (fn == "C_Decrypt") rv = P->C_Decrypt(s, d.p, d.len, b.p, pn); else if (fn == "C_DecryptUpdate") rv = P->C_DecryptUpdate(s, d.p, d.len, b.p, pn);
		else if (fn == "C_Digest") rv = P->C_Digest(s, d.p, d.len, b.p, pn); else if (fn == "C_Sign") rv = P->C_Sign(s, d.p, d.len, b.p, pn); else if (fn == "C_SignRecover") rv = P->C_SignRecover(s, d.p, d.len, b.p, pn); else if (fn == "C_VerifyRecover") rv = P->C_VerifyRecover(s, d.p, d.len, b.p, pn);
		else if (fn == "C_DigestEncryptUpdate") rv = P->C_DigestEncryptUpdate(s, d.p, d.len, b.p, pn); else if (fn == "C_DecryptDigestUpdate") rv = P->C_DecryptDigestUpdate(s, d.p, d.len, b.p, pn); else if (fn == "C_SignEncryptUpdate") rv = P->C_SignEncryptUpdate(s, d.p, d.len, b.p, pn); else rv = P->C_DecryptVerifyUpdate(s, d.p, d.len, b.p, pn);
		out1("out", b, n);
	}
	else if (fn == "C_EncryptFinal" || fn == "C_DecryptFinal" || fn == "C_DigestFinal" || fn == "C_SignFinal") {
		OutBuf b; b.make(q.value("buf", json())); CK_ULONG n = q.contains("announce") ? q["announce"].get<uint64_t>() : b.cap; if (n > b.cap && !b.isnull) n = b.cap; CK_ULONG_PTR pn = q.value("len_null", false) ? nullptr : &n; CK_SESSION_HANDLE s = S(q, "s");
		if (fn == "C_EncryptFinal") rv = P->C_EncryptFinal(s, b.p, pn); else if (fn == "C_DecryptFinal") rv = P->C_DecryptFinal(s, b.p, pn); else if (fn == "C_DigestFinal") rv = P->C_DigestFinal(s, b.p, pn); else rv = P->C_SignFinal(s, b.p, pn);
		out1("out", b, n);
	}
	else if (fn == "C_DigestUpdate" || fn == "C_SignUpdate" || fn == "C_VerifyUpdate" || fn == "C_SeedRandom") { InBuf d; d.make(q.value("data", json())); CK_SESSION_HANDLE s = S(q, "s"); if (fn == "C_DigestUpdate") rv = P->C_DigestUpdate(s, d.p, d.len); else if (fn == "C_SignUpdate") rv = P->C_SignUpdate(s, d.p, d.len); else if (fn == "C_VerifyUpdate") rv = P->C_VerifyUpdate(s, d.p, d.len); else rv = P->C_SeedRandom(s, d.p, d.len); }
	else if (fn == "C_DigestKey") rv = P->C_DigestKey(S(q, "s"), S(q, "key"));
	else if (fn == "C_Verify") { InBuf d, g; d.make(q.value("data", json())); g.make(q.value("sig", json())); rv = P->C_Verify(S(q, "s"), d.p, d.len, g.p, g.len); }
	else if (fn == "C_VerifyFinal") { InBuf g; g.make(q.value("sig", json())); rv = P->C_VerifyFinal(S(q, "s"), g.p, g.len); }
	else if (fn == "C_GenerateKey") { Mech m; m.build(q.value("mech", json())); Tmpl t; t.build(q.value("tmpl", json::array())); CK_OBJECT_HANDLE h = q.value("preset", (uint64_t)0); rv = P->C_GenerateKey(S(q, "s"), m.ptr(), t.ptr(), t.count(), q.value("null", false) ? nullptr : &h); r["h"] = (uint64_t)h; }
	else if (fn == "C_GenerateKeyPair") { Mech m; m.build(q.value("mech", json())); Tmpl a, b; a.build(q.value("pub", json::array())); b.build(q.value("priv", json::array())); CK_OBJECT_HANDLE h1 = q.value("preset", (uint64_t)0), h2 = q.value("preset2", (uint64_t)0); rv = P->C_GenerateKeyPair(S(q, "s"), m.ptr(), a.ptr(), a.count(), b.ptr(), b.count(), &h1, &h2); r["hpub"] = (uint64_t)h1; r["hpriv"] = (uint64_t)h2; }
	else if (fn == "C_WrapKey") { Mech m; m.build(q.value("mech", json())); OutBuf b; b.make(q.value("buf", json())); CK_ULONG n = b.cap; rv = P->C_WrapKey(S(q, "s"), m.ptr(), S(q, "wkey"), S(q, "key"), b.p, q.value("len_null", false) ? nullptr : &n); out1("out", b, n); }
	else if (fn == "C_UnwrapKey") { Mech m; m.build(q.value("mech", json())); InBuf w; w.make(q.value("wrapped", json())); Tmpl t; t.build(q.value("tmpl", json::array())); CK_OBJECT_HANDLE h = q.value("preset", (uint64_t)0); rv = P->C_UnwrapKey(S(q, "s"), m.ptr(), S(q, "ukey"), w.p, w.len, t.ptr(), t.count(), q.value("null", false) ? nullptr : &h); r["h"] = (uint64_t)h; }
	else if (fn == "C_DeriveKey") { Mech m; m.build(q.value("mech", json())); Tmpl t; t.build(q.value("tmpl", json::array())); CK_OBJECT_HANDLE h = q.value("preset", (uint64_t)0); rv = P->C_DeriveKey(S(q, "s"), m.ptr(), S(q, "key"), t.ptr(), t.count(), q.value("null", false) ? nullptr : &h); r["h"] = (uint64_t)h; }
	else if (fn == "C_GenerateRandom") { OutBuf b; b.make(q.value("buf", json())); rv = P->C_GenerateRandom(S(q, "s"), b.p, q.contains("announce") ? std::min<uint64_t>(q["announce"].get<uint64_t>(), b.cap) : b.cap); r["out"] = b.report(b.cap, false); }
	else if (fn == "C_GetFunctionStatus") rv = P->C_GetFunctionStatus(S(q, "s"));
	else if (fn == "C_CancelFunction") rv = P->C_CancelFunction(S(q, "s"));
	else if (fn == "C_WaitForSlotEvent") { CK_SLOT_ID sl = 0; rv = P->C_WaitForSlotEvent(q.value("flags", (uint64_t)CKF_DONT_BLOCK), &sl, nullptr); }
	else if (fn == "C_GetFunctionList") { CK_FUNCTION_LIST_PTR fl = nullptr; rv = P->C_GetFunctionList(q.value("null", false) ? nullptr : &fl); }
	else { r["error"] = "unknown fn " + fn; r["rv"] = -1; return r; }
	r["rv"] = (uint64_t)rv;
	return r;
}

// resolve "$k.field" references against earlier results of the same script
static void resolve(json& v, const std::vector<json>& results) {
	if (v.is_string()) { const std::string& s = v.get_ref<const std::string&>(); if (s.size() > 1 && s[0] == '$') { size_t dot = s.find('.'); size_t k = strtoul(s.c_str() + 1, nullptr, 10); std::string f = s.substr(dot + 1); if (k < results.size()) { const json* cur = &results[k]; size_t p0 = 0; while (true) { size_t p1 = f.find('.', p0); std::string key = f.substr(p0, p1 == std::string::npos ? p1 : p1 - p0); if (cur->is_array()) { size_t ix = strtoul(key.c_str(), nullptr, 10); if (ix >= cur->size()) { cur = nullptr; break; } cur = &(*cur)[ix]; } else if (cur->is_object() && cur->contains(key)) cur = &(*cur)[key]; else { cur = nullptr; break; } if (p1 == std::string::npos) break; p0 = p1 + 1; } if (cur) v = *cur; else v = 0; } else v = 0; } }
	else if (v.is_object() || v.is_array()) for (auto& e : v) resolve(e, results);
}

static FILE* g_trace = nullptr;
static json timed_call(json q, int tid, const std::vector<json>* prev) {
	if (prev) resolve(q, *prev);
	if (g_trace) { std::string l = q.dump(); fprintf(g_trace, "%d %s\n", tid, l.c_str()); fflush(g_trace); }
	ip_set_current(q.value("fn", std::string("?")).c_str(), q.value("id", (int64_t)-1));
	struct timespec ts0, ts1; clock_gettime(CLOCK_MONOTONIC, &ts0);   // system-wide clock: orders calls of DIFFERENT processes (C15)
	uint64_t t0 = ++g_clock; json r;
	try { r = call(q); } catch (const json::exception& e) { r["error"] = std::string("bad request: ") + e.what(); r["rv"] = -1; }
	uint64_t t1 = ++g_clock; ip_set_current("", -1); clock_gettime(CLOCK_MONOTONIC, &ts1);
	r["t_call"] = t0; r["t_ret"] = t1; r["ns_call"] = (uint64_t)ts0.tv_sec * 1000000000ULL + ts0.tv_nsec; r["ns_ret"] = (uint64_t)ts1.tv_sec * 1000000000ULL + ts1.tv_nsec; if (q.contains("id")) r["id"] = q["id"];
	return r;
}

static pthread_barrier_t g_barrier;
static json run_threads(const json& q) {
	const json& scripts = q.at("scripts"); size_t n = scripts.size(); std::vector<std::vector<json>> res(n); std::vector<std::thread> th;
	pthread_barrier_init(&g_barrier, nullptr, n);
	for (size_t i = 0; i < n; i++) th.emplace_back([&, i]() { t_id = (int)i + 1; t_rng = 0; pthread_barrier_wait(&g_barrier); for (auto& step : scripts[i]) { json rr = timed_call(step, (int)i + 1, &res[i]); rr["thread"] = i; res[i].push_back(rr); if (step.value("stop_on_fail", false) && rr.value("rv", (int64_t)0) != 0) break; } });
	for (auto& t : th) t.join(); pthread_barrier_destroy(&g_barrier);
	json out; out["results"] = res; out["lockhash"] = g_lockhash.load(); out["locks"] = g_locks.load(); return out;
}

int main(int argc, char** argv) {
	const char* lib = nullptr; const char* trace = nullptr;
	for (int i = 1; i < argc; i++) { if (!strcmp(argv[i], "--lib") && i + 1 < argc) lib = argv[++i]; else if (!strcmp(argv[i], "--trace") && i + 1 < argc) trace = argv[++i]; }
	if (!lib) { fprintf(stderr, "usage: p11x --lib libsofthsm2.so [--trace file]\n"); return 2; }
	umask(0);
	if (trace) g_trace = fopen(trace, "w");
	ip_init();
	void* h = dlopen(lib, RTLD_NOW | RTLD_LOCAL); if (!h) { fprintf(stderr, "dlopen: %s\n", dlerror()); return 2; }
	CK_C_GetFunctionList gfl = (CK_C_GetFunctionList)dlsym(h, "C_GetFunctionList"); if (!gfl || gfl(&P) != CKR_OK) { fprintf(stderr, "no function list\n"); return 2; }
	std::string line; std::vector<json> results;
	while (std::getline(std::cin, line)) {
		if (line.empty()) continue; json q, r;
		try { q = json::parse(line); } catch (...) { std::cout << "{\"error\":\"parse\"}" << std::endl; continue; }
		std::string fn = q.value("fn", std::string());
		if (fn == "quit") break;
		else if (fn == "fs" || fn == "rng") r = ip_control(q);
		else if (fn == "threads") r = run_threads(q);
		else if (fn == "ping") { r["pong"] = true; r["pid"] = getpid(); }
		else r = timed_call(q, 0, nullptr);
		std::cout << r.dump() << std::endl;
	}
	ip_quiet_exit();
	_exit(0);
}
