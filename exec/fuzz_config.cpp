// libFuzzer harness (C17, coverage-guided lane): the fuzz input is the content of softhsm2.conf.  SOFTHSM2_CONF points
// at the file, the configuration is (re)loaded through the real SimpleConfigLoader and every known key is read back
// with the defaults C_Initialize uses (including setLogLevel on the configured level).
#include "fuzz_common.h"
#include "Configuration.h"
#include "SimpleConfigLoader.h"

static std::string conf;

extern "C" int LLVMFuzzerTestOneInput(const uint8_t* data, size_t size)
{
	if (conf.empty())
	{
		conf = fuzz_scratch() + "/softhsm2.conf";
		if (setenv("SOFTHSM2_CONF", conf.c_str(), 1) != 0) fuzz_harness_trouble("setenv", "SOFTHSM2_CONF");
	}
	softLogLevel = fuzz_log_level(data, size);
	fuzz_write_file(conf, data, size);

	size_t acc = 0;
	bool ok = Configuration::i()->reload(SimpleConfigLoader::i());
	acc += ok ? 1 : 0;

	// SoftHSM::C_Initialize
	std::string level = Configuration::i()->getString("log.level", DEFAULT_LOG_LEVEL);
	std::string backend = Configuration::i()->getString("objectstore.backend", DEFAULT_OBJECTSTORE_BACKEND);
	std::string tokendir = Configuration::i()->getString("directories.tokendir", DEFAULT_TOKENDIR);
	int umask = Configuration::i()->getInt("objectstore.umask", DEFAULT_UMASK);
	bool removable = Configuration::i()->getBool("slots.removable", false);
	bool reset = Configuration::i()->getBool("library.reset_on_fork", false);
	std::string mechs = Configuration::i()->getString("slots.mechanisms", "ALL");
	acc += level.size() + backend.size() + tokendir.size() + mechs.size() + (size_t) umask + (removable ? 1 : 0) + (reset ? 2 : 0);
	for (size_t i = 0; i < tokendir.size(); i++) acc += (unsigned char) tokendir[i];
	for (size_t i = 0; i < mechs.size(); i++) acc += (unsigned char) mechs[i];

	// every key under every accessor (a value stored under one type is asked for under another)
	static const char* keys[] = { "directories.tokendir", "objectstore.backend", "objectstore.umask", "log.level", "slots.removable",
	                              "slots.mechanisms", "library.reset_on_fork", "no.such.key", "" };
	for (size_t i = 0; i < sizeof(keys) / sizeof(keys[0]); i++)
	{
		acc += (size_t) Configuration::i()->getType(keys[i]);
		acc += Configuration::i()->getString(keys[i], "default").size();
		acc += (size_t) Configuration::i()->getInt(keys[i], 077);
		acc += Configuration::i()->getBool(keys[i], true) ? 1 : 0;
	}

	setLogLevel(level);
	// a second load on top of the first one (C_Finalize + C_Initialize in one process)
	acc += Configuration::i()->reload() ? 1 : 0;
	acc += Configuration::i()->getString("log.level", DEFAULT_LOG_LEVEL).size();

	static volatile size_t sink; sink += acc;
	return 0;
}
