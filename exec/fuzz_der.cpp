// libFuzzer harness (C17, coverage-guided lane): the helpers that stored data reaches before any key is involved -
// DERUTIL::octet2Raw / raw2Octet (EC points of public objects), ByteString(hex string), long_val / firstLong / split,
// serialise / chainDeserialise (PIN blobs, stored key material).  Only arguments the library itself can produce from
// stored bytes are passed: byte strings of any content, NUL-terminated hexadecimal text, indices taken modulo the size.
#define FUZZ_WITH_OBJECT_STORE 1
#include "fuzz_common.h"

extern "C" int LLVMFuzzerTestOneInput(const uint8_t* data, size_t size)
{
	softLogLevel = fuzz_log_level(data, size);
	size_t acc = 0;
	ByteString in(data, size);

	// DER octet strings
	ByteString raw = DERUTIL::octet2Raw(in);
	acc += raw.size();
	for (size_t i = 0; i < raw.size(); i++) acc += raw.const_byte_str()[i];
	ByteString der = DERUTIL::raw2Octet(in);
	ByteString back = DERUTIL::octet2Raw(der);
	acc += der.size() + back.size() + (back == in ? 1 : 0) + (back != in ? 2 : 0);
	if (size > 2)
	{
		// a stored point whose length octets are taken from the input, the body being the rest
		ByteString tail = in.substr(1);
		acc += DERUTIL::octet2Raw(ByteString("04") + tail).size();
	}

	// hexadecimal text (configuration / mechanism parameters kept as text); the constructor takes a C string
	std::string text((const char*) data, size);
	ByteString hex(text.c_str());
	acc += hex.size() + hex.bits() + hex.long_val();
	std::string shown = in.hex_str();
	ByteString again(shown.c_str());
	acc += (again == in ? 1 : 0);

	// numbers and the serialise / deserialise chain
	acc += in.long_val() + in.bits();
	ByteString chain = in;
	size_t guard = 0;
	while (chain.size() != 0 && guard++ < 8192)
	{
		ByteString part = ByteString::chainDeserialise(chain);
		acc += part.size() + part.long_val();
	}
	ByteString ser = in.serialise() + ByteString((unsigned long) size).serialise() + in.serialise();
	ByteString p1 = ByteString::chainDeserialise(ser), p2 = ByteString::chainDeserialise(ser), p3 = ByteString::chainDeserialise(ser);
	acc += (p1 == in ? 1 : 0) + p2.long_val() + (p3 == p1 ? 1 : 0) + ser.size();

	// cutting
	ByteString cut = in;
	acc += cut.firstLong();
	size_t at = size ? data[0] % (size + 1) : 0;
	ByteString head = cut.split(at);
	acc += head.size() + cut.size();
	acc += in.substr(at).size() + in.substr(at, size ? data[size - 1] : 0).size() + in.substr(size).size();
	ByteString x = in; x ^= head; ByteString y = in ^ head;
	acc += x.size() + y.size();
	ByteString sum = in + head; sum += (unsigned char) 0x80; sum = (unsigned char) 0x04 + sum;
	acc += sum.size() + sum.bits();
	if (sum.size() != 0) acc += sum[sum.size() - 1] + sum.byte_str()[0];
	sum.wipe(at); acc += sum.size();

	fuzz_sink += acc;
	return 0;
}
