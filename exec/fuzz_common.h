// Shared plumbing of the libFuzzer harnesses exec/fuzz_*.cpp (coverage-guided lane of check C17, see vlib/fuzzlane.py).
// The harnesses are compiled together with the repository's own sources (content mirror of $VERIF_REPO); nothing of
// the library is re-implemented here: this header only provides what the host process provides in a real run
// (the singletons that SoftHSM.cpp defines, a scratch directory, a log sink) and the attribute walk that
// SoftHSM.cpp / P11Attributes.cpp perform on a stored object.
#ifndef VERIF_FUZZ_COMMON_H
#define VERIF_FUZZ_COMMON_H
#include "config.h"
#include <stdint.h>
#include <stddef.h>
#include <stdarg.h>
#include <stdio.h>
#include <stdlib.h>
#include <string.h>
#include <string>
#include <vector>
#include <unistd.h>
#include <fcntl.h>
#include <dirent.h>
#include <sys/stat.h>
#include <sys/types.h>
#include "log.h"

extern int softLogLevel;      // common/log.cpp

// ---- log sink: the library logs through syslog(3); format the message (so that every argument of every log call is
// really consumed by the printf machinery, under ASan) and drop it instead of talking to /dev/log
extern "C" void vsyslog(int, const char* fmt, va_list ap) { static char sinkbuf[8192]; vsnprintf(sinkbuf, sizeof(sinkbuf), fmt, ap); }
extern "C" void syslog(int pri, const char* fmt, ...) { va_list ap; va_start(ap, fmt); vsyslog(pri, fmt, ap); va_end(ap); }
extern "C" void __syslog_chk(int pri, int, const char* fmt, ...) { va_list ap; va_start(ap, fmt); vsyslog(pri, fmt, ap); va_end(ap); }
extern "C" void openlog(const char*, int, int) { }
extern "C" void closelog(void) { }

// ---- UBSan policy = the policy of checks/c17.py (ubsan_class): a null-pointer load / store / member access / member call
// and an index out of bounds are failures the property names and end the run like a crash; every other category
// (among them `&vector[0]` on an empty vector, "reference binding to null pointer") is printed and execution goes on.
// The run-time calls this hook before it prints a report.
extern "C" void __ubsan_get_current_report_data(const char** kind, const char** msg, const char** file, unsigned* line, unsigned* col, char** addr);
extern "C" void __sanitizer_print_stack_trace(void);
extern "C" void __ubsan_on_report(void)
{
	const char* kind = NULL; const char* msg = NULL; const char* file = NULL; unsigned line = 0, col = 0; char* addr = NULL;
	__ubsan_get_current_report_data(&kind, &msg, &file, &line, &col, &addr);
	if (msg == NULL) return;
	const char* cls = NULL;
	// (the message arrives with a capital first letter: "Member call on null pointer of type ...")
	if (strcasestr(msg, "null pointer") && !strcasestr(msg, "misaligned") &&
	    (strcasestr(msg, "load of") || strcasestr(msg, "store to") || strcasestr(msg, "member access") || strcasestr(msg, "member call"))) cls = "null-pointer";
	else if (strcasestr(msg, "out of bounds")) cls = "bounds";
	if (cls == NULL) return;
	fprintf(stderr, "%s:%u:%u: runtime error: %s\nFUZZ-UBSAN-FATAL: %s\n", file ? file : "?", line, col, msg, cls); fflush(stderr);
	__sanitizer_print_stack_trace();
	abort();
}

// ---- log level of one execution: DEBUG (every log call formats its arguments) for one input in four, the library's default
// level (INFO: debug messages return before formatting, errors and warnings are formatted) otherwise.  Formatting every debug
// message of every execution costs half of the run time (a stringstream and a 4 KiB buffer per message).  A function of the
// input only, so that an execution stays reproducible from its input.
static int fuzz_log_level(const uint8_t* data, size_t size)
{
	unsigned sum = (unsigned) size;
	for (size_t i = 0; i < size; i++) sum += data[i];
	return (sum & 3) == 0 ? LOG_DEBUG : LOG_INFO;
}

// ---- harness trouble is never a finding: leave without passing through libFuzzer's exit hook (the runner sees
// "nothing executed / no final stats" and reports the lane as inconclusive)
static void fuzz_harness_trouble(const char* what, const char* arg)
{
	fprintf(stderr, "FUZZ-HARNESS-TROUBLE: %s %s\n", what, arg ? arg : ""); fflush(stderr);
	_exit(78);
}

// ---- scratch directory (on /dev/shm): $FUZZ_SCRATCH when the runner provides one, a fresh one otherwise
static std::string fuzz_own_scratch;
static void fuzz_rm_tree(const std::string& d)
{
	DIR* dir = opendir(d.c_str()); if (dir == NULL) return;
	while (struct dirent* e = readdir(dir))
	{
		if (!strcmp(e->d_name, ".") || !strcmp(e->d_name, "..")) continue;
		std::string p = d + "/" + e->d_name; struct stat st;
		if (lstat(p.c_str(), &st) == 0 && S_ISDIR(st.st_mode)) fuzz_rm_tree(p); else unlink(p.c_str());
	}
	closedir(dir); rmdir(d.c_str());
}
static void fuzz_cleanup_own_scratch(void) { if (!fuzz_own_scratch.empty()) fuzz_rm_tree(fuzz_own_scratch); }
static const std::string& fuzz_scratch()
{
	static std::string d;
	if (d.empty())
	{
		const char* e = getenv("FUZZ_SCRATCH");
		if (e != NULL && e[0] != '\0')
		{
			d = e;
			if (mkdir(d.c_str(), 0700) != 0 && access(d.c_str(), W_OK) != 0) fuzz_harness_trouble("cannot use scratch directory", e);
		}
		else
		{
			char t[] = "/dev/shm/verif-fuzz-XXXXXX";
			if (mkdtemp(t) == NULL) fuzz_harness_trouble("cannot create a scratch directory below", "/dev/shm");
			d = t; fuzz_own_scratch = d; atexit(fuzz_cleanup_own_scratch);
		}
	}
	return d;
}
static void fuzz_write_file(const std::string& path, const uint8_t* data, size_t size)
{
	int fd = open(path.c_str(), O_WRONLY | O_CREAT | O_TRUNC, 0600);
	if (fd < 0) fuzz_harness_trouble("cannot write", path.c_str());
	size_t off = 0;
	while (off < size)
	{
		ssize_t n = write(fd, data + off, size - off);
		if (n <= 0) fuzz_harness_trouble("short write to", path.c_str());
		off += (size_t) n;
	}
	close(fd);
}

#ifdef FUZZ_WITH_OBJECT_STORE
#include "MutexFactory.h"
#include "SecureMemoryRegistry.h"
#include "ByteString.h"
#include "OSAttribute.h"
#include "OSAttributes.h"
#include "OSObject.h"
#include "DerUtil.h"
#include "cryptoki.h"
#include <set>
#include <map>

// the one-and-only instances that SoftHSM.cpp defines in the library
std::unique_ptr<MutexFactory> MutexFactory::instance(nullptr);
std::unique_ptr<SecureMemoryRegistry> SecureMemoryRegistry::instance(nullptr);

#ifdef FUZZ_WITH_OSTOKEN
#include "UUID.h"
// UUID.cpp draws from the crypto back-end's RNG; the harnesses never create objects, a fixed name keeps the OpenSSL
// glue out of the link (OSToken::createObject is the only caller)
std::string UUID::newUUID() { return "00000000-0000-4000-8000-000000000000"; }
#endif

static volatile size_t fuzz_sink;

// what P11Attribute::retrieve / retrieveAttributeMap, the template matching of C_FindObjectsInit (peekValue) and the
// key-material readers do with one stored attribute: every byte of the value is read
static void fuzz_touch(const OSAttribute& a, CK_ATTRIBUTE_TYPE type, int depth = 0)
{
	size_t acc = 0;
	if (a.isBooleanAttribute()) acc += a.getBooleanValue() ? 1 : 0;
	else if (a.isUnsignedLongAttribute()) acc += a.getUnsignedLongValue();
	else if (a.isByteStringAttribute())
	{
		const ByteString& b = a.getByteStringValue();
		size_t n = b.size(); const unsigned char* p = b.const_byte_str();
		std::vector<unsigned char> out(n);                       // the caller's buffer of C_GetAttributeValue
		if (n != 0) memcpy(&out[0], p, n);
		for (size_t i = 0; i < n; i++) acc += out[i];
		if (type == CKA_EC_POINT)
		{
			// public EC / EdDSA points are stored as DER octet strings and unwrapped without any key
			ByteString raw = DERUTIL::octet2Raw(b);
			acc += raw.size();
			ByteString again = DERUTIL::raw2Octet(raw);
			acc += again.size();
		}
	}
	else if (a.isMechanismTypeSetAttribute())
	{
		std::set<CK_MECHANISM_TYPE> set = a.getMechanismTypeSetValue();
		std::vector<CK_MECHANISM_TYPE> out(set.size()); size_t i = 0;
		for (std::set<CK_MECHANISM_TYPE>::const_iterator it = set.begin(); it != set.end(); ++it) out[i++] = *it;
		for (size_t k = 0; k < out.size(); k++) acc += out[k];
	}
	else if (a.isAttributeMapAttribute())
	{
		const std::map<CK_ATTRIBUTE_TYPE,OSAttribute>& m = a.getAttributeMapValue();
		for (std::map<CK_ATTRIBUTE_TYPE,OSAttribute>::const_iterator it = m.begin(); it != m.end(); ++it)
		{
			acc += it->first;
			if (depth < 4) fuzz_touch(it->second, it->first, depth + 1);
		}
	}
	ByteString peek;
	if (a.peekValue(peek)) { for (size_t i = 0; i < peek.size(); i++) acc += peek.const_byte_str()[i]; }
	OSAttribute copy(a);                                             // attributes travel by value through the library
	acc += copy.isByteStringAttribute() ? copy.getByteStringValue().size() : 0;
	fuzz_sink += acc;
}

static const CK_ATTRIBUTE_TYPE fuzz_known_types[] = {
	CKA_CLASS, CKA_TOKEN, CKA_PRIVATE, CKA_LABEL, CKA_APPLICATION, CKA_VALUE, CKA_OBJECT_ID, CKA_CERTIFICATE_TYPE, CKA_ISSUER,
	CKA_SERIAL_NUMBER, CKA_TRUSTED, CKA_CERTIFICATE_CATEGORY, CKA_CHECK_VALUE, CKA_KEY_TYPE, CKA_SUBJECT, CKA_ID, CKA_SENSITIVE,
	CKA_ENCRYPT, CKA_DECRYPT, CKA_WRAP, CKA_UNWRAP, CKA_SIGN, CKA_SIGN_RECOVER, CKA_VERIFY, CKA_VERIFY_RECOVER, CKA_DERIVE,
	CKA_START_DATE, CKA_END_DATE, CKA_MODULUS, CKA_MODULUS_BITS, CKA_PUBLIC_EXPONENT, CKA_PRIVATE_EXPONENT, CKA_PRIME_1, CKA_PRIME_2,
	CKA_EXPONENT_1, CKA_EXPONENT_2, CKA_COEFFICIENT, CKA_PRIME, CKA_SUBPRIME, CKA_BASE, CKA_PRIME_BITS, CKA_VALUE_BITS, CKA_VALUE_LEN,
	CKA_EXTRACTABLE, CKA_LOCAL, CKA_NEVER_EXTRACTABLE, CKA_ALWAYS_SENSITIVE, CKA_KEY_GEN_MECHANISM, CKA_MODIFIABLE, CKA_COPYABLE,
	CKA_DESTROYABLE, CKA_EC_PARAMS, CKA_EC_POINT, CKA_ALWAYS_AUTHENTICATE, CKA_WRAP_WITH_TRUSTED, CKA_WRAP_TEMPLATE, CKA_UNWRAP_TEMPLATE,
	CKA_DERIVE_TEMPLATE, CKA_ALLOWED_MECHANISMS, CKA_OS_TOKENLABEL, CKA_OS_TOKENSERIAL, CKA_OS_TOKENFLAGS, CKA_OS_SOPIN, CKA_OS_USERPIN
};

// the read accesses the upper layers make on an object of the store; returns the number of attributes seen
static size_t fuzz_walk(OSObject* o)
{
	size_t n = 0;
	// enumeration as in C_CopyObject / the object dump of softhsm2-dump-file; every attribute found also through the typed
	// getters (two of the three answer "not of this kind")
	CK_ATTRIBUTE_TYPE t = CKA_CLASS;
	do
	{
		if (o->attributeExists(t))
		{
			OSAttribute a = o->getAttribute(t); fuzz_touch(a, t); n++;
			// the typed getter of the stored kind; for the first few attributes also the two that answer "not of this kind"
			bool all = n <= 4;
			if (all || a.isBooleanAttribute()) fuzz_sink += o->getBooleanValue(t, false) ? 1 : 0;
			if (all || a.isUnsignedLongAttribute()) fuzz_sink += o->getUnsignedLongValue(t, CKO_VENDOR_DEFINED);
			if (all || a.isByteStringAttribute()) { ByteString b = o->getByteStringValue(t); fuzz_sink += b.size() + b.bits() + b.long_val(); }
		}
		t = o->nextAttributeType(t);
	}
	while (t != CKA_CLASS && n < 1000000);
	// typed access with defaults, present or not, as in P11Object::init / SoftHSM.cpp / Token.cpp
	fuzz_sink += o->getUnsignedLongValue(CKA_CLASS, CKO_VENDOR_DEFINED) + o->getUnsignedLongValue(CKA_KEY_TYPE, CKK_VENDOR_DEFINED)
	           + o->getUnsignedLongValue(CKA_CERTIFICATE_TYPE, CKC_VENDOR_DEFINED) + o->getUnsignedLongValue(CKA_OS_TOKENFLAGS, 0);
	fuzz_sink += (o->getBooleanValue(CKA_TOKEN, false) ? 1 : 0) + (o->getBooleanValue(CKA_PRIVATE, true) ? 2 : 0) + (o->getBooleanValue(CKA_MODIFIABLE, true) ? 4 : 0);
	fuzz_sink += o->getByteStringValue(CKA_ID).size() + o->getByteStringValue(CKA_OS_TOKENLABEL).size();
	// existence probes for everything the PKCS#11 layer knows (they leave empty slots behind which the enumeration has to skip)
	for (size_t i = 0; i < sizeof(fuzz_known_types) / sizeof(fuzz_known_types[0]); i++) fuzz_sink += o->attributeExists(fuzz_known_types[i]) ? 1 : 0;
	size_t again = 0; t = CKA_CLASS;
	do { if (o->attributeExists(t)) again++; t = o->nextAttributeType(t); } while (t != CKA_CLASS && again < 1000000);
	if (again != n) fuzz_sink += 1;
	return n;
}

// a second version of the file content, as another process would leave it: generation number changed (so that the
// library's change detection fires), tail cut by a few bytes chosen by the input itself
static std::vector<uint8_t> fuzz_second_version(const uint8_t* data, size_t size)
{
	std::vector<uint8_t> v(data, data + size);
	if (size >= 8) v[7] ^= 0x01;
	if (size > 8)
	{
		size_t cut = data[size - 1] % 24;
		if (cut < size - 8) v.resize(size - cut);
	}
	return v;
}
#endif // FUZZ_WITH_OBJECT_STORE
#endif
