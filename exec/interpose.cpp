// Interposers exported from the host executable (link with -rdynamic): every libc file-system
// call and every process-termination call made by libsofthsm2.so (or libsqlite3) resolves here first.
#include "interpose.h"
#include <dlfcn.h>
#include <errno.h>
#include <fcntl.h>
#include <signal.h>
#include <stdarg.h>
#include <stdio.h>
#include <stdio_ext.h>
#include <stdlib.h>
#include <string.h>
#include <unistd.h>
#include <sys/stat.h>
#include <sys/types.h>
#include <mutex>
#include <string>
#include <vector>
using json = nlohmann::json;

static volatile int g_ip_active = 0;   // plain flag: wrappers may run before main (sanitizer start-up)
namespace {
enum Mode { OFF, COUNT, FAIL, CRASH, DELAY };
struct Op { int n; std::string kind; std::string path; };
struct State {
	Mode mode = OFF; std::string root; int nops = 0; std::vector<Op> trace; bool with_fwrite = false; bool with_reads = false;
	int k = -1; std::string kind; int err = EIO; bool after = false; long torn = -1; bool sticky = false; int injected = 0;
	uint64_t seed = 1; double p = 0; unsigned maxus = 0;
	std::mutex mu;
} G;
thread_local char cur_fn[64] = ""; thread_local long cur_id = -1;
thread_local int reent = 0;
int real_stdout = 1;

template <class T> T real(const char* name) { return (T)dlsym(RTLD_NEXT, name); }

std::string fdpath(int fd) { char l[64], b[1024]; snprintf(l, sizeof l, "/proc/self/fd/%d", fd); ssize_t n = readlink(l, b, sizeof b - 1); if (n < 0) return ""; b[n] = 0; return b; }
bool under_root(const std::string& p) { return !G.root.empty() && p.compare(0, G.root.size(), G.root) == 0; }

void death_note(const char* how, int code) {
	char b[256]; int n = snprintf(b, sizeof b, "{\"died\":\"%s\",\"code\":%d,\"fn\":\"%s\",\"id\":%ld}\n", how, code, cur_fn, cur_id);
	if (n > 0) { ssize_t w = write(real_stdout, b, (size_t)n); (void)w; }
}

uint64_t xs(uint64_t& s) { s ^= s << 13; s ^= s >> 7; s ^= s << 17; return s; }

// returns: 0 = perform normally; 1 = fail with errno set (do not perform)
int pre(const char* kind, const std::string& path) {
	if (!g_ip_active || G.mode == OFF || reent || !under_root(path)) return 0;
	std::lock_guard<std::mutex> lk(G.mu);
	int n = ++G.nops; if (G.trace.size() < 100000) G.trace.push_back({n, kind, path.substr(G.root.size())});
	if (G.mode == CRASH && n == G.k && !G.after) { death_note("crash-before", n); _exit(137); }
	if (G.mode == FAIL && ((G.k > 0 && (n == G.k || (G.sticky && n >= G.k))) || (G.k <= 0 && G.kind == kind))) { G.injected++; errno = G.err; return 1; }
	if (G.mode == DELAY && (G.kind.empty() || strstr(kind, G.kind.c_str()))) { uint64_t r = xs(G.seed); /* "kind": only operations whose kind contains this text are delayed (e.g. "sync") */ if ((double)(r & 0xFFFF) / 65536.0 < G.p) { reent++; usleep((r >> 20) % (G.maxus + 1)); reent--; } }
	return 0;
}
void post(const char* kind, const std::string& path, int fd_for_torn) {
	if (!g_ip_active || G.mode != CRASH || reent || !under_root(path)) return;
	if (G.nops == G.k && G.after) {
		if (G.torn != -1 && fd_for_torn >= 0) { // torn write: the flush happened, now cut the file back (absolute size, -2 = half, -3 = size-1)
			auto rt = real<int (*)(int, off_t)>("ftruncate"); struct stat st; off_t target = G.torn;
			if (fstat(fd_for_torn, &st) == 0) { if (G.torn == -2) target = st.st_size / 2; else if (G.torn == -3) target = st.st_size - 1; if (target > st.st_size) target = st.st_size; }
			if (target < 0) target = 0;
			rt(fd_for_torn, target); }
		death_note("crash-after", G.nops); _exit(137);
	}
	(void)kind;
}
} // namespace

extern "C" {
int open(const char* p, int fl, ...) { static auto r = real<int (*)(const char*, int, ...)>("open"); mode_t m = 0; if (fl & (O_CREAT | O_TMPFILE)) { va_list a; va_start(a, fl); m = va_arg(a, mode_t); va_end(a); }
	if (!g_ip_active) return r(p, fl, m);
	bool w = fl & (O_CREAT | O_TRUNC | O_WRONLY | O_RDWR); const char* kind = (fl & O_TRUNC) ? "open-trunc" : (fl & O_CREAT) ? "open-creat" : w ? "open-w" : "open-r";
	if (!w && G.with_reads && !(fl & O_DIRECTORY)) w = true;   /* opt-in ("reads": true): read-only opens are operations too */
	if (w && pre(kind, p)) return -1; int fd = r(p, fl, m); if (w) post(kind, p, -1); return fd; }
int open64(const char* p, int fl, ...) { static auto r = real<int (*)(const char*, int, ...)>("open64"); mode_t m = 0; if (fl & (O_CREAT | O_TMPFILE)) { va_list a; va_start(a, fl); m = va_arg(a, mode_t); va_end(a); }
	if (!g_ip_active) return r(p, fl, m);
	bool w = fl & (O_CREAT | O_TRUNC | O_WRONLY | O_RDWR); const char* kind = (fl & O_TRUNC) ? "open-trunc" : (fl & O_CREAT) ? "open-creat" : w ? "open-w" : "open-r";
	if (!w && G.with_reads && !(fl & O_DIRECTORY)) w = true;   /* opt-in ("reads": true): read-only opens are operations too */
	if (w && pre(kind, p)) return -1; int fd = r(p, fl, m); if (w) post(kind, p, -1); return fd; }
int creat(const char* p, mode_t m) { static auto r = real<int (*)(const char*, mode_t)>("creat"); if (!g_ip_active) return r(p, m); if (pre("open-trunc", p)) return -1; int fd = r(p, m); post("open-trunc", p, -1); return fd; }
FILE* fopen(const char* p, const char* mode) { static auto r = real<FILE* (*)(const char*, const char*)>("fopen"); if (!g_ip_active) return r(p, mode); bool w = strpbrk(mode, "wa+") != nullptr; const char* fk = mode[0] == 'w' ? "open-trunc" : w ? "open-w" : "open-r"; if (!w && G.with_reads) w = true; if (w && pre(fk, p)) return nullptr; FILE* f = r(p, mode); if (w) post("fopen", p, -1); return f; }
int ftruncate(int fd, off_t len) { static auto r = real<int (*)(int, off_t)>("ftruncate"); if (!g_ip_active) return r(fd, len); std::string p = fdpath(fd); if (pre("ftruncate", p)) return -1; int rv = r(fd, len); post("ftruncate", p, -1); return rv; }
int ftruncate64(int fd, off64_t len) { static auto r = real<int (*)(int, off64_t)>("ftruncate64"); if (!g_ip_active) return r(fd, len); std::string p = fdpath(fd); if (pre("ftruncate", p)) return -1; int rv = r(fd, len); post("ftruncate", p, -1); return rv; }
int truncate(const char* p, off_t len) { static auto r = real<int (*)(const char*, off_t)>("truncate"); if (!g_ip_active) return r(p, len); if (pre("truncate", p)) return -1; int rv = r(p, len); post("truncate", p, -1); return rv; }
int fflush(FILE* f) { static auto r = real<int (*)(FILE*)>("fflush"); if (!f || !g_ip_active || G.mode == OFF) return r(f); int fd = fileno(f); std::string p = fdpath(fd); if (pre("fflush", p)) { __fpurge(f); return EOF; } /* a failed flush really loses the data, as a full disk does */ int rv = r(f); post("fflush", p, fd); return rv; }
int fclose(FILE* f) { static auto r = real<int (*)(FILE*)>("fclose"); if (!f || !g_ip_active || G.mode == OFF) return r(f); int fd = fileno(f); std::string p = fdpath(fd); if (pre("fclose", p)) { __fpurge(f); r(f); return EOF; } int rv = r(f); post("fclose", p, -1); return rv; }
size_t fwrite(const void* b, size_t sz, size_t n, FILE* f) { static auto r = real<size_t (*)(const void*, size_t, size_t, FILE*)>("fwrite"); if (!g_ip_active || G.mode == OFF || !G.with_fwrite || !f) return r(b, sz, n, f); std::string p = fdpath(fileno(f)); if (pre("fwrite", p)) return 0; return r(b, sz, n, f); }
int fsync(int fd) { static auto r = real<int (*)(int)>("fsync"); if (!g_ip_active) return r(fd); std::string p = fdpath(fd); if (pre("fsync", p)) return -1; int rv = r(fd); post("fsync", p, -1); return rv; }
int fdatasync(int fd) { static auto r = real<int (*)(int)>("fdatasync"); if (!g_ip_active) return r(fd); std::string p = fdpath(fd); if (pre("fsync", p)) return -1; int rv = r(fd); post("fsync", p, -1); return rv; }
ssize_t write(int fd, const void* b, size_t n) { static auto r = real<ssize_t (*)(int, const void*, size_t)>("write"); if (!g_ip_active || G.mode == OFF || fd <= 2) return r(fd, b, n); std::string p = fdpath(fd); if (pre("write", p)) return -1; ssize_t rv = r(fd, b, n); post("write", p, -1); return rv; }
ssize_t pwrite(int fd, const void* b, size_t n, off_t o) { static auto r = real<ssize_t (*)(int, const void*, size_t, off_t)>("pwrite"); if (!g_ip_active || G.mode == OFF) return r(fd, b, n, o); std::string p = fdpath(fd); if (pre("pwrite", p)) return -1; ssize_t rv = r(fd, b, n, o); post("pwrite", p, -1); return rv; }
ssize_t pwrite64(int fd, const void* b, size_t n, off64_t o) { static auto r = real<ssize_t (*)(int, const void*, size_t, off64_t)>("pwrite64"); if (!g_ip_active || G.mode == OFF) return r(fd, b, n, o); std::string p = fdpath(fd); if (pre("pwrite", p)) return -1; ssize_t rv = r(fd, b, n, o); post("pwrite", p, -1); return rv; }
int remove(const char* p) { static auto r = real<int (*)(const char*)>("remove"); if (!g_ip_active) return r(p); if (pre("remove", p)) return -1; int rv = r(p); post("remove", p, -1); return rv; }
int unlink(const char* p) { static auto r = real<int (*)(const char*)>("unlink"); if (!g_ip_active) return r(p); if (pre("remove", p)) return -1; int rv = r(p); post("remove", p, -1); return rv; }
int rename(const char* a, const char* b) { static auto r = real<int (*)(const char*, const char*)>("rename"); if (!g_ip_active) return r(a, b); if (pre("rename", b)) return -1; int rv = r(a, b); post("rename", b, -1); return rv; }
int mkdir(const char* p, mode_t m) { static auto r = real<int (*)(const char*, mode_t)>("mkdir"); if (!g_ip_active) return r(p, m); if (pre("mkdir", p)) return -1; int rv = r(p, m); post("mkdir", p, -1); return rv; }
// record locks: never counted or failed (so the FS-operation numbering of count/fail/crash runs is unchanged); in DELAY mode a PRNG sleep
// before the lock is requested widens every window in which code touches a shared file before holding its lock (C15)
static void lock_delay(int fd, int cmd) {
	if (!g_ip_active || G.mode != DELAY || reent || !(cmd == F_SETLKW || cmd == F_SETLK)) return;
	std::string p = fdpath(fd); if (!under_root(p)) return;
	std::lock_guard<std::mutex> lk(G.mu); uint64_t r = xs(G.seed);
	if ((double)(r & 0xFFFF) / 65536.0 < G.p) { reent++; usleep((r >> 20) % (G.maxus + 1)); reent--; }
}
int fcntl(int fd, int cmd, ...) { static auto r = real<int (*)(int, int, ...)>("fcntl"); va_list a; va_start(a, cmd); void* arg = va_arg(a, void*); va_end(a); lock_delay(fd, cmd); return r(fd, cmd, arg); }
int fcntl64(int fd, int cmd, ...) { static auto r = real<int (*)(int, int, ...)>("fcntl64"); va_list a; va_start(a, cmd); void* arg = va_arg(a, void*); va_end(a); lock_delay(fd, cmd); return r ? r(fd, cmd, arg) : -1; }
int rmdir(const char* p) { static auto r = real<int (*)(const char*)>("rmdir"); if (!g_ip_active) return r(p); if (pre("rmdir", p)) return -1; int rv = r(p); post("rmdir", p, -1); return rv; }

// ---- RNG fault injection (OpenSSL builds): the library's calls to RAND_bytes bind to this symbol of the host executable
static int g_rng_on = 0, g_rng_calls = 0, g_rng_fail_at = -1, g_rng_injected = 0;
int RAND_bytes(unsigned char* buf, int num) {
	static int (*r)(unsigned char*, int) = nullptr;
	if (!r) { r = real<int (*)(unsigned char*, int)>("RAND_bytes"); if (!r) { void* h = dlopen("libcrypto.so.3", RTLD_NOW | RTLD_NOLOAD); if (!h) h = dlopen("libcrypto.so.3", RTLD_NOW); if (h) r = (int (*)(unsigned char*, int))dlsym(h, "RAND_bytes"); } }
	if (!r) return 0;
	if (!g_ip_active || !g_rng_on) return r(buf, num);
	int n = __sync_add_and_fetch(&g_rng_calls, 1);
	if (n == g_rng_fail_at) { __sync_add_and_fetch(&g_rng_injected, 1); return 0; }   // the request fails and the buffer is left as the caller prepared it
	return r(buf, num);
}

// ---- termination: a library must never end the host process
void exit(int code) { static auto r = real<void (*)(int)>("exit"); if (cur_fn[0]) { death_note("exit", code); _exit(code ? code : 99); } r(code); __builtin_unreachable(); }
void abort(void) { static auto r = real<void (*)(void)>("abort"); death_note("abort", 134); signal(SIGABRT, SIG_DFL); r(); __builtin_unreachable(); }
void __assert_fail(const char* a, const char* f, unsigned l, const char* fn) { static auto r = real<void (*)(const char*, const char*, unsigned, const char*)>("__assert_fail"); char b[300]; snprintf(b, sizeof b, "assert:%s:%u", f ? f : "?", l); death_note(b, 134); r(a, f, l, fn); __builtin_unreachable(); }
}

static void on_signal(int sig) { death_note(sig == SIGSEGV ? "SIGSEGV" : sig == SIGBUS ? "SIGBUS" : sig == SIGFPE ? "SIGFPE" : sig == SIGILL ? "SIGILL" : "signal", 128 + sig); signal(sig, SIG_DFL); raise(sig); }

void ip_init() {
	real_stdout = dup(1); g_ip_active = 1;
#if !defined(__SANITIZE_ADDRESS__) && !defined(__SANITIZE_THREAD__)
	for (int s : {SIGSEGV, SIGBUS, SIGFPE, SIGILL}) signal(s, on_signal);
#else
	(void)on_signal;
#endif
	std::set_terminate([]() { death_note("terminate", 134); abort(); });
}
void ip_set_current(const char* fn, long id) { strncpy(cur_fn, fn, sizeof cur_fn - 1); cur_fn[sizeof cur_fn - 1] = 0; cur_id = id; }
void ip_quiet_exit() { cur_fn[0] = 0; fflush(stdout); }

json ip_control(const json& q) {
	json r; std::lock_guard<std::mutex> lk(G.mu);
	if (q.value("fn", std::string()) == "rng") {   // {"fn":"rng","mode":"count"|"fail"|"off"|"status","k":n}
		std::string m = q.value("mode", std::string("status"));
		if (m == "count") { g_rng_on = 1; g_rng_calls = 0; g_rng_fail_at = -1; g_rng_injected = 0; }
		else if (m == "fail") { g_rng_on = 1; g_rng_calls = 0; g_rng_fail_at = q.value("k", -1); g_rng_injected = 0; }
		else if (m == "off") { g_rng_on = 0; }
		r["calls"] = g_rng_calls; r["injected"] = g_rng_injected; return r;
	}
	std::string mode = q.value("mode", std::string("status"));
	if (mode == "status" || mode == "trace") { }
	else {
		G.nops = 0; G.trace.clear(); G.injected = 0; G.k = q.value("k", -1); G.kind = q.value("kind", std::string()); G.err = q.value("errno", (int)EIO); G.after = q.value("when", std::string("before")) == "after"; G.torn = q.value("torn", (long)-1); G.sticky = q.value("sticky", false);
		G.seed = q.value("seed", (uint64_t)1) | 1; G.p = q.value("p", 0.0); G.maxus = q.value("maxus", 0u); G.with_fwrite = q.value("fwrite", false); G.with_reads = q.value("reads", false);
		if (q.contains("root")) G.root = q["root"].get<std::string>();
		G.mode = mode == "off" ? OFF : mode == "count" ? COUNT : mode == "fail" ? FAIL : mode == "crash" ? CRASH : mode == "delay" ? DELAY : OFF;
	}
	r["nops"] = G.nops; r["injected"] = G.injected;
	if (mode == "trace" || q.value("want_trace", false)) { json t = json::array(); for (auto& o : G.trace) t.push_back({o.n, o.kind, o.path}); r["trace"] = t; }
	return r;
}
