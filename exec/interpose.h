#pragma once
#include <nlohmann/json.hpp>
void ip_init();
void ip_set_current(const char* fn, long id);
nlohmann::json ip_control(const nlohmann::json& q);
void ip_quiet_exit();
