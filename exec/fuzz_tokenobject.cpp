// libFuzzer harness (C17, coverage-guided lane): the fuzz input is the content of `<token dir>/token.object`.
// The directory is opened by the real OSToken; label / serial / flags / PIN blobs are read as Token.cpp and
// SlotManager.cpp read them, the file is replaced behind the library's back (refresh()), the token object is
// modified the way C_Login / C_InitPIN / C_InitToken modify it, and the result is parsed again.  The same file is also
// loaded as a stand-alone ObjectFile (parent NULL, as OSToken::createToken and the unit tests do) and walked.
#define FUZZ_WITH_OBJECT_STORE 1
#define FUZZ_WITH_OSTOKEN 1
#include "fuzz_common.h"
#include "OSToken.h"
#include "ObjectFile.h"

static std::string tokdir;

static void setup()
{
	tokdir = fuzz_scratch() + "/tokobj";
	fuzz_rm_tree(tokdir);
	if (mkdir(tokdir.c_str(), 0700) != 0) fuzz_harness_trouble("cannot create", tokdir.c_str());
}

// Token::getTokenInfo / SlotManager::SlotManager
static void read_token(OSToken& tok)
{
	CK_TOKEN_INFO info; memset(&info, ' ', sizeof(info));
	ByteString label, serial, so, user; CK_ULONG flags = 0;
	fuzz_sink += tok.isValid() ? 1 : 0;
	if (tok.getTokenLabel(label)) strncpy((char*) info.label, (char*) label.byte_str(), label.size() < 32 ? label.size() : 32);
	if (tok.getTokenSerial(serial))
	{
		strncpy((char*) info.serialNumber, (char*) serial.byte_str(), serial.size() < 16 ? serial.size() : 16);
		// the slot number is derived from the last 8 characters of the serial
		std::string s((const char*) serial.const_byte_str(), serial.size());
		if (s.size() >= 8) fuzz_sink += strtoul(s.substr(s.size() - 8).c_str(), NULL, 16);
	}
	if (tok.getTokenFlags(flags)) info.flags = flags;
	if (tok.getSOPIN(so)) { for (size_t i = 0; i < so.size(); i++) fuzz_sink += so.const_byte_str()[i]; }
	if (tok.getUserPIN(user)) { for (size_t i = 0; i < user.size(); i++) fuzz_sink += user.const_byte_str()[i]; }
	for (size_t i = 0; i < 32; i++) fuzz_sink += info.label[i];
	for (size_t i = 0; i < 16; i++) fuzz_sink += info.serialNumber[i];
	std::set<OSObject*> objs = tok.getObjects();
	fuzz_sink += objs.size() + info.flags;
}

extern "C" int LLVMFuzzerTestOneInput(const uint8_t* data, size_t size)
{
	if (tokdir.empty()) setup();
	softLogLevel = fuzz_log_level(data, size);
	const std::string tf = tokdir + "/token.object", tl = tokdir + "/token.lock";
	unlink((tokdir + "/generation").c_str()); unlink(tl.c_str());
	fuzz_write_file(tf, data, size);
	{
		ObjectFile alone(NULL, tf, DEFAULT_UMASK, tl);
		if (alone.isValid()) fuzz_sink += fuzz_walk(&alone);
	}
	{
		OSToken tok(tokdir, DEFAULT_UMASK);
		read_token(tok);

		// another process rewrites token.object
		std::vector<uint8_t> v2 = fuzz_second_version(data, size);
		fuzz_write_file(tf, v2.data(), v2.size());
		read_token(tok);

		// a failed login updates the flags, C_InitPIN / C_SetPIN store a new blob, C_InitToken resets the token
		CK_ULONG flags;
		if (tok.getTokenFlags(flags)) tok.setTokenFlags(flags | CKF_USER_PIN_COUNT_LOW);
		ByteString blob((const unsigned char*) "0123456789abcdef0123456789abcdef0123456789abcdef", 48);
		tok.setUserPIN(blob);
		read_token(tok);
		ByteString label((const unsigned char*) "re-initialised                  ", 32);
		tok.resetToken(label);
		read_token(tok);
	}
	{
		OSToken tok(tokdir, DEFAULT_UMASK);
		read_token(tok);
		ObjectFile alone(NULL, tf, DEFAULT_UMASK, tl);
		if (alone.isValid()) fuzz_sink += fuzz_walk(&alone);
	}
	return 0;
}
