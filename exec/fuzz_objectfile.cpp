// libFuzzer harness (C17, coverage-guided lane): the fuzz input is the content of `<token dir>/<uuid>.object`.
// The file is picked up by the real OSToken (directory index -> ObjectFile constructor -> refresh(true)), every
// attribute is read back the way SoftHSM.cpp / P11Attributes.cpp read stored objects, the file is then replaced behind
// the library's back (refresh() through isValid()), a transaction is rolled back (refresh(true)), the object is
// modified (everything that was parsed is written back) and finally parsed again by a fresh instance.
#define FUZZ_WITH_OBJECT_STORE 1
#define FUZZ_WITH_OSTOKEN 1
#include "fuzz_common.h"
#include "OSToken.h"
#include "ObjectFile.h"

static std::string tokdir;
static std::vector<uint8_t> pristine_token_object;
static const char* OBJ = "6f1c2a9e-52b7-4d0c-9a31-7be4c05d18f2.object";
static const char* LCK = "6f1c2a9e-52b7-4d0c-9a31-7be4c05d18f2.lock";

static void setup()
{
	const std::string& base = fuzz_scratch();
	tokdir = base + "/objtok";
	fuzz_rm_tree(tokdir);
	ByteString label((const unsigned char*) "fuzz-lane token                 ", 32), serial((const unsigned char*) "0123456789abcdef", 16);
	OSToken* t = OSToken::createToken(base, "objtok", DEFAULT_UMASK, label, serial);
	if (t == NULL || !t->isValid()) fuzz_harness_trouble("cannot create the scratch token in", base.c_str());
	delete t;
	FILE* f = fopen((tokdir + "/token.object").c_str(), "rb");
	if (f == NULL) fuzz_harness_trouble("cannot read back", "token.object");
	uint8_t buf[4096]; size_t n = fread(buf, 1, sizeof(buf), f); fclose(f);
	pristine_token_object.assign(buf, buf + n);
}

static void read_all(OSToken& tok)
{
	std::set<OSObject*> objs = tok.getObjects();
	for (std::set<OSObject*>::iterator i = objs.begin(); i != objs.end(); ++i)
	{
		// every consumer in the library checks isValid() (which refreshes from disk) before it reads attributes
		if ((*i)->isValid()) fuzz_sink += fuzz_walk(*i);
	}
}

extern "C" int LLVMFuzzerTestOneInput(const uint8_t* data, size_t size)
{
	if (tokdir.empty()) setup();
	softLogLevel = fuzz_log_level(data, size);
	// the same starting point for every input
	unlink((tokdir + "/generation").c_str()); unlink((tokdir + "/" + LCK).c_str()); unlink((tokdir + "/token.lock").c_str());
	fuzz_write_file(tokdir + "/token.object", pristine_token_object.data(), pristine_token_object.size());
	fuzz_write_file(tokdir + "/" + OBJ, data, size);
	{
		OSToken tok(tokdir, DEFAULT_UMASK);
		read_all(tok);

		// another process replaces the file: the object's own generation differs -> ObjectFile::refresh() re-parses
		std::vector<uint8_t> v2 = fuzz_second_version(data, size);
		fuzz_write_file(tokdir + "/" + OBJ, v2.data(), v2.size());
		read_all(tok);

		std::set<OSObject*> objs = tok.getObjects();
		for (std::set<OSObject*>::iterator i = objs.begin(); i != objs.end(); ++i)
		{
			OSObject* o = *i;
			// a rejected C_SetAttributeValue: transaction opened and rolled back (reload from disk)
			if (o->isValid() && o->startTransaction(OSObject::ReadWrite))
			{
				o->abortTransaction();
				if (o->isValid()) fuzz_sink += fuzz_walk(o);
			}
			// an accepted one: all attributes that were parsed are written back
			if (o->isValid())
			{
				ByteString id((const unsigned char*) "\x01\x02\x03", 3);
				if (o->startTransaction(OSObject::ReadWrite))
				{
					bool ok = o->setAttribute(CKA_ID, OSAttribute(id)) && o->setAttribute(CKA_MODIFIABLE, OSAttribute(true));
					if (ok) o->commitTransaction(); else o->abortTransaction();
				}
				if (o->isValid()) o->setAttribute(CKA_LABEL, OSAttribute(id));      // store() outside a transaction
				if (o->isValid() && o->attributeExists(CKA_ID)) o->deleteAttribute(CKA_ID);
				if (o->isValid()) fuzz_sink += fuzz_walk(o);
			}
		}
	}
	{
		// what was written back is parsed by a fresh instance (next C_Initialize)
		OSToken tok(tokdir, DEFAULT_UMASK);
		read_all(tok);
	}
	return 0;
}
