#!/usr/bin/env python3
"""C08 - attribute policy: read-only, one-way and history attributes hold (DESIGN 3/C08).

Four engines, all judged ONLY by the rules the statement lists:
 1. table:    object kind x every attribute the object defines x {set, copy}: a template naming a read-only attribute (PKCS#11
              v2.40 tables, `policy()` below -- doubtful attributes are "open" = no demand) or moving a one-way attribute in the
              forbidden direction must be refused; a refused template changed nothing (token objects / single attribute), an
              accepted one changed exactly the named attribute; mixed templates with the forbidden attribute at every position.
 2. gates:    CKA_MODIFIABLE / CKA_COPYABLE / CKA_DESTROYABLE false, private -> public copy, CKA_TRUSTED without the SO.
 3. supplied: CKA_LOCAL / CKA_KEY_GEN_MECHANISM / CKA_ALWAYS_SENSITIVE / CKA_NEVER_EXTRACTABLE in create / generate / unwrap /
              derive / set / copy templates (any value, every position) are refused and leave no object behind.
 4. history:  seeded histories (generate / create / unwrap / derive / copy / set, copy of a copy, derive from a derived key, the
              three CONCATENATE mechanisms) against a provenance model of the four history attributes."""
import sys, os, shutil, random
sys.path.insert(0, os.path.join(os.path.dirname(os.path.abspath(__file__)), '..', 'vlib'))
from harness import main, Part, pmap, SAN_ENV
import twoproc
from p11client import Exec, Died, Hang, mkconf
import keys_fixed2 as K, mechtable as MT

BOOLS = {'CKA_TOKEN', 'CKA_PRIVATE', 'CKA_MODIFIABLE', 'CKA_COPYABLE', 'CKA_DESTROYABLE', 'CKA_TRUSTED', 'CKA_SENSITIVE', 'CKA_EXTRACTABLE', 'CKA_ENCRYPT', 'CKA_DECRYPT', 'CKA_SIGN',
         'CKA_SIGN_RECOVER', 'CKA_VERIFY', 'CKA_VERIFY_RECOVER', 'CKA_WRAP', 'CKA_UNWRAP', 'CKA_DERIVE', 'CKA_LOCAL', 'CKA_ALWAYS_SENSITIVE', 'CKA_NEVER_EXTRACTABLE',
         'CKA_WRAP_WITH_TRUSTED', 'CKA_ALWAYS_AUTHENTICATE'}
ULONGS = {'CKA_CLASS', 'CKA_KEY_TYPE', 'CKA_CERTIFICATE_TYPE', 'CKA_CERTIFICATE_CATEGORY', 'CKA_JAVA_MIDP_SECURITY_DOMAIN', 'CKA_NAME_HASH_ALGORITHM', 'CKA_KEY_GEN_MECHANISM',
          'CKA_MODULUS_BITS', 'CKA_PRIME_BITS', 'CKA_SUB_PRIME_BITS', 'CKA_VALUE_BITS', 'CKA_VALUE_LEN'}
ARRAYS = {'CKA_WRAP_TEMPLATE', 'CKA_UNWRAP_TEMPLATE', 'CKA_DERIVE_TEMPLATE'}       # never read into a buffer (nested pointers)
HIST = ('CKA_LOCAL', 'CKA_KEY_GEN_MECHANISM', 'CKA_ALWAYS_SENSITIVE', 'CKA_NEVER_EXTRACTABLE')
UNAVAIL = (1 << 64) - 1

# ---------------------------------------------------------------- reference policy (PKCS#11 v2.40, conservative)
KEY_RO = {'CKA_KEY_TYPE', 'CKA_LOCAL', 'CKA_KEY_GEN_MECHANISM', 'CKA_ALLOWED_MECHANISMS'}
MATERIAL_RO = {'CKA_MODULUS', 'CKA_MODULUS_BITS', 'CKA_PUBLIC_EXPONENT', 'CKA_PRIVATE_EXPONENT', 'CKA_PRIME_1', 'CKA_PRIME_2', 'CKA_EXPONENT_1', 'CKA_EXPONENT_2', 'CKA_COEFFICIENT',
               'CKA_PRIME', 'CKA_SUBPRIME', 'CKA_BASE', 'CKA_VALUE', 'CKA_VALUE_BITS', 'CKA_VALUE_LEN', 'CKA_EC_PARAMS', 'CKA_EC_POINT', 'CKA_PRIME_BITS', 'CKA_SUB_PRIME_BITS'}
RO = {'data': set(),                         # v2.40 gives the data-object attributes no footnotes and tokens differ: open
      'public': KEY_RO | MATERIAL_RO | {'CKA_WRAP_TEMPLATE'},
      'private': KEY_RO | MATERIAL_RO | {'CKA_ALWAYS_SENSITIVE', 'CKA_NEVER_EXTRACTABLE', 'CKA_UNWRAP_TEMPLATE', 'CKA_ALWAYS_AUTHENTICATE'},
      'secret': KEY_RO | MATERIAL_RO | {'CKA_ALWAYS_SENSITIVE', 'CKA_NEVER_EXTRACTABLE', 'CKA_WRAP_TEMPLATE', 'CKA_UNWRAP_TEMPLATE'},
      'domain': {'CKA_KEY_TYPE', 'CKA_LOCAL'} | MATERIAL_RO}
# X.509 certificates: "Only the CKA_ID, CKA_ISSUER, and CKA_SERIAL_NUMBER attributes may be modified after the object is created";
# CKA_LABEL is the one modifiable common storage attribute; CKA_TRUSTED / CKA_COPYABLE / CKA_DESTROYABLE are judged by their own rules.
CERT_OPEN = {'CKA_LABEL', 'CKA_ID', 'CKA_ISSUER', 'CKA_SERIAL_NUMBER', 'CKA_TRUSTED', 'CKA_COPYABLE', 'CKA_DESTROYABLE'}
def policy(group, attr, op, cur, new, so=False):
    """why a template [attr := new] must be refused by `op` ('set'|'copy') on an object whose attr currently is `cur`; None = no demand"""
    if attr == 'CKA_CLASS': return 'read-only'
    if attr in ('CKA_TOKEN', 'CKA_MODIFIABLE'): return 'read-only' if op == 'set' else None      # may change while copying
    if attr == 'CKA_PRIVATE':
        if op == 'set': return 'read-only'
        return 'private-to-public' if (cur is True and new is False) else None
    if attr == 'CKA_TRUSTED': return 'trusted-without-so' if (new is True and not so) else None
    if attr == 'CKA_SENSITIVE': return 'one-way' if (cur is True and new is False) else None
    if attr == 'CKA_EXTRACTABLE': return 'one-way' if (cur is False and new is True) else None
    if attr == 'CKA_WRAP_WITH_TRUSTED': return 'one-way' if (cur is True and new is False) else None
    if attr == 'CKA_COPYABLE': return 'one-way' if (cur is False and new is True and op == 'set') else None
    if group == 'cert': return None if attr in CERT_OPEN else 'read-only'
    return 'read-only' if attr in RO[group] else None

# ---------------------------------------------------------------- object kinds
KEYKINDS = ('AES16', 'DES3', 'GEN64', 'HSHA256', 'RSApub', 'RSApriv', 'DSApub', 'DSApriv', 'DHpub', 'DHpriv', 'ECpub', 'ECpriv', 'EDpub', 'EDpriv')
OTHERKINDS = ('DATA', 'CERT', 'DSAPARAMS', 'DHPARAMS')
ALLK = OTHERKINDS + KEYKINDS
def group(kind):
    return {'DATA': 'data', 'CERT': 'cert', 'DSAPARAMS': 'domain', 'DHPARAMS': 'domain'}.get(kind) or K.kclass(kind)
def is_private_default(kind): return group(kind) in ('data', 'private', 'secret')
def obj_template(ck, kind, token, private=None, extra=None):
    private = is_private_default(kind) if private is None else private; ex = dict(extra or {})
    if kind == 'DATA': t = [('CKA_CLASS', ck.CKO_DATA), ('CKA_TOKEN', token), ('CKA_PRIVATE', private), ('CKA_LABEL', b'lab'), ('CKA_APPLICATION', b'app'), ('CKA_OBJECT_ID', b'\x06\x03\x2a\x03\x04'), ('CKA_VALUE', b'data value')]
    elif kind == 'CERT': t = [('CKA_CLASS', ck.CKO_CERTIFICATE), ('CKA_CERTIFICATE_TYPE', ck.CKC_X_509), ('CKA_TOKEN', token), ('CKA_PRIVATE', private), ('CKA_LABEL', b'lab'), ('CKA_SUBJECT', b'0\x0c1\x0a0\x08\x06\x03U\x04\x03\x0c\x01a'),
                              ('CKA_VALUE', b'0\x03\x02\x01\x05'), ('CKA_ID', b'id1'), ('CKA_ISSUER', b'iss'), ('CKA_SERIAL_NUMBER', b'\x02\x01\x07')]
    elif kind == 'DSAPARAMS': t = [('CKA_CLASS', ck.CKO_DOMAIN_PARAMETERS), ('CKA_KEY_TYPE', ck.CKK_DSA), ('CKA_TOKEN', token), ('CKA_PRIVATE', private), ('CKA_LABEL', b'lab'), ('CKA_PRIME', K.DSA['p']), ('CKA_SUBPRIME', K.DSA['q']), ('CKA_BASE', K.DSA['g'])]
    elif kind == 'DHPARAMS': t = [('CKA_CLASS', ck.CKO_DOMAIN_PARAMETERS), ('CKA_KEY_TYPE', ck.CKK_DH), ('CKA_TOKEN', token), ('CKA_PRIVATE', private), ('CKA_LABEL', b'lab'), ('CKA_PRIME', K.DH['p']), ('CKA_BASE', K.DH['g'])]
    else: return K.resolve(ck, K.template(kind, token=token, private=private, extra=ex, label=b'lab'))
    return t + list(ex.items())

class Tok:
    def __init__(s, paths, ck, d, backend='file'):
        conf = mkconf(d, backend, '')
        s.x = Exec(paths['exe'], paths['lib'], conf, ck, env=dict(SAN_ENV), stderr=f'{d}/stderr.log', trace=f'{d}/trace.jsonl'); s.ck = ck
        s.slot, s.s = K.setup_token(s.x); s.ATTRS = sorted(ck.ATTR.values()); s.NUM = {a: ck[a] for a in s.ATTRS}
    def create(s, tmpl, sess=None): return s.x.call('C_CreateObject', s=sess or s.s, tmpl=s.x.T(tmpl))
    def mk(s, kind, token=False, private=None, extra=None):
        r = s.create(obj_template(s.ck, kind, token, private, extra)); return r['h'] if r['rv'] == 0 else None
    def snap(s, o, sess=None):
        """{attribute name: decoded value} of everything the object defines and reveals (arrays: ('len', n))"""
        r = s.x.call('C_GetAttributeValue', s=sess or s.s, o=o, tmpl=[{'t': s.NUM[a], 'buf': (None if a in ARRAYS else 1024)} for a in s.ATTRS])
        out = {}
        for a, e in zip(s.ATTRS, r.get('tmpl', [])):
            if e['len'] == -1: continue
            if a in ARRAYS: out[a] = ('len', e['len']); continue
            raw = bytes.fromhex(e.get('data', ''))
            out[a] = (raw != b'\x00') if (a in BOOLS and len(raw) == 1) else int.from_bytes(raw, 'little') if (a in ULONGS and len(raw) == 8) else raw
        return out
    def count(s, sess=None): return len(s.x.findall(sess or s.s, [])[1])
    def login(s, who):
        s.x.call('C_Logout', s=s.s)
        if who == 'user': return s.x.call('C_Login', s=s.s, user=1, pin=K.USER_PIN.hex())['rv'] == 0
        if who == 'so': return s.x.call('C_Login', s=s.s, user=0, pin=K.SO_PIN.hex())['rv'] == 0
        return True
    def close(s): s.x.close()

def other_value(ck, attr, cur):
    """a different, plausible value for `attr`"""
    if attr in BOOLS: return (not cur) if isinstance(cur, bool) else True
    if attr == 'CKA_CLASS': return ck.CKO_DATA if cur != ck.CKO_DATA else ck.CKO_SECRET_KEY
    if attr == 'CKA_KEY_TYPE': return {ck.CKK_AES: ck.CKK_DES3, ck.CKK_RSA: ck.CKK_DSA, ck.CKK_DSA: ck.CKK_DH, ck.CKK_DH: ck.CKK_DSA}.get(cur, ck.CKK_AES)
    if attr == 'CKA_KEY_GEN_MECHANISM': return ck.CKM_AES_KEY_GEN if cur != ck.CKM_AES_KEY_GEN else ck.CKM_DES3_KEY_GEN
    if attr == 'CKA_NAME_HASH_ALGORITHM': return ck.CKM_SHA256 if cur != ck.CKM_SHA256 else ck.CKM_SHA_1
    if attr == 'CKA_CERTIFICATE_TYPE': return ck.CKC_X_509_ATTR_CERT if cur != ck.CKC_X_509_ATTR_CERT else ck.CKC_X_509
    if attr in ('CKA_CERTIFICATE_CATEGORY', 'CKA_JAVA_MIDP_SECURITY_DOMAIN'): return 1 if cur != 1 else 2
    if attr in ULONGS: return (cur + 8) if isinstance(cur, int) else 8
    if attr in ARRAYS: return [('CKA_EXTRACTABLE', True)]
    if attr == 'CKA_ALLOWED_MECHANISMS': return [ck.CKM_SHA_1]
    if attr in ('CKA_START_DATE', 'CKA_END_DATE'): return b'20260926' if cur != b'20260926' else b'20270101'
    if isinstance(cur, bytes) and cur: return bytes([cur[0] ^ 1]) + cur[1:]
    return b'\x30\x03\x02\x01\x09'

def diff(a, b): return sorted(k for k in set(a) | set(b) if a.get(k) != b.get(k))

# ---------------------------------------------------------------- engine 1 + 2 + 3 per object kind
def table(t, job, part):
    ck = t.ck; x = t.x; kind = job['kind']; g = group(kind); be = job['backend']
    def V(key, what, wit): part.violation(key, what, dict(wit, kind=kind, backend=be))
    for on_token in (True, False):
        where = 'token' if on_token else 'session'
        def fresh(extra=None): return t.mk(kind, token=on_token, extra=extra)
        PROT = {'CKA_SENSITIVE': True, 'CKA_EXTRACTABLE': False, 'CKA_WRAP_WITH_TRUSTED': True}
        H = {'plain': fresh()}
        if H['plain'] is None: part.inconc(f'cannot create {kind} ({where})'); continue
        if g in ('private', 'secret'): H['protected'] = fresh(PROT)       # a second object in the protected state for the one-way cells
        if H.get('protected', 1) is None: part.inconc(f'cannot create protected {kind}'); del H['protected']
        REF = {w: t.snap(h) for w, h in H.items()}
        # positive control of C_CopyObject itself: a plain copy equals its source.  If it does not (db back-end, token objects: DBObject::nextAttributeType
        # is a stub, DESIGN section 4 row 11) ONE canonical finding is reported and the copy cells of this object are executed but not judged.
        copy_broken = False; r = x.call('C_CopyObject', s=t.s, o=H['plain'], tmpl=[])
        if r['rv'] != 0: part.observe('positive control refused: plain C_CopyObject', {'kind': kind, 'rv': r['rvname']}); copy_broken = True
        else:
            d = diff(REF['plain'], t.snap(r['h'])); part.case((kind, where, 'copy', 'empty-template'), nontrivial=True)
            if d:
                copy_broken = True; cp = t.snap(r['h'])
                part.violation(f'C_CopyObject|{be}-backend,{where}-object,empty-template|copy-differs-from-source', f'a plain copy differs from its source in {d}', {'kind': kind, 'differs': d, 'src': {k: repr(REF["plain"].get(k))[:40] for k in d}, 'copy': {k: repr(cp.get(k))[:40] for k in d}, 'backend': be})
            x.call('C_DestroyObject', s=t.s, o=r['h'])
        n0 = t.count()
        cells = [('plain', a) for a in sorted(REF['plain'])] + [('protected', a) for a in ('CKA_SENSITIVE', 'CKA_EXTRACTABLE', 'CKA_WRAP_WITH_TRUSTED') if a in REF.get('protected', {})]
        forbidden = []
        for which, a in cells:
            for op in ('set', 'copy'):
                obj = H[which]; ref = REF[which]; cur = ref[a]; new = other_value(ck, a, cur)
                why = policy(g, a, op, cur if not isinstance(cur, tuple) else None, new); fn = 'C_SetAttributeValue' if op == 'set' else 'C_CopyObject'
                cell = (kind, where, a, op, which)
                r = x.call(fn, s=t.s, o=obj, tmpl=x.T([(a, new)])); ok = r['rv'] == 0
                if op == 'copy' and copy_broken:
                    part.case(cell, nontrivial=False); part.count('copy_cells_not_judged')
                    if ok: x.call('C_DestroyObject', s=t.s, o=r['h'])
                    n0 = t.count(); continue
                part.case(cell, nontrivial=True, sample={'cell': cell, 'new': repr(new)[:40], 'rv': r['rvname'], 'must_refuse': why} if (why and len(part.samples) < 2) else None); part.count('cells_' + op)
                after = t.snap(obj); ch = diff(ref, after); cnt = t.count()
                inp = f'{g}/{where},{a}' + (',protected' if which == 'protected' else '')
                if why and ok: V(f'{fn}|{inp},{why}|accepted', f'{fn} accepted a template naming {a} ({why}) on a {kind} {where} object', {'attr': a, 'cur': repr(cur)[:60], 'new': repr(new)[:60], 'changed': ch})
                if why and op == 'set' and which == 'plain' and a not in forbidden and a != 'CKA_TRUSTED': forbidden.append(a)
                if not ok:
                    part.count('refused')
                    if ch: V(f'{fn}|{inp},single-attribute|rejected-but-changed', f'{fn} failed with {r["rvname"]} but the object changed: {ch}', {'attr': a, 'changed': ch, 'rv': r['rvname']})
                    if cnt != n0: V(f'{fn}|{inp}|rejected-but-object-count-changed', f'{fn} failed but the number of objects went from {n0} to {cnt}', {'attr': a, 'rv': r['rvname']})
                else:
                    part.count('accepted'); opaque = a in ARRAYS or a == 'CKA_ALLOWED_MECHANISMS'
                    got = after if op == 'set' else t.snap(r['h'])
                    exp = dict(ref); exp[a] = got.get(a) if opaque else new
                    hidden = K.SECRET_ATTRS if (got.get('CKA_SENSITIVE') is True or got.get('CKA_EXTRACTABLE') is False) else ()      # protected now: secret values are no longer revealed (C02)
                    bad = [k for k in diff(exp, got) if k not in hidden]
                    if op == 'copy' and ch: V(f'{fn}|{inp}|source-changed', f'{fn} changed its source object: {ch}', {'attr': a, 'changed': ch})
                    if bad and not why:
                        V(f'{fn}|{inp}|{"accepted-but-other-attributes-changed" if op == "set" else "copy-differs-beyond-template"}', f'{fn}([{a}]) succeeded but {"the object" if op == "set" else "the copy"} differs from the expectation in {bad}',
                          {'attr': a, 'new': repr(new)[:60], 'unexpected': bad, 'got': {k: repr(got.get(k))[:40] for k in bad}, 'expected': {k: repr(exp.get(k))[:40] for k in bad}})
                    if op == 'copy': x.call('C_DestroyObject', s=t.s, o=r['h'])
                    else:       # restore the state by recreating the object
                        x.call('C_DestroyObject', s=t.s, o=obj); H[which] = fresh(PROT if which == 'protected' else None)
                        if H[which] is None: part.inconc(f'cannot recreate {kind}'); return
                        REF[which] = t.snap(H[which])
                n0 = t.count()
        for h in H.values(): x.call('C_DestroyObject', s=t.s, o=h)
        base = REF['plain']
        # mixed templates: the forbidden attribute at every position among allowed ones
        allowed = [('CKA_LABEL', b'new-label')] + ([('CKA_ID', b'new-id')] if 'CKA_ID' in base and g != 'data' else [])
        o = fresh()
        if o is None: continue
        base = t.snap(o); n0 = t.count()
        for a in forbidden:
            new = other_value(ck, a, base.get(a))
            for pos in range(len(allowed) + 1):
                tm = list(allowed); tm.insert(pos, (a, new)); posname = 'first' if pos == 0 else ('last' if pos == len(allowed) else 'middle')
                for op, fn in (('set', 'C_SetAttributeValue'), ('copy', 'C_CopyObject')):
                    if op == 'copy' and (copy_broken or policy(g, a, 'copy', base.get(a), new) is None): continue
                    r = x.call(fn, s=t.s, o=o, tmpl=x.T(tm)); ok = r['rv'] == 0; cell = (kind, where, a, op, 'mixed@' + posname); part.case(cell, nontrivial=True); part.count('cells_mixed')
                    after = t.snap(o); ch = diff(base, after); cnt = t.count(); inp = f'{g}/{where},{a},mixed@{posname}'
                    if ok:
                        V(f'{fn}|{inp}|accepted', f'{fn} accepted a template with the read-only {a} at position {posname}', {'attr': a, 'template': [n for n, _ in tm], 'changed': ch})
                        if op == 'copy': x.call('C_DestroyObject', s=t.s, o=r['h'])
                    elif ch:
                        if on_token: V(f'{fn}|{inp}|rejected-but-changed', f'{fn} failed with {r["rvname"]} but applied part of the template to a token object: {ch}', {'attr': a, 'template': [n for n, _ in tm], 'changed': ch})
                        else: part.observe('C09 territory: rejected template applied its prefix to a SESSION object (known C09 defect, not judged here)', {'kind': kind, 'attr': a, 'pos': posname, 'changed': ch})
                    if not ok and cnt != n0: V(f'{fn}|{inp}|rejected-but-object-count-changed', f'{fn} failed but the object count went {n0}->{cnt}', {'attr': a})
                    if ch:
                        x.call('C_DestroyObject', s=t.s, o=o); o = fresh()
                        if o is None: part.inconc(f'cannot recreate {kind}'); return
                        base = t.snap(o)
                    n0 = t.count()
        x.call('C_DestroyObject', s=t.s, o=o)
        gates(t, job, part, on_token, V)
        raw_bools(t, job, part, on_token, V)
    supplied(t, job, part, V)
    if g in ('cert', 'public', 'secret'): trusted(t, job, part, V)
    other_roles(t, job, part, V)

def gates(t, job, part, on_token, V):
    ck = t.ck; x = t.x; kind = job['kind']; g = group(kind); where = 'token' if on_token else 'session'
    mods = [('CKA_LABEL', b'changed')] + {'data': [], 'domain': [], 'cert': [('CKA_ID', b'zz'), ('CKA_ISSUER', b'zz'), ('CKA_SERIAL_NUMBER', b'\x02\x01\x09')]}.get(g, [('CKA_ID', b'zz'), ('CKA_DERIVE', False), ('CKA_START_DATE', b'20260101')])
    if g in ('private', 'secret'): mods += [('CKA_SENSITIVE', True), ('CKA_EXTRACTABLE', False)]
    if g == 'secret': mods += [('CKA_ENCRYPT', False), ('CKA_WRAP', False)]
    if g == 'public': mods += [('CKA_VERIFY', False), ('CKA_SUBJECT', b'0\x00')]
    if g == 'private': mods += [('CKA_SIGN', False), ('CKA_SUBJECT', b'0\x00')]
    # positive control: the same modifications work on a modifiable object
    pc = t.mk(kind, token=on_token); live = set()
    if pc is None: part.inconc(f'cannot create {kind}'); return
    for a, v in mods:
        if x.call('C_SetAttributeValue', s=t.s, o=pc, tmpl=x.T([(a, v)]))['rv'] == 0: live.add(a)
    x.call('C_DestroyObject', s=t.s, o=pc)
    # CKA_MODIFIABLE false
    o = t.mk(kind, token=on_token, extra={'CKA_MODIFIABLE': False})
    if o is None: part.observe('cannot create an object with CKA_MODIFIABLE=false', {'kind': kind})
    else:
        base = t.snap(o)
        for tm in [[m] for m in mods] + [mods[:2], mods[::-1][:3]]:
            r = x.call('C_SetAttributeValue', s=t.s, o=o, tmpl=x.T(tm)); after = t.snap(o); ch = diff(base, after); names = '+'.join(n for n, _ in tm) if len(tm) == 1 else 'several'
            part.case((kind, where, 'modifiable=false', tuple(n for n, _ in tm)), nontrivial=all(n in live for n, _ in tm)); part.count('cells_gate')
            if r['rv'] == 0 or ch:
                V(f'C_SetAttributeValue|{g}/{where},CKA_MODIFIABLE=false,{names}|{"accepted" if r["rv"] == 0 else "rejected-but-changed"}', f'an object with CKA_MODIFIABLE false was changed ({ch}) by C_SetAttributeValue -> {r["rvname"]}', {'template': [n for n, _ in tm], 'changed': ch})
                base = after
        x.call('C_DestroyObject', s=t.s, o=o)
    # CKA_COPYABLE false
    o = t.mk(kind, token=on_token, extra={'CKA_COPYABLE': False})
    if o is None: part.observe('cannot create an object with CKA_COPYABLE=false', {'kind': kind})
    else:
        n0 = t.count()
        for tm in ([], [('CKA_LABEL', b'cp')], [('CKA_COPYABLE', True)], [('CKA_TOKEN', not on_token)]):
            r = x.call('C_CopyObject', s=t.s, o=o, tmpl=x.T(tm)); n1 = t.count(); part.case((kind, where, 'copyable=false', tuple(n for n, _ in tm)), nontrivial=True); part.count('cells_gate')
            if r['rv'] == 0 or n1 != n0:
                V(f'C_CopyObject|{g}/{where},CKA_COPYABLE=false,{"+".join(n for n, _ in tm) or "empty-template"}|{"copied" if r["rv"] == 0 else "rejected-but-object-appeared"}', f'an object with CKA_COPYABLE false was copied ({r["rvname"]}, objects {n0}->{n1})', {'template': [n for n, _ in tm]})
                if r['rv'] == 0: x.call('C_DestroyObject', s=t.s, o=r['h'])
                n0 = t.count()
        r = x.call('C_SetAttributeValue', s=t.s, o=o, tmpl=x.T([('CKA_COPYABLE', True)])); part.case((kind, where, 'copyable false->true', 'set'), nontrivial=True)
        if r['rv'] == 0: V(f'C_SetAttributeValue|{g}/{where},CKA_COPYABLE,one-way|accepted', 'CKA_COPYABLE went from false back to true', {})
        x.call('C_DestroyObject', s=t.s, o=o)
    o = t.mk(kind, token=on_token)
    # private -> public
    if o is not None and t.snap(o).get('CKA_PRIVATE') is False:
        x.call('C_DestroyObject', s=t.s, o=o); o = t.mk(kind, token=on_token, private=True)
    if o is not None:
        for tm in ([('CKA_PRIVATE', False)], [('CKA_LABEL', b'p'), ('CKA_PRIVATE', False)], [('CKA_PRIVATE', False), ('CKA_TOKEN', not on_token)], [('CKA_PRIVATE', True), ('CKA_PRIVATE', False)], [('CKA_PRIVATE', b'\x00\x00')], [('CKA_PRIVATE', b'')]):      # (the last two: a false that the pre-check of C_CopyObject does not recognise)
            r = x.call('C_CopyObject', s=t.s, o=o, tmpl=x.T(tm)); part.case((kind, where, 'private->public', tuple(n for n, _ in tm)), nontrivial=True); part.count('cells_gate')
            if r['rv'] == 0:
                pv = t.snap(r['h']).get('CKA_PRIVATE')
                if pv is not True: V(f'C_CopyObject|{g}/{where},private-source,{"+".join(n for n, _ in tm)}|public-copy', 'a private object was copied into a public one', {'template': [n for n, _ in tm], 'CKA_PRIVATE of the copy': pv})
                x.call('C_DestroyObject', s=t.s, o=r['h'])
        x.call('C_DestroyObject', s=t.s, o=o)
    # CKA_DESTROYABLE false (token objects of this kind then stay in the scratch token: harmless)
    o = t.mk(kind, token=on_token, extra={'CKA_DESTROYABLE': False})
    if o is None: part.observe('cannot create an object with CKA_DESTROYABLE=false', {'kind': kind})
    else:
        n0 = t.count(); base = t.snap(o); r = x.call('C_DestroyObject', s=t.s, o=o); n1 = t.count(); after = t.snap(o)
        part.case((kind, where, 'destroyable=false', 'destroy'), nontrivial=True); part.count('cells_gate')
        if r['rv'] == 0 or n1 != n0 or after != base: V(f'C_DestroyObject|{g}/{where},CKA_DESTROYABLE=false|{"destroyed" if r["rv"] == 0 else "rejected-but-damaged"}', f'an object with CKA_DESTROYABLE false was destroyed or damaged ({r["rvname"]}, objects {n0}->{n1})', {})
        r = x.call('C_SetAttributeValue', s=t.s, o=o, tmpl=x.T([('CKA_DESTROYABLE', True)]))
        if r['rv'] == 0: part.observe('CKA_DESTROYABLE false -> true accepted by C_SetAttributeValue (v2.40 gives the attribute no footnote; not judged)', {'kind': kind})
    pc = t.mk(kind, token=on_token)
    if pc is None or x.call('C_DestroyObject', s=t.s, o=pc)['rv'] != 0: part.observe('positive control refused: C_DestroyObject', {'kind': kind})

def other_roles(t, job, part, V):
    """the object-level gates and the one-way flags do not depend on WHO is logged in: public objects prepared by the user are attacked from the SO session and
    from a public session (the SO administers the token, PKCS#11 gives it no right to undo an object's policy); judged by effect, seen again by the user"""
    ck = t.ck; x = t.x; kind = job['kind']; g = group(kind)
    for on_token in (True, False):
        where = 'token' if on_token else 'session'
        if not t.login('user'): part.inconc('login failed'); return
        mk = lambda extra: t.mk(kind, token=on_token, private=False, extra=extra)
        O = {'modifiable=false': mk({'CKA_MODIFIABLE': False}), 'copyable=false': mk({'CKA_COPYABLE': False}), 'destroyable=false': mk({'CKA_DESTROYABLE': False})}
        if g in ('private', 'secret'): O['protected'] = mk({'CKA_SENSITIVE': True, 'CKA_EXTRACTABLE': False, 'CKA_WRAP_WITH_TRUSTED': True})
        O = {k: h for k, h in O.items() if h is not None}; REF = {k: t.snap(h) for k, h in O.items()}; n_ref = t.count()
        for who in ('so', 'public'):
            if who == 'public' and on_token: pass      # a public R/W session may write public token objects
            if not t.login(who): part.inconc(f'{who} login failed'); continue
            att = []
            if 'modifiable=false' in O: att += [('modifiable=false', 'C_SetAttributeValue', dict(o=O['modifiable=false'], tmpl=x.T([('CKA_LABEL', b'changed-by-' + who.encode())]))), ('modifiable=false', 'C_SetAttributeValue', dict(o=O['modifiable=false'], tmpl=x.T([('CKA_MODIFIABLE', True)])))]
            if 'copyable=false' in O: att += [('copyable=false', 'C_CopyObject', dict(o=O['copyable=false'], tmpl=[])), ('copyable=false', 'C_CopyObject', dict(o=O['copyable=false'], tmpl=x.T([('CKA_COPYABLE', True)]))), ('copyable=false', 'C_SetAttributeValue', dict(o=O['copyable=false'], tmpl=x.T([('CKA_COPYABLE', True)])))]
            if 'protected' in O:
                for a, v in (('CKA_SENSITIVE', False), ('CKA_EXTRACTABLE', True), ('CKA_WRAP_WITH_TRUSTED', False)):
                    att += [('protected', 'C_SetAttributeValue', dict(o=O['protected'], tmpl=x.T([(a, v)]))), ('protected', 'C_SetAttributeValue', dict(o=O['protected'], tmpl=x.T([('CKA_LABEL', b'l'), (a, v)]))), ('protected', 'C_CopyObject', dict(o=O['protected'], tmpl=x.T([(a, v)])))]
            if 'destroyable=false' in O: att += [('destroyable=false', 'C_DestroyObject', dict(o=O['destroyable=false']))]
            for what, fn, kw in att:
                r = x.call(fn, s=t.s, **kw); names = '+'.join(ck.ATTR.get(e['t'], hex(e['t'])) for e in kw.get('tmpl', [])) or ('empty-template' if fn == 'C_CopyObject' else '-')
                part.case((kind, where, 'other-role', who, what, fn, names), nontrivial=True); part.count('cells_other_roles')
                now = t.snap(O[what]); bad = None
                if fn == 'C_CopyObject' and r['rv'] == 0:
                    cp = t.snap(r['h'])
                    if what == 'copyable=false': bad = 'copied'
                    else:
                        weaker = [a for a, v in (('CKA_SENSITIVE', True), ('CKA_EXTRACTABLE', False), ('CKA_WRAP_WITH_TRUSTED', True)) if cp.get(a) is not v]
                        if weaker: bad = 'copy-less-protected(' + '+'.join(weaker) + ')'
                    x.call('C_DestroyObject', s=t.s, o=r['h'])
                elif fn == 'C_DestroyObject' and (r['rv'] == 0 or not now): bad = 'destroyed'
                elif fn == 'C_SetAttributeValue' and (r['rv'] == 0 or diff(REF[what], now)):
                    ch = diff(REF[what], now)
                    if ch or what != 'copyable=false': bad = 'accepted' if r['rv'] == 0 else 'rejected-but-changed'
                    if what == 'protected' and r['rv'] == 0 and not ch: bad = None; part.observe('a template that would weaken a one-way flag was accepted but changed nothing', {'kind': kind, 'who': who, 'template': names})
                    if what == 'modifiable=false' and r['rv'] == 0 and not ch: bad = 'accepted'
                    if r['rv'] != 0 and ch == ['CKA_LABEL'] and not on_token and what == 'protected': bad = None; part.observe('rejected template changed a SESSION object (prefix applied: the known C09 defect, SessionObject::abortTransaction); not judged here', {'kind': kind, 'who': who}); REF[what] = now
                if bad: V(f'{fn}|{g}/{where},{what},as={who},{names}|{bad}', f'{fn} by the {who} session on a public object with {what}: {bad} ({r["rvname"]})', {'who': who, 'template': names, 'changed': diff(REF[what], now)})
                if bad and now: REF[what] = now
        t.login('user')
        for k, h in O.items():
            if not t.snap(h) and not (k == 'destroyable=false'): part.observe('object prepared for the other-roles lane is gone', {'kind': kind, 'what': k})
            x.call('C_DestroyObject', s=t.s, o=h)

BYTES = (0x00, 0x01, 0x02, 0x80, 0xFF)          # CK_BBOOL as raw bytes: canonical false/true and three non-canonical "true"s
def bclass(b): return 'canonical' if b in (0, 1) else 'non-canonical'
def raw_bools(t, job, part, on_token, V):
    """every attribute with a forbidden direction x raw CK_BBOOL byte x {set, copy}: judged by EFFECT only (the attribute still reads in its protected state and the gate it
    controls still holds); whether a non-canonical byte is rejected or normalised is the token's choice"""
    ck = t.ck; x = t.x; kind = job['kind']; g = group(kind); where = 'token' if on_token else 'session'
    # (attribute, how to make the object, protected value, operations, groups)
    cases = [('CKA_COPYABLE', dict(extra={'CKA_COPYABLE': False}), False, ('set',), None),
             ('CKA_MODIFIABLE', dict(extra={'CKA_MODIFIABLE': False}), False, ('set',), None),
             ('CKA_PRIVATE', dict(private=True), True, ('set', 'copy'), None),
             ('CKA_TRUSTED', dict(private=False), False, ('set', 'copy'), ('cert', 'public', 'secret')),
             ('CKA_SENSITIVE', dict(extra={'CKA_SENSITIVE': True}), True, ('set', 'copy'), ('private', 'secret')),
             ('CKA_EXTRACTABLE', dict(extra={'CKA_EXTRACTABLE': False}), False, ('set', 'copy'), ('private', 'secret')),
             ('CKA_WRAP_WITH_TRUSTED', dict(extra={'CKA_WRAP_WITH_TRUSTED': True}), True, ('set', 'copy'), ('private', 'secret'))]
    for attr, how, prot, ops, groups in cases:
        if groups and g not in groups: continue
        o = t.mk(kind, token=on_token, **how)
        if o is None: part.observe('cannot create the object for a raw-byte cell', {'kind': kind, 'attr': attr}); continue
        if t.snap(o).get(attr) is not prot: x.call('C_DestroyObject', s=t.s, o=o); continue
        for b in BYTES:
            for op in ops:
                fn = 'C_SetAttributeValue' if op == 'set' else 'C_CopyObject'
                for tm, shape in (([(attr, {'bool': b})], 'alone'), ([('CKA_LABEL', b'rb'), (attr, {'bool': b})], 'after-label')):
                    r = x.call(fn, s=t.s, o=o, tmpl=x.T(tm)); tgt = o if op == 'set' else (r['h'] if r['rv'] == 0 else None)
                    part.case((kind, where, attr, op, 'raw-byte', hex(b), shape), nontrivial=True); part.count('cells_raw_bool')
                    if tgt is None: continue
                    a = t.snap(tgt); inp = f'{g}/{where},{attr}:=byte-{bclass(b)}'; wit = {'attr': attr, 'byte': hex(b), 'template': [n for n, _ in tm], 'rv': r['rvname'], 'reads': repr(a.get(attr))}
                    if op == 'copy' and 'CKA_LABEL' in a and diff({k: v for k, v in t.snap(o).items() if k in ('CKA_KEY_TYPE', 'CKA_CERTIFICATE_TYPE', 'CKA_VALUE_LEN', 'CKA_MODULUS', 'CKA_PRIME', 'CKA_EC_PARAMS', 'CKA_SUBJECT')},
                                                                  {k: v for k, v in a.items() if k in ('CKA_KEY_TYPE', 'CKA_CERTIFICATE_TYPE', 'CKA_VALUE_LEN', 'CKA_MODULUS', 'CKA_PRIME', 'CKA_EC_PARAMS', 'CKA_SUBJECT')}):
                        x.call('C_DestroyObject', s=t.s, o=tgt); part.count('copy_cells_not_judged'); continue       # empty-shell copy of the db back-end (known finding): nothing to judge
                    lost = a.get(attr) is not prot
                    if lost: V(f'{fn}|{inp}|protection-removed', f'after {fn} with {attr} = byte {hex(b)} the attribute reads {a.get(attr)!r} (it was {prot!r}, the forbidden direction)', wit)
                    # the gate the attribute controls must still hold
                    if attr == 'CKA_COPYABLE':
                        c = x.call('C_CopyObject', s=t.s, o=tgt, tmpl=[])
                        if c['rv'] == 0: lost = True; V(f'{fn}|{inp},then-C_CopyObject|copied', 'a non-copyable object can be copied after the attempt', wit); x.call('C_DestroyObject', s=t.s, o=c['h'])
                    if attr == 'CKA_MODIFIABLE':
                        c = x.call('C_SetAttributeValue', s=t.s, o=tgt, tmpl=x.T([('CKA_LABEL', b'modified')]))
                        if c['rv'] == 0: lost = True; V(f'{fn}|{inp},then-C_SetAttributeValue|modified', 'a non-modifiable object can be modified after the attempt', wit)
                    if op == 'copy': x.call('C_DestroyObject', s=t.s, o=tgt)
                    elif lost:
                        x.call('C_DestroyObject', s=t.s, o=o); o = t.mk(kind, token=on_token, **how)
                        if o is None: break
            if o is None: break
        if o is not None and x.call('C_DestroyObject', s=t.s, o=o)['rv'] != 0: pass

def hist_values(ck): return {'CKA_LOCAL': (True, False), 'CKA_ALWAYS_SENSITIVE': (True, False), 'CKA_NEVER_EXTRACTABLE': (True, False), 'CKA_KEY_GEN_MECHANISM': (ck.CKM_AES_KEY_GEN, UNAVAIL)}
def place(tmpl, pair, pos):
    t = list(tmpl); t.insert({'first': 0, 'middle': len(t) // 2, 'last': len(t)}[pos], pair); return t

def supplied(t, job, part, V):
    """caller-supplied history attributes in every kind of template"""
    ck = t.ck; x = t.x; kind = job['kind']; g = group(kind); hv = hist_values(ck)
    if g in ('data', 'cert'): return
    defined = [a for a in HIST if a in ('CKA_LOCAL', 'CKA_KEY_GEN_MECHANISM') or g in ('private', 'secret')]
    if g == 'domain': defined = ['CKA_LOCAL']
    def judge(fn, op, a, v, pos, r, n0, handles=()):
        part.case((kind, a, op, str(v), pos), nontrivial=True); part.count('cells_supplied'); n1 = t.count()
        if r['rv'] == 0:
            V(f'{fn}|{g},{op},{a}@{pos}|accepted', f'{fn} accepted a caller-supplied {a} ({op})', {'attr': a, 'value': v, 'pos': pos})
            for h in handles:
                if h: x.call('C_DestroyObject', s=t.s, o=h)
        elif n1 != n0: V(f'{fn}|{g},{op},{a}@{pos}|rejected-but-object-appeared', f'{fn} refused the template but the object count went {n0}->{n1}', {'attr': a, 'value': v, 'pos': pos})
    base_t = obj_template(ck, kind, False)
    # positive controls of the operations used below are established by engine 4 (histories) and by table(); here: must refuse
    for a in defined:
        for v in hv[a]:
            for pos in ('first', 'middle', 'last'):
                n0 = t.count()
                r = t.create(place(base_t, (a, v), pos)); judge('C_CreateObject', 'create', a, v, pos, r, n0, (r.get('h'),))
                o = t.mk(kind)
                if o is not None:
                    n0 = t.count(); mix = [('CKA_LABEL', b'l2')] + ([('CKA_ID', b'i2')] if g != 'domain' else [])
                    r = x.call('C_SetAttributeValue', s=t.s, o=o, tmpl=x.T(place(mix, (a, v), pos))); judge('C_SetAttributeValue', 'set', a, v, pos, r, n0)
                    r = x.call('C_CopyObject', s=t.s, o=o, tmpl=x.T(place(mix, (a, v), pos))); judge('C_CopyObject', 'copy', a, v, pos, r, n0, (r.get('h'),))
                    x.call('C_DestroyObject', s=t.s, o=o)
    # generate / unwrap / derive produce this kind?
    gen = {'AES16': 'CKM_AES_KEY_GEN', 'DES3': 'CKM_DES3_KEY_GEN', 'GEN64': 'CKM_GENERIC_SECRET_KEY_GEN', 'RSApriv': 'CKM_RSA_PKCS_KEY_PAIR_GEN', 'DSApriv': 'CKM_DSA_KEY_PAIR_GEN', 'DHpriv': 'CKM_DH_PKCS_KEY_PAIR_GEN',
           'ECpriv': 'CKM_EC_KEY_PAIR_GEN', 'EDpriv': 'CKM_EC_EDWARDS_KEY_PAIR_GEN', 'RSApub': 'CKM_RSA_PKCS_KEY_PAIR_GEN', 'DSApub': 'CKM_DSA_KEY_PAIR_GEN', 'DHpub': 'CKM_DH_PKCS_KEY_PAIR_GEN', 'ECpub': 'CKM_EC_KEY_PAIR_GEN',
           'EDpub': 'CKM_EC_EDWARDS_KEY_PAIR_GEN', 'DSAPARAMS': 'CKM_DSA_PARAMETER_GEN', 'DHPARAMS': 'CKM_DH_PKCS_PARAMETER_GEN'}.get(kind)
    if gen and not (gen == 'CKM_RSA_PKCS_KEY_PAIR_GEN' and job['quick'] and kind == 'RSApub'):
        for a in defined:
            for v in hv[a]:
                for pos in (('first', 'last') if gen.endswith('PARAMETER_GEN') or gen.startswith('CKM_RSA') else ('first', 'middle', 'last')):
                    fn, kw = MT.genkey_request(x, ck, gen); n0 = t.count()
                    if fn == 'C_GenerateKey': kw['tmpl'] = place(kw['tmpl'], x.A(a, v), pos)
                    elif g == 'public': kw['pub'] = place(kw['pub'], x.A(a, v), pos)
                    else: kw['priv'] = place(kw['priv'], x.A(a, v), pos)
                    r = x.call(fn, s=t.s, **kw); judge(fn, 'generate', a, v, pos, r, n0, (r.get('h'), r.get('hpub'), r.get('hpriv')))
    if g in ('secret', 'private') and kind not in ('HSHA256',):
        wk = t.mk('AES32'); src = t.mk(kind)
        w = x.call('C_WrapKey', s=t.s, mech=x.M('CKM_AES_KEY_WRAP_PAD'), wkey=wk, key=src, buf=4096)
        if w['rv'] != 0: part.observe('cannot wrap for the unwrap cells', {'kind': kind, 'rv': w['rvname']})
        else:
            ut = [('CKA_CLASS', ck.CKO_SECRET_KEY if g == 'secret' else ck.CKO_PRIVATE_KEY), ('CKA_KEY_TYPE', ck[K.ktype(kind)]), ('CKA_TOKEN', False), ('CKA_PRIVATE', True), ('CKA_SENSITIVE', False), ('CKA_EXTRACTABLE', True), ('CKA_LABEL', b'uw')]
            r = x.call('C_UnwrapKey', s=t.s, mech=x.M('CKM_AES_KEY_WRAP_PAD'), ukey=wk, wrapped=w['out']['data'], tmpl=x.T(ut))
            if r['rv'] != 0: part.observe('positive control refused: C_UnwrapKey', {'kind': kind, 'rv': r['rvname']})
            else:
                x.call('C_DestroyObject', s=t.s, o=r['h'])
                for a in defined:
                    for v in hv[a]:
                        for pos in ('first', 'middle', 'last'):
                            n0 = t.count(); r = x.call('C_UnwrapKey', s=t.s, mech=x.M('CKM_AES_KEY_WRAP_PAD'), ukey=wk, wrapped=w['out']['data'], tmpl=x.T(place(ut, (a, v), pos))); judge('C_UnwrapKey', 'unwrap', a, v, pos, r, n0, (r.get('h'),))
        for h in (wk, src):
            if h: x.call('C_DestroyObject', s=t.s, o=h)
    if kind == 'GEN64':       # derived keys are secret keys: every derivation mechanism, generic-secret result
        bases = {'CKM_DH_PKCS_DERIVE': 'DHpriv', 'CKM_ECDH1_DERIVE': 'ECpriv', 'CKM_AES_ECB_ENCRYPT_DATA': 'AES16', 'CKM_AES_CBC_ENCRYPT_DATA': 'AES16', 'CKM_DES3_ECB_ENCRYPT_DATA': 'DES3', 'CKM_DES3_CBC_ENCRYPT_DATA': 'DES3',
                 'CKM_CONCATENATE_BASE_AND_KEY': 'GEN16', 'CKM_CONCATENATE_BASE_AND_DATA': 'GEN16', 'CKM_CONCATENATE_DATA_AND_BASE': 'AES16'}
        other = t.mk('GEN16')
        for mech, bk in bases.items():
            b = t.mk(bk); m = MT.params(x, ck, mech, bk, other)
            r = x.call('C_DeriveKey', s=t.s, mech=m, key=b, tmpl=MT.derive_template(x, ck, mech))
            if r['rv'] != 0: part.observe('positive control refused: C_DeriveKey', {'mech': mech, 'rv': r['rvname']}); continue
            x.call('C_DestroyObject', s=t.s, o=r['h'])
            for a in HIST:
                for v in hv[a]:
                    for pos in ('first', 'last'):
                        tm = MT.derive_template(x, ck, mech); tm = place(tm, x.A(a, v), pos); n0 = t.count()
                        r = x.call('C_DeriveKey', s=t.s, mech=m, key=b, tmpl=tm); part.case((mech, a, 'derive', str(v), pos), nontrivial=True); part.count('cells_supplied'); n1 = t.count()
                        if r['rv'] == 0:
                            part.violation(f'C_DeriveKey|{mech},{a}@{pos}|accepted', f'C_DeriveKey({mech}) accepted a caller-supplied {a}', {'attr': a, 'value': v, 'read_back': {k: repr(w) for k, w in t.snap(r['h']).items() if k in HIST}}); x.call('C_DestroyObject', s=t.s, o=r['h'])
                        elif n1 != n0: part.violation(f'C_DeriveKey|{mech},{a}@{pos}|rejected-but-object-appeared', 'C_DeriveKey refused the template but an object appeared', {'attr': a})
            x.call('C_DestroyObject', s=t.s, o=b)

def trusted(t, job, part, V):
    """CKA_TRUSTED becomes true only through the SO"""
    ck = t.ck; x = t.x; kind = job['kind']; g = group(kind)
    pub_t = obj_template(ck, kind, True, private=False)
    def attempt(who, op, fn, r, handles=()):
        part.case((kind, 'CKA_TRUSTED', op, who), nontrivial=True); part.count('cells_trusted')
        if r['rv'] == 0:
            tv = [t.snap(h).get('CKA_TRUSTED') for h in handles if h]
            if any(v is True for v in tv) or not handles: V(f'{fn}|{g},CKA_TRUSTED=true,{op},as={who}|accepted', f'{fn} set CKA_TRUSTED true without the SO ({who}, {op})', {'who': who, 'op': op})
            else: part.observe('template with CKA_TRUSTED=true accepted without the SO but the attribute reads false', {'kind': kind, 'op': op, 'who': who})
            for h in handles:
                if h: x.call('C_DestroyObject', s=t.s, o=h)
    for who in ('user', 'public'):
        if not t.login(who): part.inconc('login failed'); return
        r = t.create(pub_t + [('CKA_TRUSTED', True)]); attempt(who, 'create', 'C_CreateObject', r, (r.get('h'),))
        r = t.create([('CKA_TRUSTED', True)] + pub_t); attempt(who, 'create-first', 'C_CreateObject', r, (r.get('h'),))
        o = t.create(pub_t)
        if o['rv'] == 0:
            r = x.call('C_SetAttributeValue', s=t.s, o=o['h'], tmpl=x.T([('CKA_TRUSTED', True)]))
            part.case((kind, 'CKA_TRUSTED', 'set', who), nontrivial=True)
            if r['rv'] == 0 or t.snap(o['h']).get('CKA_TRUSTED') is True: V(f'C_SetAttributeValue|{g},CKA_TRUSTED=true,set,as={who}|accepted', 'C_SetAttributeValue set CKA_TRUSTED true without the SO', {'who': who})
            r = x.call('C_SetAttributeValue', s=t.s, o=o['h'], tmpl=x.T([('CKA_LABEL', b'x'), ('CKA_TRUSTED', True)]))
            if r['rv'] == 0 or t.snap(o['h']).get('CKA_TRUSTED') is True: V(f'C_SetAttributeValue|{g},CKA_TRUSTED=true,set-mixed,as={who}|accepted', 'C_SetAttributeValue set CKA_TRUSTED true without the SO', {'who': who})
            r = x.call('C_CopyObject', s=t.s, o=o['h'], tmpl=x.T([('CKA_TRUSTED', True)])); attempt(who, 'copy', 'C_CopyObject', r, (r.get('h'),))
            x.call('C_DestroyObject', s=t.s, o=o['h'])
        elif who == 'user': part.observe('positive control refused: public token object', {'kind': kind, 'rv': o['rvname']})
        if g == 'secret' and kind == 'AES16':
            fn, kw = MT.genkey_request(x, ck, 'CKM_AES_KEY_GEN', [('CKA_TRUSTED', True)]); r = x.call(fn, s=t.s, **kw); attempt(who, 'generate', fn, r, (r.get('h'),))
            b = t.mk('GEN16', private=False)
            if b:
                for mech in ('CKM_CONCATENATE_BASE_AND_DATA',):
                    r = x.call('C_DeriveKey', s=t.s, mech=MT.params(x, ck, mech), key=b, tmpl=MT.derive_template(x, ck, mech, [('CKA_TRUSTED', True)])); attempt(who, 'derive', 'C_DeriveKey', r, (r.get('h'),))
                x.call('C_DestroyObject', s=t.s, o=b)
    # the SO can (positive control); afterwards the user sees it and copying it is only observed
    if not t.login('so'): part.inconc('SO login failed'); t.login('user'); return
    r = t.create(pub_t + [('CKA_TRUSTED', True)])
    if r['rv'] != 0: part.observe('positive control refused: the SO cannot create a trusted object', {'kind': kind, 'rv': r['rvname']})
    else:
        part.count('trusted_created_by_so'); h = r['h']
        t.login('user'); part.case((kind, 'CKA_TRUSTED', 'create', 'so'), nontrivial=True)
        if t.snap(h).get('CKA_TRUSTED') is not True: part.observe('object created trusted by the SO does not read CKA_TRUSTED true', {'kind': kind})
        c = x.call('C_CopyObject', s=t.s, o=h, tmpl=x.T([('CKA_LABEL', b'copy-of-trusted')]))
        if c['rv'] == 0:
            if t.snap(c['h']).get('CKA_TRUSTED') is True: part.observe('a user copy of a trusted object is trusted (inherited, the user never SET it: not judged)', {'kind': kind})
            x.call('C_DestroyObject', s=t.s, o=c['h'])
        x.call('C_DestroyObject', s=t.s, o=h)
    t.login('user')

# ---------------------------------------------------------------- engine 4: histories
class KeyM:
    def __init__(s, h, origin, local, kgm, AS, NE, cls='secret', ktype='GEN', weak=(), note=''):
        s.h = h; s.origin = origin; s.local = local; s.kgm = kgm; s.AS = AS; s.NE = NE; s.cls = cls; s.ktype = ktype; s.weak = set(weak); s.note = note; s.shape = (origin,); s.okey = origin

ENCDATA = {'CKM_AES_ECB_ENCRYPT_DATA': 'CKK_AES', 'CKM_AES_CBC_ENCRYPT_DATA': 'CKK_AES', 'CKM_DES3_ECB_ENCRYPT_DATA': 'CKK_DES3', 'CKM_DES3_CBC_ENCRYPT_DATA': 'CKK_DES3'}
class Hist:
    """one history: a pool of keys with their provenance model; every step re-reads and compares the four history attributes"""
    def __init__(s, t, part, seed): s.t = t; s.x = t.x; s.ck = t.ck; s.part = part; s.seed = seed; s.pool = []; s.steps = []
    def rd(s, h): return s.t.snap(h)
    def wit(s, **kw): return dict(kw, seed=s.seed, steps=s.steps[-12:])
    def check(s, k, step):
        a = s.rd(k.h); part = s.part
        if 'CKA_CLASS' not in a: return
        sens, extr = a.get('CKA_SENSITIVE'), a.get('CKA_EXTRACTABLE'); part.count('history_checks')
        def bad(attr, exp, strong=True):
            key = f'history|{k.okey},{attr}|reads-{a.get(attr)}-expected-{exp}'
            if strong and attr not in k.weak: part.violation(key, f'{attr} of a key made by {" -> ".join(k.shape)} reads {a.get(attr)!r}, its history says {exp!r}', s.wit(key_origin=k.origin, note=k.note, attrs={n: repr(a.get(n)) for n in HIST + ('CKA_SENSITIVE', 'CKA_EXTRACTABLE')}))
            else: part.observe('history attribute differs from the generic rule where PKCS#11 v2.40 states none (not judged)', {'key': key})
        if a.get('CKA_LOCAL') is not k.local: bad('CKA_LOCAL', k.local)
        if k.kgm is not None and a.get('CKA_KEY_GEN_MECHANISM') != k.kgm:
            if k.origin.startswith(('generate', 'create', 'unwrap')) or k.kgm != UNAVAIL: bad('CKA_KEY_GEN_MECHANISM', k.kgm)
            else: part.observe('CKA_KEY_GEN_MECHANISM of a derived key is not CK_UNAVAILABLE_INFORMATION (v2.40 does not say: not judged)', {'shape': k.shape})
        if k.cls != 'public':
            # universal truths first: "always sensitive" while readable / "never extractable" while extractable is a lie whatever the origin
            if a.get('CKA_ALWAYS_SENSITIVE') is True and sens is False: part.violation(f'history|{k.okey},CKA_ALWAYS_SENSITIVE|true-on-non-sensitive-key', 'CKA_ALWAYS_SENSITIVE true on a key whose CKA_SENSITIVE is false', s.wit())
            if a.get('CKA_NEVER_EXTRACTABLE') is True and extr is True: part.violation(f'history|{k.okey},CKA_NEVER_EXTRACTABLE|true-on-extractable-key', 'CKA_NEVER_EXTRACTABLE true on a key whose CKA_EXTRACTABLE is true', s.wit())
            if k.AS is not None and a.get('CKA_ALWAYS_SENSITIVE') is not k.AS: bad('CKA_ALWAYS_SENSITIVE', k.AS)
            if k.NE is not None and a.get('CKA_NEVER_EXTRACTABLE') is not k.NE: bad('CKA_NEVER_EXTRACTABLE', k.NE)
        part.case(('history',) + k.shape[:6] + (step,), nontrivial=True)
    def add(s, k, step): s.pool.append(k); s.check(k, step); return k
    # ---- origins
    def generate(s, mech, s_, e_, private=True, shuffle=None):
        x = s.x; ck = s.ck
        tm = [('CKA_TOKEN', False), ('CKA_PRIVATE', private), ('CKA_SENSITIVE', s_), ('CKA_EXTRACTABLE', e_), ('CKA_DERIVE', True)] + ([('CKA_VALUE_LEN', 16)] if mech in ('CKM_AES_KEY_GEN', 'CKM_GENERIC_SECRET_KEY_GEN') else [])
        if shuffle: shuffle(tm)
        r = x.call('C_GenerateKey', s=s.t.s, mech=x.M(mech), tmpl=x.T(tm)); s.steps.append(('generate', mech, s_, e_, r['rvname']))
        if r['rv'] != 0: s.part.observe('positive control refused: C_GenerateKey', {'mech': mech, 'rv': r['rvname']}); return None
        return s.add(KeyM(r['h'], 'generate', True, ck[mech], s_, not e_, 'secret', mech), 'origin')
    def genpair(s, mech, s_, e_):
        x = s.x; ck = s.ck; fn, kw = MT.genkey_request(x, ck, mech); kw['priv'] = x.T([('CKA_TOKEN', False), ('CKA_PRIVATE', True), ('CKA_SENSITIVE', s_), ('CKA_EXTRACTABLE', e_), ('CKA_DERIVE', True)])
        r = x.call(fn, s=s.t.s, **kw); s.steps.append(('genpair', mech, s_, e_, r['rvname']))
        if r['rv'] != 0: s.part.observe('positive control refused: C_GenerateKeyPair', {'mech': mech, 'rv': r['rvname']}); return None
        s.add(KeyM(r['hpub'], 'generate-pub', True, ck[mech], None, None, 'public', mech), 'origin')
        return s.add(KeyM(r['hpriv'], 'generate', True, ck[mech], s_, not e_, 'private', mech), 'origin')
    def create(s, kind, s_, e_):
        pub = kind.endswith('pub'); h = s.t.mk(kind, private=not pub, extra=(None if pub else {'CKA_SENSITIVE': s_, 'CKA_EXTRACTABLE': e_})); s.steps.append(('create', kind, s_, e_))
        if h is None: return None
        return s.add(KeyM(h, 'create', False, UNAVAIL, None if pub else False, None if pub else False, K.kclass(kind), kind), 'origin')
    def unwrap(s, kind, s_, e_):
        x = s.x; ck = s.ck; t = s.t; wk = t.mk('AES32'); src = t.mk(kind, private=True)
        w = x.call('C_WrapKey', s=t.s, mech=x.M('CKM_AES_KEY_WRAP_PAD'), wkey=wk, key=src, buf=4096); s.steps.append(('unwrap', kind, s_, e_))
        if w['rv'] != 0: return None
        ut = [('CKA_CLASS', ck.CKO_SECRET_KEY if K.kclass(kind) == 'secret' else ck.CKO_PRIVATE_KEY), ('CKA_KEY_TYPE', ck[K.ktype(kind)]), ('CKA_TOKEN', False), ('CKA_PRIVATE', True), ('CKA_SENSITIVE', s_), ('CKA_EXTRACTABLE', e_), ('CKA_DERIVE', True)]
        r = x.call('C_UnwrapKey', s=t.s, mech=x.M('CKM_AES_KEY_WRAP_PAD'), ukey=wk, wrapped=w['out']['data'], tmpl=x.T(ut))
        for h in (wk, src): x.call('C_DestroyObject', s=t.s, o=h)
        if r['rv'] != 0: s.part.observe('positive control refused: C_UnwrapKey', {'kind': kind, 'rv': r['rvname']}); return None
        return s.add(KeyM(r['h'], 'unwrap', False, UNAVAIL, False, False, K.kclass(kind), kind), 'origin')
    # ---- steps
    def set(s, k, attr, v):
        r = s.x.call('C_SetAttributeValue', s=s.t.s, o=k.h, tmpl=s.x.T([(attr, v)])); s.steps.append(('set', attr, v, k.h, r['rvname']))
        if r['rv'] == 0: k.shape += (f'set:{attr.replace("CKA_", "")}={int(v)}',); s.part.count('hist_set_' + attr.replace('CKA_', ''))
        return r['rv'] == 0
    def copy(s, k, tm):
        r = s.x.call('C_CopyObject', s=s.t.s, o=k.h, tmpl=s.x.T(tm)); s.steps.append(('copy', k.h, [n for n, _ in tm], r['rvname']))
        if r['rv'] != 0: return None
        c = KeyM(r['h'], k.origin, k.local, k.kgm, k.AS, k.NE, k.cls, k.ktype, k.weak, k.note); c.shape = k.shape + ('copy' + ('+flags' if tm else ''),); c.okey = k.okey.replace('+copy', '') + '+copy'; s.part.count('hist_copy')
        return s.add(c, 'copy')
    def derive(s, k, mech, s_, e_, other=None, ktype='CKK_GENERIC_SECRET', private=True):
        x = s.x; ck = s.ck; a = s.rd(k.h)
        tm = [('CKA_CLASS', ck.CKO_SECRET_KEY), ('CKA_KEY_TYPE', ck[ktype]), ('CKA_TOKEN', False), ('CKA_PRIVATE', private), ('CKA_SENSITIVE', s_), ('CKA_EXTRACTABLE', e_), ('CKA_DERIVE', True)]
        if not mech.startswith('CKM_CONCATENATE') and ktype in ('CKK_GENERIC_SECRET', 'CKK_AES'): tm.append(('CKA_VALUE_LEN', 16))
        r = x.call('C_DeriveKey', s=s.t.s, mech=MT.params(x, ck, mech, 'ECpriv', other.h if other else None), key=k.h, tmpl=x.T(tm)); s.steps.append(('derive', mech, k.h, other.h if other else None, s_, e_, ktype, r['rvname']))
        if r['rv'] != 0: return None
        d = s.rd(r['h']); ds, de = d.get('CKA_SENSITIVE'), d.get('CKA_EXTRACTABLE'); bAS, bNE = a.get('CKA_ALWAYS_SENSITIVE'), a.get('CKA_NEVER_EXTRACTABLE'); weak = set()
        if mech == 'CKM_CONCATENATE_BASE_AND_KEY': oa = s.rd(other.h); AS = bool(bAS and oa.get('CKA_ALWAYS_SENSITIVE')); NE = bool(bNE and oa.get('CKA_NEVER_EXTRACTABLE'))
        elif mech.startswith('CKM_CONCATENATE'): AS = bool(bAS); NE = bool(bNE)
        else:
            # v2.40 DH / ECDH text: AS = base.AS and derived.SENSITIVE, NE = base.NE and not derived.EXTRACTABLE.  The *_ENCRYPT_DATA sections state no rule: there only the half that
            # "tell the truth about whether it was ever non-sensitive or extractable" forces is demanded -- material descending from a key that was once exposed (base.ALWAYS_SENSITIVE
            # false / base.NEVER_EXTRACTABLE false) cannot be "always sensitive" / "never extractable"; the other half (base true => follows the derived key's own flag) is only observed.
            AS = bool(bAS and ds); NE = bool(bNE and (de is False))
            if mech in ENCDATA:
                if bAS: weak.add('CKA_ALWAYS_SENSITIVE')
                if bNE: weak.add('CKA_NEVER_EXTRACTABLE')
        c = KeyM(r['h'], 'derive', False, UNAVAIL, AS, NE, 'secret', mech, weak, f'{mech} base AS={bAS} NE={bNE} derived S={ds} E={de}'); c.shape = k.shape + ('derive:' + mech.replace('CKM_', ''),)
        c.okey = 'derive:' + mech.replace('CKM_', '') + (',base=' + k.okey.split(':')[0].split('+')[0]); s.part.count('hist_derive_' + mech.replace('CKM_', ''))
        return s.add(c, 'derive')
    def recheck(s):
        for q in s.pool: s.check(q, 'recheck')
    def done(s):
        s.part.count('histories')
        for q in s.pool: s.x.call('C_DestroyObject', s=s.t.s, o=q.h)

def directed(t, job, part):
    """scripted flag histories for every derivation mechanism: a base key born exposed, protected LATER, then derive with protected flags, then derive again from the derived key"""
    n = 0
    for mech in list(ENCDATA) + ['CKM_CONCATENATE_BASE_AND_DATA', 'CKM_CONCATENATE_DATA_AND_BASE', 'CKM_CONCATENATE_BASE_AND_KEY', 'CKM_DH_PKCS_DERIVE', 'CKM_ECDH1_DERIVE']:
        for born in ((False, True), (True, True), (False, False), (True, False)):           # flags at birth
            for via_copy in (False, True):
                n += 1; h = Hist(t, part, -n); s0, e0 = born
                if mech in ENCDATA: gm = 'CKM_AES_KEY_GEN' if ENCDATA[mech] == 'CKK_AES' else 'CKM_DES3_KEY_GEN'; k = h.generate(gm, s0, e0); kt = ENCDATA[mech]
                elif mech.startswith('CKM_CONCATENATE'): k = h.generate('CKM_GENERIC_SECRET_KEY_GEN', s0, e0); kt = 'CKK_GENERIC_SECRET'
                else: k = h.genpair('CKM_DH_PKCS_KEY_PAIR_GEN' if mech == 'CKM_DH_PKCS_DERIVE' else 'CKM_EC_KEY_PAIR_GEN', s0, e0); kt = 'CKK_AES'
                if k is None: h.done(); continue
                other = h.generate('CKM_GENERIC_SECRET_KEY_GEN', True, False) if mech == 'CKM_CONCATENATE_BASE_AND_KEY' else None     # the other key was always protected: only the base's past matters
                if via_copy: k = h.copy(k, ([('CKA_SENSITIVE', True)] if not s0 else []) + ([('CKA_EXTRACTABLE', False)] if e0 else [])) or k
                else:
                    if not s0: h.set(k, 'CKA_SENSITIVE', True)
                    if e0: h.set(k, 'CKA_EXTRACTABLE', False)
                h.recheck()
                d = h.derive(k, mech, True, False, other, kt)                        # asks for a fully protected result
                if d is not None:
                    nxt = {'CKK_AES': 'CKM_AES_ECB_ENCRYPT_DATA', 'CKK_DES3': 'CKM_DES3_CBC_ENCRYPT_DATA'}.get(kt, 'CKM_CONCATENATE_DATA_AND_BASE')
                    d2 = h.derive(d, nxt, True, False, None, 'CKK_GENERIC_SECRET'); h.copy(d2 or d, [])
                    h.derive(d, 'CKM_CONCATENATE_BASE_AND_DATA', True, False)
                h.derive(k, mech, False, True, other, kt); h.recheck(); part.count('directed_histories'); h.done()

def histories(t, job, part):
    ck = t.ck
    if job.get('directed'): directed(t, job, part)
    for seed in job['seeds']:
        rnd = random.Random(seed); h = Hist(t, part, seed)
        def flags(): return rnd.choice([(False, True), (True, True), (False, False), (True, False)])
        how = rnd.choice(['generate', 'generate', 'genpair', 'create', 'create', 'unwrap']); s_, e_ = flags()
        if how == 'generate': k = h.generate(rnd.choice(['CKM_AES_KEY_GEN', 'CKM_DES3_KEY_GEN', 'CKM_GENERIC_SECRET_KEY_GEN', 'CKM_DES2_KEY_GEN']), s_, e_, rnd.random() < .5, rnd.shuffle)
        elif how == 'genpair': k = h.genpair(rnd.choice(['CKM_EC_KEY_PAIR_GEN', 'CKM_EC_EDWARDS_KEY_PAIR_GEN', 'CKM_DSA_KEY_PAIR_GEN', 'CKM_DH_PKCS_KEY_PAIR_GEN'] + (['CKM_RSA_PKCS_KEY_PAIR_GEN'] if rnd.random() < .15 else [])), s_, e_)
        elif how == 'create': k = h.create(rnd.choice(['AES16', 'DES3', 'GEN16', 'GEN64', 'RSApriv', 'ECpriv', 'DHpriv', 'DSApriv', 'EDpriv', 'ECpub']), s_, e_)
        else: k = h.unwrap(rnd.choice(['AES16', 'GEN16', 'ECpriv', 'RSApriv']), s_, e_)
        if k is None: h.done(); continue
        for _ in range(job['steps']):
            cand = [q for q in h.pool if q.cls != 'public'] or h.pool; k = rnd.choice(cand); a = h.rd(k.h); act = rnd.choice(['set-sensitive', 'set-unextractable', 'copy', 'copy', 'derive', 'derive', 'set-forbidden'])
            if act == 'set-sensitive': h.set(k, 'CKA_SENSITIVE', True)
            elif act == 'set-unextractable': h.set(k, 'CKA_EXTRACTABLE', False)
            elif act == 'set-forbidden':
                attr, v = rnd.choice([('CKA_SENSITIVE', False), ('CKA_EXTRACTABLE', True), ('CKA_ALWAYS_SENSITIVE', True), ('CKA_NEVER_EXTRACTABLE', True), ('CKA_LOCAL', True)])
                if h.set(k, attr, v) and (attr in HIST or (attr == 'CKA_SENSITIVE' and a.get(attr) is True) or (attr == 'CKA_EXTRACTABLE' and a.get(attr) is False)):
                    part.violation(f'C_SetAttributeValue|history,{attr}={v}|accepted', f'C_SetAttributeValue accepted {attr}={v} in a history', h.wit())
            elif act == 'copy':
                tm = []
                if a.get('CKA_SENSITIVE') is False and rnd.random() < .5: tm.append(('CKA_SENSITIVE', True))
                if a.get('CKA_EXTRACTABLE') is True and rnd.random() < .5: tm.append(('CKA_EXTRACTABLE', False))
                if rnd.random() < .3: tm.append(('CKA_LABEL', b'c'))
                h.copy(k, tm)
            else:
                if a.get('CKA_DERIVE') is not True: continue
                s_, e_ = flags(); other = None; kt = 'CKK_GENERIC_SECRET'
                if k.cls == 'secret':
                    t_ = a.get('CKA_KEY_TYPE'); ms = ['CKM_CONCATENATE_BASE_AND_KEY', 'CKM_CONCATENATE_BASE_AND_DATA', 'CKM_CONCATENATE_DATA_AND_BASE']
                    if t_ == ck.CKK_AES: ms += ['CKM_AES_ECB_ENCRYPT_DATA', 'CKM_AES_CBC_ENCRYPT_DATA'] * 2
                    if t_ in (ck.CKK_DES2, ck.CKK_DES3): ms += ['CKM_DES3_ECB_ENCRYPT_DATA', 'CKM_DES3_CBC_ENCRYPT_DATA'] * 2
                    mech = rnd.choice(ms)
                    if mech == 'CKM_CONCATENATE_BASE_AND_KEY': other = rnd.choice([q for q in h.pool if q.cls == 'secret'])
                    if mech in ENCDATA and rnd.random() < .6: kt = ENCDATA[mech]          # a result that can itself be the base of another *_ENCRYPT_DATA derivation
                elif k.cls == 'private' and a.get('CKA_KEY_TYPE') == ck.CKK_DH: mech = 'CKM_DH_PKCS_DERIVE'; kt = rnd.choice(['CKK_GENERIC_SECRET', 'CKK_AES'])
                elif k.cls == 'private' and a.get('CKA_KEY_TYPE') == ck.CKK_EC: mech = 'CKM_ECDH1_DERIVE'; kt = rnd.choice(['CKK_GENERIC_SECRET', 'CKK_AES'])
                else: continue
                h.derive(k, mech, s_, e_, other, kt, rnd.random() < .5)
            h.recheck()
        h.done()

def worker(job):
    from ck import CK
    ck = CK(job['hdr']); part = Part(); d = os.path.join(job['scratch'], job['name']); shutil.rmtree(d, ignore_errors=True); os.makedirs(d); t = None
    try:
        t = Tok(job['paths'], ck, d, job['backend'])
        if job['what'] == 'table': table(t, job, part)
        else: histories(t, job, part)
    except Died as e:
        part.observe('side:C17 library terminated the host', {'kind': e.kind(), 'fn': e.fn, 'where': e.where(), 'job': job['name']}); part.inconc(f'executor died ({e.kind()} in {e.fn}) job={job["name"]}')
    except Hang: part.inconc(f'executor hang job={job["name"]}')
    except AssertionError as e: part.inconc(f'setup failed job={job["name"]}: {e!r}')
    if t is not None:
        for cat, loc in t.x.ubsan_reports()[:20]: part.observe('side:ubsan ' + loc, cat)
        try: t.close()
        except Exception: pass
    shutil.rmtree(d, ignore_errors=True)
    return part

def run(ctx):
    ctx.rule = ('(1) per object kind (data, X.509 certificate, DSA/DH domain parameters, AES/DES3/generic/HMAC secret keys, RSA/DSA/DH/EC/Ed25519 public and private keys) x token/session x EVERY attribute the '
                'object defines x {C_SetAttributeValue, C_CopyObject} with a changed value, judged by a conservative v2.40 read-only/one-way table, effects verified by re-reading all attributes and counting objects; '
                'mixed templates with the forbidden attribute first/middle/last; (2) MODIFIABLE/COPYABLE/DESTROYABLE=false gates, private->public copy, CKA_TRUSTED as user/public/SO; (3) the four history attributes '
                'supplied in create/generate/unwrap/derive/set/copy templates at every position; (4) seeded histories against a provenance model.  one evaluation = one judged call or one history-attribute '
                'comparison; distinct = (kind, store, attribute, operation, variant) cell or history shape + step; non-trivial = the object existed (and, for gates, the change works on an unrestricted object)')
    ctx.need('asan'); p = ctx.paths['asan']; jobs = []
    backends = ctx.q(('file',), ('file', 'db'))
    for be in backends:
        for kind in ALLK: jobs.append(dict(paths=p, hdr=p['hdr'], scratch=ctx.scratch, what='table', kind=kind, backend=be, name=f'{be}-{kind}', quick=ctx.quick))
    nh = ctx.q(416, 3008); per = 13 if ctx.quick else 47
    for i in range(0, nh, per):
        be = backends[(i // per) % len(backends)]
        jobs.append(dict(paths=p, hdr=p['hdr'], scratch=ctx.scratch, what='hist', backend=be, name=f'{be}-hist{i}', seeds=[ctx.seed * 1000003 + i + j for j in range(per)], steps=ctx.q(7, 9)))
    for be in backends: jobs.append(dict(paths=p, hdr=p['hdr'], scratch=ctx.scratch, what='hist', backend=be, name=f'{be}-directed', seeds=[], steps=0, directed=True))
    jobs.sort(key=lambda j: 0 if j.get('kind') in ('RSApriv', 'RSApub', 'DHPARAMS', 'DSAPARAMS') else 1)
    for part in pmap(worker, jobs, ctx.nproc): ctx.merge(part)
    # another PROCESS makes a one-way change to a token key this process has already read (both back-ends): it cannot be undone from here either, and a fresh process reads the new value
    for be in ('file', 'db'): ctx.extra.setdefault('two_process_cells', {})[be] = twoproc.stale_view(ctx, be, 'oneway')
    ctx.assumptions += ['raw CK_BBOOL bytes {0x00,0x01,0x02,0x80,0xFF} for attributes with a forbidden direction are judged by effect only (the attribute still reads protected and its gate still holds); rejecting or normalising a non-canonical byte is the token\'s choice',
                        'the read-only table is conservative: data-object attributes, CKA_CHECK_VALUE, CKA_PUBLIC_KEY_INFO, CKA_DESTROYABLE and CKA_COPYABLE true->false are "open" (no demand); where a token may be stricter a refusal is accepted',
                        'a rejected multi-attribute template that changed a SESSION object is the known C09 defect (SessionObject::abortTransaction) and only observed here',
                        'keys derived with the *_ENCRYPT_DATA mechanisms (v2.40 states the exact rule only for DH/ECDH and the CONCATENATE mechanisms): demanded are the universal truths (ALWAYS_SENSITIVE implies SENSITIVE, NEVER_EXTRACTABLE implies not EXTRACTABLE, LOCAL false) AND the reading of "tell the truth about whether it was ever non-sensitive or extractable" for derived material: base.ALWAYS_SENSITIVE false => derived.ALWAYS_SENSITIVE false, base.NEVER_EXTRACTABLE false => derived.NEVER_EXTRACTABLE false (the material descends from material that was once exposed); the converse half (base true => follows the derived key\'s own flag, as for DH/ECDH) is only observed',
                        'attribute-array attributes (WRAP/UNWRAP/DERIVE_TEMPLATE) are compared by length only']
if __name__ == '__main__': main('C08', run, min_evaluations=3000, min_distinct=800)
