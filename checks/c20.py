#!/usr/bin/env python3
"""C20 - behaviour does not depend on the storage back-end or the crypto back-end.

Differential (translation-validation style): the same seeded program runs in lock-step on four executors
(OpenSSL/file, OpenSSL/db, Botan/file, Botan/db) that hold the same keys (imported from fixed material).  Per step the
return codes are compared EXACTLY, attribute values and the bytes of deterministic mechanisms byte for byte; outputs of
randomised mechanisms produced under one configuration are fed to all four, which must all accept / decrypt them.
Handles are compared by position.  Mechanisms, key sizes and curves are restricted to what all four advertise."""
import sys, os, json, random, shutil, struct, time
sys.path.insert(0, os.path.join(os.path.dirname(os.path.abspath(__file__)), '..', 'vlib'))
from harness import main, Part, pmap, SAN_ENV, VERIF
from p11client import Exec, Died, Hang, mkconf
from ck import CK
import keys_c17 as K
import functools
@functools.lru_cache(None)
def zero_secret_peers():
    """peer public values whose shared secret with the golden private keys starts with a zero byte (1 exchange in 256): smallest k with peer = g^k resp. k*G (searched here, ~256 multiplications)"""
    import refcrypt as RC
    R = K.RAW; out = {}
    p = int(R['dh1024']['CKA_PRIME'], 16); g = int(R['dh1024']['CKA_BASE'], 16); Y = int(R['dh1024']['CKA_VALUE'], 16); n = (p.bit_length() + 7) // 8; Z = Y
    for k in range(2, 1 << 16):
        Z = Z * Y % p
        if Z.to_bytes(n, 'big')[0] == 0: out['dh1024'] = '%x' % pow(g, k, p); out['dh1024'] = '0' * (len(out['dh1024']) % 2) + out['dh1024']; break
    for cv, name in (('ec_p256', 'P-256'), ('ec_p384', 'P-384')):
        c = RC.CURVES[name]; d = int(R[cv]['CKA_VALUE'], 16); Q = RC.ECKey(c, d).Q; P = Q
        for k in range(2, 1 << 16):
            P = c.mul(2, Q) if k == 2 else c.add(P, Q)
            if P[0].to_bytes(c.flen, 'big')[0] == 0: out[cv] = RC.ECKey(c, k).point().hex(); break
    return out

CONFIGS = [('asan', 'file'), ('asan', 'db'), ('botan', 'file'), ('botan', 'db')]
NAMES = ['openssl/file', 'openssl/db', 'botan/file', 'botan/db']
SO_PIN = b'c20-so-pin'; USER_PIN = b'c20-user-pin'
GOLDEN_KINDS = ['aes128', 'aes192', 'aes256', 'des3', 'des2', 'generic32', 'generic64', 'generic1', 'rsa1024:pub', 'rsa1024:priv', 'rsa2048:pub', 'rsa2048:priv', 'ec_p256:pub', 'ec_p256:priv',
                'ec_p256b:pub', 'ec_p256b:priv', 'ec_p384:pub', 'ec_p384:priv', 'ec_p384b:pub', 'ec_p521:pub', 'ec_p521:priv', 'ec_p521b:pub', 'ed25519:pub', 'ed25519:priv', 'dsa1024:pub', 'dsa1024:priv',
                'dh1024:pub', 'dh1024:priv', 'dh1024b:pub', 'x509', 'data']

def cls_of(f): return 'secret' if f in ('aes', 'des3', 'des2', 'des', 'generic') else 'public' if f.endswith('-pub') else 'private' if f.endswith('-priv') else f
def fam(kind):
    if kind is None: return 'unknown'
    if kind.startswith('aes'): return 'aes'
    if kind.startswith('generic'): return 'generic'
    if kind in ('des3', 'des2', 'des', 'x509', 'data'): return {'x509': 'cert'}.get(kind, kind)
    if kind.endswith('-params'): return 'params'
    b, h = kind.split(':'); return ('rsa' if b.startswith('rsa') else 'ec' if b.startswith('ec_') else 'ed' if b.startswith('ed') else 'dsa' if b.startswith('dsa') else 'dh') + '-' + h

# attributes read back after every object-changing step, per object class
A_COMMON = ['CKA_CLASS', 'CKA_TOKEN', 'CKA_PRIVATE', 'CKA_MODIFIABLE', 'CKA_LABEL', 'CKA_COPYABLE', 'CKA_DESTROYABLE']
A_KEY = ['CKA_KEY_TYPE', 'CKA_ID', 'CKA_START_DATE', 'CKA_END_DATE', 'CKA_DERIVE', 'CKA_LOCAL', 'CKA_KEY_GEN_MECHANISM', 'CKA_ALLOWED_MECHANISMS']
A_SECRET = ['CKA_SENSITIVE', 'CKA_ENCRYPT', 'CKA_DECRYPT', 'CKA_SIGN', 'CKA_VERIFY', 'CKA_WRAP', 'CKA_UNWRAP', 'CKA_EXTRACTABLE', 'CKA_ALWAYS_SENSITIVE', 'CKA_NEVER_EXTRACTABLE', 'CKA_CHECK_VALUE',
            'CKA_WRAP_WITH_TRUSTED', 'CKA_TRUSTED', 'CKA_VALUE', 'CKA_VALUE_LEN']
A_PUB = ['CKA_SUBJECT', 'CKA_ENCRYPT', 'CKA_VERIFY', 'CKA_VERIFY_RECOVER', 'CKA_WRAP', 'CKA_TRUSTED']
A_PRIV = ['CKA_SUBJECT', 'CKA_SENSITIVE', 'CKA_DECRYPT', 'CKA_SIGN', 'CKA_SIGN_RECOVER', 'CKA_UNWRAP', 'CKA_EXTRACTABLE', 'CKA_ALWAYS_SENSITIVE', 'CKA_NEVER_EXTRACTABLE', 'CKA_WRAP_WITH_TRUSTED', 'CKA_ALWAYS_AUTHENTICATE']
A_COMP = {'rsa-pub': ['CKA_MODULUS', 'CKA_MODULUS_BITS', 'CKA_PUBLIC_EXPONENT'], 'rsa-priv': ['CKA_MODULUS', 'CKA_PUBLIC_EXPONENT', 'CKA_PRIVATE_EXPONENT', 'CKA_PRIME_1', 'CKA_PRIME_2', 'CKA_EXPONENT_1', 'CKA_EXPONENT_2', 'CKA_COEFFICIENT'],
          'ec-pub': ['CKA_EC_PARAMS', 'CKA_EC_POINT'], 'ec-priv': ['CKA_EC_PARAMS', 'CKA_VALUE'], 'ed-pub': ['CKA_EC_PARAMS', 'CKA_EC_POINT'], 'ed-priv': ['CKA_EC_PARAMS', 'CKA_VALUE'],
          'dsa-pub': ['CKA_PRIME', 'CKA_SUBPRIME', 'CKA_BASE', 'CKA_VALUE'], 'dsa-priv': ['CKA_PRIME', 'CKA_SUBPRIME', 'CKA_BASE', 'CKA_VALUE'],
          'dh-pub': ['CKA_PRIME', 'CKA_BASE', 'CKA_VALUE'], 'dh-priv': ['CKA_PRIME', 'CKA_BASE', 'CKA_VALUE', 'CKA_VALUE_BITS']}
def attrs_of(f):
    if f == 'data': return A_COMMON + ['CKA_APPLICATION', 'CKA_OBJECT_ID', 'CKA_VALUE']
    if f == 'cert': return A_COMMON + ['CKA_CERTIFICATE_TYPE', 'CKA_TRUSTED', 'CKA_CERTIFICATE_CATEGORY', 'CKA_CHECK_VALUE', 'CKA_START_DATE', 'CKA_END_DATE', 'CKA_SUBJECT', 'CKA_ID', 'CKA_ISSUER', 'CKA_SERIAL_NUMBER', 'CKA_VALUE']
    if f in ('aes', 'des3', 'des2', 'des', 'generic'): return A_COMMON + A_KEY + A_SECRET
    if f.endswith('-pub'): return A_COMMON + A_KEY + A_PUB + A_COMP[f]
    if f.endswith('-priv'): return A_COMMON + A_KEY + A_PRIV + A_COMP[f]
    return A_COMMON

class Pos:
    """a handle by position: the object / session created by the k-th creating step, whatever number each library gave it"""
    def __init__(s, hs): s.hs = list(hs)

class Quad:
    """four executors driven in lock-step"""
    def __init__(s, env, d, golden=None):
        s.env = env; s.ck = env['ck']; s.x = []; s.d = d; golden = golden or env['golden']
        for i, (cfg, be) in enumerate(CONFIGS):
            di = os.path.join(d, 'c%d' % i); os.makedirs(di); shutil.copytree(os.path.join(golden[i], 'tokens'), os.path.join(di, 'tokens'))
            s.x.append(s.spawn(i))
        s.ncalls = 0
    def call(self, fn, **kw):
        """the same logical call on all four; Pos arguments are translated per configuration (also inside mechanism parameters)"""
        out = []
        for i, x in enumerate(self.x):
            def tr(v):
                if isinstance(v, Pos): return v.hs[i]
                if isinstance(v, dict): return {k: tr(w) for k, w in v.items()}
                if isinstance(v, list): return [tr(w) for w in v]
                return v
            out.append(x.call(fn, **{k: tr(v) for k, v in kw.items()}))
        self.ncalls += 1; return out
    def spawn(s, i):
        cfg, be = CONFIGS[i]; di = os.path.join(s.d, 'c%d' % i); p = s.env['paths'][cfg]; n = len([f for f in os.listdir(di) if f.startswith('stderr')])
        x = Exec(p['exe'], p['lib'], mkconf(di, be), s.ck, env=dict(SAN_ENV), stderr=f'{di}/stderr{n}.log', trace=f'{di}/trace{n}.jsonl'); x.timeout = 120; return x
    def new_processes(s):
        """end the four executors and start four new ones on the same token directories"""
        for x in s.x: x.close()
        s.x = [s.spawn(i) for i in range(4)]
    def kill(s):
        for x in s.x: x.kill()

def partition(o):
    """(config pair, outcome pair) of four outcome labels in the order openssl/file, openssl/db, botan/file, botan/db"""
    if o[0] == o[1] and o[2] == o[3] and o[0] != o[2]: return 'openssl~botan', f'{o[0]}~{o[2]}'
    if o[0] == o[2] and o[1] == o[3] and o[0] != o[1]: return 'file~db', f'{o[0]}~{o[1]}'
    return 'mixed', '~'.join(o)
def value_labels(vals):
    """stable labels for four byte strings (hex or None): absent / empty / equality classes A, B, ... when the lengths agree,
    length classes L1, L2, ... when they do not (no concrete numbers: keys must not depend on key sizes or curves)"""
    ls = [None if v is None else len(v) // 2 for v in vals]
    if len(set(ls)) > 1:
        order = []
        for l in ls:
            if l not in (None, 0) and l not in order: order.append(l)
        return ['absent' if l is None else 'empty' if l == 0 else ('nonempty' if len(order) == 1 else 'L%d' % (order.index(l) + 1)) for l in ls]
    seen = []; out = []
    for v in vals:
        if v not in seen: seen.append(v)
        out.append('ABCD'[seen.index(v)])
    return out
def len_labels(ns):
    order = []
    for n in ns:
        if n not in order: order.append(n)
    return ['L%d' % (order.index(n) + 1) for n in ns]

class Disagree(Exception): pass

class Prog:
    def __init__(s, env, seed, part):
        s.env = env; s.ck = env['ck']; s.rnd = random.Random(seed); s.seed = seed; s.part = part; s.q = None; s.objs = []; s.S = None; s.steps = 0; s.log = []; s.unit = ''; s.mechs = env['mechs']
        s.ndis = 0
    # ---------------------------------------------------------------- comparison
    def note(s, fn, what, labels, detail):
        pair, outc = partition(labels); key = f'{fn}|{what}|{pair}|{outc}'; s.ndis += 1
        s.part.count('disagreements_found')
        s.part.violation(key, f'{fn} ({what}) behaves differently: ' + ', '.join(f'{n}: {l}' for n, l in zip(NAMES, labels)),
                         {'seed': s.seed, 'unit': s.unit, 'detail': detail, 'labels': labels, 'history_tail': s.log[-10:]})
    def note_cross(s, fn, what, i, outcome, detail):
        """a randomised output produced under configuration i that the configurations (all of them alike) do not accept"""
        s.ndis += 1; s.part.count('disagreements_found')
        s.part.violation(f'{fn}|{what}|produced-by-{NAMES[i].split("/")[0]}|{outcome}', f'{fn} ({what}): the output produced under {NAMES[i]} is not accepted: {outcome}', {'seed': s.seed, 'unit': s.unit, 'detail': detail, 'history_tail': s.log[-10:]})
    def step(self, fn, what, cmp=(), must_ok=False, shape='', **kw):
        """one logical call on the four configurations.  Compares rv exactly, then the reply fields named in `cmp`
        ('out' = output buffer length+bytes, 'len' = output length only, 'n' = count).  Raises Disagree when the return codes
        differ (the rest of the unit would only cascade)."""
        rs = self.q.call(fn, **kw); self.steps += 1; self.part.count('comparisons'); self.part.case((fn, what.split(':')[0]))
        rvs = [r['rvname'] for r in rs]; self.log.append((fn, what + (' [%s]' % shape if shape else ''), rvs[0] if len(set(rvs)) == 1 else rvs))
        if any('error' in r and r.get('rv') == -1 for r in rs): self.part.inconc('harness: bad request %s %s' % (fn, [r.get('error') for r in rs])); raise Disagree()
        if len(set(rvs)) > 1:
            self.note(fn, what, rvs, {'args': clip(kw), 'shape': shape})
            for i, r in enumerate(rs):     # re-align the four states: an object that exists under some configurations only would make every later search differ
                for k in ('h', 'hpub', 'hpriv'):
                    if r.get('rv') == 0 and r.get(k) and fn in ('C_CreateObject', 'C_CopyObject', 'C_GenerateKey', 'C_GenerateKeyPair', 'C_UnwrapKey', 'C_DeriveKey'): self.q.x[i].call('C_DestroyObject', s=kw['s'].hs[i], o=r[k])
            if fn == 'C_DestroyObject':
                for o in self.objs:
                    if o['pos'] is kw.get('o'):
                        o['alive'] = False
                        for i, r in enumerate(rs):
                            if r.get('rv') != 0: self.q.x[i].call('C_DestroyObject', s=kw['s'].hs[i], o=o['pos'].hs[i])
            raise Disagree()
        if rvs[0] == 'CKR_OK' or rvs[0] == 'CKR_BUFFER_TOO_SMALL':
            for c in cmp:
                self.part.count('comparisons')
                if c == 'out':
                    if rvs[0] != 'CKR_OK' or kw.get('buf', 1) is None: labs = len_labels([(r.get('out') or {}).get('len', -1) for r in rs])
                    else: labs = value_labels([(r.get('out') or {}).get('data') for r in rs])
                    if len(set(labs)) > 1: self.note(fn, what + (':announced-length' if (rvs[0] != 'CKR_OK' or kw.get('buf', 1) is None) else ':output'), labs, {'args': clip(kw), 'shape': shape}); raise Disagree()
                elif c == 'n':
                    labs = len_labels([r.get('n') for r in rs])
                    if len(set(labs)) > 1: self.note(fn, what + ':count', labs, {'args': clip(kw)}); raise Disagree()
        if must_ok and rvs[0] != 'CKR_OK': raise Disagree()
        return rs
    def read_attrs(s, pos, f, names=None, producer='C_GetAttributeValue'):
        """read attributes (one per template entry) and compare per attribute: availability, length, bytes.  The aggregate return
        code of the read is a function of those, so it is not compared separately.  When more than three attributes of one
        object differ along the same configuration axis they are ONE finding (`many-attributes`), keyed by the call that made the object."""
        names = names or attrs_of(f)
        rs = s.q.call('C_GetAttributeValue', s=s.S, o=pos, tmpl=[{'t': s.ck[a], 'buf': 4096} for a in names]); s.steps += 1; s.log.append(('C_GetAttributeValue', 'read-back:' + f, [r['rvname'] for r in rs]))
        diffs = {}
        for j, a in enumerate(names):
            s.part.count('comparisons'); s.part.case(('attr', a))
            vals = []
            for r in rs:
                e = (r.get('tmpl') or [{}] * len(names))[j]; vals.append(e.get('data') if isinstance(e.get('len'), int) and e.get('len') >= 0 else None)
            labs = value_labels(vals)
            if len(set(labs)) > 1: pair, outc = partition(labs); diffs.setdefault(pair, []).append((a, labs, [clip(v) for v in vals]))
        if diffs:
            for o in s.objs:
                if o['pos'] is pos:
                    o['diverged'] = True      # not used as an input of later units (its differences would only be re-reported)
                    if not o['golden'] and producer != 'C_GetAttributeValue' and any(len(l) >= 2 for l in diffs.values()):   # and removed, so that searches stay comparable
                        s.q.call('C_DestroyObject', s=s.S, o=pos); o['alive'] = False
        for pair, l in diffs.items():
            if len(l) >= 2:
                s.ndis += 1; s.part.count('disagreements_found')
                s.part.violation(f'{producer}|several-attributes|{pair}|differ', f'after {producer} two or more attributes of the object differ between configurations ({pair}): ' + ', '.join(a for a, _, _ in l),
                                 {'seed': s.seed, 'unit': s.unit, 'attributes': [(a, labs) for a, labs, _ in l], 'history_tail': s.log[-8:]})
            else:
                for a, labs, vals in l: s.note('C_GetAttributeValue', a, labs, {'values': vals, 'object': f, 'made-by': producer})
    # ---------------------------------------------------------------- model
    def add(s, rs, kind, key='h'):
        o = {'pos': Pos([r.get(key, 0) for r in rs]), 'kind': kind, 'fam': fam(kind), 'alive': True, 'golden': False}; s.objs.append(o); return o
    def pick(s, fams=None, golden=None):
        c = [o for o in s.objs if o['alive'] and not o.get('diverged') and not o.get('random') and (fams is None or o['fam'] in fams) and (golden is None or o['golden'] == golden)]
        return s.rnd.choice(c) if c else None
    def gold(s, kind):
        for o in s.objs:
            if o['golden'] and o['kind'] == kind: return o
    def M(s, name, p=None): return {'m': s.ck[name], 'p': p}
    def T(s, pairs): return s.q.x[0].T(K.resolve(s.ck, list(pairs)))
    def has(s, *mechs): return all(m in s.mechs for m in mechs)

def clip(o, n=96):
    if isinstance(o, Pos): return 'pos%s' % (o.hs,)
    if isinstance(o, str): return o if len(o) <= n else o[:n] + '...(%d)' % len(o)
    if isinstance(o, dict): return {k: clip(v, n) for k, v in o.items()}
    if isinstance(o, list): return [clip(v, n) for v in o[:24]]
    return o

HASHES = ['CKM_MD5', 'CKM_SHA_1', 'CKM_SHA224', 'CKM_SHA256', 'CKM_SHA384', 'CKM_SHA512']
HLEN = {'CKM_MD5': 16, 'CKM_SHA_1': 20, 'CKM_SHA224': 28, 'CKM_SHA256': 32, 'CKM_SHA384': 48, 'CKM_SHA512': 64}
class Prog(Prog):
    # ---------------------------------------------------------------- generic operation driver
    def outs(s, rs): return [(r.get('out') or {}).get('data', '') for r in rs]
    def produce(s, kind, mech, what, key, data, mode, det=True):
        """Init + data phase of encrypt / decrypt / sign / digest in one of the protocol shapes; returns the four outputs (hex).
        The protocol shape is not part of a finding's key (the entry point already is).  Multi-part: libraries may buffer
        differently, so the CONCATENATED output is what is compared.  det=False: randomised mechanism, only lengths are
        compared here (the bytes are cross-fed by the caller)."""
        S = s.S; I, O, U, F = {'E': ('C_EncryptInit', 'C_Encrypt', 'C_EncryptUpdate', 'C_EncryptFinal'), 'De': ('C_DecryptInit', 'C_Decrypt', 'C_DecryptUpdate', 'C_DecryptFinal'),
                               'S': ('C_SignInit', 'C_Sign', 'C_SignUpdate', 'C_SignFinal'), 'D': ('C_DigestInit', 'C_Digest', 'C_DigestUpdate', 'C_DigestFinal')}[kind]
        cmp = ('out',) if det else ()
        if kind == 'D': s.step(I, what, s=S, mech=mech, must_ok=True)
        else: s.step(I, what.split(':truncated')[0].split(':extended')[0].split(':bitflipped')[0].split(':garbage')[0], s=S, mech=mech, key=key, must_ok=True)
        if data == '' and kind in ('E', 'De'): what += ':empty-input'
        big = 8192 + len(data) // 2
        if mode == 'query': s.step(O, what, cmp=('out',), shape='size-query', s=S, data=data, buf=None, must_ok=True)
        if mode == 'small':
            r = s.step(O, what, cmp=('out',) if det else (), shape='small-buffer', s=S, data=data, buf=s.rnd.choice([0, 1, 7, 15]))
            if r[0]['rvname'] == 'CKR_OK': return s.outs(r)
            if r[0]['rvname'] != 'CKR_BUFFER_TOO_SMALL': raise Disagree()
        if mode == 'multi':
            b = bytes.fromhex(data); out = [''] * 4; i = 0; per_call = []
            while True:
                n = s.rnd.choice([1, 7, 16, 17, 32, 100, 1000]); chunk = b[i:i + n].hex(); i += n
                if kind in ('S', 'D'): s.step(U, what, shape='update', s=S, data=chunk, must_ok=True)
                else:
                    r = s.step(U, what, shape='update', s=S, data=chunk, buf=big, must_ok=True); o = s.outs(r); out = [a + c for a, c in zip(out, o)]; per_call.append([len(x) // 2 for x in o])
                if i >= len(b): break
            r = s.step(F, what, shape='final', s=S, buf=big, must_ok=True); out = [a + c for a, c in zip(out, s.outs(r))]
            if any(len(set(p)) > 1 for p in per_call): s.part.observe('multi-part chunking differs (the concatenated output is what is compared)', what.split(':')[0])
            if det:
                s.part.count('comparisons'); labs = value_labels(out)
                if len(set(labs)) > 1: s.note(F, what + ':output', labs, {'shape': 'multi-part, concatenated'}); raise Disagree()
            return out
        r = s.step(O, what, cmp=cmp, s=S, data=data, buf=big, must_ok=True)
        if not det:
            labs = len_labels([(x.get('out') or {}).get('len', -1) for x in r])
            if len(set(labs)) > 1: s.note(O, what + ':output-length', labs, {}); raise Disagree()
        return s.outs(r)
    def mode(s, multi=True): return s.rnd.choice(['oneshot', 'oneshot', 'query', 'small'] + (['multi', 'multi'] if multi else []))
    def blob(s, n): return s.rnd.randbytes(n).hex()
    def verify_all(s, mech, what, pub, data, sigs, multi=False):
        """cross-feed: every configuration must accept the signature each configuration produced"""
        for i, sig in enumerate(sigs):
            s.step('C_VerifyInit', what, s=s.S, mech=mech, key=pub, must_ok=True)
            if multi: s.step('C_VerifyUpdate', what, s=s.S, data=data, must_ok=True); rs = s.step('C_VerifyFinal', what, s=s.S, sig=sig)
            else: rs = s.step('C_Verify', what, s=s.S, data=data, sig=sig)
            if rs[0]['rvname'] != 'CKR_OK': s.note_cross('C_Verify', what, i, rs[0]['rvname'], {'sig': clip(sig)}); raise Disagree()
    def verify_bad(s, mech, what, pub, data, sig):
        b = bytearray.fromhex(sig)
        if not b: return
        c = s.rnd.randrange(3)
        if c == 0: b[s.rnd.randrange(len(b))] ^= 1 << s.rnd.randrange(8)
        elif c == 1: b = b[:-1]
        else: b += b'\x00'
        s.step('C_VerifyInit', what, s=s.S, mech=mech, key=pub, must_ok=True); s.step('C_Verify', what + ':bad-signature', s=s.S, data=data, sig=bytes(b).hex())
    # ---------------------------------------------------------------- crypto units
    def u_digest(s):
        m = s.rnd.choice([h for h in HASHES if s.has(h)]); s.unit = 'digest ' + m; n = s.rnd.choice([0, 1, 3, 55, 56, 64, 119, 128, 1000, 5000])
        s.produce('D', s.M(m), m, None, s.blob(n), s.mode())
        if s.rnd.random() < 0.2:   # digest a key
            k = s.gold(s.rnd.choice(['aes128', 'generic32', 'des3'])); s.step('C_DigestInit', m, s=s.S, mech=s.M(m), must_ok=True); s.step('C_DigestKey', m + ':digest-key', s=s.S, key=k['pos'], must_ok=True); s.step('C_DigestFinal', m + ':digest-key', cmp=('out',), s=s.S, buf=128)
    def sym_key(s, f):
        o = s.pick({f}) if s.rnd.random() < 0.3 else None
        return o or s.gold({'aes': s.rnd.choice(['aes128', 'aes192', 'aes256']), 'des3': s.rnd.choice(['des3', 'des2'])}[f])
    def u_sym(s):
        r = s.rnd; m = r.choice([x for x in ['CKM_AES_ECB', 'CKM_AES_CBC', 'CKM_AES_CBC_PAD', 'CKM_AES_CTR', 'CKM_AES_GCM', 'CKM_DES3_ECB', 'CKM_DES3_CBC', 'CKM_DES3_CBC_PAD'] if s.has(x)])
        f = 'aes' if 'AES' in m else 'des3'; bs = 16 if f == 'aes' else 8; key = s.sym_key(f); what = m; p = None
        if m.endswith('_CBC') or m.endswith('_CBC_PAD'): p = {'hex': s.blob(bs)}
        elif m == 'CKM_AES_CTR': p = {'ctr': {'bits': r.choice([128, 64, 32, 16, 1]), 'cb': s.blob(16)}}
        elif m == 'CKM_AES_GCM':
            ivl = r.choice([12, 12, 12, 12, 1, 8, 13, 16, 64, 0]); tb = r.choice([128, 128, 128, 120, 112, 104, 96, 64, 32]) if ivl == 12 else 128; al = r.choice([0, 0, 1, 16, 20, 100])
            p = {'gcm': dict(iv=s.blob(ivl), tagbits=tb, **({'aad': s.blob(al)} if al else {}))}; what = 'CKM_AES_GCM' + ('' if ivl == 12 else ':iv-empty' if ivl == 0 else ':iv-not-96-bits') + ('' if tb >= 96 else ':tag-below-96-bits')
        s.unit = f'sym {what} key={key["kind"]}'
        aligned = r.random() < (0.8 if (m.endswith('ECB') or m.endswith('_CBC')) else 0.4); n = r.choice([0, bs, 2 * bs, 4 * bs, 64 * bs]) if aligned else r.choice([1, bs - 1, bs + 1, 3 * bs + 5, 1000])
        pt = s.blob(n); mech = s.M(m, p); md = s.mode()
        if m == 'CKM_AES_GCM' and md == 'multi' and r.random() < 0.5: md = 'oneshot'
        ct = s.produce('E', mech, what, key['pos'], pt, md)
        back = s.produce('De', mech, what, key['pos'], ct[0], s.mode())
        if back[0] != pt: s.part.observe('roundtrip mismatch (all four agree; correctness belongs to C10)', what)
        c = r.randrange(4)   # hostile ciphertexts: the error behaviour must agree too
        bad = ct[0][:-2] if c == 0 else (ct[0] + '00') if c == 1 else '' if c == 2 else (ct[0][:-2] + '%02x' % (int(ct[0][-2:], 16) ^ 1) if ct[0] else '')
        s.produce('De', mech, what + ['' if bad == '' else ':truncated-ciphertext', ':extended-ciphertext', '', ':bitflipped-ciphertext'][c], key['pos'], bad, r.choice(['oneshot', 'multi']))
    def u_mac(s):
        r = s.rnd; m = r.choice([x for x in ['CKM_MD5_HMAC', 'CKM_SHA_1_HMAC', 'CKM_SHA224_HMAC', 'CKM_SHA256_HMAC', 'CKM_SHA384_HMAC', 'CKM_SHA512_HMAC', 'CKM_AES_CMAC', 'CKM_DES3_CMAC'] if s.has(x)])
        key = s.gold(r.choice(['generic32', 'generic64'])) if 'HMAC' in m else s.sym_key('aes' if 'AES' in m else 'des3')
        if 'HMAC' in m and r.random() < 0.3: key = s.pick({'generic'}) or key
        s.unit = f'mac {m} key={key["kind"]}'; data = s.blob(r.choice([0, 1, 16, 17, 64, 1000])); multi = r.random() < 0.4
        sig = s.produce('S', s.M(m), m, key['pos'], data, s.mode())
        s.verify_all(s.M(m), m, key['pos'], data, sig[:1], multi=multi); s.verify_bad(s.M(m), m, key['pos'], data, sig[0])
    def u_rsa_sign(s):
        r = s.rnd; bits = r.choice([1024, 2048]); priv = s.gold('rsa%d:priv' % bits); pub = s.gold('rsa%d:pub' % bits); ml = bits // 8
        m = r.choice([x for x in ['CKM_RSA_PKCS', 'CKM_RSA_X_509', 'CKM_MD5_RSA_PKCS', 'CKM_SHA1_RSA_PKCS', 'CKM_SHA224_RSA_PKCS', 'CKM_SHA256_RSA_PKCS', 'CKM_SHA384_RSA_PKCS', 'CKM_SHA512_RSA_PKCS'] if s.has(x)]); s.unit = f'rsa-sign {m} {bits}'
        if m == 'CKM_RSA_PKCS': n = r.choice([0, 1, 20, 35, 51, ml - 11, ml - 10, ml])
        elif m == 'CKM_RSA_X_509': n = r.choice([1, 20, ml - 1, ml, ml + 1])
        else: n = r.choice([0, 1, 100, 3000])
        data = ('00' + s.blob(n - 1)) if (m == 'CKM_RSA_X_509' and n >= ml) else s.blob(n)
        sig = s.produce('S', s.M(m), m, priv['pos'], data, s.mode(multi=m not in ('CKM_RSA_PKCS', 'CKM_RSA_X_509')))
        s.verify_all(s.M(m), m, pub['pos'], data, sig[:1], multi=(m not in ('CKM_RSA_PKCS', 'CKM_RSA_X_509') and r.random() < 0.5)); s.verify_bad(s.M(m), m, pub['pos'], data, sig[0])
    def u_rsa_pss(s):
        r = s.rnd; bits = r.choice([1024, 2048]); priv = s.gold('rsa%d:priv' % bits); pub = s.gold('rsa%d:pub' % bits); h = r.choice(['SHA_1', 'SHA224', 'SHA256', 'SHA384', 'SHA512']); hm = 'CKM_' + h; mgf = {'SHA_1': 'CKG_MGF1_SHA1'}.get(h, 'CKG_MGF1_' + h)
        m = r.choice(['CKM_RSA_PKCS_PSS', 'CKM_' + h.replace('SHA_1', 'SHA1') + '_RSA_PKCS_PSS'])
        if not s.has(m): return
        hl = HLEN[hm]; sl = r.choice([0, hl, hl, 20, bits // 8 - hl - 2, bits // 8 - hl - 1, bits // 8]); p = {'pss': {'hash': s.ck[hm], 'mgf': s.ck[mgf], 'slen': sl}}
        if r.random() < 0.15: p['pss']['mgf'] = s.ck[r.choice(['CKG_MGF1_SHA1', 'CKG_MGF1_SHA256', 'CKG_MGF1_SHA512'])]     # mismatching MGF: the refusal (or not) must agree
        s.unit = f'rsa-pss {m} {bits} slen={sl}'; data = s.blob(hl) if m == 'CKM_RSA_PKCS_PSS' else s.blob(r.choice([0, 10, 1000])); what = m
        sigs = s.produce('S', s.M(m, p), what, priv['pos'], data, s.mode(multi=m != 'CKM_RSA_PKCS_PSS'), det=False)
        s.verify_all(s.M(m, p), what, pub['pos'], data, [sigs[0], sigs[2]]); s.verify_bad(s.M(m, p), what, pub['pos'], data, sigs[0])
    def u_rsa_enc(s):
        r = s.rnd; bits = r.choice([1024, 2048]); priv = s.gold('rsa%d:priv' % bits); pub = s.gold('rsa%d:pub' % bits); ml = bits // 8
        m = r.choice(['CKM_RSA_PKCS', 'CKM_RSA_PKCS_OAEP', 'CKM_RSA_X_509']); p = {'oaep': {'hash': s.ck.CKM_SHA_1, 'mgf': s.ck.CKG_MGF1_SHA1, 'source': 1}} if m == 'CKM_RSA_PKCS_OAEP' else None
        if not s.has(m): return
        n = r.choice([0, 1, 16, ml - 42, ml - 41, ml - 11, ml - 10]) if m != 'CKM_RSA_X_509' else r.choice([1, ml - 1, ml, ml + 1]); s.unit = f'rsa-enc {m} {bits} n={n}'
        pt = ('00' + s.blob(n - 1)) if (m == 'CKM_RSA_X_509' and n >= ml) else s.blob(n)
        cts = s.produce('E', s.M(m, p), m, pub['pos'], pt, s.mode(multi=False), det=(m == 'CKM_RSA_X_509'))
        for i in ((0, 2) if m != 'CKM_RSA_X_509' else (0,)):   # cross-feed: the ciphertext of an OpenSSL and of a Botan configuration
            back = s.produce('De', s.M(m, p), m, priv['pos'], cts[i], s.mode(multi=False))
            if m != 'CKM_RSA_X_509' and back[0] != pt: s.note_cross('C_Decrypt', m, i, 'wrong-plaintext', {}); raise Disagree()
        s.produce('De', s.M(m, p), m + ':garbage-ciphertext', priv['pos'], r.choice([s.blob(ml), '00' * ml, s.blob(ml - 1), cts[0][:-2] + '00']), 'oneshot')
    def u_ecdsa(s):
        r = s.rnd; cv = r.choice(['ec_p256', 'ec_p384', 'ec_p521']); priv = s.gold(cv + ':priv'); pub = s.gold(cv + ':pub'); n = r.choice([20, 28, 32, 48, 64, 1, 0, 100]); s.unit = f'ecdsa {cv} n={n}'; data = s.blob(n); osz = {'ec_p256': 32, 'ec_p384': 48, 'ec_p521': 66}[cv]
        what = 'CKM_ECDSA' + (':empty-input' if n == 0 else ':input-longer-than-order' if n > osz else '')
        sigs = s.produce('S', s.M('CKM_ECDSA'), what, priv['pos'], data, s.mode(multi=False), det=False)
        s.verify_all(s.M('CKM_ECDSA'), what, pub['pos'], data, [sigs[0], sigs[2]]); s.verify_bad(s.M('CKM_ECDSA'), what, pub['pos'], data, sigs[0])
        s.step('C_VerifyInit', 'CKM_ECDSA', s=s.S, mech=s.M('CKM_ECDSA'), key=s.gold('ec_p256b:pub' if cv == 'ec_p256' else 'ec_p384b:pub' if cv == 'ec_p384' else 'ec_p521b:pub')['pos'], must_ok=True); s.step('C_Verify', 'CKM_ECDSA:wrong-key', s=s.S, data=data, sig=sigs[0])
    def u_eddsa(s):
        r = s.rnd; priv = s.gold('ed25519:priv'); pub = s.gold('ed25519:pub'); n = r.choice([0, 1, 32, 64, 1000]); s.unit = f'eddsa n={n}'; data = s.blob(n)
        sigs = s.produce('S', s.M('CKM_EDDSA'), 'CKM_EDDSA', priv['pos'], data, s.mode(multi=False))
        s.verify_all(s.M('CKM_EDDSA'), 'CKM_EDDSA', pub['pos'], data, sigs[:1]); s.verify_bad(s.M('CKM_EDDSA'), 'CKM_EDDSA', pub['pos'], data, sigs[0])
    def u_dsa(s):
        r = s.rnd; priv = s.gold('dsa1024:priv'); pub = s.gold('dsa1024:pub'); m = r.choice([x for x in ['CKM_DSA', 'CKM_DSA_SHA1', 'CKM_DSA_SHA224', 'CKM_DSA_SHA256', 'CKM_DSA_SHA384', 'CKM_DSA_SHA512'] if s.has(x)])
        n = r.choice([20, 20, 20, 1, 19, 21, 32]) if m == 'CKM_DSA' else r.choice([0, 10, 1000]); s.unit = f'dsa {m} n={n}'; data = s.blob(n); what = m + (':input-not-the-size-of-q' if (m == 'CKM_DSA' and n != 20) else '')
        sigs = s.produce('S', s.M(m), what, priv['pos'], data, s.mode(multi=m != 'CKM_DSA'), det=False)
        s.verify_all(s.M(m), what, pub['pos'], data, [sigs[0], sigs[2]]); s.verify_bad(s.M(m), what, pub['pos'], data, sigs[0])
    SECRET_T = [('CKA_CLASS', 'CKO_SECRET_KEY'), ('CKA_TOKEN', False), ('CKA_SENSITIVE', False), ('CKA_EXTRACTABLE', True), ('CKA_ENCRYPT', True), ('CKA_DECRYPT', True), ('CKA_SIGN', True), ('CKA_VERIFY', True)]
    def u_wrap(s):
        r = s.rnd; c = r.randrange(6)
        wm, wkind, ukind, det = [('CKM_AES_KEY_WRAP', 'aes', 'aes', True), ('CKM_AES_KEY_WRAP_PAD', 'aes', 'aes', True), ('CKM_AES_CBC_PAD', 'aes', 'aes', True), ('CKM_DES3_CBC_PAD', 'des3', 'des3', True),
                                 ('CKM_RSA_PKCS', 'rsa', 'rsa', False), ('CKM_RSA_PKCS_OAEP', 'rsa', 'rsa', False)][c]
        if not s.has(wm): return
        p = {'hex': s.blob(16 if 'AES' in wm else 8)} if 'CBC' in wm else {'oaep': {'hash': s.ck.CKM_SHA_1, 'mgf': s.ck.CKG_MGF1_SHA1, 'source': 1}} if 'OAEP' in wm else None
        if wkind == 'rsa': bits = r.choice([1024, 2048]); wk = s.gold('rsa%d:pub' % bits); uk = s.gold('rsa%d:priv' % bits)
        else: wk = uk = s.sym_key(wkind)
        privs = ['rsa1024:priv', 'ec_p256:priv', 'ec_p384:priv', 'dsa1024:priv', 'dh1024:priv', 'ed25519:priv']
        tk = r.choice(['aes128', 'aes256', 'generic32', 'generic64', 'des3'] + (privs if wm in ('CKM_AES_KEY_WRAP_PAD', 'CKM_AES_CBC_PAD', 'CKM_DES3_CBC_PAD') else []))
        tgt = s.gold(tk); s.unit = f'wrap {wm} wkey={wk["kind"]} target={tk}'; what = wm; isp = tk in privs
        if isp: det = False      # the PKCS#8 encodings are compared below, under their own key
        md = r.choice(['oneshot', 'query', 'small'])
        if md == 'query': s.step('C_WrapKey', what, cmp=('out',) if det else (), shape='size-query', s=s.S, mech=s.M(wm, p), wkey=wk['pos'], key=tgt['pos'], buf=None, must_ok=True)
        if md == 'small':
            x = s.step('C_WrapKey', what, cmp=('out',) if det else (), shape='small-buffer', s=s.S, mech=s.M(wm, p), wkey=wk['pos'], key=tgt['pos'], buf=r.choice([0, 1, 8]))
            if x[0]['rvname'] not in ('CKR_BUFFER_TOO_SMALL', 'CKR_OK'): return
        rs = s.step('C_WrapKey', what, cmp=('out',) if det else (), s=s.S, mech=s.M(wm, p), wkey=wk['pos'], key=tgt['pos'], buf=8192, must_ok=True); blobs = s.outs(rs)
        f = fam(tk)
        if isp:
            s.part.count('comparisons'); labs = value_labels(blobs)
            if len(set(labs)) > 1:
                seen = []; labs = ['XYZW'[(seen.index(b) if b in seen else (seen.append(b) or len(seen) - 1))] for b in blobs]
                s.note('C_WrapKey', 'pkcs8-encoding:' + f, labs, {'mechanism': wm, 'lengths': [len(b) // 2 for b in blobs]})
        if f.endswith('-priv'): t = [('CKA_CLASS', 'CKO_PRIVATE_KEY'), ('CKA_KEY_TYPE', {'rsa': 'CKK_RSA', 'ec': 'CKK_EC', 'dsa': 'CKK_DSA', 'dh': 'CKK_DH', 'ed': 'CKK_EC_EDWARDS'}[f[:-5]]), ('CKA_TOKEN', False), ('CKA_SENSITIVE', False), ('CKA_EXTRACTABLE', True), ('CKA_SIGN', True)]
        else: t = s.SECRET_T + [('CKA_KEY_TYPE', {'aes': 'CKK_AES', 'generic': 'CKK_GENERIC_SECRET', 'des3': 'CKK_DES3'}[f])]
        for i in ((0,) if det else (0, 2)):
            ru = s.step('C_UnwrapKey', what if not isp else f'pkcs8-decoding:{f}:blob-of-{NAMES[i].split("/")[0]}', s=s.S, mech=s.M(wm, p), ukey=uk['pos'], wrapped=blobs[i], tmpl=s.T(t + [('CKA_LABEL', b'unwrapped-%d' % len(s.objs))]))
            if ru[0]['rvname'] != 'CKR_OK':
                if not det: s.note_cross('C_UnwrapKey', what, i, ru[0]['rvname'], {})
                raise Disagree()
            o = s.add(ru, tk); s.read_attrs(o['pos'], f, producer='C_UnwrapKey')
        bad = blobs[0][:-2] if r.random() < 0.5 else s.blob(len(blobs[0]) // 2)
        s.step('C_UnwrapKey', what + ':bad-blob', s=s.S, mech=s.M(wm, p), ukey=uk['pos'], wrapped=bad, tmpl=s.T(t))
    def u_derive(s):
        r = s.rnd; R = K.RAW; c = r.randrange(9); vl = r.choice([None, 16, 16, 24, 32, 8, 1, 33, 64]); kt = r.choice(['CKK_GENERIC_SECRET', 'CKK_GENERIC_SECRET', 'CKK_AES', 'CKK_DES3', 'CKK_DES2'])
        t = s.SECRET_T + [('CKA_KEY_TYPE', kt), ('CKA_DERIVE', True)] + ([('CKA_VALUE_LEN', vl)] if vl is not None else [])
        if c == 0:
            cv = r.choice(['ec_p256', 'ec_p384', 'ec_p521']); base = s.gold(cv + ':priv'); pt = R[cv + 'b']['CKA_EC_POINT']; raw = r.random() < 0.4
            if raw: pt = pt[4:] if len(pt) < 260 else pt[6:]     # strip the DER OCTET STRING header (1- or 2-byte length)
            m = 'CKM_ECDH1_DERIVE'; p = {'ecdh1': {'kdf': 1, 'public': pt}}; what = m + (':raw-point' if raw else '')
        elif c == 1: base = s.gold('dh1024:priv'); m = 'CKM_DH_PKCS_DERIVE'; p = {'hex': R['dh1024b']['CKA_VALUE']}; what = m
        elif c in (2, 3):
            f = r.choice(['aes', 'des3']); base = s.sym_key(f); bs = 16 if f == 'aes' else 8; m = 'CKM_AES_ECB_ENCRYPT_DATA' if f == 'aes' else 'CKM_DES3_ECB_ENCRYPT_DATA'; p = {'kdstr': s.blob(r.choice([bs, 2 * bs, 4 * bs, bs + 1, 0]))}; what = m
        elif c in (4, 5):
            f = r.choice(['aes', 'des3']); base = s.sym_key(f); bs = 16 if f == 'aes' else 8; m = 'CKM_AES_CBC_ENCRYPT_DATA' if f == 'aes' else 'CKM_DES3_CBC_ENCRYPT_DATA'; p = {'cbcdata': {'iv': s.blob(bs), 'data': s.blob(r.choice([bs, 2 * bs, 4 * bs, bs - 1]))}}; what = m
        elif c == 6: base = s.gold(r.choice(['generic32', 'aes128'])); m = 'CKM_CONCATENATE_BASE_AND_KEY'; p = {'hkey': s.gold(r.choice(['generic64', 'aes256', 'generic32']))['pos']}; what = m
        else: base = s.gold(r.choice(['generic32', 'generic64', 'aes128'])); m = r.choice(['CKM_CONCATENATE_BASE_AND_DATA', 'CKM_CONCATENATE_DATA_AND_BASE']); p = {'kdstr': s.blob(r.choice([1, 16, 32, 0]))}; what = m
        if not s.has(m): return
        s.unit = f'derive {what} base={base["kind"]} type={kt} len={vl}'
        rs = s.step('C_DeriveKey', what, s=s.S, mech=s.M(m, p), key=base['pos'], tmpl=s.T(t + [('CKA_LABEL', b'derived-%d' % len(s.objs))]))
        if rs[0]['rvname'] == 'CKR_OK': o = s.add(rs, {'CKK_GENERIC_SECRET': 'generic32', 'CKK_AES': 'aes128', 'CKK_DES3': 'des3', 'CKK_DES2': 'des2'}[kt]); s.read_attrs(o['pos'], o['fam'], producer='C_DeriveKey')
    def u_keygen(s):
        r = s.rnd; c = r.randrange(5); skip = {'CKA_VALUE', 'CKA_CHECK_VALUE', 'CKA_EC_POINT', 'CKA_ID'}
        if c < 3:
            m, kind, extra = [('CKM_AES_KEY_GEN', 'aes128', [('CKA_VALUE_LEN', r.choice([16, 24, 32, 17, 0]))]), ('CKM_GENERIC_SECRET_KEY_GEN', 'generic32', [('CKA_VALUE_LEN', r.choice([1, 20, 64, 0]))]), ('CKM_DES3_KEY_GEN', 'des3', [])][c]
            s.unit = f'keygen {m} {extra}'; rs = s.step('C_GenerateKey', m, s=s.S, mech=s.M(m), tmpl=s.T([('CKA_TOKEN', r.random() < 0.2), ('CKA_SENSITIVE', r.random() < 0.5), ('CKA_EXTRACTABLE', r.random() < 0.7), ('CKA_ENCRYPT', True), ('CKA_DECRYPT', True), ('CKA_SIGN', True), ('CKA_VERIFY', True), ('CKA_LABEL', b'generated-%d' % len(s.objs))] + extra))
            if rs[0]['rvname'] != 'CKR_OK': return
            o = s.add(rs, kind); o['random'] = True; s.read_attrs(o['pos'], o['fam'], [a for a in attrs_of(o['fam']) if a not in skip], producer='C_GenerateKey')   # a different random key per configuration: never an input of byte comparisons
        else:
            m, kind, pub = [('CKM_EC_KEY_PAIR_GEN', r.choice(['ec_p256', 'ec_p384']), None), ('CKM_EC_EDWARDS_KEY_PAIR_GEN', 'ed25519', None)][c - 3]; pub = [('CKA_EC_PARAMS', bytes.fromhex(K.RAW[kind]['CKA_EC_PARAMS']))]
            if not s.has(m): return
            s.unit = f'keypairgen {m} {kind}'
            rs = s.step('C_GenerateKeyPair', m, s=s.S, mech=s.M(m), pub=s.T([('CKA_TOKEN', False), ('CKA_VERIFY', True), ('CKA_LABEL', b'gen-pub')] + pub), priv=s.T([('CKA_TOKEN', False), ('CKA_SIGN', True), ('CKA_SENSITIVE', r.random() < 0.5), ('CKA_EXTRACTABLE', r.random() < 0.5), ('CKA_LABEL', b'gen-priv')]))
            if rs[0]['rvname'] != 'CKR_OK': return
            op = s.add(rs, kind + ':pub', 'hpub'); oq = s.add(rs, kind + ':priv', 'hpriv')
            s.read_attrs(op['pos'], op['fam'], [a for a in attrs_of(op['fam']) if a not in skip], producer='C_GenerateKeyPair'); s.read_attrs(oq['pos'], oq['fam'], [a for a in attrs_of(oq['fam']) if a not in skip], producer='C_GenerateKeyPair')
            for o in (op, oq): o['alive'] = False      # per-configuration random keys: not usable for byte comparisons later
    def u_random(s):
        s.unit = 'random'; n = s.rnd.choice([0, 1, 16, 1000]); s.step('C_SeedRandom', 'random', s=s.S, data=s.blob(n)); s.step('C_GenerateRandom', 'random', s=s.S, buf=n)
        s.step('C_GetSessionInfo', 'session', s=s.S); rs = s.q.call('C_GetTokenInfo', slot=Pos(s.slots))
        labs = ['%s/flags=%x' % (r['rvname'], r.get('flags', 0)) for r in rs]; s.part.count('comparisons')
        if len(set(labs)) > 1: s.note('C_GetTokenInfo', 'flags', labs, {})

class Prog(Prog):
    # ---------------------------------------------------------------- object-management units
    def u_create(s):
        r = s.rnd; kind = r.choice([k for k in K.kinds() if k != 'des']); f = fam(kind); tok = r.random() < 0.25; priv = r.random() < 0.3; c = r.randrange(10); extra = []; what = 'create:' + cls_of(f)
        if c == 0: extra = [('CKA_START_DATE', b'20200101'), ('CKA_END_DATE', b'20991231')]
        elif c == 1 and f not in ('data', 'cert', 'params'): extra = [('CKA_ALLOWED_MECHANISMS', [s.ck.CKM_AES_CBC, s.ck.CKM_SHA256_RSA_PKCS])]
        elif c == 2: extra = [('CKA_LOCAL', True)]; what += ':illegal-local'
        elif c == 3 and f not in ('data', 'cert', 'params'): extra = [('CKA_ALWAYS_SENSITIVE', True)]; what += ':illegal-always-sensitive'
        elif c == 4: extra = [('CKA_MODIFIABLE', False)]
        elif c == 5: extra = [('CKA_COPYABLE', False)] if r.random() < 0.5 else [('CKA_DESTROYABLE', False)]
        t = K.template(kind, label='obj-%d-%d' % (s.seed % 1000, len(s.objs)), token=tok, private=priv, sensitive=r.random() < 0.4, extractable=r.random() < 0.7, usage=r.random() < 0.8, extra=extra)
        if c == 6: t = [(a, v) for a, v in t if a not in ('CKA_VALUE', 'CKA_MODULUS', 'CKA_EC_PARAMS', 'CKA_PRIME')]; what += ':missing-component'
        if c == 7 and f in ('aes', 'des3', 'des2'): t = [(a, (v + b'\x00' if a == 'CKA_VALUE' else v)) for a, v in t]; what += ':bad-value-length'
        s.unit = f'create {kind} token={tok} private={priv} variant={c}'
        rs = s.step('C_CreateObject', what, s=s.S, tmpl=s.T(t))
        if rs[0]['rvname'] == 'CKR_OK': o = s.add(rs, kind); s.read_attrs(o['pos'], f, producer='C_CreateObject')
    def u_copy(s):
        r = s.rnd; o = s.pick()
        if not o: return
        c = r.randrange(8); what = 'copy'
        t = [('CKA_LABEL', b'copy-%d' % len(s.objs))]
        if c == 0: t.append(('CKA_TOKEN', r.random() < 0.5)); what += ':CKA_TOKEN'
        elif c == 1: t.append(('CKA_PRIVATE', r.random() < 0.5)); what += ':CKA_PRIVATE'
        elif c == 2 and o['fam'] not in ('data', 'cert', 'params') and not o['fam'].endswith('-pub'): t.append(('CKA_SENSITIVE', True)); what += ':CKA_SENSITIVE'
        elif c == 3 and o['fam'] not in ('data', 'cert', 'params') and not o['fam'].endswith('-pub'): t.append(('CKA_EXTRACTABLE', False)); what += ':CKA_EXTRACTABLE'
        elif c == 4: t.append(('CKA_CLASS', 'CKO_DATA')); what += ':illegal-class'
        elif c == 5: t = []
        elif c == 6: t.append(('CKA_ID', r.randbytes(r.choice([0, 4, 20]))))
        s.unit = f'copy {o["kind"]} variant={c}'
        rs = s.step('C_CopyObject', what, s=s.S, o=o['pos'], tmpl=s.T(t))
        if rs[0]['rvname'] == 'CKR_OK': n = s.add(rs, o['kind']); s.read_attrs(n['pos'], n['fam'], producer='C_CopyObject')
    def u_set(s):
        r = s.rnd; o = s.pick(golden=False) or s.pick()
        if not o: return
        f = o['fam']; c = r.randrange(9); what = 'set'
        if c == 0: t = [('CKA_LABEL', b'relabelled-%d' % s.steps)]
        elif c == 1: t = [('CKA_ID', r.randbytes(r.choice([0, 1, 16])))]
        elif c == 2: t = [(r.choice(['CKA_ENCRYPT', 'CKA_DECRYPT', 'CKA_SIGN', 'CKA_VERIFY', 'CKA_WRAP', 'CKA_UNWRAP', 'CKA_DERIVE']), r.random() < 0.5)]
        elif c == 3: t = [('CKA_SENSITIVE', True)]
        elif c == 4: t = [('CKA_EXTRACTABLE', r.random() < 0.5)]
        elif c == 5: t = [('CKA_CLASS', 'CKO_DATA')]; what += ':illegal'
        elif c == 6: t = [('CKA_VALUE', b'\x01' * 16)]; what += ':value'
        elif c == 7: t = [('CKA_START_DATE', r.choice([b'20210203', b'', b'2021020']))]
        else: t = [('CKA_LABEL', b'multi'), ('CKA_LOCAL', True)]; what += ':illegal'
        what += ':' + t[-1][0] if ':' not in what else ''; s.unit = f'set {o["kind"]} {t[0][0]}'
        s.step('C_SetAttributeValue', what, s=s.S, o=o['pos'], tmpl=s.T(t)); s.read_attrs(o['pos'], f, producer='C_SetAttributeValue')
    def u_destroy(s):
        o = s.pick(golden=False)
        if not o: return
        s.unit = 'destroy ' + o['kind']; rs = s.step('C_DestroyObject', 'destroy', s=s.S, o=o['pos'])
        if rs[0]['rvname'] == 'CKR_OK': o['alive'] = False; s.step('C_GetAttributeValue', 'dead-handle', s=s.S, o=o['pos'], tmpl=[{'t': s.ck.CKA_LABEL, 'buf': 64}]); s.step('C_DestroyObject', 'dead-handle', s=s.S, o=o['pos'])
    def u_find(s):
        r = s.rnd; c = r.randrange(7); o = s.pick()
        t = [] if c == 0 else [('CKA_CLASS', r.choice(['CKO_SECRET_KEY', 'CKO_PRIVATE_KEY', 'CKO_PUBLIC_KEY', 'CKO_DATA', 'CKO_CERTIFICATE']))] if c == 1 else [('CKA_TOKEN', r.random() < 0.5)] if c == 2 else \
            [('CKA_KEY_TYPE', r.choice(['CKK_AES', 'CKK_RSA', 'CKK_EC', 'CKK_GENERIC_SECRET'])), ('CKA_SIGN', True)] if c == 3 else [('CKA_LABEL', o['kind'].encode())] if (c == 4 and o and o['golden']) else \
            [('CKA_ID', b'rsa1024')] if c == 5 else [('CKA_PRIVATE', r.random() < 0.5), ('CKA_MODIFIABLE', True)]
        s.unit = f'find {[a for a, _ in t]}'; what = 'find:' + '+'.join(a for a, _ in t)
        s.step('C_FindObjectsInit', what, s=s.S, tmpl=s.T(t), must_ok=True)
        rs = s.step('C_FindObjects', what, cmp=('n',), s=s.S, max=r.choice([500, 500, 3])); s.step('C_FindObjectsFinal', what, s=s.S)
        if rs[0]['rvname'] != 'CKR_OK' or rs[0].get('n', 0) >= 500 or rs[0].get('n') == 3: return
        sets = []
        for i, rr in enumerate(rs):
            back = {o['pos'].hs[i]: j for j, o in enumerate(s.objs)}; sets.append(tuple(sorted(back.get(h, -1) for h in rr.get('objs', []))))
        s.part.count('comparisons'); labs = value_labels([json.dumps(x).encode().hex() for x in sets])
        if len(set(labs)) > 1: s.note('C_FindObjects', what + ':result-set', labs, {'sets': [list(x) for x in sets]})
    def u_getattr(s):
        r = s.rnd; o = s.pick()
        if not o: return
        names = r.sample(attrs_of(o['fam']), min(len(attrs_of(o['fam'])), r.randrange(1, 6))) + r.sample(['CKA_VALUE', 'CKA_PRIVATE_EXPONENT', 'CKA_MODULUS', 'CKA_EC_POINT', 'CKA_CHECK_VALUE', 'CKA_VALUE_LEN', 'CKA_WRAP_TEMPLATE', 'CKA_PUBLIC_KEY_INFO', 'CKA_URL'], r.randrange(0, 3))
        bufs = [r.choice([None, 0, 1, 8, 4096, 4096]) for _ in names]; s.unit = f'getattr {o["kind"]} {names}'
        rs = s.q.call('C_GetAttributeValue', s=s.S, o=o['pos'], tmpl=[{'t': s.ck[a], 'buf': b} for a, b in zip(names, bufs)]); s.steps += 1
        for j, a in enumerate(names):
            s.part.count('comparisons'); es = [(rr.get('tmpl') or [{}] * len(names))[j] for rr in rs]
            lens = [e.get('len') for e in es]
            if bufs[j] == 4096: labs = value_labels([e.get('data') if isinstance(l, int) and l >= 0 else None for e, l in zip(es, lens)])
            else: labs = value_labels([None if (not isinstance(l, int) or l < 0) else '00' * min(l, 100000) for l in lens])     # announced lengths only
            if len(set(labs)) > 1: s.note('C_GetAttributeValue', a, labs, {'buf': bufs[j], 'object': o['fam']})
        s.step('C_GetObjectSize', 'object-size', s=s.S, o=o['pos'])

class Prog(Prog):
    # ---------------------------------------------------------------- programs that START on an empty token
    def tokeninfo(s, what='token-info'):
        rs = s.q.call('C_GetTokenInfo', slot=Pos(s.slots)); s.steps += 1; s.part.count('comparisons'); s.part.case(('C_GetTokenInfo', what))
        labs = ['%s/flags=%x' % (r['rvname'], r.get('flags', 0)) for r in rs]; s.log.append(('C_GetTokenInfo', what, labs[0] if len(set(labs)) == 1 else labs))
        if len(set(labs)) > 1: s.note('C_GetTokenInfo', what, labs, {}); raise Disagree()
    def e_find(s):
        r = s.rnd; c = r.randrange(5); s.unit = 'empty-token find %d' % c
        t = [[], [('CKA_LABEL', b'no-such-object')], [('CKA_CLASS', r.choice(['CKO_SECRET_KEY', 'CKO_PRIVATE_KEY', 'CKO_DATA']))], [('CKA_TOKEN', True)], [('CKA_ID', b'x'), ('CKA_PRIVATE', False)]][c]; what = 'find-on-empty-token'
        s.step('C_FindObjectsInit', what, s=s.S, tmpl=s.T(t), must_ok=True); s.step('C_FindObjects', what, cmp=('n',), s=s.S, max=16); s.step('C_FindObjectsFinal', what, s=s.S)
        if r.random() < 0.5: s.tokeninfo('token-info-after-find')
    def e_tokeninfo(s):
        s.unit = 'empty-token info'; s.tokeninfo(); s.step('C_GetSessionInfo', 'session-info', s=s.S)
        rs = s.step('C_OpenSession', 'open-ro-session', slot=Pos(s.slots), flags=4)
        if rs[0]['rvname'] == 'CKR_OK': s.step('C_GetSessionInfo', 'session-info', s=Pos([r['h'] for r in rs])); s.step('C_CloseSession', 'close-session', s=Pos([r['h'] for r in rs]))
    def e_setpin(s):
        s.unit = 'empty-token setpin'; new = b'c20-user-pin-2'
        s.step('C_SetPIN', 'set-pin:wrong-old', s=s.S, old=b'not-the-pin'.hex(), new=new.hex())
        s.step('C_SetPIN', 'set-pin', s=s.S, old=USER_PIN.hex(), new=new.hex(), must_ok=True); s.tokeninfo('token-info-after-set-pin')
        s.step('C_SetPIN', 'set-pin', s=s.S, old=new.hex(), new=USER_PIN.hex(), must_ok=True)
    def e_relogin(s):
        s.unit = 'empty-token relogin'
        s.step('C_Logout', 'logout', s=s.S, must_ok=True); s.step('C_Login', 'login:wrong-pin', s=s.S, user=1, pin=b'wrong-pin'.hex()); s.tokeninfo('token-info-after-wrong-pin')
        s.step('C_Login', 'login', s=s.S, user=1, pin=USER_PIN.hex(), must_ok=True)
    def e_reinit(s):
        """re-initialisation before any object exists: close everything, C_InitToken (wrong SO PIN, then right), set the user PIN up again"""
        s.unit = 'empty-token reinit'; sl = Pos(s.slots)
        s.step('C_CloseAllSessions', 'reinit', slot=sl, must_ok=True)
        s.step('C_InitToken', 'init-token:wrong-so-pin', slot=sl, pin=b'wrong-so-pin'.hex(), label=b'c20'.hex())
        s.step('C_InitToken', 'init-token', slot=sl, pin=SO_PIN.hex(), label=b'c20-again'.hex(), must_ok=True); s.tokeninfo('token-info-after-init-token')
        rs = s.step('C_OpenSession', 'reinit', slot=sl, flags=6, must_ok=True); s.anchor = Pos([r['h'] for r in rs]); a = s.anchor
        s.step('C_Login', 'login-so', s=a, user=0, pin=SO_PIN.hex(), must_ok=True); s.step('C_InitPIN', 'init-pin', s=a, pin=USER_PIN.hex(), must_ok=True); s.step('C_Logout', 'logout', s=a, must_ok=True)
        s.step('C_Login', 'login', s=a, user=1, pin=USER_PIN.hex(), must_ok=True); s.tokeninfo('token-info-after-init-pin')
        rs = s.step('C_OpenSession', 'reinit', slot=sl, flags=6, must_ok=True); s.S = Pos([r['h'] for r in rs])
    def e_create_destroy(s):
        """objects come and go, then the token is searched while empty again (destroy-all then search)"""
        r = s.rnd; s.unit = 'empty-token create/destroy-all/search'; made = []
        for _ in range(r.randrange(1, 4)):
            kind = r.choice(['data', 'aes128', 'generic32', 'rsa1024:pub', 'x509']); tok = r.random() < 0.7
            rs = s.step('C_CreateObject', 'create-on-empty-token:' + cls_of(fam(kind)), s=s.S, tmpl=s.T(K.template(kind, label='early-%d' % len(made), token=tok, private=r.random() < 0.5)), must_ok=True); made.append(Pos([x['h'] for x in rs]))
        if r.random() < 0.5:
            rs = s.step('C_GenerateKey', 'generate-on-empty-token', s=s.S, mech=s.M('CKM_AES_KEY_GEN'), tmpl=s.T([('CKA_TOKEN', r.random() < 0.7), ('CKA_VALUE_LEN', 16), ('CKA_LABEL', b'early-gen')]), must_ok=True); made.append(Pos([x['h'] for x in rs]))
        s.step('C_FindObjectsInit', 'find-before-destroy-all', s=s.S, tmpl=[], must_ok=True); s.step('C_FindObjects', 'find-before-destroy-all', cmp=('n',), s=s.S, max=16); s.step('C_FindObjectsFinal', 'find-before-destroy-all', s=s.S)
        for p in made: s.step('C_DestroyObject', 'destroy-all', s=s.S, o=p, must_ok=True)
        s.step('C_FindObjectsInit', 'find-after-destroy-all', s=s.S, tmpl=[], must_ok=True); s.step('C_FindObjects', 'find-after-destroy-all', cmp=('n',), s=s.S, max=16); s.step('C_FindObjectsFinal', 'find-after-destroy-all', s=s.S)
        s.tokeninfo('token-info-after-destroy-all')
    def import_keys(s):
        """the fixed key set, imported through the API as token objects (compared like any other step) - from here on the program is an ordinary one"""
        s.unit = 'import of the fixed key set'
        for kind in GOLDEN_KINDS:
            rs = s.step('C_CreateObject', 'import:' + cls_of(fam(kind)), s=s.S, tmpl=s.T(K.template(kind, token=True, private=True)), must_ok=True)
            s.objs.append({'pos': Pos([r['h'] for r in rs]), 'kind': kind, 'fam': fam(kind), 'alive': True, 'golden': True})
    # ---------------------------------------------------------------- boundary sweep (deterministic): every parameter range at its edges
    def sweep_cells(s):
        ck = s.ck; C = []; add = lambda name, f: C.append((name, f)); G = lambda k: s.gold(k)['pos']; R = K.RAW
        def roundtrip(mech, what, key, pt, shape='oneshot'):
            ct = s.produce('E', mech, what, key, pt, shape); s.produce('De', mech, what, key, ct[0], 'oneshot')
            if ct[0]: bad = ct[0][:-2] + '%02x' % (int(ct[0][-2:], 16) ^ 1); s.produce('De', mech, what + ':bitflipped-ciphertext', key, bad, 'oneshot')
        # --- PSS: sLen in {0, hLen, max-1, max, max+1} per key size and hash, sign AND verify, cross-fed
        for bits in (1024, 2048):
            ml = bits // 8
            for h in ('SHA_1', 'SHA224', 'SHA256', 'SHA384', 'SHA512'):
                hm = 'CKM_' + h; hl = HLEN[hm]; mgf = {'SHA_1': 'CKG_MGF1_SHA1'}.get(h, 'CKG_MGF1_' + h); mx = ml - hl - 2
                for m in ('CKM_RSA_PKCS_PSS', 'CKM_' + h.replace('SHA_1', 'SHA1') + '_RSA_PKCS_PSS'):
                    for lab, sl in (('0', 0), ('hash-length', hl), ('max-1', mx - 1), ('max', mx), ('max+1', mx + 1)):
                        if mx < hl and lab == 'hash-length': continue
                        def f(bits=bits, hm=hm, hl=hl, mgf=mgf, m=m, lab=lab, sl=sl, h=h):
                            if not s.has(m): return
                            p = {'pss': {'hash': ck[hm], 'mgf': ck[mgf], 'slen': sl}}; what = f'{m}:slen={lab}' + ('' if m != 'CKM_RSA_PKCS_PSS' else ':' + h); pub = G('rsa%d:pub' % bits); priv = G('rsa%d:priv' % bits)
                            data = '5a' * hl if m == 'CKM_RSA_PKCS_PSS' else '5a' * 20
                            rs = s.step('C_VerifyInit', what, s=s.S, mech=s.M(m, p), key=pub)       # the verifying side on its own (whatever the signing side says)
                            if rs[0]['rvname'] == 'CKR_OK': s.step('C_Verify', what + ':bad-signature', s=s.S, data=data, sig='5a' * (bits // 8))
                            sigs = s.produce('S', s.M(m, p), what, priv, data, 'oneshot', det=False); s.verify_all(s.M(m, p), what, pub, data, [sigs[0], sigs[2]])
                        add(f'pss {m} {h} {bits} slen={lab}', f)
        # --- RSA data-length boundaries (encryption cross-decrypted, signatures compared)
        for bits in (1024, 2048):
            ml = bits // 8
            for m, p, lens in (('CKM_RSA_PKCS', None, (0, 1, ml - 12, ml - 11, ml - 10)), ('CKM_RSA_PKCS_OAEP', {'oaep': {'hash': ck.CKM_SHA_1, 'mgf': ck.CKG_MGF1_SHA1, 'source': 1}}, (0, 1, ml - 43, ml - 42, ml - 41)), ('CKM_RSA_X_509', None, (1, ml - 1, ml, ml + 1))):
                for n in lens:
                    def f(bits=bits, m=m, p=p, n=n, ml=ml):
                        what = m + ':' + ('empty-input' if n == 0 else 'max-length' if n in (ml - 11, ml - 42, ml) else 'max-length+1' if n in (ml - 10, ml - 41, ml + 1) else 'below-max'); pt = ('00' + '5a' * (n - 1)) if n else ''
                        cts = s.produce('E', s.M(m, p), what.replace(':empty-input', ''), G('rsa%d:pub' % bits), pt, 'oneshot', det=(m == 'CKM_RSA_X_509'))
                        for i in (0, 2):
                            back = s.produce('De', s.M(m, p), what.replace(':empty-input', ''), G('rsa%d:priv' % bits), cts[i], 'oneshot')
                            if m != 'CKM_RSA_X_509' and back[0] != pt: s.note_cross('C_Decrypt', m, i, 'wrong-plaintext', {}); raise Disagree()
                    add(f'rsa-enc {m} {bits} n={n}', f)
            for m, lens in (('CKM_RSA_PKCS', (0, 1, ml - 12, ml - 11, ml - 10)), ('CKM_RSA_X_509', (1, ml - 1, ml, ml + 1))):
                for n in lens:
                    def f(bits=bits, m=m, n=n, ml=ml):
                        what = m + ':' + ('max-length' if n in (ml - 11, ml) else 'max-length+1' if n in (ml - 10, ml + 1) else 'below-max'); data = ('00' + '5a' * (n - 1)) if n else ''
                        sig = s.produce('S', s.M(m), what, G('rsa%d:priv' % bits), data, 'oneshot'); s.verify_all(s.M(m), what, G('rsa%d:pub' % bits), data, sig[:1])
                    add(f'rsa-sign {m} {bits} n={n}', f)
            for labn in (1, 16):      # OAEP label (source data): the library's refusal must agree, too
                def f(bits=bits, labn=labn):
                    p = {'oaep': {'hash': ck.CKM_SHA_1, 'mgf': ck.CKG_MGF1_SHA1, 'source': 1, 'data': '6c' * labn}}
                    s.step('C_EncryptInit', 'CKM_RSA_PKCS_OAEP:label-present', s=s.S, mech=s.M('CKM_RSA_PKCS_OAEP', p), key=G('rsa%d:pub' % bits)); s.step('C_DecryptInit', 'CKM_RSA_PKCS_OAEP:label-present', s=s.S, mech=s.M('CKM_RSA_PKCS_OAEP', p), key=G('rsa%d:priv' % bits))
                add(f'oaep label {bits} {labn}', f)
            for hh, mg in (('CKM_SHA256', 'CKG_MGF1_SHA256'), ('CKM_SHA_1', 'CKG_MGF1_SHA256'), ('CKM_SHA512', 'CKG_MGF1_SHA512')):
                def f(bits=bits, hh=hh, mg=mg):
                    p = {'oaep': {'hash': ck[hh], 'mgf': ck[mg], 'source': 1}}; what = 'CKM_RSA_PKCS_OAEP:hash-other-than-sha1'
                    rs = s.step('C_EncryptInit', what, s=s.S, mech=s.M('CKM_RSA_PKCS_OAEP', p), key=G('rsa%d:pub' % bits))
                    if rs[0]['rvname'] == 'CKR_OK': s.step('C_Encrypt', what, s=s.S, data='5a' * 16, buf=512)
                add(f'oaep hash {bits} {hh}', f)
        # --- GCM: IV / AAD / tag / payload boundaries
        for kk in ('aes128', 'aes256'):
            for ivl in (1, 11, 12, 13, 16, 64, 127, 128, 129, 255, 256):
                add(f'gcm iv {kk} {ivl}', lambda kk=kk, ivl=ivl: roundtrip(s.M('CKM_AES_GCM', {'gcm': {'iv': 'a1' * ivl, 'aad': 'b2' * 8, 'tagbits': 128}}), 'CKM_AES_GCM' + ('' if ivl == 12 else ':iv-above-128-bytes' if ivl > 128 else ':iv-not-96-bits'), G(kk), '5a' * 20))
            for al in (0, 1, 15, 16, 17, 255, 4096):
                add(f'gcm aad {kk} {al}', lambda kk=kk, al=al: roundtrip(s.M('CKM_AES_GCM', {'gcm': dict(iv='a1' * 12, tagbits=128, **({'aad': 'b2' * al} if al else {}))}), 'CKM_AES_GCM', G(kk), '5a' * 33))
            for tb in (0, 8, 32, 64, 88, 96, 97, 104, 112, 120, 127, 128, 129, 136):
                cls = ':tag-below-96-bits' if tb < 96 else ':tag-above-128-bits' if tb > 128 else ':tag-not-a-multiple-of-8' if tb % 8 else ''
                add(f'gcm tag {kk} {tb}', lambda kk=kk, tb=tb, cls=cls: roundtrip(s.M('CKM_AES_GCM', {'gcm': {'iv': 'a1' * 12, 'aad': 'b2' * 4, 'tagbits': tb}}), 'CKM_AES_GCM' + cls, G(kk), '5a' * 20))
            for n in (0, 1, 15, 16, 17, 4096):
                add(f'gcm payload {kk} {n}', lambda kk=kk, n=n: roundtrip(s.M('CKM_AES_GCM', {'gcm': {'iv': 'a1' * 12, 'tagbits': 128}}), 'CKM_AES_GCM', G(kk), '5a' * n, 'multi' if n > 16 else 'oneshot'))
        # --- CTR: counter widths, with a counter block that wraps inside the message and one that does not
        for bits_ in (0, 1, 2, 7, 8, 9, 16, 31, 32, 33, 64, 127, 128, 129):
            for cb, wraps in (('00' * 16, False), ('ff' * 16, True)):
                def f(bits_=bits_, cb=cb, wraps=wraps):
                    what = 'CKM_AES_CTR:' + ('width-0' if bits_ == 0 else 'width-above-128' if bits_ > 128 else 'width-byte-multiple' if bits_ % 8 == 0 else 'width-not-byte-multiple') + (':counter-wraps' if wraps else '')
                    roundtrip(s.M('CKM_AES_CTR', {'ctr': {'bits': bits_, 'cb': cb}}), what, G('aes128'), '5a' * 70, 'oneshot'); roundtrip(s.M('CKM_AES_CTR', {'ctr': {'bits': bits_, 'cb': cb}}), what, G('aes256'), '5a' * 70, 'multi')
                add(f'ctr {bits_} wraps={wraps}', f)
        # --- block modes: payload lengths around the block size
        for m, kk, bs in (('CKM_AES_CBC', 'aes128', 16), ('CKM_AES_CBC_PAD', 'aes192', 16), ('CKM_DES3_CBC', 'des3', 8), ('CKM_DES3_CBC_PAD', 'des2', 8)):
            for n in (1, bs - 1, bs, bs + 1, 2 * bs, 4096):      # (the empty input is a known difference, covered by the random programs)
                def f(m=m, kk=kk, bs=bs, n=n):
                    what = m + ('' if (n % bs == 0 or m.endswith('_PAD')) else ':unaligned-input'); roundtrip(s.M(m, {'hex': '33' * bs}), what, G(kk), '5a' * n, 'multi' if n > bs else 'oneshot')
                add(f'block {m} {n}', f)
        # --- MACs: key sizes (HMAC minimum!) and payload lengths
        for m in ('CKM_MD5_HMAC', 'CKM_SHA_1_HMAC', 'CKM_SHA224_HMAC', 'CKM_SHA256_HMAC', 'CKM_SHA384_HMAC', 'CKM_SHA512_HMAC'):
            for kk in ('generic32', 'generic64'):
                def f(m=m, kk=kk):
                    what = m; sig = s.produce('S', s.M(m), what, G(kk), '5a' * 65, 'oneshot'); s.verify_all(s.M(m), what, G(kk), '5a' * 65, sig[:1])
                    for cut in (1, len(sig[0]) // 2 - 1):      # truncated MACs: the length check must agree
                        s.step('C_VerifyInit', what, s=s.S, mech=s.M(m), key=G(kk), must_ok=True); s.step('C_Verify', what + ':truncated-mac', s=s.S, data='5a' * 65, sig=sig[0][:2 * cut])
                add(f'hmac {m} {kk}', f)
        for m, kk, bs in (('CKM_AES_CMAC', 'aes128', 16), ('CKM_AES_CMAC', 'aes256', 16), ('CKM_DES3_CMAC', 'des3', 8)):
            for n in (0, 1, bs - 1, bs, bs + 1, 2 * bs):
                def f(m=m, kk=kk, n=n):
                    sig = s.produce('S', s.M(m), m, G(kk), '5a' * n, 'multi' if n > 1 else 'oneshot'); s.verify_all(s.M(m), m, G(kk), '5a' * n, sig[:1])
                add(f'cmac {m} {kk} {n}', f)
        # --- digests around the padding boundaries
        for m in HASHES:
            bl = 128 if m in ('CKM_SHA384', 'CKM_SHA512') else 64; pad = 17 if bl == 128 else 9
            for n in (0, bl - pad, bl - pad + 1, bl - 1, bl, bl + 1, 2 * bl - pad, 2 * bl - pad + 1):
                add(f'digest {m} {n}', lambda m=m, n=n: (s.produce('D', s.M(m), m, None, '5a' * n, 'oneshot'), s.produce('D', s.M(m), m, None, '5a' * n, 'multi')))
        # --- ECDH: point encodings, shared data, KDF; DH: public value encodings
        for cv in ('ec_p256', 'ec_p384', 'ec_p521'):
            for raw in (False, True):
                for shared in (None, '01', '5a' * 32):
                    for kdf in (1, 2):
                        if kdf == 2 and shared is None and raw: continue
                        def f(cv=cv, raw=raw, shared=shared, kdf=kdf):
                            pt = R[cv + 'b']['CKA_EC_POINT']; pt = (pt[4:] if len(pt) < 260 else pt[6:]) if raw else pt
                            what = 'CKM_ECDH1_DERIVE' + (':raw-point' if raw else '') + (':shared-data' if shared else '') + (':kdf-sha1' if kdf == 2 else '')
                            p = {'ecdh1': dict(kdf=kdf, public=pt, **({'shared': shared} if shared else {}))}
                            for vl in (None, 16, {'ec_p256': 32, 'ec_p384': 48, 'ec_p521': 66}[cv], {'ec_p256': 33, 'ec_p384': 49, 'ec_p521': 67}[cv]):
                                t = s.SECRET_T + [('CKA_KEY_TYPE', 'CKK_GENERIC_SECRET')] + ([('CKA_VALUE_LEN', vl)] if vl is not None else [])
                                rs = s.step('C_DeriveKey', what + ('' if vl is None or vl <= 66 - 18 * (cv != 'ec_p521') - 16 * (cv == 'ec_p256') else ':value-len-above-field-size'), s=s.S, mech=s.M('CKM_ECDH1_DERIVE', p), key=G(cv + ':priv'), tmpl=s.T(t))
                                if rs[0]['rvname'] == 'CKR_OK': o = s.add(rs, 'generic32'); s.read_attrs(o['pos'], 'generic', ['CKA_VALUE', 'CKA_VALUE_LEN'], producer='C_DeriveKey')
                        add(f'ecdh {cv} raw={raw} shared={shared is not None} kdf={kdf}', f)
        for cv in ('ec_p256', 'ec_p384'):
            for raw in (False, True):
                def f(cv=cv, raw=raw):
                    pt = zero_secret_peers()[cv]; pt = pt if raw else ('04%02x' % (len(pt) // 2)) + pt
                    for vl in (None, 16):
                        t = s.SECRET_T + [('CKA_KEY_TYPE', 'CKK_GENERIC_SECRET')] + ([('CKA_VALUE_LEN', vl)] if vl is not None else [])
                        rs = s.step('C_DeriveKey', 'CKM_ECDH1_DERIVE:secret-with-leading-zero-byte' + (':raw-point' if raw else ''), s=s.S, mech=s.M('CKM_ECDH1_DERIVE', {'ecdh1': dict(kdf=1, public=pt)}), key=G(cv + ':priv'), tmpl=s.T(t))
                        if rs[0]['rvname'] == 'CKR_OK': o = s.add(rs, 'generic32'); s.read_attrs(o['pos'], 'generic', ['CKA_VALUE', 'CKA_VALUE_LEN'], producer='C_DeriveKey')
                add(f'ecdh {cv} raw={raw} secret with a leading zero byte', f)
        y = R['dh1024b']['CKA_VALUE']; lz = zero_secret_peers()
        for lab, pv in (('', y), (':secret-with-leading-zero-byte', lz['dh1024']), (':leading-zero', '00' + y), (':truncated', y[:-2]), (':one', '01'), (':zero', '00'), (':equals-p', R['dh1024']['CKA_PRIME']), (':empty', '')):
            def f(lab=lab, pv=pv):
                for vl in (None, 16, 128, 129):
                    t = s.SECRET_T + [('CKA_KEY_TYPE', 'CKK_GENERIC_SECRET')] + ([('CKA_VALUE_LEN', vl)] if vl is not None else [])
                    rs = s.step('C_DeriveKey', 'CKM_DH_PKCS_DERIVE' + lab + (':value-len-above-prime-size' if vl == 129 else ''), s=s.S, mech=s.M('CKM_DH_PKCS_DERIVE', {'hex': pv}), key=G('dh1024:priv'), tmpl=s.T(t))
                    if rs[0]['rvname'] == 'CKR_OK': o = s.add(rs, 'generic32'); s.read_attrs(o['pos'], 'generic', ['CKA_VALUE', 'CKA_VALUE_LEN'], producer='C_DeriveKey')
            add(f'dh public{lab}', f)
        # --- key wrapping: payload sizes around the 8-byte granularity of RFC 3394 / 5649
        for wm in ('CKM_AES_KEY_WRAP', 'CKM_AES_KEY_WRAP_PAD'):
            for tk in ('generic1', 'des2', 'aes192', 'generic32', 'generic64'):
                def f(wm=wm, tk=tk):
                    n = len(K.SECRET[tk][1]); what = wm + ('' if (n % 8 == 0 and n >= 16) or wm.endswith('_PAD') else ':payload-not-a-multiple-of-8' if n % 8 else ':payload-below-16')
                    rs = s.step('C_WrapKey', what, cmp=('out',), s=s.S, mech=s.M(wm), wkey=G('aes256'), key=G(tk), buf=512, must_ok=True)
                    t = s.SECRET_T + [('CKA_KEY_TYPE', {'generic1': 'CKK_GENERIC_SECRET', 'des2': 'CKK_DES2', 'aes192': 'CKK_AES', 'generic32': 'CKK_GENERIC_SECRET', 'generic64': 'CKK_GENERIC_SECRET'}[tk])]
                    ru = s.step('C_UnwrapKey', what, s=s.S, mech=s.M(wm), ukey=G('aes256'), wrapped=s.outs(rs)[0], tmpl=s.T(t), must_ok=True); o = s.add(ru, tk); s.read_attrs(o['pos'], o['fam'], ['CKA_VALUE', 'CKA_VALUE_LEN', 'CKA_KEY_TYPE'], producer='C_UnwrapKey')
                add(f'wrap {wm} {tk}', f)
        return C

def nested_shapes(ck):
    """inner templates whose LAST (highest-numbered) entry is of each kind the stores encode differently"""
    return [('last-entry-boolean', [('CKA_CLASS', ck.CKO_SECRET_KEY), ('CKA_EXTRACTABLE', True)]), ('last-entry-ulong', [('CKA_CLASS', ck.CKO_SECRET_KEY), ('CKA_KEY_TYPE', ck.CKK_AES)]),
            ('last-entry-ulong-2', [('CKA_SENSITIVE', False), ('CKA_VALUE_LEN', 16)]), ('last-entry-byte-string', [('CKA_CLASS', ck.CKO_SECRET_KEY), ('CKA_KEY_TYPE', ck.CKK_GENERIC_SECRET), ('CKA_ID', b'inner-id')]),
            ('single-byte-string', [('CKA_LABEL', b'inner-label')]), ('last-entry-empty-byte-string', [('CKA_CLASS', ck.CKO_SECRET_KEY), ('CKA_ID', b'')]),
            ('last-entry-mechanism-set', [('CKA_CLASS', ck.CKO_SECRET_KEY), ('CKA_ALLOWED_MECHANISMS', [ck.CKM_AES_CBC, ck.CKM_AES_ECB])]), ('single-boolean', [('CKA_TOKEN', False)])]
NESTED_ATTRS = {'secret': ['CKA_WRAP_TEMPLATE', 'CKA_UNWRAP_TEMPLATE', 'CKA_DERIVE_TEMPLATE'], 'public': ['CKA_WRAP_TEMPLATE'], 'private': ['CKA_UNWRAP_TEMPLATE']}
class Prog(Prog):
    def read_nested(s, o, producer):
        """array attributes (CKA_WRAP_TEMPLATE ...) read with the three-step protocol and compared entry by entry"""
        for a in o.get('nested', []):
            rs = s.q.call('X_GetTemplateAttr', s=s.S, o=o['pos'], t=s.ck[a]); s.steps += 1; s.part.count('comparisons'); s.part.case(('nested', a))
            labs = value_labels([json.dumps([r['rvname'], r.get('n'), sorted((e.get('t'), e.get('len'), e.get('data')) for e in r.get('attrs', []))]).encode().hex() for r in rs])
            s.log.append(('X_GetTemplateAttr', a, [(r['rvname'], r.get('n')) for r in rs]))
            if len(set(labs)) > 1:
                cnt = ['%s/entries=%s' % (r['rvname'], r.get('n')) for r in rs]
                s.note(producer, a + ':nested-template', cnt if len(set(cnt)) > 1 else labs, {'object': o['kind'], 'shape': o.get('shape'), 'read': [(r['rvname'], r.get('n'), r.get('attrs')) for r in rs]}); o['diverged'] = True
    def create_nested(s, kind, attr, shape, inner, tok=True):
        f = fam(kind); s.unit = f'create {kind} with {attr} {shape} token={tok}'
        t = K.template(kind, label='nested-%d-%d' % (s.seed % 1000, len(s.objs)), token=tok, private=False, extra=[(attr, inner)])
        rs = s.step('C_CreateObject', 'create:' + cls_of(f) + ':' + attr, s=s.S, tmpl=s.T(t))
        if rs[0]['rvname'] != 'CKR_OK': return None
        o = s.add(rs, kind); o['nested'] = [attr]; o['shape'] = shape; s.read_attrs(o['pos'], f, producer='C_CreateObject'); s.read_nested(o, 'C_CreateObject'); return o
    def u_nested(s):
        r = s.rnd; kind = r.choice(['aes128', 'aes256', 'generic32', 'des3', 'rsa1024:pub', 'rsa2048:priv', 'ec_p256:pub', 'ec_p256:priv']); shape, inner = r.choice(nested_shapes(s.ck))
        o = s.create_nested(kind, r.choice(NESTED_ATTRS[cls_of(fam(kind))]), shape, inner, tok=r.random() < 0.75)
        if o and o['fam'] == 'aes' and 'CKA_WRAP_TEMPLATE' in o['nested']: s.wrap_behaviour(o)
    def wrap_behaviour(s, o):
        """what the wrap template DOES: wrapping a key that does not match it must be refused alike"""
        for tk in ('generic32', 'aes128'): s.step('C_WrapKey', 'CKM_AES_KEY_WRAP:key-with-wrap-template', s=s.S, mech=s.M('CKM_AES_KEY_WRAP'), wkey=o['pos'], key=s.gold(tk)['pos'], buf=512)
    def u_restart(s, how=None):
        """C_Finalize / C_Initialize (or four NEW processes) in the middle of the program: every token object must be found again under all
        four configurations and read back the same; session objects are gone"""
        how = how or s.rnd.choice(['C_Finalize+C_Initialize', 'new-process']); s.unit = 'restart: ' + how; q = s.q
        cand = [o for o in s.objs if o['alive']]; keep = []
        for o in cand:       # which objects are token objects, and under which label (read per configuration, not compared here)
            vals = [x.getattrs(s.S.hs[i], o['pos'].hs[i], ['CKA_TOKEN', 'CKA_LABEL'])[1] for i, x in enumerate(q.x)]
            if all(v.get('CKA_TOKEN') == b'\x01' for v in vals) and len({v.get('CKA_LABEL') for v in vals}) == 1: o['label'] = vals[0]['CKA_LABEL']; keep.append(o)
            else: o['alive'] = False
        labels = [o['label'] for o in keep]; keep = [o for o in keep if labels.count(o['label']) == 1]
        s.step('C_Finalize', 'restart', must_ok=True)
        if how == 'new-process': q.new_processes()
        s.step('C_Initialize', 'restart', must_ok=True)
        rs = s.step('C_OpenSession', 'restart', slot=Pos(s.slots), flags=6, must_ok=True); s.anchor = Pos([r['h'] for r in rs])
        s.step('C_Login', 'restart', s=s.anchor, user=1, pin=USER_PIN.hex(), must_ok=True)
        rs = s.step('C_OpenSession', 'restart', slot=Pos(s.slots), flags=6, must_ok=True); s.S = Pos([r['h'] for r in rs])
        found = []
        for i, x in enumerate(q.x):
            m = {}
            for h in x.findall(s.S.hs[i])[1]: m.setdefault(x.getattrs(s.S.hs[i], h, ['CKA_LABEL'])[1].get('CKA_LABEL'), []).append(h)
            found.append(m)
        s.part.count('comparisons'); cnt = len_labels([sum(len(v) for v in m.values()) for m in found])
        if len(set(cnt)) > 1: s.note('C_FindObjects', 'objects-after-restart:count', cnt, {'counts': [sum(len(v) for v in m.values()) for m in found]})
        for o in keep:
            hs = [found[i].get(o['label'], [None])[0] for i in range(4)]; s.part.count('comparisons')
            if any(h is None for h in hs):
                s.note('C_FindObjects', 'object-after-restart', ['found' if h else 'lost' for h in hs], {'label': o['label'].decode('latin-1'), 'kind': o['kind']}); o['alive'] = False; continue
            o['pos'].hs[:] = hs
        for o in keep:
            if not o['alive'] or o.get('diverged'): continue
            names = [a for a in attrs_of(o['fam']) if not (o.get('random') and a in ('CKA_VALUE', 'CKA_CHECK_VALUE'))]
            s.read_attrs(o['pos'], o['fam'], names, producer='restart'); s.read_nested(o, 'restart')
            if o.get('nested') and o['fam'] == 'aes' and 'CKA_WRAP_TEMPLATE' in o['nested'] and o['alive'] and not o.get('diverged'): s.wrap_behaviour(o)
        s.part.count('restarts')
    def directed_nested_restart(s):
        """deterministic: a token key per (class, template attribute, inner shape), then both kinds of restart with everything re-compared"""
        for kind in ('aes128', 'rsa1024:pub', 'rsa1024:priv'):
            for attr in NESTED_ATTRS[cls_of(fam(kind))]:
                for shape, inner in nested_shapes(s.ck):
                    try: s.create_nested(kind, attr, shape, inner, tok=True)
                    except Disagree: pass
        for how in ('C_Finalize+C_Initialize', 'new-process'):
            try: s.u_restart(how)
            except Disagree: return

UNITS = [('u_create', 5), ('u_copy', 4), ('u_set', 4), ('u_destroy', 2), ('u_find', 3), ('u_getattr', 3), ('u_digest', 2), ('u_sym', 6), ('u_mac', 3), ('u_rsa_sign', 3), ('u_rsa_pss', 2), ('u_rsa_enc', 2),
         ('u_ecdsa', 2), ('u_eddsa', 1.5), ('u_dsa', 1.5), ('u_wrap', 5), ('u_derive', 4), ('u_keygen', 1.5), ('u_random', 0.5), ('u_nested', 2), ('u_restart', 1.2)]

def build_golden(env, i, d, empty=False):
    cfg, be = CONFIGS[i]; p = env['paths'][cfg]; ck = env['ck']
    x = Exec(p['exe'], p['lib'], mkconf(d, be), ck, env=dict(SAN_ENV), stderr=f'{d}/stderr.log', trace=None)
    def ok(r): assert r['rv'] == 0, r; return r
    ok(x.call('C_Initialize')); slot = x.call('C_GetSlotList', count=8)['slots'][-1]; ok(x.call('C_InitToken', slot=slot, pin=SO_PIN.hex(), label=b'c20'.hex()))
    slot = [sl for sl in x.call('C_GetSlotList', count=8)['slots'] if x.call('C_GetTokenInfo', slot=sl)['flags'] & ck.CKF_TOKEN_INITIALIZED][0]
    s = ok(x.call('C_OpenSession', slot=slot))['h']; ok(x.call('C_Login', s=s, user=0, pin=SO_PIN.hex())); ok(x.call('C_InitPIN', s=s, pin=USER_PIN.hex())); ok(x.call('C_Logout', s=s)); ok(x.call('C_Login', s=s, user=1, pin=USER_PIN.hex()))
    for kind in ([] if empty else GOLDEN_KINDS): ok(x.call('C_CreateObject', s=s, tmpl=x.T(K.resolve(ck, K.template(kind, token=True, private=True)))))
    ml = x.call('C_GetMechanismList', slot=slot, count=300)['mechs']; info = {}
    for m in ml: r = x.call('C_GetMechanismInfo', slot=slot, m=m); info[ck.MECH.get(m, hex(m))] = (r['min'], r['max'], r['flags'])
    ok(x.call('C_Finalize')); x.close(); os.unlink(f'{d}/stderr.log')
    return info

EMPTY_UNITS = [('e_find', 4), ('e_tokeninfo', 2), ('e_setpin', 1.5), ('e_relogin', 1.5), ('e_reinit', 1.5), ('e_create_destroy', 3)]
def run_program(env, seed, part, sweep=None, directed=None):
    """one program on the four configurations.  Three shapes: ordinary (the fixed key set is already on the token), empty-start (a
    quarter of the programs: the token holds NOTHING at first - searches, token info, PIN operations, re-initialisation, create/destroy-all/search -
    then the key set is imported through the API and the program goes on as an ordinary one), and sweep=(lo, hi): cells lo..hi of the
    deterministic parameter-boundary sweep"""
    rnd0 = random.Random(seed ^ 0x5eed); empty = sweep is None and directed is None and rnd0.random() < 0.25
    d = os.path.join(env['scratch'], 'p%d%s%s' % (seed, '-s%d' % sweep[0] if sweep else '', '-' + directed if directed else ''))
    for attempt in (0, 1):
        shutil.rmtree(d, ignore_errors=True); os.makedirs(d)
        try: q = Quad(env, d, golden=env['golden_empty'] if empty else env['golden']); break
        except OSError as e:      # the executor / library is being re-linked by a concurrent build: wait for the build lock, try once more
            import subprocess; subprocess.run([sys.executable, f'{VERIF}/tools/build.py', 'asan', 'botan'], stdout=subprocess.DEVNULL, stderr=subprocess.DEVNULL)
            if attempt == 1: part.inconc('executor could not be started: %r' % (e,)); return
    P = Prog(env, seed, part); P.q = q; ck = env['ck']
    def fresh_session():
        rs = q.call('C_OpenSession', slot=Pos(P.slots), flags=6); P.S = Pos([r['h'] for r in rs])
    try:
        for r in q.call('C_Initialize'): assert r['rv'] == 0, r
        slots = []
        for x in q.x: slots.append([sl for sl in x.call('C_GetSlotList', count=8)['slots'] if x.call('C_GetTokenInfo', slot=sl)['flags'] & ck.CKF_TOKEN_INITIALIZED][0])
        P.slots = slots
        P.anchor = Pos([r['h'] for r in q.call('C_OpenSession', slot=Pos(slots), flags=6)])
        for r in q.call('C_Login', s=P.anchor, user=1, pin=USER_PIN.hex()): assert r['rv'] == 0, r
        if empty:
            part.count('programs_starting_on_an_empty_token'); names = [u for u, _ in EMPTY_UNITS]; w = [x for _, x in EMPTY_UNITS]; done = set(); ok = True
            for _ in range(P.rnd.randrange(4, 9)):
                u = P.rnd.choices(names, w)[0]
                if u == 'e_reinit' and u in done: continue
                done.add(u); fresh_session(); part.count('units'); part.count('unit:' + u)
                try: getattr(P, u)()
                except Disagree:
                    if u in ('e_setpin', 'e_relogin', 'e_reinit'): ok = False; break      # the login state / PINs may now differ: everything after would cascade
                q.call('C_CloseSession', s=P.S)
            if ok:
                fresh_session(); n0 = P.steps
                try: P.import_keys()
                except Disagree: ok = False
                P.steps = n0 + (P.steps - n0) // 8       # (the import counts little towards the length of the program)
                q.call('C_CloseSession', s=P.S)
            if not ok:
                part.count('programs'); part.count('steps', P.steps); return
        else:
            # golden objects by label
            hs = [x.findall(P.anchor.hs[i])[1] for i, x in enumerate(q.x)]; bylabel = [{} for _ in q.x]
            for i, x in enumerate(q.x):
                for h in hs[i]: bylabel[i][x.getattrs(P.anchor.hs[i], h, ['CKA_LABEL'])[1]['CKA_LABEL'].decode()] = h
            for kind in GOLDEN_KINDS: P.objs.append({'pos': Pos([bylabel[i].get(kind, 0) for i in range(4)]), 'kind': kind, 'fam': fam(kind), 'alive': True, 'golden': True})
            assert all(all(o['pos'].hs) for o in P.objs), 'golden objects missing'
        if directed:
            fresh_session(); getattr(P, 'directed_' + directed)(); q.call('C_CloseSession', s=P.S); part.count('directed_programs')
        elif sweep:
            cells = P.sweep_cells()[sweep[0]:sweep[1]]
            for name, f in cells:
                fresh_session(); P.unit = 'sweep: ' + name
                try: f()
                except Disagree: pass
                q.call('C_CloseSession', s=P.S); part.count('sweep_cells')
            part.count('sweep_programs')
        else:
            names = [u for u, _ in UNITS]; w = [x for _, x in UNITS]; units = 0
            while P.steps < env['ncalls'] + (10 if empty else 0):
                fresh_session(); u = P.rnd.choices(names, w)[0]; n0 = P.steps
                try: getattr(P, u)()
                except Disagree: pass
                q.call('C_CloseSession', s=P.S); units += 1; part.count('units'); part.count('unit:' + u)
                if P.steps == n0 and units > 400: break
        part.count('programs'); part.count('steps', P.steps)
        if len(part.samples) < 2 and (empty or not part.samples): part.samples.append({'seed': seed, 'shape': 'empty-start' if empty else 'sweep %s' % (sweep,) if sweep else directed or 'ordinary', 'steps': P.steps, 'history_head': [list(map(str, h)) for h in P.log[:16]]})
        for x in q.x:
            for cat, loc in x.ubsan_reports()[:10]: part.observe('side:ubsan ' + loc, cat[:100])
    except Died as e:
        part.observe('side:C17 library terminated the host', {'kind': e.kind(), 'fn': e.fn, 'where': e.where(), 'seed': seed, 'unit': P.unit}); part.inconc(f'executor died ({e.kind()} in {e.fn}) seed={seed} unit={P.unit}')
    except Hang: part.inconc(f'executor hang seed={seed} unit={P.unit}')
    except AssertionError as e: part.inconc(f'setup failed seed={seed}: {e!r}')
    finally: q.kill(); shutil.rmtree(d, ignore_errors=True)

def worker(job):
    part = Part(); env = dict(job['env']); env['ck'] = CK(env['hdr']); env['scratch'] = os.path.join(env['scratch'], 'w%d' % os.getpid()); os.makedirs(env['scratch'], exist_ok=True)
    for seed in job.get('seeds', []): run_program(env, seed, part)
    for sw in job.get('sweeps', []): run_program(env, job['sweep_seed'], part, sweep=sw)
    for dn in job.get('directed', []): run_program(env, job['sweep_seed'], part, directed=dn)
    return part

# ---- the same program over TWO processes sharing the token, on the four configurations
MP_SO = b'so-pin-c20mp'; MP_US = b'user-pin-c20mp'
def mp_transcript(ctx, cfg, backend, seed, nsteps):
    """a seeded program of two processes on one token (create / destroy-newest / destroy-any / set CKA_ID / look = search everything and read every object through fresh handles);
    -> the transcript [(step, process, return code, what the process sees)], which must not depend on the configuration"""
    ck = ctx.ck; rnd = random.Random(seed); d = ctx.dir(f'c20-mp-{cfg}-{backend}-{seed}'); X = []; tr = []
    try:
        x = ctx.new_exec(cfg, d, backend); X.append(x); assert x.call('C_Initialize', locking='os')['rv'] == 0
        slot = x.call('C_GetSlotList', count=8)['slots'][-1]; assert x.call('C_InitToken', slot=slot, pin=MP_SO.hex(), label=b'c20mp'.hex())['rv'] == 0
        s = x.call('C_OpenSession', slot=slot)['h']; assert x.call('C_Login', s=s, user=0, pin=MP_SO.hex())['rv'] == 0 and x.call('C_InitPIN', s=s, pin=MP_US.hex())['rv'] == 0 and x.call('C_Logout', s=s)['rv'] == 0
        assert x.call('C_Login', s=s, user=1, pin=MP_US.hex())['rv'] == 0; S = [s]
        y = ctx.new_exec(cfg, d, backend, reuse_dir=True); X.append(y); assert y.call('C_Initialize', locking='os')['rv'] == 0
        sl = [q for q in y.call('C_GetSlotList', count=8)['slots'] if y.call('C_GetTokenInfo', slot=q)['flags'] & ck.CKF_TOKEN_INITIALIZED][0]
        s = y.call('C_OpenSession', slot=sl)['h']; assert y.call('C_Login', s=s, user=1, pin=MP_US.hex())['rv'] == 0; S.append(s)
        alive = []; n = 0
        def look(p):
            seen = []
            for h in X[p].findall(S[p], {})[1]:
                rvn, v = X[p].getattrs(S[p], h, ['CKA_LABEL', 'CKA_ID', 'CKA_VALUE', 'CKA_PRIVATE'])
                seen.append((rvn,) + tuple((v.get(a) or b'').hex() for a in ('CKA_LABEL', 'CKA_ID', 'CKA_VALUE', 'CKA_PRIVATE')))
            return sorted(seen)
        for step in range(nsteps):
            p = rnd.randrange(2); op = rnd.choice(['create', 'create', 'destroy-newest', 'destroy-newest', 'destroy-any', 'set', 'look'])
            if op == 'create' or not alive:
                n += 1; lab = b'obj-%d' % n; op = 'create'
                r = X[p].call('C_CreateObject', s=S[p], tmpl=X[p].T({'CKA_CLASS': ck.CKO_SECRET_KEY, 'CKA_KEY_TYPE': ck.CKK_GENERIC_SECRET, 'CKA_TOKEN': True, 'CKA_PRIVATE': bool(n % 3), 'CKA_LABEL': lab, 'CKA_ID': b'id-%d' % n,
                                                                 'CKA_VALUE': b'value-of-%d-' % n + bytes([65 + n % 26]) * 12, 'CKA_SENSITIVE': False, 'CKA_EXTRACTABLE': True}))
                if r['rv'] == 0: alive.append(lab)
                tr.append((step, p, op, r['rvname']))
            elif op == 'look': tr.append((step, p, op, look(p)))
            else:
                lab = alive[-1] if op == 'destroy-newest' else rnd.choice(alive); hs = X[p].findall(S[p], {'CKA_LABEL': lab})[1]
                if len(hs) != 1: tr.append((step, p, op, 'found-%d' % len(hs)))
                elif op == 'set': tr.append((step, p, op, X[p].call('C_SetAttributeValue', s=S[p], o=hs[0], tmpl=X[p].T({'CKA_ID': b'id-set-at-%d' % step}))['rvname']))
                else:
                    r = X[p].call('C_DestroyObject', s=S[p], o=hs[0]); tr.append((step, p, op, r['rvname']))
                    if r['rv'] == 0: alive.remove(lab)
            if op != 'look' and rnd.random() < 0.7: tr.append((step, 1 - p, 'look-after-' + op, look(1 - p)))      # the OTHER process looks at once
        for x in X: x.call('C_Finalize'); x.close()
        X = []
    finally:
        for x in X: x.kill()
    return tr
def multi_process_programs(ctx):
    for i in range(ctx.q(6, 40)):
        seed = ctx.seed * 7919 + i; trs = {}
        try:
            for cfg, be in CONFIGS: trs[(cfg, be)] = mp_transcript(ctx, cfg, be, seed, ctx.q(36, 60))
        except (AssertionError, Died, Hang) as e: ctx.inconc(f'two-process program {seed} could not be run: {e!r}'[:300]); continue
        ref = trs[CONFIGS[0]]
        for c in CONFIGS[1:]:
            if trs[c] != ref:
                k = next((j for j, (a, b) in enumerate(zip(ref, trs[c])) if a != b), min(len(ref), len(trs[c])))
                a = ref[k] if k < len(ref) else None; b = trs[c][k] if k < len(trs[c]) else None; dim = 'file~db' if c[1] != CONFIGS[0][1] and c[0] == CONFIGS[0][0] else 'openssl~botan' if c[1] == CONFIGS[0][1] else 'openssl/file~botan/db'
                ctx.violation(f'two-process-program|{(a or b)[2]}|{dim}|differ', 'the same program run by two processes sharing the token gives different answers depending on the configuration',
                              {'seed': seed, 'step': k, CONFIGS[0][0] + '/' + CONFIGS[0][1]: clip(a, 400), c[0] + '/' + c[1]: clip(b, 400), 'before': [clip(e, 120) for e in ref[max(0, k - 4):k]]}); break
        ctx.case(('two-process-program', len(ref) // 20), sample={'two_process_program': [clip(e, 100) for e in ref[:5]], 'seed': seed} if i == 0 else None, n=len(ref))
        ctx.extra['two_process_programs'] = ctx.extra.get('two_process_programs', 0) + 1

def conc_transcripts(ctx, cfg, backend, seed, nproc, iters):
    """nproc processes run AT THE SAME TIME on one token, each creating / relabelling / reading back / destroying only its OWN token objects (so what each process sees of its own
    objects cannot depend on the interleaving) -> per-process transcripts, which must be the same whatever the configuration"""
    ck = ctx.ck; d = ctx.dir(f'c20-conc-{cfg}-{backend}-{seed}'); X = []; out = []
    try:
        x = ctx.new_exec(cfg, d, backend); assert x.call('C_Initialize', locking='os')['rv'] == 0
        slot = x.call('C_GetSlotList', count=8)['slots'][-1]; assert x.call('C_InitToken', slot=slot, pin=MP_SO.hex(), label=b'c20cc'.hex())['rv'] == 0
        s = x.call('C_OpenSession', slot=slot)['h']; assert x.call('C_Login', s=s, user=0, pin=MP_SO.hex())['rv'] == 0 and x.call('C_InitPIN', s=s, pin=MP_US.hex())['rv'] == 0
        x.call('C_Finalize'); x.close(); S = []; scripts = []
        for p in range(nproc):
            y = ctx.new_exec(cfg, d, backend, reuse_dir=True); y.timeout = 600; X.append(y); assert y.call('C_Initialize', locking='os')['rv'] == 0
            sl = [q for q in y.call('C_GetSlotList', count=8)['slots'] if y.call('C_GetTokenInfo', slot=q)['flags'] & ck.CKF_TOKEN_INITIALIZED][0]
            sh = y.call('C_OpenSession', slot=sl)['h']; assert y.call('C_Login', s=sh, user=1, pin=MP_US.hex())['rv'] == 0; S.append(sh)
            rnd = random.Random(seed * 31 + p); Sx = []
            for it in range(iters):
                lab = b'p%d-o%d' % (p, it); val = b'value-%d-%d-' % (p, it) + bytes([65 + it % 26]) * 10
                c = len(Sx); Sx.append({'fn': 'C_CreateObject', 's': sh, 'tmpl': y.T({'CKA_CLASS': ck.CKO_DATA, 'CKA_TOKEN': True, 'CKA_PRIVATE': bool(it % 2), 'CKA_LABEL': lab, 'CKA_APPLICATION': b'app-%d' % p, 'CKA_VALUE': val})})
                Sx.append({'fn': 'C_SetAttributeValue', 's': sh, 'o': '$%d.h' % c, 'tmpl': y.T({'CKA_LABEL': lab + b'-relabelled'})})
                Sx.append({'fn': 'C_GetAttributeValue', 's': sh, 'o': '$%d.h' % c, 'tmpl': [{'t': ck.CKA_LABEL, 'buf': 64}, {'t': ck.CKA_APPLICATION, 'buf': 64}, {'t': ck.CKA_VALUE, 'buf': 64}]})
                if it % 3 == 0: Sx.append({'fn': 'C_DestroyObject', 's': sh, 'o': '$%d.h' % c})
                # (no search: C_FindObjectsInit walks over the other processes' objects too, also half-built ones, so its answer is not a function of this process's own history)
            scripts.append(Sx)
        for p, y in enumerate(X): y.send({'fn': 'threads', 'scripts': [scripts[p]], 'timeout': 600})
        res = [y.recv(600)['results'][0] for y in X]; overlap = 0
        for p in range(nproc):
            t = []
            for q, st in zip(scripts[p], res[p]):
                e = (q['fn'], ck.rv(st['rv']))
                if q['fn'] == 'C_GetAttributeValue': e += tuple((a.get('data') or '') for a in st.get('tmpl', []))
                if q['fn'] == 'C_FindObjects': e += (st.get('n'),)
                t.append(e)
            out.append(t)
        spans = [(min(st['ns_call'] for st in r), max(st['ns_ret'] for st in r)) for r in res]
        overlap = sum(1 for a in range(nproc) for b in range(a + 1, nproc) if spans[a][0] < spans[b][1] and spans[b][0] < spans[a][1])
        for y in X: y.call('C_Finalize'); y.close()
        X = []
    finally:
        for y in X: y.kill()
    return out, overlap

def concurrent_programs(ctx):
    cfgs = ctx.q([('asan', 'file'), ('asan', 'db')], CONFIGS)
    for i in range(ctx.q(3, 12)):
        seed = ctx.seed * 104729 + i; nproc = 3 + i % 2; trs = {}; ov = {}
        try:
            for c in cfgs: trs[c], ov[c] = conc_transcripts(ctx, c[0], c[1], seed, nproc, ctx.q(30, 60))
        except (AssertionError, Died, Hang) as e: ctx.inconc(f'concurrent program {seed} could not be run: {e!r}'[:300]); continue
        ref = trs[cfgs[0]]
        for c in cfgs[1:]:
            for p in range(nproc):
                if trs[c][p] != ref[p]:
                    k = next((j for j, (a, b) in enumerate(zip(ref[p], trs[c][p])) if a != b), 0); a = ref[p][k]; b = trs[c][p][k]
                    dim = 'file~db' if c[0] == cfgs[0][0] else 'openssl~botan' if c[1] == cfgs[0][1] else 'openssl/file~botan/db'
                    ctx.violation(f'concurrent-own-objects-program|{a[0]}|{dim}|differ', 'processes that run at the same time on one token, each using only its own token objects, get different answers depending on the configuration',
                                  {'seed': seed, 'processes': nproc, 'process': p, 'step': k, cfgs[0][0] + '/' + cfgs[0][1]: clip(a, 300), c[0] + '/' + c[1]: clip(b, 300)}); break
        n = sum(len(t) for t in ref); ctx.case(('concurrent-program', nproc, min(ov.values()) > 0), nontrivial=min(ov.values()) > 0, sample={'concurrent_program': {'processes': nproc, 'steps': n, 'overlapping_process_pairs': ov[cfgs[-1]]}} if i == 0 else None, n=n)
        ctx.extra['concurrent_programs'] = ctx.extra.get('concurrent_programs', 0) + 1

def run(ctx):
    ctx.rule = ('one program = a seeded sequence of units (object management: create/copy/set/destroy/find/get-attribute on all classes; crypto: digests, AES/DES3 modes, HMAC/CMAC, RSA/ECDSA/EdDSA/DSA sign+verify, '
                'RSA encryption, wrap/unwrap, derive, key generation; every unit in one of the size-query / small-buffer / one-shot / multi-part shapes) executed in lock-step on OpenSSL/file, OpenSSL/db, Botan/file, Botan/db '
                'holding the same imported keys; one evaluation = one compared item (return codes of a step, an output, an attribute); distinct = (entry point, mechanism or attribute class) pairs compared; '
                'randomised outputs are cross-fed to all four configurations; plus seeded programs run by TWO processes sharing one token (create / destroy / set / search-and-read-everything, the other process looking after every change), whose transcripts must be the same on the four configurations')
    ctx.need('asan', 'botan'); nprog = ctx.q(150, 5000); ncalls = 40
    if os.environ.get('C20_SCALE'): nprog = max(4, int(nprog * float(os.environ['C20_SCALE'])))
    env = dict(paths=ctx.paths, hdr=ctx.paths['asan']['hdr'], scratch=ctx.scratch, ncalls=ncalls, ck=ctx.ck); golden = []; infos = []
    for i in range(4): g = ctx.dir('golden%d' % i); infos.append(build_golden(env, i, g)); golden.append(g)
    golden_empty = []
    for i in range(4): g = ctx.dir('golden-empty%d' % i); build_golden(env, i, g, empty=True); golden_empty.append(g)
    common = set(infos[0]); 
    for inf in infos[1:]: common &= set(inf)
    for m in sorted(set().union(*infos) - common): ctx.observe('mechanism not advertised by all four configurations (excluded)', m)
    for m in sorted(common):
        if len({inf[m] for inf in infos}) > 1: ctx.observe('C_GetMechanismInfo differs (key sizes restricted to the intersection)', {m: [inf[m] for inf in infos]})
    common -= {m for m in common if m.startswith('CKM_DES_')}     # single DES: the system OpenSSL 3 has no legacy provider, an artefact of this machine
    env.update(golden=golden, golden_empty=golden_empty, mechs=sorted(common))
    ncells = len(Prog(env, 0, Part()).sweep_cells()); del env['ck']
    seeds = [ctx.seed * 1000003 + i for i in range(nprog)]
    if ctx.replay: seeds = [json.load(open(ctx.replay))['witness']['seed']]
    jobs = [dict(env=env, seeds=seeds[i:i + 3]) for i in range(0, len(seeds), 3)]
    if not ctx.replay: jobs += [dict(env=env, sweep_seed=ctx.seed, sweeps=[(lo, min(lo + 12, ncells))]) for lo in range(0, ncells, 12)]
    if not ctx.replay: jobs.append(dict(env=env, sweep_seed=ctx.seed, directed=['nested_restart']))
    random.Random(ctx.seed).shuffle(jobs)
    for part in pmap(worker, jobs, ctx.nproc): ctx.merge(part)
    if not ctx.replay: multi_process_programs(ctx); concurrent_programs(ctx)
    d = {k[5:]: v for k, v in ctx.extra.items() if k.startswith('unit:')}
    for k in list(ctx.extra):
        if k.startswith('unit:'): del ctx.extra[k]
    ctx.extra['units_per_kind'] = d
    ctx.extra['programs'] = ctx.extra.get('programs', 0); ctx.extra['disagreements_checked'] = ctx.extra.get('comparisons', 0); ctx.extra['disagreements_found'] = ctx.extra.get('disagreements_found', 0)
    ctx.extra['mechanisms_in_intersection'] = len(common)
    ctx.assumptions += ['single-DES mechanisms are excluded: the system OpenSSL 3 lacks the legacy provider, which is a property of this machine, not of the library',
                        'C_GetObjectSize values, C_GetMechanismInfo key-size ranges and object handle numbers are not compared (handles by position; sizes are storage-specific by nature); find results are compared as sets',
                        'key material is imported from vlib/keys_c17.py; keys generated inside a program are random per configuration and only their non-random attributes are compared',
                        'after a step whose return codes differ the rest of that unit is skipped (it would only cascade); the program continues with the next unit in a fresh session']

if __name__ == '__main__': main('C20', run, level='translation_validation', min_evaluations=2000, min_distinct=60)
