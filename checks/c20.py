#!/usr/bin/env python3
"""C20 - behaviour does not depend on the storage back-end or the crypto back-end.

Differential (translation-validation style): the same seeded program runs in lock-step on four executors
(OpenSSL/file, OpenSSL/db, Botan/file, Botan/db) that hold the same keys (imported from fixed material).  Per step the
return codes are compared EXACTLY, attribute values and the bytes of deterministic mechanisms byte for byte; outputs of
randomised mechanisms produced under one configuration are fed to all four, which must all accept / decrypt them.
Handles are compared by position.  Mechanisms, key sizes and curves are restricted to what all four advertise."""
import sys, os, json, random, shutil, struct, time
sys.path.insert(0, os.path.join(os.path.dirname(os.path.abspath(__file__)), '..', 'vlib'))
from harness import main, Part, pmap, SAN_ENV, VERIF
from p11client import Exec, Died, Hang, mkconf
from ck import CK
import keys_c17 as K

CONFIGS = [('asan', 'file'), ('asan', 'db'), ('botan', 'file'), ('botan', 'db')]
NAMES = ['openssl/file', 'openssl/db', 'botan/file', 'botan/db']
SO_PIN = b'c20-so-pin'; USER_PIN = b'c20-user-pin'
GOLDEN_KINDS = ['aes128', 'aes192', 'aes256', 'des3', 'des2', 'generic32', 'generic64', 'rsa1024:pub', 'rsa1024:priv', 'rsa2048:pub', 'rsa2048:priv', 'ec_p256:pub', 'ec_p256:priv',
                'ec_p256b:pub', 'ec_p256b:priv', 'ec_p384:pub', 'ec_p384:priv', 'ec_p384b:pub', 'ec_p521:pub', 'ec_p521:priv', 'ec_p521b:pub', 'ed25519:pub', 'ed25519:priv', 'dsa1024:pub', 'dsa1024:priv',
                'dh1024:pub', 'dh1024:priv', 'dh1024b:pub', 'x509', 'data']

def fam(kind):
    if kind is None: return 'unknown'
    if kind.startswith('aes'): return 'aes'
    if kind.startswith('generic'): return 'generic'
    if kind in ('des3', 'des2', 'des', 'x509', 'data'): return {'x509': 'cert'}.get(kind, kind)
    if kind.endswith('-params'): return 'params'
    b, h = kind.split(':'); return ('rsa' if b.startswith('rsa') else 'ec' if b.startswith('ec_') else 'ed' if b.startswith('ed') else 'dsa' if b.startswith('dsa') else 'dh') + '-' + h

# attributes read back after every object-changing step, per object class
A_COMMON = ['CKA_CLASS', 'CKA_TOKEN', 'CKA_PRIVATE', 'CKA_MODIFIABLE', 'CKA_LABEL', 'CKA_COPYABLE', 'CKA_DESTROYABLE']
A_KEY = ['CKA_KEY_TYPE', 'CKA_ID', 'CKA_START_DATE', 'CKA_END_DATE', 'CKA_DERIVE', 'CKA_LOCAL', 'CKA_KEY_GEN_MECHANISM', 'CKA_ALLOWED_MECHANISMS']
A_SECRET = ['CKA_SENSITIVE', 'CKA_ENCRYPT', 'CKA_DECRYPT', 'CKA_SIGN', 'CKA_VERIFY', 'CKA_WRAP', 'CKA_UNWRAP', 'CKA_EXTRACTABLE', 'CKA_ALWAYS_SENSITIVE', 'CKA_NEVER_EXTRACTABLE', 'CKA_CHECK_VALUE',
            'CKA_WRAP_WITH_TRUSTED', 'CKA_TRUSTED', 'CKA_VALUE', 'CKA_VALUE_LEN']
A_PUB = ['CKA_SUBJECT', 'CKA_ENCRYPT', 'CKA_VERIFY', 'CKA_VERIFY_RECOVER', 'CKA_WRAP', 'CKA_TRUSTED']
A_PRIV = ['CKA_SUBJECT', 'CKA_SENSITIVE', 'CKA_DECRYPT', 'CKA_SIGN', 'CKA_SIGN_RECOVER', 'CKA_UNWRAP', 'CKA_EXTRACTABLE', 'CKA_ALWAYS_SENSITIVE', 'CKA_NEVER_EXTRACTABLE', 'CKA_WRAP_WITH_TRUSTED', 'CKA_ALWAYS_AUTHENTICATE']
A_COMP = {'rsa-pub': ['CKA_MODULUS', 'CKA_MODULUS_BITS', 'CKA_PUBLIC_EXPONENT'], 'rsa-priv': ['CKA_MODULUS', 'CKA_PUBLIC_EXPONENT', 'CKA_PRIVATE_EXPONENT', 'CKA_PRIME_1', 'CKA_PRIME_2', 'CKA_EXPONENT_1', 'CKA_EXPONENT_2', 'CKA_COEFFICIENT'],
          'ec-pub': ['CKA_EC_PARAMS', 'CKA_EC_POINT'], 'ec-priv': ['CKA_EC_PARAMS', 'CKA_VALUE'], 'ed-pub': ['CKA_EC_PARAMS', 'CKA_EC_POINT'], 'ed-priv': ['CKA_EC_PARAMS', 'CKA_VALUE'],
          'dsa-pub': ['CKA_PRIME', 'CKA_SUBPRIME', 'CKA_BASE', 'CKA_VALUE'], 'dsa-priv': ['CKA_PRIME', 'CKA_SUBPRIME', 'CKA_BASE', 'CKA_VALUE'],
          'dh-pub': ['CKA_PRIME', 'CKA_BASE', 'CKA_VALUE'], 'dh-priv': ['CKA_PRIME', 'CKA_BASE', 'CKA_VALUE', 'CKA_VALUE_BITS']}
def attrs_of(f):
    if f == 'data': return A_COMMON + ['CKA_APPLICATION', 'CKA_OBJECT_ID', 'CKA_VALUE']
    if f == 'cert': return A_COMMON + ['CKA_CERTIFICATE_TYPE', 'CKA_TRUSTED', 'CKA_CERTIFICATE_CATEGORY', 'CKA_CHECK_VALUE', 'CKA_START_DATE', 'CKA_END_DATE', 'CKA_SUBJECT', 'CKA_ID', 'CKA_ISSUER', 'CKA_SERIAL_NUMBER', 'CKA_VALUE']
    if f in ('aes', 'des3', 'des2', 'des', 'generic'): return A_COMMON + A_KEY + A_SECRET
    if f.endswith('-pub'): return A_COMMON + A_KEY + A_PUB + A_COMP[f]
    if f.endswith('-priv'): return A_COMMON + A_KEY + A_PRIV + A_COMP[f]
    return A_COMMON

class Pos:
    """a handle by position: the object / session created by the k-th creating step, whatever number each library gave it"""
    def __init__(s, hs): s.hs = list(hs)

class Quad:
    """four executors driven in lock-step"""
    def __init__(s, env, d):
        s.env = env; s.ck = env['ck']; s.x = []; s.d = d
        for i, (cfg, be) in enumerate(CONFIGS):
            di = os.path.join(d, 'c%d' % i); os.makedirs(di); shutil.copytree(os.path.join(env['golden'][i], 'tokens'), os.path.join(di, 'tokens'))
            p = env['paths'][cfg]; x = Exec(p['exe'], p['lib'], mkconf(di, be), s.ck, env=dict(SAN_ENV), stderr=f'{di}/stderr.log', trace=f'{di}/trace.jsonl'); x.timeout = 120; s.x.append(x)
        s.ncalls = 0
    def call(s, fn, **kw):
        """the same logical call on all four; Pos arguments are translated per configuration (also inside mechanism parameters)"""
        out = []
        for i, x in enumerate(s.x):
            def tr(v):
                if isinstance(v, Pos): return v.hs[i]
                if isinstance(v, dict): return {k: tr(w) for k, w in v.items()}
                if isinstance(v, list): return [tr(w) for w in v]
                return v
            out.append(x.call(fn, **{k: tr(v) for k, v in kw.items()}))
        s.ncalls += 1; return out
    def kill(s):
        for x in s.x: x.kill()

def partition(o):
    """(config pair, outcome pair) of four outcome labels in the order openssl/file, openssl/db, botan/file, botan/db"""
    if o[0] == o[1] and o[2] == o[3] and o[0] != o[2]: return 'openssl~botan', f'{o[0]}~{o[2]}'
    if o[0] == o[2] and o[1] == o[3] and o[0] != o[1]: return 'file~db', f'{o[0]}~{o[1]}'
    return 'mixed', '~'.join(o)
def value_labels(vals):
    """stable labels for four byte strings (hex or None): different lengths -> len=N, else equality classes A, B, ..."""
    ls = [None if v is None else len(v) // 2 for v in vals]
    if len(set(ls)) > 1: return ['absent' if l is None else 'len=%d' % l for l in ls]
    seen = []; out = []
    for v in vals:
        if v not in seen: seen.append(v)
        out.append('ABCD'[seen.index(v)])
    return out

class Disagree(Exception): pass

class Prog:
    def __init__(s, env, seed, part):
        s.env = env; s.ck = env['ck']; s.rnd = random.Random(seed); s.seed = seed; s.part = part; s.q = None; s.objs = []; s.S = None; s.steps = 0; s.log = []; s.unit = ''; s.mechs = env['mechs']
        s.ndis = 0
    # ---------------------------------------------------------------- comparison
    def note(s, fn, what, labels, detail):
        pair, outc = partition(labels); key = f'{fn}|{what}|{pair}|{outc}'; s.ndis += 1
        s.part.count('disagreements_found')
        s.part.violation(key, f'{fn} ({what}) behaves differently: ' + ', '.join(f'{n}: {l}' for n, l in zip(NAMES, labels)),
                         {'seed': s.seed, 'unit': s.unit, 'detail': detail, 'labels': labels, 'history_tail': s.log[-10:]})
    def step(s, fn, what, cmp=(), must_ok=False, **kw):
        """one logical call on the four configurations.  Compares rv exactly, then the reply fields named in `cmp`
        ('out' = output buffer length+bytes, 'len' = output length only, 'n' = count).  Raises Disagree when the return codes
        differ (the rest of the unit would only cascade)."""
        rs = s.q.call(fn, **kw); s.steps += 1; s.part.count('comparisons'); s.part.case((fn, what.split(':')[0]))
        rvs = [r['rvname'] for r in rs]; s.log.append((fn, what, rvs[0] if len(set(rvs)) == 1 else rvs))
        if any('error' in r and r.get('rv') == -1 for r in rs): s.part.inconc('harness: bad request %s %s' % (fn, [r.get('error') for r in rs])); raise Disagree()
        if len(set(rvs)) > 1: s.note(fn, what, rvs, {'args': clip(kw)}); raise Disagree()
        if rvs[0] == 'CKR_OK' or rvs[0] == 'CKR_BUFFER_TOO_SMALL':
            for c in cmp:
                s.part.count('comparisons')
                if c == 'out':
                    if rvs[0] != 'CKR_OK': vals = ['%016x' % ((r.get('out') or {}).get('len', 0)) for r in rs]; labs = ['len=%d' % int(v, 16) for v in vals]
                    elif kw.get('buf', 1) is None: labs = ['len=%d' % (r.get('out') or {}).get('len', -1) for r in rs]
                    else: labs = value_labels([(r.get('out') or {}).get('data') for r in rs])
                    if len(set(labs)) > 1: s.note(fn, what + ':output', labs, {'args': clip(kw)}); raise Disagree()
                elif c == 'n':
                    labs = ['n=%s' % r.get('n') for r in rs]
                    if len(set(labs)) > 1: s.note(fn, what + ':count', labs, {'args': clip(kw)}); raise Disagree()
        if must_ok and rvs[0] != 'CKR_OK': raise Disagree()
        return rs
    def read_attrs(s, pos, f, names=None, what_prefix=''):
        """read attributes one per template entry and compare rv, then per attribute availability, length and bytes"""
        names = names or attrs_of(f)
        rs = s.step('C_GetAttributeValue', 'attributes:' + f, s=s.S, o=pos, tmpl=[{'t': s.ck[a], 'buf': 4096} for a in names])
        for j, a in enumerate(names):
            s.part.count('comparisons'); s.part.case(('attr', a, f))
            vals = []
            for r in rs:
                e = (r.get('tmpl') or [{}] * len(names))[j]; vals.append(e.get('data') if isinstance(e.get('len'), int) and e.get('len') >= 0 else None)
            labs = value_labels(vals)
            if len(set(labs)) > 1: s.note('C_GetAttributeValue', f'{a}:{f}', labs, {'unit': s.unit, 'values': [clip(v) for v in vals]})
    # ---------------------------------------------------------------- model
    def add(s, rs, kind, key='h'):
        o = {'pos': Pos([r.get(key, 0) for r in rs]), 'kind': kind, 'fam': fam(kind), 'alive': True, 'golden': False}; s.objs.append(o); return o
    def pick(s, fams=None, golden=None):
        c = [o for o in s.objs if o['alive'] and (fams is None or o['fam'] in fams) and (golden is None or o['golden'] == golden)]
        return s.rnd.choice(c) if c else None
    def gold(s, kind):
        for o in s.objs:
            if o['golden'] and o['kind'] == kind: return o
    def M(s, name, p=None): return {'m': s.ck[name], 'p': p}
    def T(s, pairs): return s.q.x[0].T(K.resolve(s.ck, list(pairs)))
    def has(s, *mechs): return all(m in s.mechs for m in mechs)

def clip(o, n=96):
    if isinstance(o, Pos): return 'pos%s' % (o.hs,)
    if isinstance(o, str): return o if len(o) <= n else o[:n] + '...(%d)' % len(o)
    if isinstance(o, dict): return {k: clip(v, n) for k, v in o.items()}
    if isinstance(o, list): return [clip(v, n) for v in o[:24]]
    return o
