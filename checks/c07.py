#!/usr/bin/env python3
"""C07 - key usage flags, key type and mechanism restrictions are enforced (exhaustive table, DESIGN 3/C07).

One cell = (configuration, operation, key kind, usage-flag value, mechanism, CKA_ALLOWED_MECHANISMS variant).  The oracle is
one-sided and coarse (vlib/mechtable.py): if the usage flag is false/absent, or the key's family/class does not fit the
mechanism, or the mechanism is missing from a non-empty allowed list, or it is not in the advertised list of this
configuration, the start call (C_*Init / C_WrapKey / C_UnwrapKey / C_DeriveKey) must NOT return CKR_OK.  A cell is counted
as non-trivial when the key object exists and the (operation, mechanism) pair is live in the library (its positive control
started AND produced output in the pilot run with configuration ALL)."""
import sys, os, shutil
sys.path.insert(0, os.path.join(os.path.dirname(os.path.abspath(__file__)), '..', 'vlib'))
from harness import main, Part, pmap, SAN_ENV
import twoproc
from p11client import Exec, Died, Hang, mkconf
import keys_fixed2 as K, mechtable as MT

TARGET_VALUE = K.SYM_B[16]          # value of the key that gets wrapped / the plaintext of the unwrap blobs
def bytes_id(kind): return ('S%d' % K.SECRET_KINDS[kind][1]) if kind in K.SECRET_KINDS else (kind[:-3] if kind.endswith('pub') else kind[:-4])

class Tok:
    """one executor + initialised token + two sessions (objects live in s, operations run in so)"""
    def __init__(s, paths, ck, d, extra, warm=False):
        conf = mkconf(d, 'file', '' if warm else extra)
        s.x = Exec(paths['exe'], paths['lib'], conf, ck, env=dict(SAN_ENV), stderr=f'{d}/stderr.log', trace=f'{d}/trace.jsonl'); s.ck = ck
        s.slot, s.s = K.setup_token(s.x); s.so = s.x.call('C_OpenSession', slot=s.slot)['h']; s.reopened = 0
        if warm:
            # the configuration is read by C_Initialize: this process first works WITHOUT a restriction (keyed operations, a digest, a key generation), is finalised, finds a
            # restricted softhsm2.conf and is initialised again -- from then on the restricted list is the one in force, exactly as in a process that started with it
            x = s.x; k = s.mk('AES16'); g = s.mk('GEN16'); assert k and g
            for fn, m, key in (('C_EncryptInit', x.M('CKM_AES_ECB'), k), ('C_SignInit', x.M('CKM_SHA256_HMAC'), g), ('C_DecryptInit', x.M('CKM_AES_CBC', hex='00' * 16), k), ('C_VerifyInit', x.M('CKM_AES_CMAC'), k)):
                x.call(fn, s=s.so, mech=m, key=key); s.reopen()
            x.call('C_WrapKey', s=s.so, mech=x.M('CKM_AES_KEY_WRAP'), wkey=k, key=g, buf=256); x.call('C_DigestInit', s=s.so, mech=x.M('CKM_SHA256')); s.reopen()
            x.call('C_GenerateKey', s=s.so, mech=x.M('CKM_AES_KEY_GEN'), tmpl=x.T({'CKA_VALUE_LEN': 16, 'CKA_TOKEN': False}))
            x.call('C_DeriveKey', s=s.so, mech=x.M('CKM_AES_ECB_ENCRYPT_DATA', kdstr='11' * 16), key=k, tmpl=x.T({'CKA_CLASS': ck.CKO_SECRET_KEY, 'CKA_KEY_TYPE': ck.CKK_AES, 'CKA_VALUE_LEN': 16, 'CKA_TOKEN': False}))
            assert x.call('C_Finalize')['rv'] == 0; mkconf(d, 'file', extra); assert x.call('C_Initialize', locking='os')['rv'] == 0
            s.slot = [sl for sl in x.call('C_GetSlotList', count=16)['slots'] if x.call('C_GetTokenInfo', slot=sl)['flags'] & ck.CKF_TOKEN_INITIALIZED][0]
            s.s = x.call('C_OpenSession', slot=s.slot)['h']; assert x.call('C_Login', s=s.s, user=1, pin=K.USER_PIN.hex())['rv'] == 0; s.so = x.call('C_OpenSession', slot=s.slot)['h']
        r = s.x.call('C_GetMechanismList', slot=s.slot, count=400); assert r['rv'] == 0, r
        s.adv = {ck.MECH.get(m, hex(m)) for m in r['mechs']}
        s.target = s.mk('AES16', value=TARGET_VALUE); s.other = s.mk('GEN16', value=K.SYM_B[16]); s.reopened = 0
    def mk(s, kind, allowed=None, value=None, **kw):
        t = K.resolve(s.ck, K.template(kind, **kw))
        if value is not None: t = [(n, (value if n == 'CKA_VALUE' else v)) for n, v in t]
        if allowed is not None: t.append(('CKA_ALLOWED_MECHANISMS', [s.ck[m] for m in allowed]))
        r = s.x.call('C_CreateObject', s=s.s, tmpl=s.x.T(t)); return r['h'] if r['rv'] == 0 else None
    def reopen(s):
        s.x.call('C_CloseSession', s=s.so); s.so = s.x.call('C_OpenSession', slot=s.slot)['h']; s.reopened += 1
    def start(s, op, mech, kind, key, art, retry=True):
        """run the start call of `op`; returns (rvname, produced_output: bool|None, detail)"""
        x = s.x; ck = s.ck; m = MT.params(x, ck, mech, kind, s.other); fn = MT.OP_FN[op]
        if op in ('encrypt', 'decrypt', 'sign', 'verify'):
            r = x.call(fn, s=s.so, mech=m, key=key)
            if r['rvname'] == 'CKR_OPERATION_ACTIVE' and retry: s.reopen(); return s.start(op, mech, kind, key, art, False)
            if r['rv'] != 0: return r['rvname'], None, None
            if op == 'encrypt': q = x.call('C_Encrypt', s=s.so, data=MT.plaintext(mech).hex(), buf=4096); out = q['rv'] == 0 and q['out']['len'] > 0; det = q['out'].get('data')
            elif op == 'sign': q = x.call('C_Sign', s=s.so, data=MT.message(mech).hex(), buf=4096); out = q['rv'] == 0 and q['out']['len'] > 0; det = q['out'].get('data')
            elif op == 'decrypt':
                ct = art.get(('encrypt', mech, bytes_id(kind))) or '00' * 16
                q = x.call('C_Decrypt', s=s.so, data=ct, buf=4096); out = q['rv'] == 0 and q['out'].get('data') == MT.plaintext(mech).hex(); det = q['rvname']
            else:
                sig = art.get(('sign', mech, bytes_id(kind))) or '00' * 16
                q = x.call('C_Verify', s=s.so, data=MT.message(mech).hex(), sig=sig); out = q['rv'] == 0; det = q['rvname']
            if q['rvname'] in ('CKR_BUFFER_TOO_SMALL', 'CKR_FUNCTION_NOT_SUPPORTED', 'CKR_ARGUMENTS_BAD'): s.reopen()      # the operation may still be active
            return 'CKR_OK', out, det
        if op == 'wrap':
            r = x.call(fn, s=s.so, mech=m, wkey=key, key=s.target, buf=4096)
            return r['rvname'], (r['rv'] == 0 and r['out']['len'] > 0) if r['rv'] == 0 else None, r.get('out', {}).get('data')
        if op == 'unwrap':
            cands = [c for c in (art.get(('wrap', mech, bytes_id(kind))), art.get(('enctarget', mech, bytes_id(kind)))) if c] or ['00' * 32]
            last = None
            for c in cands:
                r = x.call(fn, s=s.so, mech=m, ukey=key, wrapped=c, tmpl=MT.unwrap_template(x, ck)); last = r
                if r['rv'] == 0:
                    _, a = x.getattrs(s.so, r['h'], ['CKA_VALUE']); x.call('C_DestroyObject', s=s.so, o=r['h'])
                    return 'CKR_OK', a.get('CKA_VALUE') == TARGET_VALUE, None
            return last['rvname'], None, None
        r = x.call(fn, s=s.so, mech=m, key=key, tmpl=MT.derive_template(x, ck, mech))
        if r['rv'] == 0:
            _, a = x.getattrs(s.so, r['h'], ['CKA_VALUE']); x.call('C_DestroyObject', s=s.so, o=r['h']); return 'CKR_OK', bool(a.get('CKA_VALUE')), None
        return r['rvname'], None, None
    def set_usage(s, key, kind, true_flags):
        U = K.USAGE[K.kclass(kind)]
        return s.x.call('C_SetAttributeValue', s=s.s, o=key, tmpl=s.x.T([(f, f in true_flags) for f in U]))['rv'] == 0
    def close(s): s.x.close()

def pilot(paths, ck, d, src):
    """configuration ALL: advertised list, universe, artefacts and the live (operation, mechanism) pairs"""
    t = Tok(paths, ck, d, MT.conf_line('ALL', []))
    uni = MT.universe(ck, [ck[m] for m in t.adv if m in ck.K], src); art = {}; live = {}; obs = []
    for op in ('encrypt', 'sign', 'wrap', 'derive', 'decrypt', 'verify', 'unwrap'):
        for mech in uni:
            for kind in MT.exact_kinds(op, mech):
                key = t.mk(kind)
                if key is None: continue
                rv, out, det = t.start(op, mech, kind, key, art)
                if rv == 'CKR_OK' and out:
                    live[(op, mech)] = live.get((op, mech), []) + [kind]
                    if op in ('encrypt', 'sign', 'wrap') and det: art[(op, mech, bytes_id(kind))] = det
                    if op == 'encrypt':     # the target value encrypted under this key: a second unwrap candidate (CBC_PAD, RSA)
                        x = t.x
                        if x.call('C_EncryptInit', s=t.so, mech=MT.params(x, ck, mech, kind), key=key)['rv'] == 0:
                            q = x.call('C_Encrypt', s=t.so, data=TARGET_VALUE.hex(), buf=4096)
                            if q['rv'] == 0: art[('enctarget', mech, bytes_id(kind))] = q['out']['data']
                            else: t.reopen()
                elif mech in t.adv and op in MT.FUNCS.get(mech, ()) and not mech.startswith('CKM_DES_'): obs.append({'op': op, 'mech': mech, 'kind': kind, 'rv': rv, 'output': out})
                t.x.call('C_DestroyObject', s=t.s, o=key)
    adv = sorted(t.adv); t.close()
    return uni, adv, art, live, obs

def vkey(fn, mech, kind, reasons): return f'{fn}|{mech},key={K.ktype(kind)}/{K.kclass(kind)}|{"+".join(sorted(reasons))}|accepted'

def worker(job):
    from ck import CK
    ck = CK(job['hdr']); part = Part(); d = os.path.join(job['scratch'], job['name']); shutil.rmtree(d, ignore_errors=True); os.makedirs(d)
    t = None
    try:
        t = Tok(job['paths'], ck, d, MT.conf_line(job['ckind'], job['cnames']), warm=job.get('warm', False))
        if job.get('warm'): part.count('jobs_reconfigured_between_two_initialisations')
        if job['what'] == 'keyless': keyless(t, job, part)
        elif job['what'] == 'auth': always_auth(t, job, part)
        else: table(t, job, part)
    except Died as e:
        part.observe('side:C17 library terminated the host', {'kind': e.kind(), 'fn': e.fn, 'where': e.where(), 'job': job['name']}); part.inconc(f'executor died ({e.kind()} in {e.fn}) job={job["name"]}')
    except Hang: part.inconc(f'executor hang job={job["name"]}')
    except AssertionError as e: part.inconc(f'setup failed job={job["name"]}: {e!r}')
    if t is not None:
        for cat, loc in t.x.ubsan_reports()[:20]: part.observe('side:ubsan ' + loc, cat)
        try: t.close()
        except Exception: pass
    shutil.rmtree(d, ignore_errors=True)
    return part

def table(t, job, part):
    kind = job['kind']; uni = job['uni']; art = job['art']; live = job['live']; conf = job['conf']; expected = set(job['expected'])
    cls = K.kclass(kind); U = K.USAGE[cls]
    k_empty = t.mk(kind)
    if k_empty is None: part.inconc(f'cannot create {kind}'); return
    for mech in uni:
        advertised = mech in t.adv and mech in expected
        others = [m for m in uni if m != mech]
        for variant in ('empty', 'containing', 'not-containing'):
            key = k_empty if variant == 'empty' else t.mk(kind, allowed=[mech] if variant == 'containing' else others)
            if key is None: part.inconc(f'cannot create {kind} with allowed list ({variant})'); continue
            for op in MT.OPS:
                flag = MT.OP_FLAG[op]; fit, why = MT.fits(op, kind, mech)
                for fv in ((True, False) if flag in U else ('absent',)):
                    if fv != 'absent' and not t.set_usage(key, kind, {flag} if fv else set(U) - {flag}): part.inconc(f'cannot set usage flags of {kind}'); continue
                    rv, out, _ = t.start(op, mech, kind, key, art)
                    reasons = []
                    if fv is not True: reasons.append('usage-false' if fv is False else 'usage-absent')
                    if fit is False: reasons.append(why)
                    if variant == 'not-containing': reasons.append('not-in-allowed-list')
                    if not advertised: reasons.append('removed-by-config' if mech in job['all_adv'] else 'not-advertised')
                    nontrivial = bool(live.get((op, mech)))
                    cell = (conf, op, kind, str(fv), mech, variant)
                    part.case(cell, nontrivial=nontrivial, sample={'cell': cell, 'rv': rv, 'must_fail_because': reasons} if (nontrivial and reasons and len(part.samples) < 2) else None)
                    part.count('start_calls')
                    if reasons:
                        part.count('negative_cells')
                        if rv == 'CKR_OK':
                            part.violation(vkey(MT.OP_FN[op], mech, kind, reasons), f'{MT.OP_FN[op]}({mech}) started on a {K.ktype(kind)} {cls} key although: {", ".join(reasons)}',
                                           {'cell': cell, 'rv': rv, 'one_shot_output': out, 'kind': kind, 'config_line': MT.conf_line(job['ckind'], job['cnames']).strip()[:300]})
                    else:
                        part.count('positive_cells')
                        if nontrivial and kind in live[(op, mech)]:
                            if rv == 'CKR_OK' and out: part.count('positive_controls_ok')
                            else: part.observe('positive control refused', {'cell': cell, 'rv': rv, 'output': out})
            if variant != 'empty': t.x.call('C_DestroyObject', s=t.s, o=key)
    part.count('sessions_reopened', t.reopened)

def keyless(t, job, part):
    """advertised list vs configuration; C_DigestInit / C_GenerateKey / C_GenerateKeyPair under the configuration"""
    x = t.x; ck = t.ck; expected = set(job['expected']); conf = job['conf']
    extra_adv = t.adv - expected; missing = expected - t.adv
    part.case((conf, 'C_GetMechanismList'), nontrivial=True)
    lab = job.get('clabel', job['ckind'])
    for m in sorted(extra_adv): part.violation(f'C_GetMechanismList|{lab}-list,{m}|removed-by-config|advertised', f'{m} is advertised although slots.mechanisms removed it', {'config': lab, 'line': MT.conf_line(job['ckind'], job['cnames']).strip()})
    for m in sorted(missing): part.violation(f'C_GetMechanismList|{lab}-list,{m}|kept-by-config|not-advertised', f'{m} is missing from the advertised list although slots.mechanisms keeps it (the list is not "the compiled-in list as restricted by slots.mechanisms")', {'config': lab, 'line': MT.conf_line(job['ckind'], job['cnames']).strip()})
    for m in sorted(expected): part.case((conf, 'advertised', m), nontrivial=True)
    for m in sorted(set(job['all_adv']) - expected): part.case((conf, 'not-advertised', m), nontrivial=True)
    for mech in job['uni']:
        advertised = mech in t.adv and mech in expected
        why = 'removed-by-config' if mech in job['all_adv'] else 'not-advertised'
        # digest
        r = x.call('C_DigestInit', s=t.so, mech=x.M(mech)); ok = r['rv'] == 0; out = None
        if ok: q = x.call('C_Digest', s=t.so, data=b'abc'.hex(), buf=128); out = q['rv'] == 0 and q['out']['len'] > 0
        live = mech in MT.DIGESTS and mech in job['all_adv']
        part.case((conf, 'C_DigestInit', mech), nontrivial=live); part.count('start_calls')
        if not advertised and ok: part.violation(f'C_DigestInit|{mech}|{why}|accepted', f'C_DigestInit({mech}) accepted although the mechanism is {why}', {'conf': conf, 'digest_output': out})
        if advertised and live and not (ok and out): part.observe('positive control refused', {'cell': (conf, 'C_DigestInit', mech), 'rv': r['rvname']})
        # generation: the right template for generation mechanisms, an AES-like / RSA-like template otherwise
        req = MT.genkey_request(x, ck, mech)
        for fn in ('C_GenerateKey', 'C_GenerateKeyPair'):
            if req and req[0] == fn: kw = req[1]
            elif fn == 'C_GenerateKey': kw = dict(mech=x.M(mech), tmpl=x.T([('CKA_TOKEN', False), ('CKA_PRIVATE', False), ('CKA_VALUE_LEN', 16), ('CKA_SENSITIVE', False), ('CKA_EXTRACTABLE', True)]))
            else: kw = dict(mech=x.M(mech), pub=x.T([('CKA_TOKEN', False), ('CKA_PRIVATE', False), ('CKA_MODULUS_BITS', 1024), ('CKA_PUBLIC_EXPONENT', b'\x01\x00\x01'), ('CKA_EC_PARAMS', K.EC['params'])]),
                           priv=x.T([('CKA_TOKEN', False), ('CKA_PRIVATE', False), ('CKA_SENSITIVE', False), ('CKA_EXTRACTABLE', True)]))
            r = x.call(fn, s=t.so, **kw); ok = r['rv'] == 0
            live = bool(req and req[0] == fn and mech in job['all_adv'])
            part.case((conf, fn, mech), nontrivial=live); part.count('start_calls')
            if ok:
                for h in (r.get('h'), r.get('hpub'), r.get('hpriv')):
                    if h: x.call('C_DestroyObject', s=t.so, o=h)
            if not advertised and ok: part.violation(f'{fn}|{mech}|{why}|accepted', f'{fn}({mech}) generated a key although the mechanism is {why}', {'conf': conf})
            if advertised and live and not ok and not (mech == 'CKM_DES_KEY_GEN'): part.observe('positive control refused', {'cell': (conf, fn, mech), 'rv': r['rvname']})

AUTH_KEYS = (('RSA', 'CKM_SHA256_RSA_PKCS', 'CKM_RSA_PKCS'), ('DSA', 'CKM_DSA_SHA1', None), ('EC', 'CKM_ECDSA', None), ('ED', 'CKM_EDDSA', None))
AUTH_OPS = ('sign', 'sign-multipart', 'signfinal-alone', 'decrypt')
AUTH_HIST = ('none', 'ctx-login-wrong-pin', 'ctx-login-so-pin', 'second-operation-after-one-ctx-login', 'logout+ctx-login', 'logout+ctx-login-any-bytes', 'logout+login+no-ctx-login',
             'ctx-login-on-another-session', 'ctx-login-before-init')
def always_auth(t, job, part):
    """CKA_ALWAYS_AUTHENTICATE: (key kind, store) x (output operation) x (authentication history between the *Init and the output call).  In every listed history the
    LAST login event on the session after the *Init is NOT a successful, unconsumed C_Login(CKU_CONTEXT_SPECIFIC): the output call must fail and leave its buffer untouched.
    Positive control: *Init, context-specific login with the right PIN, output call -> a signature the public key verifies / the original plaintext."""
    x = t.x; ck = t.ck; art = job['art']; UPIN = K.USER_PIN.hex(); SOPIN = K.SO_PIN.hex(); CS = ck.CKU_CONTEXT_SPECIFIC; n = [0]
    def relogin():
        r = x.call('C_Login', s=t.s, user=1, pin=UPIN); return r['rvname'] in ('CKR_OK', 'CKR_USER_ALREADY_LOGGED_IN')
    def mkkey(kind, on_token, aa, label):
        tm = K.resolve(ck, K.template(kind, token=on_token, private=True, extra={'CKA_ALWAYS_AUTHENTICATE': aa}, label=label))
        r = x.call('C_CreateObject', s=t.s, tmpl=x.T(tm)); return r['h'] if r['rv'] == 0 else None
    def cleanup(label):
        relogin()
        for h in x.findall(t.s, [('CKA_LABEL', label)])[1]: x.call('C_DestroyObject', s=t.s, o=h)
    def output(A, op, mech, msg, ct):
        """the output call(s) of `op` on session A -> (fn that could have produced output, reply, produced?, buffer touched?)"""
        if op == 'sign': fn = 'C_Sign'; r = x.call(fn, s=A, data=msg, buf=4096)
        elif op == 'sign-multipart': x.call('C_SignUpdate', s=A, data=msg); fn = 'C_SignFinal'; r = x.call(fn, s=A, buf=4096)
        elif op == 'signfinal-alone': fn = 'C_SignFinal'; r = x.call(fn, s=A, buf=4096)
        else: fn = 'C_Decrypt'; r = x.call(fn, s=A, data=ct, buf=4096)
        o = r.get('out', {}); return fn, r, (r['rv'] == 0 and o.get('len', 0) > 0), o.get('changed', 0) != 0
    def start(A, op, key, mech, kind):
        fn = 'C_DecryptInit' if op == 'decrypt' else 'C_SignInit'; return x.call(fn, s=A, mech=MT.params(x, ck, mech, kind), key=key)['rv'] == 0
    for on_token in (False, True):
        where = 'token' if on_token else 'session'
        for alg, smech, dmech in AUTH_KEYS:
            kind = alg + 'priv'; pub = t.mk(alg + 'pub')
            for op in AUTH_OPS:
                mech = dmech if op == 'decrypt' else smech
                if mech is None: continue
                msg = MT.message(mech).hex(); ct = art.get(('encrypt', mech, 'RSA')) if op == 'decrypt' else None
                if op == 'decrypt' and not ct: part.observe('no ciphertext artefact for the always-authenticate decrypt cells', {'mech': mech}); continue
                # ---- positive control: right PIN -> verifiable output (this is what makes the cells of this (kind, store, operation) non-trivial)
                n[0] += 1; label = b'aa-%d' % n[0]; key = mkkey(kind, on_token, True, label); A = x.call('C_OpenSession', slot=t.slot)['h']; pc = False
                if key is None: part.inconc(f'cannot create always-authenticate {kind}'); x.call('C_CloseSession', s=A); continue
                if start(A, op, key, mech, kind):
                    l = x.call('C_Login', s=A, user=CS, pin=UPIN); fn, r, got, _ = output(A, op, mech, msg, ct)
                    if l['rv'] == 0 and got:
                        if op == 'decrypt': pc = r['out'].get('data') == MT.plaintext(mech).hex()
                        elif pub and x.call('C_VerifyInit', s=A, mech=MT.params(x, ck, mech, kind), key=pub)['rv'] == 0:
                            pc = x.call('C_Verify', s=A, data=('' if op == 'signfinal-alone' else msg), sig=r['out']['data'])['rv'] == 0
                x.call('C_CloseSession', s=A); cleanup(label)
                if pc: part.count('positive_controls_ok')
                elif op in ('sign', 'decrypt') or (op == 'sign-multipart' and alg in ('RSA', 'DSA')): part.observe('positive control refused', {'cell': ('auth', where, kind, op, 'ctx-login-right-pin')})
                # ---- the histories
                for hist in AUTH_HIST:
                    n[0] += 1; label = b'aa-%d' % n[0]; key = mkkey(kind, on_token, True, label); A = x.call('C_OpenSession', slot=t.slot)['h']; B = None; ev = []; pre = True
                    if key is None: part.inconc(f'cannot create always-authenticate {kind}'); x.call('C_CloseSession', s=A); continue
                    if hist == 'ctx-login-before-init': ev.append(('ctx-login', x.call('C_Login', s=A, user=CS, pin=UPIN)['rvname']))
                    if not start(A, op, key, mech, kind): pre = False
                    elif hist == 'ctx-login-wrong-pin': l = x.call('C_Login', s=A, user=CS, pin=b'wrong-pin-000'.hex()); ev.append(('ctx-login-wrong', l['rvname'])); pre = l['rv'] != 0
                    elif hist == 'ctx-login-so-pin': l = x.call('C_Login', s=A, user=CS, pin=SOPIN); ev.append(('ctx-login-so-pin', l['rvname'])); pre = l['rv'] != 0
                    elif hist == 'second-operation-after-one-ctx-login':
                        l = x.call('C_Login', s=A, user=CS, pin=UPIN); _, r1, got1, _ = output(A, op, mech, msg, ct); ev.append(('ctx-login', l['rvname'], 'first-operation', r1['rvname']))
                        if x.call('C_SignInit' if op != 'decrypt' else 'C_DecryptInit', s=A, mech=MT.params(x, ck, mech, kind), key=key)['rvname'] == 'CKR_OPERATION_ACTIVE':     # the first operation did not finish (e.g. no multi-part): not this cell
                            pre = False
                        pre = pre and l['rv'] == 0 and got1
                    elif hist in ('logout+ctx-login', 'logout+ctx-login-any-bytes'):
                        lo = x.call('C_Logout', s=A); l = x.call('C_Login', s=A, user=CS, pin=(UPIN if hist == 'logout+ctx-login' else b'\x00\xff any bytes'.hex())); ev.append(('logout', lo['rvname'], 'ctx-login', l['rvname'])); pre = lo['rv'] == 0 and l['rv'] != 0
                    elif hist == 'logout+login+no-ctx-login':
                        lo = x.call('C_Logout', s=A); l = x.call('C_Login', s=A, user=1, pin=UPIN); ev.append(('logout', lo['rvname'], 'login', l['rvname'])); pre = lo['rv'] == 0 and l['rv'] == 0
                    elif hist == 'ctx-login-on-another-session':
                        B = x.call('C_OpenSession', slot=t.slot)['h']; sb = x.call('C_SignInit', s=B, mech=MT.params(x, ck, smech, kind), key=key)
                        l = x.call('C_Login', s=B, user=CS, pin=UPIN); ev.append(('other-session-init', sb['rvname'], 'ctx-login-there', l['rvname'])); pre = l['rv'] == 0
                    fn, r, got, touched = output(A, op, mech, msg, ct) if pre or hist in ('none', 'ctx-login-before-init') else ('-', {'rvname': 'skipped', 'rv': 1}, False, False)
                    part.case(('auth', where, kind, op, hist), nontrivial=bool(pc and pre)); part.count('auth_cells'); part.count('auth_cells_nontrivial', int(bool(pc and pre)))
                    if r['rv'] == 0 or got or touched:
                        part.violation(f'{fn}|always-authenticate,key={K.ktype(kind)}/private,{mech},op={op}|{hist}|{"output" if (got or r["rv"] == 0) else "buffer-written"}',
                                       f'{fn} {"produced output" if got else "returned CKR_OK / wrote its buffer"} on a CKA_ALWAYS_AUTHENTICATE key although the last login event after the *Init was not a successful, unconsumed context-specific login ({hist})',
                                       {'kind': kind, 'store': where, 'op': op, 'mechanism': mech, 'history': hist, 'login_events': ev, 'rv': r['rvname'], 'out': r.get('out')})
                    for h in (A, B):
                        if h: x.call('C_CloseSession', s=h)
                    cleanup(label)
            # control: without the attribute the key signs with no context login at all
            n[0] += 1; label = b'aa-%d' % n[0]; ctl = mkkey(kind, on_token, False, label); A = x.call('C_OpenSession', slot=t.slot)['h']
            if ctl is None or not start(A, 'sign', ctl, smech, kind) or not output(A, 'sign', smech, MT.message(smech).hex(), None)[2]: part.observe('positive control refused', {'cell': ('auth-control', where, kind)})
            x.call('C_CloseSession', s=A); cleanup(label)
            if pub: x.call('C_DestroyObject', s=t.s, o=pub)

def pick_removed(rnd, adv):
    """a seeded set of mechanisms to remove: one forced per entry-point group + random others, config line <= ~900 chars"""
    groups = (MT.DIGESTS, ('CKM_AES_KEY_GEN', 'CKM_DES3_KEY_GEN', 'CKM_GENERIC_SECRET_KEY_GEN'), ('CKM_RSA_PKCS_KEY_PAIR_GEN', 'CKM_EC_KEY_PAIR_GEN', 'CKM_EC_EDWARDS_KEY_PAIR_GEN'),
              ('CKM_AES_CBC', 'CKM_AES_GCM', 'CKM_DES3_CBC'), ('CKM_RSA_PKCS', 'CKM_RSA_PKCS_OAEP'), ('CKM_SHA256_RSA_PKCS', 'CKM_ECDSA', 'CKM_EDDSA', 'CKM_DSA_SHA1'),
              ('CKM_SHA256_HMAC', 'CKM_AES_CMAC'), ('CKM_AES_KEY_WRAP', 'CKM_AES_CBC_PAD'), ('CKM_ECDH1_DERIVE', 'CKM_DH_PKCS_DERIVE', 'CKM_AES_ECB_ENCRYPT_DATA'),
              ('CKM_CONCATENATE_BASE_AND_KEY', 'CKM_CONCATENATE_BASE_AND_DATA', 'CKM_CONCATENATE_DATA_AND_BASE'))
    out = []
    for g in groups:
        c = [m for m in g if m in adv]
        if c: out.append(rnd.choice(c))
    rest = [m for m in adv if m not in out]; rnd.shuffle(rest)
    for m in rest:
        if len(out) >= len(adv) // 2 or len(','.join(out + [m])) > 850: break
        out.append(m)
    rnd.shuffle(out); return out

def run(ctx):
    ctx.rule = ('exhaustive table: configuration x 7 keyed start calls x 27 fixed key kinds (session objects; AES16/24/32, DES, DES2, DES3, generic 16/24/64, six HMAC key types, RSA/DSA/DH/EC/'
                'Ed25519/X25519 public+private) x usage flag (true = ONLY this flag true, false = ONLY this flag false, absent for flags the class lacks) x every mechanism (advertised list + '
                'every case label of SoftHSM.cpp + never-advertised decoys) x CKA_ALLOWED_MECHANISMS {empty, [m], everything but m}; plus C_DigestInit/C_GenerateKey/C_GenerateKeyPair per '
                'mechanism and configuration and the CKA_ALWAYS_AUTHENTICATE sequences.  one evaluation = one start call judged; distinct = the cell tuple; non-trivial = key object created '
                'AND the (operation, mechanism) pair started and produced output in the pilot (configuration ALL) with a key of the exact type')
    builds = ctx.q(('asan',), ('asan', 'botan')); ctx.need(*builds); exhaustive = True
    for b in builds:
        p = ctx.paths[b]; src = os.path.join(p['src'], 'src/lib/SoftHSM.cpp')
        try: uni, adv, art, live, pobs = pilot(p, ctx.ck, ctx.dir(f'pilot-{b}'), src)
        except (Died, Hang, AssertionError) as e: ctx.inconc(f'pilot failed on {b}: {e!r}'); exhaustive = False; continue
        for o in pobs: ctx.observe(f'{b}: advertised mechanism without a working positive control (exact key type)', o, cap=40)
        ctx.extra[f'{b}_universe'] = len(uni); ctx.extra[f'{b}_advertised'] = len(adv); ctx.extra[f'{b}_live_op_mech_pairs'] = len(live)
        rnd = __import__('random').Random(ctx.seed * 7919 + len(b)); removed = pick_removed(rnd, adv)
        confs = [('ALL', 'ALL', [], True)] + [('neg', 'neg', removed, True)] + ([('pos', 'pos', removed, True)] if not ctx.quick else [])
        # softhsm2.conf(5): "Unknown mechanisms are ignored" -- names the library does not know (a v3.0 name, a typo, a GOST name of a build without GOST) at the front and in
        # the middle of a negative and of a positive list must change nothing else.  The expected list is always computed from the configuration TEXT and the ALL list.
        unk = [n for n in ('CKM_SHA3_256', 'CKM_AES_CBCC', 'CKM_GOSTR3411', 'CKM_NO_SUCH_MECHANISM') if n not in adv]
        for ck_ in ('neg', 'pos'):
            r2 = pick_removed(rnd, adv)[:28]
            confs.append((f'{ck_}-unknown@front', ck_, [unk[0]] + r2, not ctx.quick))
            mid = list(pick_removed(rnd, adv)[:28]); mid.insert(len(mid) // 3, unk[1]); mid.insert(2 * len(mid) // 3, unk[2]); mid.insert(1, unk[3])
            confs.append((f'{ck_}-unknown@middle', ck_, mid, not ctx.quick))
        ctx.extra.setdefault('configurations', []).append({b: [(c, n) for c, _, n, _ in confs]})
        jobs = []; SUBSET = ('AES16', 'DES3', 'GEN64', 'HSHA256', 'RSApub', 'RSApriv', 'DSApriv', 'DHpriv', 'ECpub', 'ECpriv', 'EDpriv')
        for conf, ckind, names, full in confs:
            assert len(MT.conf_line(ckind, names)) < 1000
            base = dict(paths=p, hdr=p['hdr'], scratch=ctx.scratch, conf=f'{b}:{conf}', ckind=ckind, clabel=conf, cnames=names, uni=uni, art=art, live=live, all_adv=set(adv), expected=sorted(MT.expected_list(adv, ckind, names)))
            for ki, kind in enumerate(K.ALL_KINDS if full else SUBSET): jobs.append(dict(base, what='table', kind=kind, name=f'{b}-{conf}-{kind}', warm=(ckind != 'ALL' and ki % 2 == 0)))
            jobs.append(dict(base, what='keyless', name=f'{b}-{conf}-keyless'))
            if ckind != 'ALL': jobs.append(dict(base, what='keyless', name=f'{b}-{conf}-keyless-reconfigured', warm=True))
        jobs.append(dict(paths=p, hdr=p['hdr'], scratch=ctx.scratch, conf=f'{b}:ALL', ckind='ALL', cnames=[], art=art, what='auth', name=f'{b}-auth'))
        for part in pmap(worker, jobs, ctx.nproc): ctx.merge(part)
    # another PROCESS clears a usage flag of a token key this process has already used (both object-store back-ends): the very next operation must be refused here too
    for be in ('file', 'db'): ctx.extra.setdefault('two_process_cells', {})[be] = twoproc.stale_view(ctx, be, 'usage')
    if ctx.inconclusive: exhaustive = False
    ctx.extra['exhaustive'] = exhaustive
    ctx.assumptions += ['"fits" is family level only (vlib/mechtable.py); a refusal is never a violation (the statement is "starts only if"); refused positive controls are observations',
                        'single DES is excluded from positive controls (system OpenSSL 3 without the legacy provider)',
                        'half of the table jobs of every restricted configuration run in a process that first worked under an unrestricted configuration (keyed operations, digest, key generation), was finalised, and was initialised again after softhsm2.conf had been replaced',
                        'slots.mechanisms lists are limited to ~850 characters because SimpleConfigLoader reads lines of at most 1023 bytes',
                        'the expected advertised list of a configuration is computed from the configuration TEXT and the list read under ALL (unknown names are ignored, softhsm2.conf(5)); an advertised list that differs from it in EITHER direction is reported (removed-but-advertised fails open; kept-but-missing means the list is not the one slots.mechanisms describes)',
                        'quick: the four unknown-name configurations run the key-less entry points, the list comparison and the table for 11 of the 27 key kinds; exhaustive: true refers to the ALL / negative / positive configurations',
                        'CKA_ALWAYS_AUTHENTICATE: demanded is "no output unless the last login event on the session after the *Init was a successful, not yet consumed C_Login(CKU_CONTEXT_SPECIFIC)" for the enumerated histories; a failed context login AFTER a successful one is not enumerated (the statement says "before a successful context-specific login")',
                        'C_SignRecoverInit / C_VerifyRecoverInit are unsupported by the library (CKR_FUNCTION_NOT_SUPPORTED) and outside the 7 keyed kinds']
if __name__ == '__main__': main('C07', run, min_evaluations=20000, min_distinct=2000)
