#!/usr/bin/env python3
"""C10 - cryptographic results are correct, interoperable, verification is sound, multi-part == single-part.

Every case is computed on both sides at run time: the token (keys imported with C_CreateObject from driver-known
material) and vlib/refcrypt.py (nettle block primitives + standards written in Python; no OpenSSL, no Botan)."""
import sys, os; sys.path.insert(0, os.path.join(os.path.dirname(os.path.abspath(__file__)), '..', 'vlib'))
import hashlib, random, shutil
from harness import main, Part, pmap
from p11client import Died, Hang
import refcrypt as R, keys_fixed as KF

HASHES = {'md5': 'CKM_MD5', 'sha1': 'CKM_SHA_1', 'sha224': 'CKM_SHA224', 'sha256': 'CKM_SHA256', 'sha384': 'CKM_SHA384', 'sha512': 'CKM_SHA512'}
HMACS = {h: m + '_HMAC' for h, m in HASHES.items()}
RSA_HASH = {'md5': 'CKM_MD5_RSA_PKCS', 'sha1': 'CKM_SHA1_RSA_PKCS', 'sha224': 'CKM_SHA224_RSA_PKCS', 'sha256': 'CKM_SHA256_RSA_PKCS', 'sha384': 'CKM_SHA384_RSA_PKCS', 'sha512': 'CKM_SHA512_RSA_PKCS'}
PSS_HASH = {h: m + '_PSS' for h, m in RSA_HASH.items() if h != 'md5'}
DSA_HASH = {'sha1': 'CKM_DSA_SHA1', 'sha224': 'CKM_DSA_SHA224', 'sha256': 'CKM_DSA_SHA256', 'sha384': 'CKM_DSA_SHA384', 'sha512': 'CKM_DSA_SHA512'}
MGF = {'sha1': 'CKG_MGF1_SHA1', 'sha224': 'CKG_MGF1_SHA224', 'sha256': 'CKG_MGF1_SHA256', 'sha384': 'CKG_MGF1_SHA384', 'sha512': 'CKG_MGF1_SHA512'}
# what refcrypt implements (the check covers the intersection with C_GetMechanismList)
IMPLEMENTED = set(HASHES.values()) | set(HMACS.values()) | set(RSA_HASH.values()) | set(PSS_HASH.values()) | set(DSA_HASH.values()) | {
    'CKM_AES_ECB', 'CKM_AES_CBC', 'CKM_AES_CBC_PAD', 'CKM_AES_CTR', 'CKM_AES_GCM', 'CKM_AES_CMAC', 'CKM_DES3_ECB', 'CKM_DES3_CBC', 'CKM_DES3_CBC_PAD', 'CKM_DES3_CMAC',
    'CKM_RSA_PKCS', 'CKM_RSA_X_509', 'CKM_RSA_PKCS_OAEP', 'CKM_RSA_PKCS_PSS', 'CKM_DSA', 'CKM_ECDSA', 'CKM_EDDSA', 'CKM_DH_PKCS_DERIVE', 'CKM_ECDH1_DERIVE'}
# advertised but deliberately outside this check (with the reason that goes into the evidence)
EXCLUDED = {'CKM_DES_ECB': 'single DES unusable here (OpenSSL 3 without the legacy provider)', 'CKM_DES_CBC': 'single DES', 'CKM_DES_CBC_PAD': 'single DES',
            'CKM_DES_ECB_ENCRYPT_DATA': 'single DES (derive: C13)', 'CKM_DES_CBC_ENCRYPT_DATA': 'single DES (derive: C13)'}

# parameter sets a back-end does not implement at all (read in the code): the operation is still attempted; a failure is an observation
# (nothing was produced, nothing to compare), a success is checked like any other case
UNSUPPORTED = {('botan', 'eddsa', 'Ed448'): 'BotanEDDSA.cpp / BotanEDPrivateKey.cpp: "Only Ed25519 is supported" (Botan 2.19 has no Ed448)',
               ('botan', 'derive', 'X448'): 'BotanEDDSA.cpp: only Curve25519 keys are handled (Botan 2.19 has no X448)'}
def rb(rnd, n): return bytes(rnd.getrandbits(8) for _ in range(n)) if n < 512 else rnd.getrandbits(8 * n).to_bytes(n, 'big')
def flip(rnd, b, nbits=None):
    """one random bit of b flipped (within the first nbits bits when given)"""
    n = len(b) * 8 if nbits is None else min(nbits, len(b) * 8); i = rnd.randrange(n); a = bytearray(b); a[i // 8] ^= 0x80 >> (i % 8); return bytes(a)
def split(rnd, data):
    """random split into 1..6 parts; empty parts are likely"""
    k = rnd.randint(1, 6); cuts = sorted(rnd.choice([0, len(data), rnd.randint(0, len(data))]) if rnd.random() < 0.3 else rnd.randint(0, len(data)) for _ in range(k - 1))
    cuts = [0] + cuts + [len(data)]; return [data[cuts[i]:cuts[i + 1]] for i in range(k)]
def chunkclass(parts): return ':leading-empty-part' if len(parts) > 1 and len(parts[0]) == 0 else ''
def lenclass(n, bs):
    if n == 0: return '0'
    if n >= 4096: return 'big'
    r = n % bs; return ('%dblk' % min(n // bs, 5)) + ('' if r == 0 else '+1' if r == 1 else '-1' if r == bs - 1 else '+k')

# ------------------------------------------------------------------------------------------------ token operations
class Ops:
    def __init__(s, tok): s.t = tok; s.x = tok.x
    def _bad(s, r, stage):
        s.t.fresh_ws(); return (r['rvname'], None, stage)
    def crypt(s, which, mech, key, data, parts=None):
        """which: 'Encrypt' | 'Decrypt' -> (rvname, bytes or None, stage)"""
        x = s.x; ws = s.t.ws
        r = x.call('C_%sInit' % which, s=ws, mech=mech, key=key)
        if r['rv'] != 0: return (r['rvname'], None, 'init')
        if parts is None:
            r = x.call('C_' + which, s=ws, data=data.hex(), buf=len(data) + 640)
            if r['rv'] != 0: return s._bad(r, 'single')
            return ('CKR_OK', bytes.fromhex(r['out']['data']), 'single')
        out = b''
        for p in parts:
            r = x.call('C_%sUpdate' % which, s=ws, data=p.hex(), buf=len(data) + 96)
            if r['rv'] != 0: return s._bad(r, 'update')
            out += bytes.fromhex(r['out']['data'])
        r = x.call('C_%sFinal' % which, s=ws, buf=len(data) + 96)
        if r['rv'] != 0: return s._bad(r, 'final')
        return ('CKR_OK', out + bytes.fromhex(r['out']['data']), 'final')
    def sign(s, mech, key, data, parts=None):
        x = s.x; ws = s.t.ws
        r = x.call('C_SignInit', s=ws, mech=mech, key=key)
        if r['rv'] != 0: return (r['rvname'], None, 'init')
        if parts is None:
            r = x.call('C_Sign', s=ws, data=data.hex(), buf=1100)
            if r['rv'] != 0: return s._bad(r, 'single')
            return ('CKR_OK', bytes.fromhex(r['out']['data']), 'single')
        for p in parts:
            r = x.call('C_SignUpdate', s=ws, data=p.hex())
            if r['rv'] != 0: return s._bad(r, 'update')
        r = x.call('C_SignFinal', s=ws, buf=1100)
        if r['rv'] != 0: return s._bad(r, 'final')
        return ('CKR_OK', bytes.fromhex(r['out']['data']), 'final')
    def verify(s, mech, key, data, sig, parts=None):
        """-> (rvname, stage)"""
        x = s.x; ws = s.t.ws
        r = x.call('C_VerifyInit', s=ws, mech=mech, key=key)
        if r['rv'] != 0: return (r['rvname'], 'init')
        if parts is None:
            r = x.call('C_Verify', s=ws, data=data.hex(), sig=sig.hex())
            if r['rv'] != 0: s.t.fresh_ws()
            return (r['rvname'], 'single')
        for p in parts:
            r = x.call('C_VerifyUpdate', s=ws, data=p.hex())
            if r['rv'] != 0: s.t.fresh_ws(); return (r['rvname'], 'update')
        r = x.call('C_VerifyFinal', s=ws, sig=sig.hex())
        if r['rv'] != 0: s.t.fresh_ws()
        return (r['rvname'], 'final')
    def digest(s, mech, data, parts=None):
        x = s.x; ws = s.t.ws
        r = x.call('C_DigestInit', s=ws, mech=mech)
        if r['rv'] != 0: return (r['rvname'], None, 'init')
        if parts is None:
            r = x.call('C_Digest', s=ws, data=data.hex(), buf=80)
            if r['rv'] != 0: return s._bad(r, 'single')
            return ('CKR_OK', bytes.fromhex(r['out']['data']), 'single')
        for p in parts:
            r = x.call('C_DigestUpdate', s=ws, data=p.hex())
            if r['rv'] != 0: return s._bad(r, 'update')
        r = x.call('C_DigestFinal', s=ws, buf=80)
        if r['rv'] != 0: return s._bad(r, 'final')
        return ('CKR_OK', bytes.fromhex(r['out']['data']), 'final')
    def derive(s, mech, key, tmpl):
        r = s.x.call('C_DeriveKey', s=s.t.ks, mech=mech, key=key, tmpl=s.x.T(tmpl))
        if r['rv'] != 0: return (r['rvname'], None)
        v = s.t.value(r['h']); s.t.destroy(r['h']); return ('CKR_OK', v)

# ------------------------------------------------------------------------------------------------ one case
_KF = []
def KNOWN():
    if not _KF:
        from harness import KnownFindings; _KF.append(KnownFindings())
    return _KF[0]
class Case:
    """accumulates the sub-checks of one case; a case is non-trivial when its positive control (the token performed the
    operation and agreed with / was verified by the reference at least once) held"""
    def __init__(s, part, spec, pfx):
        s.part = part; s.spec = spec; s.pfx = pfx; s.positive = False; s.refused = None; s.sub = 0
        s.sfx = ':key-imported-with-leading-zero-octets' if spec.get('imp') == 'lead0' else ''          # appended to the input class
    def V(s, entry, cls, outcome, what, **wit):
        w = {'spec': {k: v for k, v in s.spec.items()}, 'cfg': s.pfx.rstrip(':') or 'asan'}; w.update({k: (v.hex() if isinstance(v, (bytes, bytearray)) else v) for k, v in wit.items()})
        # a symptom seen under another configuration whose un-prefixed key is a listed finding is that same finding (SoftHSM.cpp-level defects do not depend on the back-end)
        if s.sfx:          # one class per scheme family for the non-canonical import (the defect, if any, is in the key handling, not in the hash variant)
            import re; cls = re.sub(r'CKM_(SHA\d+_)?RSA_PKCS_PSS', 'RSA-PSS', re.sub(r':leading-zero-(signature|ciphertext)', '', cls)) + s.sfx
        pfx = '' if KNOWN().match('C10', 'C10|%s|%s|%s' % (entry, cls, outcome)) else s.pfx
        s.part.violation('%s|%s%s|%s' % (entry, pfx, cls, outcome), what, w)
    def ok(s): s.positive = True; s.sub += 1
    def sub1(s): s.sub += 1

def same_or_viol(c, entry, cls, got, want, what, **wit):
    """got = (rvname, bytes, stage) from the token; want = reference bytes"""
    if got[0] != 'CKR_OK':
        c.V(entry, cls, 'failed:' + got[0], what + ': the token failed (%s at %s) where the reference defines a result' % (got[0], got[2]), want=want, **wit); return False
    if got[1] != want:
        c.V(entry, cls, 'differs-from-reference', what + ': token output differs from the independent implementation', got=got[1], want=want, **wit); return False
    c.ok(); return True

def case_digest(o, c, sp, rnd):
    mech = o.x.M(sp['mech']); data = rb(rnd, sp['mlen']); want = hashlib.new(sp['h'], data).digest()
    g = o.digest(mech, data)
    if g[0] != 'CKR_OK' and g[2] == 'init': c.refused = g[0]; return
    if not same_or_viol(c, 'C_Digest', sp['mech'], g, want, 'digest', data=data[:64]): return
    parts = split(rnd, data); g = o.digest(mech, data, parts)
    if g[0] == 'CKR_OK' and g[1] != want: c.V('C_DigestUpdate', sp['mech'] + chunkclass(parts), 'multipart-differs-from-single', 'multi-part digest differs from the single-part/reference digest', parts=[len(p) for p in parts], got=g[1], want=want)
    elif g[0] != 'CKR_OK': c.V('C_DigestUpdate', sp['mech'] + chunkclass(parts), 'multipart-failed:' + g[0], 'multi-part digest failed at %s' % g[2], parts=[len(p) for p in parts])
    else: c.ok()

def case_digestkey(o, c, sp, rnd):
    """C_DigestKey: the digest of prefix | key value | suffix, for a key stored in each of the four placements (session / token) x (public / private: the value is then stored encrypted)"""
    x = o.x; ck = o.t.ck; val = rb(rnd, sp['klen']); pre = rb(rnd, sp['pre']); suf = rb(rnd, sp['suf']); want = hashlib.new(sp['h'], pre + val + suf).digest()
    kt = ck.CKK_AES if sp['ktype'] == 'aes' else ck.CKK_GENERIC_SECRET
    h = o.t.create({'CKA_CLASS': ck.CKO_SECRET_KEY, 'CKA_KEY_TYPE': kt, 'CKA_VALUE': val, 'CKA_SENSITIVE': False, 'CKA_EXTRACTABLE': True, 'CKA_LABEL': b'digest-key'}, token=sp['token'], private=sp['private'])
    try:
        ws = o.t.ws; cls = f"{sp['mech']},key={'token' if sp['token'] else 'session'}/{'private' if sp['private'] else 'public'}"
        r = x.call('C_DigestInit', s=ws, mech=x.M(sp['mech']))
        if r['rv'] != 0: c.refused = r['rvname']; return
        for fn, kw in (('C_DigestUpdate', dict(data=pre.hex())), ('C_DigestKey', dict(key=h)), ('C_DigestUpdate', dict(data=suf.hex()))):
            r = x.call(fn, s=ws, **kw)
            if r['rv'] != 0:
                o.t.fresh_ws(); c.V(fn, cls, 'failed:' + r['rvname'], f'{fn} failed inside a digest of prefix | key | suffix (a readable, non-sensitive key)', klen=sp['klen']); return
        r = x.call('C_DigestFinal', s=ws, buf=80)
        if r['rv'] != 0: o.t.fresh_ws(); c.V('C_DigestFinal', cls, 'failed:' + r['rvname'], 'C_DigestFinal failed after C_DigestKey'); return
        got = bytes.fromhex(r['out']['data'])
        if got != want: c.V('C_DigestKey', cls, 'digest-differs-from-reference', 'the digest of prefix | key value | suffix computed through C_DigestKey differs from the reference digest over the same bytes', klen=sp['klen'], got=got, want=want)
        else: c.ok()
    finally: o.t.destroy(h)

def mac_like(o, c, sp, rnd, mech, mname, hsign, hverify, data, want, deterministic=True, ref_verify=None, ref_sign=None, multi=True, tamper_bits=None):
    """common shape of MACs and signatures.  want: reference signature (deterministic schemes) or None;
    ref_verify(sig)->bool for randomised schemes; ref_sign()->a reference-made signature the token must accept."""
    g = o.sign(mech, hsign, data)
    if g[0] != 'CKR_OK' and g[2] == 'init': c.refused = g[0]; return False
    signed = True                                   # a case normally stops at its first disagreement; with a non-canonically imported key the verify side is still exercised
    if deterministic:
        if not same_or_viol(c, 'C_Sign', mname, g, want, 'signature/MAC', data=data[:64]): signed = False
    else:
        if g[0] != 'CKR_OK': c.V('C_Sign', mname, 'failed:' + g[0], 'the token failed to sign where the mechanism is defined', data=data[:64]); signed = False
        elif not ref_verify(g[1]): c.V('C_Sign', mname, 'reference-cannot-verify', 'the independent implementation rejects the token signature', data=data[:64], sig=g[1]); signed = False
        else: c.ok()
    if not signed and not c.sfx: return False
    refsig = want if deterministic else ref_sign()
    v = o.verify(mech, hverify, data, refsig)
    if v[0] != 'CKR_OK' and v[1] == 'init': c.part.observe('verify-init-refused', {'mech': mname, 'rv': v[0]})
    elif v[0] != 'CKR_OK': c.V('C_Verify', mname, 'reference-signature-rejected', 'the token rejects a signature/MAC made by the independent implementation (%s)' % v[0], data=data[:64], sig=refsig)
    else:
        c.ok()
        # soundness: one bit of the data, one bit of the signature
        if len(data) and (tamper_bits is None or tamper_bits > 0):
            bad = flip(rnd, data, tamper_bits); v = o.verify(mech, hverify, bad, refsig)
            if v[0] == 'CKR_OK': c.V('C_Verify', mname + ':tampered-data', 'accepted', 'verification succeeds after one bit of the data was changed', data=data[:64], tampered=bad[:64], sig=refsig)
            else: c.sub1()
        bad = flip(rnd, refsig); v = o.verify(mech, hverify, data, bad)
        if v[0] == 'CKR_OK': c.V('C_Verify', mname + ':tampered-signature', 'accepted', 'verification succeeds after one bit of the signature/MAC was changed', data=data[:64], sig=refsig, tampered=bad)
        else: c.sub1()
    if multi:
        parts = split(rnd, data); pl = [len(p) for p in parts]; g = o.sign(mech, hsign, data, parts) if signed else ('CKR_OK', want, 'skipped')
        if not signed: pass
        elif g[0] != 'CKR_OK': c.V('C_SignUpdate', mname + chunkclass(parts), 'multipart-failed:' + g[0], 'multi-part signing failed at %s' % g[2], parts=pl)
        elif deterministic and g[1] != want: c.V('C_SignUpdate', mname + chunkclass(parts), 'multipart-differs-from-single', 'multi-part signature/MAC differs from the single-part one', parts=pl, got=g[1], want=want)
        elif not deterministic and not ref_verify(g[1]): c.V('C_SignUpdate', mname + chunkclass(parts), 'multipart-reference-cannot-verify', 'the reference rejects the multi-part signature', parts=pl, sig=g[1])
        else: c.ok()
        parts = split(rnd, data); pl = [len(p) for p in parts]; v = o.verify(mech, hverify, data, refsig, parts)
        if v[0] != 'CKR_OK': c.V('C_VerifyUpdate', mname + chunkclass(parts), 'multipart-rejected:' + v[0], 'multi-part verification of a valid signature/MAC failed at %s' % v[1], parts=pl)
        else:
            c.ok()
            if len(data):
                bad = flip(rnd, data, tamper_bits); v = o.verify(mech, hverify, bad, refsig, split(rnd, bad))
                if v[0] == 'CKR_OK': c.V('C_VerifyUpdate', mname + ':tampered-data', 'accepted', 'multi-part verification succeeds after one bit of the data was changed', data=data[:64], sig=refsig)
                else: c.sub1()
    return True

def case_mac(o, c, sp, rnd):
    key = rb(rnd, sp['klen']); data = rb(rnd, sp['mlen'])
    if sp['kind'] == 'hmac': h = o.t.secret('generic', key); want = R.hmac(sp['h'], key, data)
    else:
        if sp['ktype'] != 'aes': key = R.des_odd_parity(key)
        h = o.t.secret(sp['ktype'], key); want = R.cmac(R.cipher('aes' if sp['ktype'] == 'aes' else 'des3', key), data)
    try: mac_like(o, c, sp, rnd, o.x.M(sp['mech']), sp['mech'], h, h, data, want)
    finally: o.t.destroy(h)

def case_cipher(o, c, sp, rnd):
    alg = sp['alg']; bs = 16 if alg == 'aes' else 8; key = rb(rnd, sp['klen'])
    if alg != 'aes': key = R.des_odd_parity(key)
    ci = R.cipher('aes' if alg == 'aes' else 'des3', key); data = rb(rnd, sp['mlen']); mode = sp['mode']; mname = sp['mech']; x = o.x; tamper = []
    if mode == 'ecb': mech = x.M(mname); want = R.ecb(ci, data) if len(data) % bs == 0 else None
    elif mode in ('cbc', 'cbc_pad'):
        iv = rb(rnd, bs); mech = x.M(mname, hex=iv.hex())
        want = (R.cbc_pad_encrypt(ci, iv, data) if mode == 'cbc_pad' else R.cbc(ci, iv, data) if len(data) % bs == 0 else None)
    elif mode == 'ctr':
        bits = sp['bits']; cb = bytearray(rb(rnd, 16)); blocks = -(-len(data) // 16)
        if sp['near']:           # place the counter `near` blocks before its wrap-around: near > blocks stays inside, near <= blocks - 1 overflows
            v = (int.from_bytes(cb, 'big') & ~((1 << bits) - 1)) | (((1 << bits) - sp['near']) & ((1 << bits) - 1)); cb = bytearray(v.to_bytes(16, 'big'))
        cb = bytes(cb); mech = x.M(mname, ctr={'bits': bits, 'cb': cb.hex()}); want = R.ctr(ci, cb, data, bits)
        overflow = blocks > R.ctr_blocks_before_wrap(cb, bits); mname += ':counter-wrap' if overflow else ''
    elif mode == 'gcm':
        iv = rb(rnd, sp['ivlen']); aad = rb(rnd, sp['aadlen']); tl = sp['tagbits'] // 8
        def gm(iv_=iv, aad_=aad): return x.M(sp['mech'], gcm={'iv': iv_.hex(), 'aad': aad_.hex() if aad_ else None, 'tagbits': sp['tagbits']})
        mech = gm(); want = R.gcm(ci, iv, aad, data, tl); mname += ':iv12' if len(iv) == 12 else ':iv<=128B' if len(iv) <= 128 else ':iv>128B'
    h = o.t.secret(sp['ktype'], key)
    try:
        if want is None:
            # input the mechanism does not define (ragged length for a mode without padding): the text demands nothing; observe
            g = o.crypt('Encrypt', mech, h, data)
            if g[0] == 'CKR_OK': c.part.observe('ragged input accepted by an unpadded block mode', {'mech': mname, 'len': len(data), 'outlen': len(g[1])})
            c.spec['ragged'] = True; return
        g = o.crypt('Encrypt', mech, h, data)
        if g[0] != 'CKR_OK' and g[2] == 'init': c.refused = g[0]; return
        if mode == 'ctr' and overflow and g[0] != 'CKR_OK':
            c.part.observe('CTR counter overflow refused', {'bits': sp['bits'], 'rv': g[0]}); c.spec['overflow_refused'] = True; c.ok(); return
        if not same_or_viol(c, 'C_Encrypt', mname, g, want, 'ciphertext', key=key, pt=data[:64], params={k: sp.get(k) for k in ('bits', 'near', 'ivlen', 'aadlen', 'tagbits')}): return
        parts = split(rnd, data); pl = [len(p) for p in parts]; g = o.crypt('Encrypt', mech, h, data, parts)
        if g[0] != 'CKR_OK': c.V('C_EncryptUpdate', mname + chunkclass(parts), 'multipart-failed:' + g[0], 'multi-part encryption failed at %s' % g[2], parts=pl)
        elif g[1] != want: c.V('C_EncryptUpdate', mname + chunkclass(parts), 'multipart-differs-from-single', 'multi-part ciphertext differs from the single-part/reference ciphertext', parts=pl, got=g[1], want=want, key=key)
        else: c.ok()
        # the token accepts what the reference produced
        g = o.crypt('Decrypt', mech, h, want)
        if g[0] != 'CKR_OK': c.V('C_Decrypt', mname + (':empty' if not want else ''), 'reference-ciphertext-rejected', 'the token fails (%s) to decrypt a ciphertext made by the independent implementation' % g[0], key=key, ct=want[:96]); return
        elif g[1] != data: c.V('C_Decrypt', mname, 'wrong-plaintext', 'decrypting the reference ciphertext gives a different plaintext', got=g[1], want=data, key=key); return
        else: c.ok()
        parts = split(rnd, want); pl = [len(p) for p in parts]; g = o.crypt('Decrypt', mech, h, want, parts)
        if g[0] != 'CKR_OK': c.V('C_DecryptUpdate', mname + chunkclass(parts), 'multipart-failed:' + g[0], 'multi-part decryption failed at %s' % g[2], parts=pl)
        elif g[1] != data: c.V('C_DecryptUpdate', mname + chunkclass(parts), 'multipart-differs-from-single', 'multi-part plaintext differs from the single-part one', parts=pl, got=g[1], want=data, key=key)
        else: c.ok()
        if mode == 'gcm' and sp['tagbits'] >= 32:        # a t-bit tag lets a forgery through with probability 2^-t: shorter tags (not permitted by SP 800-38D) are compared but not tamper-tested
            ctl = len(want) - tl; tam = []
            if ctl: tam.append(('ciphertext', mech, flip(rnd, want[:ctl]) + want[ctl:]))
            tam.append(('tag', mech, want[:ctl] + flip(rnd, want[ctl:])))
            tam.append(('iv', gm(iv_=flip(rnd, iv)), want))
            if aad: tam.append(('aad', gm(aad_=flip(rnd, aad)), want))
            for what, m2, blob in tam:
                multi = rnd.random() < 0.3; g = o.crypt('Decrypt', m2, h, blob, split(rnd, blob) if multi else None)
                if g[0] == 'CKR_OK': c.V('C_DecryptFinal' if multi else 'C_Decrypt', mname + ':tampered-' + what, 'accepted', 'authenticated decryption succeeds after one bit of the %s was changed' % what, key=key, iv=iv, aad=aad, blob=blob[:96], out=g[1][:64])
                else: c.sub1()
    finally: o.t.destroy(h)

def until_lz(make, tries=6000):
    """first result of make(i) whose big-endian value has a leading zero byte (the length must stay k)"""
    for i in range(tries):
        r = make(i)
        if r[-1][0] == 0: return r
    raise AssertionError('no leading-zero value found')
def case_rsa_sign(o, c, sp, rnd):
    K = KF.load(); k = K['rsa'][sp['bits']]; l0 = sp.get('imp') == 'lead0'; hp = o.t.rsa_priv(k, lead0=l0); hu = o.t.rsa_pub(k, lead0=l0); kind = sp['kind']; x = o.x; ck = o.t.ck; h = sp.get('h')
    if sp.get('lz'):
        # boundary: the signature value starts with a zero byte
        if kind == 'x509':
            sg = b'\0' + rb(rnd, k.k - 1); sg = R.i2osp(R.os2ip(sg) % (k.n >> 8), k.k); data = k.raw_public(sg)
            mac_like(o, c, sp, rnd, x.M('CKM_RSA_X_509'), 'CKM_RSA_X_509:leading-zero-signature', hp, hu, data, k.raw_private(data), multi=False); return
        if kind in ('pkcs_raw', 'pkcs_hash'):
            hh = h if kind == 'pkcs_hash' else None; base = rb(rnd, sp['mlen']); data, want = until_lz(lambda i: (base + i.to_bytes(3, 'big'), k.sign_pkcs1(base + i.to_bytes(3, 'big'), hh)))
            mn = RSA_HASH[h] if hh else 'CKM_RSA_PKCS'; mac_like(o, c, sp, rnd, x.M(mn), mn + ':leading-zero-signature', hp, hu, data, want, multi=bool(hh)); return
        sl = sp['slen']; pre = kind == 'pss_raw'; data = rb(rnd, R.HASHLEN[h] if pre else sp['mlen']); mname = 'CKM_RSA_PKCS_PSS' if pre else PSS_HASH[h]
        mech = x.M(mname, pss={'hash': ck[HASHES[h]], 'mgf': ck[MGF[h]], 'slen': sl})
        mac_like(o, c, sp, rnd, mech, mname + ':leading-zero-signature', hp, hu, data, None, deterministic=False, ref_verify=lambda sg: k.verify_pss(data, sg, h, sl, prehashed=pre),
                 ref_sign=lambda: until_lz(lambda i: (k.sign_pss(data, h, sl, prehashed=pre, rnd=rnd),))[0], multi=not pre); return
    if kind == 'pkcs_raw':
        data = rb(rnd, sp['mlen']); mac_like(o, c, sp, rnd, x.M('CKM_RSA_PKCS'), 'CKM_RSA_PKCS', hp, hu, data, k.sign_pkcs1(data), multi=False)
    elif kind == 'x509':
        data = rb(rnd, sp['mlen'])
        if len(data) == k.k: data = R.i2osp(R.os2ip(data) % k.n, k.k)
        mac_like(o, c, sp, rnd, x.M('CKM_RSA_X_509'), 'CKM_RSA_X_509', hp, hu, data, k.raw_private(data), multi=False)
    elif kind == 'pkcs_hash':
        data = rb(rnd, sp['mlen']); mac_like(o, c, sp, rnd, x.M(RSA_HASH[h]), RSA_HASH[h], hp, hu, data, k.sign_pkcs1(data, h))
    elif kind in ('pss_raw', 'pss_hash'):
        sl = sp['slen']; pre = kind == 'pss_raw'; data = rb(rnd, R.HASHLEN[h] if pre else sp['mlen']); mname = 'CKM_RSA_PKCS_PSS' if pre else PSS_HASH[h]
        mech = x.M(mname, pss={'hash': ck[HASHES[h]], 'mgf': ck[MGF[h]], 'slen': sl})
        mac_like(o, c, sp, rnd, mech, mname, hp, hu, data, None, deterministic=False, ref_verify=lambda sg: k.verify_pss(data, sg, h, sl, prehashed=pre),
                 ref_sign=lambda: k.sign_pss(data, h, sl, prehashed=pre, rnd=rnd), multi=not pre)

def case_rsa_enc(o, c, sp, rnd):
    K = KF.load(); k = K['rsa'][sp['bits']]; l0 = sp.get('imp') == 'lead0'; hp = o.t.rsa_priv(k, lead0=l0); hu = o.t.rsa_pub(k, lead0=l0); x = o.x; ck = o.t.ck; mname = sp['mech']; data = rb(rnd, sp['mlen'])
    lz = bool(sp.get('lz')); cls = mname + (':leading-zero-ciphertext' if lz else '')
    if mname == 'CKM_RSA_X_509':
        if len(data) == k.k: data = R.i2osp(R.os2ip(data) % k.n, k.k)
        if lz: ct0 = R.i2osp(R.os2ip(b'\0' + rb(rnd, k.k - 1)) % (k.n >> 8), k.k); data = k.raw_private(ct0)        # the public operation on this input yields a value with a leading zero byte
        mech = x.M(mname); g = o.crypt('Encrypt', mech, hu, data)
        if g[0] != 'CKR_OK' and g[2] == 'init': c.refused = g[0]; return
        same_or_viol(c, 'C_Encrypt', cls, g, k.raw_public(data), 'raw RSA public operation', data=data)
        ct = k.raw_public(data); g = o.crypt('Decrypt', mech, hp, ct)
        same_or_viol(c, 'C_Decrypt', mname, g, R.i2osp(R.os2ip(data), k.k), 'raw RSA private operation', ct=ct); return
    if mname == 'CKM_RSA_PKCS_OAEP':
        mech = x.M(mname, oaep={'hash': ck.CKM_SHA_1, 'mgf': ck.CKG_MGF1_SHA1, 'source': ck.CKZ_DATA_SPECIFIED}); dec = lambda ct: k.decrypt_oaep(ct, 'sha1'); enc = lambda: k.encrypt_oaep(data, 'sha1', rnd=rnd)
    else: mech = x.M(mname); dec = k.decrypt_pkcs1; enc = lambda: k.encrypt_pkcs1(data, rnd)
    if lz: enc0 = enc; enc = lambda: until_lz(lambda i: (enc0(),))[0]
    g = o.crypt('Encrypt', mech, hu, data)
    if g[0] != 'CKR_OK' and g[2] == 'init': c.refused = g[0]; return
    if g[0] != 'CKR_OK': c.V('C_Encrypt', mname, 'failed:' + g[0], 'the token failed to encrypt a message of legal length', mlen=len(data))
    elif dec(g[1]) != data: c.V('C_Encrypt', mname, 'reference-cannot-decrypt', 'the independent implementation cannot decrypt the token ciphertext to the message', ct=g[1], data=data)
    else: c.ok()
    ct = enc(); g = o.crypt('Decrypt', mech, hp, ct)
    if g[0] != 'CKR_OK': c.V('C_Decrypt', cls, 'reference-ciphertext-rejected', 'the token fails (%s) to decrypt a ciphertext made by the independent implementation' % g[0], ct=ct, data=data)
    elif g[1] != data: c.V('C_Decrypt', cls, 'wrong-plaintext', 'decrypting the reference ciphertext gives a different plaintext', got=g[1], want=data)
    else: c.ok()

def case_dsa(o, c, sp, rnd):
    K = KF.load(); k = K['dsa'][tuple(sp['ln'])]; hp = o.t.dsa_priv(k); hu = o.t.dsa_pub(k); h = sp.get('h'); data = rb(rnd, sp['mlen']); qb = k.q.bit_length()
    if h is None:
        mac_like(o, c, sp, rnd, o.x.M('CKM_DSA'), 'CKM_DSA' + (':data>q' if len(data) * 8 > qb else ''), hp, hu, data, None, deterministic=False, ref_verify=lambda sg: k.verify(data, sg), ref_sign=lambda: k.sign(data, rnd=rnd), multi=False, tamper_bits=qb)
    else:
        mac_like(o, c, sp, rnd, o.x.M(DSA_HASH[h]), DSA_HASH[h], hp, hu, data, None, deterministic=False, ref_verify=lambda sg: k.verify(R.digest(h, data), sg), ref_sign=lambda: k.sign(R.digest(h, data), rnd=rnd))

def case_ecdsa(o, c, sp, rnd):
    K = KF.load(); k = K['ec'][sp['curve']][0]; hp = o.t.ec_priv(k); hu = o.t.ec_pub(k); data = rb(rnd, sp['mlen'])
    mac_like(o, c, sp, rnd, o.x.M('CKM_ECDSA'), 'CKM_ECDSA:' + sp['curve'] + (':data>q' if len(data) * 8 > k.c.n.bit_length() else ''), hp, hu, data, None, deterministic=False, ref_verify=lambda sg: k.verify(data, sg), ref_sign=lambda: k.sign(data, rnd=rnd),
             multi=False, tamper_bits=k.c.n.bit_length())

def case_eddsa(o, c, sp, rnd):
    K = KF.load(); k = K['ed'][sp['curve']][0]; hp = o.t.ed_priv(k, sp['oid']); hu = o.t.ed_pub(k, sp['oid']); data = rb(rnd, sp['mlen'])
    mac_like(o, c, sp, rnd, o.x.M('CKM_EDDSA'), 'CKM_EDDSA:' + sp['curve'], hp, hu, data, k.sign(data), multi=False)

def case_derive(o, c, sp, rnd):
    K = KF.load(); ck = o.t.ck; x = o.x; kind = sp['kind']; tm = {'CKA_CLASS': ck.CKO_SECRET_KEY, 'CKA_KEY_TYPE': ck.CKK_GENERIC_SECRET, 'CKA_SENSITIVE': False, 'CKA_EXTRACTABLE': True, 'CKA_TOKEN': False, 'CKA_PRIVATE': True}
    if kind == 'dh':
        own, peer = K['dh'][sp['group']]
        if sp['peer'] == 'random': peer = R.DHKey(own.p, own.g, rnd.randrange(2, (own.p - 1) // 2))
        elif sp['peer'] in (1, 2): peer = KF.leadz_peers()['dh'][sp['group']][sp['peer']]        # shared secret with 1 / 2 leading zero bytes
        want = own.derive(peer.y); tm['CKA_VALUE_LEN'] = len(want); mname = 'CKM_DH_PKCS_DERIVE'
        g = o.derive(x.M(mname, hex=KF.ib(peer.y).hex()), o.t.dh_priv(own), tm); cls = mname + ':' + ('named-group' if sp['group'].startswith('modp') else 'custom-group')
    elif kind == 'ecdh':
        own, peer = K['ec'][sp['curve']]
        if sp['peer'] == 'random': peer = R.ECKey(own.c, rnd.randrange(1, own.c.n))
        elif sp['peer'] in (1, 2, 'der-short', 'der-long'): peer = KF.leadz_peers()['ec'][sp['curve']][sp['peer']]
        want = own.ecdh(peer.Q); pub = peer.point(); pub = R.der_octets(pub) if sp['enc'] == 'der' else pub; mname = 'CKM_ECDH1_DERIVE'; cls = mname + ':' + sp['curve']
        g = o.derive(x.M(mname, ecdh1={'kdf': ck.CKD_NULL, 'public': pub.hex()}), o.t.ec_priv(own), tm)
    else:
        own, peer = K['x'][sp['curve']]
        if sp['peer'] == 'random': peer = R.XKey(sp['curve'], rb(rnd, len(own.sk)))
        elif sp['peer'] in ('lead', 'trail', 'der-short'): peer = KF.leadz_peers()['x'][sp['curve']][sp['peer']]
        want = own.derive(peer.pk); pub = R.der_octets(peer.pk) if sp['enc'] == 'der' else peer.pk; mname = 'CKM_ECDH1_DERIVE'; cls = mname + ':' + sp['curve']
        g = o.derive(x.M(mname, ecdh1={'kdf': ck.CKD_NULL, 'public': pub.hex()}), o.t.x_priv(own, sp.get('oid', False)), tm)
    if sp['peer'] in (1, 2, 'lead', 'trail'): cls += ':zero-byte-at-end-of-secret'
    if str(sp['peer']).startswith('der-'): cls += ':raw-public-value-looks-like-a-DER-header'
    if g[0] != 'CKR_OK': c.V('C_DeriveKey', cls, 'failed:' + g[0], 'the token failed to derive a shared secret from a valid peer value', spec2=sp)
    elif g[1] != want: c.V('C_DeriveKey', cls, 'differs-from-reference', 'the derived shared secret differs from the independent implementation', got=g[1], want=want)
    else: c.ok()

RUN = {'digest': case_digest, 'digestkey': case_digestkey, 'mac': case_mac, 'cipher': case_cipher, 'rsa_sign': case_rsa_sign, 'rsa_enc': case_rsa_enc, 'dsa': case_dsa, 'ecdsa': case_ecdsa, 'eddsa': case_eddsa, 'derive': case_derive}

def distinct_key(sp):
    f = sp['fam']
    if f == 'digest': return (f, sp['mech'], lenclass(sp['mlen'], hashlib.new(sp['h']).block_size))
    if f == 'digestkey': return (f, sp['mech'], sp['ktype'], sp['klen'], sp['token'], sp['private'])
    if f == 'mac': return (f, sp['mech'], sp['klen'], lenclass(sp['mlen'], 64 if sp['kind'] == 'hmac' else (16 if sp['ktype'] == 'aes' else 8)))
    if f == 'cipher':
        bs = 16 if sp['alg'] == 'aes' else 8; extra = ()
        if sp['mode'] == 'ctr': extra = (sp['bits'], 'near' if sp['near'] else 'far')
        if sp['mode'] == 'gcm': extra = (sp['ivlen'], min(sp['aadlen'], 33), sp['tagbits'])
        return (f, sp['mech'], sp['klen'], lenclass(sp['mlen'], bs)) + extra
    if f == 'rsa_sign': return (f, sp['kind'], sp['bits'], sp.get('h'), sp.get('slen'), min(sp.get('mlen', 0), 300), bool(sp.get('lz')), sp.get('imp'))
    if f == 'rsa_enc': return (f, sp['mech'], sp['bits'], sp['mlen'], bool(sp.get('lz')), sp.get('imp'))
    if f == 'dsa': return (f, tuple(sp['ln']), sp.get('h'), min(sp['mlen'], 300))
    if f in ('ecdsa', 'eddsa'): return (f, sp['curve'], min(sp['mlen'], 300), sp.get('oid'))
    return (f, sp['kind'], sp.get('group') or sp.get('curve'), sp.get('enc'), sp['peer'])

# ------------------------------------------------------------------------------------------------ worker
def worker(job):
    from ck import CK
    part = Part(); ck = CK(job['hdr']); d = os.path.join(job['scratch'], 'j%d' % job['ix']); cfg = job['cfg']; pfx = '' if cfg == 'asan' else cfg + ':'
    tok = None; todo = list(job['specs']); restarts = 0
    while todo:
        try:
            if tok is None: tok = KF.boot_tok(job['paths'], ck, cfg, d); o = Ops(tok)
            while todo:
                sp = todo[0]; c = Case(part, dict(sp), pfx); rnd = random.Random(sp['seed'])
                if sp.get('mech') and sp['mech'] not in tok.mechs: todo.pop(0); part.count('skipped_not_advertised'); continue
                uns = UNSUPPORTED.get((cfg, sp['fam'], sp.get('curve')))
                if uns: real = part.viol; part.viol = {}
                RUN[sp['fam']](o, c, sp, rnd); todo.pop(0)
                if uns:
                    mine, part.viol = part.viol, real
                    if mine and not c.positive:
                        part.observe('parameter set not implemented by this back-end', {'cfg': cfg, 'curve': sp.get('curve'), 'why': uns, 'outcomes': sorted(k.split('|')[-1] for k in mine)}); part.case(None, nontrivial=False); part.count('unsupported_parameter_set'); continue
                    part.viol.update(mine)
                if c.refused is not None:
                    part.observe('parameters refused at Init (no result to compare)', {'cfg': cfg, 'mech': sp.get('mech') or sp.get('kind'), 'rv': c.refused, 'params': {k: sp[k] for k in ('klen', 'ivlen', 'tagbits', 'bits', 'slen', 'mlen', 'h') if k in sp}}, cap=40)
                    part.case(None, nontrivial=False); part.count('refused_at_init')
                else:
                    part.case((cfg,) + distinct_key(sp), nontrivial=c.positive, sample=({'cfg': cfg, 'spec': sp, 'subchecks': c.sub} if len(todo) % 97 == 0 else None)); part.count('subchecks', c.sub); part.count('cases_' + sp['fam'])
        except Died as e:
            sp = todo.pop(0) if todo else None
            part.observe('side:C17 library terminated the host', {'kind': e.kind(), 'fn': e.fn, 'where': e.where(), 'spec': sp}); part.inconc('executor died (%s in %s) on %r' % (e.kind(), e.fn, sp)); tok = None; restarts += 1
        except Hang:
            sp = todo.pop(0) if todo else None; part.inconc('executor hang on %r' % (sp,)); tok = None; restarts += 1
        except KF.KeyImportError as e:
            sp = todo.pop(0); part.inconc('key import failed (%s) for %r' % (e, sp))
        if restarts > 5: part.inconc('too many executor restarts; %d cases dropped' % len(todo)); break
    if tok is not None:
        for cat, loc in tok.x.ubsan_reports()[:20]: part.observe('side:ubsan ' + loc, cat)
        tok.x.close()
    shutil.rmtree(d, ignore_errors=True)
    return part

# ------------------------------------------------------------------------------------------------ workload
def specs(ctx, rnd, thorough):
    S = []; q = not thorough
    def add(**kw): kw['seed'] = rnd.getrandbits(48); S.append(kw)
    big = [] if q else [4096, 65536]
    # digests: around the block and the length-padding boundaries
    for h, m in HASHES.items():
        B = hashlib.new(h).block_size; pad = 9 if B == 64 else 17
        L = sorted({0, 1, B - pad - 1, B - pad, B - pad + 1, B - 1, B, B + 1, 2 * B - pad, 2 * B - pad + 1, 2 * B - 1, 2 * B, 2 * B + 1, 3 * B, 4 * B - 1, 4 * B, 4 * B + 1} | set(big))
        for l in L:
            for _ in range(2 if q else 3): add(fam='digest', mech=m, h=h, mlen=l)
    # C_DigestKey: every placement of the key (the stored value of a private object is encrypted, of a public one it is not -- on the token or in a session)
    for h, m in HASHES.items():
        for token in (False, True):
            for private in (False, True):
                for ktype, klen in (('generic', 20), ('aes', 32)) if q else (('generic', 1), ('generic', 20), ('generic', 64), ('aes', 16), ('aes', 32)):
                    add(fam='digestkey', mech=m, h=h, ktype=ktype, klen=klen, token=token, private=private, pre=rnd.choice([0, 5, 64]), suf=rnd.choice([0, 3, 70]))
    # HMAC: key lengths around the digest size (the token's minimum) and the block size
    for h, m in HMACS.items():
        B = hashlib.new(h).block_size; D = R.HASHLEN[h]
        for kl in sorted({D, D + 1, B - 1, B, B + 1, 2 * B + 3}):
            for l in sorted({0, 1, B - 1, B, B + 1, 2 * B, 3 * B + 5} | set(big[:1])):
                add(fam='mac', kind='hmac', mech=m, h=h, klen=kl, mlen=l)
    # CMAC
    for kt, kl, bs, m in (('aes', 16, 16, 'CKM_AES_CMAC'), ('aes', 24, 16, 'CKM_AES_CMAC'), ('aes', 32, 16, 'CKM_AES_CMAC'), ('des2', 16, 8, 'CKM_DES3_CMAC'), ('des3', 24, 8, 'CKM_DES3_CMAC')):
        for l in sorted({0, 1, bs - 1, bs, bs + 1, 2 * bs - 1, 2 * bs, 2 * bs + 1, 3 * bs, 4 * bs - 1, 4 * bs, 4 * bs + 1} | set(big[:1])):
            for _ in range(3 if q else 6): add(fam='mac', kind='cmac', mech=m, ktype=kt, klen=kl, mlen=l)
    # block modes
    for alg, kts, bs in (('aes', (('aes', 16), ('aes', 24), ('aes', 32)), 16), ('des3', (('des2', 16), ('des3', 24)), 8)):
        pre = 'CKM_AES_' if alg == 'aes' else 'CKM_DES3_'
        for kt, kl in kts:
            whole = sorted({0, bs, 2 * bs, 3 * bs, 4 * bs, 5 * bs} | set(big)); anyl = sorted({0, 1, bs - 1, bs, bs + 1, 2 * bs - 1, 2 * bs, 2 * bs + 1, 3 * bs, 4 * bs - 1, 4 * bs, 4 * bs + 1} | set(big))
            for mode in ('ecb', 'cbc'):
                for l in whole:
                    for _ in range(3 if q else 10): add(fam='cipher', alg=alg, mode=mode, mech=pre + mode.upper(), ktype=kt, klen=kl, mlen=l)
                for l in (1, bs - 1, bs + 1): add(fam='cipher', alg=alg, mode=mode, mech=pre + mode.upper(), ktype=kt, klen=kl, mlen=l)       # ragged: observation only
            for l in anyl:
                for _ in range(3 if q else 10): add(fam='cipher', alg=alg, mode='cbc_pad', mech=pre + 'CBC_PAD', ktype=kt, klen=kl, mlen=l)
    # CTR: counter widths over 1..128, the counter close to and at its wrap-around
    widths = sorted({1, 2, 3, 7, 8, 9, 15, 16, 17, 31, 32, 33, 63, 64, 65, 96, 127, 128} | ({rnd.randint(1, 128) for _ in range(6)} if q else set(range(1, 129))))
    for kl in (16, 24, 32):
        for bits in widths:
            for near in (0, 1, 2, 3, 5):
                if near > (1 << bits): continue
                for l in tuple((0, 1, 16, 17, 33, 64) if not q else rnd.sample((0, 1, 15, 16, 17, 32, 33, 64, 65), 2)) + tuple(big[:1] if near == 0 and bits >= 16 else ()):
                    if thorough and kl != 16 and rnd.random() < 0.6: continue
                    add(fam='cipher', alg='aes', mode='ctr', mech='CKM_AES_CTR', ktype='aes', klen=kl, mlen=l, bits=bits, near=near)
    # GCM: IV, AAD, tag lengths over their ranges
    ivs = [1, 2, 7, 8, 11, 12, 13, 15, 16, 17, 24, 32, 60, 64, 128, 255]; aads = [0, 1, 15, 16, 17, 31, 32, 33, 64, 100, 255]; tags = [32, 64, 96, 104, 112, 120, 128]; exotic = [8, 16, 24, 40, 48, 56, 72, 80, 88]
    mls = [0, 1, 15, 16, 17, 31, 32, 33, 47, 48, 49, 63, 64, 65, 100] + big
    for _ in range(1700 if q else 16000):
        add(fam='cipher', alg='aes', mode='gcm', mech='CKM_AES_GCM', ktype='aes', klen=rnd.choice((16, 24, 32)), mlen=rnd.choice(mls), ivlen=rnd.choice(ivs) if rnd.random() < 0.7 else 12,
            aadlen=rnd.choice(aads), tagbits=rnd.choice(tags) if rnd.random() < 0.85 else rnd.choice(exotic))
    # RSA
    for bits in ((1024, 1025) if q else (1024, 1025, 1536, 2048, 3072, 4096)):
        k = (bits + 7) // 8; rep = 1 if bits > 2048 else 2
        for l in sorted({0, 1, 20, 35, 51, k - 12, k - 11}): add(fam='rsa_sign', kind='pkcs_raw', mech='CKM_RSA_PKCS', bits=bits, mlen=l)
        for l in sorted({1, 20, k - 1, k}): add(fam='rsa_sign', kind='x509', mech='CKM_RSA_X_509', bits=bits, mlen=l)
        for h in RSA_HASH:
            for l in (0, 1, 64, 65, 200) + ((4096,) if thorough and bits == 2048 else ()): add(fam='rsa_sign', kind='pkcs_hash', mech=RSA_HASH[h], bits=bits, h=h, mlen=l)
        for h in PSS_HASH:
            mx = (bits - 1 + 7) // 8 - R.HASHLEN[h] - 2
            if mx < 0: continue
            salts = sorted({0, 1, min(R.HASHLEN[h], mx), max(0, mx - 1), mx} | {rnd.randint(0, mx) for _ in range(1 if q else 4)})
            for sl in salts:
                for _ in range(rep): add(fam='rsa_sign', kind='pss_raw', mech='CKM_RSA_PKCS_PSS', bits=bits, h=h, slen=sl)
                for l in ((0, 77) if q else (0, 1, 77, 300)): add(fam='rsa_sign', kind='pss_hash', mech=PSS_HASH[h], bits=bits, h=h, slen=sl, mlen=l)
        if bits in (1024, 2048):
            for _ in range(2):
                add(fam='rsa_sign', kind='pkcs_raw', mech='CKM_RSA_PKCS', bits=bits, mlen=30, lz=True); add(fam='rsa_sign', kind='x509', mech='CKM_RSA_X_509', bits=bits, mlen=k, lz=True)
                add(fam='rsa_sign', kind='pkcs_hash', mech=RSA_HASH['sha256'], bits=bits, h='sha256', mlen=40, lz=True); add(fam='rsa_sign', kind='pss_hash', mech=PSS_HASH['sha256'], bits=bits, h='sha256', slen=32, mlen=40, lz=True)
                add(fam='rsa_sign', kind='pss_raw', mech='CKM_RSA_PKCS_PSS', bits=bits, h='sha1', slen=20, lz=True)
                for m_ in ('CKM_RSA_PKCS', 'CKM_RSA_PKCS_OAEP', 'CKM_RSA_X_509'): add(fam='rsa_enc', mech=m_, bits=bits, mlen=24, lz=True)
        for l in sorted({0, 1, 16, 32, k - 12, k - 11}): add(fam='rsa_enc', mech='CKM_RSA_PKCS', bits=bits, mlen=l)
        for l in sorted({0, 1, 16, 32, k - 43, k - 42}): add(fam='rsa_enc', mech='CKM_RSA_PKCS_OAEP', bits=bits, mlen=l)
        for l in sorted({1, 16, k - 1, k}): add(fam='rsa_enc', mech='CKM_RSA_X_509', bits=bits, mlen=l)
    # the same RSA cases with keys whose CKA_MODULUS and every other component were imported with a leading 00 octet: must behave exactly like the canonical import
    for sp_ in [dict(s_) for s_ in S if s_['fam'] in ('rsa_sign', 'rsa_enc') and s_['bits'] in ((1024, 1025) if q else (1024, 1025, 2048)) and (s_.get('lz') or rnd.random() < (0.45 if q else 0.6))]:
        sp_['imp'] = 'lead0'; sp_['seed'] = rnd.getrandbits(48); S.append(sp_)
    # DSA
    for ln in (((1024, 160),) if q else ((1024, 160), (2048, 224), (2048, 256), (3072, 256))):
        ql = ln[1] // 8
        for l in sorted({1, ql - 1, ql, ql + 1, 32, 48, 64}):
            for _ in range(3): add(fam='dsa', mech='CKM_DSA', ln=ln, mlen=l)
        for h in DSA_HASH:
            for l in (0, 1, 63, 64, 65, 200): add(fam='dsa', mech=DSA_HASH[h], ln=ln, h=h, mlen=l)
    # ECDSA / EdDSA
    for cv in R.CURVES:
        for l in (1, 20, 28, 32, 33, 48, 64, 65, 66, 67, 100):
            for _ in range(3 if q else 4): add(fam='ecdsa', mech='CKM_ECDSA', curve=cv, mlen=l)
    for cv in R.EDCURVES:
        for l in (0, 1, 31, 32, 33, 64, 100, 255) + ((4096,) if thorough else ()):
            for oid in (False, True):
                for _ in range(2 if q else 3): add(fam='eddsa', mech='CKM_EDDSA', curve=cv, mlen=l, oid=oid)
    # shared secrets
    for g in (('modp1024', 'dsa1024') if q else ('modp1024', 'modp2048', 'dsa1024')):
        for peer in ['fixed', 1, 2] + ['random'] * (6 if q else 12): add(fam='derive', mech='CKM_DH_PKCS_DERIVE', kind='dh', group=g, peer=peer)
    for cv in R.CURVES:
        for enc in ('raw', 'der'):
            for peer in ['fixed', 1, 2] + sorted(KF.DERLIKE['ec'].get(cv, {})) + ['random'] * (5 if q else 10): add(fam='derive', mech='CKM_ECDH1_DERIVE', kind='ecdh', curve=cv, enc=enc, peer=peer)
    for cv in R.XBASE:
        for enc in ('raw', 'der'):
            for oid in (False, True):
                for peer in ['fixed', 'lead', 'trail'] + sorted(KF.DERLIKE['x'].get(cv, {})) + ['random'] * (3 if q else 6): add(fam='derive', mech='CKM_ECDH1_DERIVE', kind='x', curve=cv, enc=enc, oid=oid, peer=peer)
    return S

COST = {'rsa_sign': 6, 'rsa_enc': 4, 'dsa': 8, 'ecdsa': 6, 'eddsa': 8, 'derive': 3}
def run(ctx):
    ctx.rule = ('one evaluation = one (mechanism, key, parameters, message) case on which the token and refcrypt are both run: token output == reference (deterministic) or verified/decrypted by the '
                'reference (randomised), reference output accepted by the token, one flipped bit per class (data, signature/MAC, GCM ciphertext/tag/IV/AAD) must be rejected, random multi-part '
                'chunking (empty parts included) == single part; distinct = (config, mechanism, key size, length class, parameter values); non-trivial = the positive control held (the token '
                'performed the operation and agreed with the reference at least once); cases refused at Init are counted but never non-trivial')
    n = R.selftest(); ctx.extra['refcrypt_selftest_checks'] = n
    if getattr(ctx, 'replay', None):                  # ./check C10 --replay replays/C10/<hash>.json : re-run exactly that case (exit 1 if it still violates; the coverage floor does not apply to a single case)
        import json, atexit; w = json.load(open(ctx.replay))['witness']; cfg = w.get('cfg', 'asan'); ctx.need(cfg)
        evp = os.path.join(os.path.dirname(os.path.abspath(__file__)), '..', 'evidence', 'C10.json'); old = open(evp, 'rb').read() if os.path.exists(evp) else None
        if old is not None: atexit.register(lambda: open(evp, 'wb').write(old))      # a replay must not replace the evidence of the last real run
        ctx.merge(worker(dict(ix=0, cfg=cfg, specs=[w['spec']], paths=ctx.paths, hdr=ctx.paths[cfg]['hdr'], scratch=ctx.scratch))); return
    cfgs = ('asan',) if ctx.quick else ('asan', 'botan'); ctx.need(*cfgs)
    jobs = []; adv = {}
    for cfg in cfgs:
        # what does this build advertise?
        from ck import CK
        t = KF.boot_tok(ctx.paths, ctx.ck, cfg, ctx.dir('probe-' + cfg)); adv[cfg] = sorted(t.mechs); t.x.close()
        S = specs(ctx, random.Random(ctx.seed * 7919 + len(cfg)), not ctx.quick)
        S = [s for s in S if s['mech'] in t.mechs]
        # spread the expensive families evenly: sort by cost, deal round-robin
        S.sort(key=lambda s: (-COST.get(s['fam'], 1) * (s.get('bits', 1024) // 1024 if s['fam'].startswith('rsa') else 1), s['seed']))
        nj = max(12, ctx.nproc) * (1 if ctx.quick else 3)
        for i in range(nj):
            mine = S[i::nj]
            if mine: jobs.append(dict(ix=len(jobs), cfg=cfg, specs=mine, paths=ctx.paths, hdr=ctx.paths[cfg]['hdr'], scratch=ctx.scratch))
        ctx.extra['cases_planned_' + cfg] = len(S)
        ctx.extra['mechanisms_covered_' + cfg] = sorted(set(s['mech'] for s in S))
        ctx.extra['advertised_not_covered_' + cfg] = {m: EXCLUDED.get(m, 'key/parameter generation or key management (C13), no comparable output') for m in adv[cfg] if m not in IMPLEMENTED}
        ctx.extra['implemented_not_advertised_' + cfg] = sorted(IMPLEMENTED - set(adv[cfg]))
    for part in pmap(worker, jobs, max(12, ctx.nproc)): ctx.merge(part)
    ctx.assumptions += ['refcrypt (nettle AES/3DES block functions, hashlib digests, everything else written from the standards in Python) is correct: it self-tests against FIPS-197, SP 800-38A/B/D, RFC 3394/5649/4231/6979/7748/8032 vectors and nettle/hogweed/libsodium on every run',
                        'a tampered input is one flipped bit per class and case, chosen at random (not every bit position)',
                        'for raw (EC)DSA the flipped data bit lies inside the leftmost |q| bits, the only ones the standard uses',
                        'GCM with ulIvLen == 0 is outside the range (the library silently uses a 16-byte zero IV: observation in DESIGN 2.5)',
                        'CKM_DES_* (single DES) excluded: unusable in this environment (OpenSSL 3 without the legacy provider)',
                        'a legal parameter set the token refuses at Init (e.g. Botan: 32-bit GCM tags) yields no result to compare: observation, not a verdict (C20 owns back-end differences)']

if __name__ == '__main__': main('C10', run, min_evaluations=1500, min_distinct=300)
