#!/usr/bin/env python3
"""C12 - one active operation per session and an honest output-length protocol.

Model: active[session] in {none, find, digest, encrypt, decrypt, sign, verify} plus, per cipher operation, the number of
buffered bytes (bytes fed minus bytes returned).  Random interleavings (1-3 sessions, <= 12 random steps, then every open
operation is driven to its end) of Init / one-shot / Update / Final / size query (NULL pointer) / too-small buffer.

Oracle (only what the statement says):
 * Init while an operation is active -> exactly CKR_OPERATION_ACTIVE; continue/finish without a matching Init -> exactly
   CKR_OPERATION_NOT_INITIALIZED; Init on an idle session must not answer CKR_OPERATION_ACTIVE;
 * after a successful Final / one-shot with a real buffer, or after an Update/Final/one-shot that returned an error other
   than CKR_BUFFER_TOO_SMALL, the operation is gone (the next continue call -> CKR_OPERATION_NOT_INITIALIZED);
   argument rejections that keep the operation (CKR_FUNCTION_NOT_SUPPORTED, C_DigestKey with a bad handle) are observations;
 * a size query / CKR_BUFFER_TOO_SMALL keeps the operation active and unchanged: the disturbed operation is replayed
   without the disturbances on a twin session and must give the same return codes and the same output (randomised
   mechanisms: the output must verify / decrypt); the reported length L is sufficient (a retry with >= L is never
   CKR_BUFFER_TOO_SMALL) and L <= input + buffered + one block + tag (ciphers) resp. the fixed digest/MAC/signature/modulus size;
 * CKR_OK never reports more than was announced, nothing is written beyond the reported length, and on
   CKR_BUFFER_TOO_SMALL / errors nothing beyond the announced length (canary slack behind the announced size; exact-size
   buffers otherwise, where ASan's red zone is the monitor)."""
import sys, os, random, shutil, time
sys.path.insert(0, os.path.join(os.path.dirname(os.path.abspath(__file__)), '..', 'vlib'))
from harness import main, Part, pmap, SAN_ENV
from p11client import Exec, Died, Hang, mkconf
from ck import CK
import keys_c12 as K

SO_PIN = b'sopin123'; USER_PIN = b'userpin1'
OK = 'CKR_OK'; SMALL = 'CKR_BUFFER_TOO_SMALL'; ACTIVE = 'CKR_OPERATION_ACTIVE'; NOINIT = 'CKR_OPERATION_NOT_INITIALIZED'
# errors that reject an argument and (on this library) leave the operation usable: the statement's "failed" is read narrowly
ARG_REJECTIONS = {'CKR_FUNCTION_NOT_SUPPORTED', 'CKR_KEY_HANDLE_INVALID', 'CKR_KEY_INDIGESTIBLE', 'CKR_ARGUMENTS_BAD'}
USER_PIN12 = b'user-pin-c12'
def canary(i): return (0xA5 ^ (i * 37 + (i >> 8))) & 0xff

DIGESTS = {'CKM_MD5': 16, 'CKM_SHA_1': 20, 'CKM_SHA224': 28, 'CKM_SHA256': 32, 'CKM_SHA384': 48, 'CKM_SHA512': 64}
HASHLEN = {'SHA1': 20, 'SHA224': 28, 'SHA256': 32, 'SHA384': 48, 'SHA512': 64}

class M:
    """one mechanism: how to build it, what it needs, what it may output"""
    def __init__(s, name, cls, ops, **kw):
        s.name = name; s.cls = cls; s.ops = ops; s.block = kw.get('block', 0); s.pad = kw.get('pad', False); s.multi = kw.get('multi', True)
        s.size = kw.get('size'); s.rand = kw.get('rand', False); s.maxin = kw.get('maxin'); s.fixin = kw.get('fixin'); s.key = kw.get('key'); s.params = kw.get('params')
        s.sym = cls in ('block-nopad', 'block-pad', 'stream', 'aead')

def mech_table(ck):
    T = []
    for n, sz in DIGESTS.items(): T.append(M(n, 'digest', ('digest',), size=sz))
    T += [M('CKM_AES_ECB', 'block-nopad', ('encrypt', 'decrypt'), block=16, key='aes'), M('CKM_AES_CBC', 'block-nopad', ('encrypt', 'decrypt'), block=16, key='aes', params='iv16'),
          M('CKM_AES_CBC_PAD', 'block-pad', ('encrypt', 'decrypt'), block=16, pad=True, key='aes', params='iv16'), M('CKM_AES_CTR', 'stream', ('encrypt', 'decrypt'), block=16, key='aes', params='ctr'),
          M('CKM_AES_GCM', 'aead', ('encrypt', 'decrypt'), block=16, key='aes', params='gcm'),
          M('CKM_DES3_ECB', 'block-nopad', ('encrypt', 'decrypt'), block=8, key='des3'), M('CKM_DES3_CBC', 'block-nopad', ('encrypt', 'decrypt'), block=8, key='des3', params='iv8'),
          M('CKM_DES3_CBC_PAD', 'block-pad', ('encrypt', 'decrypt'), block=8, pad=True, key='des3', params='iv8')]
    T += [M('CKM_RSA_PKCS', 'rsa-enc', ('encrypt', 'decrypt'), multi=False, size=128, maxin=117, rand=True, key='rsa'), M('CKM_RSA_X_509', 'rsa-enc', ('encrypt', 'decrypt'), multi=False, size=128, maxin=128, key='rsa'),
          M('CKM_RSA_PKCS_OAEP', 'rsa-enc', ('encrypt', 'decrypt'), multi=False, size=128, maxin=86, rand=True, key='rsa', params='oaep')]
    for h, sz in (('MD5', 16), ('SHA_1', 20), ('SHA224', 28), ('SHA256', 32), ('SHA384', 48), ('SHA512', 64)):
        T.append(M(f'CKM_{h}_HMAC', 'hmac', ('sign', 'verify'), size=sz, key='generic'))
    T += [M('CKM_AES_CMAC', 'cmac', ('sign', 'verify'), size=16, key='aes'), M('CKM_DES3_CMAC', 'cmac', ('sign', 'verify'), size=8, key='des3')]
    T += [M('CKM_RSA_PKCS', 'rsa-sign', ('sign', 'verify'), multi=False, size=128, maxin=117, key='rsa'), M('CKM_RSA_X_509', 'rsa-sign', ('sign', 'verify'), multi=False, size=128, maxin=128, key='rsa')]
    for h in HASHLEN:
        T.append(M(f'CKM_{h}_RSA_PKCS', 'rsa-sign', ('sign', 'verify'), size=128, key='rsa'))
        T.append(M(f'CKM_{h}_RSA_PKCS_PSS', 'rsa-pss', ('sign', 'verify'), size=128, rand=True, key='rsa', params='pss:' + h))
        T.append(M(f'CKM_DSA_{h}', 'dsa', ('sign', 'verify'), size=2 * len(K.DSA['q']), rand=True, key='dsa'))
    T += [M('CKM_RSA_PKCS_PSS', 'rsa-pss', ('sign', 'verify'), multi=False, size=128, fixin=32, rand=True, key='rsa', params='pss:SHA256'),
          M('CKM_ECDSA', 'ecdsa', ('sign', 'verify'), multi=False, size=64, maxin=32, rand=True, key='ec'), M('CKM_EDDSA', 'eddsa', ('sign', 'verify'), multi=False, size=64, key='ed'),
          M('CKM_DSA', 'dsa', ('sign', 'verify'), multi=False, size=2 * len(K.DSA['q']), fixin=20, rand=True, key='dsa')]
    return [m for m in T if m.name in ck.K]

KIND_FNS = {   # kind -> (init, one-shot, update, final)
    'digest': ('C_DigestInit', 'C_Digest', 'C_DigestUpdate', 'C_DigestFinal'), 'encrypt': ('C_EncryptInit', 'C_Encrypt', 'C_EncryptUpdate', 'C_EncryptFinal'),
    'decrypt': ('C_DecryptInit', 'C_Decrypt', 'C_DecryptUpdate', 'C_DecryptFinal'), 'sign': ('C_SignInit', 'C_Sign', 'C_SignUpdate', 'C_SignFinal'),
    'verify': ('C_VerifyInit', 'C_Verify', 'C_VerifyUpdate', 'C_VerifyFinal'), 'find': ('C_FindObjectsInit', None, 'C_FindObjects', 'C_FindObjectsFinal')}
HAS_OUT = {'C_Digest', 'C_DigestFinal', 'C_Encrypt', 'C_EncryptUpdate', 'C_EncryptFinal', 'C_Decrypt', 'C_DecryptUpdate', 'C_DecryptFinal', 'C_Sign', 'C_SignFinal'}
ENDS = {'C_Digest', 'C_DigestFinal', 'C_Encrypt', 'C_EncryptFinal', 'C_Decrypt', 'C_DecryptFinal', 'C_Sign', 'C_SignFinal', 'C_Verify', 'C_VerifyFinal', 'C_FindObjectsFinal'}

class Op:
    def __init__(s, kind, m, mech, key, calls, tag=0, designed_fail=False, var=''):
        s.kind = kind; s.m = m; s.mech = mech; s.key = key; s.calls = calls; s.i = 0; s.tag = tag; s.designed_fail = designed_fail
        s.var = var; s.cls = m.cls + var        # mechanism class + key-encoding class ('' = canonical import)
        s.tin = 0; s.tout = 0; s.done = []; s.outs = []; s.disturbed = False; s.L = None; s.maybe_gone = False; s.alldata = b''

class Worker:
    def __init__(s, job, part):
        s.job = job; s.part = part; s.ck = ck = job['ck']; s.rnd = random.Random(job['seed'])
        s.d = os.path.join(job['scratch'], 'w%d' % job['seed']); shutil.rmtree(s.d, ignore_errors=True); os.makedirs(s.d)
        p = job['paths'][job['cfg']]; conf = mkconf(s.d, job['backend'])
        for attempt in range(6):      # the shared executor binary may be re-linked by a concurrent build: retry the start-up (harness robustness)
            x = None
            try:
                x = Exec(p['exe'], p['lib'], conf, ck, env=dict(SAN_ENV), stderr=f'{s.d}/stderr.log', trace=f'{s.d}/trace.jsonl')
                r = x.call('C_Initialize', locking='os'); assert r['rv'] == 0, r
                break
            except (OSError, Died) as e:
                if x is not None: x.kill()
                if attempt == 5 or (isinstance(e, Died) and e.rc not in (2, 126, 127, -9, -15)): raise
                time.sleep(1 + attempt)
        s.x = x
        s.slot = x.call('C_GetSlotList', count=8)['slots'][-1]
        assert x.call('C_InitToken', slot=s.slot, pin=SO_PIN.hex(), label=b'c12'.hex())['rv'] == 0
        s.keeper = x.call('C_OpenSession', slot=s.slot)['h']; s.twin = x.call('C_OpenSession', slot=s.slot)['h']
        # the user is logged in for the whole job (all working keys are public): needed for the one private CKA_ALWAYS_AUTHENTICATE key of the "poison" steps
        assert x.call('C_Login', s=s.keeper, user=0, pin=SO_PIN.hex())['rv'] == 0 and x.call('C_InitPIN', s=s.keeper, pin=USER_PIN12.hex())['rv'] == 0 and x.call('C_Logout', s=s.keeper)['rv'] == 0
        assert x.call('C_Login', s=s.keeper, user=1, pin=USER_PIN12.hex())['rv'] == 0
        s.keys = {}
        r = x.call('C_CreateObject', s=s.keeper, tmpl=x.T(dict(K.rsa_priv(ck), CKA_TOKEN=False, CKA_PRIVATE=True, CKA_ALWAYS_AUTHENTICATE=True)))
        s.aa_key = r['h'] if r['rv'] == 0 else None
        if s.aa_key is None: part.observe('the always-authenticate key could not be created (poison steps left out)', r['rvname'])
        def mk(name, t):
            t = dict(t); t.update({'CKA_TOKEN': False, 'CKA_PRIVATE': False})
            r = x.call('C_CreateObject', s=s.keeper, tmpl=x.T(t)); assert r['rv'] == 0, (name, r); s.keys[name] = r['h']
        mk('aes', K.secret(ck, 'CKK_AES', K.AES128)); mk('des3', K.secret(ck, 'CKK_DES3', K.DES3)); mk('generic', K.secret(ck, 'CKK_GENERIC_SECRET', K.GENERIC64))
        mk('rsa-priv', K.rsa_priv(ck)); mk('rsa-pub', K.rsa_pub(ck)); mk('ec-priv', K.ec_priv(ck)); mk('ec-pub', K.ec_pub(ck))
        mk('dsa-priv', K.dsa_priv(ck)); mk('dsa-pub', K.dsa_pub(ck))
        for n, t in (('ed-priv', K.ed_priv(ck)), ('ed-pub', K.ed_pub(ck))):
            try: mk(n, t)
            except AssertionError: pass
        for i in range(3): mk('data%d' % i, {'CKA_CLASS': ck.CKO_DATA, 'CKA_LABEL': b'd%d' % i, 'CKA_VALUE': b'v'})
        # the same keys imported with NON-CANONICAL big-integer encodings (one leading 00 octet, as DER INTEGER contents copied verbatim):
        # ~n0 = on CKA_MODULUS only, ~all0 / ~lz = on every big-integer component.  The true sizes (modulus, subprime) do not change.
        BIG = ('CKA_MODULUS', 'CKA_PUBLIC_EXPONENT', 'CKA_PRIVATE_EXPONENT', 'CKA_PRIME_1', 'CKA_PRIME_2', 'CKA_EXPONENT_1', 'CKA_EXPONENT_2', 'CKA_COEFFICIENT', 'CKA_PRIME', 'CKA_SUBPRIME', 'CKA_BASE', 'CKA_VALUE')
        def lz(t, only=None): return {a: (b'\x00' + v if a in BIG and isinstance(v, bytes) and (only is None or a in only) else v) for a, v in t.items()}
        s.kvars = {'rsa': [''], 'dsa': [''], 'ec': ['']}
        for fam, var, prv, pub in (('rsa', '~n0', lz(K.rsa_priv(ck), ['CKA_MODULUS']), lz(K.rsa_pub(ck), ['CKA_MODULUS'])), ('rsa', '~all0', lz(K.rsa_priv(ck)), lz(K.rsa_pub(ck))),
                                   ('dsa', '~lz', lz(K.dsa_priv(ck)), lz(K.dsa_pub(ck))), ('ec', '~lz', lz(K.ec_priv(ck)), None)):
            try:
                mk(f'{fam}-priv{var}', prv)
                if pub is not None: mk(f'{fam}-pub{var}', pub)
            except AssertionError as e:
                part.observe('non-canonical key import refused (variant left out)', {'key': fam + var, 'why': repr(e)[:120]}); s.keys.pop(f'{fam}-priv{var}', None); continue
            # NOT a filter: a key whose undisturbed use fails may fail exactly because of a dishonest length (the size protocol judges it below)
            s.kvars[fam].append(var)
            if not s.variant_works(fam, var): part.observe('non-canonical key fails an undisturbed sign/verify with a 600-byte buffer (kept in the key set)', {'key': fam + var})
        s.table = [m for m in mech_table(ck) if s.selftest(m)]
        s.calls = 0
    # ---- keys / mechanisms
    def keyfor(s, m, kind, var=''):
        if m.key is None: return None
        if m.key in ('aes', 'des3', 'generic'): return s.keys.get(m.key)
        role = m.key + ('-pub' if kind in ('verify', 'encrypt') else '-priv')
        return s.keys.get(role + var, s.keys.get(role))
    def variant_works(s, fam, var):
        """an undisturbed sign (+ verify / encrypt with the public twin of the variant) on the twin session"""
        x = s.x; T = s.twin; mech = {'rsa': 'CKM_RSA_PKCS', 'dsa': 'CKM_DSA', 'ec': 'CKM_ECDSA'}[fam]; data = (b'\x01' * 20).hex()
        if x.call('C_SignInit', s=T, mech=x.M(mech), key=s.keys[f'{fam}-priv{var}'])['rv'] != 0: return False
        r = x.call('C_Sign', s=T, data=data, buf=600)
        if r['rv'] != 0: s.reset_twin(); return False
        pub = s.keys.get(f'{fam}-pub{var}')
        if pub is not None:
            if x.call('C_VerifyInit', s=T, mech=x.M(mech), key=pub)['rv'] != 0: return False
            if x.call('C_Verify', s=T, data=data, sig=r['out']['data'])['rv'] != 0: return False
        return True
    def build_mech(s, m):
        """-> (mechanism json, tag bytes)"""
        r = s.rnd; ck = s.ck; x = s.x; p = m.params
        if p is None: return x.M(m.name), 0
        if p == 'iv16': return x.M(m.name, hex=bytes(r.randrange(256) for _ in range(16)).hex()), 0
        if p == 'iv8': return x.M(m.name, hex=bytes(r.randrange(256) for _ in range(8)).hex()), 0
        if p == 'ctr':
            # narrow counters (and counter blocks close to wrapping) bring the mechanism's data limit within reach of these messages: a size query or a too-small buffer must not use it up
            bits = r.choice([128, 64, 32, 8, 4, 3, 2, 1, 5]); cb = bytearray(r.randrange(256) for _ in range(16))
            if bits <= 8 and r.random() < 0.5:
                left = r.choice([1, 2, 4]); v = (int.from_bytes(cb, 'big') & ~((1 << bits) - 1)) | (((1 << bits) - left) & ((1 << bits) - 1)); cb = bytearray(v.to_bytes(16, 'big'))
            return x.M(m.name, ctr={'bits': bits, 'cb': bytes(cb).hex()}), 0
        if p == 'gcm':
            tb = r.choice([128, 128, 96, 64]); return x.M(m.name, gcm={'iv': bytes(r.randrange(256) for _ in range(12)).hex(), 'aad': bytes(r.randrange(256) for _ in range(r.choice([0, 0, 5, 20]))).hex(), 'tagbits': tb}), tb // 8
        if p == 'oaep': return x.M(m.name, oaep={'hash': ck.CKM_SHA_1, 'mgf': ck.CKG_MGF1_SHA1, 'source': 1}), 0
        if p.startswith('pss:'):
            h = p[4:]; return x.M(m.name, pss={'hash': ck['CKM_SHA_1' if h == 'SHA1' else 'CKM_' + h], 'mgf': ck['CKG_MGF1_' + h], 'slen': r.choice([0, 20])}), 0
        raise ValueError(p)
    def selftest(s, m):
        """the mechanism must work once, undisturbed, on the twin session (otherwise it is left out: not this property's business)"""
        for kind in m.ops[:1]:
            key = s.keyfor(m, kind)
            if m.key and key is None: return False
            mech, tag = s.build_mech(m); fns = KIND_FNS[kind]
            kw = dict(s=s.twin, mech=mech)
            if kind != 'digest': kw['key'] = key
            r = s.x.call(fns[0], **kw)
            if r['rv'] != 0:
                s.part.observe('mechanism left out (Init fails in this configuration)', {'mech': m.name, 'kind': kind, 'rv': r['rvname']}); return False
            n = m.fixin or (16 if m.sym else 20)
            r = s.x.call(fns[1], s=s.twin, data=(b'\x01' * n).hex(), buf=4096)
            if r['rv'] != 0:
                s.part.observe('mechanism left out (one-shot fails in this configuration)', {'mech': m.name, 'kind': kind, 'rv': r['rvname']}); s.reset_twin(); return False
        return True
    def reset_twin(s):
        s.x.call('C_CloseSession', s=s.twin); s.twin = s.x.call('C_OpenSession', slot=s.slot)['h']
    # ---- helper operations on the twin session (no oracle attached: they only produce inputs)
    def twin_oneshot(s, kind, m, mech, data, key=None):
        fns = KIND_FNS[kind]; kw = dict(s=s.twin, mech=mech)
        if kind != 'digest': kw['key'] = key if key is not None else s.keyfor(m, kind)
        r = s.x.call(fns[0], **kw)
        if r['rv'] != 0: return None
        r = s.x.call(fns[1], s=s.twin, data=data.hex(), buf=len(data) + 600)
        if r['rv'] != 0: s.reset_twin(); return None
        return bytes.fromhex(r['out']['data'])
    # ---- plans
    def split(s, data, multi):
        r = s.rnd
        if not multi: return None
        n = r.choice([0, 1, 1, 2, 2, 3]); cuts = sorted(r.randrange(len(data) + 1) for _ in range(max(0, n - 1)))
        parts = [data[a:b] for a, b in zip([0] + cuts, cuts + [len(data)])] if n else []
        if n == 0 and data: parts = [data]
        if r.random() < 0.15: parts.insert(r.randrange(len(parts) + 1), b'')
        return parts
    def rbytes(s, n): return bytes(s.rnd.randrange(256) for _ in range(n))
    def new_op(s, kind=None):
        """build a random operation plan; returns Op or None"""
        r = s.rnd
        if kind is None: kind = r.choice(['digest', 'encrypt', 'encrypt', 'decrypt', 'decrypt', 'sign', 'sign', 'verify', 'find'])
        fns = KIND_FNS[kind]
        if kind == 'find':
            calls = [dict(fn='C_FindObjects', kw=dict(max=r.choice([0, 1, 2, 10])), inlen=0) for _ in range(r.choice([0, 1, 2]))] + [dict(fn='C_FindObjectsFinal', kw={}, inlen=0)]
            return Op('find', M('find', 'find', ('find',)), None, None, calls)
        cands = [m for m in s.table if kind in m.ops]
        if not cands: return None
        m = r.choice(cands); mech, tag = s.build_mech(m); fail = r.random() < 0.3
        vs = s.kvars.get(m.key, ['']); var = r.choice(vs) if r.random() < 0.5 else ''
        key = s.keyfor(m, kind, var)
        multi = m.multi and r.random() < 0.65
        # ---- input
        if m.sym:
            b = m.block; n = r.choice([0, 1, b - 1, b, b + 1, 2 * b - 1, 2 * b, 2 * b + 1, 3 * b, 5 * b + 3] + ([4 * b, 8 * b, 16 * b, 2 * b, 4 * b] if m.params == 'ctr' else []))
            if m.cls == 'block-nopad': n = (n // b) * b + ((r.randrange(1, b)) if fail else 0)
            data = s.rbytes(n)
            if kind == 'decrypt':
                pt = data
                if m.cls == 'block-nopad' and fail: pt = s.rbytes((n // b) * b)
                ct = s.twin_oneshot('encrypt', m, mech, pt, key=s.keys[m.key])
                if ct is None: return None
                if fail:
                    if m.cls == 'block-nopad': ct = ct + s.rbytes(n % b or 1)
                    elif len(ct): i = r.randrange(max(0, len(ct) - (tag or m.block)), len(ct)); ct = ct[:i] + bytes([ct[i] ^ (1 << r.randrange(8))]) + ct[i + 1:]
                    if m.cls == 'aead' and r.random() < 0.3: ct = ct[:r.randrange(0, max(1, tag))]      # shorter than the tag
                data = ct
        elif m.cls == 'rsa-enc':
            n = r.choice([0, 1, 16, m.maxin - 1, m.maxin])
            if fail and kind == 'encrypt': n = r.choice([m.maxin + 1, 128, 129, 200]) if m.name != 'CKM_RSA_X_509' else r.choice([129, 200])
            data = s.rbytes(n)
            if m.name == 'CKM_RSA_X_509' and n == 128: data = b'\x00' + data[1:]
            if kind == 'decrypt':
                pt = s.rbytes(r.choice([0, 1, 16, m.maxin])) if m.name != 'CKM_RSA_X_509' else b'\x00' + s.rbytes(127)
                ct = s.twin_oneshot('encrypt', m, mech, pt, key=s.keys['rsa-pub'])
                if ct is None: return None
                if fail: ct = r.choice([ct[:-1], ct[:5] + bytes([ct[5] ^ 4]) + ct[6:], ct + b'\x00', b''])
                data = ct
        else:
            if m.fixin: n = m.fixin
            elif m.maxin: n = r.choice([1, 20, m.maxin])
            else: n = r.choice([0, 1, 55, 64, 65, 200])
            data = s.rbytes(n)
            if m.name == 'CKM_RSA_X_509' and n == 128: data = b'\x00' + data[1:]
            if fail and kind == 'sign' and m.maxin and m.cls == 'rsa-sign': data = s.rbytes(r.choice([m.maxin + 1, 129, 200]) if m.name != 'CKM_RSA_X_509' else r.choice([129, 200]))
        sig = None
        if kind == 'verify':
            sig = s.twin_oneshot('sign', m, mech, data, key=s.keyfor(m, 'sign', var))
            if sig is None: return None
            if fail: sig = r.choice([sig[:-1], sig + b'\x00', sig[:3] + bytes([sig[3] ^ 0x10]) + sig[4:], b''])
        # ---- calls
        parts = s.split(data, multi)
        if parts is None:
            kw = dict(data=data.hex())
            if kind == 'verify': kw['sig'] = sig.hex()
            calls = [dict(fn=fns[1], kw=kw, inlen=len(data))]
        else:
            calls = [dict(fn=fns[2], kw=dict(data=p.hex()), inlen=len(p)) for p in parts]
            if kind == 'digest' and r.random() < 0.15: calls.insert(r.randrange(len(calls) + 1), dict(fn='C_DigestKey', kw=dict(key=s.keys['generic']), inlen=0))
            calls.append(dict(fn=fns[3], kw=(dict(sig=sig.hex()) if kind == 'verify' else {}), inlen=0))
        op = Op(kind, m, mech, key, calls, tag=tag, designed_fail=fail, var=var); op.alldata = data; return op
    # ---- oracle plumbing
    def V(s, fn, icls, outcome, what, **wit):
        wit.update(seed=s.job['seed'], config=s.job['cfg'], trace=s.x.trace_path, interleaving=s.cur, history_tail=s.hist[-14:])
        s.part.violation(f'{fn}|{icls}|{outcome}', what, wit)
    def case(s, kind, mcls, step, bufcls, nontrivial=True, sample=None):
        s.part.case((kind, mcls, step, bufcls), nontrivial=nontrivial, sample=sample); s.part.count('steps_' + step)
    def call(self, fn, **kw):
        self.calls += 1; r = self.x.call(fn, **kw); r['fn'] = fn
        self.hist.append((fn, kw.get('s'), {k: v for k, v in kw.items() if k in ('buf', 'announce', 'max')}, len(kw['data']) // 2 if 'data' in kw else None, r['rvname'], (r.get('out') or {}).get('len')))
        return r
    def init_kw(s, op, sess):
        if op.kind == 'find': return dict(s=sess, tmpl=[])
        kw = dict(s=sess, mech=op.mech)
        if op.kind != 'digest': kw['key'] = op.key
        return kw
    def bound(s, op, c):
        if op.m.sym: return c['inlen'] + (op.tin - op.tout) + op.m.block + op.tag
        return op.m.size
    def continue_call(s, op, sess, query=True):
        """the natural 'continue' call of an operation kind, used as a probe: harmless if the operation is (wrongly) still there"""
        fns = KIND_FNS[op.kind]
        if op.kind == 'find': return s.call('C_FindObjects', s=sess, max=0)
        if op.kind == 'verify': return s.call(fns[2], s=sess, data='') if op.m.multi else s.call('C_Verify', s=sess, data='00', sig='00')
        if op.m.multi:
            if op.kind in ('digest', 'sign'): return s.call(fns[2], s=sess, data='')
            return s.call(fns[2], s=sess, data='', buf=None)
        return s.call(fns[1], s=sess, data='00', buf=None)
    def finished(s, S, how, rvname=None, endfn=None):
        """the operation of session S has finished or failed: it must be gone"""
        op = S['op']; S['op'] = None; S['state'] = 'none'
        r = s.continue_call(op, S['h'])
        step = 'probe-after-' + how
        if r['rvname'] != NOINIT:
            s.V(endfn or r['fn'], f'{op.cls},{op.kind},{how}' + (f':{rvname}' if rvname and how == 'failure' else ''), 'operation-still-active',
                f'the {op.kind} operation ({op.m.name}) ended with {endfn} ({how}{": " + rvname if rvname else ""}) but the next {r["fn"]} returned {r["rvname"]} instead of CKR_OPERATION_NOT_INITIALIZED', mech=op.m.name, probe=r['fn'], probe_rv=r['rvname'])
            # get rid of whatever is there
            s.x.call('C_CloseSession', s=S['h']); S['h'] = s.x.call('C_OpenSession', slot=s.slot)['h']
        s.case(op.kind, op.cls, step, 'none')
        if op.disturbed: s.run_twin(op)
        elif S.pop('fresh_twin_next', False) or s.rnd.random() < 0.3:
            # "an operation that finished or failed is gone": whatever ran in this session before, this operation must have answered as it does in a session that never ran
            # anything - the same calls are replayed on a brand-new twin session
            s.reset_twin(); s.run_twin(op)
    def run_twin(s, op):
        """replay the completed calls of a disturbed operation, undisturbed, on the twin session and compare"""
        part = s.part; T = s.twin; fns = KIND_FNS[op.kind]
        r = s.x.call(fns[0], **s.init_kw(op, T))
        if r['rv'] != 0: part.observe('twin Init failed (not evaluated)', {'mech': op.m.name, 'rv': r['rvname']}); s.reset_twin(); return
        rvs = []; outs = []
        for c, rvname, out in op.done:
            kw = dict(c['kw'])
            if c['fn'] in HAS_OUT: kw['buf'] = c['bound'] + 64
            q = s.x.call(c['fn'], s=T, **kw); rvs.append(q['rvname'])
            if q['rv'] == 0 and c['fn'] in HAS_OUT: outs.append(bytes.fromhex(q['out']['data']))
            if q['rv'] != 0: break
        main_rvs = [rv for _, rv, _ in op.done]; main_out = b''.join(o for _, _, o in op.done if o is not None); twin_out = b''.join(outs)
        twin_ended = bool(rvs) and (rvs[-1] != OK or op.done[len(rvs) - 1][0]['fn'] in ENDS)
        if not twin_ended: s.reset_twin()          # the replay left an operation open on the twin session
        icls = f'{op.cls},{op.kind},' + ('disturbed' if op.disturbed else 'used-session'); how = 'that was disturbed by size queries / too-small buffers' if op.disturbed else 'run in a session that had run other operations before'
        part.count('twin_runs')
        if rvs != main_rvs[:len(rvs)] or len(rvs) != len(main_rvs):
            s.V(fns[3] or fns[1], icls, 'return-codes-differ-from-twin', f'a {op.kind} operation ({op.m.name}) {how} answered {main_rvs}, the twin on a fresh session {rvs}', mech=op.m.name, mechanism=op.mech, calls=[(c['fn'], c['kw']) for c, _, _ in op.done])
            s.case(op.kind, op.cls, 'twin' if op.disturbed else 'twin-fresh-session', 'none'); return
        if main_rvs and main_rvs[-1] == OK and op.kind != 'verify':
            if not op.m.rand or op.kind == 'decrypt':       # decryption is deterministic also for randomised encryption schemes
                if main_out != twin_out:
                    s.V(fns[3] or fns[1], icls, 'result-differs-from-twin', f'a disturbed {op.kind} operation ({op.m.name}) produced a different result than its undisturbed twin', mech=op.m.name, mechanism=op.mech, got=main_out.hex(), twin=twin_out.hex(), calls=[(c['fn'], c['kw']) for c, _, _ in op.done])
            else:
                good = s.semantic_check(op, main_out)
                if good is False:
                    s.V(fns[3] or fns[1], icls, 'result-does-not-verify', f'the output of a disturbed {op.kind} operation ({op.m.name}, randomised) does not verify/decrypt', mech=op.m.name, mechanism=op.mech, got=main_out.hex())
        s.case(op.kind, op.cls, 'twin' if op.disturbed else 'twin-fresh-session', 'none')
    def semantic_check(s, op, out):
        if op.kind == 'sign':
            r = s.x.call('C_VerifyInit', s=s.twin, mech=op.mech, key=s.keyfor(op.m, 'verify', op.var))
            if r['rv'] != 0: return None
            r = s.x.call('C_Verify', s=s.twin, data=op.alldata.hex(), sig=out.hex()); return r['rv'] == 0
        if op.kind == 'encrypt':
            r = s.x.call('C_DecryptInit', s=s.twin, mech=op.mech, key=s.keyfor(op.m, 'decrypt', op.var))
            if r['rv'] != 0: return None
            r = s.x.call('C_Decrypt', s=s.twin, data=out.hex(), buf=256)
            if r['rv'] != 0: return False
            return bytes.fromhex(r['out']['data']) == op.alldata
        return None
    # ---- one call of the plan, with a randomly chosen buffer discipline
    def plan_step(s, S, drain=False):
        op = S['op']; c = op.calls[op.i]; fn = c['fn']; sess = S['h']; r = s.rnd
        step = 'one-shot' if (fn in ENDS and op.i == 0 and len(op.calls) == 1 and op.kind != 'find') else ('final' if fn in ENDS else 'update')
        kw = dict(c['kw']); bufcls = 'none'; A = None; cap = None; bnd = None
        if fn in HAS_OUT:
            bnd = s.bound(op, c); c['bound'] = bnd; L = op.L; blk = op.m.block or 16
            if drain: mode = 'huge' if L is None else r.choice(['exact', 'huge'])
            elif L is None: mode = r.choices(['query', 'tiny', 'huge'], [35, 25, 40])[0]
            else: mode = r.choices(['query', 'small', 'exact', 'plus1', 'plusblock', 'huge'], [5, 15, 40, 15, 10, 15])[0]
            if mode == 'small' and L == 0: mode = 'exact'
            bufcls = mode
            if mode == 'query': kw['buf'] = None; kw['announce'] = r.choice([0, 1, 1 << 40, bnd])
            else:
                A = {'tiny': r.choice([0, 1]), 'small': (L - 1 if (L and r.random() < 0.7) else r.choice([0, 1])) if L else 0, 'exact': L, 'plus1': (L or 0) + 1, 'plusblock': (L or 0) + blk, 'huge': (bnd + 64) if r.random() < 0.9 else 65536}[mode]
                if mode == 'small' and L is not None and A >= L: A = max(0, L - 1)
                slack = (L is not None or mode == 'huge') and r.random() < 0.5
                cap = (max(L or 0, A) + 16) if slack else A
                kw['buf'] = cap
                if cap != A: kw['announce'] = A
        q = s.call(fn, s=sess, **kw); rv = q['rvname']; o = q.get('out')
        sample = {'call': fn, 'mech': op.m.name, 'buffer': bufcls, 'announced': A, 'bound': bnd, 'rv': rv, 'reported': (o or {}).get('len'), 'buffered_before': op.tin - op.tout if op.m.sym else None}
        icls = f'{op.cls},{bufcls}' + ((',buffered=0' if op.tin == op.tout else ',buffered>0') if op.m.sym else '')
        if rv == NOINIT:
            if op.maybe_gone:
                s.part.observe('operation was dropped by an argument rejection (narrow reading: observation)', {'mech': op.m.name, 'call': fn}); S['op'] = None; S['state'] = 'none'; return
            s.V(fn, f'{op.cls},{op.kind},' + ('after-size-query-or-too-small' if op.disturbed else 'undisturbed'), 'operation-gone', f'{fn} on a session whose {op.kind} operation ({op.m.name}) was started and neither finished nor failed returned CKR_OPERATION_NOT_INITIALIZED' + (' after a size query / too-small buffer' if op.disturbed else ''), mech=op.m.name, disturbed=op.disturbed, done=[(c_['fn'], rv_) for c_, rv_, _ in op.done])
            S['op'] = None; S['state'] = 'none'; s.case(op.kind, op.cls, step, bufcls, sample=sample); return
        # ---- buffer discipline
        if o is not None and not o.get('null', True):
            rep = o['len']
            if rv == OK:
                if rep > A: s.V(fn, icls, 'reported>announced', f'{fn} returned CKR_OK reporting {rep} bytes into a buffer announced as {A}', mech=op.m.name, announced=A, reported=rep)
                elif not o.get('tail_ok', True): s.V(fn, icls, 'wrote-beyond-reported', f'{fn} returned CKR_OK/{rep} bytes but bytes behind the reported length were modified', mech=op.m.name, announced=A, reported=rep, cap=cap)
            else:
                beyond = False
                if cap > A:
                    if rep <= cap and 'data' in o:
                        d = bytes.fromhex(o['data']); beyond = any(d[i] != canary(i) for i in range(A, len(d))) or not o.get('tail_ok', True)
                    elif o.get('changed', 0) > A: beyond = True
                    elif o.get('changed', 0) > 0: s.part.observe('bytes written on an error return (position unknown, within the announced size at most)', {'call': fn, 'rv': rv})
                if beyond: s.V(fn, icls, 'wrote-beyond-announced', f'{fn} returned {rv} and modified bytes behind the announced length {A}', mech=op.m.name, announced=A, reported=rep, cap=cap)
        if fn in HAS_OUT and rv in (OK, SMALL) and o is not None:
            rep = o['len']
            if (kw.get('buf') is None or rv == SMALL):
                # a length answer: honest?  (input class: how it was asked, empty/non-empty input, empty/non-empty internal buffer)
                lcls = f'{op.cls},{"query" if kw.get("buf") is None else "too-small"}' + ((',in=0' if c['inlen'] == 0 else ',in>0') + (',buffered=0' if op.tin == op.tout else ',buffered>0') if op.m.sym else '')
                if rv == SMALL and A is not None and L is not None and A >= L:
                    s.V(fn, lcls, 'length-insufficient', f'{fn} ({op.m.name}) had reported {L} as sufficient but answered CKR_BUFFER_TOO_SMALL to a buffer of {A}', mech=op.m.name, reported_before=L, announced=A, reported=rep)
                if rv == SMALL and A is not None and rep <= A:
                    s.V(fn, lcls, 'too-small-but-fits', f'{fn} ({op.m.name}) answered CKR_BUFFER_TOO_SMALL for a buffer of {A} while reporting a needed length of {rep}', mech=op.m.name, announced=A, reported=rep)
                if rep > bnd:
                    s.V(fn, lcls, 'length>bound' if rep < (1 << 62) else 'length=2^64-ish', f'{fn} ({op.m.name}) reported a needed length of {rep}; the statement allows at most {bnd} (input {c["inlen"]} + buffered {op.tin - op.tout if op.m.sym else 0} + block + tag, resp. the fixed size)', mech=op.m.name, mechanism=op.mech, reported=rep, bound=bnd, calls_done=[(c_['fn'], c_['inlen'], rv_) for c_, rv_, _ in op.done])
                    # no buffer can be sized from such an answer: give the operation up (its session is replaced)
                    s.case(op.kind, op.cls, step, bufcls, sample=sample); s.part.count('operations_abandoned_after_dishonest_length')
                    s.x.call('C_CloseSession', s=S['h']); S['h'] = s.x.call('C_OpenSession', slot=s.slot)['h']; S['op'] = None; S['state'] = 'none'; return
                op.L = rep; op.disturbed = True; s.part.count('disturbances')
                s.case(op.kind, op.cls, step, bufcls, sample=sample); return     # operation must still be active and unchanged: decided by what follows
        if rv in ARG_REJECTIONS:
            s.part.observe('argument rejection on an active operation (operation kept: observation only)', {'call': fn, 'mech': op.m.name, 'rv': rv}); op.maybe_gone = True; op.i += 1
            if op.i >= len(op.calls): S['state'] = 'unknown'
            s.case(op.kind, op.cls, step, bufcls, nontrivial=False); return
        # ---- the call completed: success or failure
        out = bytes.fromhex(o['data']) if (o is not None and rv == OK and 'data' in o) else None
        op.done.append((c, rv, out)); op.L = None
        if rv == OK:
            op.tin += c['inlen']; op.tout += len(out or b''); op.i += 1
            s.case(op.kind, op.cls, step, bufcls, sample=sample)
            if fn in ENDS: s.part.count('operations_finished'); s.finished(S, 'success', endfn=fn)
            return
        s.part.count('operations_failed'); s.part.count('failed_rv_' + rv)
        s.case(op.kind, op.cls, step + '-failing', bufcls, sample=sample)
        s.finished(S, 'failure', rv, endfn=fn)
    # ---- steps on idle / active sessions
    def idle_step(s, S):
        r = s.rnd; sess = S['h']
        if s.aa_key is not None and r.random() < 0.06:
            # "poison": something that ended (or never began) must leave NOTHING in the session: (a) a C_SignInit with the always-authenticate key that is refused late (PSS salt that cannot fit),
            # (b) a complete always-authenticate signature (Init, context-specific login, one-shot).  What follows in this session is compared with a brand-new session (fresh-session twins).
            x = s.x; ck = s.ck
            if r.random() < 0.6:
                q = s.call('C_SignInit', s=sess, key=s.aa_key, mech=x.M('CKM_SHA512_RSA_PKCS_PSS', pss={'hash': ck.CKM_SHA512, 'mgf': ck.CKG_MGF1_SHA512, 'slen': r.choice([64, 63, 200])})); s.part.count('poison_refused_inits' if q['rv'] else 'poison_inits_accepted')
                if q['rv'] == 0: s.call('C_SignUpdate', s=sess, data='00'); s.call('C_Login', s=sess, user=2, pin=USER_PIN12.hex()); s.call('C_SignFinal', s=sess, buf=256)
                else:
                    q2 = s.call('C_Login', s=sess, user=2, pin=USER_PIN12.hex())
                    if q2['rv'] == 0: s.V('C_Login(CKU_CONTEXT_SPECIFIC)', 'after-refused-C_SignInit', 'accepted-without-an-operation', 'a context-specific login was accepted although the C_SignInit that would have needed it had been refused (no operation is active)', init=q['rvname'])
            else:
                q = s.call('C_SignInit', s=sess, key=s.aa_key, mech=x.M('CKM_SHA256_RSA_PKCS'))
                if q['rv'] == 0: s.call('C_Login', s=sess, user=2, pin=USER_PIN12.hex()); q3 = s.call('C_Sign', s=sess, data='abcd', buf=256); s.part.count('poison_complete_aa_signatures' if q3['rv'] == 0 else 'poison_aa_signature_failed')
            s.case('sign', 'rsa-sign', 'poison', 'none'); S['fresh_twin_next'] = True; return
        if r.random() < 0.72:
            op = s.new_op()
            if op is None: return
            q = s.call(KIND_FNS[op.kind][0], **s.init_kw(op, sess))
            if q['rv'] == 0: S['op'] = op; S['state'] = 'active'; s.case(op.kind, op.cls, 'init', 'none'); s.part.count('operations_started'); return
            if q['rvname'] == ACTIVE:
                s.V(KIND_FNS[op.kind][0], f'{op.cls},idle-session', 'refused:CKR_OPERATION_ACTIVE', f'{KIND_FNS[op.kind][0]} on a session without an active operation returned CKR_OPERATION_ACTIVE', mech=op.m.name)
                s.x.call('C_CloseSession', s=sess); S['h'] = s.x.call('C_OpenSession', slot=s.slot)['h']
            else: s.part.observe('Init refused on an idle session (not this property)', {'mech': op.m.name, 'kind': op.kind, 'rv': q['rvname']})
            s.case(op.kind, op.cls, 'init', 'none', nontrivial=False); return
        # continue without Init: exactly CKR_OPERATION_NOT_INITIALIZED
        kind = r.choice(list(KIND_FNS)); which = r.choice(['update', 'final', 'one-shot', 'digestkey'])
        s.expect_noinit(sess, kind, which, 'no-init')
    def expect_noinit(s, sess, kind, which, step):
        r = s.rnd; fns = KIND_FNS[kind]; data = s.rbytes(r.choice([0, 1, 16, 33])).hex(); buf = r.choice([None, 0, 1, 64, 300])
        if kind == 'find': fn = r.choice(['C_FindObjects', 'C_FindObjectsFinal']); q = s.call(fn, s=sess, **({'max': r.choice([0, 1, 5])} if fn == 'C_FindObjects' else {}))
        elif which == 'digestkey': fn = 'C_DigestKey'; q = s.call(fn, s=sess, key=s.keys['generic']); kind = 'digest'
        elif which == 'update':
            fn = fns[2]; q = s.call(fn, s=sess, data=data, **({'buf': buf} if fn in HAS_OUT else {}))
        elif which == 'final':
            fn = fns[3]; q = s.call(fn, s=sess, **({'buf': buf} if fn in HAS_OUT else {'sig': data}))
        else:
            fn = fns[1]; q = s.call(fn, s=sess, data=data, **({'buf': buf} if fn in HAS_OUT else {'sig': data}))
        if q['rvname'] != NOINIT:
            s.V(fn, f'{kind},{step}', 'not-CKR_OPERATION_NOT_INITIALIZED:' + q['rvname'], f'{fn} without a matching Init returned {q["rvname"]}', buf=buf)
        o = q.get('out')
        if o is not None and not o.get('null', True) and o.get('changed', 0) > 0:
            s.part.observe('bytes written into the output buffer by a call that returned an error', {'call': fn, 'rv': q['rvname']})
        s.case(kind, 'any', step, 'none' if fn not in HAS_OUT else ('query' if buf is None else 'real')); return q
    def active_step(s, S):
        r = s.rnd; op = S['op']; sess = S['h']; x = r.random()
        if x < 0.16:
            other = s.new_op()
            if other is None: return
            q = s.call(KIND_FNS[other.kind][0], **s.init_kw(other, sess))
            if q['rvname'] != ACTIVE:
                s.V(KIND_FNS[other.kind][0], f'while-{op.kind}-active({op.cls})' + (',after-size-query-or-too-small' if op.disturbed else ''), 'not-CKR_OPERATION_ACTIVE:' + q['rvname'], f'{KIND_FNS[other.kind][0]} ({other.m.name}) on a session with an active {op.kind} operation ({op.m.name}) returned {q["rvname"]}', active=op.m.name, second=other.m.name)
                if q['rv'] == 0: s.x.call('C_CloseSession', s=sess); S['h'] = s.x.call('C_OpenSession', slot=s.slot)['h']; S['op'] = None; S['state'] = 'none'
            s.case(other.kind, other.m.cls, 'second-init:' + op.kind, 'none'); return
        if x < 0.23:
            kinds = [k for k in KIND_FNS if k != op.kind]
            s.expect_noinit(sess, r.choice(kinds), r.choice(['update', 'final', 'one-shot']), 'other-kind-while-' + op.kind); return
        if x < 0.27 and op.kind == 'digest' and op.m.multi and len(op.calls) > 1:
            q = s.call('C_DigestKey', s=sess, key=r.choice([0, 99999]))
            s.part.observe('C_DigestKey with a bad handle on an active digest', {'rv': q['rvname']});
            if q['rvname'] == NOINIT: s.V('C_DigestKey', 'digest,bad-key-handle', 'operation-gone', 'C_DigestKey(bad handle) answered CKR_OPERATION_NOT_INITIALIZED on an active digest operation')
            op.maybe_gone = True; s.case('digest', 'digest', 'arg-rejection', 'none', nontrivial=False); return
        if x < 0.30 and not op.m.multi and op.kind in ('encrypt', 'decrypt'):
            fn = KIND_FNS[op.kind][r.choice([2, 3])]; q = s.call(fn, s=sess, **({'data': '00' * 16} if fn.endswith('Update') else {}), buf=256)
            s.part.observe('multi-part call on a single-part-only cipher operation', {'call': fn, 'mech': op.m.name, 'rv': q['rvname']}); op.maybe_gone = True
            s.case(op.kind, op.cls, 'arg-rejection', 'real', nontrivial=False); return
        if x < 0.36 and op.m.sym and op.kind in ('encrypt', 'decrypt') and 0 < op.i < len(op.calls) - 1 and KIND_FNS[op.kind][2] == op.calls[op.i]['fn']:
            # a single-part call on an operation that already took parts (the statement is silent on whether it is allowed; the library accepts it): whatever it answers, the length
            # protocol holds -- nothing behind the announced size is written and CKR_OK never reports more than was announced.  The session is replaced afterwards.
            fn = KIND_FNS[op.kind][1]; rest = b''.join(bytes.fromhex(c['kw'].get('data', '')) for c in op.calls[op.i:] if 'data' in c['kw'])
            q0 = s.call(fn, s=sess, data=rest.hex(), buf=None); L = (q0.get('out') or {}).get('len') if q0['rv'] == 0 else None
            for A in ([L] if isinstance(L, int) and 0 <= L < 70000 else []) + [len(rest)]:
                cap = A + 512; q = s.call(fn, s=sess, data=rest.hex(), buf=cap, announce=A); o = q.get('out') or {}
                if q['rvname'] == NOINIT: break
                if q['rv'] == 0 and o.get('len', 0) > A: s.V(fn, f'{op.cls},single-part-call-after-parts', 'reported>announced', f'{fn} after {op.i} part(s) of a multi-part {op.kind} ({op.m.name}) returned CKR_OK reporting {o.get("len")} bytes into a buffer announced as {A}', mech=op.m.name, announced=A, reported=o.get('len'), parts_before=op.i)
                d = bytes.fromhex(o.get('data', '')) if 'data' in o else b''
                if not o.get('tail_ok', True) and (q['rv'] != 0 or o.get('len', 0) <= A): s.V(fn, f'{op.cls},single-part-call-after-parts', 'wrote-beyond-announced', f'{fn} after {op.i} part(s) of a multi-part {op.kind} ({op.m.name}) modified bytes behind the announced length {A} ({q["rvname"]})', mech=op.m.name, announced=A, reported=o.get('len'), parts_before=op.i)
                if q['rv'] == 0: break
            s.part.count('single_part_calls_after_parts'); s.case(op.kind, op.cls, 'single-part-after-parts', 'real')
            s.x.call('C_CloseSession', s=sess); S['h'] = s.x.call('C_OpenSession', slot=s.slot)['h']; S['op'] = None; S['state'] = 'none'; return
        s.plan_step(S)
    def resolve_unknown(s, S):
        """after an argument rejection on the last call: end whatever is there; afterwards nothing may be active"""
        op = S['op']; fns = KIND_FNS[op.kind]
        if op.kind == 'find': s.call('C_FindObjectsFinal', s=S['h'])
        elif op.kind == 'verify': s.call(fns[3] if op.m.multi else fns[1], s=S['h'], **({'sig': '00'} if op.m.multi else {'data': '00', 'sig': '00'}))
        else: s.call(fns[3] if op.m.multi else fns[1], s=S['h'], **({} if op.m.multi else {'data': '00'}), buf=1024)
        op.disturbed = False; s.finished(S, 'resolve')
    def interleaving(s, idx):
        r = s.rnd; s.cur = idx; s.hist = []
        ns = r.choice([1, 1, 2, 2, 3]); SS = [{'h': s.x.call('C_OpenSession', slot=s.slot, flags=r.choice([4, 6]))['h'], 'op': None, 'state': 'none'} for _ in range(ns)]
        for _ in range(r.randrange(4, 13)):
            S = r.choice(SS)
            if S['state'] == 'none': s.idle_step(S)
            elif S['state'] == 'unknown': s.resolve_unknown(S)
            else: s.active_step(S)
        # drive every open operation to its end so that the disturbed ones can be compared with their twin
        for S in SS:
            guard = 0
            while S['state'] != 'none' and guard < 40:
                guard += 1
                if S['state'] == 'unknown': s.resolve_unknown(S)
                else: s.plan_step(S, drain=True)
        for S in SS: s.x.call('C_CloseSession', s=S['h'])
        s.part.count('interleavings'); s.part.count('sessions', ns)
    def close(s):
        for cat, loc in s.x.ubsan_reports()[:20]: s.part.observe('side:ubsan ' + loc, cat)
        s.part.count('calls', s.calls)
        s.x.close()

def work(job):
    part = Part(); job['ck'] = CK(job['hdr']); w = None
    try:
        w = Worker(job, part)
        if job['first']: part.observe('mechanisms exercised', {'config': job['cfg'], 'n': len(w.table), 'names': sorted({m.name + '/' + m.cls for m in w.table}), 'key_encodings': w.kvars}, cap=4)
        for i in range(job['n']): w.interleaving(i)
    except Died as e:
        part.observe('side:C17 library terminated the host', {'kind': e.kind(), 'fn': e.fn, 'where': e.where(), 'seed': job['seed'], 'history_tail': getattr(w, 'hist', [])[-6:]}); part.inconc(f'executor died ({e.kind()} in {e.fn}) seed={job["seed"]}')
    except Hang: part.inconc(f'executor hang seed={job["seed"]}')
    except AssertionError as e: part.inconc(f'setup failed seed={job["seed"]}: {e!r}'[:400])
    if w is not None:
        try: w.close()
        except Exception: pass
        shutil.rmtree(w.d, ignore_errors=True)
    return part

def run(ctx):
    ctx.rule = ('one evaluation = one judged step of an interleaving (Init, second Init, continue without Init, Update / Final / one-shot with a chosen buffer discipline, probe after an operation ended, '
                'twin comparison of a disturbed operation); distinct = (operation kind, mechanism class, step kind, buffer class); non-trivial = an operation was active or had just ended '
                '(Init refused for reasons outside the property and argument rejections are counted as trivial)')
    cfgs = ('asan', 'botan'); ctx.need(*cfgs)      # (quick: a sixth of the interleavings on the Botan build)
    total = ctx.q(12000, 60000); jobs = []
    for cfg in cfgs:
        n_cfg = total if cfg == 'asan' else total // 6
        njobs = ctx.q(32, 96) if cfg == 'asan' else ctx.q(8, 32)
        per = (n_cfg + njobs - 1) // njobs
        for i in range(njobs):
            jobs.append(dict(paths=ctx.paths, hdr=ctx.paths[cfg]['hdr'], cfg=cfg, scratch=ctx.scratch, seed=ctx.seed * 1000003 + len(jobs), n=per, backend='file' if i % 4 else 'db', first=(i == 0)))
    for part in pmap(work, jobs, ctx.nproc): ctx.merge(part)
    ctx.assumptions += ['"failed" is read narrowly: an Update/Final/one-shot that returned an error other than CKR_BUFFER_TOO_SMALL; CKR_FUNCTION_NOT_SUPPORTED / CKR_KEY_HANDLE_INVALID / CKR_KEY_INDIGESTIBLE / CKR_ARGUMENTS_BAD are argument rejections (observations)',
                        'single-part-only mechanisms are only driven single-part; mixing one-shot and multi-part calls on one operation is not generated (the statement is silent about it)',
                        'the twin is the same library: the comparison decides "unchanged by the disturbance", not correctness of the result (C10)',
                        'single DES is excluded (no legacy provider in the system OpenSSL 3); mechanisms whose undisturbed self-test fails in a configuration are left out and listed',
                        'overflow behind an exact-size buffer is left to ASan (reported as a side observation + inconclusive case, the verdict is C17\'s); with canary slack it is decided here']
if __name__ == '__main__': main('C12', run, level='exploration', min_evaluations=10000, min_distinct=120)
