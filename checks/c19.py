#!/usr/bin/env python3
"""C19 - object search is sound and complete."""
import sys, os; sys.path.insert(0, os.path.join(os.path.dirname(os.path.abspath(__file__)), '..', 'vlib'))
from harness import main
from walkcheck import run_walks
W = {'open': 3, 'close': 1, 'login': 3, 'logout': 2, 'create': 12, 'copy': 3, 'destroy': 2, 'setattr': 3, 'find': 14, 'restart': 1, 'closeall': 1}
def hook(w, job, part):
    if job['backend'] == 'db': w.weights.pop('copy', None)   # C_CopyObject on the db back-end loses attributes (known finding of C05/C20); the population would be wrong, not the search
    # build a population first (logged in so that private objects exist), then the mixed walk
    for ti in range(2):
        w.op_open(ti, True); se = [x for x in w.m.sess.values() if x.alive and x.ti == ti][0]; w.op_login(se, 1, True)
        for _ in range(w.rnd.randrange(4, 30)): w.op_create(se)
    w.run(job['steps'], monitors=(), stop_on={'C19', 'MODEL'})
def bulk_hook(w, job, part):
    """large populations (hundreds of objects) with batch sizes from 1 to beyond the population"""
    if job['backend'] == 'db': w.weights.pop('copy', None)
    for ti in range(2):
        w.op_open(ti, True); se = [x for x in w.m.sess.values() if x.alive and x.ti == ti][0]; w.op_login(se, 1, True)
        for _ in range(job['steps']): w.op_create(se)
    for _ in range(40):
        se = w.pick_sess(); w.op_find(se)
        if w.rnd.random() < 0.3: w.op_logout(se)
        elif w.rnd.random() < 0.3: w.op_login(se, 1, True)
        if w.rnd.random() < 0.3: w.op_destroy(se)
        if any(f.prop in ('C19', 'MODEL') for f in w.findings): return

def search_while_another_process_writes(ctx, backend):
    """completeness does not depend on what other processes are doing: one process searches over and over for five public token objects that nobody touches, while a second process
    creates other objects on the same token with its file-system operations slowed down (so that its write transactions / file locks are held for a long time); every search must
    return exactly the five"""
    from p11client import Died, Hang
    ck = ctx.ck; d = ctx.dir('c19w'); X = []
    try:
        x = ctx.new_exec('asan', d, backend); X.append(x); assert x.call('C_Initialize', locking='os')['rv'] == 0
        slot = x.call('C_GetSlotList', count=8)['slots'][-1]; assert x.call('C_InitToken', slot=slot, pin=b'so-pin-19w'.hex(), label=b'c19w'.hex())['rv'] == 0
        s = x.call('C_OpenSession', slot=slot)['h']
        for i in range(5): assert x.call('C_CreateObject', s=s, tmpl=x.T({'CKA_CLASS': ck.CKO_DATA, 'CKA_TOKEN': True, 'CKA_PRIVATE': False, 'CKA_LABEL': b'keep-%d' % i, 'CKA_APPLICATION': b'keep', 'CKA_VALUE': b'k' * 16}))['rv'] == 0
        x.call('C_Finalize'); x.close(); X = []
        A = ctx.new_exec('asan', d, backend, reuse_dir=True); B = ctx.new_exec('asan', d, backend, reuse_dir=True); X = [A, B]; S = []
        for y in X:
            y.timeout = 900; assert y.call('C_Initialize', locking='os')['rv'] == 0
            sl = [q for q in y.call('C_GetSlotList', count=8)['slots'] if y.call('C_GetTokenInfo', slot=q)['flags'] & ck.CKF_TOKEN_INITIALIZED][0]; S.append(y.call('C_OpenSession', slot=sl)['h'])
        nsearch = ctx.q(150, 400); ncreate = ctx.q(3, 8) if backend == 'db' else ctx.q(8, 24)      # (a db create is some hundred transactions, each with its own syncs)
        sa = []
        for i in range(nsearch): sa += [{'fn': 'C_FindObjectsInit', 's': S[0], 'tmpl': A.T({'CKA_APPLICATION': b'keep'})}, {'fn': 'C_FindObjects', 's': S[0], 'max': 50}, {'fn': 'C_FindObjectsFinal', 's': S[0]}, {'fn': 'X_Sleep', 'us': 40000 if backend == 'db' else 15000}]
        sb = [{'fn': 'C_CreateObject', 's': S[1], 'tmpl': B.T({'CKA_CLASS': ck.CKO_DATA, 'CKA_TOKEN': True, 'CKA_PRIVATE': False, 'CKA_LABEL': b'other-%d' % i, 'CKA_APPLICATION': b'other', 'CKA_VALUE': b'o' * 16})} for i in range(ncreate)]
        if backend == 'db': B.call('fs', mode='delay', root=d + '/tokens', seed=ctx.seed, p=0.04, maxus=500000, kind='sync')      # SQLite holds its exclusive lock while it syncs the database file: slow storage = long lock
        else: B.call('fs', mode='delay', root=d + '/tokens', seed=ctx.seed, p=0.5, maxus=6000)      # ~700 (db) / ~200 (file) operations per create: a write transaction is held for some hundred milliseconds
        B.send({'fn': 'threads', 'scripts': [sb], 'timeout': 900}); A.send({'fn': 'threads', 'scripts': [sa], 'timeout': 900})
        ra = A.recv(900)['results'][0]; rb = B.recv(900)['results'][0]; B.call('fs', mode='off')
        b0 = min(st['ns_call'] for st in rb); b1 = max(st['ns_ret'] for st in rb); during = 0; bad = 0
        for i in range(nsearch):
            init, fo = ra[4 * i], ra[4 * i + 1]; overl = init['ns_ret'] > b0 and init['ns_call'] < b1; during += overl
            if init['rv'] != 0 or fo['rv'] != 0 or fo.get('n') != 5:
                bad += 1
                if bad == 1: ctx.violation(f'C_FindObjects|{backend},another-process-writing-other-objects|found-{fo.get("n") if init["rv"] == 0 else ck.rv(init["rv"])}-instead-of-5', 'a search for five untouched public token objects did not return exactly these five while another process was creating other objects on the token', {'backend': backend, 'search': i, 'init': ck.rv(init['rv']), 'n': fo.get('n'), 'overlapped_the_writer': bool(overl)})
        ok_creates = sum(1 for st in rb if st['rv'] == 0)
        ctx.case(('search-during-writes', backend, during > 0), nontrivial=during > 0 and ok_creates > 0, sample={'search_during_writes': {'backend': backend, 'searches': nsearch, 'searches_overlapping_the_writer': during, 'creates_ok': ok_creates, 'wrong_answers': bad}}, n=nsearch)
        ctx.extra.setdefault('search_during_writes', {})[backend] = {'searches': nsearch, 'searches_overlapping_the_writer': during, 'creates_ok': ok_creates, 'writer_ms': (b1 - b0) // 1000000, 'wrong_answers': bad}
        if not during: ctx.inconc(f'search-during-writes ({backend}): no search overlapped the writer')
        for y in X: y.call('C_Finalize'); y.close()
        X = []
    except AssertionError as e: ctx.inconc(f'search-during-writes could not run ({backend}): {e!r}')
    except Died as e: ctx.observe('side:C17 library terminated the host', {'kind': e.kind(), 'fn': e.fn}); ctx.inconc(f'executor died in search-during-writes ({backend})')
    except Hang: ctx.inconc(f'hang in search-during-writes ({backend})')
    finally:
        for y in X: y.kill()

def run(ctx):
    ctx.rule = ('random populations (8-60 objects of 3 classes on two tokens, token/session x private/public, many shared attribute values) x templates of 0..3 entries '
                '(values of existing objects incl. private ones, absent attributes, wrong-sized and empty values) x five session states x random batch-size sequences (0,1,2,3,5,40); '
                'the multiset of returned handles, mapped back through the unique tag, must equal model.visible(session) ∩ matches(template); '
                'one evaluation = one step/search; distinct = (session state, template size, answer class empty/some/all, batch sizes used)')
    run_walks(ctx, {'C19'}, ctx.q(480, 4000), ctx.q(90, 120), weights=W, backends=ctx.q(('file', 'db'), ('file', 'db')), monitors=(), hook=hook)
    run_walks(ctx, {'C19'}, ctx.q(4, 48), ctx.q(100, 400), weights=W, backends=ctx.q(('file',), ('file', 'db')), monitors=(), hook=bulk_hook)
    ctx.need('asan')
    for be in ('file', 'db'): search_while_another_process_writes(ctx, be)
    ctx.extra['searches'] = ctx.extra.get('walk_finds', 0)
    ctx.assumptions += ['CK_BBOOL template values are 0/1; attributes restricted to boolean / ulong / byte-string kinds as the quantifier says', 'defaults of attributes not given at creation are read back once through C_GetAttributeValue']
if __name__ == '__main__': main('C19', run, min_evaluations=2000, min_distinct=40)
