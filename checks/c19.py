#!/usr/bin/env python3
"""C19 - object search is sound and complete."""
import sys, os; sys.path.insert(0, os.path.join(os.path.dirname(os.path.abspath(__file__)), '..', 'vlib'))
from harness import main
from walkcheck import run_walks
W = {'open': 3, 'close': 1, 'login': 3, 'logout': 2, 'create': 12, 'copy': 3, 'destroy': 2, 'setattr': 3, 'find': 14, 'restart': 1, 'closeall': 1}
def hook(w, job, part):
    if job['backend'] == 'db': w.weights.pop('copy', None)   # C_CopyObject on the db back-end loses attributes (known finding of C05/C20); the population would be wrong, not the search
    # build a population first (logged in so that private objects exist), then the mixed walk
    for ti in range(2):
        w.op_open(ti, True); se = [x for x in w.m.sess.values() if x.alive and x.ti == ti][0]; w.op_login(se, 1, True)
        for _ in range(w.rnd.randrange(4, 30)): w.op_create(se)
    w.run(job['steps'], monitors=(), stop_on={'C19', 'MODEL'})
def bulk_hook(w, job, part):
    """large populations (hundreds of objects) with batch sizes from 1 to beyond the population"""
    if job['backend'] == 'db': w.weights.pop('copy', None)
    for ti in range(2):
        w.op_open(ti, True); se = [x for x in w.m.sess.values() if x.alive and x.ti == ti][0]; w.op_login(se, 1, True)
        for _ in range(job['steps']): w.op_create(se)
    for _ in range(40):
        se = w.pick_sess(); w.op_find(se)
        if w.rnd.random() < 0.3: w.op_logout(se)
        elif w.rnd.random() < 0.3: w.op_login(se, 1, True)
        if w.rnd.random() < 0.3: w.op_destroy(se)
        if any(f.prop in ('C19', 'MODEL') for f in w.findings): return

def run(ctx):
    ctx.rule = ('random populations (8-60 objects of 3 classes on two tokens, token/session x private/public, many shared attribute values) x templates of 0..3 entries '
                '(values of existing objects incl. private ones, absent attributes, wrong-sized and empty values) x five session states x random batch-size sequences (0,1,2,3,5,40); '
                'the multiset of returned handles, mapped back through the unique tag, must equal model.visible(session) ∩ matches(template); '
                'one evaluation = one step/search; distinct = (session state, template size, answer class empty/some/all, batch sizes used)')
    run_walks(ctx, {'C19'}, ctx.q(480, 4000), ctx.q(90, 120), weights=W, backends=ctx.q(('file', 'db'), ('file', 'db')), monitors=(), hook=hook)
    run_walks(ctx, {'C19'}, ctx.q(4, 48), ctx.q(100, 400), weights=W, backends=ctx.q(('file',), ('file', 'db')), monitors=(), hook=bulk_hook)
    ctx.extra['searches'] = ctx.extra.get('walk_finds', 0)
    ctx.assumptions += ['CK_BBOOL template values are 0/1; attributes restricted to boolean / ulong / byte-string kinds as the quantifier says', 'defaults of attributes not given at creation are read back once through C_GetAttributeValue']
if __name__ == '__main__': main('C19', run, min_evaluations=2000, min_distinct=40)
