#!/usr/bin/env python3
"""C11 - handles are never reused and die exactly with what they denote."""
import sys, os; sys.path.insert(0, os.path.join(os.path.dirname(os.path.abspath(__file__)), '..', 'vlib'))
from harness import main
from walkcheck import run_walks
W = {'open': 5, 'close': 3, 'closeall': 1, 'login': 4, 'logout': 3, 'create': 7, 'destroy': 3, 'find': 4, 'copy': 2, 'setattr': 1}
def run(ctx):
    ctx.rule = ('model-guided random histories (2 tokens, <=5 sessions; open/close/close-all/login/logout/create/copy/find/destroy); after EVERY call every '
                'live handle and a sample of dead ones are probed (sessions: C_GetSessionInfo, objects: C_GetAttributeValue(CKA_LABEL)=unique tag); '
                'one evaluation = one probe or step; distinct = (handle kind, object kind, expected liveness) classes and session cases actually probed')
    n = ctx.q(600, 6000); steps = ctx.q(50, 60)
    run_walks(ctx, {'C11'}, n, steps, weights=W, backends=ctx.q(('file',), ('file', 'db')))
    ctx.assumptions += ['probing uses a session of the same token; cross-token use of a handle is outside the property', 'dead handles beyond a random sample of 10 (objects) / 4 (sessions) per step are not re-probed at that step']
if __name__ == '__main__': main('C11', run, min_evaluations=1000, min_distinct=8)
