#!/usr/bin/env python3
"""C11 - handles are never reused and die exactly with what they denote."""
import sys, os; sys.path.insert(0, os.path.join(os.path.dirname(os.path.abspath(__file__)), '..', 'vlib'))
from harness import main
from walkcheck import run_walks
W = {'open': 5, 'close': 3, 'closeall': 1, 'login': 4, 'logout': 3, 'create': 7, 'destroy': 3, 'find': 4, 'copy': 2, 'setattr': 1}
def bulk_hook(w, job, part):
    """many handles: numeric uniqueness and liveness far beyond the handful of sessions/objects a random walk keeps"""
    rnd = w.rnd
    for rounds in range(3):
        for _ in range(job['steps']): w.op_open(rnd.randrange(2), rnd.random() < 0.7)
        w.mon_state(dead_sample=20)
        se = w.pick_sess(ti=0) or w.pick_sess()
        if se is not None:
            t = w.m.toks[se.ti]
            if t.login is None: w.op_login(se, 1, True)
        for _ in range(job['steps'] * 2): w.op_create(w.pick_sess())
        w.mon_handles(dead_sample=40)
        for x in rnd.sample([x for x in w.m.sess.values() if x.alive], k=max(1, len(w.m.live_sessions()) // 2)): w.op_close(x)
        w.mon_state(dead_sample=40); w.mon_handles(dead_sample=80)
        if rounds == 1: w.op_closeall(0)
        if any(f.prop in ('C11', 'MODEL') for f in w.findings): return
    w.op_closeall(0); w.op_closeall(1); w.mon_state(dead_sample=60); w.mon_handles(dead_sample=200)

def copy_hook(w, job, part):
    """directed: copies that CHANGE the placement of the object (public -> private, session <-> token) made while the user is logged in, then a logout / close of the creating session / close-all:
    the handle of the copy dies or lives by what the COPY is, not by what its source was; every handle is probed after every step"""
    rnd = w.rnd
    for ti in range(2):
        w.op_open(ti, True); w.op_open(ti, True); se = [x for x in w.m.sess.values() if x.alive and x.ti == ti]; w.op_login(se[0], 1, True)
        for tok in (True, False):
            for priv in (False, True): w.op_create(se[0], on_token=tok, private=priv); w.mon_handles(dead_sample=10)
        for src_priv, new_tok, new_priv in ((False, None, True), (False, True, True), (False, False, True), (True, True, None), (True, False, None), (False, True, None), (False, False, None)):
            w.op_copy(se[rnd.randrange(2)], force=(lambda o, sp=src_priv: o.private == sp, new_tok, new_priv)); w.mon_handles(dead_sample=10)
        w.op_logout(se[0]); w.mon_handles(dead_sample=40); w.op_login(se[1], 1, True); w.mon_handles(dead_sample=40)
        w.op_close(se[0]); w.mon_handles(dead_sample=40); w.op_closeall(ti); w.mon_handles(dead_sample=80)
        if any(f.prop in ('C11', 'MODEL') for f in w.findings): return
    w.run(job['steps'], monitors=('handles',), stop_on={'C11', 'MODEL'})

def run(ctx):
    ctx.rule = ('model-guided random histories (2 tokens, <=5 sessions; open/close/close-all/login/logout/create/copy/find/destroy); after EVERY call every '
                'live handle and a sample of dead ones are probed (sessions: C_GetSessionInfo, objects: C_GetAttributeValue(CKA_LABEL)=unique tag); '
                'one evaluation = one probe or step; distinct = (event kind of the preceding call, handle kind, object kind, expected liveness) classes actually probed')
    n = ctx.q(600, 6000); steps = ctx.q(50, 60)
    run_walks(ctx, {'C11'}, n, steps, weights=W, backends=ctx.q(('file',), ('file', 'db')))
    run_walks(ctx, {'C11'}, ctx.q(8, 32), ctx.q(120, 300), weights=W, backends=('file',), hook=bulk_hook, max_sessions=100000)
    run_walks(ctx, {'C11'}, ctx.q(32, 200), ctx.q(30, 50), weights=W, backends=('file',), hook=copy_hook)      # (file back-end only: C_CopyObject of token objects on the db back-end copies nothing but the class -- known finding of C05 / C08 / C20 -- so the copy is not the object the model expects)
    ctx.extra['bulk_scenarios'] = 'additionally 8 (quick) / 32 (thorough) bulk histories with 360-900 sessions and 720-1800 objects each: numeric uniqueness of every handle, liveness after partial close / close-all'
    ctx.assumptions += ['probing uses a session of the same token; cross-token use of a handle is outside the property', 'dead handles beyond a random sample of 10 (objects) / 4 (sessions) per step are not re-probed at that step']
if __name__ == '__main__': main('C11', run, min_evaluations=1000, min_distinct=40)
