#!/usr/bin/env python3
"""C04 - only the current PIN authenticates; PIN changes are exact and lossless."""
import os, sys, os; sys.path.insert(0, os.path.join(os.path.dirname(os.path.abspath(__file__)), '..', 'vlib'))
from harness import main
from walkcheck import run_walks
from model import MIN_PIN, MAX_PIN

OPS = {'open': 5, 'close': 2, 'closeall': 1, 'login': 10, 'logout': 5, 'initpin': 3, 'setpin': 6, 'inittoken': 1, 'restart': 2, 'restart_proc': 1, 'check': 4}

def gen_pin(rnd, cur):
    k = rnd.randrange(14)
    if k == 0: return b''
    if k == 1: return rnd.randbytes(MIN_PIN - 1)
    if k == 2: return rnd.randbytes(MIN_PIN)
    if k == 3: return rnd.randbytes(MAX_PIN)
    if k == 4: return rnd.randbytes(MAX_PIN + 1)
    if k == 5: return b'pin\x00with\x00nul'
    if k == 6: return bytes([0x80 + rnd.randrange(128) for _ in range(rnd.randrange(4, 20))])
    if k == 7 and cur: return cur + b'x'
    if k == 8 and cur and len(cur) > MIN_PIN: return cur[:-1]
    if k == 9 and cur: return cur          # "change" to the same PIN
    if k == 10: return rnd.randbytes(rnd.randrange(0, 257))
    return b'pin-%06d' % rnd.randrange(10 ** 6)

def hook(w, job, part):
    rnd = w.rnd; prev = {ti: [] for ti in range(len(w.m.toks))}; recorded = {}   # uid -> (ti, value)
    ti0 = w.c('C_GetTokenInfo', slot=w.m.toks[0].slot)
    if (ti0.get('minpin'), ti0.get('maxpin')) != (MIN_PIN, MAX_PIN): part.inconc(f'advertised PIN range {ti0.get("minpin")}..{ti0.get("maxpin")} differs from the model'); return
    base_wrong = w.wrong_pin
    def wrong(real, other):
        # near misses, the other user's PIN, every previous PIN of this token, hostile lengths
        cands = [p for ti in prev for p in prev[ti] if p != real]
        k = rnd.randrange(10)
        if k < 2 and cands: return rnd.choice(cands)
        if k == 2: return (real or b'') + b'\x00'
        if k == 3 and real and len(real) > 1: return real[1:]
        if k == 4: return rnd.randbytes(rnd.choice([0, 1, 3, 255, 256, 300]))
        if k == 5 and real: return real[:-1] + bytes([real[-1] ^ 0x01])
        if k == 6 and real: return real + real
        return base_wrong(real, other)
    w.wrong_pin = wrong
    def note_pins():
        for t in w.m.toks:
            for p in (t.so, t.usr):
                if p is not None and p not in prev[t.idx]: prev[t.idx].append(p)
    def ensure_objects(ti):
        """as the user, make sure token ti holds two private token objects with recorded values"""
        t = w.m.toks[ti]
        if t.usr is None or t.login == 'S': return
        mine = [u for u, (tj, v) in recorded.items() if tj == ti and w.m.objs[u].alive]
        if len(mine) >= 2: return
        se = w.pick_sess(ti=ti)
        if se is None or not se.rw or t.login != 'U': return
        w.op_create(se, cls=rnd.choice(['CKO_DATA', 'CKO_SECRET_KEY']), on_token=True, private=True)
        o = list(w.m.objs.values())[-1]
        if o.alive and o.private and o.on_token: recorded[o.uid] = (ti, o.attrs['CKA_VALUE'])
    def check_private(ti):
        """the current user PIN logs in (through whatever sessions exist) and every recorded private object reads back"""
        t = w.m.toks[ti]
        if t.usr is None or t.login == 'S': return
        if not w.m.live_sessions(ti): w.op_open(ti, True)
        se = w.pick_sess(ti=ti)
        if se is None: return
        if t.login is None:
            w.op_login(se, 1, True)
            if t.login != 'U': return
        for u, (tj, val) in list(recorded.items()):
            o = w.m.objs[u]
            if tj != ti or not o.alive: continue
            rvn, hs = w.x.findall(se.h, {'CKA_LABEL': o.attrs['CKA_LABEL']})
            if len(hs) != 1: w.F('C04', 'private-object|not-found-after-pin-history', 'a private token object is no longer found after PIN changes / restarts', uid=u, n=len(hs)); continue
            rvn, vals = w.x.getattrs(se.h, hs[0], ['CKA_VALUE'])
            if vals.get('CKA_VALUE') != val: w.F('C04', 'private-object|unreadable-after-pin-history', 'a private token object no longer reads back its recorded value', uid=u, rv=rvn)
            for h in hs:
                if h not in o.handles: w.m.new_handle(h, 'object:' + u.decode()); o.handles[h] = True
            w.cov('C04', ('private-readback', len(prev[ti]) > 2))
        ensure_objects(ti)
    # independent at-rest observer (file back-end): both PIN blobs of token.object must unwrap, with the model's CURRENT PINs and
    # the pinned format, to the same master key; a previous PIN must not unwrap them; the master key survives PIN changes
    masters = {}
    def at_rest():
        if job['backend'] != 'file': return
        try: import objfile, tokenkey
        except Exception: return
        try: store = objfile.read_store(os.path.join(w.d, 'tokens'))
        except Exception as e: w.F('C04', 'at-rest|token-directory-undecodable', 'the token directory cannot be decoded', err=repr(e)); return
        by_serial = {td.info.serial: td for td in store if td.info is not None and td.info.serial}
        for t in w.m.toks:
            td = by_serial.get(t.serial)
            if td is None: continue
            k_so = tokenkey.unwrap_master_key(td.info.so_blob, t.so)
            if k_so is None: w.F('C04', 'at-rest|so-blob-does-not-unwrap-with-current-pin', 'the stored SO PIN blob does not yield a master key under the SO PIN of the history', ti=t.idx); continue
            if t.usr is not None:
                k_u = tokenkey.unwrap_master_key(td.info.user_blob, t.usr)
                if k_u is None: w.F('C04', 'at-rest|user-blob-does-not-unwrap-with-current-pin', 'the stored user PIN blob does not yield a master key under the user PIN of the history', ti=t.idx)
                elif k_u != k_so: w.F('C04', 'at-rest|blobs-hold-different-master-keys', 'SO and user PIN blobs unwrap to different master keys (private objects become unreadable for one of them)', ti=t.idx)
            for old in prev[t.idx]:
                if old != t.so and td.info.so_blob and tokenkey.unwrap_master_key(td.info.so_blob, old) is not None: w.F('C04', 'at-rest|previous-pin-unwraps-so-blob', 'a PIN that is no longer current still unwraps the SO blob', ti=t.idx)
                if old != t.usr and td.info.user_blob and tokenkey.unwrap_master_key(td.info.user_blob, old) is not None: w.F('C04', 'at-rest|previous-pin-unwraps-user-blob', 'a PIN that is no longer current still unwraps the user blob', ti=t.idx)
            key = (t.idx, inits.get(t.idx, 0))
            if key in masters and masters[key] != k_so: w.F('C04', 'at-rest|master-key-changed-by-pin-change', 'the master key changed although the token was not re-initialised', ti=t.idx)
            masters.setdefault(key, k_so); w.cov('C04', ('at-rest', t.usr is not None, len(prev[t.idx]) > 2))
    inits = {}
    names = [n for n, k in OPS.items() for _ in range(k)]
    note_pins()
    for ti in range(len(w.m.toks)): check_private(ti)
    for i in range(job['steps']):
        op = rnd.choice(names); w.stats['steps'] += 1
        if op == 'open' and len(w.m.live_sessions()) >= 5: op = 'close'
        if op == 'setpin':
            se = w.pick_sess()
            if se:
                t = w.m.toks[se.ti]; cur = t.so if t.login == 'S' else t.usr; w.op_setpin(se, new=gen_pin(rnd, cur))
        elif op == 'initpin':
            se = w.pick_sess()
            if se: w.op_initpin(se, pin=gen_pin(rnd, w.m.toks[se.ti].usr))
        elif op == 'restart': w.op_restart(False)
        elif op == 'restart_proc': w.op_restart(True)
        elif op == 'check': check_private(rnd.randrange(len(w.m.toks)))
        elif op == 'inittoken':
            labels0 = [tt.label for tt in w.m.toks]; w.op_inittoken()
            for tt, l0 in zip(w.m.toks, labels0):
                if tt.label != l0: inits[tt.idx] = inits.get(tt.idx, 0) + 1
            for u, (tj, v) in list(recorded.items()):
                if not w.m.objs[u].alive: del recorded[u]
        else: getattr(w, 'op_' + op)()
        note_pins(); w.mon_state(dead_sample=1)
        if op in ('setpin', 'initpin', 'inittoken', 'restart', 'restart_proc'): at_rest()
        if op in ('setpin', 'initpin', 'restart', 'restart_proc') and rnd.random() < 0.5: check_private(rnd.randrange(len(w.m.toks)))
        if any(f.prop in ('C04', 'MODEL') for f in w.findings): break

def two_process_scenarios(ctx, backend):
    """A PIN change committed by one process must survive whatever another process, attached to the same token directory since before the change,
    does afterwards (logins rewrite the token flags): in a NEW process the most recently set PIN logs in and the replaced one does not."""
    SO, U, SO2, U2 = b'so-pin-2p', b'user-pin-2p', b'so-pin-2p-new', b'user-pin-2p-new'
    def attach(x):
        assert x.call('C_Initialize', locking='os')['rv'] == 0
        slot = [sl for sl in x.call('C_GetSlotList', count=8)['slots'] if x.call('C_GetTokenInfo', slot=sl)['flags'] & x.ck.CKF_TOKEN_INITIALIZED][0]
        return slot, x.call('C_OpenSession', slot=slot)['h']
    for change in ('user-setpin', 'so-setpin', 'so-initpin'):
        for a_action in ('so-login', 'so-login-wrong', 'user-login-old', 'user-login-wrong', 'so-login-twice'):
            d = ctx.dir('twoproc'); x0 = ctx.new_exec('asan', d, backend); A = B = C = None
            try:
                assert x0.call('C_Initialize', locking='os')['rv'] == 0; slot = x0.call('C_GetSlotList', count=8)['slots'][-1]
                assert x0.call('C_InitToken', slot=slot, pin=SO.hex(), label=b'two'.hex())['rv'] == 0; s = x0.call('C_OpenSession', slot=slot)['h']
                assert x0.call('C_Login', s=s, user=0, pin=SO.hex())['rv'] == 0 and x0.call('C_InitPIN', s=s, pin=U.hex())['rv'] == 0
                x0.call('C_Finalize'); x0.close(); x0 = None
                A = ctx.new_exec('asan', d, backend, reuse_dir=True); slotA, sA = attach(A)          # A is attached before the change
                B = ctx.new_exec('asan', d, backend, reuse_dir=True); slotB, sB = attach(B)
                so_now, u_now, so_old, u_old = SO, U, None, None
                if change == 'user-setpin': assert B.call('C_SetPIN', s=sB, old=U.hex(), new=U2.hex())['rv'] == 0; u_now, u_old = U2, U
                elif change == 'so-setpin':
                    assert B.call('C_Login', s=sB, user=0, pin=SO.hex())['rv'] == 0 and B.call('C_SetPIN', s=sB, old=SO.hex(), new=SO2.hex())['rv'] == 0; so_now, so_old = SO2, SO
                else:
                    assert B.call('C_Login', s=sB, user=0, pin=SO.hex())['rv'] == 0 and B.call('C_InitPIN', s=sB, pin=U2.hex())['rv'] == 0; u_now, u_old = U2, U
                B.call('C_Finalize'); B.close(); B = None
                # A acts with PINs that were (or are) valid; its own answers are not judged (its in-memory view may be stale), only what it leaves on disk
                acts = {'so-login': [(0, SO)], 'so-login-wrong': [(0, b'definitely-wrong')], 'user-login-old': [(1, U)], 'user-login-wrong': [(1, b'definitely-wrong')], 'so-login-twice': [(0, SO), (0, SO2)]}[a_action]
                for ut, pin in acts:
                    r = A.call('C_Login', s=sA, user=ut, pin=pin.hex())
                    if r['rv'] == 0: A.call('C_Logout', s=sA)
                A.call('C_Finalize'); A.close(); A = None
                C = ctx.new_exec('asan', d, backend, reuse_dir=True); slotC, sC = attach(C)
                def logs_in(ut, pin):
                    r = C.call('C_Login', s=sC, user=ut, pin=pin.hex())
                    if r['rv'] == 0: C.call('C_Logout', s=sC)
                    return r['rv'] == 0
                for ut, now, old, nm in ((0, so_now, so_old, 'so'), (1, u_now, u_old, 'user')):
                    if not logs_in(ut, now): ctx.violation(f'two-processes|{change},then-other-process:{a_action}|{nm}-pin-most-recently-set-refused-in-new-process', 'after another attached process acted, the PIN most recently set (CKR_OK) no longer logs in in a new process', {'backend': backend, 'change': change, 'other_process': a_action})
                    if old is not None and logs_in(ut, old): ctx.violation(f'two-processes|{change},then-other-process:{a_action}|replaced-{nm}-pin-accepted-in-new-process', 'after another attached process acted, a replaced PIN logs in again in a new process', {'backend': backend, 'change': change, 'other_process': a_action})
                ctx.case(('two-process', change, a_action, backend), sample={'two_process': [change, a_action, backend]} if a_action == 'so-login' else None)
                C.call('C_Finalize'); C.close(); C = None
            except AssertionError as e: ctx.inconc(f'two-process scenario setup failed ({change}, {a_action}, {backend}): {e!r}')
            finally:
                for x in (x0, A, B, C):
                    if x is not None: x.kill()

def fault_job(job):
    """OBSERVATION lane (no verdict): a PIN change whose k-th file-system operation fails (every k, both back-ends).  After a FAILED C_SetPIN / C_InitPIN it is recorded
    whether the PIN that was in force still logs in and the rejected one does not (in this process and after C_Finalize / C_Initialize), and whether the other user's
    PIN and a private object stay usable.  C04 speaks of attempts rejected for their arguments or session state; failures of the store are quantified in C05 / C09 only."""
    from ck import CK
    from p11client import Exec, mkconf, Died, Hang
    from harness import SAN_ENV, Part
    import shutil, os
    ck = CK(job['hdr']); part = Part(); be = job['backend']; call = job['call']; SO, U, NEW = b'so-pin-f4', b'user-pin-f4', b'changed-pin-f4'
    base = os.path.join(job['scratch'], f'c04f-{be}-{call}-{job["errno"]}'); gold = base + '-gold'; d = base + '-run'
    for q in (gold, d): shutil.rmtree(q, ignore_errors=True)
    def start(dirp): return Exec(job['paths']['asan']['exe'], job['paths']['asan']['lib'], mkconf(dirp, be), ck, env=dict(SAN_ENV), stderr=dirp + '/stderr.log')
    def attach(x):
        assert x.call('C_Initialize', locking='os')['rv'] == 0
        slot = [sl for sl in x.call('C_GetSlotList', count=8)['slots'] if x.call('C_GetTokenInfo', slot=sl)['flags'] & ck.CKF_TOKEN_INITIALIZED][0]
        return slot, x.call('C_OpenSession', slot=slot, flags=6)['h']
    def victim(x, s):
        if call == 'user-setpin-public': return x.call('C_SetPIN', s=s, old=U.hex(), new=NEW.hex()), 1
        if call == 'user-setpin-loggedin': assert x.call('C_Login', s=s, user=1, pin=U.hex())['rv'] == 0; return x.call('C_SetPIN', s=s, old=U.hex(), new=NEW.hex()), 1
        assert x.call('C_Login', s=s, user=0, pin=SO.hex())['rv'] == 0
        if call == 'so-setpin': return x.call('C_SetPIN', s=s, old=SO.hex(), new=NEW.hex()), 0
        return x.call('C_InitPIN', s=s, pin=NEW.hex()), 1
    def logs_in(x, s, ut, pin):
        x.call('C_Logout', s=s); r = x.call('C_Login', s=s, user=ut, pin=pin.hex())
        if r['rv'] == 0: x.call('C_Logout', s=s)
        return r['rv'] == 0
    def OBS(key, what, w):      # file-system faults are outside the quantifier of C04 (they belong to C05 / C09, and PINs are not objects): what a failed PIN change leaves behind is reported, never judged
        part.observe('a PIN change that FAILED under a file-system fault changed something (outside the quantifier of C04; not judged)', key, cap=40); part.count('pin_fault_outcomes_observed')
    x = None
    try:
        x = start(gold); assert x.call('C_Initialize', locking='os')['rv'] == 0; slot = x.call('C_GetSlotList', count=8)['slots'][-1]
        assert x.call('C_InitToken', slot=slot, pin=SO.hex(), label=b'c04f'.hex())['rv'] == 0; s = x.call('C_OpenSession', slot=slot, flags=6)['h']
        assert x.call('C_Login', s=s, user=0, pin=SO.hex())['rv'] == 0 and x.call('C_InitPIN', s=s, pin=U.hex())['rv'] == 0 and x.call('C_Logout', s=s)['rv'] == 0
        assert x.call('C_Login', s=s, user=1, pin=U.hex())['rv'] == 0
        assert x.call('C_CreateObject', s=s, tmpl=x.T({'CKA_CLASS': ck.CKO_DATA, 'CKA_TOKEN': True, 'CKA_PRIVATE': True, 'CKA_LABEL': b'priv', 'CKA_VALUE': b'recorded-private-value'}))['rv'] == 0
        x.call('C_Finalize'); x.close(); x = None; root = d + '/tokens'
        def fresh(): shutil.rmtree(d, ignore_errors=True); shutil.copytree(gold, d); return start(d)
        x = fresh(); slot, s = attach(x); x.call('fs', mode='count', root=root); (r0, ut) = victim(x, s); N = x.call('fs', mode='status')['nops']; x.call('fs', mode='off'); x.close(); x = None
        part.observe('fs operations of one PIN change (fault-free run)', {'call': call, 'backend': be, 'n': N, 'rv': r0['rvname']})
        if r0['rv'] != 0: part.inconc(f'fault lane: {call} fails without a fault on {be}: {r0["rvname"]}'); return part
        for k in range(1 + job['chunk'], min(N, job['maxops']) + 1, job['nchunks']):
            x = fresh(); slot, s = attach(x); x.call('fs', mode='fail', root=root, k=k, errno=job['errno'])
            try: r, ut = victim(x, s)
            except Died as e: part.observe('side:C17 library terminated the host under an FS fault', {'kind': e.kind(), 'fn': e.fn, 'call': call}); part.inconc(f'executor died under fault {call} k={k}'); x = None; continue
            inj = x.call('fs', mode='status').get('injected'); x.call('fs', mode='off')
            part.case(('pin-change-fault', be, call, k), nontrivial=bool(inj), sample={'pin_change_under_fault': [call, be, k, r['rvname']]} if k == 1 else None); part.count('pin_faults_injected', 1 if inj else 0)
            if r['rv'] == 0: part.count('pin_changes_ok_under_fault_not_judged'); x.close(); x = None; continue
            part.count('pin_changes_failed_under_fault')
            old = SO if ut == 0 else U; other = U if ut == 0 else SO; who = 'so' if ut == 0 else 'user'
            for phase in ('same-process', 'after-reinitialisation'):
                if phase == 'after-reinitialisation':
                    x.call('C_Finalize'); assert x.call('C_Initialize', locking='os')['rv'] == 0
                    sl = [q for q in x.call('C_GetSlotList', count=8)['slots'] if x.call('C_GetTokenInfo', slot=q)['flags'] & ck.CKF_TOKEN_INITIALIZED]
                    if not sl: OBS(f'{call}|{be},fs-fault|token-unusable-after-failed-pin-change', 'after a PIN change that failed under a file-system fault the token is gone', {'k': k, 'rv': r['rvname'], 'phase': phase}); break
                    s = x.call('C_OpenSession', slot=sl[0], flags=6)['h']
                w = dict(call=call, backend=be, k=k, errno=job['errno'], rv=r['rvname'], phase=phase)
                if logs_in(x, s, ut, NEW): OBS(f'{call}|{be},fs-fault|rejected-{who}-pin-logs-in({phase})', 'a PIN change FAILED (file-system fault) but the rejected new PIN logs in', w)
                if not logs_in(x, s, ut, old): OBS(f'{call}|{be},fs-fault|{who}-pin-in-force-refused({phase})', 'a PIN change FAILED (file-system fault) and the PIN that was in force no longer logs in', w)
                if not logs_in(x, s, 1 - ut, other): OBS(f'{call}|{be},fs-fault|other-users-pin-refused({phase})', 'a PIN change FAILED (file-system fault) and the OTHER user\'s PIN no longer logs in', w)
                if x.call('C_Login', s=s, user=1, pin=U.hex())['rv'] == 0:
                    rvn, hs = x.findall(s, {'CKA_LABEL': b'priv'}); v = x.getattrs(s, hs[0], ['CKA_VALUE'])[1].get('CKA_VALUE') if hs else None; x.call('C_Logout', s=s)
                    if v != b'recorded-private-value': OBS(f'{call}|{be},fs-fault|private-object-unreadable({phase})', 'a PIN change FAILED (file-system fault) and an existing private object no longer reads back its value', dict(w, got=str(v)))
            x.close(); x = None
    except AssertionError as e: part.inconc(f'PIN fault lane setup failed ({call},{be}): {e!r}')
    except Died as e: part.observe('side:C17 library terminated the host', {'kind': e.kind(), 'fn': e.fn}); part.inconc(f'executor died in PIN fault lane ({call},{be})')
    except Hang: part.inconc(f'hang in PIN fault lane ({call},{be})')
    finally:
        if x is not None: x.kill()
        for q in (gold, d): shutil.rmtree(q, ignore_errors=True)
    return part

def run(ctx):
    ctx.rule = ('histories of C_InitToken / C_InitPIN / C_SetPIN (from RW public, RW user, SO, RO sessions) / C_Login attempts / restarts (C_Finalize+C_Initialize and new processes) on two tokens; '
                'PINs from lengths 0..256 incl. MIN-1, MIN, MAX, MAX+1, embedded NUL, bytes >= 0x80, prefixes / extensions / one-bit neighbours of the real PIN, the other user\'s PIN, every previous PIN; '
                'the model predicts exactly which byte string logs in; private token objects with recorded values are re-read after PIN events and restarts; '
                'one evaluation = one step or probe; distinct = (event kind, user type / session state, PIN relation class) actually exercised')
    ctx.need('asan')
    for b in ('file', 'db'): two_process_scenarios(ctx, b)
    from harness import pmap
    nch = 4; fjobs = [dict(paths=ctx.paths, hdr=ctx.paths['asan']['hdr'], scratch=ctx.scratch + f'/f{c}', call=call, backend=b, maxops=ctx.q(60, 400), errno=e, chunk=c, nchunks=nch)
                      for b in ('file', 'db') for call in ('user-setpin-public', 'user-setpin-loggedin', 'so-setpin', 'so-initpin') for e in ctx.q((28,), (28, 5, 13)) for c in range(nch)]
    for j in fjobs: os.makedirs(j['scratch'], exist_ok=True)
    for part in pmap(fault_job, fjobs, ctx.nproc): ctx.merge(part)
    run_walks(ctx, {'C04'}, ctx.q(480, 4000), ctx.q(70, 80), backends=ctx.q(('file', 'db'), ('file', 'db')), hook=hook)
    ctx.assumptions += ['a wrong PIN is accepted by chance with probability ~2^-32 per attempt (padding + magic); not retried because no such hit has ever been observed']
if __name__ == '__main__': main('C04', run, min_evaluations=2000, min_distinct=30)
