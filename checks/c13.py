#!/usr/bin/env python3
"""C13 - wrap, unwrap and derive produce exactly the specified keys.

Oracle: vlib/refcrypt.py for every blob and every derived value (RFC 3394/5649, PKCS#1 v1.5 / OAEP, PKCS#7-CBC under the
caller's IV, PKCS#8; ECDH/DH/X25519/X448 secrets, ENCRYPT_DATA, CONCATENATE, truncation, DES parity, KCV), attribute
read-back for the unwrapped key, C_FindObjects before/after for malformed blobs."""
import sys, os; sys.path.insert(0, os.path.join(os.path.dirname(os.path.abspath(__file__)), '..', 'vlib'))
import random, shutil
from harness import main, Part, pmap
from p11client import Died, Hang
import refcrypt as R, keys_fixed as KF

def rb(rnd, n): return bytes(rnd.getrandbits(8) for _ in range(n))
def flip(rnd, b):
    i = rnd.randrange(len(b) * 8); a = bytearray(b); a[i // 8] ^= 0x80 >> (i % 8); return bytes(a)
def ul(v): return int.from_bytes(v, 'little') if v is not None else None
UNSUPPORTED = {('botan', 'Ed448'): 'Botan 2.19 back-end: only Ed25519/X25519 are implemented', ('botan', 'X448'): 'Botan 2.19 back-end: only Ed25519/X25519 are implemented'}
KTYPE = {'aes': 'CKK_AES', 'des2': 'CKK_DES2', 'des3': 'CKK_DES3', 'generic': 'CKK_GENERIC_SECRET'}
FIXLEN = {'des2': 16, 'des3': 24}
def std_kcv(kind, value): return R.kcv('generic' if kind == 'generic' else 'aes' if kind == 'aes' else 'des3', value)

_KF = []
def KNOWN():
    if not _KF:
        from harness import KnownFindings; _KF.append(KnownFindings())
    return _KF[0]
class Env:
    """one worker's token + reporting helpers"""
    def __init__(s, tok, part, cfg): s.t = tok; s.x = tok.x; s.ck = tok.ck; s.part = part; s.cfg = cfg; s.pfx = '' if cfg == 'asan' else cfg + ':'
    def V(s, sp, entry, cls, outcome, what, **wit):
        if sp.get('imp') == 'lead0': cls += ':key-imported-with-leading-zero-octets'
        w = {'spec': dict(sp), 'cfg': s.cfg}; w.update({k: (v.hex() if isinstance(v, (bytes, bytearray)) else v) for k, v in wit.items()})
        # a symptom seen under another configuration whose un-prefixed key is a listed finding is that same finding (SoftHSM.cpp-level defects do not depend on the back-end)
        pfx = '' if KNOWN().match('C13', 'C13|%s|%s|%s' % (entry, cls, outcome)) else s.pfx
        s.part.violation('%s|%s%s|%s' % (entry, pfx, cls, outcome), what, w)
    def wrap(s, mech, hw, hk):
        r = s.x.call('C_WrapKey', s=s.t.ks, mech=mech, wkey=hw, key=hk, buf=8192)
        return (r['rvname'], bytes.fromhex(r['out']['data']) if r['rv'] == 0 else None)
    def unwrap(s, mech, hu, blob, tm):
        r = s.x.call('C_UnwrapKey', s=s.t.ks, mech=mech, ukey=hu, wrapped=blob.hex(), tmpl=s.x.T(tm)); return (r['rvname'], r['h'] if r['rv'] == 0 else None)
    def derive(s, mech, hb, tm):
        r = s.x.call('C_DeriveKey', s=s.t.ks, mech=mech, key=hb, tmpl=s.x.T(tm)); return (r['rvname'], r['h'] if r['rv'] == 0 else None)
    def attrs(s, h, names):
        out = {}
        for n in names:                                   # one by one: a missing attribute must not hide the others
            rv, a = s.x.getattrs(s.t.ks, h, [n], cap=8192); out[n] = a.get(n) if rv == 'CKR_OK' else None
        return out
    def kcv_check(s, sp, entry, cls, h, kind, value, source=None):
        """non-empty CKA_CHECK_VALUE must be the standard one (AES/DES: 3 bytes of ECB(zero block); generic: 3 bytes of SHA-1)"""
        cv = s.attrs(h, ['CKA_CHECK_VALUE'])['CKA_CHECK_VALUE']
        if cv is None or len(cv) == 0: s.part.count('kcv_empty_or_absent'); return
        want = std_kcv(kind, value); s.part.count('kcv_checked')
        if cv != want:
            alt = 'sha1-of-value' if cv == R.kcv('generic', value) else 'sha1-of-untruncated-secret' if source is not None and cv == R.kcv('generic', source) else 'other'
            s.V(sp, entry, cls + '->' + ('generic' if kind == 'generic' else 'block-cipher-key'), 'check-value-not-standard(' + alt + ')',
                'CKA_CHECK_VALUE is not the standard key check value of this key type and value', got=cv, want=want, value=value, key_type=kind)

# ------------------------------------------------------------------------------------------------ mechanisms on both sides
def mech_and_ref(e, sp, rnd, wk):
    """-> (token mechanism, ref_wrap(pt)->blob or None if undefined, ref_unwrap(blob)->pt or None, deterministic, zero-pad rule)"""
    x = e.x; ck = e.ck; m = sp['mech']
    if m == 'CKM_AES_KEY_WRAP':
        c = R.AES(wk); return x.M(m), (lambda pt: R.kw_wrap(c, pt + b'\0' * (-len(pt) % 8)) if len(pt) + (-len(pt) % 8) >= 16 else None), (lambda b: R.kw_unwrap(c, b)), True
    if m == 'CKM_AES_KEY_WRAP_PAD':
        c = R.AES(wk); return x.M(m), (lambda pt: R.kwp_wrap(c, pt)), (lambda b: R.kwp_unwrap(c, b)), True
    if m in ('CKM_AES_CBC_PAD', 'CKM_DES3_CBC_PAD'):
        c = R.cipher('aes' if 'AES' in m else 'des3', wk); iv = rb(rnd, c.bs); sp['_iv'] = iv.hex()
        return x.M(m, hex=iv.hex()), (lambda pt: R.cbc_pad_encrypt(c, iv, pt)), (lambda b: R.cbc_pad_decrypt(c, iv, b)), True
    if m in ('CKM_AES_CBC', 'CKM_DES3_CBC'):
        c = R.cipher('aes' if 'AES' in m else 'des3', wk); iv = rb(rnd, c.bs); sp['_iv'] = iv.hex()
        return x.M(m, hex=iv.hex()), (lambda pt: R.cbc(c, iv, pt) if pt and len(pt) % c.bs == 0 else None), (lambda b: R.cbc(c, iv, b, False) if b and len(b) % c.bs == 0 else None), True
    def lz(f):                                             # boundary: a reference blob whose big-endian value starts with a zero byte (the length stays k)
        if not sp.get('lz'): return f
        def g(pt):
            for _ in range(6000):
                b = f(pt)
                if b is None or b[0] == 0: return b
        return g
    if m == 'CKM_RSA_PKCS': return x.M(m), lz(lambda pt: wk.encrypt_pkcs1(pt, rnd) if len(pt) <= wk.k - 11 else None), wk.decrypt_pkcs1, False
    if m == 'CKM_RSA_PKCS_OAEP':
        return (x.M(m, oaep={'hash': ck.CKM_SHA_1, 'mgf': ck.CKG_MGF1_SHA1, 'source': ck.CKZ_DATA_SPECIFIED}), lz(lambda pt: wk.encrypt_oaep(pt, 'sha1', rnd=rnd) if len(pt) <= wk.k - 42 else None),
                (lambda b: wk.decrypt_oaep(b, 'sha1')), False)
    raise KeyError(m)

def wrapping_keys(e, sp, rnd):
    """-> (key material for refcrypt, wrapping handle, unwrapping handle)"""
    m = sp['mech']
    if m.startswith('CKM_RSA'):
        k = KF.load()['rsa'][sp['wbits']]; l0 = sp.get('imp') == 'lead0'; return k, e.t.rsa_pub(k, lead0=l0), e.t.rsa_priv(k, lead0=l0)        # lead0: components imported with a leading 00 octet
    if 'DES3' in m:
        wk = R.des_odd_parity(rb(rnd, sp['wlen'])); h = e.t.secret('des3' if sp['wlen'] == 24 else 'des2', wk); return wk, h, h
    wk = rb(rnd, sp['wlen']); h = e.t.secret('aes', wk); return wk, h, h

def unwrap_template(e, sp, rnd, cls, ktype, private_key=False):
    ck = e.ck; t = {'CKA_CLASS': cls, 'CKA_KEY_TYPE': ktype, 'CKA_TOKEN': sp.get('token', False), 'CKA_PRIVATE': rnd.random() < 0.7, 'CKA_SENSITIVE': False, 'CKA_EXTRACTABLE': True,
                    'CKA_LABEL': b'c13-' + rb(rnd, rnd.randint(0, 12)).hex().encode(), 'CKA_ID': rb(rnd, rnd.randint(1, 9))}
    flags = ('CKA_SIGN', 'CKA_DECRYPT', 'CKA_UNWRAP', 'CKA_DERIVE') if private_key else ('CKA_ENCRYPT', 'CKA_DECRYPT', 'CKA_SIGN', 'CKA_VERIFY', 'CKA_WRAP', 'CKA_UNWRAP', 'CKA_DERIVE')
    for f in flags: t[f] = rnd.random() < 0.5
    return t

def check_unwrapped(e, sp, entry, cls, h, tm):
    """history flags and the supplied template on the new key"""
    names = ['CKA_LOCAL', 'CKA_NEVER_EXTRACTABLE', 'CKA_ALWAYS_SENSITIVE'] + [n for n in tm]
    a = e.attrs(h, names); ok = True
    for n in ('CKA_LOCAL', 'CKA_NEVER_EXTRACTABLE', 'CKA_ALWAYS_SENSITIVE'):
        if a[n] != b'\0': e.V(sp, entry, cls, 'history-flag:%s=%s' % (n, a[n].hex() if a[n] is not None else 'unreadable'), 'the unwrapped key is not marked %s = CK_FALSE' % n); ok = False
    for n, v in tm.items():
        want = bytes([v]) if isinstance(v, bool) else v.to_bytes(8, 'little') if isinstance(v, int) else v
        if a[n] != want: e.V(sp, entry, cls, 'template-not-carried:' + n, 'the unwrapped key does not carry the supplied template attribute %s' % n, got=a[n], want=want); ok = False
    return ok

def residue(e, sp, entry, cls, before, outcome_rv, what):
    after = e.t.handles()
    if after != before:
        e.V(sp, entry, cls, 'object-left-behind', 'a rejected %s (%s) left an object behind (C_FindObjects before/after differ)' % (what, outcome_rv), new=sorted(after - before), gone=sorted(before - after))
        for h in after - before: e.t.destroy(h)
        return False
    return True

# ------------------------------------------------------------------------------------------------ families
def fam_wrap_secret(e, sp, rnd):
    """secret key of type/length under every wrap mechanism: both directions of interoperability, round trip, attributes, KCV, malformed blobs"""
    ck = e.ck; m = sp['mech']; kind = sp['kind']; n = sp['klen']; part = e.part; positive = False
    v = rb(rnd, n)
    if kind in ('des2', 'des3'): v = R.des_odd_parity(v)
    wk, hw, hu = wrapping_keys(e, sp, rnd); mech, rwrap, runwrap, det = mech_and_ref(e, sp, rnd, wk); hk = e.t.secret(kind, v); made = [hk] + ([hw] if not m.startswith('CKM_RSA') else [])
    padded = v + b'\0' * (-n % 8) if m == 'CKM_AES_KEY_WRAP' else v                       # what the format can carry
    try:
        ref_blob = rwrap(v); wrap_rv = 'CKR_OK'
        rv, blob = e.wrap(mech, hw, hk)
        if rv != 'CKR_OK':
            if ref_blob is None: part.observe('wrap refused where the mechanism is undefined for this key length', {'mech': m, 'len': n, 'rv': rv})
            elif rv == 'CKR_MECHANISM_INVALID': part.observe('wrap mechanism not offered by C_WrapKey (only the unwrap direction can be checked)', {'mech': m, 'cfg': e.cfg})
            else: part.observe('wrap refused for a key the mechanism can carry (no blob to judge)', {'mech': m, 'len': n, 'rv': rv, 'wrapping_key': sp.get('wlen') or sp.get('wbits')})
            blob = None; wrap_rv = rv
        else:
            if ref_blob is None: e.V(sp, 'C_WrapKey', m, 'blob-for-undefined-input', 'C_WrapKey returned a blob for a key length the mechanism standard does not define', blob=blob, len=n); return False
            pt = runwrap(blob)
            if pt != padded: e.V(sp, 'C_WrapKey', m, 'reference-cannot-unwrap', 'the independent implementation does not recover the key from the wrapped blob (standard: %s)' % STANDARD[m], blob=blob, value=v, got=pt, iv=sp.get('_iv')); return False
            if det and blob != ref_blob: e.V(sp, 'C_WrapKey', m, 'differs-from-reference', 'the blob differs from the standard encoding computed independently', blob=blob, want=ref_blob); return False
            positive = True
        # unwrap what the token wrapped, and what the reference wrapped
        for src, b in (('own', blob), ('reference', ref_blob if (blob is None or not det) else None)):
            if b is None: continue
            tm = unwrap_template(e, sp, rnd, ck.CKO_SECRET_KEY, ck[KTYPE[kind]]); before = e.t.handles(); rv, h = e.unwrap(mech, hu, b, tm)
            if rv == 'CKR_MECHANISM_INVALID' and wrap_rv == 'CKR_MECHANISM_INVALID':
                part.observe('mechanism usable neither for wrapping nor for unwrapping (not a supported wrap mechanism)', {'mech': m, 'cfg': e.cfg}); return False
            if rv != 'CKR_OK':
                if src == 'own': e.V(sp, 'C_UnwrapKey', m, 'own-blob-refused:' + rv, 'C_UnwrapKey does not accept what C_WrapKey produced with the same mechanism and parameters')
                else: e.V(sp, 'C_UnwrapKey', m, 'reference-blob-refused:' + rv, 'C_UnwrapKey does not accept a blob made by the independent implementation (standard: %s)' % STANDARD[m], blob=b, iv=sp.get('_iv'))
                residue(e, sp, 'C_UnwrapKey', m, before, rv, 'valid blob'); continue
            got = e.t.value(h); a = e.attrs(h, ['CKA_KEY_TYPE', 'CKA_CLASS'])
            if got != padded: e.V(sp, 'C_UnwrapKey', m + ':' + src, 'value-differs', 'the unwrapped key value differs from the wrapped key', got=got, want=padded)
            elif ul(a['CKA_KEY_TYPE']) != ck[KTYPE[kind]] or ul(a['CKA_CLASS']) != ck.CKO_SECRET_KEY: e.V(sp, 'C_UnwrapKey', m + ':' + src, 'type-differs', 'the unwrapped key has another class/type', got=a)
            else: positive = True
            check_unwrapped(e, sp, 'C_UnwrapKey', m, h, tm); e.kcv_check(sp, 'C_UnwrapKey', 'unwrapped', h, kind, got or padded); e.t.destroy(h)
        e.kcv_check(sp, 'C_CreateObject', 'created', hk, kind, v)
        # malformed blobs: the reference decides what is malformed
        good = blob if blob is not None else ref_blob
        if good is not None and sp.get('malformed', True):
            cands = [('truncated-1', good[:-1]), ('truncated-block', good[:-8] if len(good) > 8 else b''), ('bit-flip', flip(rnd, good)), ('bit-flip', flip(rnd, good)), ('random', rb(rnd, len(good))), ('extended', good + rb(rnd, 8))]
            if m.startswith('CKM_RSA'): cands.append(('leading-byte-removed', good[1:]))
            for what, b in cands:
                if not b: continue
                try: pt = runwrap(b)
                except Exception: pt = None
                tm = unwrap_template(e, sp, rnd, ck.CKO_SECRET_KEY, ck[KTYPE[kind]]); before = e.t.handles(); rv, h = e.unwrap(mech, hu, b, tm); part.count('malformed_blobs_tried')
                if rv == 'CKR_OK':
                    got = e.t.value(h)
                    if pt is None: e.V(sp, 'C_UnwrapKey', m + ':' + what, 'malformed-blob-accepted', 'C_UnwrapKey returned CKR_OK for a blob that is malformed per %s' % STANDARD[m], blob=b, value=got, iv=sp.get('_iv'))
                    elif got != pt: e.V(sp, 'C_UnwrapKey', m + ':' + what, 'value-differs', 'a modified but still well-formed blob unwraps to a value other than the standard decoding', blob=b, got=got, want=pt)
                    else: part.count('modified_blob_still_wellformed')
                    e.t.destroy(h)
                else:
                    if pt is None: part.count('malformed_blobs_rejected')
                    residue(e, sp, 'C_UnwrapKey', m + ':' + what, before, rv, 'blob')
    finally:
        for h in made: e.t.destroy(h)
    return positive

STANDARD = {'CKM_AES_KEY_WRAP': 'RFC 3394', 'CKM_AES_KEY_WRAP_PAD': 'RFC 5649', 'CKM_AES_CBC_PAD': 'PKCS#7-padded CBC under the caller IV', 'CKM_DES3_CBC_PAD': 'PKCS#7-padded CBC under the caller IV',
            'CKM_AES_CBC': 'CBC under the caller IV', 'CKM_DES3_CBC': 'CBC under the caller IV', 'CKM_RSA_PKCS': 'PKCS#1 v1.5 (RFC 8017 7.2)', 'CKM_RSA_PKCS_OAEP': 'RSAES-OAEP (RFC 8017 7.1)'}

def private_material(e, sp):
    """-> (refcrypt key, token handle, CKK, {attribute: expected bytes} that identify the key, PKCS#8 comparison function)"""
    K = KF.load(); ck = e.ck; pk = [tuple(v) if isinstance(v, list) else v for v in sp['pk']]; ib = KF.ib
    if pk[0] == 'rsa':
        k = K['rsa'][pk[1]]; return k, e.t.rsa_priv(k), ck.CKK_RSA, {'CKA_MODULUS': ib(k.n), 'CKA_PUBLIC_EXPONENT': ib(k.e), 'CKA_PRIVATE_EXPONENT': ib(k.d), 'CKA_PRIME_1': ib(k.p), 'CKA_PRIME_2': ib(k.q),
                                                               'CKA_EXPONENT_1': ib(k.dp), 'CKA_EXPONENT_2': ib(k.dq), 'CKA_COEFFICIENT': ib(k.qinv)}, \
            (lambda p: p['type'] == 'rsa' and (p['n'], p['e'], p['d'], p['p'], p['q'], p['dp'], p['dq'], p['qinv']) == (k.n, k.e, k.d, k.p, k.q, k.dp, k.dq, k.qinv))
    if pk[0] == 'ec':
        k = K['ec'][pk[1]][0]; return k, e.t.ec_priv(k), ck.CKK_EC, {'CKA_EC_PARAMS': k.c.params, 'CKA_VALUE': ib(k.d)}, (lambda p: p['type'] == 'ec' and p['params'] == k.c.params and p['d'] == k.d and p['point'] in (None, k.point()))
    if pk[0] == 'dsa':
        k = K['dsa'][pk[1]]; return k, e.t.dsa_priv(k), ck.CKK_DSA, {'CKA_PRIME': ib(k.p), 'CKA_SUBPRIME': ib(k.q), 'CKA_BASE': ib(k.g), 'CKA_VALUE': ib(k.x)}, (lambda p: p['type'] == 'dsa' and (p['p'], p['q'], p['g'], p['x']) == (k.p, k.q, k.g, k.x))
    if pk[0] == 'dh':
        k = K['dh'][pk[1]][0]; return k, e.t.dh_priv(k), ck.CKK_DH, {'CKA_PRIME': ib(k.p), 'CKA_BASE': ib(k.g), 'CKA_VALUE': ib(k.x)}, (lambda p: p['type'] == 'dh' and (p['p'], p['g'], p['x']) == (k.p, k.g, k.x))
    if pk[0] == 'ed':
        k = K['ed'][pk[1]][0]; return k, e.t.ed_priv(k), ck.CKK_EC_EDWARDS, {'CKA_VALUE': k.sk}, (lambda p: p['type'] == 'ed' and p['curve'] == pk[1] and p['sk'] == k.sk)
    k = K['x'][pk[1]][0]; return k, e.t.x_priv(k), ck.CKK_EC_EDWARDS, {'CKA_VALUE': k.sk}, (lambda p: p['type'] == 'x' and p['curve'] == pk[1] and p['sk'] == k.sk)

def parse_p8(pt, zero_padded):
    """PKCS#8 plaintext of a wrapped private key; with CKM_AES_KEY_WRAP up to 7 zero bytes may follow the DER (the format carries no length)"""
    if pt is None: return None
    if zero_padded:
        try: t, c, end = R.der_read(pt, 0)
        except R.DERError: return None
        if len(pt) - end > 7 or any(pt[end:]): return None
        pt = pt[:end]
    try: return R.pkcs8_parse(pt)
    except R.DERError: return None

def fam_wrap_private(e, sp, rnd):
    ck = e.ck; m = sp['mech']; part = e.part; positive = False; zp = m == 'CKM_AES_KEY_WRAP'
    if UNSUPPORTED.get((e.cfg, sp['pk'][1])): part.observe('parameter set not implemented by this back-end', {'cfg': e.cfg, 'curve': sp['pk'][1]}); return False
    k, hk, ckk, ident, same = private_material(e, sp); wk, hw, hu = wrapping_keys(e, sp, rnd); mech, rwrap, runwrap, det = mech_and_ref(e, sp, rnd, wk); cls = m + ':' + sp['pk'][0]
    try:
        rv, blob = e.wrap(mech, hw, hk)
        if rv != 'CKR_OK': part.observe('wrap of an extractable private key refused', {'mech': m, 'pk': sp['pk'], 'rv': rv}); blob = None
        else:
            p8 = parse_p8(runwrap(blob), zp)
            if p8 is None: e.V(sp, 'C_WrapKey', cls, 'reference-cannot-unwrap', 'the independent implementation cannot unwrap/parse the blob as %s + PKCS#8' % STANDARD[m], blob=blob[:256]); return False
            if not same(p8): e.V(sp, 'C_WrapKey', cls, 'pkcs8-content-differs', 'the PKCS#8 structure inside the blob does not contain this key', parsed={a: (hex(b) if isinstance(b, int) else str(b)[:80]) for a, b in p8.items()}); return False
            positive = True
        ref_p8 = k.pkcs8(); encs = [('reference', ref_p8)]
        if sp['pk'][0] == 'dh': encs.append(('reference:x9.42-oid', k.pkcs8(x942=True)))
        if sp['pk'][0] == 'ec': encs += [('reference:no-public-key', k.pkcs8(with_public=False)), ('reference:with-parameters', k.pkcs8(with_params=True))]
        accepted = 0; refused = []
        for src, b in [('own', blob)] + [(n_, rwrap(p_)) for n_, p_ in encs]:
            if b is None: continue
            tm = unwrap_template(e, sp, rnd, ck.CKO_PRIVATE_KEY, ckk, private_key=True); before = e.t.handles(); rv, h = e.unwrap(mech, hu, b, tm)
            if rv != 'CKR_OK':
                if src == 'own': e.V(sp, 'C_UnwrapKey', cls, 'own-blob-refused:' + rv, 'C_UnwrapKey does not accept a PKCS#8 private key wrapped by C_WrapKey itself', blob=b[:256])
                else: refused.append((src, rv))
                residue(e, sp, 'C_UnwrapKey', cls, before, rv, 'valid blob'); continue
            if src != 'own': accepted += 1
            a = e.attrs(h, list(ident) + ['CKA_KEY_TYPE', 'CKA_CLASS']); bad = [n for n in ident if a[n] is None or int.from_bytes(a[n], 'big') != int.from_bytes(ident[n], 'big')] if sp['pk'][0] not in ('ed', 'x') else [n for n in ident if a[n] != ident[n]]
            if bad: e.V(sp, 'C_UnwrapKey', cls + ':' + src, 'value-differs', 'the unwrapped private key differs from the wrapped one in ' + ','.join(bad), got={n: a[n] and a[n].hex()[:64] for n in bad})
            elif ul(a['CKA_KEY_TYPE']) != ckk or ul(a['CKA_CLASS']) != ck.CKO_PRIVATE_KEY: e.V(sp, 'C_UnwrapKey', cls + ':' + src, 'type-differs', 'the unwrapped key has another class/type')
            else: positive = True
            check_unwrapped(e, sp, 'C_UnwrapKey', cls, h, tm); e.t.destroy(h)
        if not accepted: e.V(sp, 'C_UnwrapKey', cls, 'reference-blob-refused:' + refused[0][1], 'C_UnwrapKey accepts none of the standard PKCS#8 encodings of this key wrapped by the independent implementation', tried=[r[0] for r in refused])
        elif refused: part.observe('one standard PKCS#8 variant refused, another accepted', {'cfg': e.cfg, 'pk': sp['pk'][0], 'refused': refused})
        # malformed: wrapping-level damage and PKCS#8-level damage (wrapped correctly by the reference)
        cands = []
        if blob is not None: cands += [('truncated-block', blob[:-8], None), ('bit-flip', flip(rnd, blob), None), ('random', rb(rnd, len(blob)), None)]
        for what, inner in (('pkcs8-truncated', ref_p8[:len(ref_p8) - rnd.randint(1, len(ref_p8) // 2)]), ('pkcs8-random', rb(rnd, len(ref_p8))), ('pkcs8-wrong-outer-tag', b'\x31' + ref_p8[1:]), ('pkcs8-empty-sequence', b'\x30\x00'),
                            ('pkcs8-inner-key-truncated', None)):
            if inner is None:
                top = R.der_items(R.der_top(ref_p8)); keyoct = top[2][1]; inner = R.der_seq(R.der(*top[0]), R.der(*top[1]), R.der_octets(keyoct[:len(keyoct) // 2]))
            wb = rwrap(inner)
            if wb is not None: cands.append((what, wb, inner))
        for what, b, inner in cands:
            tm = unwrap_template(e, sp, rnd, ck.CKO_PRIVATE_KEY, ckk, private_key=True); before = e.t.handles(); rv, h = e.unwrap(mech, hu, b, tm); part.count('malformed_blobs_tried')
            try: pt = runwrap(b)
            except Exception: pt = None
            p8 = parse_p8(pt, zp)                          # the reference decides on the actual blob (zero padding of CKM_AES_KEY_WRAP can complete a truncated DER)
            if rv == 'CKR_OK':
                if p8 is None and (inner is not None or pt is None): e.V(sp, 'C_UnwrapKey', cls + ':' + what, 'malformed-blob-accepted', 'C_UnwrapKey returned CKR_OK for a malformed blob (%s)' % what, blob=b[:128])
                else: part.observe('modified private-key blob accepted (still decodes)', {'what': what, 'mech': m})
                e.t.destroy(h)
            else:
                part.count('malformed_blobs_rejected'); residue(e, sp, 'C_UnwrapKey', cls + ':' + what, before, rv, 'blob')
    finally:
        e.t.destroy(hw)
    return positive

def fam_templates(e, sp, rnd):
    """CKA_WRAP_TEMPLATE on the wrapping key / CKA_UNWRAP_TEMPLATE on the unwrapping key"""
    ck = e.ck; part = e.part; wkv = rb(rnd, 16); c = R.AES(wkv); mech = e.x.M('CKM_AES_KEY_WRAP_PAD'); positive = False; made = []
    pool = {'CKA_KEY_TYPE': (ck.CKK_AES, ck.CKK_GENERIC_SECRET), 'CKA_ENCRYPT': (True, False), 'CKA_SIGN': (False, True), 'CKA_LABEL': (b'policy-A', b'policy-B'), 'CKA_DERIVE': (True, False), 'CKA_ID': (b'\1\2', b'\1\3')}
    names = rnd.sample(sorted(pool), rnd.randint(1, 4)); tpl = [(n, pool[n][0]) for n in names]
    def keyattrs(over):
        a = {'CKA_CLASS': ck.CKO_SECRET_KEY, 'CKA_KEY_TYPE': ck.CKK_AES, 'CKA_VALUE': rb(rnd, 16), 'CKA_SENSITIVE': False, 'CKA_EXTRACTABLE': True, 'CKA_ENCRYPT': True, 'CKA_SIGN': False, 'CKA_LABEL': b'policy-A', 'CKA_DERIVE': True, 'CKA_ID': b'\1\2'}
        a.update(over); return a
    try:
        if sp['which'] == 'wrap':
            hw = e.t.secret('aes', wkv, CKA_WRAP_TEMPLATE=tpl); made.append(hw)
            priv = rnd.random() < 0.4                      # byte-string attributes of private objects are stored encrypted; the library compares the stored form
            hk = e.t.create(keyattrs({}), private=priv); made.append(hk); rv, blob = e.wrap(mech, hw, hk)
            if rv != 'CKR_OK': part.observe('WRAP_TEMPLATE: a matching key was refused', {'rv': rv, 'template': sorted(names), 'key_private': priv}); return False
            positive = True
            for n in names:                                       # one attribute off at a time
                v = keyattrs({n: pool[n][1]});
                if n == 'CKA_KEY_TYPE': v['CKA_VALUE'] = rb(rnd, 16)
                hk2 = e.t.create(v, private=priv); made.append(hk2); rv, blob = e.wrap(mech, hw, hk2); part.count('template_probes')
                if rv == 'CKR_OK': e.V(sp, 'C_WrapKey', 'CKA_WRAP_TEMPLATE:' + n, 'mismatching-key-wrapped', 'a key whose %s differs from the wrapping key\'s CKA_WRAP_TEMPLATE was wrapped' % n, template=str(tpl))
        else:
            hu = e.t.secret('aes', wkv, CKA_UNWRAP_TEMPLATE=tpl); made.append(hu); val = rb(rnd, 16); blob = R.kwp_wrap(c, val)
            base = {'CKA_CLASS': ck.CKO_SECRET_KEY, 'CKA_KEY_TYPE': ck.CKK_AES, 'CKA_SENSITIVE': False, 'CKA_EXTRACTABLE': True, 'CKA_TOKEN': False}
            def expect(h, variant):
                a = e.attrs(h, names); ok = True
                for n, v in tpl:
                    want = bytes([v]) if isinstance(v, bool) else v.to_bytes(8, 'little') if isinstance(v, int) else v
                    if a[n] != want: e.V(sp, 'C_UnwrapKey', 'CKA_UNWRAP_TEMPLATE:' + n, 'not-honoured:' + variant, 'a key unwrapped with this key does not have the %s its CKA_UNWRAP_TEMPLATE prescribes' % n, got=a[n], want=want, template=str(tpl)); ok = False
                return ok
            tm = dict(base); tm.update(dict(tpl)); rv, h = e.unwrap(mech, hu, blob, tm); part.count('template_probes')
            if rv != 'CKR_OK': part.observe('UNWRAP_TEMPLATE: a consistent caller template was refused', {'rv': rv, 'template': names}); return False
            made.append(h); positive = expect(h, 'consistent-template') and e.t.value(h) == val
            for n in names:
                tm = dict(base); tm.update(dict(tpl)); tm[n] = pool[n][1]; before = e.t.handles(); rv, h = e.unwrap(mech, hu, blob, tm); part.count('template_probes')     # conflicting value
                if rv == 'CKR_OK': made.append(h); expect(h, 'conflicting-caller-value')
                else: residue(e, sp, 'C_UnwrapKey', 'CKA_UNWRAP_TEMPLATE:' + n, before, rv, 'conflicting template')
                tm = dict(base); tm.update(dict(tpl)); del tm[n]
                if n == 'CKA_KEY_TYPE': continue                   # the key type is mandatory in the caller's template
                before = e.t.handles(); rv, h = e.unwrap(mech, hu, blob, tm); part.count('template_probes')                                                        # omitted attribute
                if rv == 'CKR_OK': made.append(h); expect(h, 'omitted-by-caller')
                else: residue(e, sp, 'C_UnwrapKey', 'CKA_UNWRAP_TEMPLATE:' + n, before, rv, 'template without the prescribed attribute')
    finally:
        for h in made: e.t.destroy(h)
    return positive

def DERIVE_FAMILY(cls):
    cls = cls.replace(':zero-byte-at-end-of-secret', '')
    if cls.startswith('CKM_ECDH1_DERIVE'): return 'CKM_ECDH1_DERIVE:' + ('montgomery' if cls.split(':')[1].startswith('X') else 'EC')
    if 'ENCRYPT_DATA' in cls or 'CONCATENATE' in cls: return 'symmetric-derive'
    return cls
def private_attrs(e, pk):
    """-> (refcrypt key, CKK, C_CreateObject attributes of the private key WITHOUT usage flags/label)"""
    K = KF.load(); ck = e.ck; ib = KF.ib; t, par = pk[0], pk[1]
    if t == 'rsa': k = K['rsa'][par]; return k, ck.CKK_RSA, {'CKA_MODULUS': ib(k.n), 'CKA_PUBLIC_EXPONENT': ib(k.e), 'CKA_PRIVATE_EXPONENT': ib(k.d), 'CKA_PRIME_1': ib(k.p), 'CKA_PRIME_2': ib(k.q), 'CKA_EXPONENT_1': ib(k.dp), 'CKA_EXPONENT_2': ib(k.dq), 'CKA_COEFFICIENT': ib(k.qinv)}
    if t == 'ec': k = K['ec'][par][0]; return k, ck.CKK_EC, {'CKA_EC_PARAMS': k.c.params, 'CKA_VALUE': ib(k.d)}
    if t == 'dsa': k = K['dsa'][par]; return k, ck.CKK_DSA, {'CKA_PRIME': ib(k.p), 'CKA_SUBPRIME': ib(k.q), 'CKA_BASE': ib(k.g), 'CKA_VALUE': ib(k.x)}
    if t == 'dh': k = K['dh'][par][0]; return k, ck.CKK_DH, {'CKA_PRIME': ib(k.p), 'CKA_BASE': ib(k.g), 'CKA_VALUE': ib(k.x)}
    if t == 'ed': k = K['ed'][par][0]; return k, ck.CKK_EC_EDWARDS, {'CKA_EC_PARAMS': R.der_printable(k.c.pname), 'CKA_VALUE': k.sk}
    k = K['x'][par][0]; return k, ck.CKK_EC_EDWARDS, {'CKA_EC_PARAMS': R.der_printable(R.XNAME[k.kind]), 'CKA_VALUE': k.sk}

def fam_templates_priv(e, sp, rnd):
    """CKA_WRAP_TEMPLATE / CKA_UNWRAP_TEMPLATE when the wrapped / unwrapped key is a PRIVATE key of every type: each template attribute alone,
    once matching (positive control) and once not matching (must be refused), for every wrap mechanism that carries private keys"""
    ck = e.ck; part = e.part; m = sp['mech']; pk = sp['pk']; positive = False; made = []
    if UNSUPPORTED.get((e.cfg, pk[1])): part.observe('parameter set not implemented by this back-end', {'cfg': e.cfg, 'curve': pk[1]}); return False
    k, ckk, mat = private_attrs(e, pk); wkv = rb(rnd, sp['wlen']); sp2 = dict(sp); mech, rwrap, runwrap, det = mech_and_ref(e, sp2, rnd, wkv)
    # value the key has / a value it does not have, per template attribute
    pool = {'CKA_KEY_TYPE': (ckk, ck.CKK_AES), 'CKA_SIGN': (True, False), 'CKA_DECRYPT': (False, True), 'CKA_DERIVE': (True, False), 'CKA_UNWRAP': (False, True), 'CKA_SENSITIVE': (False, True),
            'CKA_LABEL': (b'policy-A', b'policy-B'), 'CKA_ID': (b'\1\2', b'\1\3'), 'CKA_CLASS': (ck.CKO_PRIVATE_KEY, ck.CKO_SECRET_KEY)}
    own = {n: v[0] for n, v in pool.items()}; own.update({'CKA_EXTRACTABLE': True}); own.update(mat)
    def as_bytes(v): return bytes([v]) if isinstance(v, bool) else v.to_bytes(8, 'little') if isinstance(v, int) else v
    try:
        if sp['which'] == 'wrap':
            hk = e.t.create(own, private=False); made.append(hk)      # public object: byte-string attributes are compared in the clear
            for n in sorted(pool):
                for match in (True, False):
                    hw = e.t.secret('aes', wkv, CKA_WRAP_TEMPLATE=[(n, pool[n][0 if match else 1])]); made.append(hw); rv, blob = e.wrap(mech, hw, hk); part.count('template_probes')
                    if match:
                        if rv == 'CKR_OK': positive = True
                        else: part.observe('WRAP_TEMPLATE: a matching private key was refused', {'rv': rv, 'attr': n, 'pk': pk[0], 'mech': m})
                    elif rv == 'CKR_OK':
                        e.V(sp, 'C_WrapKey', 'CKA_WRAP_TEMPLATE:' + n + ':private-key', 'mismatching-key-wrapped', 'a private key whose %s differs from the wrapping key\'s CKA_WRAP_TEMPLATE was wrapped (%s, %s key)' % (n, m, pk[0]))
        else:
            blob = rwrap(k.pkcs8()); base = {'CKA_CLASS': ck.CKO_PRIVATE_KEY, 'CKA_KEY_TYPE': ckk, 'CKA_SENSITIVE': False, 'CKA_EXTRACTABLE': True, 'CKA_TOKEN': False, 'CKA_PRIVATE': False}
            for n in sorted(pool):
                if n == 'CKA_CLASS': continue
                want = pool[n][0]; hu = e.t.secret('aes', wkv, CKA_UNWRAP_TEMPLATE=[(n, want)]); made.append(hu)
                for variant, val in (('consistent-template', want), ('conflicting-caller-value', pool[n][1]), ('omitted-by-caller', None)):
                    if n == 'CKA_KEY_TYPE' and variant != 'consistent-template': continue           # the key type decides how the blob is decoded
                    tm = dict(base)
                    if val is not None: tm[n] = val
                    elif n in tm: del tm[n]
                    before = e.t.handles(); rv, h = e.unwrap(mech, hu, blob, tm); part.count('template_probes')
                    if rv == 'CKR_OK':
                        made.append(h); a = e.attrs(h, [n])[n]
                        if a != as_bytes(want): e.V(sp, 'C_UnwrapKey', 'CKA_UNWRAP_TEMPLATE:' + n + ':private-key', 'not-honoured:' + variant, 'a private key unwrapped with this key does not have the %s its CKA_UNWRAP_TEMPLATE prescribes' % n, got=a, want=as_bytes(want))
                        elif variant == 'consistent-template': positive = True
                    else:
                        if variant == 'consistent-template': part.observe('UNWRAP_TEMPLATE: a consistent caller template was refused (private key)', {'rv': rv, 'attr': n, 'pk': pk[0]})
                        residue(e, sp, 'C_UnwrapKey', 'CKA_UNWRAP_TEMPLATE:' + n + ':private-key', before, rv, 'template')
    finally:
        for h in made: e.t.destroy(h)
    return positive

def adjust(kind, v): return R.des_odd_parity(v) if kind in ('des2', 'des3') else v

def check_derived(e, sp, cls, rv, h, source, kind, n, end, before):
    """source: the full string the mechanism defines; end: 'leading' (keep the first bytes) | 'trailing' (keep the last bytes: the
    truncation of DH/ECDH removes bytes from the leading end)"""
    want_len = n if n else FIXLEN.get(kind)
    if want_len is not None and want_len > len(source):
        if rv == 'CKR_OK': e.V(sp, 'C_DeriveKey', cls + '->' + kind, 'longer-than-defined-value', 'a key longer than the value the mechanism defines was derived', got=e.t.value(h), source_len=len(source)); e.t.destroy(h)
        else: residue(e, sp, 'C_DeriveKey', cls + '->' + kind, before, rv, 'derivation')
        return False
    if rv != 'CKR_OK':
        if want_len is None and kind != 'generic' or (want_len is None and sp.get('needs_len')): e.part.observe('derive without CKA_VALUE_LEN refused', {'mech': cls, 'kind': kind, 'rv': rv}); return False
        e.part.observe('derive refused where the mechanism defines a value (no key to judge)', {'mech': DERIVE_FAMILY(cls), 'kind': kind, 'n': n, 'source_len': len(source), 'rv': rv}); residue(e, sp, 'C_DeriveKey', cls + '->' + kind, before, rv, 'derivation'); return False
    got = e.t.value(h); a = e.attrs(h, ['CKA_KEY_TYPE']); ok = True
    if got is None: e.V(sp, 'C_DeriveKey', cls + '->' + kind, 'value-unreadable', 'the derived key was made extractable and non-sensitive but its value cannot be read'); e.t.destroy(h); return False
    if want_len is not None and len(got) != want_len: e.V(sp, 'C_DeriveKey', cls + '->' + kind, 'wrong-length', 'the derived key does not have the requested/type-defined length', got=got, want_len=want_len); ok = False
    elif want_len is None and kind == 'aes' and len(got) not in (16, 24, 32): e.V(sp, 'C_DeriveKey', cls + '->' + kind, 'wrong-length', 'an AES key of impossible length was derived', got=got); ok = False
    else:
        want = adjust(kind, source[:len(got)] if end == 'leading' else source[len(source) - len(got):])
        if got != want:
            how = 'other-end' if got == adjust(kind, source[len(source) - len(got):] if end == 'leading' else source[:len(got)]) else 'parity' if adjust(kind, got) == want else 'value'
            e.V(sp, 'C_DeriveKey', cls + '->' + kind, 'value-differs(' + how + ')', 'the derived key value is not what the mechanism defines (%s of the defined string, %s)' % (end + ' bytes', 'odd parity' if kind.startswith('des') else 'no adjustment'), got=got, want=want, source=source); ok = False
    if ul(a['CKA_KEY_TYPE']) != e.ck[KTYPE[kind]]: e.V(sp, 'C_DeriveKey', cls + '->' + kind, 'type-differs', 'the derived key does not have the requested key type'); ok = False
    e.kcv_check(sp, 'C_DeriveKey', DERIVE_FAMILY(cls) + ('' if len(got) == len(source) else ':truncated'), h, kind, got, source); e.t.destroy(h)
    return ok

def derive_template(e, kind, n, rnd):
    ck = e.ck; t = {'CKA_CLASS': ck.CKO_SECRET_KEY, 'CKA_KEY_TYPE': ck[KTYPE[kind]], 'CKA_SENSITIVE': False, 'CKA_EXTRACTABLE': True, 'CKA_TOKEN': False, 'CKA_PRIVATE': rnd.random() < 0.7}
    if n: t['CKA_VALUE_LEN'] = n
    return t

def fam_derive_asym(e, sp, rnd):
    K = KF.load(); ck = e.ck; x = e.x; src = sp['src']; kind = sp['kind']; n = sp['n']
    if UNSUPPORTED.get((e.cfg, sp.get('curve'))): e.part.observe('parameter set not implemented by this back-end', {'cfg': e.cfg, 'curve': sp.get('curve')}); return False
    if src == 'dh':
        own, peer = K['dh'][sp['group']]; peer = KF.leadz_peers()['dh'][sp['group']][sp['peer']] if sp.get('peer') else R.DHKey(own.p, own.g, rnd.randrange(2, (own.p - 1) // 2)) if rnd.random() < 0.7 else peer
        Z = own.derive(peer.y); mech = x.M('CKM_DH_PKCS_DERIVE', hex=KF.ib(peer.y).hex()); hb = e.t.dh_priv(own); cls = 'CKM_DH_PKCS_DERIVE'; sp['needs_len'] = True
    elif src == 'ecdh':
        own, peer = K['ec'][sp['curve']]; peer = KF.leadz_peers()['ec'][sp['curve']][sp['peer']] if sp.get('peer') else R.ECKey(own.c, rnd.randrange(1, own.c.n)) if rnd.random() < 0.7 else peer
        Z = own.ecdh(peer.Q); pub = peer.point(); pub = R.der_octets(pub) if rnd.random() < 0.5 else pub; mech = x.M('CKM_ECDH1_DERIVE', ecdh1={'kdf': ck.CKD_NULL, 'public': pub.hex()}); hb = e.t.ec_priv(own); cls = 'CKM_ECDH1_DERIVE:' + sp['curve']
    else:
        own, peer = K['x'][sp['curve']]; peer = KF.leadz_peers()['x'][sp['curve']][sp['peer']] if sp.get('peer') else R.XKey(sp['curve'], rb(rnd, len(own.sk))) if rnd.random() < 0.7 else peer
        Z = own.derive(peer.pk); pub = R.der_octets(peer.pk) if rnd.random() < 0.5 else peer.pk; mech = x.M('CKM_ECDH1_DERIVE', ecdh1={'kdf': ck.CKD_NULL, 'public': pub.hex()}); hb = e.t.x_priv(own); cls = 'CKM_ECDH1_DERIVE:' + sp['curve']
    if sp.get('peer'): cls += ':zero-byte-at-end-of-secret'          # the shared secret starts (DH/ECDH: 1 or 2 bytes; X: first or last byte) with zero
    before = e.t.handles(); rv, h = e.derive(mech, hb, derive_template(e, kind, n, rnd))
    return check_derived(e, sp, cls, rv, h, Z, kind, n, 'trailing', before)

def fam_derive_sym(e, sp, rnd):
    ck = e.ck; x = e.x; m = sp['mech']; kind = sp['kind']; n = sp['n']; made = []
    try:
        if 'ENCRYPT_DATA' in m:
            aes = 'AES' in m; bs = 16 if aes else 8; bk = rb(rnd, sp['blen']); bk = bk if aes else R.des_odd_parity(bk); c = R.cipher('aes' if aes else 'des3', bk)
            hb = e.t.secret('aes' if aes else ('des3' if len(bk) == 24 else 'des2'), bk); made.append(hb); data = rb(rnd, sp['dlen'])
            if 'ECB' in m: mech = x.M(m, kdstr=data.hex()); source = R.ecb(c, data) if len(data) % bs == 0 and data else None
            else: iv = rb(rnd, bs); mech = x.M(m, cbcdata={'iv': iv.hex(), 'data': data.hex()}); source = R.cbc(c, iv, data) if len(data) % bs == 0 and data else None
            before = e.t.handles(); rv, h = e.derive(mech, hb, derive_template(e, kind, n, rnd))
            if source is None:
                if rv == 'CKR_OK': e.part.observe('ENCRYPT_DATA accepted data that is not a whole number of blocks', {'mech': m, 'dlen': len(data)}); e.t.destroy(h)
                else: residue(e, sp, 'C_DeriveKey', m, before, rv, 'derivation')
                return False
            return check_derived(e, sp, m, rv, h, source, kind, n, 'leading', before)
        bk = rb(rnd, sp['blen']); hb = e.t.secret(sp.get('btype', 'generic'), bk if sp.get('btype', 'generic') == 'generic' else (bk if sp['btype'] == 'aes' else R.des_odd_parity(bk))); made.append(hb)
        bk = e.t.value(hb); data = rb(rnd, sp['dlen'])
        if m == 'CKM_CONCATENATE_BASE_AND_KEY':
            h2 = e.t.secret('generic', data); made.append(h2); mech = x.M(m, hkey=h2); source = bk + data
        else: mech = x.M(m, kdstr=data.hex()); source = bk + data if m == 'CKM_CONCATENATE_BASE_AND_DATA' else data + bk
        before = e.t.handles() ; rv, h = e.derive(mech, hb, derive_template(e, kind, n, rnd))
        if not n and kind == 'aes' and len(source) not in (16, 24, 32):
            if rv == 'CKR_OK': e.V(sp, 'C_DeriveKey', m + '->aes', 'wrong-length', 'an AES key of impossible length was derived', got=e.t.value(h)); e.t.destroy(h)
            return False
        if not n and kind in FIXLEN and len(source) < FIXLEN[kind]: n = None
        return check_derived(e, sp, m, rv, h, source, kind, n if n else (len(source) if kind == 'generic' or kind == 'aes' else None), 'leading', before)
    finally:
        for h in made: e.t.destroy(h)

def fam_kcv(e, sp, rnd):
    """check values of created and generated secret keys"""
    ck = e.ck; kind = sp['kind']; n = sp['klen']
    if sp['how'] == 'create':
        v = adjust(kind, rb(rnd, n)); h = e.t.secret(kind, v)
    else:
        gm = {'aes': 'CKM_AES_KEY_GEN', 'des2': 'CKM_DES2_KEY_GEN', 'des3': 'CKM_DES3_KEY_GEN', 'generic': 'CKM_GENERIC_SECRET_KEY_GEN'}[kind]
        tm = {'CKA_CLASS': ck.CKO_SECRET_KEY, 'CKA_KEY_TYPE': ck[KTYPE[kind]], 'CKA_SENSITIVE': False, 'CKA_EXTRACTABLE': True, 'CKA_TOKEN': False}
        if kind in ('aes', 'generic'): tm['CKA_VALUE_LEN'] = n
        r = e.x.call('C_GenerateKey', s=e.t.ks, mech=e.x.M(gm), tmpl=e.x.T(tm))
        if r['rv'] != 0: e.part.observe('C_GenerateKey refused', {'mech': gm, 'rv': r['rvname']}); return False
        h = r['h']; v = e.t.value(h)
        if v is None: e.t.destroy(h); return False
    before = e.part.counters.get('kcv_checked', 0); e.kcv_check(sp, 'C_CreateObject' if sp['how'] == 'create' else 'C_GenerateKey', 'created' if sp['how'] == 'create' else 'generated', h, kind, v); e.t.destroy(h)
    return e.part.counters.get('kcv_checked', 0) > before

RUN = {'wrap_secret': fam_wrap_secret, 'wrap_private': fam_wrap_private, 'templates': fam_templates, 'templates_priv': fam_templates_priv, 'derive_asym': fam_derive_asym, 'derive_sym': fam_derive_sym, 'kcv': fam_kcv}
def distinct_key(sp):
    f = sp['fam']
    if f == 'wrap_secret': return (f, sp['mech'], sp.get('wlen') or sp.get('wbits'), sp['kind'], sp['klen'], bool(sp.get('lz')), sp.get('imp'))
    if f == 'wrap_private': return (f, sp['mech'], sp.get('wlen'), tuple(sp['pk']))
    if f == 'templates': return (f, sp['which'], sp['i'] % 8)
    if f == 'templates_priv': return (f, sp['which'], sp['mech'], sp['wlen'], tuple(sp['pk']))
    if f == 'derive_asym': return (f, sp['src'], sp.get('group') or sp.get('curve'), sp['kind'], sp['n'], sp.get('peer'))
    if f == 'derive_sym': return (f, sp['mech'], sp['blen'], sp['dlen'], sp['kind'], sp['n'])
    return (f, sp['how'], sp['kind'], sp['klen'])

def worker(job):
    from ck import CK
    part = Part(); ck = CK(job['hdr']); d = os.path.join(job['scratch'], 'j%d' % job['ix']); cfg = job['cfg']; tok = None; todo = list(job['specs']); restarts = 0
    while todo:
        try:
            if tok is None: tok = KF.boot_tok(job['paths'], ck, cfg, d, backend=job.get('backend', 'file')); env = Env(tok, part, cfg)
            while todo:
                sp = {k: (tuple(tuple(x) if isinstance(x, list) else x for x in v) if isinstance(v, list) else v) for k, v in todo[0].items()}      # lists -> tuples (specs read back from a replay file)
                rnd = random.Random(sp['seed']); pos = RUN[sp['fam']](env, sp, rnd); todo.pop(0)
                part.case((cfg,) + distinct_key(sp), nontrivial=bool(pos), sample=({'cfg': cfg, 'spec': {k: v for k, v in sp.items() if not k.startswith('_')}} if len(todo) % 61 == 0 else None)); part.count('cases_' + sp['fam'])
        except Died as ex:
            sp = todo.pop(0) if todo else None
            part.observe('side:C17 library terminated the host', {'kind': ex.kind(), 'fn': ex.fn, 'where': ex.where(), 'spec': sp}); part.inconc('executor died (%s in %s) on %r' % (ex.kind(), ex.fn, sp)); tok = None; restarts += 1
        except Hang:
            sp = todo.pop(0) if todo else None; part.inconc('executor hang on %r' % (sp,)); tok = None; restarts += 1
        except KF.KeyImportError as ex:
            sp = todo.pop(0); part.inconc('key import failed (%s) for %r' % (ex, sp))
        if restarts > 5: part.inconc('too many executor restarts; %d cases dropped' % len(todo)); break
    if tok is not None:
        for cat, loc in tok.x.ubsan_reports()[:20]: part.observe('side:ubsan ' + loc, cat)
        tok.x.close()
    shutil.rmtree(d, ignore_errors=True)
    return part

def specs(rnd, thorough):
    S = []; q = not thorough
    def add(**kw): kw['seed'] = rnd.getrandbits(48); S.append(kw)
    secret_targets = [('aes', 16), ('aes', 24), ('aes', 32), ('des2', 16), ('des3', 24)] + [('generic', n) for n in (1, 5, 7, 8, 9, 15, 16, 17, 20, 24, 31, 32, 33, 47, 48, 64)] + ([] if q else [('generic', n) for n in (2, 3, 4, 6, 10, 12, 23, 25, 40, 63, 65, 100, 128, 200)])
    for m in ('CKM_AES_KEY_WRAP', 'CKM_AES_KEY_WRAP_PAD', 'CKM_AES_CBC_PAD', 'CKM_AES_CBC'):
        for wl in (16, 24, 32):
            for kind, n in secret_targets:
                for _ in range(1 if q else 8): add(fam='wrap_secret', mech=m, wlen=wl, kind=kind, klen=n, token=rnd.random() < 0.1)
    for m in ('CKM_DES3_CBC_PAD', 'CKM_DES3_CBC'):
        for wl in (16, 24):
            for kind, n in secret_targets[:5] + [('generic', n) for n in (1, 7, 8, 9, 16, 20)]:
                for _ in range(1 if q else 4): add(fam='wrap_secret', mech=m, wlen=wl, kind=kind, klen=n)
    for m, ov in (('CKM_RSA_PKCS', 11), ('CKM_RSA_PKCS_OAEP', 42)):
        for wb in ((1024, 1025) if q else (1024, 1025, 1536, 2048, 3072, 4096)):
            k = (wb + 7) // 8
            for kind, n in [('aes', 16), ('aes', 32), ('des3', 24), ('generic', 1), ('generic', 20), ('generic', 64), ('generic', k - ov - 1), ('generic', k - ov), ('generic', k - ov + 1)]:
                for _ in range(1 if q else 2): add(fam='wrap_secret', mech=m, wbits=wb, kind=kind, klen=n)
            if wb in (1024, 2048):
                for kind, n in (('aes', 16), ('generic', 33)): add(fam='wrap_secret', mech=m, wbits=wb, kind=kind, klen=n, lz=True, malformed=False)
            if wb in (1024, 1025):
                for kind, n in (('aes', 16), ('aes', 32), ('generic', 20), ('des3', 24)): add(fam='wrap_secret', mech=m, wbits=wb, kind=kind, klen=n, imp='lead0', malformed=False)
    privs = [('rsa', 1024), ('rsa', 1025), ('ec', 'P-256'), ('ec', 'P-384'), ('ec', 'P-521'), ('dsa', (1024, 160)), ('dh', 'modp1024'), ('dh', 'dsa1024'), ('ed', 'Ed25519'), ('ed', 'Ed448'), ('x', 'X25519'), ('x', 'X448')] + ([] if q else [('rsa', 2048), ('rsa', 4096), ('dsa', (2048, 256)), ('dh', 'modp2048')])
    for m in ('CKM_AES_KEY_WRAP', 'CKM_AES_KEY_WRAP_PAD', 'CKM_AES_CBC_PAD'):
        for wl in (16, 24, 32):
            for pk in privs:
                for _ in range(1 if q else 3): add(fam='wrap_private', mech=m, wlen=wl, pk=pk)
    for i in range(120 if q else 600):
        add(fam='templates', which='wrap' if i % 2 else 'unwrap', i=i)
    for which in ('wrap', 'unwrap'):
        for m in ('CKM_AES_KEY_WRAP_PAD', 'CKM_AES_CBC_PAD', 'CKM_AES_KEY_WRAP'):
            for pk in (('rsa', 1024), ('ec', 'P-256'), ('dsa', (1024, 160)), ('dh', 'modp1024'), ('ed', 'Ed25519'), ('x', 'X25519')) + (() if q else (('ec', 'P-521'), ('rsa', 2048), ('ed', 'Ed448'))):
                for _ in range(1 if q else 3): add(fam='templates_priv', which=which, mech=m, wlen=rnd.choice((16, 24, 32)), pk=pk)
    # derive: asymmetric sources x requested type/length
    def targets(zlen): return [('generic', None), ('generic', zlen), ('generic', zlen - 1), ('generic', 1), ('generic', zlen // 2), ('generic', zlen + 1), ('aes', 16), ('aes', 24), ('aes', 32), ('aes', None), ('des2', None), ('des3', None)]
    for cv, zl in (('P-256', 32), ('P-384', 48), ('P-521', 66)):
        for kind, n in targets(zl):
            for _ in range(2 if q else 12): add(fam='derive_asym', src='ecdh', curve=cv, kind=kind, n=n)
            for pz in (1, 2): add(fam='derive_asym', src='ecdh', curve=cv, kind=kind, n=n, peer=pz)          # stored peers: secret with 1 / 2 leading zero bytes
    for cv, zl in (('X25519', 32), ('X448', 56)):
        for kind, n in targets(zl):
            for pz in ('lead', 'trail'): add(fam='derive_asym', src='x', curve=cv, kind=kind, n=n, peer=pz)
            for _ in range(2 if q else 8): add(fam='derive_asym', src='x', curve=cv, kind=kind, n=n)
    for g, zl in ((('modp1024', 128), ('dsa1024', 128)) if q else (('modp1024', 128), ('dsa1024', 128), ('modp2048', 256))):
        for kind, n in targets(zl):
            for pz in (1, 2): add(fam='derive_asym', src='dh', group=g, kind=kind, n=n, peer=pz)
            for _ in range(2 if q else 6): add(fam='derive_asym', src='dh', group=g, kind=kind, n=n)
    # derive: data encryption and concatenation
    for m, bls, bs in (('CKM_AES_ECB_ENCRYPT_DATA', (16, 24, 32), 16), ('CKM_AES_CBC_ENCRYPT_DATA', (16, 24, 32), 16), ('CKM_DES3_ECB_ENCRYPT_DATA', (16, 24), 8), ('CKM_DES3_CBC_ENCRYPT_DATA', (16, 24), 8)):
        for bl in bls:
            for dl in (bs, 2 * bs, 3 * bs, 4 * bs, bs + 1):
                for kind, n in (('generic', dl), ('generic', dl - 1), ('generic', 1), ('generic', dl + 1), ('aes', 16), ('aes', 32), ('des2', None), ('des3', None)):
                    if q and rnd.random() < 0.3: continue
                    for _ in range(1 if q else 6): add(fam='derive_sym', mech=m, blen=bl, dlen=dl, kind=kind, n=n)
    for m in ('CKM_CONCATENATE_BASE_AND_DATA', 'CKM_CONCATENATE_DATA_AND_BASE', 'CKM_CONCATENATE_BASE_AND_KEY'):
        for bl, dl in ((1, 1), (8, 8), (16, 16), (5, 11), (16, 8), (20, 12), (24, 40), (32, 32)):
            for kind, n in (('generic', None), ('generic', bl + dl), ('generic', bl + dl - 1), ('generic', 1), ('generic', bl + dl + 1), ('aes', 16), ('aes', 32), ('aes', None), ('des2', None), ('des3', None)):
                for bt in (('generic',) if q else ('generic', 'aes')):
                    if bt == 'aes' and bl not in (16, 24, 32): continue
                    for _ in range(1 if q else 6): add(fam='derive_sym', mech=m, blen=bl, dlen=dl, kind=kind, n=n, btype=bt)
    for how in ('create', 'generate'):
        for kind, lens in (('aes', (16, 24, 32)), ('des2', (16,)), ('des3', (24,)), ('generic', (1, 16, 20, 32, 64))):
            for n in lens:
                for _ in range(3 if q else 12): add(fam='kcv', how=how, kind=kind, klen=n)
    return S

COST = {'wrap_private': 5, 'templates_priv': 5, 'wrap_secret': 2, 'derive_asym': 2, 'templates': 2}
def run(ctx):
    ctx.rule = ('one evaluation = one case: (wrap mechanism, wrapping key, wrapped key class/type/length) with both interoperability directions, round trip, attribute read-back, KCV and 6-9 '
                'malformed blobs each checked against C_FindObjects before/after; or one (derive mechanism, base key, data length, requested type/length); or one WRAP/UNWRAP_TEMPLATE policy with '
                'one probe per template attribute; or one created/generated key whose check value is compared; distinct = (config, family, mechanism, key sizes, type, length); non-trivial = the '
                'positive control held (a blob/derived value agreed with refcrypt, or a non-empty check value was compared)')
    ctx.extra['refcrypt_selftest_checks'] = R.selftest()
    if getattr(ctx, 'replay', None):                  # ./check C13 --replay replays/C13/<hash>.json : re-run exactly that case
        import json, atexit; w = json.load(open(ctx.replay))['witness']; cfg = w.get('cfg', 'asan'); ctx.need(cfg)
        evp = os.path.join(os.path.dirname(os.path.abspath(__file__)), '..', 'evidence', 'C13.json'); old = open(evp, 'rb').read() if os.path.exists(evp) else None
        if old is not None: atexit.register(lambda: open(evp, 'wb').write(old))      # a replay must not replace the evidence of the last real run
        sp = {k: v for k, v in w['spec'].items() if not k.startswith('_')}
        ctx.merge(worker(dict(ix=0, cfg=cfg, specs=[sp], paths=ctx.paths, hdr=ctx.paths[cfg]['hdr'], scratch=ctx.scratch))); return
    cfgs = ('asan',) if ctx.quick else ('asan', 'botan'); ctx.need(*cfgs); jobs = []
    for cfg in cfgs:
        t = KF.boot_tok(ctx.paths, ctx.ck, cfg, ctx.dir('probe-' + cfg)); adv = t.mechs; t.x.close()
        S = [s for s in specs(random.Random(ctx.seed * 104729 + len(cfg)), not ctx.quick) if s.get('mech') is None or s['mech'] in adv]
        S.sort(key=lambda s: (-COST.get(s['fam'], 1), s['seed'])); nj = max(12, ctx.nproc) * (1 if ctx.quick else 2)
        for i in range(nj):
            if S[i::nj]: jobs.append(dict(ix=len(jobs), cfg=cfg, specs=S[i::nj], paths=ctx.paths, hdr=ctx.paths[cfg]['hdr'], scratch=ctx.scratch, backend='file' if len(jobs) % 4 else 'db'))
        ctx.extra['cases_planned_' + cfg] = len(S); ctx.extra['mechanisms_' + cfg] = sorted({s['mech'] for s in S if s.get('mech')} | {'CKM_DH_PKCS_DERIVE', 'CKM_ECDH1_DERIVE'})
    for part in pmap(worker, jobs, max(12, ctx.nproc)): ctx.merge(part)
    ctx.assumptions += ['refcrypt is correct (self-tested against RFC 3394/5649 and the other standard vectors on every run)',
                        'truncation end: CKM_DH_PKCS_DERIVE/CKM_ECDH1_DERIVE remove bytes from the leading end (PKCS#11 text), ENCRYPT_DATA and CONCATENATE keep the leading bytes',
                        'a modified blob that still decodes under the standard (e.g. CBC-PAD with intact padding, a bit flipped inside an INTEGER of the PKCS#8) is not malformed: the token may accept it, and then the value must be the standard decoding',
                        'UNWRAP_TEMPLATE is honoured when no key is produced whose attributes contradict it (refusing an incomplete caller template is accepted)',
                        'CKA_VALUE_LEN / CKA_CHECK_VALUE presence on unwrapped keys is not demanded by the statement (empty check values are skipped)',
                        'Ed448/X448 under the Botan back-end are not implemented (observation)']

if __name__ == '__main__': main('C13', run, min_evaluations=600, min_distinct=150)
