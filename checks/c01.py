#!/usr/bin/env python3
"""C01 - private objects are unreachable unless the normal user is logged in; token objects change only via RW sessions.
(1) the access matrix, enumerated: session state x object kind x class x entry-point role, every cell executed
on the real library, judged by effect, with the same role in an allowed state as positive control;
(2) model-guided random histories (stale handles after logout / close / SO login, other sessions)."""
import sys, os, shutil; sys.path.insert(0, os.path.join(os.path.dirname(os.path.abspath(__file__)), '..', 'vlib'))
from harness import main, Part, pmap, SAN_ENV
from walkcheck import run_walks, make_new_exec
from p11client import Died, Hang
import keymat

STATES = ['RO_PUBLIC', 'RW_PUBLIC', 'RO_USER', 'RW_USER', 'RW_SO']
KINDS = [(False, False), (False, True), (True, False), (True, True)]     # (on_token, private)
CLASSES_Q = ['data', 'cert', 'aes', 'generic', 'rsa_priv', 'rsa_pub', 'ec_priv']
CLASSES_T = ['data', 'cert', 'aes', 'aes256', 'generic', 'des3', 'des2', 'rsa_priv', 'rsa_pub', 'ec_priv', 'ec_pub', 'ed_priv', 'ed_pub', 'dsa_priv', 'dsa_pub', 'dh_priv', 'dh_pub', 'dsa_params', 'dh_params']
SO, USER = b'so-pin-01', b'user-pin-01'
def kname(k): return ('token' if k[0] else 'session') + ',' + ('private' if k[1] else 'public')

def cell_job(job):
    from ck import CK
    ck = CK(job['hdr']); part = Part(); state = job['state']; kind = job['kind']; cls = job['cls']; on_token, private = kind
    d = os.path.join(job['scratch'], 'm-%s-%s-%s-%s-%s' % (state, kname(kind).replace(',', '_'), cls, job['backend'], job.get('origin', 'created'))); shutil.rmtree(d, ignore_errors=True); os.makedirs(d)
    x = make_new_exec(job['paths'], ck)(job['cfg'], d, job['backend']); KT = keymat.key_templates(ck)
    def T(base, **over): a = dict(base); a.update(over); return x.T(a)
    try:
        assert x.call('C_Initialize', locking='os')['rv'] == 0
        slot = x.call('C_GetSlotList', count=8)['slots'][-1]
        assert x.call('C_InitToken', slot=slot, pin=SO.hex(), label=b'c01'.hex())['rv'] == 0
        rw = x.call('C_OpenSession', slot=slot)['h']
        assert x.call('C_Login', s=rw, user=0, pin=SO.hex())['rv'] == 0 and x.call('C_InitPIN', s=rw, pin=USER.hex())['rv'] == 0 and x.call('C_Logout', s=rw)['rv'] == 0
        assert x.call('C_Login', s=rw, user=1, pin=USER.hex())['rv'] == 0
        ro = x.call('C_OpenSession', slot=slot, flags=4)['h'] if state.startswith('RO') else None
        # the object under test, created while the user is logged in through the RW session
        tag = b'OBJ-under-test'; origin = job.get('origin', 'created')
        if origin == 'upgrade-copy':      # a private object that came to exist as the CKA_PRIVATE=true copy of a public one (its handle is issued by C_CopyObject)
            r0 = x.call('C_CreateObject', s=rw, tmpl=T(KT[cls], CKA_TOKEN=on_token, CKA_PRIVATE=False, CKA_LABEL=b'public-source'))
            if r0['rv'] != 0: part.inconc(f'cannot create source {cls}: {r0["rvname"]}'); x.close(); return part
            r = x.call('C_CopyObject', s=rw, o=r0['h'], tmpl=x.T({'CKA_PRIVATE': True, 'CKA_LABEL': tag})); x.call('C_DestroyObject', s=rw, o=r0['h'])
        else: r = x.call('C_CreateObject', s=rw, tmpl=T(KT[cls], CKA_TOKEN=on_token, CKA_PRIVATE=private, CKA_LABEL=tag))
        if r['rv'] != 0: part.inconc(f'cannot create {cls} {kname(kind)} ({origin}): {r["rvname"]}'); x.close(); return part
        h = r['h']
        readable = [n for n in KT[cls] if n not in ('CKA_VALUE', 'CKA_PRIVATE_EXPONENT', 'CKA_PRIME_1', 'CKA_PRIME_2', 'CKA_EXPONENT_1', 'CKA_EXPONENT_2', 'CKA_COEFFICIENT')] + ['CKA_LABEL', 'CKA_TOKEN', 'CKA_PRIVATE']
        if 'CKA_ID' not in readable and cls not in ('data', 'dsa_params', 'dh_params'): readable.append('CKA_ID')
        snap0 = x.getattrs(rw, h, readable)[1]
        # helpers that need the user: an RSA-wrapped blob and an AES-wrapped blob for the unwrap roles
        hp = x.call('C_CreateObject', s=rw, tmpl=T(KT['aes'], CKA_LABEL=b'helper-aes', CKA_PRIVATE=False))['h']      # public session helper key
        victim = x.call('C_CreateObject', s=rw, tmpl=T(KT['generic'], CKA_LABEL=b'helper-victim', CKA_PRIVATE=False))['h']
        blob_aes = blob_rsa = None
        if cls in ('aes', 'aes256'):
            rr = x.call('C_WrapKey', s=rw, mech=x.M('CKM_AES_KEY_WRAP'), wkey=h, key=victim, buf=256); blob_aes = rr['out']['data'] if rr['rv'] == 0 else None
        if cls == 'rsa_priv':
            pub = x.call('C_CreateObject', s=rw, tmpl=T(KT['rsa_pub'], CKA_LABEL=b'helper-rsapub', CKA_PRIVATE=False))['h']
            rr = x.call('C_WrapKey', s=rw, mech=x.M('CKM_RSA_PKCS'), wkey=pub, key=victim, buf=512); blob_rsa = rr['out']['data'] if rr['rv'] == 0 else None
        # ---- transition to the target state
        if state == 'RO_USER': s = ro
        elif state == 'RW_USER': s = rw
        elif state == 'RW_PUBLIC': assert x.call('C_Logout', s=rw)['rv'] == 0; s = rw
        elif state == 'RO_PUBLIC': assert x.call('C_Logout', s=rw)['rv'] == 0; s = ro
        else: assert x.call('C_Logout', s=rw)['rv'] == 0; assert x.call('C_Login', s=rw, user=0, pin=SO.hex())['rv'] == 0; s = rw
        info = x.call('C_GetSessionInfo', s=s); want_state = {'RO_PUBLIC': 0, 'RO_USER': 1, 'RW_PUBLIC': 2, 'RW_USER': 3, 'RW_SO': 4}[state]
        if info.get('state') != want_state: part.inconc(f'could not reach {state}: {info}'); x.close(); return part
        user_in = state.endswith('USER'); is_rw = state.startswith('RW')
        can_read = (not private) or user_in
        def can_write(tok, priv): return (not priv or user_in) and (not tok or is_rw)
        obj_exists = not (private and not on_token and not user_in)      # a private session object is destroyed by the logout
        results = []; created_tags = {}
        # handle guessing: whatever number is tried, a session that may not read private objects must not get the object's tag back
        if not can_read:
            for hn in list(range(1, h + 12)) + [h + 1000, 2 ** 32 - 1, 2 ** 64 - 1]:
                rg = x.call('C_GetAttributeValue', s=s, o=hn, tmpl=[{'t': ck.CKA_LABEL, 'buf': 64}]); eg = (rg.get('tmpl') or [{}])[0]
                if rg['rv'] == 0 and bytes.fromhex(eg.get('data', '')) == tag:
                    part.violation(f'C_GetAttributeValue|role=guessed-handle|{kname(kind)}|{state}|read', 'a private object was read through a guessed handle number without user login', {'state': state, 'cls': cls, 'handle': hn, 'backend': job['backend']})
            part.case((state, kname(kind), cls, 'guessed-handles'))
        def judge(role, allowed, r, outs=(), new_tag=None, new_kind=None):
            """allowed False: must fail, write nothing, create nothing.  allowed True: positive control."""
            ok = r['rv'] == 0; wrote = any(o and o.get('changed', 0) for o in outs)
            results.append((role, allowed, ok))
            key = (state, kname(kind), cls, role) if job.get('origin', 'created') == 'created' else (state, kname(kind), cls, role, job['origin'])
            if not allowed:
                if ok or wrote:
                    part.violation(f'{r.get("fn", role)}|role={role}|{kname(kind)}|{state}|{"succeeded" if ok else "wrote-output"}', f'{role} on a {kname(kind)} {cls} object in state {state} must fail and yield nothing', {'state': state, 'kind': kname(kind), 'cls': cls, 'role': role, 'rv': r['rvname'], 'backend': job['backend'], 'trace': x.trace_path})
                part.case(key, nontrivial=True, sample={'state': state, 'kind': kname(kind), 'cls': cls, 'role': role, 'expect': 'refused', 'rv': r['rvname']})
            else:
                part.case(key, nontrivial=ok)
                if not ok: part.observe('positive control failed', f'{role}|{cls}|{kname(kind)}|{state}|{r["rvname"]}')
            if new_tag is not None: created_tags[new_tag] = (allowed, ok, role, new_kind)
        def call(fn, **kw): r = x.call(fn, **kw); r['fn'] = fn; return r
        n = [0]
        def newtag(): n[0] += 1; return b'NEW-%02d' % n[0]
        isdata = cls in ('data',); iskey = cls not in ('data', 'cert', 'dsa_params', 'dh_params')
        # ---- roles on the existing object (through a handle that may be stale in this state)
        r = call('C_FindObjectsInit', s=s, tmpl=x.T({'CKA_LABEL': tag})); got = []
        if r['rv'] == 0: got = call('C_FindObjects', s=s, max=8).get('objs', []); call('C_FindObjectsFinal', s=s)
        found = len(got) > 0
        if not can_read and found: part.violation(f'C_FindObjects|role=find|{kname(kind)}|{state}|handle-returned', 'a private object was found without user login', {'state': state, 'kind': kname(kind), 'cls': cls, 'backend': job['backend']})
        if can_read and obj_exists and not found: part.observe('positive control failed', f'find|{cls}|{kname(kind)}|{state}')
        part.case((state, kname(kind), cls, 'find'), nontrivial=(found if can_read else True))
        r = call('C_GetAttributeValue', s=s, o=h, tmpl=[{'t': ck.CKA_LABEL, 'buf': 64}, {'t': ck.CKA_CLASS, 'buf': 8}]); judge('get-attribute', can_read and obj_exists, r, r.get('tmpl', []))
        r = call('C_GetObjectSize', s=s, o=h); judge('get-size', can_read and obj_exists, r)
        setat = {'CKA_LABEL': tag} if cls in ('data', 'dsa_params', 'dh_params') else {'CKA_ID': b'\x07\x07'}
        r = call('C_SetAttributeValue', s=s, o=h, tmpl=x.T(setat)); judge('set-attribute', can_write(on_token, private) and obj_exists, r)
        t = newtag(); r = call('C_CopyObject', s=s, o=h, tmpl=x.T({'CKA_LABEL': t})); judge('copy-source', can_read and can_write(on_token, private) and obj_exists, r, new_tag=t, new_kind=kind)
        t = newtag(); r = call('C_CopyObject', s=s, o=h, tmpl=x.T({'CKA_LABEL': t, 'CKA_TOKEN': True})); judge('copy-to-token', can_read and can_write(True, private) and obj_exists, r, new_tag=t, new_kind=(True, private))
        t = newtag(); r = call('C_CopyObject', s=s, o=h, tmpl=x.T({'CKA_LABEL': t, 'CKA_PRIVATE': True})); judge('copy-to-private', can_read and can_write(on_token, True) and obj_exists, r, new_tag=t, new_kind=(on_token, True))
        if iskey:
            A = KT[cls]; use_ok = can_read and obj_exists
            mech_enc = {'aes': x.M('CKM_AES_ECB'), 'aes256': x.M('CKM_AES_ECB'), 'des3': x.M('CKM_DES3_ECB'), 'des2': x.M('CKM_DES3_ECB'), 'rsa_pub': x.M('CKM_RSA_PKCS'), 'rsa_priv': x.M('CKM_RSA_PKCS')}.get(cls)
            mech_sig = {'aes': x.M('CKM_AES_CMAC'), 'aes256': x.M('CKM_AES_CMAC'), 'des3': x.M('CKM_DES3_CMAC'), 'des2': x.M('CKM_DES3_CMAC'), 'generic': x.M('CKM_SHA256_HMAC'), 'rsa_pub': x.M('CKM_RSA_PKCS'), 'rsa_priv': x.M('CKM_RSA_PKCS'),
                        'ec_pub': x.M('CKM_ECDSA'), 'ec_priv': x.M('CKM_ECDSA'), 'ed_pub': x.M('CKM_EDDSA'), 'ed_priv': x.M('CKM_EDDSA'), 'dsa_pub': x.M('CKM_DSA'), 'dsa_priv': x.M('CKM_DSA')}.get(cls)
            for role, fn, flag, mech in (('encrypt-init', 'C_EncryptInit', 'CKA_ENCRYPT', mech_enc), ('decrypt-init', 'C_DecryptInit', 'CKA_DECRYPT', mech_enc), ('sign-init', 'C_SignInit', 'CKA_SIGN', mech_sig), ('verify-init', 'C_VerifyInit', 'CKA_VERIFY', mech_sig)):
                if mech is None or not A.get(flag): continue
                r = call(fn, s=s, key=h, mech=mech); judge(role, use_ok, r)
                if r['rv'] == 0:   # finish the operation so the session is free again
                    x.call('C_CloseSession', s=s) if False else None
                    fin = {'C_EncryptInit': ('C_Encrypt', dict(data=(b'\0' * 16).hex(), buf=512)), 'C_DecryptInit': ('C_Decrypt', dict(data=(b'\0' * (128 if cls.startswith('rsa') else 16)).hex(), buf=512)),
                           'C_SignInit': ('C_Sign', dict(data=(b'\1' * 20).hex(), buf=512)), 'C_VerifyInit': ('C_Verify', dict(data=(b'\1' * 20).hex(), sig=(b'\2' * 64).hex()))}[fn]
                    x.call(fin[0], s=s, **fin[1])
            if A['CKA_CLASS'] == ck.CKO_SECRET_KEY:
                r = call('C_DigestInit', s=s, mech=x.M('CKM_SHA256'))
                if r['rv'] == 0:
                    r = call('C_DigestKey', s=s, key=h); judge('digest-key', use_ok, r); x.call('C_DigestFinal', s=s, buf=64)
                # as the key being wrapped (under a public helper key)
                r = call('C_WrapKey', s=s, mech=x.M('CKM_AES_KEY_WRAP_PAD'), wkey=hp, key=h, buf=256); judge('wrap-as-wrapped', use_ok, r, [r.get('out')])
                # as the second key of CONCATENATE_BASE_AND_KEY
                t = newtag(); r = call('C_DeriveKey', s=s, mech=x.M('CKM_CONCATENATE_BASE_AND_KEY', hkey=h), key=victim, tmpl=T({'CKA_CLASS': ck.CKO_SECRET_KEY, 'CKA_KEY_TYPE': ck.CKK_GENERIC_SECRET, 'CKA_LABEL': t, 'CKA_PRIVATE': private and user_in, 'CKA_SENSITIVE': False, 'CKA_EXTRACTABLE': True}))
                judge('derive-second-key', use_ok, r, new_tag=t, new_kind=(False, private and user_in))
            if cls in ('aes', 'aes256'):
                r = call('C_WrapKey', s=s, mech=x.M('CKM_AES_KEY_WRAP'), wkey=h, key=victim, buf=256); judge('wrap-as-wrapping-key', use_ok, r, [r.get('out')])
                if blob_aes:
                    t = newtag(); r = call('C_UnwrapKey', s=s, mech=x.M('CKM_AES_KEY_WRAP'), ukey=h, wrapped=blob_aes, tmpl=T({'CKA_CLASS': ck.CKO_SECRET_KEY, 'CKA_KEY_TYPE': ck.CKK_GENERIC_SECRET, 'CKA_LABEL': t, 'CKA_PRIVATE': False, 'CKA_SENSITIVE': False, 'CKA_EXTRACTABLE': True}))
                    judge('unwrap-as-unwrapping-key', use_ok, r, new_tag=t, new_kind=(False, False))
                t = newtag(); r = call('C_DeriveKey', s=s, mech=x.M('CKM_AES_ECB_ENCRYPT_DATA', kdstr=(b'\x11' * 16).hex()), key=h, tmpl=T({'CKA_CLASS': ck.CKO_SECRET_KEY, 'CKA_KEY_TYPE': ck.CKK_AES, 'CKA_VALUE_LEN': 16, 'CKA_LABEL': t, 'CKA_PRIVATE': False, 'CKA_SENSITIVE': False, 'CKA_EXTRACTABLE': True}))
                judge('derive-base-key', use_ok, r, new_tag=t, new_kind=(False, False))
            if cls == 'rsa_pub':
                r = call('C_WrapKey', s=s, mech=x.M('CKM_RSA_PKCS'), wkey=h, key=victim, buf=512); judge('wrap-as-wrapping-key', use_ok, r, [r.get('out')])
            if cls == 'rsa_priv' and blob_rsa:
                t = newtag(); r = call('C_UnwrapKey', s=s, mech=x.M('CKM_RSA_PKCS'), ukey=h, wrapped=blob_rsa, tmpl=T({'CKA_CLASS': ck.CKO_SECRET_KEY, 'CKA_KEY_TYPE': ck.CKK_GENERIC_SECRET, 'CKA_LABEL': t, 'CKA_PRIVATE': False, 'CKA_SENSITIVE': False, 'CKA_EXTRACTABLE': True}))
                judge('unwrap-as-unwrapping-key', use_ok, r, new_tag=t, new_kind=(False, False))
            if cls == 'ec_priv':
                t = newtag(); r = call('C_DeriveKey', s=s, mech=x.M('CKM_ECDH1_DERIVE', ecdh1={'kdf': ck.CKD_NULL, 'public': keymat.K['ec_p256']['q']}), key=h, tmpl=T({'CKA_CLASS': ck.CKO_SECRET_KEY, 'CKA_KEY_TYPE': ck.CKK_GENERIC_SECRET, 'CKA_LABEL': t, 'CKA_PRIVATE': False, 'CKA_SENSITIVE': False, 'CKA_EXTRACTABLE': True}))
                judge('derive-base-key', use_ok, r, new_tag=t, new_kind=(False, False))
            if cls == 'dh_priv':
                t = newtag(); r = call('C_DeriveKey', s=s, mech=x.M('CKM_DH_PKCS_DERIVE', hex=keymat.K['dh']['y']), key=h, tmpl=T({'CKA_CLASS': ck.CKO_SECRET_KEY, 'CKA_KEY_TYPE': ck.CKK_GENERIC_SECRET, 'CKA_LABEL': t, 'CKA_PRIVATE': False, 'CKA_SENSITIVE': False, 'CKA_EXTRACTABLE': True}))
                judge('derive-base-key', use_ok, r, new_tag=t, new_kind=(False, False))
        # ---- roles that create an object of this kind in this state
        t = newtag(); r = call('C_CreateObject', s=s, tmpl=T(KT[cls], CKA_TOKEN=on_token, CKA_PRIVATE=private, CKA_LABEL=t)); judge('create', can_write(on_token, private), r, new_tag=t, new_kind=kind)
        # the order of the entries of a template carries no meaning: the same creation with the placement attributes first, last and reversed
        for oname in ('private-token-first', 'class-last', 'reversed'):
            t = newtag(); a = dict(KT[cls], CKA_TOKEN=on_token, CKA_PRIVATE=private, CKA_LABEL=t); items = list(a.items())
            if oname == 'private-token-first': items.sort(key=lambda kv: 0 if kv[0] == 'CKA_PRIVATE' else 1 if kv[0] == 'CKA_TOKEN' else 2)
            elif oname == 'class-last': items.sort(key=lambda kv: 2 if kv[0] == 'CKA_CLASS' else 1 if kv[0] in ('CKA_KEY_TYPE', 'CKA_CERTIFICATE_TYPE') else 0)
            else: items.reverse()
            r = call('C_CreateObject', s=s, tmpl=x.T(items)); judge(f'create(template order: {oname})', can_write(on_token, private), r, new_tag=t, new_kind=kind)
        if cls == 'aes':
            t = newtag(); r = call('C_GenerateKey', s=s, mech=x.M('CKM_AES_KEY_GEN'), tmpl=x.T({'CKA_VALUE_LEN': 16, 'CKA_TOKEN': on_token, 'CKA_PRIVATE': private, 'CKA_LABEL': t})); judge('generate-key', can_write(on_token, private), r, new_tag=t, new_kind=kind)
            if blob_aes or True:
                # unwrap / derive results of this kind, through PUBLIC helper keys (so only the result's kind decides)
                rr = x.call('C_WrapKey', s=s, mech=x.M('CKM_AES_KEY_WRAP'), wkey=hp, key=victim, buf=256)
                if rr['rv'] == 0:
                    t = newtag(); r = call('C_UnwrapKey', s=s, mech=x.M('CKM_AES_KEY_WRAP'), ukey=hp, wrapped=rr['out']['data'], tmpl=T({'CKA_CLASS': ck.CKO_SECRET_KEY, 'CKA_KEY_TYPE': ck.CKK_GENERIC_SECRET, 'CKA_LABEL': t, 'CKA_TOKEN': on_token, 'CKA_PRIVATE': private, 'CKA_SENSITIVE': False, 'CKA_EXTRACTABLE': True}))
                    judge('unwrap-result', can_write(on_token, private), r, new_tag=t, new_kind=kind)
                t = newtag(); r = call('C_DeriveKey', s=s, mech=x.M('CKM_AES_ECB_ENCRYPT_DATA', kdstr=(b'\x22' * 16).hex()), key=hp, tmpl=T({'CKA_CLASS': ck.CKO_SECRET_KEY, 'CKA_KEY_TYPE': ck.CKK_AES, 'CKA_VALUE_LEN': 16, 'CKA_LABEL': t, 'CKA_TOKEN': on_token, 'CKA_PRIVATE': private, 'CKA_SENSITIVE': False, 'CKA_EXTRACTABLE': True}))
                judge('derive-result', can_write(on_token, private), r, new_tag=t, new_kind=kind)
        if cls == 'ec_priv':
            t = newtag(); r = call('C_GenerateKeyPair', s=s, mech=x.M('CKM_EC_KEY_PAIR_GEN'), pub=x.T({'CKA_EC_PARAMS': keymat.OID['p256'], 'CKA_LABEL': t + b'-pub', 'CKA_TOKEN': on_token, 'CKA_PRIVATE': False}), priv=x.T({'CKA_LABEL': t, 'CKA_TOKEN': on_token, 'CKA_PRIVATE': private}))
            judge('generate-pair(private half)', can_write(on_token, private) and can_write(on_token, False), r, new_tag=t, new_kind=kind)
        if cls == 'ec_priv' and not private:      # the two halves of a pair placed differently: each half's CKA_TOKEN / CKA_PRIVATE decides on its own
            for (ptok, ppriv, stok, spriv) in ((True, False, False, False), (False, False, True, False), (True, False, False, True), (False, False, False, True)):
                t = newtag(); r = call('C_GenerateKeyPair', s=s, mech=x.M('CKM_EC_KEY_PAIR_GEN'), pub=x.T({'CKA_EC_PARAMS': keymat.OID['p256'], 'CKA_LABEL': t + b'-pub', 'CKA_TOKEN': ptok, 'CKA_PRIVATE': ppriv}), priv=x.T({'CKA_LABEL': t, 'CKA_TOKEN': stok, 'CKA_PRIVATE': spriv}))
                allowed = can_write(ptok, ppriv) and can_write(stok, spriv)
                judge(f'generate-pair(pub={"token" if ptok else "session"},priv={"token" if stok else "session"}{",private" if spriv else ""})', allowed, r, new_tag=t, new_kind=(stok, spriv))
                created_tags[t + b'-pub'] = (allowed, r['rv'] == 0, 'generate-pair(public half of a mixed pair)', (ptok, ppriv))
        if cls == 'ec_pub':
            t = newtag(); r = call('C_GenerateKeyPair', s=s, mech=x.M('CKM_EC_KEY_PAIR_GEN'), pub=x.T({'CKA_EC_PARAMS': keymat.OID['p256'], 'CKA_LABEL': t, 'CKA_TOKEN': on_token, 'CKA_PRIVATE': private}), priv=x.T({'CKA_LABEL': t + b'-priv', 'CKA_TOKEN': False, 'CKA_PRIVATE': False}))
            judge('generate-pair(public half)', can_write(on_token, private), r, new_tag=t, new_kind=kind)
        # ---- creation with non-canonical CK_BBOOL bytes: whatever the call answers, no PRIVATE object may exist afterwards unless the user is logged in,
        #      and no TOKEN object unless the session is read-write (judged below, with the user's eyes)
        odd_tags = {}
        if cls in ('data', 'aes', 'rsa_pub'):
            for bv in (0x02, 0x80, 0xFF):
                for attr_name in ('CKA_PRIVATE', 'CKA_TOKEN'):
                    tg = newtag(); a = dict(KT[cls], CKA_LABEL=tg, CKA_TOKEN=False, CKA_PRIVATE=False); a[attr_name] = {'bool': bv}
                    r = call('C_CreateObject', s=s, tmpl=x.T(a)); odd_tags[tg] = (attr_name, bv, r['rv'] == 0)
                    part.case((state, cls, 'create-noncanonical-bool', attr_name, bv))
        # ---- destroy, last
        r = call('C_DestroyObject', s=s, o=h); destroy_allowed = can_write(on_token, private) and obj_exists; judge('destroy', destroy_allowed, r); destroyed = r['rv'] == 0
        # ---- effects, seen by the logged-in user again
        if state == 'RW_SO' or not user_in: x.call('C_Logout', s=rw)
        if not user_in: assert x.call('C_Login', s=rw, user=1, pin=USER.hex())['rv'] == 0
        rvn, hs = x.findall(rw, {})
        labels = {}
        for oh in hs:
            l = x.getattrs(rw, oh, ['CKA_LABEL'])[1].get('CKA_LABEL'); labels.setdefault(l, []).append(oh)
        for t, (allowed, ok, role, nk) in created_tags.items():
            present = t in labels
            if present and (not allowed or not ok):
                part.violation(f'effect|role={role}|{kname(kind)}|{state}|object-exists-after-{"refusal" if not allowed else "error"}', 'an object exists although the creating call was refused', {'state': state, 'cls': cls, 'role': role, 'backend': job['backend']})
        for tg, (attr_name, bv, okc) in odd_tags.items():
            if tg not in labels: continue
            vals = x.getattrs(rw, labels[tg][0], ['CKA_PRIVATE', 'CKA_TOKEN'])[1]
            is_priv = vals.get('CKA_PRIVATE') not in (b'\x00', None); is_tok = vals.get('CKA_TOKEN') not in (b'\x00', None)
            if is_priv and not user_in: part.violation(f'C_CreateObject|role=create,{attr_name}=noncanonical-bool|{state}|private-object-created', 'a template with a non-canonical CK_BBOOL created an object that IS private in a session without user login', {'state': state, 'cls': cls, 'byte': bv, 'backend': job['backend']})
            if is_tok and not is_rw: part.violation(f'C_CreateObject|role=create,{attr_name}=noncanonical-bool|{state}|token-object-created', 'a template with a non-canonical CK_BBOOL created a token object through a read-only session', {'state': state, 'cls': cls, 'byte': bv, 'backend': job['backend']})
        if obj_exists and not destroyed:
            if tag not in labels: part.violation(f'effect|{kname(kind)}|{state}|object-gone', 'the object disappeared although every forbidden call was refused', {'state': state, 'cls': cls, 'backend': job['backend']})
            elif not can_write(on_token, private):
                snap1 = x.getattrs(rw, labels[tag][0], readable)[1]
                if snap1 != snap0: part.violation(f'effect|{kname(kind)}|{state}|attributes-changed', 'attributes of the object changed in a state that may not modify it', {'state': state, 'cls': cls, 'before': {k: (v.hex() if v else v) for k, v in snap0.items()}, 'after': {k: (v.hex() if v else v) for k, v in snap1.items()}, 'backend': job['backend']})
        if destroyed and not destroy_allowed and tag in labels: pass
        x.call('C_Finalize'); x.close()
    except Died as e:
        part.observe('side:C17 library terminated the host', {'kind': e.kind(), 'fn': e.fn, 'where': e.where(), 'cell': (state, kname(kind), cls)}); part.inconc(f'executor died ({e.kind()} in {e.fn}) cell={state},{kname(kind)},{cls}')
    except Hang: part.inconc(f'hang in cell {state},{kname(kind)},{cls}'); x.kill()
    except AssertionError as e: part.inconc(f'setup failed in cell {state},{kname(kind)},{cls}: {e!r}'); x.kill()
    part.count('cells_jobs', 1)
    shutil.rmtree(d, ignore_errors=True)
    return part

def two_process_scenarios(ctx, backend):
    """A second process that never logs in keeps looking at the token while the user, in another process, replaces the newest PUBLIC object by a PRIVATE one:
    whatever the store recycles (ids, files, cached attributes), the public process must get neither a handle to the private object nor its attributes, and cannot destroy it."""
    ck = ctx.ck; d = ctx.dir('c01-2p-' + backend); W = O = None
    try:
        W = ctx.new_exec('asan', d, backend); assert W.call('C_Initialize', locking='os')['rv'] == 0
        slot = W.call('C_GetSlotList', count=8)['slots'][-1]; assert W.call('C_InitToken', slot=slot, pin=SO.hex(), label=b'c01two'.hex())['rv'] == 0
        sw = W.call('C_OpenSession', slot=slot)['h']; assert W.call('C_Login', s=sw, user=0, pin=SO.hex())['rv'] == 0 and W.call('C_InitPIN', s=sw, pin=USER.hex())['rv'] == 0 and W.call('C_Logout', s=sw)['rv'] == 0
        assert W.call('C_Login', s=sw, user=1, pin=USER.hex())['rv'] == 0
        O = ctx.new_exec('asan', d, backend, reuse_dir=True); assert O.call('C_Initialize', locking='os')['rv'] == 0
        oslot = [sl for sl in O.call('C_GetSlotList', count=8)['slots'] if O.call('C_GetTokenInfo', slot=sl)['flags'] & ck.CKF_TOKEN_INITIALIZED][0]
        so = O.call('C_OpenSession', slot=oslot)['h']          # RW public session, never logs in
        keep = W.call('C_CreateObject', s=sw, tmpl=W.T({'CKA_CLASS': ck.CKO_DATA, 'CKA_TOKEN': True, 'CKA_PRIVATE': False, 'CKA_LABEL': b'keep-public', 'CKA_VALUE': b'k'})); assert keep['rv'] == 0
        for rnd_no in range(6):
            pub = W.call('C_CreateObject', s=sw, tmpl=W.T({'CKA_CLASS': ck.CKO_DATA, 'CKA_TOKEN': True, 'CKA_PRIVATE': False, 'CKA_LABEL': b'pub-%d' % rnd_no, 'CKA_VALUE': b'p' * 8})); assert pub['rv'] == 0
            for h in O.findall(so, {})[1]: O.getattrs(so, h, ['CKA_LABEL', 'CKA_PRIVATE', 'CKA_VALUE'])        # the observer looks at everything (and caches what it likes)
            assert W.call('C_DestroyObject', s=sw, o=pub['h'])['rv'] == 0
            tag = b'PRIVATE-%d-' % rnd_no + bytes(range(65, 81)); cls = [ck.CKO_DATA, ck.CKO_SECRET_KEY][rnd_no % 2]
            a = {'CKA_CLASS': cls, 'CKA_TOKEN': True, 'CKA_PRIVATE': True, 'CKA_LABEL': tag, 'CKA_VALUE': tag[::-1]}
            if cls == ck.CKO_SECRET_KEY: a.update(CKA_KEY_TYPE=ck.CKK_GENERIC_SECRET, CKA_SENSITIVE=False, CKA_EXTRACTABLE=True)
            prv = W.call('C_CreateObject', s=sw, tmpl=W.T(a)); assert prv['rv'] == 0
            rvn, hs = O.findall(so, {})
            for h in hs:
                rvn2, v = O.getattrs(so, h, ['CKA_LABEL', 'CKA_PRIVATE', 'CKA_VALUE', 'CKA_CLASS'])
                lab = v.get('CKA_LABEL')
                if lab == b'keep-public': continue
                # anything else the public process can see now must not be the user's private object: try what a curious process would try
                rd = O.call('C_DestroyObject', s=so, o=h)
                ctx.observe('public process found an unexpected object', {'label': lab and lab.decode('latin-1'), 'destroy': rd['rvname'], 'backend': backend}, cap=4)
                if lab == tag or v.get('CKA_VALUE') == tag[::-1]: ctx.violation(f'C_GetAttributeValue|two-processes,{backend}|public-session|private-object-attributes-read', 'a process that never logged in read attributes of a private object created by another process', {'backend': backend, 'round': rnd_no})
            back = W.findall(sw, {'CKA_LABEL': tag})[1]
            if len(back) != 1:
                ctx.violation(f'C_DestroyObject|two-processes,{backend}|public-session|private-object-destroyed-or-hidden', 'after a process that never logged in searched the token, the user\'s private object is gone', {'backend': backend, 'round': rnd_no, 'found': len(back)})
            elif len(hs) > 1: ctx.violation(f'C_FindObjects|two-processes,{backend}|public-session|handle-returned', 'a process that never logged in was given a handle while only one public object exists (a private object was found)', {'backend': backend, 'round': rnd_no, 'n': len(hs)})
            ctx.case(('two-process', backend, rnd_no), sample={'two_process_round': rnd_no, 'backend': backend, 'public_process_sees': len(hs)} if rnd_no == 0 else None)
        for x in (W, O): x.call('C_Finalize'); x.close()
        W = O = None
    except AssertionError as e: ctx.inconc(f'two-process scenario setup failed ({backend}): {e!r}')
    finally:
        for x in (W, O):
            if x is not None: x.kill()

W = {'open': 5, 'close': 2, 'closeall': 1, 'login': 5, 'logout': 4, 'create': 7, 'destroy': 3, 'setattr': 3, 'find': 4, 'copy': 3, 'getattr': 4}
def run(ctx):
    ctx.need('asan'); classes = ctx.q(CLASSES_Q, CLASSES_T); backends = ('file', 'db')
    jobs = [dict(paths=ctx.paths, hdr=ctx.paths['asan']['hdr'], cfg='asan', scratch=ctx.scratch, state=st, kind=k, cls=c, backend=b) for b in backends for st in STATES for k in KINDS for c in classes]
    jobs += [dict(paths=ctx.paths, hdr=ctx.paths['asan']['hdr'], cfg='asan', scratch=ctx.scratch, state=st, kind=k, cls=c, backend='file', origin='upgrade-copy') for st in STATES for k in KINDS if k[1] for c in classes if c in ('data', 'aes', 'generic', 'rsa_priv', 'ec_priv')]
    for part in pmap(cell_job, jobs, ctx.nproc): ctx.merge(part)
    ctx.extra['matrix'] = {'states': len(STATES), 'object_kinds': len(KINDS), 'classes': len(classes), 'backends': list(backends), 'exhaustive_over_listed_dimensions': not ctx.inconclusive}
    # positive-control rule: a refused cell is only as good as the same (kind, class, role) succeeding somewhere
    succeeded = set((k[1], k[2], k[3]) for k in ctx.distinct if isinstance(k, tuple) and len(k) == 4)
    for b in backends: two_process_scenarios(ctx, b)
    run_walks(ctx, {'C01'}, ctx.q(300, 5000), ctx.q(50, 60), weights=W, backends=backends)
    ctx.rule = ('matrix: 5 session states x {token,session} x {private,public} x object class x entry-point role (find, get-attribute, get-size, set-attribute, copy as source / to token / to private, destroy, create, '
                'generate key / pair halves, encrypt/decrypt/sign/verify init, digest-key, wrap as wrapping and as wrapped key, unwrap as unwrapping key and as result, derive as base key, second key and result); a forbidden cell must fail, leave every output '
                'buffer untouched and have no effect visible after the user logs in again; distinct = cells whose call was refused as required or whose positive control succeeded; plus random histories with handle probes after every call')
    ctx.assumptions += ['private objects can only be addressed through stale handles in non-user states (logout invalidates them), which is what the matrix exercises there', 'cross-token use of handles is outside the property']
if __name__ == '__main__': main('C01', run, min_evaluations=2000, min_distinct=300)
