#!/usr/bin/env python3
"""C03 - session and login state machine follows the PKCS#11 rules.
(1) The abstract state graph of the reference model (login state + user-PIN presence per token,
multiset of (token, RW) sessions, up to a session bound) is enumerated breadth-first; an edge tour
executes EVERY (state, symbol) edge on the real library, with C_GetSessionInfo of every session
ever issued compared with the model after every call.  (2) long random walks beyond the bound."""
import sys, os, collections; sys.path.insert(0, os.path.join(os.path.dirname(os.path.abspath(__file__)), '..', 'vlib'))
from harness import main, Part, pmap
from walkcheck import run_walks, make_new_exec
from walker import Walk
from p11client import Died, Hang

NTOK = 2
def symbols(bound, NTOK=2):
    classes = [(ti, rw) for ti in range(NTOK) for rw in (False, True)]
    S = [('open', ti, rw) for ti, rw in classes] + [('close', c) for c in classes] + [('closeall', ti) for ti in range(NTOK)]
    S += [('login', c, ut, right) for c in classes for ut in (0, 1, 2) for right in (True, False)]
    S += [('logout', c) for c in classes] + [('inittoken', ti, right) for ti in range(NTOK) for right in (True, False)]
    S += [('initpin', c) for c in classes] + [('setpin', c, right) for c in classes for right in (True, False)] + [('info', c) for c in classes]
    return S

def abs_next(st, sym, bound, NTOK=2):
    """second, purely abstract encoding of the rules of the statement: returns the next abstract state or None if the symbol is not applicable"""
    toks, sess = st; toks = list(toks); sess = list(sess); k = sym[0]
    def norm(): return (tuple(toks), tuple(sorted(sess)))
    if k == 'open':
        _, ti, rw = sym
        if len(sess) >= bound: return None
        if not (toks[ti][0] == 'S' and not rw): sess.append((ti, rw))
        return norm()
    if k == 'closeall':
        ti = sym[1]; sess = [x for x in sess if x[0] != ti]; toks[ti] = (None, toks[ti][1]); return norm()
    if k == 'inittoken':
        _, ti, right = sym
        if right and not any(x[0] == ti for x in sess): toks[ti] = (None, False)
        return norm()
    c = sym[1]
    if c not in sess: return None
    ti = c[0]; login, usr = toks[ti]
    if k == 'close':
        sess.remove(c)
        if not any(x[0] == ti for x in sess): toks[ti] = (None, usr)
    elif k == 'login':
        _, _, ut, right = sym
        if ut == 1 and not usr and right: return None          # there is no right PIN to present
        ok = ut in (0, 1) and login is None and right and not (ut == 0 and any(x[0] == ti and not x[1] for x in sess))
        if ok: toks[ti] = ('S' if ut == 0 else 'U', usr)
    elif k == 'logout': toks[ti] = (None, usr)
    elif k == 'initpin':
        if login == 'S': toks[ti] = (login, True)
    elif k == 'setpin':
        _, _, right = sym
        cur_exists = True if login == 'S' else usr
        if right and not cur_exists: return None
    return norm()

def enumerate_graph(bound, NTOK=2):
    init = (tuple((None, True) for _ in range(NTOK)), ()); S = symbols(bound, NTOK)
    graph = {}; dq = collections.deque([init]); graph[init] = {}
    while dq:
        st = dq.popleft()
        for sym in S:
            nx = abs_next(st, sym, bound, NTOK)
            if nx is None: continue
            graph[st][sym] = nx
            if nx not in graph: graph[nx] = {}; dq.append(nx)
    return init, graph

def exec_symbol(w, sym):
    k = sym[0]
    def sess_of(c):
        l = sorted((x for x in w.m.sess.values() if x.alive and (x.ti, x.rw) == c), key=lambda x: x.h)
        return l[w.rnd.randrange(len(l))]
    if k == 'open': w.op_open(sym[1], sym[2])
    elif k == 'closeall': w.op_closeall(sym[1])
    elif k == 'inittoken': w.op_inittoken(sym[1], sym[2], null_label=False)
    elif k == 'close': w.op_close(sess_of(sym[1]))
    elif k == 'login': w.op_login(sess_of(sym[1]), sym[2], sym[3])
    elif k == 'logout': w.op_logout(sess_of(sym[1]))
    elif k == 'initpin': w.op_initpin(sess_of(sym[1]), pin=b'user-pin-%d' % w.rnd.randrange(1000))
    elif k == 'setpin': w.op_setpin(sess_of(sym[1]), right=sym[2], new=b'new-pin-%d' % w.rnd.randrange(1000))
    elif k == 'info': w.mon_state(dead_sample=50)

def tour(job):
    """cover the edges assigned to this worker (edge index % nworkers == wid) with one continuous walk"""
    from ck import CK
    import shutil
    part = Part(); bound = job['bound']; NTOK = job.get('ntok', 2); init, graph = enumerate_graph(bound, NTOK)
    edges = sorted(((st, sym) for st in graph for sym in graph[st]), key=repr)
    mine = set(e for i, e in enumerate(edges) if i % job['nw'] == job['wid'])
    ck = CK(job['hdr']); d = os.path.join(job['scratch'], 'tour%d-%d' % (NTOK, job['wid'])); os.makedirs(d, exist_ok=True)
    w = None; done = 0; steps = 0
    try:
        w = Walk(job['paths'], ck, job['seed'], d, backend=job['backend'], cfg='asan', new_exec=make_new_exec(job['paths'], ck), ntok=NTOK, max_sessions=bound)
        cur = init
        while mine:
            # next symbol: an uncovered edge here, else first step of a shortest path to a state that has one
            here = [sym for sym in graph[cur] if (cur, sym) in mine]
            if here: sym = here[0]
            else:
                prev = {cur: None}; dq = collections.deque([cur]); target = None
                while dq and target is None:
                    x = dq.popleft()
                    for sy, nx in graph[x].items():
                        if nx not in prev:
                            prev[nx] = (x, sy); dq.append(nx)
                            if any((nx, s2) in mine for s2 in graph[nx]): target = nx; break
                if target is None: part.inconc('edge tour: uncovered edges unreachable from %r' % (cur,)); break
                x = target
                while prev[x][0] != cur: x = prev[x][0]
                sym = prev[x][1]
            exec_symbol(w, sym); w.stats['steps'] += 1; steps += 1
            w.mon_state(dead_sample=3)
            nxt = graph[cur][sym]; got = w.m.abstract()
            if w.findings: break
            if got != nxt:
                part.inconc(f'two encodings of the model disagree at {cur} --{sym}--> model {got} vs abstract {nxt}'); break
            if (cur, sym) in mine: mine.discard((cur, sym)); done += 1; part.distinct.add((NTOK, cur, sym))
            cur = nxt
    except Died as e:
        part.observe('side:C17 library terminated the host', {'kind': e.kind(), 'fn': e.fn, 'where': e.where()}); part.inconc(f'executor died ({e.kind()} in {e.fn}) in edge tour')
    except Hang: part.inconc('executor hang in edge tour')
    if w is not None:
        for f in w.findings:
            if f.prop == 'C03': part.violation(f.key, f.what, {'seed': job['seed'], 'info': f.info, 'mode': 'edge-tour', 'bound': bound})
            elif f.prop == 'MODEL': part.inconc(repr(f))
            else: part.observe(f'side:{f.prop} {f.key}', {'what': f.what})
        part.evaluations += steps + w.stats['probes']; part.count('tour_steps', steps); part.count('edges_executed', done); part.count('probes', w.stats['probes'])
        if job['wid'] == 0: part.samples.append({'edge_tour_head': [repr(h) for h in w.history[:20]]})
        w.close()
    part.count('edges_left', len(mine))
    shutil.rmtree(d, ignore_errors=True)
    return part

def reauth_scenarios(ctx, backend):
    """context-specific login (re-authentication for a CKA_ALWAYS_AUTHENTICATE key) never changes the login state of any session, with the right or a wrong PIN,
    pending or not, under the user or under the SO (a request left pending by a session survives C_Logout)"""
    import keymat
    ck = ctx.ck; SO, U = b'so-pin-re', b'user-pin-re'
    for variant in ('user', 'so', 'so-other-session', 'user-not-pending'):
        for right in (False, True):
            d = ctx.dir('reauth'); x = ctx.new_exec('asan', d, backend)
            try:
                assert x.call('C_Initialize', locking='os')['rv'] == 0; slot = x.call('C_GetSlotList', count=8)['slots'][-1]
                assert x.call('C_InitToken', slot=slot, pin=SO.hex(), label=b're'.hex())['rv'] == 0
                s1 = x.call('C_OpenSession', slot=slot)['h']; s2 = x.call('C_OpenSession', slot=slot)['h']
                assert x.call('C_Login', s=s1, user=0, pin=SO.hex())['rv'] == 0 and x.call('C_InitPIN', s=s1, pin=U.hex())['rv'] == 0 and x.call('C_Logout', s=s1)['rv'] == 0
                assert x.call('C_Login', s=s1, user=1, pin=U.hex())['rv'] == 0
                k = x.call('C_CreateObject', s=s1, tmpl=x.T(dict(keymat.key_templates(ck)['ec_priv'], CKA_PRIVATE=True, CKA_TOKEN=False, CKA_ALWAYS_AUTHENTICATE=True, CKA_LABEL=b'aa')))
                assert k['rv'] == 0, k
                if variant != 'user-not-pending': assert x.call('C_SignInit', s=s1, key=k['h'], mech=x.M('CKM_ECDSA'))['rv'] == 0
                want = 3
                if variant.startswith('so'):
                    assert x.call('C_Logout', s=s1)['rv'] == 0; assert x.call('C_Login', s=s1, user=0, pin=SO.hex())['rv'] == 0; want = 4
                target = s2 if variant == 'so-other-session' else s1
                cur = SO if variant.startswith('so') else U
                r = x.call('C_Login', s=target, user=2, pin=(cur if right else b'wrong-pin-xx').hex())
                for sx, nme in ((s1, 's1'), (s2, 's2')):
                    i = x.call('C_GetSessionInfo', s=sx)
                    if i['rv'] != 0 or i.get('state') != want:
                        ctx.violation(f'C_Login(CONTEXT_SPECIFIC)|{variant},{"right" if right else "wrong"}-pin|login-state-changed({want}->{i.get("state")})', 'a context-specific login changed the login state of a session', {'variant': variant, 'right_pin': right, 'rv': r['rvname'], 'session': nme, 'backend': backend})
                ctx.case(('reauth', variant, right, backend), sample={'scenario': 'context-specific login', 'variant': variant, 'right_pin': right, 'rv': r['rvname']} if right else None)
                x.call('C_Finalize')
            except AssertionError as e: ctx.inconc(f'reauth scenario setup failed: {e!r}')
            finally: x.close()

# ---------------------------------------------------------------- calls that fail because a file-system operation of the store failed
FAULT_SCEN = [   # (state, call): state = who is logged in + which two sessions exist; every call is made through s1
    ('public', 'login-user'), ('public', 'setpin'), ('public', 'open-rw'), ('public', 'close-s2'), ('public', 'closeall'), ('public', 'login-wrong'),
    ('public-rw', 'login-so'), ('public-rw', 'login-user'),
    ('user', 'logout'), ('user', 'setpin'), ('user', 'close-s2'), ('user', 'closeall'), ('user', 'open-ro'),
    ('so', 'logout'), ('so', 'setpin'), ('so', 'initpin'), ('so', 'close-s2'), ('so', 'closeall'), ('so', 'open-rw')]
def fault_job(job):
    """the same (state, call) once without a fault and then once per file-system operation of the call with that operation failing:
    a call that FAILS must leave every session and the login state as they were; a call that returns CKR_OK must leave them as the fault-free run did"""
    from ck import CK
    from p11client import Exec, mkconf
    from harness import SAN_ENV
    import shutil
    ck = CK(job['hdr']); part = Part(); state, call = job['scen']; be = job['backend']; SO, U = b'so-pin-f3', b'user-pin-f3'
    base = os.path.join(job['scratch'], f'c03f-{be}-{state}-{call}'); gold = base + '-gold'; d = base + '-run'
    for q in (gold, d): shutil.rmtree(q, ignore_errors=True)
    def start(dirp):
        conf = mkconf(dirp, be); x = Exec(job['paths']['asan']['exe'], job['paths']['asan']['lib'], conf, ck, env=dict(SAN_ENV), stderr=dirp + '/stderr.log'); return x
    def prepare(x):
        assert x.call('C_Initialize', locking='os')['rv'] == 0
        slot = [sl for sl in x.call('C_GetSlotList', count=8)['slots'] if x.call('C_GetTokenInfo', slot=sl)['flags'] & ck.CKF_TOKEN_INITIALIZED][0]
        s1 = x.call('C_OpenSession', slot=slot, flags=6)['h']; s2 = x.call('C_OpenSession', slot=slot, flags=6 if state in ('so', 'public-rw') else 4)['h']
        if state == 'user': assert x.call('C_Login', s=s1, user=1, pin=U.hex())['rv'] == 0
        if state == 'so': assert x.call('C_Login', s=s1, user=0, pin=SO.hex())['rv'] == 0
        return slot, s1, s2
    def victim(x, slot, s1, s2):
        if call == 'login-user': return x.call('C_Login', s=s1, user=1, pin=U.hex())
        if call == 'login-so': return x.call('C_Login', s=s1, user=0, pin=SO.hex())
        if call == 'login-wrong': return x.call('C_Login', s=s1, user=1, pin=b'wrong-pin-f3'.hex())
        if call == 'logout': return x.call('C_Logout', s=s1)
        if call == 'setpin': return x.call('C_SetPIN', s=s1, old=(SO if state == 'so' else U).hex(), new=b'new-pin-f3'.hex())
        if call == 'initpin': return x.call('C_InitPIN', s=s1, pin=b'init-pin-f3'.hex())
        if call == 'close-s2': return x.call('C_CloseSession', s=s2)
        if call == 'closeall': return x.call('C_CloseAllSessions', slot=slot)
        if call in ('open-rw', 'open-ro'): return x.call('C_OpenSession', slot=slot, flags=6 if call == 'open-rw' else 4)
    def look(x, hs):
        out = []
        for h in hs:
            i = x.call('C_GetSessionInfo', s=h); out.append((i['rvname'], i.get('state'), i.get('flags')) if i['rv'] == 0 else (i['rvname'],))
        return out
    x = None
    try:
        x = start(gold); assert x.call('C_Initialize', locking='os')['rv'] == 0; slot = x.call('C_GetSlotList', count=8)['slots'][-1]
        assert x.call('C_InitToken', slot=slot, pin=SO.hex(), label=b'c03f'.hex())['rv'] == 0
        s = x.call('C_OpenSession', slot=slot, flags=6)['h']; assert x.call('C_Login', s=s, user=0, pin=SO.hex())['rv'] == 0 and x.call('C_InitPIN', s=s, pin=U.hex())['rv'] == 0
        x.call('C_Finalize'); x.close(); x = None
        root = d + '/tokens'
        def fresh():
            shutil.rmtree(d, ignore_errors=True); shutil.copytree(gold, d); return start(d)
        # fault-free run: numbers the operations and records what success looks like
        x = fresh(); slot, s1, s2 = prepare(x); before = look(x, [s1, s2])
        x.call('fs', mode='count', root=root); r0 = victim(x, slot, s1, s2); N = x.call('fs', mode='status')['nops']; x.call('fs', mode='off')
        new = [r0['h']] if call.startswith('open') and r0['rv'] == 0 else []
        good = look(x, [s1, s2] + new); x.close(); x = None
        part.observe('fs operations of one call (fault-free run)', {'state': state, 'call': call, 'backend': be, 'n': N, 'rv': r0['rvname']})
        for k in range(1, min(N, job['maxops']) + 1):
            for errno in job['errnos']:
                x = fresh(); slot, s1, s2 = prepare(x); b4 = look(x, [s1, s2])
                x.call('fs', mode='fail', root=root, k=k, errno=errno)
                try: r = victim(x, slot, s1, s2)
                except Died as e:
                    part.observe('side:C17 library terminated the host under an FS fault', {'kind': e.kind(), 'fn': e.fn, 'call': call}); part.inconc(f'executor died under fault {call} k={k}'); x = None; continue
                st = x.call('fs', mode='status'); x.call('fs', mode='off'); kind = (st.get('last_kind') or st.get('kind') or '?')
                hs = [s1, s2] + ([r['h']] if call.startswith('open') and r['rv'] == 0 else [])
                now = look(x, hs)
                if r['rv'] != 0:
                    if now[:2] != b4:
                        part.violation(f'{call}|{state},fs-fault|failed-call-changed-sessions-or-login-state', 'a call that failed because a file-system operation failed changed the session or login state',
                                       {'state': state, 'call': call, 'backend': be, 'k': k, 'errno': errno, 'rv': r['rvname'], 'before': b4, 'after': now})
                    part.count('faulted_calls_failed')
                else:
                    if now != good and r0['rv'] == 0:
                        part.violation(f'{call}|{state},fs-fault|ok-call-left-unexpected-state', 'a call that returned CKR_OK under a file-system fault left other session states than the fault-free call',
                                       {'state': state, 'call': call, 'backend': be, 'k': k, 'errno': errno, 'fault_free': good, 'after': now})
                    part.count('faulted_calls_ok')
                part.count('faults_injected', 1 if st.get('injected') else 0)
                part.case(('fault', be, state, call, k, errno), nontrivial=bool(st.get('injected')), sample={'fault_case': [state, call, be, k, errno, r['rvname'], now]} if k == 1 and errno == job['errnos'][0] else None)
                x.close(); x = None
    except AssertionError as e: part.inconc(f'fault lane setup failed ({state},{call},{be}): {e!r}')
    except Died as e: part.observe('side:C17 library terminated the host', {'kind': e.kind(), 'fn': e.fn}); part.inconc(f'executor died in fault lane ({state},{call})')
    except Hang: part.inconc(f'hang in fault lane ({state},{call})')
    finally:
        if x is not None: x.kill()
        for q in (gold, d): shutil.rmtree(q, ignore_errors=True)
    return part

W = {'open': 6, 'close': 3, 'closeall': 1, 'login': 6, 'logout': 3, 'inittoken': 1, 'initpin': 2, 'setpin': 2, 'create': 1, 'find': 1, 'restart': 1}
def run(ctx):
    ctx.need('asan'); bound = ctx.q(4, 5)
    init, graph = enumerate_graph(bound); nedges = sum(len(v) for v in graph.values())
    nw = min(ctx.nproc, 16)
    jobs = [dict(paths=ctx.paths, hdr=ctx.paths['asan']['hdr'], seed=ctx.seed * 7919 + i, bound=bound, nw=nw, wid=i, scratch=ctx.scratch, backend='file' if (ctx.quick or i % 2 == 0) else 'db') for i in range(nw)]
    if not ctx.quick:       # thorough: a second graph with three tokens and up to three sessions
        init3, graph3 = enumerate_graph(3, 3); nedges += sum(len(v) for v in graph3.values()); ctx.extra['states_3_tokens'] = len(graph3)
        jobs += [dict(paths=ctx.paths, hdr=ctx.paths['asan']['hdr'], seed=ctx.seed * 7919 + 100 + i, bound=3, ntok=3, nw=nw, wid=i, scratch=ctx.scratch, backend='file' if i % 2 == 0 else 'db') for i in range(nw)]
    for part in pmap(tour, jobs, nw): ctx.merge(part)
    left = ctx.extra.get('edges_left', 0)
    ctx.extra.update(states=len(graph) + ctx.extra.get('states_3_tokens', 0), transitions=nedges, traces_validated_against_impl=ctx.extra.get('edges_executed', 0), exhaustive=(left == 0 and not ctx.inconclusive),
                     bound=f'<= {bound} sessions, {NTOK} tokens', checker_cmd='./check C03 --tier ' + ctx.tier)
    if left: ctx.inconc(f'{left} edges of the abstract graph were not executed')
    for b in ctx.q(('file',), ('file', 'db')): reauth_scenarios(ctx, b)
    fjobs = [dict(paths=ctx.paths, hdr=ctx.paths['asan']['hdr'], scratch=ctx.scratch, scen=sc, backend=b, maxops=ctx.q(40, 200), errnos=ctx.q((5,), (5, 28, 13))) for b in ctx.q(('file',), ('file', 'db')) for sc in FAULT_SCEN]
    for part in pmap(fault_job, fjobs, nw): ctx.merge(part)
    # random walks beyond the bound (up to 5 sessions, object operations and restarts mixed in)
    run_walks(ctx, {'C03'}, ctx.q(150, 2500), ctx.q(80, 200), weights=W, backends=ctx.q(('file',), ('file', 'db')), monitors=('state',))
    ctx.rule = ('exhaustive: every edge (abstract state, symbol) of the model graph is executed once on the real library by an edge tour (distinct = edges executed with model and library in that state); '
                'abstract state = ((login, user-PIN-set) per token, multiset of (token, RW) sessions); symbols = open/close/close-all/login(SO|USER|CTX, right|wrong)/logout/InitToken(right|wrong)/InitPIN/SetPIN(right|wrong)/GetSessionInfo; '
                'after every call C_GetSessionInfo of all live and a sample of dead sessions is compared with the model; plus random walks (steps and probes counted as evaluations); '
                'plus a fault lane: 19 (login state, call) pairs, each repeated with the k-th file-system operation of the call failing (every k): a failed call must leave all sessions as they were')
    ctx.assumptions += ['two tokens; the edge tour uses one concrete PIN history per abstract state (PIN values are exercised by C04)']
if __name__ == '__main__': main('C03', run, level='model_checking', min_evaluations=2000, min_distinct=200)
