#!/usr/bin/env python3
"""C16 - a crash at any point leaves the token usable and loses nothing committed.
Crash-point enumeration by FS interposition: for every writing call kind the FS operations of the
call are numbered in a dry run; the victim process is then killed (_exit) before / after every
operation, and after every flush additionally with the file cut back to 1 / half / len-1 bytes
(torn write); a fresh ASan process recovers and its snapshot is compared with the pre-call state S0
and the completed-call state S1."""
import sys, os, shutil, json; sys.path.insert(0, os.path.join(os.path.dirname(os.path.abspath(__file__)), '..', 'vlib'))
from harness import main, Part, pmap, SAN_ENV
from p11client import Exec, Died, Hang, mkconf
import keymat

SO0, U0, SO1, U1 = b'so-pin-zero', b'user-pin-zero', b'so-pin-one1', b'user-pin-one'
ATTRS = ['CKA_CLASS', 'CKA_TOKEN', 'CKA_PRIVATE', 'CKA_LABEL', 'CKA_ID', 'CKA_KEY_TYPE', 'CKA_VALUE', 'CKA_VALUE_LEN', 'CKA_APPLICATION', 'CKA_EC_PARAMS', 'CKA_EC_POINT', 'CKA_ENCRYPT', 'CKA_SIGN', 'CKA_DECRYPT', 'CKA_VERIFY', 'CKA_WRAP', 'CKA_UNWRAP',
         'CKA_SENSITIVE', 'CKA_EXTRACTABLE', 'CKA_MODIFIABLE', 'CKA_LOCAL', 'CKA_ALWAYS_SENSITIVE', 'CKA_NEVER_EXTRACTABLE', 'CKA_DERIVE', 'CKA_MODULUS', 'CKA_PUBLIC_EXPONENT', 'CKA_SUBJECT']
RANDOM_ATTRS = {'CKA_VALUE', 'CKA_EC_POINT', 'CKA_CHECK_VALUE', 'CKA_MODULUS'}     # differ between two runs of a generating call

def mk_exec(paths, ck, cfg, d, trace=False):
    n = len([f for f in os.listdir(d) if f.startswith('stderr')])
    return Exec(paths[cfg]['exe'], paths[cfg]['lib'], os.path.join(d, 'softhsm2.conf'), ck, env=dict(SAN_ENV), stderr=f'{d}/stderr{n}.log', trace=(f'{d}/trace{n}.jsonl' if trace else None))

def find1(x, s, label):
    rvn, hs = x.findall(s, {'CKA_LABEL': label}); return hs[0] if hs else 0

# ---- call kinds: pre(x, env) prepares the victim (sessions, login, handles); call(x, env) is the interrupted call.
# written: labels of objects the call writes; token_level: the call rewrites token.object (PINs / flags / label)
def pre_user(x, e):
    e['s'] = x.call('C_OpenSession', slot=e['slot'])['h']; assert x.call('C_Login', s=e['s'], user=1, pin=U0.hex())['rv'] == 0
def pre_so(x, e):
    e['s'] = x.call('C_OpenSession', slot=e['slot'])['h']; assert x.call('C_Login', s=e['s'], user=0, pin=SO0.hex())['rv'] == 0
def pre_pub(x, e): e['s'] = x.call('C_OpenSession', slot=e['slot'])['h']
def pre_none(x, e): pass
def KT(x): return keymat.key_templates(x.ck)
KINDS = {
 'C_Login(right-pin)':  dict(pre=pre_pub, call=lambda x, e: x.call('C_Login', s=e['s'], user=1, pin=U0.hex()), written=[], token_level='flags'),
 'C_Login(wrong-pin)':  dict(pre=pre_pub, call=lambda x, e: x.call('C_Login', s=e['s'], user=1, pin=b'not-the-pin'.hex()), written=[], token_level='flags', expect_fail=True),
 'C_SetPIN(user)':      dict(pre=pre_user, call=lambda x, e: x.call('C_SetPIN', s=e['s'], old=U0.hex(), new=U1.hex()), written=[], token_level='userpin'),
 'C_SetPIN(so)':        dict(pre=pre_so, call=lambda x, e: x.call('C_SetPIN', s=e['s'], old=SO0.hex(), new=SO1.hex()), written=[], token_level='sopin'),
 'C_InitPIN':           dict(pre=pre_so, call=lambda x, e: x.call('C_InitPIN', s=e['s'], pin=U1.hex()), written=[], token_level='userpin'),
 'C_InitPIN(first)':    dict(pre=lambda x, e: (x.call('C_InitToken', slot=e['slot'], pin=SO0.hex(), label=b'tokA'.hex()), pre_so(x, e)), call=lambda x, e: x.call('C_InitPIN', s=e['s'], pin=U1.hex()), written=[], token_level='userpin', s0_after_pre=True),
 'C_InitToken(re-init)': dict(pre=pre_none, call=lambda x, e: x.call('C_InitToken', slot=e['slot'], pin=SO0.hex(), label=b'tokA-new'.hex()), written='ALL', token_level='reinit'),
 'C_InitToken(fresh)':  dict(pre=pre_none, call=lambda x, e: x.call('C_InitToken', slot=e['free'], pin=SO1.hex(), label=b'tokB'.hex()), written=[], token_level='fresh'),
 'C_CreateObject(private-key)': dict(pre=pre_user, call=lambda x, e: x.call('C_CreateObject', s=e['s'], tmpl=x.T(dict(KT(x)['aes'], CKA_TOKEN=True, CKA_PRIVATE=True, CKA_LABEL=b'NEW', CKA_ID=b'\x09'))), written=['NEW']),
 'C_CreateObject(public-data)': dict(pre=pre_pub, call=lambda x, e: x.call('C_CreateObject', s=e['s'], tmpl=x.T(dict(KT(x)['data'], CKA_TOKEN=True, CKA_PRIVATE=False, CKA_LABEL=b'NEW'))), written=['NEW']),
 'C_GenerateKey':       dict(pre=pre_user, call=lambda x, e: x.call('C_GenerateKey', s=e['s'], mech=x.M('CKM_AES_KEY_GEN'), tmpl=x.T({'CKA_VALUE_LEN': 32, 'CKA_TOKEN': True, 'CKA_PRIVATE': True, 'CKA_LABEL': b'NEW', 'CKA_SENSITIVE': False, 'CKA_EXTRACTABLE': True})), written=['NEW'], generated=True),
 'C_GenerateKeyPair':   dict(pre=pre_user, call=lambda x, e: x.call('C_GenerateKeyPair', s=e['s'], mech=x.M('CKM_EC_KEY_PAIR_GEN'), pub=x.T({'CKA_EC_PARAMS': keymat.OID['p256'], 'CKA_TOKEN': True, 'CKA_LABEL': b'NEWpub'}), priv=x.T({'CKA_TOKEN': True, 'CKA_PRIVATE': True, 'CKA_LABEL': b'NEWpriv', 'CKA_SENSITIVE': False, 'CKA_EXTRACTABLE': True})), written=['NEWpub', 'NEWpriv'], generated=True),
 'C_SetAttributeValue': dict(pre=lambda x, e: (pre_user(x, e), e.__setitem__('o', find1(x, e['s'], b'K1'))), call=lambda x, e: x.call('C_SetAttributeValue', s=e['s'], o=e['o'], tmpl=x.T({'CKA_ID': b'changed-id'})), written=['K1']),
 'C_SetAttributeValue(multi)': dict(pre=lambda x, e: (pre_user(x, e), e.__setitem__('o', find1(x, e['s'], b'K1'))), call=lambda x, e: x.call('C_SetAttributeValue', s=e['s'], o=e['o'], tmpl=x.T({'CKA_ID': b'changed-id', 'CKA_ENCRYPT': False, 'CKA_DECRYPT': False, 'CKA_SIGN': False, 'CKA_VERIFY': False, 'CKA_WRAP': False, 'CKA_DERIVE': False})), written=['K1']),
 'C_SetAttributeValue(big-object)': dict(pre=lambda x, e: (pre_user(x, e), e.__setitem__('o', find1(x, e['s'], b'G1'))), call=lambda x, e: x.call('C_SetAttributeValue', s=e['s'], o=e['o'], tmpl=x.T({'CKA_ID': b'changed-big'})), written=['G1']),
 'C_CreateObject(big-object)': dict(pre=pre_user, call=lambda x, e: x.call('C_CreateObject', s=e['s'], tmpl=x.T(dict(KT(x)['generic'], CKA_VALUE=bytes((i * 11 + 5) % 253 for i in range(6000)), CKA_TOKEN=True, CKA_PRIVATE=True, CKA_LABEL=b'NEW', CKA_ID=b'\x0a'))), written=['NEW']),
 'C_CopyObject(big-object)': dict(pre=lambda x, e: (pre_user(x, e), e.__setitem__('o', find1(x, e['s'], b'G1'))), call=lambda x, e: x.call('C_CopyObject', s=e['s'], o=e['o'], tmpl=x.T({'CKA_LABEL': b'NEW'})), written=['NEW']),
 'C_CopyObject':        dict(pre=lambda x, e: (pre_user(x, e), e.__setitem__('o', find1(x, e['s'], b'K1'))), call=lambda x, e: x.call('C_CopyObject', s=e['s'], o=e['o'], tmpl=x.T({'CKA_LABEL': b'NEW'})), written=['NEW']),
 'C_DestroyObject':     dict(pre=lambda x, e: (pre_user(x, e), e.__setitem__('o', find1(x, e['s'], b'K1'))), call=lambda x, e: x.call('C_DestroyObject', s=e['s'], o=e['o']), written=['K1']),
 'C_UnwrapKey':         dict(pre=lambda x, e: (pre_user(x, e), e.__setitem__('o', find1(x, e['s'], b'K1')), e.__setitem__('blob', x.call('C_WrapKey', s=e['s'], mech=x.M('CKM_AES_KEY_WRAP'), wkey=e['o'], key=find1(x, e['s'], b'K2'), buf=128)['out']['data'])),
                             call=lambda x, e: x.call('C_UnwrapKey', s=e['s'], mech=x.M('CKM_AES_KEY_WRAP'), ukey=e['o'], wrapped=e['blob'], tmpl=x.T({'CKA_CLASS': x.ck.CKO_SECRET_KEY, 'CKA_KEY_TYPE': x.ck.CKK_AES, 'CKA_TOKEN': True, 'CKA_PRIVATE': True, 'CKA_LABEL': b'NEW', 'CKA_SENSITIVE': False, 'CKA_EXTRACTABLE': True})), written=['NEW']),
 'C_DeriveKey':         dict(pre=lambda x, e: (pre_user(x, e), e.__setitem__('o', find1(x, e['s'], b'K1'))), call=lambda x, e: x.call('C_DeriveKey', s=e['s'], mech=x.M('CKM_AES_ECB_ENCRYPT_DATA', kdstr=(b'\x33' * 16).hex()), key=e['o'],
                             tmpl=x.T({'CKA_CLASS': x.ck.CKO_SECRET_KEY, 'CKA_KEY_TYPE': x.ck.CKK_AES, 'CKA_VALUE_LEN': 16, 'CKA_TOKEN': True, 'CKA_PRIVATE': True, 'CKA_LABEL': b'NEW', 'CKA_SENSITIVE': False, 'CKA_EXTRACTABLE': True})), written=['NEW']),
 # calls that only READ: they must not touch the token directory at all -- if they do, every file-system operation of theirs is a crash point like any other (nothing may change: S0 = S1)
 'read-everything(user)': dict(pre=pre_user, call=lambda x, e: ([x.getattrs(e['s'], h, ATTRS, cap=80000) for h in x.findall(e['s'], {})[1]], [x.call('C_GetObjectSize', s=e['s'], o=h) for h in x.findall(e['s'], {})[1]], x.call('C_GetTokenInfo', slot=e['slot']))[-1], written=[]),
 'read-everything(public)': dict(pre=pre_pub, call=lambda x, e: ([x.getattrs(e['s'], h, ATTRS, cap=80000) for h in x.findall(e['s'], {})[1]], x.call('C_GetMechanismList', slot=e['slot'], count=200), x.call('C_GetTokenInfo', slot=e['slot']))[-1], written=[]),
}
QUICK_KINDS = ['C_Login(right-pin)', 'C_Login(wrong-pin)', 'C_SetPIN(user)', 'C_InitPIN', 'C_InitToken(re-init)', 'C_InitToken(fresh)', 'C_CreateObject(private-key)', 'C_SetAttributeValue', 'C_CopyObject', 'C_DestroyObject', 'C_GenerateKey']

def make_template(paths, ck, d, backend, big=False):
    """S0: token tokA (SO0/U0) with private AES keys K1, K2, public data D1 (optionally with a large value: multi-buffer flushes)"""
    mkconf(d, backend); x = mk_exec(paths, ck, 'plain', d)
    assert x.call('C_Initialize', locking='os')['rv'] == 0
    slot = x.call('C_GetSlotList', count=8)['slots'][-1]
    assert x.call('C_InitToken', slot=slot, pin=SO0.hex(), label=b'tokA'.hex())['rv'] == 0
    s = x.call('C_OpenSession', slot=slot)['h']
    assert x.call('C_Login', s=s, user=0, pin=SO0.hex())['rv'] == 0 and x.call('C_InitPIN', s=s, pin=U0.hex())['rv'] == 0 and x.call('C_Logout', s=s)['rv'] == 0
    assert x.call('C_Login', s=s, user=1, pin=U0.hex())['rv'] == 0
    T = keymat.key_templates(ck)
    assert x.call('C_CreateObject', s=s, tmpl=x.T(dict(T['aes'], CKA_TOKEN=True, CKA_PRIVATE=True, CKA_LABEL=b'K1', CKA_ID=b'id-one')))['rv'] == 0
    assert x.call('C_CreateObject', s=s, tmpl=x.T(dict(T['aes256'], CKA_TOKEN=True, CKA_PRIVATE=True, CKA_LABEL=b'K2', CKA_ID=b'id-two')))['rv'] == 0
    val = (b'public-data-' * (6000 if big else 3))
    assert x.call('C_CreateObject', s=s, tmpl=x.T(dict(T['data'], CKA_TOKEN=True, CKA_PRIVATE=False, CKA_LABEL=b'D1', CKA_VALUE=val)))['rv'] == 0
    assert x.call('C_CreateObject', s=s, tmpl=x.T(dict(T['ec_priv'], CKA_TOKEN=True, CKA_PRIVATE=True, CKA_LABEL=b'E1')))['rv'] == 0
    assert x.call('C_CreateObject', s=s, tmpl=x.T(dict(T['cert'], CKA_TOKEN=True, CKA_PRIVATE=False, CKA_LABEL=b'X1')))['rv'] == 0      # a public X.509 certificate (read by the read-only kinds)
    # an object whose file is larger than a stdio buffer: its flush is several write() calls, a crash inside it cuts the file in the middle of a value
    assert x.call('C_CreateObject', s=s, tmpl=x.T(dict(T['generic'], CKA_VALUE=bytes((i * 7 + 3) % 251 for i in range(6000)), CKA_TOKEN=True, CKA_PRIVATE=True, CKA_LABEL=b'G1', CKA_ID=b'id-big')))['rv'] == 0
    x.call('C_Finalize'); x.close()
    for f in os.listdir(d):
        if f.startswith(('stderr', 'trace')): os.unlink(os.path.join(d, f))

def probe(paths, ck, d, cfg='asan', usability=()):
    """recovery in a fresh process: returns a snapshot dict; raises Died / Hang"""
    x = mk_exec(paths, ck, cfg, d); x.timeout = 60; snap = {'tokens': {}}
    try:
        r = x.call('C_Initialize', locking='os'); snap['init'] = r['rvname']
        if r['rv'] != 0: return snap
        slots = x.call('C_GetSlotList', count=16); snap['slotlist'] = slots['rvname']
        for sl in slots.get('slots', []):
            ti = x.call('C_GetTokenInfo', slot=sl)
            if ti['rv'] != 0: snap['tokens']['?slot%d' % len(snap['tokens'])] = {'tokeninfo': ti['rvname']}; continue
            if not (ti['flags'] & ck.CKF_TOKEN_INITIALIZED): continue
            label = bytes.fromhex(ti['label']).rstrip(b' ').decode('latin-1'); t = {'tokeninfo': 'CKR_OK', 'flags': ti['flags'], 'user_pin_flag': bool(ti['flags'] & ck.CKF_USER_PIN_INITIALIZED), 'so': [], 'user': [], 'objects': {}}      # (the flags are read BEFORE the probe's own login attempts, which rewrite them)
            s = x.call('C_OpenSession', slot=sl)
            if s['rv'] != 0: t['open'] = s['rvname']; snap['tokens'][label] = t; continue
            s = s['h']
            t['so_rv'] = {}
            for name, pin in (('SO0', SO0), ('SO1', SO1)):
                q_ = x.call('C_Login', s=s, user=0, pin=pin.hex()); t['so_rv'][name] = q_['rvname']
                if q_['rv'] == 0: t['so'].append(name); x.call('C_Logout', s=s)
            for name, pin in (('U0', U0), ('U1', U1)):
                if x.call('C_Login', s=s, user=1, pin=pin.hex())['rv'] == 0: t['user'].append(name); x.call('C_Logout', s=s)
            if t['user']: x.call('C_Login', s=s, user=1, pin={'U0': U0, 'U1': U1}[t['user'][0]].hex())
            rvn, hs = x.findall(s, {}); t['find'] = rvn
            for h in hs:
                rvn, vals = x.getattrs(s, h, ATTRS, cap=80000)
                o = {k: (v.hex() if v is not None else None) for k, v in vals.items()}
                lab = (vals.get('CKA_LABEL') or b'?unlabelled').decode('latin-1')
                if vals.get('CKA_CLASS') == (4).to_bytes(8, 'little') and vals.get('CKA_KEY_TYPE') == ck.CKK_AES.to_bytes(8, 'little'):
                    r1 = x.call('C_EncryptInit', s=s, key=h, mech=x.M('CKM_AES_ECB'))
                    if r1['rv'] == 0: r2 = x.call('C_Encrypt', s=s, data=(b'\0' * 16).hex(), buf=16); o['use'] = r2['out'].get('data') if r2['rv'] == 0 else r2['rvname']
                    else: o['use'] = r1['rvname']
                while lab in t['objects']: lab += '#dup'
                t['objects'][lab] = o
            # usability: what is there can be removed again, and the token accepts new objects (a state that can only be reached by a crash must not be a trap)
            if t['user'] and usability and label in ('tokA', 'tokA-new'):
                u = {}
                for lab2, o2 in list(t['objects'].items()):
                    base = lab2.split('#')[0]
                    if base in usability:
                        rvn, hs2 = x.findall(s, {'CKA_LABEL': base.encode('latin-1')})
                        for h2 in hs2[:2]: u.setdefault('destroy:' + base, []).append(x.call('C_DestroyObject', s=s, o=h2)['rvname'])
                r3 = x.call('C_CreateObject', s=s, tmpl=x.T({'CKA_CLASS': ck.CKO_DATA, 'CKA_TOKEN': True, 'CKA_PRIVATE': False, 'CKA_LABEL': b'after-recovery', 'CKA_VALUE': b'z'}))
                u['create'] = r3['rvname']
                if r3['rv'] == 0: u['create-destroy'] = x.call('C_DestroyObject', s=s, o=r3['h'])['rvname']
                t['usability'] = u
            x.call('C_CloseSession', s=s); snap['tokens'][label] = t
        snap['finalize'] = x.call('C_Finalize')['rvname']
        return snap
    finally:
        if x.p.poll() is None: x.close()
        else: x.kill()

def run_victim(paths, ck, d, kind, arm):
    """returns ('died', note) | ('returned', reply) ; arm: None (dry run: returns FS trace) or dict(k, when, torn)"""
    K = KINDS[kind]; x = mk_exec(paths, ck, 'plain', d, trace=True); root = os.path.join(d, 'tokens')
    try:
        assert x.call('C_Initialize', locking='os')['rv'] == 0
        slots = x.call('C_GetSlotList', count=8)['slots']; e = {}
        for sl in slots:
            ti = x.call('C_GetTokenInfo', slot=sl)
            if ti['rv'] == 0 and (ti['flags'] & ck.CKF_TOKEN_INITIALIZED): e['slot'] = sl
            else: e['free'] = sl
        K['pre'](x, e)
        if arm == 'pre-only': x.call('C_Finalize'); return 'returned', (None, None)
        if arm is None: x.call('fs', mode='count', root=root)
        else: x.call('fs', mode='crash', root=root, k=arm['k'], when=arm['when'], torn=arm.get('torn', -1))
        try: r = K['call'](x, e)
        except Died as ex: return 'died', ex.note
        if arm is None:
            tr = x.call('fs', mode='trace'); x.call('fs', mode='off'); x.call('C_Finalize'); return 'returned', (r, tr['trace'])
        x.call('fs', mode='off'); return 'returned', (r, None)
    finally:
        if x.p.poll() is None: x.close()
        else: x.kill()

def role_of(path):
    b = os.path.basename(path)
    if b == 'token.object': return 'token.object'
    if b.endswith('.object'): return 'object-file'
    if b.endswith('.lock'): return 'lock-file'
    if b == 'generation': return 'generation-file'
    if b.startswith('sqlite3.db'): return 'db'
    return 'directory'

def strip_random(o):
    return {k: v for k, v in o.items() if k not in RANDOM_ATTRS and k != 'use'}

def judge(kind, S0, S1, R, part, cp, witness):
    """compare recovery snapshot R with S0 / S1.  Returns list of outcome classes (empty = fine)."""
    K = KINDS[kind]; out = []
    if R.get('init') != 'CKR_OK': return ['token-directory-unusable(C_Initialize=%s)' % R.get('init')]
    if R.get('finalize') != 'CKR_OK' or R.get('slotlist') != 'CKR_OK': out.append('recovery-call-failed')
    toks = R['tokens']; A0 = S0['tokens']['tokA']; tl = K.get('token_level')
    bad_slots = [k for k in toks if k.startswith('?slot')]
    if bad_slots: out.append('token-unusable(C_GetTokenInfo fails)')
    a_label = 'tokA' if 'tokA' in toks else ('tokA-new' if 'tokA-new' in toks else None)
    if a_label is None:
        if not bad_slots: out.append('token-lost')
        return out
    if a_label == 'tokA-new' and tl != 'reinit': out.append('label-changed')
    A = toks[a_label]; A1 = S1['tokens'].get('tokA') or S1['tokens'].get('tokA-new')
    if A.get('open') or A.get('find') not in ('CKR_OK',): out.append('token-unusable(session/find fails)')
    # PINs: old or new state, never nothing
    so_allowed = [A0['so'], A1['so']] if tl in ('sopin',) else [A0['so']]
    if A['so'] not in so_allowed: out.append('so-pin-lost' if not A['so'] else 'so-pin-wrong-state')
    usr_allowed = [A0['user'], A1['user']] if tl in ('userpin', 'reinit') else [A0['user']]
    if A['user'] not in usr_allowed: out.append('user-pin-lost' if not A['user'] else 'user-pin-wrong-state')
    # objects
    written = K['written']
    if A['user']:       # private objects are only visible with a user PIN
        names = set(A0['objects']) | set(A1['objects']) | set(A['objects'])
        for nme in sorted(names):
            o = A['objects'].get(nme); o0 = A0['objects'].get(nme); o1 = A1['objects'].get(nme)
            is_written = written == 'ALL' or nme in written
            if nme.endswith('#dup') or nme.startswith('?unlabelled'):
                out.append('object-returned-without-or-with-duplicate-label(half-written object returned as valid)'); continue
            if not is_written:
                if o != o0: out.append('untouched-object-' + ('lost' if o is None else 'changed'))
                continue
            ok = False
            for ref in (o0, o1):
                if o is None and ref is None: ok = True
                elif o is not None and ref is not None and (strip_random(o) == strip_random(ref) if K.get('generated') else o == ref): ok = True
            if K.get('generated') and o is not None and ok:      # a generated key must at least carry its value
                for va in ('CKA_VALUE', 'CKA_EC_POINT'):
                    if o1 is not None and o1.get(va) and not o.get(va): ok = False
            if not ok: out.append('written-object-' + ('lost' if o is None else 'neither-old-nor-new(half-written object returned as valid)'))
    elif A0['user'] and tl not in ('reinit',) and 'user-pin-lost' not in out: out.append('user-pin-lost')
    # CKF_USER_PIN_INITIALIZED must tell the truth about whether a user PIN logs in
    if A.get('user_pin_flag') is not None and bool(A['user']) != bool(A['user_pin_flag']) and 'user-pin-lost' not in out:
        out.append('user-pin-flag-disagrees-with-working-pin(flag=%s)' % A['user_pin_flag'])
    # the token flags (PIN-count-low / final-try / locked / PIN-initialised ...) as a new process reads them: the value before the call or the value after the completed call
    if A.get('flags') is not None and A1 is not None and A['flags'] not in (A0.get('flags'), A1.get('flags')) and tl != 'reinit' and not any(o.startswith(('user-pin-lost', 'so-pin-lost', 'user-pin-flag')) for o in out):
        diff = (A['flags'] ^ A0.get('flags', 0)); out.append('token-flags-neither-old-nor-new(bits 0x%x)' % diff)
    U = A.get('usability') or {}
    for k2, v in U.items():
        vals = v if isinstance(v, list) else [v]
        if any(x2 != 'CKR_OK' for x2 in vals):
            out.append('after-recovery-' + (k2.split(':')[0] if ':' in k2 else k2) + '-fails')
    if tl == 'fresh':
        B = toks.get('tokB')
        if B is not None and (B.get('so') != ['SO1'] or B.get('open') or B.get('find') != 'CKR_OK'): out.append('new-token-half-initialised')
        # worse than half-initialised: the new token is there, and the SO is LOCKED OUT of it (no PIN can ever be tried again, the token cannot be given a user PIN)
        if B is not None and (B.get('so_rv') or {}).get('SO1') in ('CKR_PIN_LOCKED', 'CKR_PIN_EXPIRED'): out.append('new-token-so-locked-out(%s)' % B['so_rv']['SO1'])
    extra = [k for k in toks if k not in ('tokA', 'tokA-new', 'tokB') and not k.startswith('?slot')]
    if extra: out.append('unexpected-token')
    return sorted(set(out))

def shrink(x):
    if isinstance(x, dict): return {k: shrink(v) for k, v in x.items()}
    if isinstance(x, list): return [shrink(v) for v in x]
    if isinstance(x, str) and len(x) > 200: return x[:60] + '...(%d chars)' % len(x)
    return x

def crash_job(job):
    from ck import CK
    ck = CK(job['hdr']); part = Part(); kind = job['kind']; arm = job['arm']; backend = job['backend']
    d = os.path.join(job['scratch'], 'run-%d' % job['idx']); shutil.rmtree(d, ignore_errors=True); shutil.copytree(job['template'], d, symlinks=True)
    mkconf(d, backend)
    cpname = f"crash-{arm['when']}" + ('-torn' if arm.get('torn', -1) != -1 else '') + f":{job['opkind']}"
    key_prefix = f"{kind}|{cpname}|{job['role']}"
    try:
        how, res = run_victim(job['paths'], ck, d, kind, arm)
        if how != 'died' or not res or not str(res.get('died', '')).startswith('crash'):
            part.inconc(f'victim did not die at the armed point: {kind} {arm} -> {how} {res if how == "died" else ""}'); return part
        try: R = probe(job['paths'], ck, d, usability=tuple(KINDS[kind]['written']) if KINDS[kind]['written'] != 'ALL' else ())
        except Died as ex:
            part.violation(f'{key_prefix}|recovery-crash({ex.kind()}@{ex.where()})', 'the recovering process crashed', {'kind': kind, 'arm': arm, 'backend': backend, 'stderr': (ex.stderr_tail or '')[-1500:]}); part.case((kind, arm['k'], arm['when'], arm.get('torn', -1), backend)); return part
        except Hang:
            part.violation(f'{key_prefix}|recovery-hang', 'the recovering process hung', {'kind': kind, 'arm': arm, 'backend': backend}); part.case((kind, arm['k'], arm['when'], arm.get('torn', -1), backend)); return part
        outs = judge(kind, job['S0'], job['S1'], R, part, arm, None)
        for oc in outs:
            part.violation(f'{key_prefix}|{oc}', f'after a crash {cpname} #{arm["k"]} of {kind}: {oc}', {'kind': kind, 'arm': arm, 'backend': backend, 'fs_op': job['op'], 'recovered': shrink(R['tokens']), 'S0': shrink(job['S0']['tokens']), 'replay': 'victim: template S0, pre-steps of the kind, fs crash k/when/torn, the call; then probe()'})
        part.case((kind, arm['k'], arm['when'], arm.get('torn', -1), backend), sample={'kind': kind, 'arm': arm, 'fs_op': job['op'], 'outcome': outs or 'old-or-new state'} if job['idx'] % 97 == 0 else None)
        part.count('crash_runs', 1); part.count('crash_runs_' + ('clean' if not outs else 'bad'), 1)
    except AssertionError as e: part.inconc(f'victim setup failed {kind} {arm}: {e!r}')
    except Hang: part.inconc(f'victim hang before the crash point {kind} {arm}')
    finally: shutil.rmtree(d, ignore_errors=True)
    return part

def run(ctx):
    ctx.need('plain', 'asan'); ck = ctx.ck
    kinds = list(KINDS); backends = ('file', 'db'); jobs = []; idx = 0; plan = {}
    QUICK_DB = ('read-everything(user)', 'read-everything(public)', 'C_SetAttributeValue', 'C_SetAttributeValue(multi)', 'C_DestroyObject', 'C_SetPIN(user)', 'C_Login(wrong-pin)', 'C_InitPIN', 'C_InitPIN(first)')
    for backend in backends:
        for big in ((False,) if ctx.quick else (False, True)):
            tdir = ctx.dir(f'template-{backend}-{int(big)}'); make_template(ctx.paths, ck, tdir, backend, big)
            d00 = ctx.dir('s0'); shutil.rmtree(d00); shutil.copytree(tdir, d00); mkconf(d00, backend); S0 = probe(ctx.paths, ck, d00)      # on a copy: the probe's own wrong-PIN logins leave PIN-count flags behind
            for f in os.listdir(tdir):
                if f.startswith(('stderr', 'trace')): os.unlink(os.path.join(tdir, f))
            if 'tokA' not in S0['tokens'] or len(S0['tokens']['tokA']['objects']) != 6: raise AssertionError('template probe unexpected: %r' % S0)
            for kind in kinds:
                if big and kind not in ('C_SetAttributeValue', 'C_SetAttributeValue(multi)', 'C_CopyObject', 'C_DestroyObject', 'C_Login(right-pin)'): continue
                if ctx.quick and backend == 'db' and kind not in QUICK_DB: continue
                d = ctx.dir('dry'); shutil.rmtree(d); shutil.copytree(tdir, d); mkconf(d, backend)
                how, res = run_victim(ctx.paths, ck, d, kind, None)
                if how != 'returned': ctx.inconc(f'dry run of {kind} died: {res}'); continue
                reply, trace = res
                if (reply['rv'] == 0) == bool(KINDS[kind].get('expect_fail')):
                    if backend == 'db' and kind == 'C_CopyObject': ctx.observe('skipped: C_CopyObject fails on the db back-end (known finding of C05/C20)', reply['rvname'])
                    else: ctx.inconc(f'dry run of {kind} returned {reply["rvname"]}')
                    continue
                S1 = probe(ctx.paths, ck, d); n = len(trace); plan[f'{kind}/{backend}/{"big" if big else "small"}'] = n
                S0k = S0
                if KINDS[kind].get('s0_after_pre'):      # the state before the interrupted call is the one after this kind's own preparation (e.g. a token that has no user PIN yet)
                    d0 = ctx.dir('pre'); shutil.rmtree(d0); shutil.copytree(tdir, d0); mkconf(d0, backend); run_victim(ctx.paths, ck, d0, kind, 'pre-only'); S0k = probe(ctx.paths, ck, d0)
                if n == 0: ctx.observe('call performs no FS operation on this back-end (nothing to interrupt)', f'{kind}/{backend}'); continue
                for (k, opkind, path) in trace:
                    full = os.path.join(tdir, 'tokens') + path; role = role_of(path)
                    for when in ('before', 'after'):
                        jobs.append(dict(kind=kind, arm={'k': k, 'when': when}, opkind=opkind, role=role, op=[k, opkind, path]));
                    if opkind == 'fflush':
                        # torn write: the flush happens, then the file is cut back
                        for frac in ('1', 'half', 'len-1'):
                            jobs.append(dict(kind=kind, arm={'k': k, 'when': 'after', 'torn': frac}, opkind=opkind, role=role, op=[k, opkind, path]))
                for j in jobs:
                    if 'template' not in j: j.update(template=tdir, S0=S0k, S1=S1, backend=backend, paths=ctx.paths, hdr=ctx.paths['asan']['hdr'], scratch=ctx.scratch)
    # torn sizes need the file length at that point: resolved in the victim as a fraction -> use sizes from S1 files is not possible; approximate with absolute sizes
    final = []
    for j in jobs:
        t = j['arm'].get('torn')
        if t is not None:
            j = dict(j); j['arm'] = dict(j['arm']); j['arm']['torn'] = {'1': 1, 'half': -2, 'len-1': -3}[t]
        j['idx'] = idx; idx += 1; final.append(j)
    ctx.extra['fs_operations_per_call'] = plan; ctx.extra['crash_points_planned'] = len(final)
    for part in pmap(crash_job, final, ctx.nproc): ctx.merge(part)
    ctx.extra['exhaustive'] = (ctx.extra.get('crash_runs', 0) == len(final))
    # a rewrite of a multi-buffer object file interrupted between two write() calls leaves a PREFIX of the new file; when the buffer boundary falls on a record boundary the prefix is a
    # well-formed object (the format has no end marker).  Instead of tuning attribute lengths until every record boundary sits on a buffer boundary, every such prefix is produced directly
    # (protected token keys, one per token directory), a fresh process opens the token, and the outcome watched is the worst one: the protected value being read or wrapped.
    sys.path.insert(0, os.path.dirname(os.path.abspath(__file__)))
    import c02
    for part in pmap(c02.cutoff_job, c02.cutoff_jobs(ctx, ctx.paths['asan']), ctx.nproc): ctx.merge(part)
    ctx.rule = ('for each writing call kind the FS operations (open/ftruncate/fflush/fclose/remove/mkdir/rmdir/...; sqlite writes for db) are numbered in a dry run; one evaluation = one victim killed at (operation k, before|after|after+torn{1,half,len-1}) '
                'followed by a recovery probe in a fresh ASan process (Initialize, token info, both PINs old and new, find all, all attributes, use AES keys); distinct = crash points whose victim really died there; '
                'judged against S0 (before) and S1 (completed call): untouched objects/PINs identical, written object old or new (absent only for creation/destruction); plus every record-boundary prefix of the object file of a protected token key (sensitive / unextractable / wrap-with-trusted, AES and RSA, public and private), opened by a fresh process that tries to read and to wrap the key')
    ctx.assumptions += ['process death only (no power loss: writes that reached the kernel survive)', 'generated keys are compared on their non-random attributes plus presence of the value']
if __name__ == '__main__': main('C16', run, level='fault_enumeration', min_evaluations=200, min_distinct=150, max_inconclusive_frac=0.02)
